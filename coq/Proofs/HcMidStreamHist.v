(* LZ4MID streaming, decoder side.

   - window lemmas at the level of the block specification: a block that decodes with some history
     also decodes, to the same bytes, with any window of at least 65535 bytes of a longer history;
   - [hhist_inv m k H]: the bytes an HC context designates (external segment ++ prefix) are the tail
     of the decoder-side history H;
   - every successful LZ4_compress_HC_continue / _continue_destSize / extStateHC_fastReset call at the
     lz4mid levels decodes with "the last 64 KB" to its (consumed) source; [hhist_inv] is re-established;
   - the prelude of LZ4_compressHC_continue_generic keeps [hhist_inv] for ANY placement of the new block
     (the HC overlap trimming handles every overlap); LZ4_saveDictHC and LZ4_loadDictHC likewise;
   - the statement over whole operation lists. *)
From Coq Require Import ZArith List Lia Bool ZifyBool FMapPositive.
From LZ4V Require Import Gen.Consts Spec.BlockSpec Model.Mem Model.Fast Model.FastApi Model.HcEmit Model.HcMid Model.HcMidStream.
From LZ4V Require Import Proofs.BlockSpecProofs Proofs.BlockHistExt Proofs.FactorSpec Proofs.FastStreamMem Proofs.HcMidSound Proofs.HcMidCap
     Proofs.HcMidStreamProofs.
Import ListNotations.
Local Open Scope Z_scope.

(* ---------------------------------------------------------------- window lemmas (specification level) *)
Lemma copy_match_cut : forall n (r e : list Z) off r',
  (off - 1 < length r)%nat -> copy_match (r ++ e) off n = Some r' ->
  exists d, r' = d ++ e /\ copy_match r off n = Some d.
Proof.
  induction n as [|n IH]; intros r e off r' Ho H; cbn [copy_match] in *; unfold byte in *.
  - injection H as <-. exists r. split; reflexivity.
  - rewrite nth_error_app1 in H by exact Ho.
    destruct (nth_error r (off - 1)) as [b|]; [|discriminate].
    apply (IH (b :: r) e off r'); [cbn [length]; lia | exact H].
Qed.

Lemma apply_seq_cut (r e : list Z) s r' :
  65535 <= Z.of_nat (length r) -> apply_seq (r ++ e) s = Some r' ->
  exists d, r' = d ++ e /\ apply_seq r s = Some d.
Proof.
  intros Hl. unfold apply_seq, off_ok.
  destruct ((1 <=? s_off s) && (s_off s <=? 65535) && (4 <=? s_mlen s)) eqn:E; [|discriminate].
  rewrite app_assoc. intros H. apply copy_match_cut in H; [exact H|].
  rewrite app_length, rev_length. lia.
Qed.

Lemma apply_seqs_cut : forall ss (r e : list Z) r',
  65535 <= Z.of_nat (length r) -> apply_seqs (r ++ e) ss = Some r' ->
  exists d, r' = d ++ e /\ apply_seqs r ss = Some d.
Proof.
  induction ss as [|s ss IH]; intros r e r' Hl H; cbn [apply_seqs] in *.
  - injection H as <-. exists r. split; reflexivity.
  - destruct (apply_seq (r ++ e) s) as [r1|] eqn:E; [|discriminate].
    destruct (apply_seq_cut r e s r1 Hl E) as (d1 & -> & E1). rewrite E1.
    apply IH; [|exact H].
    destruct (apply_seq_suffix r s d1 E1) as (x & ->). unfold byte in *. rewrite app_length. lia.
Qed.

Lemma run_seqs_cut (p t : list Z) ss last x :
  65535 <= Z.of_nat (length t) -> run_seqs (p ++ t) ss last = Some x -> run_seqs t ss last = Some x.
Proof.
  intros Hl. unfold run_seqs. unfold byte in *. rewrite rev_app_distr.
  destruct (apply_seqs (rev t ++ rev p) ss) as [r|] eqn:E; [|discriminate].
  destruct (apply_seqs_cut ss (rev t) (rev p) r ltac:(rewrite rev_length; exact Hl) E) as (d & -> & E1).
  rewrite E1. intros H. injection H as <-. f_equal.
  destruct (apply_seqs_suffix ss (rev t) d E1) as (y & ->).
  rewrite !rev_app_distr, !rev_involutive, <- !app_assoc, !app_length.
  rewrite <- (rev_involutive (p ++ t ++ rev y ++ last)) at 1.
  replace (p ++ t ++ rev y ++ last) with ((p ++ t) ++ rev y ++ last) by (rewrite <- app_assoc; reflexivity).
  rewrite rev_involutive.
  rewrite <- (app_length p t), !skipn_app_exact. reflexivity.
Qed.

Theorem spec_decode_cut p t c x :
  65535 <= Z.of_nat (length t) -> spec_decode (p ++ t) c = Some x -> spec_decode t c = Some x.
Proof.
  intros Hl. unfold spec_decode. destruct (parse_block c) as [[ss last]|]; [|discriminate]. apply run_seqs_cut. exact Hl.
Qed.
Theorem strict_valid_cut p t c x :
  65535 <= Z.of_nat (length t) -> strict_valid (p ++ t) c = Some x -> strict_valid t c = Some x.
Proof.
  intros Hl. unfold strict_valid. destruct (parse_block c) as [[ss last]|]; [|discriminate].
  destruct (end_ok ss last); [apply run_seqs_cut; exact Hl | discriminate].
Qed.

(* a block decodable with the last L bytes of H is decodable with any window of >= 65535 bytes of H *)
Lemma lastn_split2 {A} j k (l : list A) : (j <= k)%nat -> exists p, lastn k l = p ++ lastn j l.
Proof.
  intros H. unfold lastn.
  destruct (Nat.le_gt_cases k (length l)) as [Hk|Hk].
  - exists (firstn (k - j) (skipn (length l - k) l)).
    rewrite <- (firstn_skipn (k - j) (skipn (length l - k) l)) at 1. f_equal.
    assert (G : forall (a b : nat) (x : list A), skipn a (skipn b x) = skipn (a + b) x).
    { induction b as [|b IH]; intros x; [rewrite Nat.add_0_r; reflexivity|].
      destruct x as [|y x]; [rewrite !skipn_nil; reflexivity|]. replace (a + S b)%nat with (S (a + b)) by lia. cbn [skipn]. apply IH. }
    rewrite G. f_equal. lia.
  - replace (length l - k)%nat with 0%nat by lia. cbn [skipn].
    exists (firstn (length l - j) l). symmetry. apply firstn_skipn.
Qed.

Theorem window_spec (H : list Z) L K c x :
  spec_decode (lastn L H) c = Some x -> 65535 <= Z.of_nat K -> spec_decode (lastn K H) c = Some x.
Proof.
  intros D HK. destruct (Nat.le_gt_cases L K) as [Hle|Hgt].
  - destruct (lastn_split2 L K H Hle) as (p & ->). apply spec_decode_ext. exact D.
  - destruct (lastn_split2 K L H ltac:(lia)) as (p & E). rewrite E in D.
    destruct (Nat.le_gt_cases K (length H)) as [Hk|Hk].
    + apply (spec_decode_cut p); [rewrite lastn_length by exact Hk; exact HK | exact D].
    + rewrite !lastn_all in * by lia.
      assert (p = []) as ->.
      { apply (f_equal (@length Z)) in E. rewrite app_length in E. destruct p; [reflexivity | cbn [length] in E; lia]. }
      exact D.
Qed.
Theorem window_strict (H : list Z) L K c x :
  strict_valid (lastn L H) c = Some x -> 65535 <= Z.of_nat K -> strict_valid (lastn K H) c = Some x.
Proof.
  intros D HK. destruct (Nat.le_gt_cases L K) as [Hle|Hgt].
  - destruct (lastn_split2 L K H Hle) as (p & ->). apply strict_valid_ext. exact D.
  - destruct (lastn_split2 K L H ltac:(lia)) as (p & E). rewrite E in D.
    destruct (Nat.le_gt_cases K (length H)) as [Hk|Hk].
    + apply (strict_valid_cut p); [rewrite lastn_length by exact Hk; exact HK | exact D].
    + rewrite !lastn_all in * by lia.
      assert (p = []) as ->.
      { apply (f_equal (@length Z)) in E. rewrite app_length in E. destruct p; [reflexivity | cbn [length] in E; lia]. }
      exact D.
Qed.

(* ================================================================ what an HC context designates as history *)
Definition k_xlen (k : hcore) : Z := k_dictLimit k - k_lowLimit k.
Definition k_plen (k : hcore) : Z := k_end k - k_prefixStart k.
Definition hvis (m : mem) (k : hcore) : list Z :=
  load_list m (k_dictStart k) (Z.to_nat (k_xlen k)) ++ load_list m (k_prefixStart k) (Z.to_nat (k_plen k)).
Definition is_suffix (v H : list Z) : Prop := exists p, H = p ++ v.
Definition hhist_inv (m : mem) (k : hcore) (H : list Z) : Prop := is_suffix (hvis m k) H.
(* with a dictionary context searched in place: its prefix comes first *)
Definition dvis (m : mem) (dc : option hcore) : list Z :=
  match dc with Some d => load_list m (k_prefixStart d) (Z.to_nat (k_plen d)) | None => [] end.
Definition hhist_invd (m : mem) (k : hcore) (dc : option hcore) (H : list Z) : Prop := is_suffix (dvis m dc ++ hvis m k) H.

Lemma is_suffix_lastn v H : is_suffix v H -> lastn (length v) H = v.
Proof. intros (p & ->). apply lastn_app_r. Qed.
Lemma is_suffix_trans a b c : is_suffix a b -> is_suffix b c -> is_suffix a c.
Proof. intros (p & ->) (q & ->). exists (q ++ p). rewrite app_assoc. reflexivity. Qed.
Lemma is_suffix_nil H : is_suffix [] H.
Proof. exists H. rewrite app_nil_r. reflexivity. Qed.
Lemma is_suffix_app_r a b : is_suffix b (a ++ b).
Proof. exists a. reflexivity. Qed.
Lemma is_suffix_snoc v H b : is_suffix v H -> is_suffix (v ++ b) (H ++ b).
Proof. intros (p & ->). exists p. rewrite app_assoc. reflexivity. Qed.

Lemma load_list_split m a n k : (k <= n)%nat -> load_list m a n = load_list m a (n - k) ++ load_list m (a + Z.of_nat (n - k)) k.
Proof. intros H. rewrite <- load_list_app. f_equal. lia. Qed.

(* the history part of the parser's virtual index space is exactly [hvis] *)
Lemma seg_hvis m k :
  0 <= k_lowLimit k <= k_dictLimit k -> k_prefixStart k <= k_end k ->
  seg (k_vrd m k) (k_lowLimit k) (k_endIdx k) = hvis m k.
Proof.
  intros L P. unfold hvis, k_xlen, k_plen, k_endIdx.
  rewrite <- (seg_app (k_vrd m k) (k_lowLimit k) (k_dictLimit k)) by lia. f_equal.
  - apply seg_as_load; [lia|]. intros i Hi. unfold k_vrd. replace (k_lowLimit k + i >=? k_dictLimit k) with false by lia. f_equal. lia.
  - rewrite (seg_as_load _ m _ _ (k_prefixStart k)); [f_equal; lia | lia |].
    intros i Hi. unfold k_vrd. replace (k_dictLimit k + i >=? k_dictLimit k) with true by lia. f_equal. lia.
Qed.

Lemma seg_hvisd m k dc :
  0 <= k_lo k dc -> 0 <= k_dlen dc -> 0 <= k_lowLimit k <= k_dictLimit k -> k_prefixStart k <= k_end k ->
  seg (kd_vrd m k dc) (k_lo k dc) (k_endIdx k) = dvis m dc ++ hvis m k.
Proof.
  intros Hlo Hdl L P.
  rewrite <- (seg_app (kd_vrd m k dc) (k_lo k dc) (k_lowLimit k)) by (unfold k_lo, k_endIdx; lia). f_equal.
  - unfold k_lo, k_dlen, dvis, k_plen in *. destruct dc as [d|].
    + rewrite (seg_as_load _ m _ _ (k_prefixStart d)); [f_equal; lia | lia |].
      intros i Hi. unfold kd_vrd. replace (k_lowLimit k - (k_end d - k_prefixStart d) + i >=? k_lowLimit k) with false by lia. f_equal. lia.
    + replace (k_lowLimit k - 0) with (k_lowLimit k) by lia. unfold seg. rewrite Z.sub_diag. reflexivity.
  - rewrite <- (seg_hvis m k L P). unfold seg. remember (Z.to_nat (k_endIdx k - k_lowLimit k)) as cnt eqn:Ec. clear Ec.
    assert (G : forall c0 a, k_lowLimit k <= a -> bytes (kd_vrd m k dc) c0 a = bytes (k_vrd m k) c0 a).
    { induction c0 as [|c0 IH]; intros a Ha; cbn [bytes]; [reflexivity|]. rewrite kd_vrd_hi by lia. f_equal. apply IH. lia. }
    apply G. lia.
Qed.

(* ---------------------------------------------------------------- one successful call, decoder side *)
Lemma dc_ready_lo ke dc src : k_ready ke src -> dc_ready dc -> 0 <= k_lo ke dc /\ 0 <= k_dlen dc.
Proof.
  intros ((L & _) & _ & Ha & _) Hdc. unfold k_lo, k_dlen. destruct dc as [d|]; [|lia].
  destruct Hdc as ((Dk & _ & _ & _ & Dsr) & Dm). destruct (Dsr Dm) as (_ & _ & D3 & _). destruct Dk as (_ & Dp & _). unfold K64 in *. lia.
Qed.

Theorem hs_call_decodes m ke dc src n cap lim ret consumed out hw c' H :
  k_ready ke src -> dc_ready dc -> call_post m ke dc src n cap lim ret consumed out hw c' -> hhist_invd m ke dc H -> 0 < ret ->
  (forall K, 65535 <= Z.of_nat K -> spec_decode (lastn K H) out = Some (load_list m src (Z.to_nat consumed))) /\
  (lim <> FillOutput ->
   forall K, 65535 <= Z.of_nat K -> strict_valid (lastn K H) out = Some (load_list m src (Z.to_nat consumed))) /\
  hhist_invd m (hs_core c') (hs_dctx c') (H ++ load_list m src (Z.to_nat consumed)).
Proof.
  intros R Hdc Qall HI Hr. destruct (dc_ready_lo ke dc src R Hdc) as (Hlo & Hdl).
  destruct R as ((L & P & _) & _ & _ & _ & Hend). destruct Qall as (_ & _ & _ & _ & _ & _ & Q).
  destruct (Q Hr) as (_ & _ & _ & Hc & Hfull & Dsp & Dst & After & Adc).
  rewrite seg_hvisd in Dsp, Dst by lia.
  pose proof (is_suffix_lastn _ _ HI) as EL.
  split; [|split].
  - intros K HK. apply (window_spec H (length (dvis m dc ++ hvis m ke)) K); [rewrite EL; exact Dsp | exact HK].
  - intros Hl K HK. apply (window_strict H (length (dvis m dc ++ hvis m ke)) K); [rewrite EL; exact (Dst Hl) | exact HK].
  - unfold hhist_invd. destruct After as [(_ & A2 & A3 & A4 & A5) | (A1 & A2 & A3 & A4 & A5 & A6)].
    + replace (consumed <? n) with true in Adc by lia. rewrite Adc.
      unfold hvis, k_xlen, k_plen. rewrite A3, A4, A5.
      replace (Z.to_nat (k_dictLimit (hs_core c') - k_dictLimit (hs_core c'))) with 0%nat by lia.
      replace (Z.to_nat (src + consumed - (src + consumed))) with 0%nat by lia. cbn [dvis load_list app]. apply is_suffix_nil.
    + subst consumed. rewrite Z.ltb_irrefl in Adc. rewrite Adc.
      unfold hhist_invd in HI. unfold hvis, k_xlen, k_plen in *. rewrite A2, A3, A4, A5, A6.
      replace (Z.to_nat (src + n - k_prefixStart ke)) with (Z.to_nat (k_end ke - k_prefixStart ke) + Z.to_nat n)%nat by lia.
      rewrite load_list_app, !app_assoc.
      replace (k_prefixStart ke + Z.of_nat (Z.to_nat (k_end ke - k_prefixStart ke))) with src by lia.
      apply is_suffix_snoc. rewrite <- app_assoc. exact HI.
Qed.

(* ================================================================ the prelude only shrinks the designated bytes to a suffix *)
Lemma hvis_nil m k : k_xlen k = 0 -> k_plen k = 0 -> hvis m k = [].
Proof. intros H1 H2. unfold hvis. rewrite H1, H2. reflexivity. Qed.

Lemma pre1_hist m c src : hs_ok c -> 0 <= src -> is_suffix (hvis m (hs_core (pre1 c src))) (hvis m (hs_core c)).
Proof.
  intros (K & _) Hs. unfold pre1. destruct (k_prefixStart (hs_core c) =? 0); [|exists []; reflexivity].
  cbn [hs_core]. pose proof (k_init_internal_ok (hs_core c) src K Hs) as I0. cbv zeta in I0.
  destruct I0 as (_ & _ & _ & _ & I5 & I6 & I7 & _).
  rewrite hvis_nil; [apply is_suffix_nil | unfold k_xlen; lia | unfold k_plen; lia].
Qed.

Lemma pre2_hist m m2 c c2 : hs_ok c -> pre2 m c = Some c2 -> is_suffix (hvis m2 (hs_core c2)) (hvis m2 (hs_core c)).
Proof.
  intros (K & _). unfold pre2. cbv zeta. pose proof K as (L & P & _).
  destruct (_ >? GB2).
  - remember (k_end (hs_core c) - k_prefixStart (hs_core c)) as pl eqn:Epl.
    remember (if pl >? K64 then K64 else pl) as ds eqn:Eds.
    assert (Hds : 0 <= ds <= pl /\ ds <= K64) by (rewrite Eds; unfold K64; destruct (pl >? 65536) eqn:E1; lia).
    destruct (hs_loadDict m c (k_end (hs_core c) - ds) ds) as [[c' r]|] eqn:El; [|discriminate].
    intros Heq. injection Heq as <-.
    pose proof (hs_loadDict_ok m c (k_end (hs_core c) - ds) ds c' r ltac:(lia) ltac:(lia) El) as LD.
    destruct LD as (_ & _ & _ & L4 & L5 & L6 & L7 & L8 & _).
    unfold hvis at 1. unfold k_xlen, k_plen. rewrite L5, L6, L7, L8, L4.
    replace (Z.to_nat (K64 - K64)) with 0%nat by lia. cbn [load_list app].
    replace (k_end (hs_core c) - ds + ds - (k_end (hs_core c) - ds + ds - Z.min ds K64)) with ds by lia.
    replace (k_end (hs_core c) - ds + ds - Z.min ds K64) with (k_end (hs_core c) - ds) by lia.
    unfold hvis, k_plen. rewrite <- Epl.
    rewrite (load_list_split m2 (k_prefixStart (hs_core c)) (Z.to_nat pl) (Z.to_nat ds)) by lia.
    replace (k_prefixStart (hs_core c) + Z.of_nat (Z.to_nat pl - Z.to_nat ds)) with (k_end (hs_core c) - ds) by lia.
    rewrite app_assoc. apply is_suffix_app_r.
  - intros Heq. injection Heq as <-. exists []. reflexivity.
Qed.

Lemma pre3_hist m c src : hs_ok c -> K64 <= k_lowLimit (hs_core c) -> 0 <= src ->
  is_suffix (hvis m (hs_core (pre3 c src))) (hvis m (hs_core c)).
Proof.
  intros (K & _) Ha Hs. unfold pre3. destruct (negb (src =? k_end (hs_core c))); [|exists []; reflexivity].
  cbn [hs_core]. pose proof (k_setExternalDict_ok (hs_core c) src K ltac:(destruct K as (L & _); lia) Hs) as S0. cbv zeta in S0.
  destruct S0 as (_ & _ & _ & S4 & S5 & S6 & S7 & S8 & _).
  unfold hvis at 1. unfold k_xlen, k_plen. rewrite S4, S5, S6, S7, S8.
  replace (Z.to_nat (src - src)) with 0%nat by lia. cbn [load_list]. rewrite app_nil_r.
  unfold hvis, k_plen, k_endIdx.
  replace (k_dictLimit (hs_core c) + (k_end (hs_core c) - k_prefixStart (hs_core c)) - k_dictLimit (hs_core c))
    with (k_end (hs_core c) - k_prefixStart (hs_core c)) by lia.
  apply is_suffix_app_r.
Qed.

(* after the overlap trimming: a suffix again, and the new block [src, src+n) does not touch what remains *)
Definition clear_of (k : hcore) (src n : Z) : Prop :=
  (k_xlen k = 0 \/ src + n <= k_dictStart k \/ k_dictStart k + k_xlen k <= src) /\
  (k_plen k = 0 \/ k_prefixStart k + k_plen k <= src).

Lemma pre4_hist m c src n : k_ready (hs_core c) src -> 0 <= src -> 0 <= n ->
  is_suffix (hvis m (hs_core (pre4 c src n))) (hvis m (hs_core c)) /\ clear_of (hs_core (pre4 c src n)) src n.
Proof.
  intros ((L & P & E & _) & _ & _ & _ & R5) Hs Hn. unfold pre4. cbv zeta.
  remember (hs_core c) as k eqn:Ek. unfold k_endIdx, EMAX in E.
  assert (U0 : u32 (k_dictLimit k - k_lowLimit k) = k_dictLimit k - k_lowLimit k) by (apply u32s; lia).
  rewrite U0.
  assert (PC : forall k', k_prefixStart k' = k_prefixStart k -> k_end k' = k_end k -> k_plen k' = 0 \/ k_prefixStart k' + k_plen k' <= src).
  { intros k' H1 H2. right. unfold k_plen. lia. }
  destruct ((src + n >? k_dictStart k) && (src <? k_dictStart k + (k_dictLimit k - k_lowLimit k))) eqn:Ec.
  - remember (if src + n >? k_dictStart k + (k_dictLimit k - k_lowLimit k) then k_dictStart k + (k_dictLimit k - k_lowLimit k) else src + n) as se eqn:Ese.
    assert (Hse : k_dictStart k <= se <= k_dictStart k + (k_dictLimit k - k_lowLimit k) /\ (se = src + n \/ se = k_dictStart k + (k_dictLimit k - k_lowLimit k))).
    { rewrite Ese. destruct (src + n >? k_dictStart k + (k_dictLimit k - k_lowLimit k)) eqn:E1; lia. }
    assert (U1 : u32 (se - k_dictStart k) = se - k_dictStart k) by (apply u32s; lia). rewrite U1.
    assert (U2 : u32 (k_lowLimit k + (se - k_dictStart k)) = k_lowLimit k + (se - k_dictStart k)) by (apply u32s; lia). rewrite U2.
    assert (U3 : u32 (k_dictLimit k - (k_lowLimit k + (se - k_dictStart k))) = k_dictLimit k - (k_lowLimit k + (se - k_dictStart k))) by (apply u32s; lia).
    rewrite U3.
    destruct (k_dictLimit k - (k_lowLimit k + (se - k_dictStart k)) <? LZ4HC_HASHSIZE) eqn:E4; cbn [hs_core].
    + split.
      * unfold hvis at 1. unfold k_xlen, k_plen. cbn [k_dictLimit k_lowLimit k_dictStart k_prefixStart k_end].
        replace (Z.to_nat (k_dictLimit k - k_dictLimit k)) with 0%nat by lia. cbn [load_list app].
        unfold hvis, k_plen. apply is_suffix_app_r.
      * split; [left; unfold k_xlen; cbn [k_dictLimit k_lowLimit]; lia | apply PC; reflexivity].
    + split.
      * unfold hvis, k_xlen, k_plen. cbn [k_dictLimit k_lowLimit k_dictStart k_prefixStart k_end].
        remember (se - k_dictStart k) as dlt eqn:Edl.
        rewrite (load_list_split m (k_dictStart k) (Z.to_nat (k_dictLimit k - k_lowLimit k)) (Z.to_nat (k_dictLimit k - (k_lowLimit k + dlt)))) by lia.
        replace (k_dictStart k + Z.of_nat (Z.to_nat (k_dictLimit k - k_lowLimit k) - Z.to_nat (k_dictLimit k - (k_lowLimit k + dlt))))
          with (k_dictStart k + dlt) by lia.
        rewrite <- app_assoc. apply is_suffix_app_r.
      * split; [|apply PC; reflexivity]. unfold k_xlen. cbn [k_dictLimit k_lowLimit k_dictStart]. lia.
  - rewrite <- Ek. split; [exists []; reflexivity|]. split; [|apply PC; reflexivity].
    unfold k_xlen. lia.
Qed.

Lemma hs_prelude_hist m m2 c src n c1 :
  pre_inv c -> 0 < src -> 0 <= n -> hs_prelude m c src n = Some c1 ->
  is_suffix (hvis m2 (hs_core c1)) (hvis m2 (hs_core (pre1 c src))) /\
  is_suffix (hvis m2 (hs_core c1)) (hvis m2 (hs_core c)) /\ clear_of (hs_core c1) src n.
Proof.
  intros P Hs Hn. rewrite hs_prelude_eq.
  destruct (pre1_ok c src P ltac:(lia)) as (P1 & A1 & D1).
  destruct (pre2 m (pre1 c src)) as [c2|] eqn:E2; [|discriminate].
  destruct (pre2_ok m (pre1 c src) c2 P1 A1 E2) as (P2 & A2 & G2 & D2).
  destruct (pre3_ok c2 src P2 A2 G2 ltac:(lia)) as (P3 & R3 & D3).
  destruct (pre4_hist m2 (pre3 c2 src) src n R3 ltac:(lia) Hn) as (H4 & C4).
  intros Heq. injection Heq as <-.
  assert (S1 : is_suffix (hvis m2 (hs_core (pre4 (pre3 c2 src) src n))) (hvis m2 (hs_core (pre1 c src)))).
  { eapply is_suffix_trans; [exact H4|].
    eapply is_suffix_trans; [apply (pre3_hist m2 c2 src (proj1 P2) A2 ltac:(lia))|].
    apply (pre2_hist m m2 (pre1 c src) c2 (proj1 P1) E2). }
  split; [exact S1|]. split; [|exact C4].
  eapply is_suffix_trans; [exact S1|]. apply (pre1_hist m2 c src (proj1 P) ltac:(lia)).
Qed.

(* ---------------------------------------------------------------- the context the parser runs on *)
(* no dictionary context, or one that is detached (position >= 64 KB): the designated bytes are a suffix of the
   stream's own; dictionary context copied in: they are the dictionary stream's prefix *)
Lemma hs_effective_hist m m2 c src n ke dc H :
  pre_inv c -> 0 < src -> 0 <= n -> hs_effective m c src n = Some (ke, dc) ->
  (k_prefixStart (hs_core c) = 0 \/ hhist_inv m2 (hs_core c) H) ->
  (match hs_dctx c with Some d => hhist_inv m2 d H | None => True end) ->
  (dc <> None -> k_prefixStart (hs_core c) = 0) ->
  hhist_invd m2 ke dc H /\ (hs_dctx c = None -> dc = None /\ clear_of ke src n).
Proof.
  intros P Hs Hn. unfold hs_effective.
  destruct (hs_prelude m c src n) as [c1|] eqn:E; [|discriminate].
  destruct (hs_prelude_hist m m2 c src n c1 P Hs Hn E) as (Sp & S1 & C1).
  destruct (hs_prelude_ok m c src n c1 P Hs Hn E) as (P1 & R1 & D1).
  unfold hs_pick. cbv zeta. intros Hp HI HD Hfresh.
  assert (Ev0 : k_prefixStart (hs_core c) = 0 -> hvis m2 (hs_core c1) = []).
  { intros Hz.
    assert (Ev : hvis m2 (hs_core (pre1 c src)) = []).
    { unfold pre1. rewrite Hz. cbn [Z.eqb hs_core].
      pose proof (k_init_internal_ok (hs_core c) src (proj1 (proj1 P)) ltac:(lia)) as I0. cbv zeta in I0.
      destruct I0 as (_ & _ & _ & _ & I5 & I6 & I7 & _). apply hvis_nil; [unfold k_xlen; lia | unfold k_plen; lia]. }
    rewrite Ev in Sp. destruct Sp as (q & Eq). symmetry in Eq. apply app_eq_nil in Eq. apply Eq. }
  assert (Own : hhist_inv m2 (hs_core c1) H).
  { destruct HI as [Hz|HI]; [|eapply is_suffix_trans; [exact S1 | exact HI]].
    unfold hhist_inv. rewrite (Ev0 Hz). apply is_suffix_nil. }
  assert (OwnD : forall k, hhist_inv m2 k H -> hhist_invd m2 k None H) by (intros k Hk; exact Hk).
  destruct (hs_dctx c1) as [d|] eqn:Ed.
  - assert (Edc : hs_dctx c = Some d) by (destruct D1 as [D1|D1]; congruence).
    rewrite Edc in HD.
    destruct (_ >=? K64); [injection Hp as <- <-; split; [exact (OwnD _ Own) | intros; congruence]|].
    destruct (_ && _ && _).
    + injection Hp as <- <-.
      split; [|intros; congruence]. apply OwnD.
      destruct P1 as ((_ & Dd) & _). rewrite Ed in Dd. destruct Dd as (Dk & _ & Da & _).
      pose proof (k_setExternalDict_ok d src Dk Da ltac:(lia)) as S0. cbv zeta in S0.
      destruct S0 as (_ & _ & _ & S4 & S5 & S6 & S7 & S8 & _).
      unfold k_setExternalDict in S4. cbn [k_dictLimit] in S4.
      unfold hhist_inv. unfold hvis at 1. unfold k_xlen, k_plen. cbn [k_dictLimit k_lowLimit k_dictStart k_prefixStart k_end].
      rewrite S4. replace (Z.to_nat (src - src)) with 0%nat by lia. cbn [load_list]. rewrite app_nil_r.
      eapply is_suffix_trans; [|exact HD]. unfold hvis, k_plen, k_endIdx.
      replace (k_dictLimit d + (k_end d - k_prefixStart d) - k_dictLimit d) with (k_end d - k_prefixStart d) by lia.
      apply is_suffix_app_r.
    + destruct (is_mid (k_level d)); [|discriminate]. injection Hp as <- <-.
      split; [|intros; congruence].
      unfold hhist_invd. rewrite (Ev0 (Hfresh ltac:(discriminate))), app_nil_r. cbn [dvis].
      eapply is_suffix_trans; [|exact HD]. unfold hvis. apply is_suffix_app_r.
  - injection Hp as <- <-. split; [exact (OwnD _ Own) | intros _; split; [reflexivity | exact C1]].
Qed.

(* the caller writes the next block [src, src + |bs|): whatever its placement, the bytes the call will use as
   history are untouched (the overlap trimming of the HC API covers every overlap) *)
Lemma hvis_write m k src bs : clear_of k src (Z.of_nat (length bs)) -> 0 <= k_xlen k -> 0 <= k_plen k ->
  hvis (store_list m src bs) k = hvis m k.
Proof.
  intros (C1 & C2) Hx Hp. unfold hvis. f_equal.
  - destruct (Z.eq_dec (k_xlen k) 0) as [->|Hnz]; [reflexivity|]. apply load_store_other. lia.
  - destruct (Z.eq_dec (k_plen k) 0) as [->|Hnz]; [reflexivity|]. apply load_store_other. lia.
Qed.

Lemma hs_effective_nodict m c src n ke dc :
  pre_inv c -> 0 < src -> 0 <= n -> hs_dctx c = None -> hs_effective m c src n = Some (ke, dc) -> dc = None.
Proof.
  intros P Hs Hn Hd. unfold hs_effective. destruct (hs_prelude m c src n) as [c1|] eqn:E; [|discriminate].
  destruct (hs_prelude_ok m c src n c1 P Hs Hn E) as (_ & _ & D1).
  assert (E1 : hs_dctx c1 = None) by (destruct D1 as [D1|D1]; congruence).
  unfold hs_pick. rewrite E1. intros Hp. injection Hp as _ <-. reflexivity.
Qed.

Theorem hs_write_block_hist m c src bs ke dc H :
  pre_inv c -> hs_dctx c = None -> 0 < src ->
  hs_effective (store_list m src bs) c src (Z.of_nat (length bs)) = Some (ke, dc) ->
  hhist_inv m (hs_core c) H ->
  dc = None /\ hhist_invd (store_list m src bs) ke dc H.
Proof.
  intros P Hd Hs He HI.
  assert (HD : match hs_dctx c with Some d => hhist_inv m d H | None => True end) by (rewrite Hd; exact I).
  pose proof (hs_effective_nodict (store_list m src bs) c src (Z.of_nat (length bs)) ke dc P Hs ltac:(lia) Hd He) as ->.
  destruct (hs_effective_hist (store_list m src bs) m c src (Z.of_nat (length bs)) ke None H P Hs ltac:(lia) He (or_intror HI) HD
              ltac:(intros X; exfalso; apply X; reflexivity)) as (A & B).
  pose proof (hs_effective_ready (store_list m src bs) c src (Z.of_nat (length bs)) ke None (proj1 P) (proj1 (proj2 P)) (proj2 (proj2 P)) Hs ltac:(lia) He) as (((L & Pp & _) & _) & _).
  split; [reflexivity|]. unfold hhist_invd. cbn [dvis app]. rewrite hvis_write; [exact A | exact (proj2 (B Hd)) | unfold k_xlen; lia | unfold k_plen; lia].
Qed.

(* LZ4_saveDictHC: the saved bytes are the tail of the prefix, hence of H *)
Lemma hs_saveDict_hist m c a n H :
  hmem_ok m -> hs_ok c -> 0 < a -> hhist_inv m (hs_core c) H ->
  hhist_inv (fst (fst (hs_saveDict m c a n))) (hs_core (snd (fst (hs_saveDict m c a n)))) H.
Proof.
  intros Hm K Ha HI. pose proof (hs_saveDict_ok m c a n Hm K Ha) as S. cbv zeta in S.
  destruct S as (_ & K' & _ & _ & _ & Sr & S0 & S1).
  destruct (Z.eq_dec (k_prefixStart (hs_core c)) 0) as [Hz|Hnz].
  - destruct (S0 Hz) as (-> & -> & _). exact HI.
  - destruct (S1 Hnz) as (T1 & T2 & T3 & T4 & T5 & T6 & _).
    remember (snd (hs_saveDict m c a n)) as r eqn:Er.
    remember (hs_core (snd (fst (hs_saveDict m c a n)))) as k' eqn:Ek'.
    rewrite T6. unfold hhist_inv. unfold hvis at 1. unfold k_xlen, k_plen. rewrite T2, T3, T4.
    replace (Z.to_nat (k_dictLimit k' - k_dictLimit k')) with 0%nat by lia. cbn [load_list app].
    replace (a + r - a) with r by lia.
    destruct K as ((L & P & _) & _).
    assert (Hsuf : is_suffix (load_list m (k_end (hs_core c) - r) (Z.to_nat r)) (hvis m (hs_core c))).
    { unfold hvis, k_plen.
      rewrite (load_list_split m (k_prefixStart (hs_core c)) (Z.to_nat (k_end (hs_core c) - k_prefixStart (hs_core c))) (Z.to_nat r)) by lia.
      replace (k_prefixStart (hs_core c) + Z.of_nat (Z.to_nat (k_end (hs_core c) - k_prefixStart (hs_core c)) - Z.to_nat r)) with (k_end (hs_core c) - r) by lia.
      rewrite app_assoc. apply is_suffix_app_r. }
    destruct (r >? 0) eqn:Er0.
    + unfold blit. rewrite <- (load_list_length m (k_end (hs_core c) - r) (Z.to_nat r)) at 2. rewrite load_store_same.
      eapply is_suffix_trans; [exact Hsuf | exact HI].
    + replace (Z.to_nat r) with 0%nat by lia. cbn [load_list]. apply is_suffix_nil.
Qed.

(* the same with a dictionary context attached to a stream that has no external segment (the documented use: attached to
   a stream without history; LZ4HC_setExternalDict detaches it): saving fewer bytes than the prefix holds detaches the
   dictionary (fix F18), saving the whole prefix keeps it, and either way the bytes designated afterwards are a tail of H.
   The save buffer must not overlap the dictionary's bytes. *)
Lemma hs_saveDict_histd m c a n H :
  hmem_ok m -> hs_ok c -> 0 < a -> (hs_dctx c = None \/ k_xlen (hs_core c) = 0) ->
  (forall d, hs_dctx c = Some d -> a + K64 <= k_prefixStart d \/ k_end d <= a) ->
  hhist_invd m (hs_core c) (hs_dctx c) H ->
  hhist_invd (fst (fst (hs_saveDict m c a n))) (hs_core (snd (fst (hs_saveDict m c a n)))) (hs_dctx (snd (fst (hs_saveDict m c a n)))) H.
Proof.
  intros Hm K Ha Hx Hdis HI. pose proof (hs_saveDict_ok m c a n Hm K Ha) as S. cbv zeta in S.
  destruct S as (_ & K' & _ & _ & _ & Sr & S0 & S1).
  destruct (Z.eq_dec (k_prefixStart (hs_core c)) 0) as [Hz|Hnz].
  - destruct (S0 Hz) as (-> & -> & _). exact HI.
  - destruct (S1 Hnz) as (T1 & T2 & T3 & T4 & T5 & T6 & T7).
    remember (snd (hs_saveDict m c a n)) as r eqn:Er.
    remember (hs_core (snd (fst (hs_saveDict m c a n)))) as k' eqn:Ek'.
    remember (fst (fst (hs_saveDict m c a n))) as m' eqn:Em'.
    assert (Own : hhist_inv m (hs_core c) H).
    { unfold hhist_invd in HI. eapply is_suffix_trans; [|exact HI]. apply is_suffix_app_r. }
    pose proof (hs_saveDict_hist m c a n H Hm K Ha Own) as Own'. rewrite <- Em', <- Ek' in Own'.
    rewrite T7. destruct (r <? k_end (hs_core c) - k_prefixStart (hs_core c)) eqn:Et; [exact Own'|].
    destruct (hs_dctx c) as [d|] eqn:Ed; [|exact Own'].
    destruct Hx as [Hx|Hx]; [discriminate|].
    destruct K as ((L & P & _) & Dk). rewrite Ed in Dk. destruct Dk as ((_ & Dp & _) & _).
    assert (Er2 : r = k_end (hs_core c) - k_prefixStart (hs_core c)) by lia.
    unfold hhist_invd in *. cbn [dvis] in *.
    assert (Hv : hvis m' k' = hvis m (hs_core c)).
    { unfold hvis, k_xlen, k_plen in *. rewrite T2, T3, T4, Hx.
      replace (Z.to_nat (k_dictLimit k' - k_dictLimit k')) with 0%nat by lia. cbn [load_list app].
      replace (a + r - a) with r by lia. rewrite T6. destruct (r >? 0) eqn:Er0.
      - unfold blit. rewrite <- (load_list_length m (k_end (hs_core c) - r) (Z.to_nat r)) at 2. rewrite load_store_same.
        rewrite <- Er2. cbn [Z.to_nat load_list app]. f_equal; lia.
      - replace (Z.to_nat r) with 0%nat by lia. rewrite <- Er2. replace (Z.to_nat r) with 0%nat by lia. reflexivity. }
    assert (Hd : load_list m' (k_prefixStart d) (Z.to_nat (k_plen d)) = load_list m (k_prefixStart d) (Z.to_nat (k_plen d))).
    { rewrite T6. destruct (r >? 0) eqn:Er0; [|reflexivity]. unfold blit.
      destruct (Z.eq_dec (k_plen d) 0) as [->|Hnzd]; [reflexivity|].
      apply load_store_other. rewrite load_list_length. unfold k_plen in *. unfold K64 in *.
      destruct (Hdis d eq_refl) as [Hl|Hr]; lia. }
    rewrite Hv, Hd. exact HI.
Qed.

(* LZ4_loadDictHC of any size: the context designates the last min(n, 64 KB) bytes of the dictionary *)
Lemma hs_loadDict_hist m c a n c' r :
  0 <= n -> 0 <= a -> hs_loadDict m c a n = Some (c', r) -> hhist_inv m (hs_core c') (load_list m a (Z.to_nat n)).
Proof.
  intros Hn Ha E. pose proof (hs_loadDict_ok m c a n c' r Hn Ha E) as LD.
  destruct LD as (_ & _ & _ & L4 & L5 & L6 & L7 & L8 & _).
  unfold hhist_inv, hvis, k_xlen, k_plen. rewrite L5, L6, L7, L8.
  replace (Z.to_nat (K64 - K64)) with 0%nat by lia. cbn [load_list app].
  replace (a + n - (a + n - r)) with r by lia.
  rewrite (load_list_split m a (Z.to_nat n) (Z.to_nat r)) by (unfold K64 in *; lia).
  replace (a + Z.of_nat (Z.to_nat n - Z.to_nat r)) with (a + n - r) by (unfold K64 in *; lia).
  apply is_suffix_app_r.
Qed.

(* ================================================================ whole operation lists *)
(* what the DEcoder has after an operation ([ret], [consumed]: what the call returned) *)
Definition hhist_next (st : mem * hsctx) (H : list Z) (o : hop) (ret consumed : Z) : list Z :=
  match o with
  | HWrite _ _ | HSaveDict _ _ | HSetLevel _ | HAttach None => H
  | HInit | HResetStream _ | HResetFast _ => []
  | HLoadDict a n => load_list (fst st) a (Z.to_nat n)
  | HAttach (Some d) => hvis (fst st) (hs_core d)
  | HContinue src _ _ | HContinueDestSize src _ _ =>
    if 0 <? ret then H ++ load_list (fst st) src (Z.to_nat consumed) else H
  | HFastReset src _ _ _ | HExtState src _ _ _ =>
    if 0 <? ret then load_list (fst st) src (Z.to_nat consumed) else []
  end.

(* documented preconditions along a run: [hop_pre], and before each streaming call the bytes the call will use as
   history (after its own prelude) are the tail of what the decoder has *)
Fixpoint hstream_pre (st : mem * hsctx) (H : list Z) (ops : list hop) : Prop :=
  match ops with
  | [] => True
  | o :: r =>
    hop_pre st o /\
    match o with
    | HContinue src n _ | HContinueDestSize src n _ =>
      forall ke dc, hs_effective (fst st) (snd st) src n = Some (ke, dc) -> hhist_invd (fst st) ke dc H
    | _ => True
    end /\
    match hstep st o with
    | Some (st', (ret, _, consumed)) => hstream_pre st' (hhist_next st H o ret consumed) r
    | None => True
    end
  end.

Definition win_strict (H out src : list Z) : Prop :=
  forall K, 65535 <= Z.of_nat K -> strict_valid (lastn K H) out = Some src.
Definition win_spec (H out src : list Z) : Prop :=
  forall K, 65535 <= Z.of_nat K -> spec_decode (lastn K H) out = Some src.

(* every successful block of a run that stays inside the model decodes with any decoder window of >= 65535 bytes:
   strictly (end-of-block conditions included) for LZ4_compress_HC_continue and the one-shot entry points, to the
   consumed prefix for LZ4_compress_HC_continue_destSize; and it fits the capacity *)
Fixpoint hstream_claim (st : mem * hsctx) (H : list Z) (ops : list hop) : Prop :=
  match ops with
  | [] => True
  | o :: r =>
    match hstep st o with
    | None => True
    | Some (st', (ret, out, consumed)) =>
      match o with
      | HContinue src n cap =>
        (compressBound n <= cap -> n <= LZ4_MAX_INPUT_SIZE -> 0 < ret) /\
        (0 < ret -> ret = Z.of_nat (length out) /\ ret <= Z.max cap (compressBound n) /\ consumed = n /\
                    win_strict H out (load_list (fst st) src (Z.to_nat n)))
      | HContinueDestSize src n target =>
        0 < ret -> ret = Z.of_nat (length out) /\ ret <= target /\ 0 <= consumed <= n /\
                   win_spec H out (load_list (fst st) src (Z.to_nat consumed))
      | HFastReset src n cap _ | HExtState src n cap _ =>
        (compressBound n <= cap -> n <= LZ4_MAX_INPUT_SIZE -> 0 < ret) /\
        (0 < ret -> ret = Z.of_nat (length out) /\ ret <= Z.max cap (compressBound n) /\ consumed = n /\
                    strict_valid [] out = Some (load_list (fst st) src (Z.to_nat n)))
      | _ => True
      end /\
      hstream_claim st' (hhist_next st H o ret consumed) r
    end
  end.

Lemma hwlim_cap n cap : 0 <= n <= LZ4_MAX_INPUT_SIZE ->
  hwlim (if cap <? compressBound n then LimitedOutput else NotLimited) n cap <= Z.max cap (compressBound n).
Proof.
  intros Hn. unfold hwlim, compressBound. replace ((n <? 0) || (n >? LZ4_MAX_INPUT_SIZE)) with false by lia.
  destruct (cap <? n + n / 255 + 16) eqn:E2; lia.
Qed.

Lemma k_generic_mid_pos m ke dc src n cap lim ret consumed out hw c' :
  0 <= n < 2147483648 -> k_generic_mid m ke dc src n cap lim = Some (HRes ret consumed out hw c') -> 0 < ret ->
  n <= LZ4_MAX_INPUT_SIZE.
Proof.
  intros Hn. unfold k_generic_mid.
  destruct (match lim with FillOutput => cap <? 1 | _ => false end); [intros H; injection H as <- _ _ _ _; lia|].
  destruct (u32 n >? LZ4_MAX_INPUT_SIZE) eqn:E; [intros H; injection H as <- _ _ _ _; lia|].
  intros _ _. rewrite u32s in E by lia. lia.
Qed.

Lemma hs_continue_generic_pos m c src n cap lim ret consumed out hw c' :
  0 <= n < 2147483648 -> hs_continue_generic m c src n cap lim = Some (HRes ret consumed out hw c') -> 0 < ret ->
  n <= LZ4_MAX_INPUT_SIZE.
Proof.
  intros Hn. rewrite hs_continue_generic_eq. destruct (is_mid _); [|discriminate].
  destruct (hs_effective m c src n) as [[ke dc]|]; [|discriminate]. apply k_generic_mid_pos. exact Hn.
Qed.

Lemma hs_fastReset_pos m c src n cap level ret consumed out hw c' :
  0 <= n < 2147483648 -> hs_fastReset m c src n cap level = Some (HRes ret consumed out hw c') -> 0 < ret ->
  n <= LZ4_MAX_INPUT_SIZE.
Proof.
  intros Hn. unfold hs_fastReset. cbv zeta. destruct (is_mid _); [|discriminate].
  rewrite hs_generic_eq. destruct (hs_pick _ src n) as [[ke dc]|]; [|discriminate]. apply k_generic_mid_pos. exact Hn.
Qed.

(* the claims for one successful streaming call, from [call_post] *)
Lemma continue_claims m ke dc src n cap ret consumed out hw c' H :
  0 <= n < 2147483648 -> k_ready ke src -> dc_ready dc ->
  call_post m ke dc src n cap (if cap <? compressBound n then LimitedOutput else NotLimited) ret consumed out hw c' ->
  hhist_invd m ke dc H -> (0 < ret -> n <= LZ4_MAX_INPUT_SIZE) ->
  (compressBound n <= cap -> n <= LZ4_MAX_INPUT_SIZE -> 0 < ret) /\
  (0 < ret -> ret = Z.of_nat (length out) /\ ret <= Z.max cap (compressBound n) /\ consumed = n /\
              win_strict H out (load_list m src (Z.to_nat n))).
Proof.
  intros Hn R Rd Q HI Hpos. pose proof Q as (_ & _ & _ & Q4 & Q5 & _ & Q7).
  split.
  - intros Hb Hmax. replace (cap <? compressBound n) with false in Q5 by lia. apply Q5; [reflexivity | exact Hmax].
  - intros Hr. destruct (Q7 Hr) as (_ & E1 & E2 & _ & E4 & _).
    assert (Hl : (if cap <? compressBound n then LimitedOutput else NotLimited) <> FillOutput) by (destruct (cap <? compressBound n); discriminate).
    specialize (E4 Hl). subst consumed.
    destruct (hs_call_decodes m ke dc src n cap _ ret n out hw c' H R Rd Q HI Hr) as (_ & D2 & _).
    split; [exact E1|]. split; [pose proof (hwlim_cap n cap ltac:(specialize (Hpos Hr); lia)); lia|].
    split; [reflexivity|]. intros K HK. apply (D2 Hl K HK).
Qed.

Theorem hstream_roundtrip : forall ops st H, hstate_inv st -> hstream_pre st H ops -> hstream_claim st H ops.
Proof.
  induction ops as [|o r IH]; intros st H Inv P; cbn [hstream_pre hstream_claim] in *; [exact I|].
  destruct P as (P1 & P2 & P3).
  destruct (hstep st o) as [[st' [[ret out] consumed]]|] eqn:E; [|exact I].
  split; [|apply IH; [apply (hstep_inv st o st' _ Inv P1 E) | exact P3]].
  destruct st as [m c]. destruct Inv as (Hm & K). cbn [fst snd] in *.
  destruct o; try exact I; cbn [hstep hop_pre snd] in *.
  - (* LZ4_compress_HC_continue *)
    apply of_res_inv in E. destruct E as (ret' & consumed' & out' & hw & c' & E0 & _ & Ex). injection Ex as -> -> ->.
    destruct P1 as (Pd & Ps & Pn & Pc). unfold hs_continue in E0.
    destruct (hs_continue_generic_sound m c src n cap _ ret' consumed' out' hw c' Hm K Pd Ps Pn Pc E0) as (ke & dc & Ee & R & Rd & _ & Q).
    apply (continue_claims m ke dc src n cap ret' consumed' out' hw c' H Pn R Rd Q (P2 ke dc Ee)).
    apply (hs_continue_generic_pos m c src n cap _ ret' consumed' out' hw c' Pn E0).
  - (* LZ4_compress_HC_continue_destSize *)
    apply of_res_inv in E. destruct E as (ret' & consumed' & out' & hw & c' & E0 & _ & Ex). injection Ex as -> -> ->.
    destruct P1 as (Pd & Ps & Pn & Pc). unfold hs_continue_destSize in E0.
    destruct (hs_continue_generic_sound m c src n target FillOutput ret' consumed' out' hw c' Hm K Pd Ps Pn Pc E0) as (ke & dc & Ee & R & Rd & _ & Q).
    intros Hr. pose proof Q as (_ & _ & _ & Q4 & _ & _ & Q7). destruct (Q7 Hr) as (_ & E1 & E2 & E3 & _).
    destruct (hs_call_decodes m ke dc src n target FillOutput ret' consumed' out' hw c' H R Rd Q (P2 ke dc Ee) Hr) as (D1 & _ & _).
    split; [exact E1|]. split; [unfold hwlim in Q4; lia|]. split; [exact E3|]. intros Kk HK. apply (D1 Kk HK).
  - (* LZ4_compress_HC_extStateHC_fastReset *)
    apply of_res_inv in E. destruct E as (ret' & consumed' & out' & hw & c' & E0 & _ & Ex). injection Ex as -> -> ->.
    destruct P1 as (Ps & Pn & Pc).
    pose proof (hs_fastReset_sound m c src n cap level ret' consumed' out' hw c' Hm K Ps Pn Pc E0) as Q. cbv zeta in Q.
    destruct Q as (R & Q1 & Q2 & Q).
    assert (HI : hhist_inv m (k_init_internal (hs_core (hs_resetFast c level)) src) []).
    { unfold hhist_inv. rewrite hvis_nil; [apply is_suffix_nil | unfold k_xlen; lia|].
      unfold k_plen. destruct R as ((_ & Pp & _) & _ & _ & _ & Re). unfold k_endIdx in Q2. lia. }
    pose proof (continue_claims m _ None src n cap ret' consumed' out' hw c' [] Pn R I Q HI
                  (hs_fastReset_pos m c src n cap level ret' consumed' out' hw c' Pn E0)) as (C1 & C2).
    split; [exact C1|]. intros Hr. destruct (C2 Hr) as (A1 & A2 & A3 & A4).
    split; [exact A1|]. split; [exact A2|]. split; [exact A3|].
    specialize (A4 (Z.to_nat 65535) ltac:(lia)). unfold lastn in A4. cbn [length skipn Nat.sub] in A4. exact A4.
  - (* LZ4_compress_HC_extStateHC *)
    apply of_res_inv in E. destruct E as (ret' & consumed' & out' & hw & c' & E0 & _ & Ex). injection Ex as -> -> ->.
    destruct P1 as (Ps & Pn & Pc). unfold hs_extState in E0.
    pose proof (hs_fastReset_sound m hs_init src n cap level ret' consumed' out' hw c' Hm hs_init_ok Ps Pn Pc E0) as Q. cbv zeta in Q.
    destruct Q as (R & Q1 & Q2 & Q).
    assert (HI : hhist_inv m (k_init_internal (hs_core (hs_resetFast hs_init level)) src) []).
    { unfold hhist_inv. rewrite hvis_nil; [apply is_suffix_nil | unfold k_xlen; lia|].
      unfold k_plen. destruct R as ((_ & Pp & _) & _ & _ & _ & Re). unfold k_endIdx in Q2. lia. }
    pose proof (continue_claims m _ None src n cap ret' consumed' out' hw c' [] Pn R I Q HI
                  (hs_fastReset_pos m hs_init src n cap level ret' consumed' out' hw c' Pn E0)) as (C1 & C2).
    split; [exact C1|]. intros Hr. destruct (C2 Hr) as (A1 & A2 & A3 & A4).
    split; [exact A1|]. split; [exact A2|]. split; [exact A3|].
    specialize (A4 (Z.to_nat 65535) ltac:(lia)). unfold lastn in A4. cbn [length skipn Nat.sub] in A4. exact A4.
Qed.

(* ================================================================ C12: the dictionary routes, end to end *)
(* LZ4_loadDictHC of any size at an lz4mid level, then a block anywhere in memory *)
Theorem hc_loadDict_roundtrip m c a n c' r src k cap ret consumed out hw c'' :
  hmem_ok m -> 0 <= n -> 0 <= a -> 0 < src -> 0 <= k < 2147483648 -> 0 <= cap ->
  hs_loadDict m c a n = Some (c', r) ->
  hs_continue m c' src k cap = Some (HRes ret consumed out hw c'') ->
  (compressBound k <= cap -> k <= LZ4_MAX_INPUT_SIZE -> 0 < ret) /\
  (0 < ret -> ret = Z.of_nat (length out) /\ ret <= Z.max cap (compressBound k) /\ consumed = k /\
              win_strict (load_list m a (Z.to_nat n)) out (load_list m src (Z.to_nat k))).
Proof.
  intros Hm Hn Ha Hs Hk Hcap El Ec.
  pose proof (hs_loadDict_ok m c a n c' r Hn Ha El) as LD. destruct LD as (L1 & _ & L3 & _ & _ & _ & _ & _ & L9 & L10).
  pose proof (hs_loadDict_hist m c a n c' r Hn Ha El) as HI.
  unfold hs_continue in Ec.
  destruct (hs_continue_generic_sound m c' src k cap _ ret consumed out hw c'' Hm L1 L9 Hs Hk Hcap Ec) as (ke & dc & Ee & R & Rd & _ & Q).
  assert (HD : match hs_dctx c' with Some d => hhist_inv m d (load_list m a (Z.to_nat n)) | None => True end) by (rewrite L3; exact I).
  pose proof (hs_effective_nodict m c' src k ke dc (conj L1 (conj L9 L10)) Hs ltac:(lia) L3 Ee) as ->.
  destruct (hs_effective_hist m m c' src k ke None _ (conj L1 (conj L9 L10)) Hs ltac:(lia) Ee (or_intror HI) HD
              ltac:(intros X; exfalso; apply X; reflexivity)) as (Hke & _).
  apply (continue_claims m ke None src k cap ret consumed out hw c'' _ Hk R Rd Q Hke).
  apply (hs_continue_generic_pos m c' src k cap _ ret consumed out hw c'' Hk Ec).
Qed.

(* LZ4_attach_HC_dictionary of a stream loaded at an lz4mid level onto a working stream that has not started
   (LZ4_initStreamHC / LZ4_resetStreamHC(_fast)): whether the dictionary context is copied (first block > 4 KB) or
   searched in place (LZ4MID_searchExtDict), the block decodes with the dictionary bytes *)
Theorem hc_attach_roundtrip m c0 d a n dc r src k cap ret consumed out hw c'' :
  hmem_ok m -> hs_ok c0 -> k_dirty (hs_core c0) = false -> k_prefixStart (hs_core c0) = 0 ->
  0 <= n -> 0 <= a -> 0 < src -> 0 <= k < 2147483648 -> 0 <= cap ->
  hs_loadDict m d a n = Some (dc, r) ->
  hs_continue m (hs_attach c0 (Some dc)) src k cap = Some (HRes ret consumed out hw c'') ->
  (compressBound k <= cap -> k <= LZ4_MAX_INPUT_SIZE -> 0 < ret) /\
  (0 < ret -> ret = Z.of_nat (length out) /\ ret <= Z.max cap (compressBound k) /\ consumed = k /\
              win_strict (load_list m a (Z.to_nat n)) out (load_list m src (Z.to_nat k))).
Proof.
  intros Hm K0 Hd0 Hz Hn Ha Hs Hk Hcap El Ec.
  pose proof (hs_loadDict_ok m d a n dc r Hn Ha El) as LD. destruct LD as (_ & L2 & _).
  pose proof (hs_loadDict_hist m d a n dc r Hn Ha El) as HI.
  assert (K : hs_ok (hs_attach c0 (Some dc))) by (apply hs_attach_ok; [exact K0 | exact L2]).
  unfold hs_continue in Ec.
  destruct (hs_continue_generic_sound m _ src k cap _ ret consumed out hw c'' Hm K Hd0 Hs Hk Hcap Ec) as (ke & dx & Ee & R & Rd & Hl & Q).
  assert (HD : match hs_dctx (hs_attach c0 (Some dc)) with Some x => hhist_inv m x (load_list m a (Z.to_nat n)) | None => True end) by exact HI.
  destruct (hs_effective_hist m m _ src k ke dx _ (conj K (conj Hd0 Hl)) Hs ltac:(lia) Ee (or_introl Hz) HD ltac:(intros _; exact Hz)) as (Hke & _).
  apply (continue_claims m ke dx src k cap ret consumed out hw c'' _ Hk R Rd Q Hke).
  apply (hs_continue_generic_pos m _ src k cap _ ret consumed out hw c'' Hk Ec).
Qed.
