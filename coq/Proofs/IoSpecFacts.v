(* Facts about the specification layer (Spec.FrameSpec) needed by the CLI theorems C14/C15:
   every parser consumes a prefix of its input and returns the untouched suffix
   ([*_suffix]), and its verdict does not depend on what follows the part it consumed
   ([*_ext]).  Constants of the spec layer agree with the constants generated from the C code. *)
From Coq Require Import ZArith List Lia Bool.
From LZ4V Require Import Spec.BlockSpec Spec.XXH32 Spec.FrameSpec Gen.Consts Proofs.BlockSpecProofs.
Import ListNotations.
Local Open Scope Z_scope.

Lemma consts_agree :
  LZ4IO_MAGICNUMBER = MAGIC /\ LEGACY_MAGICNUMBER = MAGIC_LEGACY /\ LZ4IO_SKIPPABLE0 = MAGIC_SKIP_LO
  /\ LZ4IO_SKIPPABLE0 + 15 = MAGIC_SKIP_HI /\ LEGACY_BLOCKSIZE = LEGACY_BLOCK
  /\ LZ4IO_SKIPPABLEMASK = 4294967280 /\ LZ4F_MAGICNUMBER = MAGIC.
Proof. repeat split; reflexivity. Qed.

(* ---------------------------------------------------------------- take *)
Lemma take_some : forall n bs a r, take n bs = Some (a, r) -> bs = a ++ r /\ length a = n.
Proof.
  induction n; intros bs a r H; cbn [take] in H.
  - inversion H; subst. split; reflexivity.
  - destruct bs as [|b bs']; [discriminate|].
    destruct (take n bs') as [[a' t]|] eqn:E; [|discriminate].
    inversion H; subst. apply IHn in E. destruct E as [E1 E2]. subst. split; reflexivity.
Qed.

Lemma take_ext : forall n bs a r t, take n bs = Some (a, r) -> take n (bs ++ t) = Some (a, r ++ t).
Proof.
  intros n bs a r t H. apply take_some in H. destruct H as [H1 H2]. subst.
  rewrite <- app_assoc. apply take_app.
Qed.

Lemma take_none_short : forall n bs, take n bs = None -> (length bs < n)%nat.
Proof.
  induction n; intros bs H; cbn [take] in H; [discriminate|].
  destruct bs as [|b bs']; [cbn; lia|].
  destruct (take n bs') as [[a' t]|] eqn:E; [discriminate|].
  apply IHn in E. cbn. lia.
Qed.

Lemma take_short_none : forall n bs, (length bs < n)%nat -> take n bs = None.
Proof.
  intros n bs H. destruct (take n bs) as [[a r]|] eqn:E; [|reflexivity].
  apply take_some in E. destruct E as [E1 E2]. subst. rewrite app_length in H. lia.
Qed.

Lemma firstn_app_exact : forall (A : Type) n (a b : list A), length a = n -> firstn n (a ++ b) = a.
Proof.
  intros A n a b H. subst n. rewrite firstn_app. replace (length a - length a)%nat with 0%nat by lia.
  cbn [firstn]. rewrite app_nil_r. apply firstn_all.
Qed.

(* ---------------------------------------------------------------- parse_desc *)
Lemma parse_desc_suffix : forall bs d r, parse_desc bs = Some (d, r) ->
  exists pre, bs = pre ++ r /\ (3 <= length pre)%nat.
Proof.
  intros bs d r H. unfold parse_desc in H.
  destruct bs as [|flg [|bd r0]]; try discriminate.
  repeat match type of H with
         | (if ?c then None else _) = Some _ => destruct c; [discriminate|]
         end.
  destruct (bsid_size ((bd / 16) mod 8)); [|discriminate].
  destruct (take _ r0) as [[cs r1]|] eqn:E1; [|discriminate].
  destruct (take _ r1) as [[di r2]|] eqn:E2; [|discriminate].
  destruct r2 as [|hc r3]; [discriminate|].
  destruct (hc =? _); [|discriminate].
  inversion H; subst.
  apply take_some in E1. apply take_some in E2. destruct E1 as [E1 _]. destruct E2 as [E2 _]. subst.
  exists (flg :: bd :: cs ++ di ++ [hc]). split.
  - cbn. rewrite <- !app_assoc. reflexivity.
  - cbn. rewrite !app_length. cbn. lia.
Qed.

Lemma parse_desc_ext : forall bs d r t, parse_desc bs = Some (d, r) -> parse_desc (bs ++ t) = Some (d, r ++ t).
Proof.
  intros bs d r t H. unfold parse_desc in *.
  destruct bs as [|flg [|bd r0]]; try discriminate.
  cbn [app].
  repeat match type of H with
         | (if ?c then None else _) = Some _ => destruct c; [discriminate|]
         end.
  destruct (bsid_size ((bd / 16) mod 8)); [|discriminate].
  destruct (take _ r0) as [[cs r1]|] eqn:E1; [|discriminate].
  rewrite (take_ext _ _ _ _ t E1).
  destruct (take _ r1) as [[di r2]|] eqn:E2; [|discriminate].
  rewrite (take_ext _ _ _ _ t E2).
  destruct r2 as [|hc r3]; [discriminate|].
  cbn [app].
  destruct (hc =? _); [|discriminate].
  inversion H; subst. reflexivity.
Qed.

Section WithDecoders.
  Variable bdec : list byte -> list byte -> option (list byte).
  Variable skipcrc : bool.

  (* ---------------------------------------------------------------- blocks *)
  Lemma blocks_suffix : forall fuel d maxb dict acc bs c rest,
    blocks bdec skipcrc fuel d maxb dict acc bs = Some (c, rest) ->
    exists pre, bs = pre ++ rest /\ (4 <= length pre)%nat.
  Proof.
    induction fuel; intros d maxb dict acc bs c rest H; cbn [blocks] in H; [discriminate|].
    destruct (take 4 bs) as [[szb r]|] eqn:E0; [|discriminate].
    apply take_some in E0. destruct E0 as [E0 L0]. subst bs.
    destruct (le_val szb =? 0).
    - (* end mark *)
      assert (F : forall rest0,
                 match f_csize d with
                 | Some n => if (n =? 0) || (n =? Z.of_nat (length acc)) then Some (acc, rest0) else None
                 | None => Some (acc, rest0)
                 end = Some (c, rest) -> rest0 = rest).
      { intros rest0 HF. destruct (f_csize d); [destruct (_ || _); [|discriminate]|]; inversion HF; reflexivity. }
      destruct (f_ccrc d).
      + destruct (take 4 r) as [[cb r1]|] eqn:E1; [|discriminate].
        apply take_some in E1. destruct E1 as [E1 L1]. subst r.
        destruct (skipcrc || _); [|discriminate].
        apply F in H. subst. exists (szb ++ cb). rewrite <- app_assoc. split; [reflexivity|]. rewrite app_length. lia.
      + apply F in H. subst. exists szb. split; [reflexivity|lia].
    - destruct (maxb <? _); [discriminate|].
      destruct (take _ r) as [[data r1]|] eqn:E1; [|discriminate].
      apply take_some in E1. destruct E1 as [E1 L1]. subst r.
      assert (G : forall rest0,
                 match (if 2147483648 <=? le_val szb then Some data
                        else bdec (if f_indep d then dict else lastn 65536 (dict ++ acc)) data) with
                 | Some c0 => if maxb <? Z.of_nat (length c0) then None
                              else blocks bdec skipcrc fuel d maxb dict (acc ++ c0) rest0
                 | None => None
                 end = Some (c, rest) -> exists pre, rest0 = pre ++ rest).
      { intros rest0 HG.
        destruct (if 2147483648 <=? le_val szb then Some data else _) as [c0|]; [|discriminate].
        destruct (maxb <? _); [discriminate|].
        apply IHfuel in HG. destruct HG as [pre [HG _]]. exists pre. exact HG. }
      destruct (f_bcrc d).
      + destruct (take 4 r1) as [[cb r2]|] eqn:E2; [|discriminate].
        apply take_some in E2. destruct E2 as [E2 L2]. subst r1.
        destruct (skipcrc || _); [|discriminate].
        apply G in H. destruct H as [pre H]. subst r2.
        exists (szb ++ data ++ cb ++ pre). split; [rewrite <- !app_assoc; reflexivity|]. rewrite app_length. lia.
      + apply G in H. destruct H as [pre H]. subst r1.
        exists (szb ++ data ++ pre). split; [rewrite <- !app_assoc; reflexivity|]. rewrite app_length. lia.
  Qed.

  Lemma blocks_ext : forall fuel d maxb dict acc bs c rest t fuel',
    blocks bdec skipcrc fuel d maxb dict acc bs = Some (c, rest) -> (fuel <= fuel')%nat ->
    blocks bdec skipcrc fuel' d maxb dict acc (bs ++ t) = Some (c, rest ++ t).
  Proof.
    induction fuel; intros d maxb dict acc bs c rest t fuel' H LE; cbn [blocks] in H; [discriminate|].
    destruct fuel' as [|fuel']; [lia|]. cbn [blocks].
    destruct (take 4 bs) as [[szb r]|] eqn:E0; [|discriminate].
    rewrite (take_ext _ _ _ _ t E0).
    destruct (le_val szb =? 0).
    - assert (F : forall rest0,
                 match f_csize d with
                 | Some n => if (n =? 0) || (n =? Z.of_nat (length acc)) then Some (acc, rest0) else None
                 | None => Some (acc, rest0)
                 end = Some (c, rest) ->
                 match f_csize d with
                 | Some n => if (n =? 0) || (n =? Z.of_nat (length acc)) then Some (acc, rest0 ++ t) else None
                 | None => Some (acc, rest0 ++ t)
                 end = Some (c, rest ++ t)).
      { intros rest0 HF. destruct (f_csize d); [destruct (_ || _); [|discriminate]|]; inversion HF; reflexivity. }
      destruct (f_ccrc d).
      + destruct (take 4 r) as [[cb r1]|] eqn:E1; [|discriminate].
        rewrite (take_ext _ _ _ _ t E1).
        destruct (skipcrc || _); [|discriminate]. apply F. exact H.
      + apply F. exact H.
    - destruct (maxb <? _); [discriminate|].
      destruct (take _ r) as [[data r1]|] eqn:E1; [|discriminate].
      rewrite (take_ext _ _ _ _ t E1).
      assert (G : forall rest0,
                 match (if 2147483648 <=? le_val szb then Some data
                        else bdec (if f_indep d then dict else lastn 65536 (dict ++ acc)) data) with
                 | Some c0 => if maxb <? Z.of_nat (length c0) then None
                              else blocks bdec skipcrc fuel d maxb dict (acc ++ c0) rest0
                 | None => None
                 end = Some (c, rest) ->
                 match (if 2147483648 <=? le_val szb then Some data
                        else bdec (if f_indep d then dict else lastn 65536 (dict ++ acc)) data) with
                 | Some c0 => if maxb <? Z.of_nat (length c0) then None
                              else blocks bdec skipcrc fuel' d maxb dict (acc ++ c0) (rest0 ++ t)
                 | None => None
                 end = Some (c, rest ++ t)).
      { intros rest0 HG.
        destruct (if 2147483648 <=? le_val szb then Some data else _) as [c0|]; [|discriminate].
        destruct (maxb <? _); [discriminate|].
        apply IHfuel; [exact HG|lia]. }
      destruct (f_bcrc d).
      + destruct (take 4 r1) as [[cb r2]|] eqn:E2; [|discriminate].
        rewrite (take_ext _ _ _ _ t E2).
        destruct (skipcrc || _); [|discriminate]. apply G. exact H.
      + apply G. exact H.
  Qed.

  (* ---------------------------------------------------------------- frame_decode *)
  Lemma frame_decode_suffix : forall dict bs c rest,
    frame_decode bdec skipcrc dict bs = Some (c, rest) ->
    exists pre, bs = pre ++ rest /\ (11 <= length pre)%nat /\ firstn 4 pre = firstn 4 bs /\ le_val (firstn 4 bs) = MAGIC.
  Proof.
    intros dict bs c rest H. unfold frame_decode in H.
    destruct (take 4 bs) as [[mg r]|] eqn:E0; [|discriminate].
    apply take_some in E0. destruct E0 as [E0 L0]. subst bs.
    destruct (le_val mg =? MAGIC) eqn:EM; [|discriminate].
    destruct (parse_desc r) as [[d r1]|] eqn:E1; [|discriminate].
    destruct (bsid_size (f_bsid d)); [|discriminate].
    apply parse_desc_suffix in E1. destruct E1 as [p1 [E1 L1]]. subst r.
    apply blocks_suffix in H. destruct H as [p2 [H L2]]. subst r1.
    exists (mg ++ p1 ++ p2). repeat split.
    - rewrite <- !app_assoc. reflexivity.
    - rewrite !app_length. lia.
    - rewrite !firstn_app_exact by exact L0. reflexivity.
    - rewrite firstn_app_exact by exact L0. apply Z.eqb_eq. exact EM.
  Qed.

  Lemma frame_decode_ext : forall dict bs c rest t,
    frame_decode bdec skipcrc dict bs = Some (c, rest) ->
    frame_decode bdec skipcrc dict (bs ++ t) = Some (c, rest ++ t).
  Proof.
    intros dict bs c rest t H. unfold frame_decode in *.
    destruct (take 4 bs) as [[mg r]|] eqn:E0; [|discriminate].
    rewrite (take_ext _ _ _ _ t E0).
    destruct (le_val mg =? MAGIC); [|discriminate].
    destruct (parse_desc r) as [[d r1]|] eqn:E1; [|discriminate].
    rewrite (parse_desc_ext _ _ _ t E1).
    destruct (bsid_size (f_bsid d)); [|discriminate].
    eapply blocks_ext; [exact H|]. rewrite app_length. lia.
  Qed.
End WithDecoders.
