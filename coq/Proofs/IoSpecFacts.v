(* Facts about the specification layer (Spec.FrameSpec) needed by the CLI theorems C14/C15:
   every parser consumes a prefix of its input and returns the untouched suffix
   ([*_suffix]), and its verdict does not depend on what follows the part it consumed
   ([*_ext]).  Constants of the spec layer agree with the constants generated from the C code. *)
From Coq Require Import ZArith List Lia Bool.
From LZ4V Require Import Spec.BlockSpec Spec.XXH32 Spec.FrameSpec Gen.Consts Proofs.BlockSpecProofs.
Import ListNotations.
Local Open Scope Z_scope.

Lemma consts_agree :
  LZ4IO_MAGICNUMBER = MAGIC /\ LEGACY_MAGICNUMBER = MAGIC_LEGACY /\ LZ4IO_SKIPPABLE0 = MAGIC_SKIP_LO
  /\ LZ4IO_SKIPPABLE0 + 15 = MAGIC_SKIP_HI /\ LEGACY_BLOCKSIZE = LEGACY_BLOCK
  /\ LZ4IO_SKIPPABLEMASK = 4294967280 /\ LZ4F_MAGICNUMBER = MAGIC.
Proof. repeat split; reflexivity. Qed.

(* ---------------------------------------------------------------- take *)
Lemma take_some : forall n bs a r, take n bs = Some (a, r) -> bs = a ++ r /\ length a = n.
Proof.
  induction n; intros bs a r H; cbn [take] in H.
  - inversion H; subst. split; reflexivity.
  - destruct bs as [|b bs']; [discriminate|].
    destruct (take n bs') as [[a' t]|] eqn:E; [|discriminate].
    inversion H; subst. apply IHn in E. destruct E as [E1 E2]. subst. split; reflexivity.
Qed.

Lemma take_ext : forall n bs a r t, take n bs = Some (a, r) -> take n (bs ++ t) = Some (a, r ++ t).
Proof.
  intros n bs a r t H. apply take_some in H. destruct H as [H1 H2]. subst.
  rewrite <- app_assoc. apply take_app.
Qed.

Lemma take_none_short : forall n bs, take n bs = None -> (length bs < n)%nat.
Proof.
  induction n; intros bs H; cbn [take] in H; [discriminate|].
  destruct bs as [|b bs']; [cbn; lia|].
  destruct (take n bs') as [[a' t]|] eqn:E; [discriminate|].
  apply IHn in E. cbn. lia.
Qed.

Lemma take_short_none : forall n bs, (length bs < n)%nat -> take n bs = None.
Proof.
  intros n bs H. destruct (take n bs) as [[a r]|] eqn:E; [|reflexivity].
  apply take_some in E. destruct E as [E1 E2]. subst. rewrite app_length in H. lia.
Qed.

Lemma firstn_app_exact : forall (A : Type) n (a b : list A), length a = n -> firstn n (a ++ b) = a.
Proof.
  intros A n a b H. subst n. rewrite firstn_app. replace (length a - length a)%nat with 0%nat by lia.
  cbn [firstn]. rewrite app_nil_r. apply firstn_all.
Qed.

(* ---------------------------------------------------------------- parse_desc *)
Lemma parse_desc_suffix : forall bs d r, parse_desc bs = Some (d, r) ->
  exists pre, bs = pre ++ r /\ (3 <= length pre)%nat.
Proof.
  intros bs d r H. unfold parse_desc in H.
  destruct bs as [|flg [|bd r0]]; try discriminate.
  repeat match type of H with
         | (if ?c then None else _) = Some _ => destruct c; [discriminate|]
         end.
  destruct (bsid_size ((bd / 16) mod 8)); [|discriminate].
  destruct (take _ r0) as [[cs r1]|] eqn:E1; [|discriminate].
  destruct (take _ r1) as [[di r2]|] eqn:E2; [|discriminate].
  destruct r2 as [|hc r3]; [discriminate|].
  destruct (hc =? _); [|discriminate].
  inversion H; subst.
  apply take_some in E1. apply take_some in E2. destruct E1 as [E1 _]. destruct E2 as [E2 _]. subst.
  exists (flg :: bd :: cs ++ di ++ [hc]). split.
  - cbn. rewrite <- !app_assoc. reflexivity.
  - cbn. rewrite !app_length. cbn. lia.
Qed.

Lemma parse_desc_ext : forall bs d r t, parse_desc bs = Some (d, r) -> parse_desc (bs ++ t) = Some (d, r ++ t).
Proof.
  intros bs d r t H. unfold parse_desc in *.
  destruct bs as [|flg [|bd r0]]; try discriminate.
  cbn [app].
  repeat match type of H with
         | (if ?c then None else _) = Some _ => destruct c; [discriminate|]
         end.
  destruct (bsid_size ((bd / 16) mod 8)); [|discriminate].
  destruct (take _ r0) as [[cs r1]|] eqn:E1; [|discriminate].
  rewrite (take_ext _ _ _ _ t E1).
  destruct (take _ r1) as [[di r2]|] eqn:E2; [|discriminate].
  rewrite (take_ext _ _ _ _ t E2).
  destruct r2 as [|hc r3]; [discriminate|].
  cbn [app].
  destruct (hc =? _); [|discriminate].
  inversion H; subst. reflexivity.
Qed.

Section WithDecoders.
  Variable bdec : list byte -> list byte -> option (list byte).
  Variable skipcrc : bool.

  (* ---------------------------------------------------------------- blocks *)
  Lemma blocks_suffix : forall fuel d maxb dict acc bs c rest,
    blocks bdec skipcrc fuel d maxb dict acc bs = Some (c, rest) ->
    exists pre, bs = pre ++ rest /\ (4 <= length pre)%nat.
  Proof.
    induction fuel; intros d maxb dict acc bs c rest H; cbn [blocks] in H; [discriminate|].
    destruct (take 4 bs) as [[szb r]|] eqn:E0; [|discriminate].
    apply take_some in E0. destruct E0 as [E0 L0]. subst bs.
    destruct (le_val szb =? 0).
    - (* end mark *)
      assert (F : forall rest0,
                 match f_csize d with
                 | Some n => if (n =? 0) || (n =? Z.of_nat (length acc)) then Some (acc, rest0) else None
                 | None => Some (acc, rest0)
                 end = Some (c, rest) -> rest0 = rest).
      { intros rest0 HF. destruct (f_csize d); [destruct (_ || _); [|discriminate]|]; inversion HF; reflexivity. }
      destruct (f_ccrc d).
      + destruct (take 4 r) as [[cb r1]|] eqn:E1; [|discriminate].
        apply take_some in E1. destruct E1 as [E1 L1]. subst r.
        destruct (skipcrc || _); [|discriminate].
        apply F in H. subst. exists (szb ++ cb). rewrite <- app_assoc. split; [reflexivity|]. rewrite app_length. lia.
      + apply F in H. subst. exists szb. split; [reflexivity|lia].
    - destruct (maxb <? _); [discriminate|].
      destruct (take _ r) as [[data r1]|] eqn:E1; [|discriminate].
      apply take_some in E1. destruct E1 as [E1 L1]. subst r.
      assert (G : forall rest0,
                 match (if 2147483648 <=? le_val szb then Some data
                        else bdec (if f_indep d then dict else lastn 65536 (dict ++ acc)) data) with
                 | Some c0 => if maxb <? Z.of_nat (length c0) then None
                              else blocks bdec skipcrc fuel d maxb dict (acc ++ c0) rest0
                 | None => None
                 end = Some (c, rest) -> exists pre, rest0 = pre ++ rest).
      { intros rest0 HG.
        destruct (if 2147483648 <=? le_val szb then Some data else _) as [c0|]; [|discriminate].
        destruct (maxb <? _); [discriminate|].
        apply IHfuel in HG. destruct HG as [pre [HG _]]. exists pre. exact HG. }
      destruct (f_bcrc d).
      + destruct (take 4 r1) as [[cb r2]|] eqn:E2; [|discriminate].
        apply take_some in E2. destruct E2 as [E2 L2]. subst r1.
        destruct (skipcrc || _); [|discriminate].
        apply G in H. destruct H as [pre H]. subst r2.
        exists (szb ++ data ++ cb ++ pre). split; [rewrite <- !app_assoc; reflexivity|]. rewrite app_length. lia.
      + apply G in H. destruct H as [pre H]. subst r1.
        exists (szb ++ data ++ pre). split; [rewrite <- !app_assoc; reflexivity|]. rewrite app_length. lia.
  Qed.

  Lemma blocks_ext : forall fuel d maxb dict acc bs c rest t fuel',
    blocks bdec skipcrc fuel d maxb dict acc bs = Some (c, rest) -> (fuel <= fuel')%nat ->
    blocks bdec skipcrc fuel' d maxb dict acc (bs ++ t) = Some (c, rest ++ t).
  Proof.
    induction fuel; intros d maxb dict acc bs c rest t fuel' H LE; cbn [blocks] in H; [discriminate|].
    destruct fuel' as [|fuel']; [lia|]. cbn [blocks].
    destruct (take 4 bs) as [[szb r]|] eqn:E0; [|discriminate].
    rewrite (take_ext _ _ _ _ t E0).
    destruct (le_val szb =? 0).
    - assert (F : forall rest0,
                 match f_csize d with
                 | Some n => if (n =? 0) || (n =? Z.of_nat (length acc)) then Some (acc, rest0) else None
                 | None => Some (acc, rest0)
                 end = Some (c, rest) ->
                 match f_csize d with
                 | Some n => if (n =? 0) || (n =? Z.of_nat (length acc)) then Some (acc, rest0 ++ t) else None
                 | None => Some (acc, rest0 ++ t)
                 end = Some (c, rest ++ t)).
      { intros rest0 HF. destruct (f_csize d); [destruct (_ || _); [|discriminate]|]; inversion HF; reflexivity. }
      destruct (f_ccrc d).
      + destruct (take 4 r) as [[cb r1]|] eqn:E1; [|discriminate].
        rewrite (take_ext _ _ _ _ t E1).
        destruct (skipcrc || _); [|discriminate]. apply F. exact H.
      + apply F. exact H.
    - destruct (maxb <? _); [discriminate|].
      destruct (take _ r) as [[data r1]|] eqn:E1; [|discriminate].
      rewrite (take_ext _ _ _ _ t E1).
      assert (G : forall rest0,
                 match (if 2147483648 <=? le_val szb then Some data
                        else bdec (if f_indep d then dict else lastn 65536 (dict ++ acc)) data) with
                 | Some c0 => if maxb <? Z.of_nat (length c0) then None
                              else blocks bdec skipcrc fuel d maxb dict (acc ++ c0) rest0
                 | None => None
                 end = Some (c, rest) ->
                 match (if 2147483648 <=? le_val szb then Some data
                        else bdec (if f_indep d then dict else lastn 65536 (dict ++ acc)) data) with
                 | Some c0 => if maxb <? Z.of_nat (length c0) then None
                              else blocks bdec skipcrc fuel' d maxb dict (acc ++ c0) (rest0 ++ t)
                 | None => None
                 end = Some (c, rest ++ t)).
      { intros rest0 HG.
        destruct (if 2147483648 <=? le_val szb then Some data else _) as [c0|]; [|discriminate].
        destruct (maxb <? _); [discriminate|].
        apply IHfuel; [exact HG|lia]. }
      destruct (f_bcrc d).
      + destruct (take 4 r1) as [[cb r2]|] eqn:E2; [|discriminate].
        rewrite (take_ext _ _ _ _ t E2).
        destruct (skipcrc || _); [|discriminate]. apply G. exact H.
      + apply G. exact H.
  Qed.

  (* ---------------------------------------------------------------- frame_decode *)
  Lemma frame_decode_suffix : forall dict bs c rest,
    frame_decode bdec skipcrc dict bs = Some (c, rest) ->
    exists pre, bs = pre ++ rest /\ (11 <= length pre)%nat /\ firstn 4 pre = firstn 4 bs /\ le_val (firstn 4 bs) = MAGIC.
  Proof.
    intros dict bs c rest H. unfold frame_decode in H.
    destruct (take 4 bs) as [[mg r]|] eqn:E0; [|discriminate].
    apply take_some in E0. destruct E0 as [E0 L0]. subst bs.
    destruct (le_val mg =? MAGIC) eqn:EM; [|discriminate].
    destruct (parse_desc r) as [[d r1]|] eqn:E1; [|discriminate].
    destruct (bsid_size (f_bsid d)); [|discriminate].
    apply parse_desc_suffix in E1. destruct E1 as [p1 [E1 L1]]. subst r.
    apply blocks_suffix in H. destruct H as [p2 [H L2]]. subst r1.
    exists (mg ++ p1 ++ p2). repeat split.
    - rewrite <- !app_assoc. reflexivity.
    - rewrite !app_length. lia.
    - rewrite !firstn_app_exact by exact L0. reflexivity.
    - rewrite firstn_app_exact by exact L0. apply Z.eqb_eq. exact EM.
  Qed.

  Lemma frame_decode_ext : forall dict bs c rest t,
    frame_decode bdec skipcrc dict bs = Some (c, rest) ->
    frame_decode bdec skipcrc dict (bs ++ t) = Some (c, rest ++ t).
  Proof.
    intros dict bs c rest t H. unfold frame_decode in *.
    destruct (take 4 bs) as [[mg r]|] eqn:E0; [|discriminate].
    rewrite (take_ext _ _ _ _ t E0).
    destruct (le_val mg =? MAGIC); [|discriminate].
    destruct (parse_desc r) as [[d r1]|] eqn:E1; [|discriminate].
    rewrite (parse_desc_ext _ _ _ t E1).
    destruct (bsid_size (f_bsid d)); [|discriminate].
    eapply blocks_ext; [exact H|]. rewrite app_length. lia.
  Qed.
End WithDecoders.

(* ---------------------------------------------------------------- skippable magic: mask test == range test *)
Lemma land_mask16 : forall m, 0 <= m < 4294967296 -> Z.land m 4294967280 = 16 * (m / 16).
Proof.
  intros m Hm. apply Z.bits_inj'. intros n Hn.
  rewrite Z.land_spec.
  replace (16 * (m / 16)) with (Z.shiftl (Z.shiftr m 4) 4)
    by (rewrite Z.shiftl_mul_pow2, Z.shiftr_div_pow2 by lia; change (2 ^ 4) with 16; ring).
  change 4294967280 with (Z.shiftl (Z.ones 28) 4).
  destruct (Z.ltb_spec n 4) as [L4|G4].
  - rewrite !Z.shiftl_spec_low by lia. apply andb_false_r.
  - rewrite !Z.shiftl_spec by lia. rewrite Z.shiftr_spec by lia. replace (n - 4 + 4) with n by lia.
    destruct (Z.ltb_spec n 32) as [L32|G32].
    + rewrite Z.ones_spec_low by lia. apply andb_true_r.
    + rewrite Z.ones_spec_high by lia. rewrite andb_false_r.
      destruct (Z.eq_dec m 0) as [->|NZ]; [symmetry; apply Z.bits_0|].
      symmetry. apply Z.bits_above_log2; [lia|].
      assert (Z.log2 m < 32) by (apply Z.log2_lt_pow2; lia). lia.
Qed.

Lemma skippable_mask_range : forall m, 0 <= m < 4294967296 ->
  (Z.land m LZ4IO_SKIPPABLEMASK =? LZ4IO_SKIPPABLE0) = ((MAGIC_SKIP_LO <=? m) && (m <=? MAGIC_SKIP_HI)).
Proof.
  intros m Hm. unfold LZ4IO_SKIPPABLEMASK, LZ4IO_SKIPPABLE0, MAGIC_SKIP_LO, MAGIC_SKIP_HI.
  rewrite land_mask16 by exact Hm.
  assert (D := Z.div_mod m 16 ltac:(lia)). assert (B := Z.mod_pos_bound m 16 ltac:(lia)).
  set (q := m / 16) in *. set (r := m mod 16) in *. clearbody q r.
  destruct (16 * q =? 407710288) eqn:E1; destruct (407710288 <=? m) eqn:E2; destruct (m <=? 407710303) eqn:E3;
    cbn [andb]; try reflexivity; exfalso;
    repeat match goal with
           | H : (_ =? _) = true |- _ => apply Z.eqb_eq in H
           | H : (_ =? _) = false |- _ => apply Z.eqb_neq in H
           | H : (_ <=? _) = true |- _ => apply Z.leb_le in H
           | H : (_ <=? _) = false |- _ => apply Z.leb_gt in H
           end; lia.
Qed.

(* ---------------------------------------------------------------- little-endian words of in-range bytes *)
Lemma le_val_range : forall bs, bytes_ok bs = true -> 0 <= le_val bs < 256 ^ Z.of_nat (length bs).
Proof.
  induction bs as [|b r IH]; intros H.
  - cbn. lia.
  - rewrite bytes_ok_cons in H. apply andb_true_iff in H. destruct H as [Hb Hr].
    unfold byte_ok in Hb. apply andb_true_iff in Hb. destruct Hb as [Hb1 Hb2].
    apply Z.leb_le in Hb1. apply Z.ltb_lt in Hb2.
    specialize (IH Hr). cbn [le_val length]. rewrite Nat2Z.inj_succ, Z.pow_succ_r by lia. lia.
Qed.

Lemma le_val_4_range : forall bs, bytes_ok bs = true -> length bs = 4%nat -> 0 <= le_val bs < 4294967296.
Proof. intros bs H L. apply le_val_range in H. rewrite L in H. exact H. Qed.

Lemma bytes_ok_firstn : forall n l, bytes_ok l = true -> bytes_ok (firstn n l) = true.
Proof.
  intros n l H. rewrite <- (firstn_skipn n l) in H. rewrite bytes_ok_app in H.
  apply andb_true_iff in H. tauto.
Qed.
Lemma bytes_ok_skipn : forall n l, bytes_ok l = true -> bytes_ok (skipn n l) = true.
Proof.
  intros n l H. rewrite <- (firstn_skipn n l) in H. rewrite bytes_ok_app in H.
  apply andb_true_iff in H. tauto.
Qed.

(* every frame magic number exceeds the largest legacy block size the decoder accepts *)
Lemma magic_gap : forall w, is_magic w = true -> LZ4IO_LEGACY_BOUND < w.
Proof.
  intros w H. unfold is_magic, MAGIC, MAGIC_LEGACY, MAGIC_SKIP_LO, MAGIC_SKIP_HI in H. unfold LZ4IO_LEGACY_BOUND.
  apply orb_true_iff in H. destruct H as [H|H].
  - apply orb_true_iff in H. destruct H as [H|H]; apply Z.eqb_eq in H; lia.
  - apply andb_true_iff in H. destruct H as [H _]. apply Z.leb_le in H. lia.
Qed.

Section Streams.
  Variable bdec : list byte -> list byte -> option (list byte).
  Variable skipcrc : bool.

  Lemma legacy_blocks_mono : forall f f' acc bs r,
    legacy_blocks bdec f acc bs = Some r -> (f <= f')%nat -> legacy_blocks bdec f' acc bs = Some r.
  Proof.
    induction f; intros f' acc bs r H LE; cbn [legacy_blocks] in H; [discriminate|].
    destruct f' as [|f']; [lia|]. cbn [legacy_blocks].
    destruct bs as [|b0 bs0]; [exact H|].
    destruct (take 4 (b0 :: bs0)) as [[szb r0]|]; [|discriminate].
    destruct (is_magic (le_val szb)); [exact H|].
    destruct (take _ r0) as [[data r1]|]; [|discriminate].
    destruct (bdec [] data) as [c|]; [|discriminate].
    destruct (LEGACY_BLOCK <? _); [discriminate|].
    apply IHf; [exact H|lia].
  Qed.

  Lemma stream_decode_mono : forall f f' dict acc bs r,
    stream_decode bdec skipcrc f dict acc bs = Some r -> (f <= f')%nat ->
    stream_decode bdec skipcrc f' dict acc bs = Some r.
  Proof.
    induction f; intros f' dict acc bs r H LE; cbn [stream_decode] in H; [discriminate|].
    destruct f' as [|f']; [lia|]. cbn [stream_decode].
    destruct bs as [|b0 bs0]; [exact H|].
    destruct (take 4 (b0 :: bs0)) as [[mg r0]|]; [|discriminate].
    destruct (le_val mg =? MAGIC).
    - destruct (frame_decode bdec skipcrc dict (b0 :: bs0)) as [[c rest]|]; [|discriminate].
      apply IHf; [exact H|lia].
    - destruct (le_val mg =? MAGIC_LEGACY).
      + destruct (legacy_blocks bdec (S (length r0)) [] r0) as [[c rest]|]; [|discriminate].
        apply IHf; [exact H|lia].
      + destruct ((MAGIC_SKIP_LO <=? le_val mg) && (le_val mg <=? MAGIC_SKIP_HI)); [|discriminate].
        destruct (take 4 r0) as [[szb r1]|]; [|discriminate].
        destruct (take _ r1) as [[pl rest]|]; [|discriminate].
        apply IHf; [exact H|lia].
  Qed.
End Streams.
