(* C05 for LZ4_decompress_safe_continue: one call of the streaming model
   [Model.DecStream.decompress_safe_continue] on a specification-valid block returns
   the decoded size, leaves the decoded content at the destination inside the arena
   and updates the stream bookkeeping as the next call expects, in each of the three
   modes the C code selects (first call / rolling prefix, including double-dictionary
   / prefix turned into external dictionary).  The history the block may reference is
   described by a memory view over the arena at the time of the call. *)
From Coq Require Import ZArith List Lia Bool ZifyBool FMapPositive.
From LZ4V Require Import Gen.Consts Spec.BlockSpec Model.Mem Model.Dec Model.DecApi Model.DecStream.
From LZ4V Require Import Proofs.DecRefineBase Proofs.DecRefineSafe Proofs.DecRefineTop Proofs.DecRefineApi.
Import ListNotations.
Local Open Scope Z_scope.

Lemma get_empty a : get empty a = 0.
Proof. unfold get, empty. rewrite PositiveMap.gempty. reflexivity. Qed.

Lemma get_view am a at_ n x :
  get (view am a at_ n) x = if (at_ <=? x) && (x <? at_ + Z.max n 0) then get am (a + (x - at_)) else 0.
Proof.
  unfold view. rewrite get_blit.
  replace (Z.of_nat (Z.to_nat n)) with (Z.max n 0) by lia.
  destruct ((at_ <=? x) && (x <? at_ + Z.max n 0)); [reflexivity | apply get_empty].
Qed.

(* the bytes a call at [dest] may reference, as a function of the (negative) distance from dest *)
Definition stream_view (am : mem) (st : sdstate) (dest : Z) (a : Z) : Z :=
  if sd_prefixSize st =? 0 then 0
  else if sd_prefixEnd st =? dest then
    if - sd_prefixSize st <=? a then get am (dest + a)
    else get am (sd_externalDict st + sd_extDictSize st - (- sd_prefixSize st - a))
  else get am (sd_prefixEnd st + a).

(* how many bytes of history the selected mode makes available *)
Definition stream_avail (st : sdstate) (dest : Z) : Z :=
  if sd_prefixSize st =? 0 then 0
  else if sd_prefixEnd st =? dest then
    if (sd_prefixSize st >=? 65536 - 1) then sd_prefixSize st else sd_prefixSize st + sd_extDictSize st
  else sd_prefixSize st.

Definition next_state (st : sdstate) (dest r : Z) : sdstate :=
  if sd_prefixSize st =? 0 then mkSD (sd_externalDict st) (dest + r) (sd_extDictSize st) r
  else if sd_prefixEnd st =? dest then
    mkSD (sd_externalDict st) (sd_prefixEnd st + r) (sd_extDictSize st) (sd_prefixSize st + r)
  else mkSD (sd_prefixEnd st - sd_prefixSize st) (dest + r) (sd_prefixSize st) r.

Lemma writeback_get am dest cap m i : 0 <= i < cap -> get (writeback am dest cap m) (dest + i) = get m i.
Proof.
  intros Hi. unfold writeback. rewrite get_blit.
  assert (E : (dest <=? dest + i) && (dest + i <? dest + Z.of_nat (Z.to_nat cap)) = true) by lia. rewrite E.
  f_equal. lia.
Qed.

Theorem continue_step :
  forall (fastloop : bool) (am : mem) (st : sdstate) (srcm : mem) (B hist D : list Z) (dest cap : Z),
    0 <= sd_prefixSize st -> 0 <= sd_extDictSize st ->
    out_at (stream_view am st dest) 0 (rev hist) -> Z.of_nat (length hist) <= stream_avail st dest ->
    strict_valid (lastn (Z.to_nat 65536) hist) B = Some D -> bytes B -> src_at srcm 0 B ->
    Z.of_nat (length D) <= cap ->
    let '(r, am', st', k) := decompress_safe_continue fastloop am st srcm (Z.of_nat (length B)) dest cap in
    r = Z.of_nat (length D) /\ src_at am' dest D /\
    (0 < Z.of_nat (length D) -> st' = next_state st dest r).
Proof.
  intros fastloop am st srcm B hist D dest cap Hps Heds Hview Havail Hv Hb Hs Hcap.
  pose proof (lastn_length (Z.to_nat 65536) hist) as Hl.
  pose proof (out_at_lastn _ _ (Z.to_nat 65536) _ Hview) as Hview'.
  unfold decompress_safe_continue, stream_view, stream_avail, next_state in *.
  (* common end of the three branches *)
  assert (Hfin : forall (res : Z * mem * bool) (stA : sdstate) (stB : Z -> sdstate),
             (let '(r, m, k) := res in r = Z.of_nat (length D) /\ forall i, 0 <= i < Z.of_nat (length D) -> get m i = nth (Z.to_nat i) D 0) ->
             let '(r, am', st', k) :=
               (let '(r, m, k) := res in
                let am' := writeback am dest cap m in
                if r <=? 0 then (r, am', stA, k) else (r, am', stB r, k)) in
             r = Z.of_nat (length D) /\ src_at am' dest D /\ (0 < Z.of_nat (length D) -> st' = stB r)).
  { intros [[r m] k] stA stB [Hr Hm].
    assert (Hsrc : src_at (writeback am dest cap m) dest D).
    { intros j Hj. rewrite writeback_get by lia. rewrite Hm by lia. f_equal. lia. }
    destruct (r <=? 0) eqn:E; (split; [exact Hr|]; split; [exact Hsrc|]); intros Hpos; [lia | reflexivity]. }
  destruct (sd_prefixSize st =? 0) eqn:E0.
  - (* first call: no history *)
    apply (Hfin _ st (fun r => mkSD (sd_externalDict st) (dest + r) (sd_extDictSize st) r)).
    unfold decompress_safe.
    apply (dec_generic_valid NoDict srcm empty 0 0 0 ltac:(lia) ltac:(lia) fastloop B (lastn (Z.to_nat 65536) hist) D cap _); try assumption.
    + intros j Hj. rewrite rev_length in Hj. lia.
    + unfold hroom. cbn [is_extdict]. lia.
  - destruct (sd_prefixEnd st =? dest) eqn:Epe.
    + (* rolling the current segment *)
      set (ps := sd_prefixSize st) in *.
      assert (Hwork : forall a, - Z.min ps 65536 <= a < 0 -> get (work am dest cap ps) a = get am (dest + a)).
      { intros a Ha. unfold work, hist_window. rewrite get_view.
        assert (E : (- Z.min ps 65536 <=? a) && (a <? - Z.min ps 65536 + Z.max (Z.min ps 65536 + Z.max cap 0) 0) = true) by lia.
        rewrite E. f_equal; lia. }
      apply (Hfin _ st (fun r => mkSD (sd_externalDict st) (sd_prefixEnd st + r) (sd_extDictSize st) (ps + r))).
      destruct (ps >=? 65536 - 1) eqn:E64.
      * apply (dec_generic_valid WithPrefix64k srcm empty 0 (-65536) (- ps) ltac:(lia) ltac:(lia) fastloop B (lastn (Z.to_nat 65536) hist) D cap _); try assumption.
        -- intros j Hj. rewrite rev_length in Hj. rewrite vget_hi by lia. rewrite Hwork by lia.
           rewrite <- (Hview' j) by (rewrite rev_length; lia).
           assert (E : (- ps <=? 0 - 1 - Z.of_nat j) = true) by lia. rewrite E. f_equal; lia.
        -- unfold hroom. cbn [is_extdict]. lia.
      * destruct (sd_extDictSize st =? 0) eqn:Ee0.
        -- apply (dec_generic_valid NoDict srcm empty 0 (- ps) (- ps) ltac:(lia) ltac:(lia) fastloop B (lastn (Z.to_nat 65536) hist) D cap _); try assumption.
           ++ intros j Hj. rewrite rev_length in Hj. rewrite vget_hi by lia. rewrite Hwork by lia.
              rewrite <- (Hview' j) by (rewrite rev_length; lia).
              assert (E : (- ps <=? 0 - 1 - Z.of_nat j) = true) by lia. rewrite E. f_equal; lia.
           ++ unfold hroom. cbn [is_extdict]. lia.
        -- (* double dictionary *)
           set (eds := sd_extDictSize st) in *. set (ed := sd_externalDict st) in *.
           apply (dec_generic_valid UsingExtDict srcm (dictview am ed eds) eds (- ps) (- ps) ltac:(lia) ltac:(lia) fastloop B (lastn (Z.to_nat 65536) hist) D cap _); try assumption.
           ++ intros j Hj. rewrite rev_length in Hj.
              rewrite <- (Hview' j) by (rewrite rev_length; lia).
              unfold vget.
              destruct (- ps <=? 0 - 1 - Z.of_nat j) eqn:Ein.
              ** assert (E : (0 - 1 - Z.of_nat j <? - ps) = false) by lia. rewrite E. rewrite Hwork by lia. f_equal; lia.
              ** assert (E : (0 - 1 - Z.of_nat j <? - ps) = true) by lia. rewrite E.
                 unfold dictview, hist_window. rewrite get_view.
                 assert (E2 : (eds - Z.min eds 65536 <=? eds - (- ps - (0 - 1 - Z.of_nat j))) &&
                              (eds - (- ps - (0 - 1 - Z.of_nat j)) <? eds - Z.min eds 65536 + Z.max (Z.min eds 65536) 0) = true) by lia.
                 rewrite E2. f_equal; lia.
           ++ unfold hroom. cbn [is_extdict]. lia.
    + (* the prefix becomes the external dictionary *)
      set (ps := sd_prefixSize st) in *. set (pe := sd_prefixEnd st) in *.
      apply (Hfin _ (mkSD (pe - ps) pe ps ps) (fun r => mkSD (pe - ps) (dest + r) ps r)).
      apply (dec_generic_valid UsingExtDict srcm (dictview am (pe - ps) ps) ps 0 0 ltac:(lia) ltac:(lia) fastloop B (lastn (Z.to_nat 65536) hist) D cap _); try assumption.
      * intros j Hj. rewrite rev_length in Hj.
        rewrite <- (Hview' j) by (rewrite rev_length; lia).
        unfold vget. assert (E : (0 - 1 - Z.of_nat j <? 0) = true) by lia. rewrite E.
        unfold dictview, hist_window. rewrite get_view.
        assert (E2 : (ps - Z.min ps 65536 <=? ps - (0 - (0 - 1 - Z.of_nat j))) &&
                     (ps - (0 - (0 - 1 - Z.of_nat j)) <? ps - Z.min ps 65536 + Z.max (Z.min ps 65536) 0) = true) by lia.
        rewrite E2. f_equal; lia.
      * unfold hroom. cbn [is_extdict]. lia.
Qed.
