(* Streaming round trip: what the DEcoder has.

   [hist_inv m c H]: the bytes the stream designates as its dictionary (its own dictionary region,
   or the attached dictionary context's) are the last dictSize bytes of the decoder-side history H
   (H = dictionary ++ every block emitted so far).  Under [hist_inv] for the context AFTER the
   prelude of LZ4_compress_fast_continue (renormalisation, tiny-dictionary invalidation, overlap
   trimming), every successful block is accepted by the block specification (end conditions
   included) with ANY decoder window of at least 65535 bytes of H (in particular "the last 64 KB")
   and decodes to the source bytes; and [hist_inv] holds again for H ++ block.
   The prelude itself, LZ4_saveDict and caller writes outside the designated region preserve
   [hist_inv] (geometry lemmas at the end). *)
From Coq Require Import ZArith List Lia Bool ZifyBool FMapPositive.
From LZ4V Require Import Gen.Consts Spec.BlockSpec Model.Mem Model.Fast Model.FastApi Model.FastStream
     Proofs.BlockSpecProofs Proofs.FactorSpec Proofs.FastBasics Proofs.FastSound Proofs.FastApiSound
     Proofs.FastStreamMem Proofs.FastStreamProofs.
Import ListNotations.
Local Open Scope Z_scope.

(* ---------------------------------------------------------------- factorisations: change of window / of space *)
Lemma seg_ext v v' a b : (forall i, a <= i < b -> v i = v' i) -> seg v a b = seg v' a b.
Proof.
  intros H. unfold seg.
  assert (G : forall k x, (forall i, x <= i < x + Z.of_nat k -> v i = v' i) -> bytes v k x = bytes v' k x).
  { induction k as [|k IH]; intros x Hx; cbn [bytes]; [reflexivity|].
    f_equal; [apply Hx; lia | apply IH; intros i Hi; apply Hx; lia]. }
  apply G. intros i Hi. apply H. lia.
Qed.

Lemma seqs_valid_change v v' lo lo' s : forall ss pos,
  (forall i, lo <= i -> v i = v' i) -> lo <= s -> s <= pos ->
  (lo' <= lo \/ lo' <= s - 65535) ->
  seqs_valid v lo pos ss -> seqs_valid v' lo' pos ss.
Proof.
  induction ss as [|q r IH]; intros pos He Hlo Hs Hl Hv; cbn [seqs_valid] in *; [exact I|].
  cbv zeta in *. destruct Hv as (H1 & (M1 & M2 & M3 & M4) & H3).
  set (ll := Z.of_nat (length (s_lits q))) in *.
  assert (Hll : 0 <= ll) by (unfold ll; lia).
  split; [rewrite H1; apply seg_ext; intros i Hi; apply He; lia|].
  split.
  - unfold match_ok. split; [exact M1|]. split; [exact M2|]. split; [lia|].
    intros i Hi. rewrite <- !He by lia. apply M4. exact Hi.
  - apply IH; try assumption; lia.
Qed.

(* ---------------------------------------------------------------- the decoder's virtual space *)
(* H laid out just below index st, the call's space from st on *)
Definition dspace (H : list Z) (st : Z) (v : Z -> Z) : Z -> Z :=
  fun i => if i <? st then nth (Z.to_nat (i - (st - Z.of_nat (length H)))) H 0 else v i.

Lemma nth_skipn_ {A} (d : A) : forall o l j, nth j (skipn o l) d = nth (o + j) l d.
Proof.
  induction o as [|o IH]; intros l j; [reflexivity|].
  destruct l as [|x l]; [destruct j; reflexivity|]. cbn [skipn Nat.add nth]. apply IH.
Qed.

Lemma nth_firstn_ {A} (d : A) : forall k l j, (j < k)%nat -> nth j (firstn k l) d = nth j l d.
Proof.
  induction k as [|k IH]; intros l j Hj; [lia|].
  destruct l as [|x l]; [reflexivity|]. destruct j as [|j]; [reflexivity|]. cbn [firstn nth]. apply IH. lia.
Qed.

Lemma bytes_nth_ f : forall k a j, (j < k)%nat -> nth j (bytes f k a) 0 = f (a + Z.of_nat j).
Proof.
  intros k a j Hj. pose proof (bytes_nth f k a j Hj) as E. apply nth_error_nth with (d := 0) in E. exact E.
Qed.

Lemma bytes_of_list f l k o a :
  (forall i, 0 <= i < Z.of_nat k -> f (a + i) = nth (o + Z.to_nat i) l 0) -> (o + k <= length l)%nat ->
  bytes f k a = firstn k (skipn o l).
Proof.
  intros Hf Hl. apply (nth_ext _ _ 0 0).
  - rewrite bytes_length, firstn_length, skipn_length. lia.
  - rewrite bytes_length. intros j Hj. rewrite bytes_nth_ by exact Hj.
    rewrite nth_firstn_ by exact Hj. rewrite nth_skipn_. rewrite Hf by lia. f_equal. lia.
Qed.

Lemma dspace_hi H st v i : st <= i -> dspace H st v i = v i.
Proof. intros Hi. unfold dspace. destruct (i <? st) eqn:E; [lia | reflexivity]. Qed.

Lemma dspace_byte H st v : list_ok H -> (forall a, 0 <= v a < 256) -> forall a, 0 <= dspace H st v a < 256.
Proof.
  intros HH Hv a. unfold dspace. destruct (a <? st); [|apply Hv].
  set (k := Z.to_nat (a - (st - Z.of_nat (length H)))).
  destruct (Nat.lt_ge_cases k (length H)) as [Hk|Hk].
  - unfold list_ok in HH. rewrite Forall_forall in HH. apply HH. apply nth_In. exact Hk.
  - rewrite nth_overflow by exact Hk. lia.
Qed.

Lemma dspace_lo H st v j : (j <= length H)%nat -> seg (dspace H st v) (st - Z.of_nat j) st = lastn j H.
Proof.
  intros Hj. unfold seg. replace (Z.to_nat (st - (st - Z.of_nat j))) with j by lia.
  rewrite (bytes_of_list _ H j (length H - j)).
  - unfold lastn. apply firstn_all2. rewrite skipn_length. lia.
  - intros i Hi. unfold dspace. destruct (st - Z.of_nat j + i <? st) eqn:E; [|lia]. f_equal. lia.
  - lia.
Qed.

Lemma seqs_end_ge_valid v lo pos ss : seqs_valid v lo pos ss -> pos <= seqs_end pos ss.
Proof.
  intros Hv. apply seqs_end_ge. intros q Hq. pose proof (seqs_valid_mlen v lo pos ss Hv q Hq). lia.
Qed.

(* a factorisation over the call's space, whose history part agrees with the tail of H, is accepted
   by the specification's decoder with any window of >= 65535 bytes of H *)
Lemma factored_decodes v st n ds H out K :
  (forall a, 0 <= v a < 256) -> list_ok H -> 0 <= ds <= Z.of_nat (length H) -> 0 <= n ->
  (forall k, 0 <= k < ds -> v (st - ds + k) = nth (Z.to_nat (Z.of_nat (length H) - ds + k)) H 0) ->
  factored v (st - ds) st n out -> 65535 <= K ->
  strict_valid (lastn (Z.to_nat K) H) out = Some (seg v st (st + n)).
Proof.
  intros Hv HH Hds Hn Hag (ss & last & Eo & Eend & Sv & Se & El) HK.
  set (dv := dspace H st v).
  set (j := Nat.min (length H) (Z.to_nat K)).
  assert (Hdv : forall a, 0 <= dv a < 256) by (apply dspace_byte; assumption).
  assert (Agree : forall i, st - ds <= i -> v i = dv i).
  { intros i Hi. unfold dv, dspace. destruct (i <? st) eqn:E; [|reflexivity].
    replace i with (st - ds + (i - (st - ds))) at 1 by lia. rewrite Hag by lia. f_equal. lia. }
  assert (Sv' : seqs_valid dv (st - Z.of_nat j) st ss).
  { apply (seqs_valid_change v dv (st - ds) (st - Z.of_nat j) st ss st Agree); try exact Sv; try lia. }
  assert (Ege : st <= seqs_end st ss) by (apply (seqs_end_ge_valid v (st - ds)); exact Sv).
  assert (El' : last = seg dv (seqs_end st ss) (st + n)).
  { rewrite El. apply seg_ext. intros i Hi. apply Agree. lia. }
  rewrite Eo. rewrite strict_valid_encode.
  - rewrite Eend.
    pose proof (factor_decodes dv (st - Z.of_nat j) st (st + n) ss last ltac:(lia) Sv' Se El') as F.
    fold dv in F. pose proof (dspace_lo H st v j ltac:(unfold j; lia)) as DL. fold dv in DL. rewrite DL in F.
    assert (EL : lastn j H = lastn (Z.to_nat K) H).
    { unfold j. destruct (Nat.min_spec (length H) (Z.to_nat K)) as [[? ->]|[? ->]]; [|reflexivity].
      rewrite !lastn_all by lia. reflexivity. }
    rewrite <- EL, F. f_equal. apply seg_ext. intros i Hi. symmetry. apply Agree. lia.
  - eapply seqs_valid_wf; [exact Hdv | exact Sv'].
  - rewrite El'. apply seg_bytes_ok. exact Hdv.
Qed.

Lemma strict_valid_empty_block h : strict_valid h [0] = Some [].
Proof.
  unfold strict_valid, parse_block. cbn [length parse_seqs]. 
  replace (0 / 16) with 0 by reflexivity. unfold read_len. cbn [Z.eqb take Z.to_nat].
  unfold end_ok, run_seqs. cbn [rev apply_seqs app].
  rewrite rev_involutive. rewrite skipn_all. reflexivity.
Qed.

(* ================================================================ the history the compressor relies on *)
(* address and size of the bytes the stream designates as history *)
Definition hist_dict (c : sctx) : Z * Z :=
  match s_dctx c with Some d => (d_dict d, d_dictSize d) | None => (s_dict c, s_dictSize c) end.

Definition hist_inv (m : mem) (c : sctx) (H : list Z) : Prop :=
  0 <= snd (hist_dict c) <= Z.of_nat (length H) /\
  load_list m (fst (hist_dict c)) (Z.to_nat (snd (hist_dict c))) = lastn (Z.to_nat (snd (hist_dict c))) H.

(* the virtual index space of the selected call is a window on the memory: the designated history just
   below startIndex, the source from startIndex on *)
Lemma continue_call_space m c1 dictEnd source n :
  (s_dctx c1 <> None -> dictEnd = 0) -> 0 < source ->
  (dictEnd = source -> s_dict c1 + s_dictSize c1 = source) ->
  let '(cc, dd, small) := continue_call c1 dictEnd source n in
  cd_dictSize cc dd = snd (hist_dict c1) /\
  (forall k, 0 <= k < snd (hist_dict c1) ->
     call_vrd m cc dd source (s_cur cc - snd (hist_dict c1) + k) = get m (fst (hist_dict c1) + k)) /\
  (forall k, 0 <= k -> call_vrd m cc dd source (s_cur cc + k) = get m (source + k)).
Proof.
  intros Hz Hs Hp. unfold continue_call, hist_dict.
  destruct (dictEnd =? source) eqn:E.
  - assert (Hd : s_dctx c1 = None).
    { destruct (s_dctx c1); [|reflexivity]. exfalso. specialize (Hz ltac:(discriminate)). lia. }
    rewrite Hd. cbn [fst snd]. specialize (Hp ltac:(lia)).
    unfold call_vrd, cd_dictSize, cd_dict, vrd_of. split; [reflexivity|]. split.
    + intros k Hk. replace (s_cur c1 - s_dictSize c1 + k <? s_cur c1) with true by lia. f_equal. lia.
    + intros k Hk. replace (s_cur c1 + k <? s_cur c1) with false by lia. f_equal. lia.
  - destruct (s_dctx c1) as [d|] eqn:Ed; cbn [fst snd].
    + destruct (n >? 4096).
      * unfold call_vrd, cd_dictSize, cd_dict, vrd_of. cbn [s_dctx s_dictSize s_dict s_cur]. split; [reflexivity|]. split.
        -- intros k Hk. replace (d_cur d - d_dictSize d + k <? d_cur d) with true by lia. f_equal. lia.
        -- intros k Hk. replace (d_cur d + k <? d_cur d) with false by lia. f_equal. lia.
      * unfold call_vrd, cd_dictSize, cd_dict, vrd_of. rewrite Ed. split; [reflexivity|]. split.
        -- intros k Hk. replace (s_cur c1 - d_dictSize d + k <? s_cur c1) with true by lia. f_equal. lia.
        -- intros k Hk. replace (s_cur c1 + k <? s_cur c1) with false by lia. f_equal. lia.
    + unfold call_vrd, cd_dictSize, cd_dict, vrd_of. split; [reflexivity|]. split.
      * intros k Hk. replace (s_cur c1 - s_dictSize c1 + k <? s_cur c1) with true by lia. f_equal. lia.
      * intros k Hk. replace (s_cur c1 + k <? s_cur c1) with false by lia. f_equal. lia.
Qed.

Lemma nth_load_list m a n k : (k < n)%nat -> nth k (load_list m a n) 0 = get m (a + Z.of_nat k).
Proof. intros Hk. apply nth_error_nth. apply load_list_nth. exact Hk. Qed.

Lemma nth_lastn (H : list Z) j k : (j <= length H)%nat -> nth k (lastn j H) 0 = nth (length H - j + k) H 0.
Proof. intros Hj. unfold lastn. apply nth_skipn_. Qed.

(* C11 / C12: one successful LZ4_compress_fast_continue, decoder side *)
Theorem continue_decodes m c source n cap acc H :
  mem_ok m -> table_inv c -> tt_inv c -> stream_ready c -> 0 <= n <= LZ4_MAX_INPUT_SIZE -> 0 < source ->
  list_ok H -> hist_inv m (fst (prelude c source n)) H ->
  let r := fast_continue m c source n cap acc in
  0 < r_ret r ->
  r_ret r = Z.of_nat (length (r_out r)) /\
  (forall K, 65535 <= K ->
     strict_valid (lastn (Z.to_nat K) H) (r_out r) = Some (load_list m source (Z.to_nat n))) /\
  hist_inv m (r_ctx r) (H ++ load_list m source (Z.to_nat n)).
Proof.
  intros Hm T V R Hn Hs HH HI. cbv zeta. intros Hr.
  pose proof (fast_continue_sound m c source n cap acc Hm T V R Hn Hs) as F. cbv zeta in F.
  pose proof (prelude_inv c source n T R Hn ltac:(lia)) as P. cbv zeta in P.
  destruct P as (T1 & R1 & Q1 & X1 & S1 & Z1 & W1 & _).
  set (c1 := fst (prelude c source n)) in *. set (dictEnd := snd (prelude c source n)) in *.
  set (r := fast_continue m c source n cap acc) in *.
  pose proof (continue_call_space m c1 dictEnd source n Z1 Hs (W1 Hs)) as Sp.
  pose proof (continue_call_ok c1 dictEnd source n T1 Q1 Z1 Hs Hn R1) as K.
  destruct (continue_call c1 dictEnd source n) as [[cc dd] small] eqn:Ecc.
  destruct F as (F1 & F2 & F3 & F5 & F4). destruct Sp as (Sp1 & Sp2 & Sp3).
  destruct K as (K1 & K2 & K3 & K4 & K5 & K6 & K7 & K8 & K9).
  destruct (F4 Hr) as (G1 & G2). split; [exact G1|].
  destruct HI as (HI1 & HI2). set (da := fst (hist_dict c1)) in *. set (ds := snd (hist_dict c1)) in *.
  assert (Hsrc : seg (call_vrd m cc dd source) (s_cur cc) (s_cur cc + n) = load_list m source (Z.to_nat n)).
  { rewrite (seg_as_load _ m _ _ source) by (try lia; intros i Hi; apply Sp3; lia). f_equal. lia. }
  split.
  - intros Kk HK. destruct G2 as [(Gz & Go) | (Gn & Gc & Gf)].
    + rewrite Go, Gz. cbn [Z.to_nat load_list]. apply strict_valid_empty_block.
    + rewrite Sp1 in Gf. rewrite <- Hsrc.
      apply (factored_decodes (call_vrd m cc dd source) (s_cur cc) n ds H (r_out r) Kk); try assumption; try lia.
      * intros a. apply vrd_of_byte. exact Hm.
      * intros k Hk. rewrite Sp2 by exact Hk.
        assert (E1 : get m (da + k) = nth (Z.to_nat k) (load_list m da (Z.to_nat ds)) 0).
        { rewrite nth_load_list by lia. f_equal. lia. }
        rewrite E1, HI2. rewrite nth_lastn by lia. f_equal. lia.
  - (* the history after the call *)
    set (blk := load_list m source (Z.to_nat n)).
    assert (Lb : length blk = Z.to_nat n) by (unfold blk; apply load_list_length).
    unfold hist_inv. rewrite app_length, Lb. subst da ds.
    destruct (dictEnd =? source) eqn:Ep.
    + (* prefix mode: the designated region grows by the block *)
      destruct F5 as (P0 & Pn).
      destruct (Z.eq_dec n 0) as [Hz|Hnz].
      * rewrite (P0 Hz). assert (blk = []) as -> by (unfold blk; rewrite Hz; reflexivity).
        rewrite app_nil_r. split; [lia | exact HI2].
      * destruct (Pn ltac:(lia)) as (E1 & E2 & E3).
        assert (Hd : s_dctx c1 = None).
        { destruct (s_dctx c1); [|reflexivity]. exfalso. specialize (Z1 ltac:(discriminate)). lia. }
        unfold hist_dict in *. rewrite E3. rewrite Hd in *. cbn [fst snd] in *. rewrite E1, E2.
        split; [lia|].
        replace (Z.to_nat (s_dictSize c1 + n)) with (Z.to_nat (s_dictSize c1) + Z.to_nat n)%nat by lia.
        rewrite load_list_app. rewrite HI2.
        replace (s_dict c1 + Z.of_nat (Z.to_nat (s_dictSize c1))) with source by (specialize (W1 Hs ltac:(lia)); lia).
        fold blk. rewrite <- Lb. symmetry. apply lastn_app. lia.
    + (* external dictionary / dictCtx mode: the block becomes the designated region *)
      destruct F5 as (E1 & E2 & E3 & E4).
      destruct (Z.eq_dec n 0) as [Hz|Hnz].
      * assert (blk = []) as -> by (unfold blk; rewrite Hz; reflexivity). rewrite app_nil_r.
        unfold hist_dict. rewrite (E4 Hz). fold (hist_dict c1).
        destruct (s_dctx c1) eqn:Ed.
        -- unfold hist_dict in *. rewrite Ed in *. split; [lia | exact HI2].
        -- cbn [fst snd]. rewrite E2, Hz. cbn [Z.to_nat load_list]. split; [lia|]. unfold lastn. rewrite Nat.sub_0_r. symmetry. apply skipn_all.
      * unfold hist_dict. rewrite (E3 ltac:(lia)). cbn [fst snd]. rewrite E1, E2. split; [lia|].
        fold blk. rewrite <- Lb. symmetry. apply lastn_app_r.
Qed.
(* ================================================================ geometry: when [hist_inv] is kept *)
Lemma skipn_skipn_ {A} : forall b a (l : list A), skipn a (skipn b l) = skipn (a + b) l.
Proof.
  induction b as [|b IH]; intros a l; [rewrite Nat.add_0_r; reflexivity|].
  destruct l as [|x l]; [rewrite !skipn_nil; reflexivity|].
  replace (a + S b)%nat with (S (a + b)) by lia. cbn [skipn]. apply IH.
Qed.

Lemma lastn_lastn {A} j k (l : list A) : (j <= k)%nat -> (k <= length l)%nat -> lastn j (lastn k l) = lastn j l.
Proof.
  intros H1 H2. unfold lastn. rewrite skipn_length, skipn_skipn_. f_equal. lia.
Qed.

(* a suffix of the designated region still is the tail of H *)
Lemma hist_suffix m da ds da' ds' (H : list Z) :
  0 <= ds' <= ds -> ds <= Z.of_nat (length H) -> (ds' <> 0 -> da' + ds' = da + ds) ->
  load_list m da (Z.to_nat ds) = lastn (Z.to_nat ds) H ->
  load_list m da' (Z.to_nat ds') = lastn (Z.to_nat ds') H.
Proof.
  intros H1 H2 H3 E.
  destruct (Z.eq_dec ds' 0) as [->|Hnz].
  - cbn [Z.to_nat load_list]. unfold lastn. rewrite Nat.sub_0_r. symmetry. apply skipn_all.
  - specialize (H3 Hnz).
    rewrite <- (lastn_lastn (Z.to_nat ds') (Z.to_nat ds) H) by lia. rewrite <- E.
    rewrite <- load_list_suffix by lia. f_equal. lia.
Qed.

(* G2: the prelude of LZ4_compress_fast_continue (renormalisation, invalidation, trimming) only shrinks the
   designated region to a suffix: hist_inv is kept whatever the new source is *)
Lemma prelude_hist m c source n H :
  table_inv c -> stream_ready c -> 0 <= n <= LZ4_MAX_INPUT_SIZE -> 0 <= source ->
  hist_inv m c H -> hist_inv m (fst (prelude c source n)) H.
Proof.
  intros T R Hn Hs (HI1 & HI2).
  pose proof (prelude_inv c source n T R Hn Hs) as P. cbv zeta in P.
  destruct P as (T1 & R1 & Q1 & X1 & S1 & Z1 & W1 & L1 & D1).
  set (c1 := fst (prelude c source n)) in *.
  unfold hist_inv, hist_dict in *. rewrite X1.
  destruct (s_dctx c) as [d|]; cbn [fst snd] in *; [split; assumption|].
  assert (P1 : 0 <= s_dictSize c1) by (destruct T1 as ((_ & ? & _) & _); assumption).
  split; [lia|].
  apply (hist_suffix m (s_dict c) (s_dictSize c)); try assumption; try lia.
Qed.

(* G1: the caller writes outside the designated region *)
Lemma write_hist m c H a bs :
  hist_inv m c H ->
  (a + Z.of_nat (length bs) <= fst (hist_dict c) \/ fst (hist_dict c) + snd (hist_dict c) <= a) ->
  hist_inv (store_list m a bs) c H.
Proof.
  intros (HI1 & HI2) Hd. split; [exact HI1|]. rewrite <- HI2. apply load_store_other. lia.
Qed.

(* G5: the caller writes the next block [source, source+n); documented placements: it does not touch the
   designated region, or (ring buffers) it ends strictly inside it.  Then the precondition of
   [continue_decodes] holds for the memory after the write. *)
Lemma write_block_hist m c H source bs :
  table_inv c -> stream_ready c -> 0 <= Z.of_nat (length bs) <= LZ4_MAX_INPUT_SIZE -> 0 <= source ->
  hist_inv m c H ->
  let n := Z.of_nat (length bs) in
  let da := fst (hist_dict c) in let ds := snd (hist_dict c) in
  (source + n <= da \/ da + ds <= source \/ (s_dctx c = None /\ da < source + n < da + ds)) ->
  hist_inv (store_list m source bs) (fst (prelude c source n)) H.
Proof.
  intros T R Hn Hs HI. cbv zeta. intros Hl.
  pose proof (prelude_hist m c source (Z.of_nat (length bs)) H T R Hn Hs HI) as (K1 & K2).
  pose proof (prelude_inv c source (Z.of_nat (length bs)) T R Hn Hs) as P. cbv zeta in P.
  destruct P as (T1 & R1 & Q1 & X1 & S1 & Z1 & W1 & L1 & D1).
  set (c1 := fst (prelude c source (Z.of_nat (length bs)))) in *.
  split; [exact K1|]. rewrite <- K2.
  destruct (Z.eq_dec (snd (hist_dict c1)) 0) as [Hz|Hnz]; [rewrite Hz; reflexivity|].
  apply load_store_other.
  unfold hist_dict in *. rewrite X1 in *.
  destruct (s_dctx c) as [d|] eqn:Ed; cbn [fst snd] in *.
  - destruct Hl as [Hl|[Hl|(Hx & _)]]; [lia | lia | discriminate].
  - destruct (D1 Hnz) as (D2 & D3). specialize (S1 Hnz).
    assert (P1 : 0 <= s_dictSize c1) by (destruct T1 as ((_ & ? & _) & _); assumption).
    destruct Hl as [Hl|[Hl|(_ & Hl)]]; lia.
Qed.

(* G4: LZ4_saveDict moves the tail of the designated region; it still is the tail of H *)
Lemma saveDict_hist m c a n H :
  mem_ok m -> table_inv c -> - 2147483648 <= n < 2147483648 -> hist_inv m c H ->
  hist_inv (fst (fst (saveDict m c a n))) (snd (fst (saveDict m c a n))) H.
Proof.
  intros Hm T Hn (HI1 & HI2).
  pose proof (saveDict_inv m c a n Hm T Hn) as S. cbv zeta in S.
  destruct S as (_ & _ & _ & S4 & S5 & S6 & S7 & S8 & _).
  unfold saveDict in *. cbv zeta in *.
  set (ds1 := if u32 n >? KB64 then KB64 else n) in *.
  set (ds2 := if u32 ds1 >? s_dictSize c then s_dictSize c else ds1) in *.
  cbn [fst snd] in *. unfold hist_inv, hist_dict, with_dict in *. cbn [s_dctx s_dict s_dictSize] in *.
  destruct (s_dctx c) as [d|] eqn:Ed; cbn [fst snd] in *.
  - destruct T as (_ & D). rewrite Ed in D. destruct D as (_ & D & _).
    replace (ds2 >? 0) with false by lia. split; assumption.
  - split; [lia|].
    destruct (ds2 >? 0) eqn:E.
    + unfold blit. rewrite <- (load_list_length m (s_dict c + s_dictSize c - ds2) (Z.to_nat ds2)) at 2.
      rewrite load_store_same.
      apply (hist_suffix m (s_dict c) (s_dictSize c)); try assumption; lia.
    + assert (ds2 = 0) as -> by lia. cbn [Z.to_nat load_list]. unfold lastn. rewrite Nat.sub_0_r. symmetry. apply skipn_all.
Qed.

(* ================================================================ establishing [hist_inv] *)
Lemma hist_inv_nodict m c H : s_dctx c = None -> s_dictSize c = 0 -> hist_inv m c H.
Proof.
  intros Hd Hz. unfold hist_inv, hist_dict. rewrite Hd. cbn [fst snd]. rewrite Hz. cbn [Z.to_nat load_list].
  split; [lia|]. unfold lastn. rewrite Nat.sub_0_r. symmetry. apply skipn_all.
Qed.

(* C12: after LZ4_loadDict(Slow) of ANY size the stream designates exactly the last min(n, 64 KB) bytes of the
   dictionary the decoder is given *)
Lemma loadDict_hist m a n slow :
  0 <= n -> hist_inv m (fst (loadDict m a n slow)) (load_list m a (Z.to_nat n)).
Proof.
  intros Hn. pose proof (loadDict_inv m a n slow) as L. cbv zeta in L.
  destruct L as (_ & _ & _ & L4 & _ & L6 & L7 & L8 & _).
  set (c := fst (loadDict m a n slow)) in *.
  unfold hist_inv, hist_dict. rewrite L4. cbn [fst snd]. rewrite load_list_length.
  unfold HASH_UNIT in *.
  destruct (Z_lt_ge_dec n 8) as [Hs|Hb].
  - rewrite (L7 Hs). cbn [Z.to_nat load_list]. split; [lia|]. unfold lastn. rewrite Nat.sub_0_r, load_list_length.
    symmetry. apply skipn_all2. rewrite load_list_length. lia.
  - destruct (L8 ltac:(lia)) as (E1 & E2). split; [unfold KB64 in *; lia|].
    rewrite <- load_list_suffix by (unfold KB64 in *; lia). f_equal. unfold KB64 in *. lia.
Qed.

Lemma attach_hist m c d H :
  s_dctx d = None -> hist_inv m d H -> hist_inv m (attach_dictionary c (Some d)) H.
Proof.
  intros Hd (HI1 & HI2). unfold hist_inv, hist_dict in *. rewrite Hd in *. cbn [fst snd] in *.
  unfold attach_dictionary. cbn [s_dctx s_dict s_dictSize].
  destruct (s_dictSize d =? 0) eqn:E; cbn [fst snd view d_dict d_dictSize].
  - cbn [Z.to_nat load_list]. split; [lia|]. unfold lastn. rewrite Nat.sub_0_r. symmetry. apply skipn_all.
  - split; assumption.
Qed.

(* ================================================================ whole op lists *)
(* the history the DEcoder has after an operation *)
Definition hist_step (st : mem * sctx) (H : list Z) (o : op) : list Z :=
  match o with
  | OWrite _ _ | OSaveDict _ _ | OAttach None | OForceExt _ _ => H
  | OInit | OResetFast | OFastReset _ _ _ _ | OExtState _ _ _ _ | ODestSize _ _ _ _ => []
  | OLoadDict a n _ => load_list (fst st) a (Z.to_nat n)
  | OAttach (Some d) => load_list (fst st) (s_dict d) (Z.to_nat (s_dictSize d))
  | OContinue src n cap acc =>
    if 0 <? r_ret (fast_continue (fst st) (snd st) src n cap acc) then H ++ load_list (fst st) src (Z.to_nat n) else H
  end.

(* documented preconditions along a run: the per-operation ones ([op_pre]) and, for each streaming call,
   that the bytes the stream will use as history (after its own trimming) still are the tail of what the decoder has *)
Fixpoint stream_pre (st : mem * sctx) (H : list Z) (ops : list op) : Prop :=
  match ops with
  | [] => True
  | o :: r =>
    op_pre st o /\
    match o with
    | OContinue src n _ _ => hist_inv (fst st) (fst (prelude (snd st) src n)) H
    | _ => True
    end /\
    stream_pre (fst (step st o)) (hist_step st H o) r
  end.

(* every successful block of the run decodes (block specification, end conditions included) with any decoder
   window of at least 65535 bytes of history, to exactly the bytes that were compressed *)
Fixpoint stream_claim (st : mem * sctx) (H : list Z) (ops : list op) : Prop :=
  match ops with
  | [] => True
  | o :: r =>
    match o with
    | OContinue src n cap acc =>
      let res := fast_continue (fst st) (snd st) src n cap acc in
      0 < r_ret res ->
      r_ret res = Z.of_nat (length (r_out res)) /\
      forall K, 65535 <= K ->
        strict_valid (lastn (Z.to_nat K) H) (r_out res) = Some (load_list (fst st) src (Z.to_nat n))
    | OFastReset src n cap acc =>
      (* one-shot call on the same context, whatever its history: decodes WITHOUT any history *)
      let res := s_fastReset (fst st) (snd st) src n cap acc in
      0 < r_ret res ->
      r_ret res = Z.of_nat (length (r_out res)) /\
      strict_valid [] (r_out res) = Some (load_list (fst st) src (Z.to_nat n))
    | OExtState src n cap acc =>
      let res := s_extState (fst st) src n cap acc in
      0 < r_ret res ->
      r_ret res = Z.of_nat (length (r_out res)) /\
      strict_valid [] (r_out res) = Some (load_list (fst st) src (Z.to_nat n))
    | _ => True
    end /\
    stream_claim (fst (step st o)) (hist_step st H o) r
  end.

Lemma hist_step_ok st H o : mem_ok (fst st) -> list_ok H -> list_ok (hist_step st H o).
Proof.
  intros Hm HH. destruct o; cbn [hist_step]; try exact HH; try constructor; try (apply load_list_ok; exact Hm).
  - destruct d; [apply load_list_ok; exact Hm | exact HH].
  - destruct (0 <? r_ret (fast_continue (fst st) (snd st) src n cap acc)); [|exact HH].
    unfold list_ok in *. apply Forall_app. split; [exact HH | apply load_list_ok; exact Hm].
Qed.

Theorem stream_roundtrip : forall ops st H,
  state_inv st -> list_ok H -> stream_pre st H ops -> stream_claim st H ops.
Proof.
  induction ops as [|o r IH]; intros st H I HH P; cbn [stream_pre stream_claim] in *; [exact Logic.I|].
  destruct P as (P1 & P2 & P3).
  split.
  - destruct st as [m c]. destruct I as (Hm & T & V). cbn [fst snd op_pre] in *.
    destruct o; try exact Logic.I.
    + destruct P1 as (R & Hn & Hs). cbv zeta. intros Hr.
      pose proof (continue_decodes m c src n cap acc H Hm T V R Hn Hs HH P2) as D. cbv zeta in D.
      destruct (D Hr) as (D1 & D2 & _). split; assumption.
    + pose proof (s_fastReset_sound m c src n cap acc Hm T V) as S. cbv zeta in S. apply S.
    + pose proof (s_extState_sound m src n cap acc Hm) as S. cbv zeta in S. apply S.
  - apply IH; [apply step_inv; assumption | apply hist_step_ok; [apply I | exact HH] | exact P3].
Qed.

(* ================================================================ C12: the two dictionary routes, end to end *)
(* LZ4_loadDict(Slow) of any size, then a block anywhere in memory (contiguous to the dictionary or not):
   decodes with the dictionary bytes the decoder is given *)
Theorem loadDict_roundtrip m a n slow src k cap acc :
  mem_ok m -> 0 <= n -> 0 <= k <= LZ4_MAX_INPUT_SIZE -> 0 < src ->
  let c := fst (loadDict m a n slow) in
  let r := fast_continue m c src k cap acc in
  0 < r_ret r ->
  r_ret r = Z.of_nat (length (r_out r)) /\
  forall K, 65535 <= K ->
    strict_valid (lastn (Z.to_nat K) (load_list m a (Z.to_nat n))) (r_out r) = Some (load_list m src (Z.to_nat k)).
Proof.
  intros Hm Hn Hk Hs. cbv zeta. intros Hr.
  pose proof (loadDict_inv m a n slow) as L. cbv zeta in L. destruct L as (L1 & L2 & _ & _ & _ & _ & _ & _ & _ & _ & L11).
  pose proof (loadDict_hist m a n slow Hn) as HI.
  set (c := fst (loadDict m a n slow)) in *.
  pose proof (prelude_hist m c src k _ L1 L2 Hk ltac:(lia) HI) as HP.
  pose proof (continue_decodes m c src k cap acc _ Hm L1 L11 L2 Hk Hs (load_list_ok m a (Z.to_nat n) Hm) HP) as D.
  cbv zeta in D. destruct (D Hr) as (D1 & D2 & _). split; assumption.
Qed.

(* LZ4_attach_dictionary of a stream prepared by LZ4_loadDict(Slow) to a working stream in ANY state, then a block
   of any size (both sides of the 4 KB copy-the-table threshold): decodes with the dictionary bytes *)
Theorem attach_roundtrip m c0 a n slow src k cap acc :
  mem_ok m -> table_inv c0 -> tt_inv c0 -> stream_ready c0 -> 0 <= n -> 0 <= k <= LZ4_MAX_INPUT_SIZE -> 0 < src ->
  let d := fst (loadDict m a n slow) in
  let c := attach_dictionary c0 (Some d) in
  let r := fast_continue m c src k cap acc in
  0 < r_ret r ->
  r_ret r = Z.of_nat (length (r_out r)) /\
  forall K, 65535 <= K ->
    strict_valid (lastn (Z.to_nat K) (load_list m a (Z.to_nat n))) (r_out r) = Some (load_list m src (Z.to_nat k)).
Proof.
  intros Hm T0 V0 R0 Hn Hk Hs. cbv zeta. intros Hr.
  pose proof (loadDict_inv m a n slow) as L. cbv zeta in L. destruct L as (_ & _ & _ & L4 & _ & _ & _ & _ & _ & L10 & _).
  pose proof (loadDict_hist m a n slow Hn) as HI.
  set (d := fst (loadDict m a n slow)) in *.
  pose proof (attach_inv c0 (Some d) T0 L10) as A. cbv zeta in A. destruct A as (A1 & A2 & A3).
  pose proof (attach_hist m c0 d _ L4 HI) as HA.
  set (c := attach_dictionary c0 (Some d)) in *.
  pose proof (prelude_hist m c src k _ A1 (A3 R0) Hk ltac:(lia) HA) as HP.
  pose proof (continue_decodes m c src k cap acc _ Hm A1 (A2 V0) (A3 R0) Hk Hs (load_list_ok m a (Z.to_nat n) Hm) HP) as D.
  cbv zeta in D. destruct (D Hr) as (D1 & D2 & _). split; assumption.
Qed.

(* the model's compression step returns the working stream only: the memory (hence the dictionary bytes) is
   returned unchanged, and the dictionary stream is an input that has no counterpart in the result *)
Lemma continue_mem_unchanged m c src n cap acc : fst (fst (step (m, c) (OContinue src n cap acc))) = m.
Proof. reflexivity. Qed.
