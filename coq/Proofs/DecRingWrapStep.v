(* The wrap call of a decoding ring buffer with the dictionary in the destination memory
   (Model.DecRingWrap, live dictionary loads) equals Model.Dec's decoder reading a SNAPSHOT of the
   dictionary taken before the call - for every input - as soon as the finished lap is at least
   65535 + 31 bytes long:  a dictionary load of a match at output position o reads ring positions
   >= o + (lap - 65535) >= o + 31 (offsets are 16-bit), and at a loop boundary nothing at or above
   op + 31 has been stored (DecFootprint: the stores of an iteration stay below op' + 31; the literal
   phase of an iteration stays below the end of its literals + 31).  With the ring of
   65536 + c + maxBlock bytes and the documented wrap rule the lap is longer than 65536 + c, so
   c >= 29 suffices.  Consequently (DecRefineTop.dec_generic_valid) every strictly valid wrap block
   decodes to its specified content. *)
From Coq Require Import ZArith List Lia Bool ZifyBool.
From LZ4V Require Import Gen.Consts Spec.BlockSpec Model.Mem Model.Dec Model.DecRingWrap.
From LZ4V Require Import Proofs.DecSafe Proofs.DecRefineBase Proofs.DecRefineSafe Proofs.DecRefineTop Proofs.DecRefineApi.
From LZ4V Require Import Proofs.DecConverseErr Proofs.DecFootprint Proofs.DecInplaceStep Proofs.DecStreamRefine Proofs.DecSession.
Import ListNotations.
Local Open Scope Z_scope.

Section WrapStep.
  Variables (m0 srcm : mem) (iend oend E : Z).
  Hypothesis Hsrc : forall a, 0 <= get srcm a < 256.
  Hypothesis HE : 65535 + 31 <= E.

  Lemma readLE16_bound p : 0 <= readLE16 srcm p <= 65535.
  Proof. unfold readLE16. pose proof (Hsrc p). pose proof (Hsrc (p + 1)). lia. Qed.

  Lemma ext_match_dagree infast s mat len0 h :
    same_above m0 (dm s) h -> h <= E + mat ->
    ext_match false oend 0 0 (dm s) E infast s mat len0 = ext_match false oend 0 0 m0 E infast s mat len0.
  Proof.
    intros S Hh. unfold ext_match. cbv zeta.
    rewrite (blit_agree m0 (dm s) h (E - (0 - mat)) _ (op s) S) by lia.
    rewrite (blit_agree m0 (dm s) h (E - (0 - mat)) (Z.to_nat (0 - mat)) (op s) S) by lia.
    reflexivity.
  Qed.

  Lemma safe_match_dagree s offset length h :
    same_above m0 (dm s) h -> h <= E + (op s - offset) ->
    safe_match false UsingExtDict oend 0 0 (dm s) E s offset length
    = safe_match false UsingExtDict oend 0 0 m0 E s offset length.
  Proof.
    intros S Hh. unfold safe_match. cbv zeta.
    destruct (checkOffset E && (op s - offset + E <? 0)); [reflexivity|].
    destruct (is_extdict UsingExtDict && (op s - offset <? 0)); [|reflexivity].
    apply (ext_match_dagree false s (op s - offset) length h S Hh).
  Qed.

  Lemma fast_match_dagree s offset length h :
    same_above m0 (dm s) h -> h <= E + (op s - offset) ->
    fast_match false UsingExtDict oend 0 0 (dm s) E s offset length
    = fast_match false UsingExtDict oend 0 0 m0 E s offset length.
  Proof.
    intros S Hh. unfold fast_match. cbv zeta.
    destruct (checkOffset E && (op s - offset + E <? 0)); [reflexivity|].
    destruct (is_extdict UsingExtDict && (op s - offset <? 0)); [|reflexivity].
    apply (ext_match_dagree true s (op s - offset) length h S Hh).
  Qed.

  Lemma copy_match_lbl_dagree s offset ml :
    same_above m0 (dm s) (op s + 31) -> offset <= 65535 ->
    copy_match_lbl false UsingExtDict srcm iend oend 0 0 (dm s) E s offset ml
    = copy_match_lbl false UsingExtDict srcm iend oend 0 0 m0 E s offset ml.
  Proof.
    intros S Ho. unfold copy_match_lbl.
    destruct (ml =? ML_MASK).
    - destruct (rvl srcm iend (ip s) (iend - LASTLITERALS + 1) false (ok s)) as [[[l|] p'] k']; [|reflexivity].
      apply (safe_match_dagree (mkD p' (op s) (dm s) k') offset _ (op s + 31)); cbn [dm op]; [exact S | lia].
    - apply (safe_match_dagree s offset _ (op s + 31)); [exact S | lia].
  Qed.

  Lemma fast_offset_dagree s token :
    same_above m0 (dm s) (op s + 31) ->
    fast_offset false UsingExtDict srcm iend oend 0 0 (dm s) E s token
    = fast_offset false UsingExtDict srcm iend oend 0 0 m0 E s token.
  Proof.
    intros S. unfold fast_offset. cbv zeta.
    pose proof (readLE16_bound (ip s)) as Hb.
    destruct (token mod 16 =? ML_MASK).
    - destruct (rvl srcm iend (ip s + 2) (iend - LASTLITERALS + 1) false (ok s && rd_src iend (ip s) 2)) as [[[l|] p'] k']; [|reflexivity].
      match goal with |- (if ?c then _ else _) = _ => destruct c end.
      + apply (safe_match_dagree (mkD p' (op s) (dm s) k') _ _ (op s + 31)); cbn [dm op]; [exact S | lia].
      + apply (fast_match_dagree (mkD p' (op s) (dm s) k') _ _ (op s + 31)); cbn [dm op]; [exact S | lia].
    - match goal with |- (if ?c then _ else _) = _ => destruct c end.
      + apply (safe_match_dagree (mkD (ip s + 2) (op s) (dm s) (ok s && rd_src iend (ip s) 2)) _ _ (op s + 31)); cbn [dm op]; [exact S | lia].
      + match goal with |- (if ?c then _ else _) = _ => destruct c end; [reflexivity|].
        apply (fast_match_dagree (mkD (ip s + 2) (op s) (dm s) (ok s && rd_src iend (ip s) 2)) _ _ (op s + 31)); cbn [dm op]; [exact S | lia].
  Qed.

  Lemma w_safe_lit_eq s token length :
    same_above m0 (dm s) (op s + 31) -> 0 <= length ->
    w_safe_lit srcm iend oend E s token length
    = safe_lit false UsingExtDict srcm iend oend 0 0 m0 E s token length.
  Proof.
    intros S Hl. unfold w_safe_lit, safe_lit. cbv zeta. cbn [negb andb orb].
    destruct ((op s + length >? oend - MFLIMIT) || (ip s + length >? iend - (2 + 1 + LASTLITERALS))); [reflexivity|].
    cbn [ip op dm ok].
    pose proof (wild8_len_bounds (op s) (op s + length)) as Hw.
    pose proof (readLE16_bound (ip s + length)) as Hb.
    apply (copy_match_lbl_dagree (mkD (ip s + length + 2) (op s + length) (wild8_in srcm (ip s) (dm s) (op s) (op s + length)) _)); cbn [dm op]; [|lia].
    eapply same_above_trans; [exact S | apply wild8_in_above | lia | lia].
  Qed.

  Lemma w_safe_top_eq s :
    same_above m0 (dm s) (op s + 31) ->
    w_safe_top srcm iend oend E s = safe_top false UsingExtDict srcm iend oend 0 0 m0 E s.
  Proof.
    intros S. unfold w_safe_top, safe_top. cbv zeta.
    pose proof (Hsrc (ip s)) as Hb.
    assert (Hll : 0 <= get srcm (ip s) / 16 < 16) by (split; [apply Z.div_pos; lia | apply Z.div_lt_upper_bound; lia]).
    destruct (negb (get srcm (ip s) / 16 =? RUN_MASK) && ((ip s + 1 <? shortiend iend) && (op s <=? shortoend oend))).
    - pose proof (readLE16_bound (ip s + 1 + get srcm (ip s) / 16)) as Ho.
      match goal with |- (if ?c then _ else _) = _ => destruct c end; [reflexivity|].
      apply (copy_match_lbl_dagree (mkD _ (op s + get srcm (ip s) / 16) (blit srcm (ip s + 1) (dm s) (op s) 16) _)); cbn [dm op]; [|lia].
      eapply same_above_trans; [exact S | apply (blit_above srcm (ip s + 1) (dm s) (op s) 16) | lia | lia].
    - destruct (get srcm (ip s) / 16 =? RUN_MASK) eqn:E15.
      + pose proof (rvl_ip srcm iend Hsrc (ip s + 1) (iend - RUN_MASK) true (ok s && rd_src iend (ip s) 1)) as Hr.
        destruct (rvl srcm iend (ip s + 1) (iend - RUN_MASK) true (ok s && rd_src iend (ip s) 1)) as [[[l|] p'] k'];
          destruct Hr as [Hp' Hl0]; [|reflexivity].
        apply w_safe_lit_eq; cbn [ip op dm]; [exact S | lia].
      + apply w_safe_lit_eq; cbn [ip op dm]; [exact S | lia].
  Qed.

  Lemma w_fast_top_eq s :
    same_above m0 (dm s) (op s + 31) ->
    w_fast_top srcm iend oend E s = fast_top false UsingExtDict srcm iend oend 0 0 m0 E s.
  Proof.
    intros S. unfold w_fast_top, fast_top. cbv zeta.
    pose proof (Hsrc (ip s)) as Hb.
    assert (Hll : 0 <= get srcm (ip s) / 16 < 16) by (split; [apply Z.div_pos; lia | apply Z.div_lt_upper_bound; lia]).
    destruct (get srcm (ip s) / 16 =? RUN_MASK) eqn:E15.
    - pose proof (rvl_ip srcm iend Hsrc (ip s + 1) (iend - RUN_MASK) true (ok s && rd_src iend (ip s) 1)) as Hr.
      destruct (rvl srcm iend (ip s + 1) (iend - RUN_MASK) true (ok s && rd_src iend (ip s) 1)) as [[[l|] p'] k'];
        destruct Hr as [Hp' Hl0]; [|reflexivity].
      match goal with |- (if ?c then _ else _) = _ => destruct c end.
      + apply w_safe_lit_eq; cbn [ip op dm]; [exact S | lia].
      + pose proof (wild32_len_bounds (op s) (op s + (get srcm (ip s) / 16 + l))) as Hw.
        unfold RUN_MASK in E15.
        apply (fast_offset_dagree (mkD _ (op s + (get srcm (ip s) / 16 + l)) (wild32_in srcm p' (dm s) (op s) (op s + (get srcm (ip s) / 16 + l))) _)); cbn [dm op].
        eapply same_above_trans; [exact S | apply wild32_in_above | lia | lia].
    - destruct (ip s + 1 <=? iend - (16 + 1)).
      + apply (fast_offset_dagree (mkD _ (op s + get srcm (ip s) / 16) (blit srcm (ip s + 1) (dm s) (op s) 16) _)); cbn [dm op].
        eapply same_above_trans; [exact S | apply (blit_above srcm (ip s + 1) (dm s) (op s) 16) | lia | lia].
      + apply w_safe_lit_eq; cbn [ip op dm]; [exact S | lia].
  Qed.

  (* the whole run *)
  Lemma w_run_eq : forall fuel fast s,
    same_above m0 (dm s) (op s + 31) ->
    w_run srcm iend oend E fuel fast s = run false UsingExtDict srcm iend oend 0 0 m0 E fuel fast s.
  Proof.
    induction fuel as [|f IH]; intros fast s S; [reflexivity|].
    cbn [w_run run].
    assert (Hstep : (if fast then w_fast_top srcm iend oend E s else w_safe_top srcm iend oend E s)
                    = (if fast then fast_top false UsingExtDict srcm iend oend 0 0 m0 E s
                       else safe_top false UsingExtDict srcm iend oend 0 0 m0 E s)).
    { destruct fast; [apply w_fast_top_eq | apply w_safe_top_eq]; exact S. }
    rewrite Hstep.
    destruct step_footprint as [Hs Hf].
    assert (F : match (if fast then fast_top false UsingExtDict srcm iend oend 0 0 m0 E s
                       else safe_top false UsingExtDict srcm iend oend 0 0 m0 E s) with
                | Cont _ s' => same_above (dm s) (dm s') (op s' + 31) /\ op s + 4 <= op s'
                | _ => True end).
    { destruct fast.
      - specialize (Hf UsingExtDict srcm iend oend 0 0 m0 E s Hsrc). cbv iota in Hf.
        destruct (fast_top false UsingExtDict srcm iend oend 0 0 m0 E s); try exact I. exact Hf.
      - specialize (Hs UsingExtDict srcm iend oend 0 0 m0 E s Hsrc). cbv iota in Hs.
        destruct (safe_top false UsingExtDict srcm iend oend 0 0 m0 E s); try exact I.
        destruct Hs as [H1 H2]. split; [|exact H2]. intros a Ha. apply H1. lia. }
    destruct (if fast then fast_top false UsingExtDict srcm iend oend 0 0 m0 E s
              else safe_top false UsingExtDict srcm iend oend 0 0 m0 E s) as [f' s'|s'|s']; try reflexivity.
    destruct F as [F1 F2]. apply IH.
    eapply same_above_trans; [exact S | exact F1 | lia | lia].
  Qed.
End WrapStep.

(* the live-dictionary wrap call = the snapshot-dictionary decoder, for every input *)
Theorem ring_wrap_eq (fastloop : bool) (srcm : mem) (srcSize cap E : Z) (m0 : mem) :
  (forall a, 0 <= get srcm a < 256) -> 65535 + 31 <= E ->
  decompress_ring_wrap fastloop srcm srcSize cap E m0
  = dec_generic fastloop false UsingExtDict srcm srcSize cap 0 0 m0 E m0.
Proof.
  intros Hsrc HE. unfold decompress_ring_wrap, dec_generic.
  destruct (cap <? 0); [reflexivity|]. destruct (cap =? 0); [reflexivity|].
  destruct (srcSize =? 0); [reflexivity|].
  rewrite (w_run_eq m0 srcm srcSize cap E Hsrc HE) by (cbn [dm op]; apply same_above_refl).
  reflexivity.
Qed.

(* the first block after a wrap: ring of 65536 + c + maxBlock bytes, c >= 29, lap of E bytes with fewer
   than maxBlock bytes remaining; every strictly valid block decodes at the ring start to its content *)
Theorem ring_wrap_block :
  forall (fastloop : bool) (c M : Z) (lap B D : list Z) (srcm m0 : mem) (cap : Z),
    29 <= c -> 65536 + c + M - Z.of_nat (length lap) < M ->
    strict_valid (lastn (Z.to_nat 65536) lap) B = Some D -> bytes B -> src_at srcm 0 B ->
    (forall a, 0 <= get srcm a < 256) -> src_at m0 0 lap -> Z.of_nat (length D) <= cap ->
    let '(r, m, k) := decompress_ring_wrap fastloop srcm (Z.of_nat (length B)) cap (Z.of_nat (length lap)) m0 in
    r = Z.of_nat (length D) /\ forall i, 0 <= i < Z.of_nat (length D) -> get m i = nth (Z.to_nat i) D 0.
Proof.
  intros fastloop c M lap B D srcm m0 cap Hc Hwrap Hv Hb Hs Hsrc Hlap Hcap.
  rewrite (ring_wrap_eq fastloop srcm _ cap _ m0 Hsrc) by lia.
  apply (dec_generic_valid UsingExtDict srcm m0 (Z.of_nat (length lap)) 0 0 ltac:(lia) ltac:(lia) fastloop B
           (lastn (Z.to_nat 65536) lap) D cap m0); try assumption.
  - intros j Hj. rewrite rev_length, lastn_length in Hj.
    unfold vget. assert (Ea : (0 - 1 - Z.of_nat j <? 0) = true) by lia. rewrite Ea.
    rewrite (nth_rev_lastn lap (Z.to_nat 65536) j) by lia.
    replace (Z.of_nat (length lap) - (0 - (0 - 1 - Z.of_nat j))) with (0 + Z.of_nat (length lap) - 1 - Z.of_nat j) by lia.
    rewrite (src_at_rev m0 0 lap (Z.of_nat j) Hlap) by lia. rewrite Nat2Z.id. reflexivity.
  - unfold hroom. cbn [is_extdict]. rewrite lastn_length. lia.
Qed.
