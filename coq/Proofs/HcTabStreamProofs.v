(* Invariants of the parametric streaming model Model/HcTabStream.v (levels served by hashTable + chainTable) and soundness
   of one call, for ANY block compressor [blk] that meets the contract of the hash-chain and optimal parsers:
   for tables with HcChainSearch.TB at s0, a valid index geometry (64 KB <= dictIdx <= prefixIdx <= s0, s0 + srcSize < 2^32 - 64 KB)
   the result satisfies HcChainParser.ROK (RSpec: factorisation, decoding, TB at the end of the block; RCap: capacity).
   Text of Proofs/HcChainStreamProofs.v with that hypothesis in place of hc_compress_ok; the parser-independent lemmas
   (kc_insert_ok, kc_init_internal_ok, kc_setExternalDict_ok, cs_trim_ok, ...) are taken from there. *)
From Coq Require Import ZArith List Lia Bool ZifyBool FMapPositive.
From LZ4V Require Import Gen.Consts Spec.BlockSpec Model.Mem Model.Fast Model.FastApi Model.HcEmit Model.HcMid Model.HcMidStream.
From LZ4V Require Import Model.HcChain Model.HcChainApi Model.HcChainStream Model.HcTabStream.
From LZ4V Require Import Proofs.BlockSpecProofs Proofs.FactorSpec Proofs.FastStreamMem Proofs.HcMidSound Proofs.HcMidCap Proofs.HcMidStreamProofs.
From LZ4V Require Import Proofs.HcMidStreamHist Proofs.HcChainStreamProofs Proofs.HcChainStreamHist.
From LZ4V Require Proofs.HcChainSearch Proofs.HcChainSound Proofs.HcChainCap Proofs.HcChainParser.
Import ListNotations.
Local Open Scope Z_scope.

Section TabProofs.
  Variable blk : (Z -> Z) -> Z -> Z -> outdir -> Z -> Z -> Z -> Z -> bool -> htabs -> cres.
  Variable lvl_ok : Z -> bool.
  (* the levels of the instance are not lz4mid levels, before and after the clamp of LZ4_setCompressionLevel *)
  Hypothesis lvl_range : forall l, lvl_ok l = true -> lvl_ok (clamp_level l) = true /\ is_mid (clamp_level l) = false.
  (* the contract of LZ4HC_compress_hashChain / LZ4HC_compress_optimal (HcChainParser.hc_compress_ok, HcOptParser.opt_compress_ok) *)
  Hypothesis blk_ok : forall vrd lim prefixIdx dictIdx s0 srcSize maxOut level fav,
    (forall a, 0 <= vrd a < 256) ->
    65536 <= dictIdx /\ dictIdx <= prefixIdx /\ prefixIdx <= s0 /\ s0 + srcSize < M32 - 65536 ->
    0 <= srcSize -> 0 <= maxOut -> (lim = FillOutput -> 1 <= maxOut) ->
    forall t, TB t s0 ->
    HcChainParser.ROK vrd lim dictIdx s0 srcSize maxOut (blk vrd prefixIdx dictIdx lim s0 srcSize maxOut level fav t).

  Notation ts_loadDict := (ts_loadDict lvl_ok).
  Notation kt_generic := (kt_generic blk).
  Notation ts_generic := (ts_generic blk).
  Notation ts_pre2 := (ts_pre2 lvl_ok).
  Notation ts_prelude := (ts_prelude lvl_ok).
  Notation ts_continue_generic := (ts_continue_generic blk lvl_ok).
  Notation ts_continue := (ts_continue blk lvl_ok).
  Notation ts_continue_destSize := (ts_continue_destSize blk lvl_ok).
  Notation ts_fastReset := (ts_fastReset blk lvl_ok).
  Notation ts_extState := (ts_extState blk lvl_ok).
  Notation tstep := (tstep blk lvl_ok).

Definition ts_ok (c : tctx) : Prop :=
  hs_ok (ts_hs c) /\
  (k_dirty (ts_core c) = false -> kc_ok (ts_core c) (ts_chain c)) /\
  match hs_dctx (ts_hs c) with Some d => kc_ok d (ts_dchain c) | None => True end.

(* ---------------------------------------------------------------- bookkeeping operations *)
Lemma ts_init_ok : ts_ok ts_init.
Proof.
  split; [exact hs_init_ok|]. split; [|exact I]. intros _. split; [exact ct0_ok|]. cbn. lia.
Qed.

Lemma ts_setLevel_ok c l : ts_ok c -> ts_ok (ts_setLevel c l).
Proof. intros (H1 & H2 & H3). split; [apply hs_setLevel_ok; exact H1|]. split; [exact H2 | exact H3]. Qed.

Lemma ts_resetStream_ok l : ts_ok (ts_resetStream l).
Proof. apply ts_setLevel_ok. exact ts_init_ok. Qed.

Lemma ts_resetFast_ok c l :
  ts_ok c -> ts_ok (ts_resetFast c l) /\ k_dirty (ts_core (ts_resetFast c l)) = false /\ hs_dctx (ts_hs (ts_resetFast c l)) = None.
Proof.
  intros (H1 & H2 & H3). destruct (hs_resetFast_ok (ts_hs c) l H1) as (R1 & R2 & R3).
  unfold ts_ok, ts_resetFast, ts_core in *. cbn [ts_hs ts_chain ts_dchain].
  split; [|split; assumption]. split; [exact R1|]. rewrite R3. split; [|exact I]. intros _.
  unfold hs_resetFast. cbv zeta. destruct (k_dirty (hs_core (ts_hs c))) eqn:Ed.
  - split; [exact ct0_ok|]. cbn. lia.
  - destruct (H2 eq_refl) as (C1 & C2). split; [exact C1|]. cbn [hs_setLevel hs_core with_level k_ntu]. exact C2.
Qed.

(* ---------------------------------------------------------------- LZ4_loadDictHC *)
Lemma ts_loadDict_ok m c a n c' r :
  0 <= n -> 0 <= a -> ts_loadDict m c a n = Some (c', r) ->
  ts_ok c' /\ d_ok (ts_core c') /\ kc_ok (ts_core c') (ts_chain c') /\ hs_dctx (ts_hs c') = None /\ r = Z.min n K64 /\
  k_prefixStart (ts_core c') = a + n - r /\ k_end (ts_core c') = a + n /\
  k_dictLimit (ts_core c') = K64 /\ k_lowLimit (ts_core c') = K64 /\ k_dirty (ts_core c') = false /\
  lvl_ok (k_level (ts_core c')) = true.
Proof.
  intros Hn Ha. unfold ts_loadDict.
  remember (if n >? K64 then (a + (n - K64), K64) else (a, n)) as dd eqn:Edd.
  assert (Hdd : fst dd = a + n - Z.min n K64 /\ snd dd = Z.min n K64 /\ 0 <= snd dd <= K64).
  { rewrite Edd. unfold K64. destruct (n >? 65536) eqn:E; cbn [fst snd]; lia. }
  clear Edd. destruct dd as [da ds]. cbn [fst snd] in Hdd. destruct Hdd as (D1 & D2 & D3).
  destruct (lvl_ok (k_level (ts_core c))) eqn:Em; [|discriminate].
  destruct (lvl_range _ Em) as (Rc & Rm).
  pose proof (k_init_internal_ok (with_level k_init (k_level (ts_core c))) da (with_level_ok _ _ k_init_ok) ltac:(lia)) as I0.
  cbv zeta in I0. destruct I0 as (I1 & I2 & I3 & I4 & I5 & I6 & I7 & I8 & I9).
  assert (Hk0 : k_dictLimit (k_init_internal (with_level k_init (k_level (ts_core c))) da) = K64 /\
                k_ntu (k_init_internal (with_level k_init (k_level (ts_core c))) da) = K64 /\
                k_h4 (k_init_internal (with_level k_init (k_level (ts_core c))) da) = empty /\
                k_h8 (k_init_internal (with_level k_init (k_level (ts_core c))) da) = empty).
  { unfold k_init_internal, with_level, k_init, k_zero, GB1, K64. cbn. repeat split; reflexivity. }
  remember (k_init_internal (with_level k_init (k_level (ts_core c))) da) as k0 eqn:Ek0.
  destruct Hk0 as (Hdl & Hntu & Hh4 & Hh8).
  assert (Hd0 : k_dirty k0 = false) by (rewrite I8; reflexivity).
  remember (mkK (k_h4 k0) (k_h8 k0) (da + ds) (k_prefixStart k0) (k_dictStart k0) (k_dictLimit k0) (k_lowLimit k0) (k_ntu k0) (k_level k0) (k_dirty k0)) as k1 eqn:Ek1.
  assert (K1 : k_ok k1 /\ k_dirty k1 = false /\ k_ntu k1 = K64 /\ k_prefixStart k1 = da /\ k_end k1 = da + ds /\
               k_dictLimit k1 = K64 /\ k_lowLimit k1 = K64 /\ k_level k1 = clamp_level (k_level (ts_core c))).
  { rewrite Ek1. cbn [k_dirty k_ntu k_prefixStart k_end k_dictLimit k_lowLimit k_level].
    split; [|repeat split; try congruence; try lia; rewrite I9; reflexivity].
    unfold k_ok, k_endIdx, tabs_below, EMAX. cbn [k_lowLimit k_dictLimit k_prefixStart k_end k_dirty k_h4 k_h8].
    rewrite Hh4, Hh8. unfold K64 in *. split; [lia|]. split; [lia|]. split; [lia|]. split; [intros; lia|].
    intros _. split; apply tab_lt_empty; lia. }
  destruct K1 as (K1 & K1d & K1n & K1p & K1e & K1l & K1w & K1v).
  assert (Fin : forall k2 ct2,
            k_ok k2 -> ct_ok ct2 -> 0 <= k_ntu k2 -> k_end k2 = k_end k1 -> k_prefixStart k2 = k_prefixStart k1 ->
            k_dictLimit k2 = k_dictLimit k1 -> k_lowLimit k2 = k_lowLimit k1 -> k_level k2 = k_level k1 -> k_dirty k2 = k_dirty k1 ->
            Some (mkTS (mkHS k2 None) ct2 ct0 false false, ds) = Some (c', r) ->
            ts_ok c' /\ d_ok (ts_core c') /\ kc_ok (ts_core c') (ts_chain c') /\ hs_dctx (ts_hs c') = None /\ r = Z.min n K64 /\
            k_prefixStart (ts_core c') = a + n - r /\ k_end (ts_core c') = a + n /\
            k_dictLimit (ts_core c') = K64 /\ k_lowLimit (ts_core c') = K64 /\ k_dirty (ts_core c') = false /\
            lvl_ok (k_level (ts_core c')) = true).
  { intros k2 ct2 K2 C2 N2 F1 F2 F3 F4 F5 F6 Heq. injection Heq as <- <-. unfold ts_core. cbn [ts_hs ts_chain ts_dchain hs_core hs_dctx].
    assert (KC : kc_ok k2 ct2) by (split; assumption).
    split; [split; [split; [exact K2 | exact I]|]; cbn [ts_hs hs_dctx hs_core]; split; [intros _; exact KC | exact I]|].
    split.
    { unfold d_ok. split; [exact K2|]. split; [congruence|]. unfold GB2, K64, k_endIdx in *. split; [lia|]. split; [lia|].
      rewrite F5, K1v, Rm. discriminate. }
    split; [exact KC|]. split; [reflexivity|]. unfold K64 in *.
    split; [lia|]. split; [lia|]. split; [lia|]. split; [lia|]. split; [lia|]. split; [congruence|].
    rewrite F5, K1v. exact Rc. }
  destruct (ds >=? LZ4HC_HASHSIZE) eqn:E4.
  - unfold LZ4HC_HASHSIZE in E4.
    pose proof (kc_insert_ok m k1 ct0 (k_end k1 - 3) K1 K1d ct0_ok ltac:(unfold K64 in *; lia) ltac:(lia)) as Q. cbv zeta in Q.
    destruct (kc_insert m k1 ct0 (k_end k1 - 3)) as [k2 ct2]. cbn [fst snd] in Q.
    destruct Q as (Q1 & Q2 & Q3 & Q4 & Q5 & Q6 & Q7 & Q8 & Q9 & Q10).
    apply (Fin k2 ct2); assumption.
  - apply (Fin k1 ct0); try reflexivity; [exact K1 | exact ct0_ok | unfold K64 in *; lia].
Qed.

(* ---------------------------------------------------------------- the prelude of LZ4_compressHC_continue_generic *)
Definition tpre_inv (c : tctx) : Prop :=
  ts_ok c /\ k_dirty (ts_core c) = false /\ lvl_ok (k_level (ts_core c)) = true.

Lemma ts_pre1_ok c src : tpre_inv c -> 0 <= src ->
  tpre_inv (ts_pre1 c src) /\ K64 <= k_lowLimit (ts_core (ts_pre1 c src)) /\ hs_dctx (ts_hs (ts_pre1 c src)) = hs_dctx (ts_hs c).
Proof.
  unfold tpre_inv, ts_ok, ts_core. intros (((K & D) & C & Dc) & Hd & Hl) Hs. unfold ts_pre1, ts_core.
  destruct (k_prefixStart (hs_core (ts_hs c)) =? 0) eqn:E.
  - destruct (C Hd) as (C1 & C2).
    pose proof (kc_init_internal_ok (hs_core (ts_hs c)) (ts_chain c) src C1) as (J1 & J2 & J3).
    destruct (kc_init_internal (hs_core (ts_hs c)) (ts_chain c) src) as [k ct]. cbn [fst snd] in *. subst k.
    pose proof (k_init_internal_ok (hs_core (ts_hs c)) src K Hs) as I0. cbv zeta in I0.
    destruct I0 as (I1 & I2 & _ & _ & I5 & _ & _ & I8 & I9). cbn [ts_hs ts_chain ts_dchain hs_core hs_dctx].
    split; [|split; [lia | reflexivity]].
    split; [|cbn [ts_hs hs_core]; split; [congruence | rewrite I9; exact Hl]].
    split; [split; [exact I1 | exact D]|]. cbn [ts_hs ts_chain ts_dchain hs_core hs_dctx].
    split; [intros _; split; [exact J1 | exact J2] | exact Dc].
  - split; [exact (conj (conj (conj K D) (conj C Dc)) (conj Hd Hl))|]. split; [|reflexivity].
    destruct K as (L & _ & _ & A & _). specialize (A ltac:(lia)). lia.
Qed.

Lemma ts_pre2_ok m c c2 : tpre_inv c -> K64 <= k_lowLimit (ts_core c) -> ts_pre2 m c = Some c2 ->
  tpre_inv c2 /\ K64 <= k_lowLimit (ts_core c2) /\ k_endIdx (ts_core c2) <= GB2 /\
  (hs_dctx (ts_hs c2) = hs_dctx (ts_hs c) \/ hs_dctx (ts_hs c2) = None).
Proof.
  unfold tpre_inv, ts_ok, ts_core. intros (((K & D) & C & Dc) & Hd & Hl) Ha. unfold ts_pre2, ts_core. cbv zeta.
  pose proof K as (L & P & E & A & T).
  destruct (k_end (hs_core (ts_hs c)) - k_prefixStart (hs_core (ts_hs c)) + k_dictLimit (hs_core (ts_hs c)) >? GB2) eqn:Eg.
  - remember (k_end (hs_core (ts_hs c)) - k_prefixStart (hs_core (ts_hs c))) as pl eqn:Epl.
    remember (if pl >? K64 then K64 else pl) as ds eqn:Eds.
    assert (Hds : 0 <= ds <= pl) by (rewrite Eds; unfold K64; destruct (pl >? 65536) eqn:E1; unfold ts_core in *; lia).
    destruct (ts_loadDict m c (k_end (hs_core (ts_hs c)) - ds) ds) as [[c' r]|] eqn:El; [|discriminate].
    intros Heq. injection Heq as <-.
    pose proof (ts_loadDict_ok m c (k_end (hs_core (ts_hs c)) - ds) ds c' r ltac:(lia) ltac:(lia) El) as LD. unfold ts_core in LD.
    destruct LD as (L1 & (L2a & L2b & L2c & L2d & _) & _ & L3 & _ & _ & _ & L7 & L8 & L9 & L10).
    split; [split; [exact L1|]; split; assumption|]. split; [lia|]. split; [exact L2d|]. right. exact L3.
  - intros Heq. injection Heq as <-.
    split; [exact (conj (conj (conj K D) (conj C Dc)) (conj Hd Hl))|]. split; [exact Ha|]. split; [unfold k_endIdx, ts_core in *; lia|]. left. reflexivity.
Qed.

Lemma ts_pre3_ok m c src : tpre_inv c -> K64 <= k_lowLimit (ts_core c) -> k_endIdx (ts_core c) <= GB2 -> 0 <= src ->
  tpre_inv (ts_pre3 m c src) /\ k_ready (ts_core (ts_pre3 m c src)) src /\
  (hs_dctx (ts_hs (ts_pre3 m c src)) = hs_dctx (ts_hs c) \/ hs_dctx (ts_hs (ts_pre3 m c src)) = None).
Proof.
  unfold tpre_inv, ts_ok, ts_core. intros (((K & D) & C & Dc) & Hd & Hl) Ha He Hs. unfold ts_pre3, ts_core. destruct (src =? k_end (hs_core (ts_hs c))) eqn:E; cbn [negb].
  - split; [exact (conj (conj (conj K D) (conj C Dc)) (conj Hd Hl))|]. split; [|left; reflexivity].
    unfold k_ready. split; [exact K|]. split; [exact Hd|]. split; [exact Ha|]. split; [exact He|]. lia.
  - destruct (C Hd) as (C1 & C2).
    pose proof (kc_setExternalDict_ok m (hs_core (ts_hs c)) (ts_chain c) src K Hd C1 C2 ltac:(destruct K as (L & _); lia) Hs) as S0. cbv zeta in S0.
    destruct (kc_setExternalDict m (hs_core (ts_hs c)) (ts_chain c) src) as [k ct]. cbn [fst snd] in S0.
    destruct S0 as (S1 & S2 & S3 & S4 & S5 & S6 & S7 & S8 & S9 & S10 & S11 & S12).
    unfold ts_core. cbn [ts_hs ts_chain ts_dchain hs_core hs_dctx].
    split; [|split; [|right; reflexivity]].
    + split; [|cbn [ts_hs hs_core]; split; [congruence | rewrite S12; exact Hl]].
      split; [split; [exact S1 | exact I]|]. cbn [ts_hs ts_chain ts_dchain hs_core hs_dctx]. split; [intros _; split; assumption | exact I].
    + unfold k_ready. split; [exact S1|]. split; [congruence|]. split; [destruct K as (L & _); unfold ts_core in *; lia|]. split; [lia | exact S10].
Qed.

Lemma ts_prelude_ok m c src n c1 :
  tpre_inv c -> 0 < src -> 0 <= n -> ts_prelude m c src n = Some c1 ->
  tpre_inv c1 /\ k_ready (ts_core c1) src /\ (hs_dctx (ts_hs c1) = hs_dctx (ts_hs c) \/ hs_dctx (ts_hs c1) = None).
Proof.
  intros P Hs Hn. unfold ts_prelude.
  destruct (ts_pre1_ok c src P ltac:(lia)) as (P1 & A1 & D1).
  destruct (ts_pre2 m (ts_pre1 c src)) as [c2|] eqn:E2; [|discriminate].
  destruct (ts_pre2_ok m (ts_pre1 c src) c2 P1 A1 E2) as (P2 & A2 & G2 & D2).
  destruct (ts_pre3_ok m c2 src P2 A2 G2 ltac:(lia)) as (P3 & R3 & D3).
  remember (ts_pre3 m c2 src) as c3 eqn:E3.
  destruct P3 as (((K3 & Dd3) & C3 & Dc3) & Hd3 & Hl3).
  destruct (cs_trim_ok (ts_hs c3) src n (conj K3 Dd3) R3 ltac:(lia) Hn) as (T1 & T2 & T3 & T4 & T5 & T6 & T7).
  intros Heq. injection Heq as <-. unfold tpre_inv, ts_ok, ts_core in *. cbn [ts_hs ts_chain ts_dchain].
  split; [|split; [exact T2|]].
  - split; [|split; [rewrite T7; exact Hd3 | rewrite T6; exact Hl3]].
    split; [exact T1|]. cbn [ts_hs ts_chain ts_dchain]. unfold kc_ok in *. rewrite T3, T5, T7. split; [exact C3 | exact Dc3].
  - rewrite T3. destruct D3 as [D3|D3]; [|right; exact D3]. rewrite D3.
    destruct D2 as [D2|D2]; [|right; exact D2]. rewrite D2, D1. left. reflexivity.
Qed.

(* ---------------------------------------------------------------- LZ4HC_compress_generic: dictCtx bookkeeping *)
(* the context (with its chainTable) the parser finally runs on; None: LZ4HC_searchExtDict would be used (not modelled) *)
Definition ts_pick (m : mem) (c1 : tctx) (src n : Z) : option (hcore * ctab) :=
  let k := ts_core c1 in
  match hs_dctx (ts_hs c1) with
  | None => Some (k, ts_chain c1)
  | Some d =>
    let position := (k_end k - k_prefixStart k) + u32 (k_dictLimit k - k_lowLimit k) in
    if position >=? K64 then Some (k, ts_chain c1)
    else if (position =? 0) && (n >? 4096) && (Bool.eqb (is_mid (k_level k)) (is_mid (k_level d))) then
      let '(k', ct') := kc_setExternalDict m d (ts_dchain c1) src in
      Some (mkK (k_h4 k') (k_h8 k') (k_end k') (k_prefixStart k') (k_dictStart k') (k_dictLimit k') (k_lowLimit k') (k_ntu k')
                (k_level k) (k_dirty k'), ct')
    else None
  end.

(* ctx->favorDecSpeed when the parser runs: the dictionary context's after the memcpy of the copy path *)
Definition ts_pickfav (c1 : tctx) (n : Z) : bool :=
  let k := ts_core c1 in
  match hs_dctx (ts_hs c1) with
  | None => ts_fav c1
  | Some d =>
    let position := (k_end k - k_prefixStart k) + u32 (k_dictLimit k - k_lowLimit k) in
    if position >=? K64 then ts_fav c1
    else if (position =? 0) && (n >? 4096) && (Bool.eqb (is_mid (k_level k)) (is_mid (k_level d))) then ts_dfav c1
    else ts_fav c1
  end.

Lemma ts_generic_eq m c1 src n cap lim :
  ts_generic m c1 src n cap lim =
  match ts_pick m c1 src n with Some (ke, cte) => kt_generic m ke cte (ts_pickfav c1 n) src n cap lim | None => None end.
Proof.
  unfold HcTabStream.ts_generic, ts_pick, ts_pickfav. cbv zeta. destruct (hs_dctx (ts_hs c1)) as [d|]; [|reflexivity].
  destruct (_ >=? K64); [reflexivity|]. destruct (_ && _ && _); [|reflexivity].
  destruct (kc_setExternalDict m d (ts_dchain c1) src) as [k' ct']. reflexivity.
Qed.

Lemma ts_pick_ok m c1 src n ke cte :
  tpre_inv c1 -> k_ready (ts_core c1) src -> 0 <= src -> ts_pick m c1 src n = Some (ke, cte) ->
  k_ready ke src /\ kc_ok ke cte.
Proof.
  unfold tpre_inv, ts_ok, ts_core. intros (((K & D) & C & Dc) & Hd & Hl) R Hs. unfold ts_pick, ts_core. cbv zeta.
  destruct (hs_dctx (ts_hs c1)) as [d|].
  - destruct (_ >=? K64); [intros H; injection H as <- <-; exact (conj R (C Hd))|].
    destruct (_ && _ && _); [|discriminate].
    destruct D as (Dk & Dd & Da & De & _). destruct Dc as (Dc1 & Dc2).
    pose proof (kc_setExternalDict_ok m d (ts_dchain c1) src Dk Dd Dc1 Dc2 Da Hs) as S0. cbv zeta in S0.
    destruct (kc_setExternalDict m d (ts_dchain c1) src) as [k' ct']. cbn [fst snd] in S0.
    destruct S0 as (S1 & S2 & S3 & S4 & S5 & S6 & S7 & S8 & S9 & S10 & S11 & S12).
    intros H. injection H as <- <-. split; [|split; [exact S2 | exact S3]].
    apply (relevel_ready k' (k_level (hs_core (ts_hs c1))) src).
    split; [exact S1|]. split; [congruence|]. split; [lia|]. split; [lia | exact S10].
  - intros H. injection H as <- <-. exact (conj R (C Hd)).
Qed.

(* ---------------------------------------------------------------- one call of the parser *)
(* the statement about one call of LZ4HC_compress_generic_internal on the context [ke] *)
Definition tcall_post (m : mem) (ke : hcore) (src n cap : Z) (lim : outdir) (ret consumed : Z) (out : list Z) (hw : Z) (c' : tctx) : Prop :=
  ts_ok c' /\ hs_dctx (ts_hs c') = None /\ k_level (ts_core c') = k_level ke /\
  hw <= hwlim lim n cap /\
  (lim = NotLimited -> n <= LZ4_MAX_INPUT_SIZE -> 0 < ret) /\
  (ret <= 0 -> k_dirty (ts_core c') = true \/ ts_core c' = ke) /\
  (0 < ret ->
   k_dirty (ts_core c') = false /\
   ret = Z.of_nat (length out) /\ ret <= hw /\ 0 <= consumed <= n /\ (lim <> FillOutput -> consumed = n) /\
   spec_decode (seg (k_vrd m ke) (k_lowLimit ke) (k_endIdx ke)) out = Some (load_list m src (Z.to_nat consumed)) /\
   (lim <> FillOutput ->
    strict_valid (seg (k_vrd m ke) (k_lowLimit ke) (k_endIdx ke)) out = Some (load_list m src (Z.to_nat consumed))) /\
   after_call ke (ts_core c') src n consumed lim).

Theorem kt_generic_sound m ke cte fav src n cap lim ret consumed out hw c' :
  hmem_ok m -> k_ready ke src -> kc_ok ke cte -> 0 <= src -> 0 <= n < 2147483648 -> 0 <= cap ->
  kt_generic m ke cte fav src n cap lim = Some (TRes ret consumed out hw c') ->
  tcall_post m ke src n cap lim ret consumed out hw c'.
Proof.
  intros Hm (K & Hd & Ha & He & Hend) (Hct & Hntu) Hs Hn Hcap. unfold HcTabStream.kt_generic, tcall_post.
  pose proof K as (L & P & E & A & T).
  assert (Hw0 : 0 <= hwlim lim n cap).
  { unfold hwlim. destruct lim; try lia. assert (0 <= n / 255) by (apply Z.div_pos; lia). lia. }
  assert (Kself : ts_ok (mkTS (mkHS ke None) cte ct0 fav false)).
  { unfold ts_ok, ts_core. cbn [ts_hs ts_chain ts_dchain hs_core hs_dctx]. split; [split; [exact K | exact I]|]. split; [intros _; split; assumption | exact I]. }
  destruct (match lim with FillOutput => cap <? 1 | _ => false end) eqn:E1.
  { intros H. injection H as <- <- <- <- <-. unfold ts_core. cbn [ts_hs hs_core hs_dctx].
    split; [exact Kself|]. split; [reflexivity|]. split; [reflexivity|]. split; [exact Hw0|].
    split; [intros ->; discriminate|]. split; [intros _; right; reflexivity | intros; lia]. }
  destruct (u32 n >? LZ4_MAX_INPUT_SIZE) eqn:E2.
  { intros H. injection H as <- <- <- <- <-. unfold ts_core. cbn [ts_hs hs_core hs_dctx].
    split; [exact Kself|]. split; [reflexivity|]. split; [reflexivity|]. split; [exact Hw0|].
    split; [intros _ Hmax; unfold LZ4_MAX_INPUT_SIZE in *; rewrite u32s in E2 by lia; lia|].
    split; [intros _; right; reflexivity | intros; lia]. }
  assert (Hmax : n <= LZ4_MAX_INPUT_SIZE).
  { unfold LZ4_MAX_INPUT_SIZE in *. rewrite u32s in E2 by lia. lia. }
  cbv zeta.
  remember (k_dictLimit ke + (k_end ke - k_prefixStart ke)) as s0 eqn:Es0.
  assert (Es : s0 = k_endIdx ke) by (rewrite Es0; reflexivity).
  unfold GB2, K64, EMAX, LZ4_MAX_INPUT_SIZE in *.
  assert (Hidx : 65536 <= k_lowLimit ke /\ k_lowLimit ke <= k_dictLimit ke /\ k_dictLimit ke <= s0 /\ s0 + n < M32 - 65536).
  { rewrite M32_v. unfold k_endIdx in *. lia. }
  assert (HT : TB (kc_tabs ke cte) s0).
  { destruct (T Hd) as (T4 & _). replace (Z.max 1 (k_endIdx ke)) with s0 in * by (unfold k_endIdx in *; lia).
    unfold HcChainSearch.TB, kc_tabs. cbn [t_hash t_chain t_ntu]. split; [exact T4|]. split; assumption. }
  assert (Hfill : lim = FillOutput -> 1 <= cap) by (intros ->; lia).
  pose proof (blk_ok (k_vrd m ke) lim (k_dictLimit ke) (k_lowLimit ke) s0 n cap (k_level ke) fav (k_vrd_byte m ke Hm) Hidx (proj1 Hn) Hcap Hfill
                (kc_tabs ke cte) HT) as (RS & RC).
  destruct (blk (k_vrd m ke) (k_dictLimit ke) (k_lowLimit ke) lim s0 n cap (k_level ke) fav (kc_tabs ke cte))
    as [t hw'|ret' consumed' out' t hw'|] eqn:Em; [| |destruct RC].
  - (* the parser failed: dirty *)
    intros H. injection H as <- <- <- <- <-. cbn [HcChainCap.RCap] in RC. destruct RC as (RC1 & RC2). unfold ts_core. cbn [ts_hs hs_core hs_dctx].
    split.
    { unfold ts_ok, ts_core. cbn [ts_hs ts_chain ts_dchain hs_core hs_dctx k_dirty]. split; [|split; [intros; discriminate | exact I]].
      split; [|exact I]. unfold k_ok, k_endIdx, tabs_below, EMAX. cbn [k_lowLimit k_dictLimit k_prefixStart k_end k_dirty k_h4 k_h8].
      unfold k_endIdx in *. cbn [hs_core k_lowLimit k_dictLimit k_prefixStart k_end k_dirty k_h4 k_h8]. split; [lia|]. split; [lia|]. split; [lia|]. split; [exact A | intros; discriminate]. }
    split; [reflexivity|]. split; [reflexivity|]. split; [exact RC1|].
    split; [intros ->; exfalso; apply RC2; reflexivity|]. split; [intros _; left; reflexivity | intros; lia].
  - cbn [HcChainSound.RSpec] in RS. cbn [HcChainCap.RCap] in RC. destruct RC as (RC1 & RC2).
    destruct RS as (R1 & R2 & R3 & R4 & R5 & RT & RB). unfold hc_iend in RT.
    destruct RT as (RT1 & RT2 & RT3).
    replace (ret' <=? 0) with false by lia.
    assert (Hseg : seg (k_vrd m ke) s0 (s0 + consumed') = load_list m src (Z.to_nat consumed')).
    { rewrite (seg_as_load _ m _ _ src) by first [lia | (intros i Hi; rewrite Es; apply k_vrd_src; [exact Hend | lia | lia])]. f_equal. lia. }
    rewrite Hseg in R3, R4. rewrite Es in R3, R4.
    remember (mkK (t_hash t) (k_h8 ke) (k_end ke + n) (k_prefixStart ke) (k_dictStart ke) (k_dictLimit ke) (k_lowLimit ke) (t_ntu t) (k_level ke) (k_dirty ke)) as k1 eqn:Ek1.
    assert (Kfull : k_ok k1).
    { rewrite Ek1. unfold k_ok, k_endIdx, tabs_below, EMAX. cbn [k_lowLimit k_dictLimit k_prefixStart k_end k_dirty k_h4 k_h8].
      unfold k_endIdx in *. split; [lia|]. split; [lia|]. split; [lia|]. split; [exact A|].
      intros _. replace (Z.max 1 (k_dictLimit ke + (k_end ke + n - k_prefixStart ke))) with (s0 + n) by lia.
      split; [exact RT1|]. destruct (T Hd) as (_ & T8). eapply tab_lt_mono; [exact T8 | lia]. }
    assert (Common : forall c'', ts_ok c'' -> hs_dctx (ts_hs c'') = None -> k_level (ts_core c'') = k_level ke -> k_dirty (ts_core c'') = false ->
               after_call ke (ts_core c'') src n consumed' lim ->
               ts_ok c'' /\ hs_dctx (ts_hs c'') = None /\ k_level (ts_core c'') = k_level ke /\ hw' <= hwlim lim n cap /\
               (lim = NotLimited -> n <= 2113929216 -> 0 < ret') /\
               (ret' <= 0 -> k_dirty (ts_core c'') = true \/ ts_core c'' = ke) /\
               (0 < ret' ->
                k_dirty (ts_core c'') = false /\ ret' = Z.of_nat (length out') /\ ret' <= hw' /\ 0 <= consumed' <= n /\
                (lim <> FillOutput -> consumed' = n) /\
                spec_decode (seg (k_vrd m ke) (k_lowLimit ke) (k_endIdx ke)) out' = Some (load_list m src (Z.to_nat consumed')) /\
                (lim <> FillOutput -> strict_valid (seg (k_vrd m ke) (k_lowLimit ke) (k_endIdx ke)) out' = Some (load_list m src (Z.to_nat consumed'))) /\
                after_call ke (ts_core c'') src n consumed' lim)).
    { intros c'' C1 C2 C3 C4 C5. split; [exact C1|]. split; [exact C2|]. split; [exact C3|]. split; [exact RC1|].
      split; [intros; lia|]. split; [intros; lia|]. intros _.
      split; [exact C4|]. split; [exact R5|]. split; [lia|]. split; [exact R1|]. split; [exact R2|]. split; [exact R3|]. split; [exact R4 | exact C5]. }
    assert (Full : after_call ke k1 src n n lim).
    { right. rewrite Ek1. cbn [k_prefixStart k_end k_dictStart k_dictLimit k_lowLimit]. repeat split; try reflexivity. lia. }
    assert (Ok1 : ts_ok (mkTS (mkHS k1 None) (t_chain t) ct0 fav false)).
    { unfold ts_ok, ts_core. cbn [ts_hs ts_chain ts_dchain hs_core hs_dctx]. split; [split; [exact Kfull | exact I]|].
      split; [|exact I]. intros _. split; [exact RT2|]. rewrite Ek1. cbn [k_ntu]. exact RT3. }
    assert (Hd1 : k_dirty k1 = false) by (rewrite Ek1; exact Hd).
    assert (Hl1 : k_level k1 = k_level ke) by (rewrite Ek1; reflexivity).
    destruct lim.
    + intros H. injection H as <- <- <- <- <-. rewrite (R2 ltac:(discriminate)) in *.
      apply Common; [exact Ok1 | reflexivity | exact Hl1 | exact Hd1 | exact Full].
    + intros H. injection H as <- <- <- <- <-. rewrite (R2 ltac:(discriminate)) in *.
      apply Common; [exact Ok1 | reflexivity | exact Hl1 | exact Hd1 | exact Full].
    + destruct ((0 <? ret') && (consumed' <? n)) eqn:Ep.
      * pose proof (kc_init_internal_ok k1 (t_chain t) (src + consumed') RT2) as (J1 & J2 & J3).
        destruct (kc_init_internal k1 (t_chain t) (src + consumed')) as [k2 ct2]. cbn [fst snd] in J1, J2, J3. subst k2.
        intros H. injection H as <- <- <- <- <-.
        pose proof (k_init_internal_ok k1 (src + consumed') Kfull ltac:(lia)) as I0.
        cbv zeta in I0. destruct I0 as (I1 & I2 & I3 & I4 & I5 & I6 & I7 & I8 & I9).
        apply Common; unfold ts_core; cbn [ts_hs ts_chain ts_dchain hs_core hs_dctx];
          [ | reflexivity | rewrite I9; exact Hl1 | rewrite I8; exact Hd1 | ].
        { unfold ts_ok, ts_core. cbn [ts_hs ts_chain ts_dchain hs_core hs_dctx]. split; [split; [exact I1 | exact I]|].
          split; [intros _; split; assumption | exact I]. }
        left. split; [reflexivity|]. split; [lia|]. split; [exact I6|]. split; [exact I7 | exact I5].
      * intros H. injection H as <- <- <- <- <-.
        assert (consumed' = n) by lia. subst consumed'.
        apply Common; [exact Ok1 | reflexivity | exact Hl1 | exact Hd1 | exact Full].
Qed.

(* ---------------------------------------------------------------- LZ4_compress_HC_continue(_destSize) *)
Definition ts_effective (m : mem) (c : tctx) (src n : Z) : option (hcore * ctab) :=
  match ts_prelude m c src n with Some c1 => ts_pick m c1 src n | None => None end.

Definition ts_efffav (m : mem) (c : tctx) (src n : Z) : bool :=
  match ts_prelude m c src n with Some c1 => ts_pickfav c1 n | None => false end.

Lemma ts_continue_generic_eq m c src n cap lim :
  ts_continue_generic m c src n cap lim =
  if lvl_ok (k_level (ts_core c)) then
    match ts_effective m c src n with Some (ke, cte) => kt_generic m ke cte (ts_efffav m c src n) src n cap lim | None => None end
  else None.
Proof.
  unfold HcTabStream.ts_continue_generic, ts_effective, ts_efffav. destruct (lvl_ok (k_level (ts_core c))); [|reflexivity].
  destruct (ts_prelude m c src n) as [c1|]; [apply ts_generic_eq | reflexivity].
Qed.

Lemma ts_effective_ready m c src n ke cte :
  ts_ok c -> k_dirty (ts_core c) = false -> lvl_ok (k_level (ts_core c)) = true -> 0 < src -> 0 <= n ->
  ts_effective m c src n = Some (ke, cte) -> k_ready ke src /\ kc_ok ke cte.
Proof.
  intros K Hd Hl Hs Hn. unfold ts_effective.
  destruct (ts_prelude m c src n) as [c1|] eqn:E; [|discriminate].
  destruct (ts_prelude_ok m c src n c1 (conj K (conj Hd Hl)) Hs Hn E) as (P1 & R1 & _).
  intros Hp. apply (ts_pick_ok m c1 src n ke cte P1 R1 ltac:(lia) Hp).
Qed.

Theorem ts_continue_generic_sound m c src n cap lim ret consumed out hw c' :
  hmem_ok m -> ts_ok c -> k_dirty (ts_core c) = false -> 0 < src -> 0 <= n < 2147483648 -> 0 <= cap ->
  ts_continue_generic m c src n cap lim = Some (TRes ret consumed out hw c') ->
  exists ke cte, ts_effective m c src n = Some (ke, cte) /\ k_ready ke src /\ kc_ok ke cte /\ lvl_ok (k_level (ts_core c)) = true /\
                 tcall_post m ke src n cap lim ret consumed out hw c'.
Proof.
  intros Hm K Hd Hs Hn Hcap. rewrite ts_continue_generic_eq.
  destruct (lvl_ok (k_level (ts_core c))) eqn:Hl; [|discriminate].
  destruct (ts_effective m c src n) as [[ke cte]|] eqn:Ee; [|discriminate].
  intros Hg. exists ke, cte. split; [reflexivity|].
  pose proof (ts_effective_ready m c src n ke cte K Hd Hl Hs ltac:(lia) Ee) as (R & Rc).
  split; [exact R|]. split; [exact Rc|]. split; [reflexivity|].
  apply (kt_generic_sound m ke cte _ src n cap lim ret consumed out hw c' Hm R Rc ltac:(lia) Hn Hcap Hg).
Qed.

(* LZ4_compress_HC_extStateHC_fastReset on a stream in any state: the parser runs on a freshly anchored context *)
Theorem ts_fastReset_sound m c src n cap level ret consumed out hw c' :
  hmem_ok m -> ts_ok c -> 0 < src -> 0 <= n < 2147483648 -> 0 <= cap ->
  ts_fastReset m c src n cap level = Some (TRes ret consumed out hw c') ->
  let lim := if cap <? compressBound n then LimitedOutput else NotLimited in
  let ke := k_init_internal (ts_core (ts_resetFast c level)) src in
  k_ready ke src /\ k_lowLimit ke = k_dictLimit ke /\ k_endIdx ke = k_dictLimit ke /\
  tcall_post m ke src n cap lim ret consumed out hw c'.
Proof.
  intros Hm K Hs Hn Hcap. unfold ts_fastReset. cbv zeta.
  destruct (ts_resetFast_ok c level K) as (K1 & D1 & X1).
  destruct (lvl_ok (k_level (ts_core (ts_resetFast c level)))) eqn:Hl; [|discriminate].
  destruct K1 as ((K1 & _) & C1 & _). destruct (C1 D1) as (C1a & C1b).
  pose proof (kc_init_internal_ok (ts_core (ts_resetFast c level)) (ts_chain (ts_resetFast c level)) src C1a) as (J1 & J2 & J3).
  destruct (kc_init_internal (ts_core (ts_resetFast c level)) (ts_chain (ts_resetFast c level)) src) as [k ct]. cbn [fst snd] in J1, J2, J3. subst k.
  rewrite ts_generic_eq. unfold ts_pick, ts_core. cbn [ts_hs ts_chain hs_dctx hs_core]. rewrite X1. cbv zeta.
  pose proof (k_init_internal_ok (hs_core (ts_hs (ts_resetFast c level))) src K1 ltac:(lia)) as I0. cbv zeta in I0.
  destruct I0 as (I1 & I2 & I3 & I4 & I5 & I6 & I7 & I8 & I9).
  assert (R : k_ready (k_init_internal (hs_core (ts_hs (ts_resetFast c level))) src) src).
  { unfold k_ready. split; [exact I1|]. split; [unfold ts_core in D1; congruence|]. split; [lia|]. split; [unfold GB1, GB2, K64 in *; lia | exact I7]. }
  intros Hg. split; [exact R|]. split; [exact I5|]. split; [exact I4|].
  apply (kt_generic_sound m _ ct _ src n cap _ ret consumed out hw c' Hm R (conj J1 J2) ltac:(lia) Hn Hcap Hg).
Qed.

(* ---------------------------------------------------------------- LZ4_attach_HC_dictionary, LZ4_saveDictHC *)
Lemma ts_attach_ok c d :
  ts_ok c -> (match d with Some ds => d_ok (ts_core ds) /\ kc_ok (ts_core ds) (ts_chain ds) | None => True end) -> ts_ok (ts_attach c d).
Proof.
  intros ((K & _) & C & _) P. unfold ts_attach. destruct d as [ds|]; unfold ts_ok, ts_core in *; cbn [ts_hs ts_chain ts_dchain hs_core hs_dctx].
  - destruct P as (P1 & P2). split; [split; [exact K | exact P1]|]. split; [exact C | exact P2].
  - split; [split; [exact K | exact I]|]. split; [exact C | exact I].
Qed.

Lemma ts_saveDict_ok m c a n :
  hmem_ok m -> ts_ok c -> 0 < a ->
  hmem_ok (fst (fst (ts_saveDict m c a n))) /\ ts_ok (snd (fst (ts_saveDict m c a n))).
Proof.
  intros Hm (K & C & Dc) Ha. unfold ts_saveDict.
  pose proof (hs_saveDict_ok m (ts_hs c) a n Hm K Ha) as S. cbv zeta in S.
  pose proof (hs_saveDict_ntu m (ts_hs c) a n) as N.
  destruct (hs_saveDict m (ts_hs c) a n) as [[m' h'] r]. cbn [fst snd] in *.
  destruct S as (S1 & S2 & S3 & S4 & S5 & _).
  split; [exact S1|]. unfold ts_ok, ts_core in *. cbn [ts_hs ts_chain ts_dchain].
  split; [exact S2|]. split.
  - rewrite S3. intros Hd. destruct (C Hd) as (C1 & C2). split; [exact C1 | exact (N C2)].
  - destruct S5 as [S5|S5]; rewrite S5; [destruct (hs_dctx (ts_hs c)); [exact Dc | exact I] | exact I].
Qed.

(* ================================================================ every operation, any history *)
Definition top_pre (st : mem * tctx) (o : top) : Prop :=
  match o with
  | TWrite a bs => list_ok bs
  | TLoadDict a n => 0 <= n /\ 0 <= a
  | TAttach (Some d) => d_ok (ts_core d) /\ kc_ok (ts_core d) (ts_chain d)
  | TContinue src n cap | TContinueDestSize src n cap =>
    k_dirty (ts_core (snd st)) = false /\ 0 < src /\ 0 <= n < 2147483648 /\ 0 <= cap
  | TSaveDict a n => 0 < a
  | TFastReset src n cap l | TExtState src n cap l => 0 < src /\ 0 <= n < 2147483648 /\ 0 <= cap
  | _ => True
  end.

Definition tstate_inv (st : mem * tctx) : Prop := hmem_ok (fst st) /\ ts_ok (snd st).

Lemma of_tres_inv m r st' x : of_tres m r = Some (st', x) -> exists ret consumed out hw c', r = Some (TRes ret consumed out hw c') /\ st' = (m, c') /\ x = (ret, out, consumed).
Proof.
  unfold of_tres. destruct r as [[ret consumed out hw c']|]; [|discriminate].
  intros H. injection H as <- <-. exists ret, consumed, out, hw, c'. repeat split; reflexivity.
Qed.

Lemma tstep_inv st o st' x : tstate_inv st -> top_pre st o -> tstep st o = Some (st', x) -> tstate_inv st'.
Proof.
  destruct st as [m c]. intros (Hm & K) P. unfold tstate_inv in *. cbn [fst snd] in *.
  destruct o; cbn [tstep top_pre snd] in *.
  - intros H. injection H as <- <-. cbn [fst snd]. split; [intros y; apply store_list_ok; assumption | exact K].
  - intros H. injection H as <- <-. split; [exact Hm | exact ts_init_ok].
  - intros H. injection H as <- <-. split; [exact Hm | apply ts_resetStream_ok].
  - intros H. injection H as <- <-. split; [exact Hm | apply ts_resetFast_ok; exact K].
  - intros H. injection H as <- <-. split; [exact Hm | apply ts_setLevel_ok; exact K].
  - intros H. injection H as <- <-. split; [exact Hm | exact K].
  - destruct (ts_loadDict m c a n) as [[c' r]|] eqn:E; [|discriminate]. intros H. injection H as <- <-.
    destruct P as (P1 & P2). split; [exact Hm | apply (ts_loadDict_ok m c a n c' r P1 P2 E)].
  - intros H. injection H as <- <-. split; [exact Hm | apply ts_attach_ok; [exact K | destruct d; [exact P | exact I]]].
  - intros H. apply of_tres_inv in H. destruct H as (ret & consumed & out & hw & c' & E & -> & _).
    destruct P as (Pd & Ps & Pn & Pc). unfold ts_continue in E.
    destruct (ts_continue_generic_sound m c src n cap _ ret consumed out hw c' Hm K Pd Ps Pn Pc E) as (ke & cte & _ & _ & _ & _ & Q).
    split; [exact Hm | apply Q].
  - intros H. apply of_tres_inv in H. destruct H as (ret & consumed & out & hw & c' & E & -> & _).
    destruct P as (Pd & Ps & Pn & Pc). unfold ts_continue_destSize in E.
    destruct (ts_continue_generic_sound m c src n target _ ret consumed out hw c' Hm K Pd Ps Pn Pc E) as (ke & cte & _ & _ & _ & _ & Q).
    split; [exact Hm | apply Q].
  - pose proof (ts_saveDict_ok m c a n Hm K P) as S.
    destruct (ts_saveDict m c a n) as [[m' c'] r]. cbn [fst snd] in S. intros H. injection H as <- <-. exact S.
  - intros H. apply of_tres_inv in H. destruct H as (ret & consumed & out & hw & c' & E & -> & _).
    destruct P as (Ps & Pn & Pc).
    pose proof (ts_fastReset_sound m c src n cap level ret consumed out hw c' Hm K Ps Pn Pc E) as Q. cbv zeta in Q.
    split; [exact Hm | apply Q].
  - intros H. apply of_tres_inv in H. destruct H as (ret & consumed & out & hw & c' & E & -> & _).
    destruct P as (Ps & Pn & Pc). unfold ts_extState in E.
    pose proof (ts_fastReset_sound m ts_init src n cap level ret consumed out hw c' Hm ts_init_ok Ps Pn Pc E) as Q. cbv zeta in Q.
    split; [exact Hm | apply Q].
Qed.

(* a run inside the model: every step is defined *)
Fixpoint trun (st : mem * tctx) (ops : list top) : option (mem * tctx) :=
  match ops with
  | [] => Some st
  | o :: r => match tstep st o with Some (st', _) => trun st' r | None => None end
  end.
Fixpoint tops_pre (st : mem * tctx) (ops : list top) : Prop :=
  match ops with
  | [] => True
  | o :: r => top_pre st o /\ match tstep st o with Some (st', _) => tops_pre st' r | None => True end
  end.

Theorem ts_inv_run : forall ops st st', tstate_inv st -> tops_pre st ops -> trun st ops = Some st' -> tstate_inv st'.
Proof.
  induction ops as [|o r IH]; intros st st' I P; cbn [trun tops_pre] in *.
  - intros H. injection H as <-. exact I.
  - destruct P as (P1 & P2). destruct (tstep st o) as [[st1 x]|] eqn:E; [|discriminate].
    apply IH; [apply (tstep_inv st o st1 x I P1 E) | exact P2].
Qed.

(* ================================================================ decoder side (text of Proofs/HcChainStreamHist.v) *)
(* ---------------------------------------------------------------- one successful call, decoder side *)
Theorem ts_call_decodes m ke src n cap lim ret consumed out hw c' H :
  k_ready ke src -> tcall_post m ke src n cap lim ret consumed out hw c' -> hhist_inv m ke H -> 0 < ret ->
  (forall K, 65535 <= Z.of_nat K -> spec_decode (lastn K H) out = Some (load_list m src (Z.to_nat consumed))) /\
  (lim <> FillOutput ->
   forall K, 65535 <= Z.of_nat K -> strict_valid (lastn K H) out = Some (load_list m src (Z.to_nat consumed))) /\
  hhist_inv m (ts_core c') (H ++ load_list m src (Z.to_nat consumed)).
Proof.
  intros ((L & P & _) & _ & _ & _ & Hend) (_ & _ & _ & _ & _ & _ & Q) HI Hr.
  destruct (Q Hr) as (_ & _ & _ & Hc & Hfull & Dsp & Dst & After).
  rewrite seg_hvis in Dsp, Dst by lia.
  pose proof (is_suffix_lastn _ _ HI) as EL.
  split; [|split].
  - intros K HK. apply (window_spec H (length (hvis m ke)) K); [rewrite EL; exact Dsp | exact HK].
  - intros Hl K HK. apply (window_strict H (length (hvis m ke)) K); [rewrite EL; exact (Dst Hl) | exact HK].
  - unfold hhist_inv. destruct After as [(_ & _ & A3 & A4 & A5) | (A1 & A2 & A3 & A4 & A5 & A6)].
    + unfold hvis, k_xlen, k_plen. rewrite A3, A4, A5.
      replace (Z.to_nat (k_dictLimit (ts_core c') - k_dictLimit (ts_core c'))) with 0%nat by lia.
      replace (Z.to_nat (src + consumed - (src + consumed))) with 0%nat by lia. cbn [load_list app]. apply is_suffix_nil.
    + subst consumed. unfold hvis, k_xlen, k_plen in *. rewrite A2, A3, A4, A5, A6.
      replace (Z.to_nat (src + n - k_prefixStart ke)) with (Z.to_nat (k_end ke - k_prefixStart ke) + Z.to_nat n)%nat by lia.
      rewrite load_list_app, app_assoc.
      replace (k_prefixStart ke + Z.of_nat (Z.to_nat (k_end ke - k_prefixStart ke))) with src by lia.
      apply is_suffix_snoc. exact HI.
Qed.

(* ================================================================ the prelude only shrinks the designated bytes to a suffix *)
Lemma ts_pre1_hist m c src : ts_ok c -> 0 <= src -> is_suffix (hvis m (ts_core (ts_pre1 c src))) (hvis m (ts_core c)).
Proof.
  intros ((K & _) & _) Hs. unfold ts_pre1, ts_core in *. destruct (k_prefixStart (hs_core (ts_hs c)) =? 0); [|exists []; reflexivity].
  unfold kc_init_internal. cbn [ts_hs hs_core].
  pose proof (k_init_internal_ok (hs_core (ts_hs c)) src K Hs) as I0. cbv zeta in I0.
  destruct I0 as (_ & _ & _ & _ & I5 & I6 & I7 & _).
  rewrite hvis_nil; [apply is_suffix_nil | unfold k_xlen; lia | unfold k_plen; lia].
Qed.

Lemma ts_pre2_hist m m2 c c2 : ts_ok c -> ts_pre2 m c = Some c2 -> is_suffix (hvis m2 (ts_core c2)) (hvis m2 (ts_core c)).
Proof.
  intros ((K & _) & _). unfold ts_pre2, ts_core in *. cbv zeta. pose proof K as (L & P & _).
  destruct (_ >? GB2).
  - remember (k_end (hs_core (ts_hs c)) - k_prefixStart (hs_core (ts_hs c))) as pl eqn:Epl.
    remember (if pl >? K64 then K64 else pl) as ds eqn:Eds.
    assert (Hds : 0 <= ds <= pl /\ ds <= K64) by (rewrite Eds; unfold K64; destruct (pl >? 65536) eqn:E1; lia).
    destruct (ts_loadDict m c (k_end (hs_core (ts_hs c)) - ds) ds) as [[c' r]|] eqn:El; [|discriminate].
    intros Heq. injection Heq as <-.
    pose proof (ts_loadDict_ok m c (k_end (hs_core (ts_hs c)) - ds) ds c' r ltac:(lia) ltac:(lia) El) as LD. unfold ts_core in LD.
    destruct LD as (_ & _ & _ & _ & L4 & L5 & L6 & L7 & L8 & _).
    unfold hvis at 1. unfold k_xlen, k_plen. rewrite L5, L6, L7, L8, L4.
    replace (Z.to_nat (K64 - K64)) with 0%nat by lia. cbn [load_list app].
    replace (k_end (hs_core (ts_hs c)) - ds + ds - (k_end (hs_core (ts_hs c)) - ds + ds - Z.min ds K64)) with ds by lia.
    replace (k_end (hs_core (ts_hs c)) - ds + ds - Z.min ds K64) with (k_end (hs_core (ts_hs c)) - ds) by lia.
    unfold hvis, k_plen. rewrite <- Epl.
    rewrite (load_list_split m2 (k_prefixStart (hs_core (ts_hs c))) (Z.to_nat pl) (Z.to_nat ds)) by lia.
    replace (k_prefixStart (hs_core (ts_hs c)) + Z.of_nat (Z.to_nat pl - Z.to_nat ds)) with (k_end (hs_core (ts_hs c)) - ds) by lia.
    rewrite app_assoc. apply is_suffix_app_r.
  - intros Heq. injection Heq as <-. exists []. reflexivity.
Qed.

Lemma ts_pre3_hist m m2 c src : tpre_inv c -> K64 <= k_lowLimit (ts_core c) -> 0 <= src ->
  is_suffix (hvis m2 (ts_core (ts_pre3 m c src))) (hvis m2 (ts_core c)).
Proof.
  unfold tpre_inv, ts_ok, ts_core. intros (((K & D) & C & Dc) & Hd & Hl) Ha Hs. unfold ts_pre3, ts_core.
  destruct (negb (src =? k_end (hs_core (ts_hs c)))); [|exists []; reflexivity].
  destruct (C Hd) as (C1 & C2).
  pose proof (kc_setExternalDict_hist m m2 (hs_core (ts_hs c)) (ts_chain c) src K Hd C1 C2 ltac:(destruct K as (L & _); lia) Hs) as Q.
  destruct (kc_setExternalDict m (hs_core (ts_hs c)) (ts_chain c) src) as [k ct]. cbn [fst ts_hs hs_core] in *. exact Q.
Qed.

Lemma ts_prelude_hist m m2 c src n c1 :
  tpre_inv c -> 0 < src -> 0 <= n -> ts_prelude m c src n = Some c1 ->
  is_suffix (hvis m2 (ts_core c1)) (hvis m2 (ts_core (ts_pre1 c src))) /\
  is_suffix (hvis m2 (ts_core c1)) (hvis m2 (ts_core c)) /\ clear_of (ts_core c1) src n.
Proof.
  intros P Hs Hn. unfold ts_prelude.
  destruct (ts_pre1_ok c src P ltac:(lia)) as (P1 & A1 & D1).
  destruct (ts_pre2 m (ts_pre1 c src)) as [c2|] eqn:E2; [|discriminate].
  destruct (ts_pre2_ok m (ts_pre1 c src) c2 P1 A1 E2) as (P2 & A2 & G2 & D2).
  destruct (ts_pre3_ok m c2 src P2 A2 G2 ltac:(lia)) as (P3 & R3 & D3).
  pose proof (pre4_hist m2 (ts_hs (ts_pre3 m c2 src)) src n R3 ltac:(lia) Hn) as (H4 & C4).
  intros Heq. injection Heq as <-. unfold ts_core at 1 3 5. cbn [ts_hs]. rewrite cs_trim_pre4.
  assert (S1 : is_suffix (hvis m2 (hs_core (pre4 (ts_hs (ts_pre3 m c2 src)) src n))) (hvis m2 (ts_core (ts_pre1 c src)))).
  { eapply is_suffix_trans; [exact H4|].
    eapply is_suffix_trans; [apply (ts_pre3_hist m m2 c2 src P2 A2 ltac:(lia))|].
    apply (ts_pre2_hist m m2 (ts_pre1 c src) c2 (proj1 P1) E2). }
  split; [exact S1|]. split; [|exact C4].
  eapply is_suffix_trans; [exact S1|]. apply (ts_pre1_hist m2 c src (proj1 P) ltac:(lia)).
Qed.

(* ---------------------------------------------------------------- the context the parser runs on *)
Lemma ts_effective_hist m m2 c src n ke cte H :
  tpre_inv c -> 0 < src -> 0 <= n -> ts_effective m c src n = Some (ke, cte) ->
  (k_prefixStart (ts_core c) = 0 \/ hhist_inv m2 (ts_core c) H) ->
  (match hs_dctx (ts_hs c) with Some d => hhist_inv m2 d H | None => True end) ->
  hhist_inv m2 ke H /\ (hs_dctx (ts_hs c) = None -> clear_of ke src n).
Proof.
  intros P Hs Hn. unfold ts_effective.
  destruct (ts_prelude m c src n) as [c1|] eqn:E; [|discriminate].
  destruct (ts_prelude_hist m m2 c src n c1 P Hs Hn E) as (Sp & S1 & C1).
  destruct (ts_prelude_ok m c src n c1 P Hs Hn E) as (P1 & R1 & D1).
  unfold ts_pick. cbv zeta. intros Hp HI HD.
  assert (Own : hhist_inv m2 (ts_core c1) H).
  { destruct HI as [Hz|HI]; [|eapply is_suffix_trans; [exact S1 | exact HI]].
    assert (Ev : hvis m2 (ts_core (ts_pre1 c src)) = []).
    { unfold ts_pre1, ts_core in *. rewrite Hz. cbn [Z.eqb]. unfold kc_init_internal. cbn [ts_hs hs_core].
      pose proof (k_init_internal_ok (hs_core (ts_hs c)) src (proj1 (proj1 (proj1 P))) ltac:(lia)) as I0. cbv zeta in I0.
      destruct I0 as (_ & _ & _ & _ & I5 & I6 & I7 & _). apply hvis_nil; [unfold k_xlen; lia | unfold k_plen; lia]. }
    rewrite Ev in Sp. destruct Sp as (q & Eq). symmetry in Eq. apply app_eq_nil in Eq. destruct Eq as (_ & Eq).
    unfold hhist_inv. rewrite Eq. apply is_suffix_nil. }
  destruct (hs_dctx (ts_hs c1)) as [d|] eqn:Ed.
  - assert (Edc : hs_dctx (ts_hs c) = Some d) by (destruct D1 as [D1|D1]; congruence).
    rewrite Edc in HD.
    destruct (_ >=? K64); [injection Hp as <- <-; split; [exact Own | intros; congruence]|].
    destruct (_ && _ && _); [|discriminate].
    destruct P1 as (((_ & Dd) & _ & Dc) & _). rewrite Ed in Dd, Dc. destruct Dd as (Dk & Ddy & Da & _). destruct Dc as (Dc1 & Dc2).
    pose proof (kc_setExternalDict_hist m m2 d (ts_dchain c1) src Dk Ddy Dc1 Dc2 Da ltac:(lia)) as Q.
    destruct (kc_setExternalDict m d (ts_dchain c1) src) as [k' ct']. cbn [fst] in Q.
    injection Hp as <- <-. split; [|intros; congruence].
    unfold hhist_inv. eapply is_suffix_trans; [|exact HD].
    unfold hvis, k_xlen, k_plen in *. cbn [k_dictLimit k_lowLimit k_dictStart k_prefixStart k_end]. exact Q.
  - injection Hp as <- <-. split; [exact Own | intros _; exact C1].
Qed.

(* the caller writes the next block [src, src + |bs|): whatever its placement, the bytes the call will use as
   history are untouched (the overlap trimming of the HC API covers every overlap) *)
Theorem ts_write_block_hist m c src bs ke cte H :
  tpre_inv c -> hs_dctx (ts_hs c) = None -> 0 < src ->
  ts_effective (store_list m src bs) c src (Z.of_nat (length bs)) = Some (ke, cte) ->
  hhist_inv m (ts_core c) H ->
  hhist_inv (store_list m src bs) ke H.
Proof.
  intros P Hd Hs He HI.
  assert (HD : match hs_dctx (ts_hs c) with Some d => hhist_inv m d H | None => True end) by (rewrite Hd; exact I).
  destruct (ts_effective_hist (store_list m src bs) m c src (Z.of_nat (length bs)) ke cte H P Hs ltac:(lia) He (or_intror HI) HD) as (A & B).
  pose proof (ts_effective_ready (store_list m src bs) c src (Z.of_nat (length bs)) ke cte (proj1 P) (proj1 (proj2 P)) (proj2 (proj2 P)) Hs ltac:(lia) He) as (((L & Pp & _) & _) & _).
  unfold hhist_inv. rewrite hvis_write; [exact A | exact (B Hd) | unfold k_xlen; lia | unfold k_plen; lia].
Qed.

(* LZ4_saveDictHC: nothing table-specific *)
Lemma ts_saveDict_eq m c a n :
  fst (fst (ts_saveDict m c a n)) = fst (fst (hs_saveDict m (ts_hs c) a n)) /\
  ts_hs (snd (fst (ts_saveDict m c a n))) = snd (fst (hs_saveDict m (ts_hs c) a n)) /\
  snd (ts_saveDict m c a n) = snd (hs_saveDict m (ts_hs c) a n).
Proof. unfold ts_saveDict. destruct (hs_saveDict m (ts_hs c) a n) as [[m' h'] r]. cbn [fst snd ts_hs]. repeat split; reflexivity. Qed.

Lemma ts_saveDict_hist m c a n H :
  hmem_ok m -> ts_ok c -> 0 < a -> hhist_inv m (ts_core c) H ->
  hhist_inv (fst (fst (ts_saveDict m c a n))) (ts_core (snd (fst (ts_saveDict m c a n)))) H.
Proof.
  intros Hm (K & _) Ha HI. destruct (ts_saveDict_eq m c a n) as (E1 & E2 & _). unfold ts_core. rewrite E1, E2.
  apply hs_saveDict_hist; assumption.
Qed.

(* LZ4_loadDictHC of any size: the context designates the last min(n, 64 KB) bytes of the dictionary *)
Lemma ts_loadDict_hist m c a n c' r :
  0 <= n -> 0 <= a -> ts_loadDict m c a n = Some (c', r) -> hhist_inv m (ts_core c') (load_list m a (Z.to_nat n)).
Proof.
  intros Hn Ha E. pose proof (ts_loadDict_ok m c a n c' r Hn Ha E) as LD.
  destruct LD as (_ & _ & _ & _ & L4 & L5 & L6 & L7 & L8 & _).
  unfold hhist_inv, hvis, k_xlen, k_plen. rewrite L5, L6, L7, L8.
  replace (Z.to_nat (K64 - K64)) with 0%nat by lia. cbn [load_list app].
  replace (a + n - (a + n - r)) with r by lia.
  rewrite (load_list_split m a (Z.to_nat n) (Z.to_nat r)) by (unfold K64 in *; lia).
  replace (a + Z.of_nat (Z.to_nat n - Z.to_nat r)) with (a + n - r) by (unfold K64 in *; lia).
  apply is_suffix_app_r.
Qed.

(* ================================================================ whole operation lists *)
Definition thist_next (st : mem * tctx) (H : list Z) (o : top) (ret consumed : Z) : list Z :=
  match o with
  | TWrite _ _ | TSaveDict _ _ | TSetLevel _ | TSetFav _ | TAttach None => H
  | TInit | TResetStream _ | TResetFast _ => []
  | TLoadDict a n => load_list (fst st) a (Z.to_nat n)
  | TAttach (Some d) => hvis (fst st) (ts_core d)
  | TContinue src _ _ | TContinueDestSize src _ _ =>
    if 0 <? ret then H ++ load_list (fst st) src (Z.to_nat consumed) else H
  | TFastReset src _ _ _ | TExtState src _ _ _ =>
    if 0 <? ret then load_list (fst st) src (Z.to_nat consumed) else []
  end.

(* documented preconditions along a run: [top_pre], and before each streaming call the bytes the call will use as
   history (after its own prelude) are the tail of what the decoder has *)
Fixpoint tstream_pre (st : mem * tctx) (H : list Z) (ops : list top) : Prop :=
  match ops with
  | [] => True
  | o :: r =>
    top_pre st o /\
    match o with
    | TContinue src n _ | TContinueDestSize src n _ =>
      forall ke cte, ts_effective (fst st) (snd st) src n = Some (ke, cte) -> hhist_inv (fst st) ke H
    | _ => True
    end /\
    match tstep st o with
    | Some (st', (ret, _, consumed)) => tstream_pre st' (thist_next st H o ret consumed) r
    | None => True
    end
  end.

Fixpoint tstream_claim (st : mem * tctx) (H : list Z) (ops : list top) : Prop :=
  match ops with
  | [] => True
  | o :: r =>
    match tstep st o with
    | None => True
    | Some (st', (ret, out, consumed)) =>
      match o with
      | TContinue src n cap =>
        (compressBound n <= cap -> n <= LZ4_MAX_INPUT_SIZE -> 0 < ret) /\
        (0 < ret -> ret = Z.of_nat (length out) /\ ret <= Z.max cap (compressBound n) /\ consumed = n /\
                    win_strict H out (load_list (fst st) src (Z.to_nat n)))
      | TContinueDestSize src n target =>
        0 < ret -> ret = Z.of_nat (length out) /\ ret <= target /\ 0 <= consumed <= n /\
                   win_spec H out (load_list (fst st) src (Z.to_nat consumed))
      | TFastReset src n cap _ | TExtState src n cap _ =>
        (compressBound n <= cap -> n <= LZ4_MAX_INPUT_SIZE -> 0 < ret) /\
        (0 < ret -> ret = Z.of_nat (length out) /\ ret <= Z.max cap (compressBound n) /\ consumed = n /\
                    strict_valid [] out = Some (load_list (fst st) src (Z.to_nat n)))
      | _ => True
      end /\
      tstream_claim st' (thist_next st H o ret consumed) r
    end
  end.

Lemma kt_generic_pos m ke cte fav src n cap lim ret consumed out hw c' :
  0 <= n < 2147483648 -> kt_generic m ke cte fav src n cap lim = Some (TRes ret consumed out hw c') -> 0 < ret ->
  n <= LZ4_MAX_INPUT_SIZE.
Proof.
  intros Hn. unfold HcTabStream.kt_generic.
  destruct (match lim with FillOutput => cap <? 1 | _ => false end); [intros H; injection H as <- _ _ _ _; lia|].
  destruct (u32 n >? LZ4_MAX_INPUT_SIZE) eqn:E; [intros H; injection H as <- _ _ _ _; lia|].
  intros _ _. rewrite u32s in E by lia. lia.
Qed.

Lemma ts_continue_generic_pos m c src n cap lim ret consumed out hw c' :
  0 <= n < 2147483648 -> ts_continue_generic m c src n cap lim = Some (TRes ret consumed out hw c') -> 0 < ret ->
  n <= LZ4_MAX_INPUT_SIZE.
Proof.
  intros Hn. rewrite ts_continue_generic_eq. destruct (lvl_ok _); [|discriminate].
  destruct (ts_effective m c src n) as [[ke cte]|]; [|discriminate]. apply kt_generic_pos. exact Hn.
Qed.

Lemma ts_fastReset_pos m c src n cap level ret consumed out hw c' :
  0 <= n < 2147483648 -> ts_fastReset m c src n cap level = Some (TRes ret consumed out hw c') -> 0 < ret ->
  n <= LZ4_MAX_INPUT_SIZE.
Proof.
  intros Hn. unfold ts_fastReset. cbv zeta. destruct (lvl_ok _); [|discriminate].
  destruct (kc_init_internal _ _ src) as [k ct].
  rewrite ts_generic_eq. destruct (ts_pick m _ src n) as [[ke cte]|]; [|discriminate]. apply kt_generic_pos. exact Hn.
Qed.

(* the claims for one successful streaming call, from [tcall_post] *)
Lemma tcontinue_claims m ke src n cap ret consumed out hw c' H :
  0 <= n < 2147483648 -> k_ready ke src ->
  tcall_post m ke src n cap (if cap <? compressBound n then LimitedOutput else NotLimited) ret consumed out hw c' ->
  hhist_inv m ke H -> (0 < ret -> n <= LZ4_MAX_INPUT_SIZE) ->
  (compressBound n <= cap -> n <= LZ4_MAX_INPUT_SIZE -> 0 < ret) /\
  (0 < ret -> ret = Z.of_nat (length out) /\ ret <= Z.max cap (compressBound n) /\ consumed = n /\
              win_strict H out (load_list m src (Z.to_nat n))).
Proof.
  intros Hn R Q HI Hpos. pose proof Q as (_ & _ & _ & Q4 & Q5 & _ & Q7).
  split.
  - intros Hb Hmax. replace (cap <? compressBound n) with false in Q5 by lia. apply Q5; [reflexivity | exact Hmax].
  - intros Hr. destruct (Q7 Hr) as (_ & E1 & E2 & _ & E4 & _).
    assert (Hl : (if cap <? compressBound n then LimitedOutput else NotLimited) <> FillOutput) by (destruct (cap <? compressBound n); discriminate).
    specialize (E4 Hl). subst consumed.
    destruct (ts_call_decodes m ke src n cap _ ret n out hw c' H R Q HI Hr) as (_ & D2 & _).
    split; [exact E1|]. split; [pose proof (hwlim_cap n cap ltac:(specialize (Hpos Hr); lia)); lia|].
    split; [reflexivity|]. intros K HK. apply (D2 Hl K HK).
Qed.

Theorem tstream_roundtrip : forall ops st H, tstate_inv st -> tstream_pre st H ops -> tstream_claim st H ops.
Proof.
  induction ops as [|o r IH]; intros st H Inv P; cbn [tstream_pre tstream_claim] in *; [exact I|].
  destruct P as (P1 & P2 & P3).
  destruct (tstep st o) as [[st' [[ret out] consumed]]|] eqn:E; [|exact I].
  split; [|apply IH; [apply (tstep_inv st o st' _ Inv P1 E) | exact P3]].
  destruct st as [m c]. destruct Inv as (Hm & K). cbn [fst snd] in *.
  destruct o; try exact I; cbn [tstep top_pre snd] in *.
  - (* LZ4_compress_HC_continue *)
    apply of_tres_inv in E. destruct E as (ret' & consumed' & out' & hw & c' & E0 & _ & Ex). injection Ex as -> -> ->.
    destruct P1 as (Pd & Ps & Pn & Pc). unfold ts_continue in E0.
    destruct (ts_continue_generic_sound m c src n cap _ ret' consumed' out' hw c' Hm K Pd Ps Pn Pc E0) as (ke & cte & Ee & R & _ & _ & Q).
    apply (tcontinue_claims m ke src n cap ret' consumed' out' hw c' H Pn R Q (P2 ke cte Ee)).
    apply (ts_continue_generic_pos m c src n cap _ ret' consumed' out' hw c' Pn E0).
  - (* LZ4_compress_HC_continue_destSize *)
    apply of_tres_inv in E. destruct E as (ret' & consumed' & out' & hw & c' & E0 & _ & Ex). injection Ex as -> -> ->.
    destruct P1 as (Pd & Ps & Pn & Pc). unfold ts_continue_destSize in E0.
    destruct (ts_continue_generic_sound m c src n target FillOutput ret' consumed' out' hw c' Hm K Pd Ps Pn Pc E0) as (ke & cte & Ee & R & _ & _ & Q).
    intros Hr. pose proof Q as (_ & _ & _ & Q4 & _ & _ & Q7). destruct (Q7 Hr) as (_ & E1 & E2 & E3 & _).
    destruct (ts_call_decodes m ke src n target FillOutput ret' consumed' out' hw c' H R Q (P2 ke cte Ee) Hr) as (D1 & _ & _).
    split; [exact E1|]. split; [unfold hwlim in Q4; lia|]. split; [exact E3|]. intros Kk HK. apply (D1 Kk HK).
  - (* LZ4_compress_HC_extStateHC_fastReset *)
    apply of_tres_inv in E. destruct E as (ret' & consumed' & out' & hw & c' & E0 & _ & Ex). injection Ex as -> -> ->.
    destruct P1 as (Ps & Pn & Pc).
    pose proof (ts_fastReset_sound m c src n cap level ret' consumed' out' hw c' Hm K Ps Pn Pc E0) as Q. cbv zeta in Q.
    destruct Q as (R & Q1 & Q2 & Q).
    assert (HI : hhist_inv m (k_init_internal (ts_core (ts_resetFast c level)) src) []).
    { unfold hhist_inv. rewrite hvis_nil; [apply is_suffix_nil | unfold k_xlen; lia|].
      unfold k_plen. destruct R as ((_ & Pp & _) & _ & _ & _ & Re). unfold k_endIdx in Q2. lia. }
    pose proof (tcontinue_claims m _ src n cap ret' consumed' out' hw c' [] Pn R Q HI
                  (ts_fastReset_pos m c src n cap level ret' consumed' out' hw c' Pn E0)) as (C1 & C2).
    split; [exact C1|]. intros Hr. destruct (C2 Hr) as (A1 & A2 & A3 & A4).
    split; [exact A1|]. split; [exact A2|]. split; [exact A3|].
    specialize (A4 (Z.to_nat 65535) ltac:(lia)). unfold lastn in A4. cbn [length skipn Nat.sub] in A4. exact A4.
  - (* LZ4_compress_HC_extStateHC *)
    apply of_tres_inv in E. destruct E as (ret' & consumed' & out' & hw & c' & E0 & _ & Ex). injection Ex as -> -> ->.
    destruct P1 as (Ps & Pn & Pc). unfold ts_extState in E0.
    pose proof (ts_fastReset_sound m ts_init src n cap level ret' consumed' out' hw c' Hm ts_init_ok Ps Pn Pc E0) as Q. cbv zeta in Q.
    destruct Q as (R & Q1 & Q2 & Q).
    assert (HI : hhist_inv m (k_init_internal (ts_core (ts_resetFast ts_init level)) src) []).
    { unfold hhist_inv. rewrite hvis_nil; [apply is_suffix_nil | unfold k_xlen; lia|].
      unfold k_plen. destruct R as ((_ & Pp & _) & _ & _ & _ & Re). unfold k_endIdx in Q2. lia. }
    pose proof (tcontinue_claims m _ src n cap ret' consumed' out' hw c' [] Pn R Q HI
                  (ts_fastReset_pos m ts_init src n cap level ret' consumed' out' hw c' Pn E0)) as (C1 & C2).
    split; [exact C1|]. intros Hr. destruct (C2 Hr) as (A1 & A2 & A3 & A4).
    split; [exact A1|]. split; [exact A2|]. split; [exact A3|].
    specialize (A4 (Z.to_nat 65535) ltac:(lia)). unfold lastn in A4. cbn [length skipn Nat.sub] in A4. exact A4.
Qed.

(* ================================================================ C12: the dictionary routes, end to end *)
(* LZ4_loadDictHC of any size at a hash-chain level, then a block anywhere in memory *)
Theorem tab_loadDict_roundtrip m c a n c' r src k cap ret consumed out hw c'' :
  hmem_ok m -> 0 <= n -> 0 <= a -> 0 < src -> 0 <= k < 2147483648 -> 0 <= cap ->
  ts_loadDict m c a n = Some (c', r) ->
  ts_continue m c' src k cap = Some (TRes ret consumed out hw c'') ->
  (compressBound k <= cap -> k <= LZ4_MAX_INPUT_SIZE -> 0 < ret) /\
  (0 < ret -> ret = Z.of_nat (length out) /\ ret <= Z.max cap (compressBound k) /\ consumed = k /\
              win_strict (load_list m a (Z.to_nat n)) out (load_list m src (Z.to_nat k))).
Proof.
  intros Hm Hn Ha Hs Hk Hcap El Ec.
  pose proof (ts_loadDict_ok m c a n c' r Hn Ha El) as LD. destruct LD as (L1 & _ & _ & L3 & _ & _ & _ & _ & _ & L9 & L10).
  pose proof (ts_loadDict_hist m c a n c' r Hn Ha El) as HI.
  unfold ts_continue in Ec.
  destruct (ts_continue_generic_sound m c' src k cap _ ret consumed out hw c'' Hm L1 L9 Hs Hk Hcap Ec) as (ke & cte & Ee & R & _ & _ & Q).
  assert (HD : match hs_dctx (ts_hs c') with Some d => hhist_inv m d (load_list m a (Z.to_nat n)) | None => True end) by (rewrite L3; exact I).
  destruct (ts_effective_hist m m c' src k ke cte _ (conj L1 (conj L9 L10)) Hs ltac:(lia) Ee (or_intror HI) HD) as (Hke & _).
  apply (tcontinue_claims m ke src k cap ret consumed out hw c'' _ Hk R Q Hke).
  apply (ts_continue_generic_pos m c' src k cap _ ret consumed out hw c'' Hk Ec).
Qed.

(* LZ4_attach_HC_dictionary of a stream loaded at a hash-chain level onto a working stream that has not started: when the
   call stays in the model (first block > 4 KB: the dictionary context is copied, LZ4HC_setExternalDict indexes its last
   bytes) the block decodes with the dictionary bytes *)
Theorem tab_attach_roundtrip m c0 d a n dc r src k cap ret consumed out hw c'' :
  hmem_ok m -> ts_ok c0 -> k_dirty (ts_core c0) = false -> k_prefixStart (ts_core c0) = 0 ->
  0 <= n -> 0 <= a -> 0 < src -> 0 <= k < 2147483648 -> 0 <= cap ->
  ts_loadDict m d a n = Some (dc, r) ->
  ts_continue m (ts_attach c0 (Some dc)) src k cap = Some (TRes ret consumed out hw c'') ->
  (compressBound k <= cap -> k <= LZ4_MAX_INPUT_SIZE -> 0 < ret) /\
  (0 < ret -> ret = Z.of_nat (length out) /\ ret <= Z.max cap (compressBound k) /\ consumed = k /\
              win_strict (load_list m a (Z.to_nat n)) out (load_list m src (Z.to_nat k))).
Proof.
  intros Hm K0 Hd0 Hz Hn Ha Hs Hk Hcap El Ec.
  pose proof (ts_loadDict_ok m d a n dc r Hn Ha El) as LD. destruct LD as (_ & L2 & L2c & _).
  pose proof (ts_loadDict_hist m d a n dc r Hn Ha El) as HI.
  assert (K : ts_ok (ts_attach c0 (Some dc))) by (apply ts_attach_ok; [exact K0 | exact (conj L2 L2c)]).
  unfold ts_continue in Ec.
  destruct (ts_continue_generic_sound m _ src k cap _ ret consumed out hw c'' Hm K Hd0 Hs Hk Hcap Ec) as (ke & cte & Ee & R & _ & Hl & Q).
  assert (HD : match hs_dctx (ts_hs (ts_attach c0 (Some dc))) with Some x => hhist_inv m x (load_list m a (Z.to_nat n)) | None => True end) by exact HI.
  destruct (ts_effective_hist m m _ src k ke cte _ (conj K (conj Hd0 Hl)) Hs ltac:(lia) Ee (or_introl Hz) HD) as (Hke & _).
  apply (tcontinue_claims m ke src k cap ret consumed out hw c'' _ Hk R Q Hke).
  apply (ts_continue_generic_pos m _ src k cap _ ret consumed out hw c'' Hk Ec).
Qed.
End TabProofs.
