(* Proofs about Model/Io.v, part 1: stdio primitives, legacy loop, LZ4F loops (ST/MT),
   selectDecoder and the frame loop refine Spec.FrameSpec.stream_decode whenever they
   return "success"; no injected fault survives on a successful path. *)
From Coq Require Import ZArith List Lia Bool.
From LZ4V Require Import Spec.BlockSpec Spec.XXH32 Spec.FrameSpec Gen.Consts Model.Io.
From LZ4V Require Import Proofs.BlockSpecProofs Proofs.IoSpecFacts.
Import ListNotations.
Local Open Scope Z_scope.

(* an event that records an injected fault (a failing fseek is not one: the code falls back to reading) *)
Definition clean_ev (e : event) : bool :=
  match e with
  | EOpenSrc ok | EOpenDst ok | ECloseDst ok | ERemoveSrc ok => ok
  | ERead _ _ err => negb err
  | EWrite _ ok => ok
  | ESeek _ _ => true
  | ECloseSrc => true
  end.
Definition clean (tr : list event) : Prop := forallb clean_ev tr = true.

Definition mono (s s' : st) : Prop :=
  (s_rerr s = true -> s_rerr s' = true) /\ (s_pasteof s = true -> s_pasteof s' = true).
Definition good (s : st) : Prop := s_rerr s = false /\ s_pasteof s = false.
(* everything but the source stream and the trace is untouched *)
Definition keeps (s s' : st) : Prop :=
  s_out s' = s_out s /\ s_magic s' = s_magic s /\ s_nbFrames s' = s_nbFrames s /\ s_pasteof s' = s_pasteof s.

Lemma mono_refl : forall s, mono s s.
Proof. intros s; split; auto. Qed.
Lemma mono_trans : forall a b c, mono a b -> mono b c -> mono a c.
Proof. intros a b c [H1 H2] [H3 H4]; split; auto. Qed.
Lemma good_back : forall s s', mono s s' -> good s' -> good s.
Proof.
  intros s s' [M1 M2] [G1 G2]. split.
  - destruct (s_rerr s); [rewrite M1 in G1 by reflexivity; discriminate|reflexivity].
  - destruct (s_pasteof s); [rewrite M2 in G2 by reflexivity; discriminate|reflexivity].
Qed.

Lemma clean_cons : forall e tr, clean_ev e = true -> clean tr -> clean (e :: tr).
Proof. intros e tr H1 H2. unfold clean in *. cbn [forallb]. rewrite H1, H2. reflexivity. Qed.

Lemma len_nonneg : forall (A : Type) (l : list A), 0 <= len l.
Proof. intros. unfold len. lia. Qed.

Lemma firstn_short : forall (A : Type) (l : list A) n m, (length l <= n)%nat -> (length l <= m)%nat -> firstn n l = firstn m l.
Proof. intros. rewrite !firstn_all2 by lia. reflexivity. Qed.
Lemma skipn_short : forall (A : Type) (l : list A) n m, (length l <= n)%nat -> (length l <= m)%nat -> skipn n l = skipn m l.
Proof. intros. rewrite !skipn_all2 by lia. reflexivity. Qed.

(* ---------------------------------------------------------------- fread / fwrite *)
Lemma fread_ok : forall fl n s got s1, fread fl n s = (got, s1) ->
  mono s s1 /\ keeps s s1 /\
  (s_rerr s1 = false ->
     got = firstn (Z.to_nat n) (s_in s) /\ s_in s1 = skipn (Z.to_nat n) (s_in s) /\ (clean (s_tr s) -> clean (s_tr s1))).
Proof.
  intros fl n s got s1 H. unfold fread in H.
  assert (P : forall g t, read_plain n s = (g, t) ->
          mono s t /\ keeps s t /\
          (s_rerr t = false -> g = firstn (Z.to_nat n) (s_in s) /\ s_in t = skipn (Z.to_nat n) (s_in s) /\ (clean (s_tr s) -> clean (s_tr t)))).
  { intros g t E. unfold read_plain in E. inversion E; subst; clear E. cbn.
    split; [split; auto|]. split; [repeat split|]. intros _. repeat split. intros C. apply clean_cons; auto. }
  destruct (f_rlimit fl) as [lim|]; [|apply P; exact H].
  destruct (lim - s_rpos s <=? 0) eqn:E0.
  - inversion H; subst; clear H. cbn. split; [split; auto|]. split; [repeat split|]. intros D; discriminate.
  - destruct (lim - s_rpos s <? n) eqn:E1; [|apply P; exact H].
    apply Z.leb_gt in E0. apply Z.ltb_lt in E1.
    inversion H; subst; clear H. cbn.
    split; [split; [intros R; rewrite R; reflexivity|auto]|]. split; [repeat split|].
    intros R. apply orb_false_iff in R. destruct R as [R1 R2].
    apply Z.eqb_neq in R2. unfold len in R2. rewrite firstn_length in R2.
    assert (L : (length (s_in s) < Z.to_nat (lim - s_rpos s))%nat) by lia.
    repeat split.
    + apply firstn_short; lia.
    + apply skipn_short; lia.
    + intros C. apply clean_cons; [|exact C]. cbn. apply negb_true_iff. apply Z.eqb_neq. unfold len. rewrite firstn_length. lia.
Qed.

Lemma fwrite_ok : forall fl d s s1, fwrite fl d s = (true, s1) ->
  s_out s1 = s_out s ++ d /\ s_in s1 = s_in s /\ s_rerr s1 = s_rerr s /\ s_magic s1 = s_magic s /\
  s_nbFrames s1 = s_nbFrames s /\ s_pasteof s1 = s_pasteof s /\ (clean (s_tr s) -> clean (s_tr s1)).
Proof.
  intros fl d s s1 H. unfold fwrite in H.
  assert (P : forall t, (true, mkSt (s_in s) (s_rpos s) (s_rerr s) (s_nseek s) (s_out s ++ d) (s_wpos s + len d)
                                    (EWrite (len d) true :: s_tr s) (s_magic s) (s_nbFrames s) (s_pasteof s)) = (true, t) ->
          s_out t = s_out s ++ d /\ s_in t = s_in s /\ s_rerr t = s_rerr s /\ s_magic t = s_magic s /\
          s_nbFrames t = s_nbFrames s /\ s_pasteof t = s_pasteof s /\ (clean (s_tr s) -> clean (s_tr t))).
  { intros t E. inversion E; subst; clear E. cbn. repeat split. intros C. apply clean_cons; auto. }
  destruct (f_wlimit fl) as [lim|]; [|apply P; exact H].
  destruct (lim - s_wpos s <? len d); [discriminate|apply P; exact H].
Qed.

Lemma fwrite_mono : forall fl d s b s1, fwrite fl d s = (b, s1) -> mono s s1.
Proof.
  intros fl d s b s1 H. unfold fwrite in H.
  destruct (f_wlimit fl) as [lim|]; [destruct (lim - s_wpos s <? len d)|]; inversion H; subst; cbn; split; auto.
Qed.

(* lengths in Z *)
Lemma len_firstn_eq : forall (l : list byte) n, 0 <= n -> len (firstn (Z.to_nat n) l) = n -> (Z.to_nat n <= length l)%nat.
Proof. intros l n Hn H. unfold len in H. rewrite firstn_length in H. lia. Qed.

Lemma take_firstn : forall (l : list byte) n, (n <= length l)%nat -> take n l = Some (firstn n l, skipn n l).
Proof.
  intros l n H. rewrite <- (firstn_skipn n l) at 1. rewrite <- (firstn_length_le l H) at 1. apply take_app.
Qed.

Lemma firstn_nil_inv : forall (A : Type) n (l : list A), (0 < n)%nat -> firstn n l = [] -> l = [].
Proof. intros A n l Hn H. destruct n; [lia|]. destruct l; [reflexivity|discriminate]. Qed.

Lemma len_app : forall (A : Type) (a b : list A), len (a ++ b) = len a + len b.
Proof. intros. unfold len. rewrite app_length. lia. Qed.

Lemma split_firstn_skipn : forall (A : Type) n (l : list A), l = firstn n l ++ skipn n l.
Proof. intros. symmetry. apply firstn_skipn. Qed.


Lemma skipn_app_exact : forall (A : Type) n (a b : list A), length a = n -> skipn n (a ++ b) = b.
Proof.
  intros A n a b H. subst n. induction a as [|x a IH]; [reflexivity|]. cbn. exact IH.
Qed.

Lemma skipn_skipn' : forall (A : Type) y x (l : list A), skipn x (skipn y l) = skipn (y + x) l.
Proof.
  induction y; intros x l; [reflexivity|]. destruct l; [cbn; destruct x; reflexivity|]. cbn [skipn plus]. apply IHy.
Qed.

Lemma le_bytes_le_val : forall bs, bytes_ok bs = true -> le_bytes (length bs) (le_val bs) = bs.
Proof.
  induction bs as [|b r IH]; intros H; [reflexivity|].
  rewrite bytes_ok_cons in H. apply andb_true_iff in H. destruct H as [Hb Hr].
  unfold byte_ok in Hb. apply andb_true_iff in Hb. destruct Hb as [Hb1 Hb2].
  apply Z.leb_le in Hb1. apply Z.ltb_lt in Hb2.
  cbn [length le_bytes le_val].
  assert (E1 : (b + 256 * le_val r) mod 256 = b).
  { replace (b + 256 * le_val r) with (b + le_val r * 256) by ring. rewrite Z.mod_add by lia. apply Z.mod_small. lia. }
  assert (E2 : (b + 256 * le_val r) / 256 = le_val r).
  { replace (b + 256 * le_val r) with (b + le_val r * 256) by ring. rewrite Z.div_add by lia. rewrite Z.div_small by lia. lia. }
  rewrite E1, E2, IH by exact Hr. reflexivity.
Qed.

(* ---------------------------------------------------------------- fseek_u32 / skipStream *)
Lemma skip_stream_ok : forall fl offset s e s2, skip_stream fl offset s = (e, s2) ->
  mono s s2 /\ keeps s s2 /\
  (0 <= offset -> e = 0 -> s_rerr s2 = false ->
     s_in s2 = skipn (Z.to_nat offset) (s_in s) /\ (Z.to_nat offset <= length (s_in s))%nat /\ (clean (s_tr s) -> clean (s_tr s2))).
Proof.
  intros fl offset s e s2 H. unfold skip_stream in H.
  destruct (offset <=? 0) eqn:E0.
  - inversion H; subst. apply Z.leb_le in E0.
    split; [apply mono_refl|]. split; [repeat split|]. intros Hn _ _. assert (offset = 0) by lia. subst offset.
    cbn. repeat split; auto. lia.
  - destruct (fread fl offset s) as [got s1] eqn:R. destruct (fread_ok _ _ _ _ _ R) as [M [K F]].
    destruct (len got =? offset) eqn:EL; inversion H; subst; clear H.
    + split; [exact M|]. split; [exact K|]. intros Hn _ G. destruct (F G) as [Fa [Fb Fc]].
      split; [exact Fb|]. split; [|exact Fc]. apply Z.eqb_eq in EL. subst got. apply len_firstn_eq in EL; [exact EL|exact Hn].
    + split; [exact M|]. split; [exact K|]. intros _ D; discriminate.
Qed.

Lemma fseek_u32_ok : forall fuel seekable fl offset s e s2, fseek_u32 fuel seekable fl offset s = (e, s2) ->
  mono s s2 /\ s_out s2 = s_out s /\ s_magic s2 = s_magic s /\ s_nbFrames s2 = s_nbFrames s /\
  (0 <= offset -> e = 0 -> good s2 ->
     s_in s2 = skipn (Z.to_nat offset) (s_in s) /\ (Z.to_nat offset <= length (s_in s))%nat /\ (clean (s_tr s) -> clean (s_tr s2))).
Proof.
  induction fuel; intros seekable fl offset s e s2 H; cbn [fseek_u32] in H.
  - inversion H; subst. split; [apply mono_refl|]. split; [reflexivity|]. split; [reflexivity|]. split; [reflexivity|].
    intros _ D. unfold FUEL in D. discriminate.
  - destruct (offset <=? 0) eqn:E0.
    + inversion H; subst. apply Z.leb_le in E0.
      split; [apply mono_refl|]. split; [reflexivity|]. split; [reflexivity|]. split; [reflexivity|].
      intros Hn _ _. assert (offset = 0) by lia. subst offset. cbn. split; [reflexivity|]. split; [lia|auto].
    + apply Z.leb_gt in E0.
      set (step := if IO_FSEEK_STEPMAX <? offset then IO_FSEEK_STEPMAX else offset) in *.
      assert (ST : 0 < step <= offset).
      { unfold step. destruct (IO_FSEEK_STEPMAX <? offset) eqn:E1; [apply Z.ltb_lt in E1; unfold IO_FSEEK_STEPMAX in *; lia|lia]. }
      clearbody step.
      destruct (seekable && negb (f_seek fl (s_nseek s))).
      * apply IHfuel in H. destruct H as [M [Ka [Kb [Kc F]]]].
        split; [destruct M as [M1 M2]; split; [exact M1|]; intros P; apply M2; cbn; rewrite P; reflexivity|].
        split; [exact Ka|]. split; [exact Kb|]. split; [exact Kc|].
        intros Hn E G. destruct (F ltac:(lia) E G) as [Fa [Fb Fc]].
        assert (GP : s_pasteof (seek_fwd step s) = false).
        { destruct M as [_ M2]. destruct G as [_ G2]. destruct (s_pasteof (seek_fwd step s)); [rewrite M2 in G2 by reflexivity; discriminate|reflexivity]. }
        cbn in GP. apply orb_false_iff in GP. destruct GP as [_ GP]. apply Z.ltb_ge in GP. unfold len in GP.
        cbn [seek_fwd s_in] in Fa, Fb. rewrite skipn_length in Fb. rewrite skipn_skipn' in Fa.
        split; [rewrite Fa; f_equal; lia|]. split; [lia|].
        intros C. apply Fc. cbn. apply clean_cons; [reflexivity|exact C].
      * apply skip_stream_ok in H. destruct H as [M [[Ka [Kb [Kc Kd]]] F]].
        split; [exact M|]. split; [exact Ka|]. split; [exact Kb|]. split; [exact Kc|].
        intros Hn E [G1 G2]. destruct (F Hn E G1) as [Fa [Fb Fc]].
        split; [exact Fa|]. split; [exact Fb|]. intros C. apply Fc. cbn. apply clean_cons; [reflexivity|exact C].
Qed.

Section Sound.
  Variable bd : list byte -> list byte -> option (list byte).
  Notation fdec := (frame_decode bd false []).
  Notation bdec := (bd []).

  (* ---------------------------------------------------------------- legacy loop *)
  Definition legacy_post (s s' : st) (c : list byte) : Prop :=
    (s_magic s' = 0 /\ s_in s' = [] /\
       forall lacc F, (length (s_in s) < F)%nat -> legacy_blocks bd F lacc (s_in s) = Some (lacc ++ c, []))
    \/ (exists hdr, length hdr = 4%nat /\ le_val hdr = s_magic s' /\ LZ4IO_LEGACY_BOUND < s_magic s' /\
          (exists pre, s_in s = pre ++ hdr ++ s_in s') /\
          forall lacc F, (length (s_in s) < F)%nat -> is_magic (s_magic s') = true ->
             legacy_blocks bd F lacc (s_in s) = Some (lacc ++ c, hdr ++ s_in s')).

  Lemma legacy_loop_ok : forall fuel mt fl s s',
    legacy_loop bdec fuel mt fl s = Ret tt s' ->
    mono s s' /\ s_nbFrames s' = s_nbFrames s /\
    (good s' -> s_magic s = 0 ->
       (clean (s_tr s) -> clean (s_tr s')) /\ exists c, s_out s' = s_out s ++ c /\ legacy_post s s' c).
  Proof.
    induction fuel; intros mt fl s s' H; cbn [legacy_loop] in H; [discriminate|].
    destruct (fread fl IO_LEGACY_BLOCK_HEADER_SIZE s) as [hdr s1] eqn:R1.
    destruct (fread_ok _ _ _ _ _ R1) as [M1 [[K1a [K1b [K1c K1d]]] F1]].
    change (Z.to_nat IO_LEGACY_BLOCK_HEADER_SIZE) with 4%nat in F1.
    destruct (len hdr =? 0) eqn:E0.
    { inversion H; subst s'; clear H. split; [exact M1|]. split; [exact K1c|].
      intros [G1 G2] Z0. destruct (F1 G1) as [Fa [Fb Fc]].
      apply Z.eqb_eq in E0. unfold len in E0. assert (HN : hdr = []) by (destruct hdr; [reflexivity|cbn in E0; lia]). rewrite HN in Fa.
      symmetry in Fa. apply firstn_nil_inv in Fa; [|lia].
      split; [exact Fc|]. exists []. split; [rewrite app_nil_r; exact K1a|].
      left. split; [rewrite K1b; exact Z0|]. split; [rewrite Fb, Fa; reflexivity|].
      intros lacc F LF. rewrite Fa. destruct F; [lia|]. cbn [legacy_blocks]. rewrite app_nil_r. reflexivity. }
    destruct (len hdr =? IO_LEGACY_BLOCK_HEADER_SIZE) eqn:E4; cbn [negb] in H; [|discriminate].
    apply Z.eqb_eq in E4. change IO_LEGACY_BLOCK_HEADER_SIZE with 4 in E4.
    destruct (LZ4IO_LEGACY_BOUND <? le_val hdr) eqn:EB.
    { (* hand-over to selectDecoder *)
      inversion H; subst s'; clear H. apply Z.ltb_lt in EB.
      split; [destruct M1; split; cbn; auto|]. split; [cbn; exact K1c|].
      intros [G1 G2] Z0. cbn in G1. destruct (F1 G1) as [Fa [Fb Fc]].
      assert (L4 : (4 <= length (s_in s))%nat).
      { subst hdr. unfold len in E4. rewrite firstn_length in E4. lia. }
      split; [cbn; exact Fc|]. exists []. split; [cbn; rewrite app_nil_r; exact K1a|].
      right. exists hdr. cbn [s_magic s_in set_magic].
      split; [unfold len in E4; lia|]. split; [reflexivity|]. split; [exact EB|].
      split; [exists []; cbn [app]; rewrite Fb, Fa; symmetry; apply firstn_skipn|].
      intros lacc F LF IM. destruct F; [lia|]. cbn [legacy_blocks].
      destruct (s_in s) as [|b0 r0] eqn:EI; [cbn in L4; lia|]. rewrite <- EI in *.
      rewrite (take_firstn _ 4 L4). rewrite <- Fa. rewrite IM. rewrite app_nil_r. rewrite Fb. rewrite Fa.
      rewrite firstn_skipn. reflexivity. }
    destruct (fread fl (le_val hdr) s1) as [blk s2] eqn:R2.
    destruct (fread_ok _ _ _ _ _ R2) as [M2 [[K2a [K2b [K2c K2d]]] F2]].
    destruct (len blk =? le_val hdr) eqn:EL; cbn [negb] in H; [|discriminate].
    destruct (bd [] blk) as [c0|] eqn:ED; [|discriminate].
    destruct (LEGACY_BLOCKSIZE <? len c0) eqn:EC; [discriminate|].
    destruct (fwrite fl c0 s2) as [ok s3] eqn:W.
    destruct ok; [|discriminate].
    destruct (fwrite_ok _ _ _ _ W) as [Wa [Wb [Wc [Wd [We [Wf Wg]]]]]].
    assert (M3 := fwrite_mono _ _ _ _ _ W).
    destruct (IHfuel _ _ _ _ H) as [M4 [N4 S4]].
    split; [eapply mono_trans; [exact M1|]; eapply mono_trans; [exact M2|]; eapply mono_trans; [exact M3|exact M4]|].
    split; [rewrite N4, We, K2c, K1c; reflexivity|].
    intros G Z0.
    assert (G3 := good_back _ _ M4 G). assert (G2 := good_back _ _ M3 G3). assert (G1 := good_back _ _ M2 G2).
    destruct G1 as [G1 _]. destruct G2 as [G2 _].
    destruct (F1 G1) as [Fa [Fb Fc]]. destruct (F2 G2) as [Fd [Fe Ff]].
    assert (Z3 : s_magic s3 = 0) by (rewrite Wd, K2b, K1b; exact Z0).
    destruct (S4 G Z3) as [C4 [c' [O4 P4]]].
    apply Z.eqb_eq in EL. apply Z.ltb_ge in EB. apply Z.ltb_ge in EC.
    assert (L4 : (4 <= length (s_in s))%nat).
    { subst hdr. unfold len in E4. rewrite firstn_length in E4. lia. }
    assert (LB : (Z.to_nat (le_val hdr) <= length (s_in s1))%nat).
    { subst blk. unfold len in EL. rewrite firstn_length in EL. lia. }
    assert (LS : length (s_in s3) = (length (s_in s) - 4 - Z.to_nat (le_val hdr))%nat).
    { rewrite Wb, Fe, skipn_length, Fb, skipn_length. reflexivity. }
    split; [intros C; apply C4, Wg, Ff, Fc, C|].
    exists (c0 ++ c'). split; [rewrite O4, Wa, K2a, K1a, app_assoc; reflexivity|].
    assert (STEP : forall lacc F rest, (length (s_in s) < F)%nat ->
              (forall F', (length (s_in s3) < F')%nat -> legacy_blocks bd F' (lacc ++ c0) (s_in s3) = Some ((lacc ++ c0) ++ c', rest)) ->
              legacy_blocks bd F lacc (s_in s) = Some (lacc ++ c0 ++ c', rest)).
    { intros lacc F rest LF HI. destruct F; [lia|]. cbn [legacy_blocks].
      destruct (s_in s) as [|b0 r0] eqn:EI; [cbn in L4; lia|]. rewrite <- EI in *.
      rewrite (take_firstn _ 4 L4). rewrite <- Fa.
      destruct (is_magic (le_val hdr)) eqn:IM; [apply magic_gap in IM; lia|].
      rewrite <- Fb. rewrite (take_firstn _ _ LB). rewrite <- Fd. rewrite ED.
      change LEGACY_BLOCK with LEGACY_BLOCKSIZE.
      replace (LEGACY_BLOCKSIZE <? Z.of_nat (length c0)) with false by (symmetry; apply Z.ltb_ge; exact EC).
      rewrite <- Fe, <- Wb. rewrite app_assoc. apply HI. lia. }
    destruct P4 as [[Pa [Pb Pc]]|[h [Pa [Pb [Pc [Pd Pe]]]]]].
    - left. split; [exact Pa|]. split; [exact Pb|]. intros lacc F LF. apply STEP; [exact LF|]. intros F' LF'. apply Pc. exact LF'.
    - right. exists h. split; [exact Pa|]. split; [exact Pb|]. split; [exact Pc|].
      split.
      { destruct Pd as [pre' Pd]. exists (firstn 4 (s_in s) ++ firstn (Z.to_nat (le_val hdr)) (s_in s1) ++ pre').
        rewrite <- !app_assoc. rewrite <- Pd, Wb, Fe. rewrite firstn_skipn. rewrite Fb. rewrite firstn_skipn. reflexivity. }
      intros lacc F LF IM. apply STEP; [exact LF|]. intros F' LF'. apply Pe; [exact LF'|exact IM].
  Qed.

  Lemma legacy_ok : forall mt fl s s',
    legacy bdec mt fl s = Ret tt s' ->
    mono s s' /\ s_nbFrames s' = s_nbFrames s /\ s_rerr s' = false /\
    (good s' -> s_magic s = 0 ->
       (clean (s_tr s) -> clean (s_tr s')) /\ exists c, s_out s' = s_out s ++ c /\ legacy_post s s' c).
  Proof.
    intros mt fl s s' H. unfold legacy in H.
    destruct (legacy_loop bdec (S (length (s_in s))) mt fl s) as [[] s1|] eqn:E; [|discriminate].
    destruct (s_rerr s1) eqn:R; [discriminate|]. inversion H; subst s'; clear H.
    destruct (legacy_loop_ok _ _ _ _ _ E) as [M [N SS]].
    split; [exact M|]. split; [exact N|]. split; [exact R|exact SS].
  Qed.

  (* ---------------------------------------------------------------- ST LZ4F loop *)
  Lemma lz4f_st_ok : forall test fl s s',
    lz4f_st fdec test fl s = Ret tt s' ->
    mono s s' /\ s_nbFrames s' = s_nbFrames s /\ s_magic s' = s_magic s /\
    (clean (s_tr s) -> clean (s_tr s')) /\
    exists c, fdec (le_bytes 4 LZ4IO_MAGICNUMBER ++ s_in s) = Some (c, s_in s') /\ (test = false -> s_out s' = s_out s ++ c).
  Proof.
    intros test fl s s' H. unfold lz4f_st in H.
    destruct (fdec (le_bytes 4 LZ4IO_MAGICNUMBER ++ s_in s)) as [[c rest]|] eqn:E; [|discriminate].
    destruct (match f_rlimit fl with Some lim => lim - s_rpos s <? len (s_in s) - len rest | None => false end).
    { destruct (fread fl (len (s_in s) - len rest) s); discriminate. }
    destruct test.
    - inversion H; subst s'; clear H. cbn. split; [split; auto|]. repeat split.
      + intros C. apply clean_cons; [reflexivity|exact C].
      + exists c. split; [reflexivity|]. intros D; discriminate.
    - match type of H with context [fwrite fl c ?s1] => destruct (fwrite fl c s1) as [ok s2] eqn:W end.
      destruct ok; [|discriminate]. inversion H; subst s'; clear H.
      destruct (fwrite_ok _ _ _ _ W) as [Wa [Wb [Wc [Wd [We [Wf Wg]]]]]]. cbn in *.
      split; [split; intros P; [rewrite Wc|rewrite Wf]; exact P|]. split; [exact We|]. split; [exact Wd|].
      split; [intros C; apply Wg; apply clean_cons; [reflexivity|exact C]|].
      exists c. split; [rewrite Wb; reflexivity|]. intros _. exact Wa.
  Qed.

  (* ---------------------------------------------------------------- MT LZ4F: LZ4F_decompress fed up to EOF *)
  Lemma stream_step_nonempty : forall F acc (bs : list byte), (4 <= length bs)%nat ->
    stream_decode bd false (S F) [] acc bs =
    (let mg := firstn 4 bs in let r := skipn 4 bs in
     let w := le_val mg in
     if w =? MAGIC then
       match frame_decode bd false [] bs with
       | Some (c, rest) => stream_decode bd false F [] (acc ++ c) rest
       | None => None
       end
     else if w =? MAGIC_LEGACY then
       match legacy_blocks bd (S (length r)) [] r with
       | Some (c, rest) => stream_decode bd false F [] (acc ++ c) rest
       | None => None
       end
     else if (MAGIC_SKIP_LO <=? w) && (w <=? MAGIC_SKIP_HI) then
       match take 4 r with
       | None => None
       | Some (szb, r1) =>
         match take (Z.to_nat (le_val szb)) r1 with
         | Some (_, rest) => stream_decode bd false F [] acc rest
         | None => None
         end
       end
     else None).
  Proof.
    intros F acc bs L. cbn [stream_decode]. destruct bs as [|b0 r0] eqn:EB; [cbn in L; lia|]. rewrite <- EB in *.
    rewrite (take_firstn _ 4 L). reflexivity.
  Qed.

  Lemma mt_frames_ok : forall fuel fl data s s',
    mt_frames fdec fuel fl data s = Ret tt s' -> bytes_ok data = true ->
    mono s s' /\ (s_in s' = s_in s /\ s_rerr s' = s_rerr s) /\ s_magic s' = s_magic s /\ s_nbFrames s' = s_nbFrames s /\
    (clean (s_tr s) -> clean (s_tr s')) /\
    exists c, s_out s' = s_out s ++ c /\
      forall acc F, (length data < F)%nat -> stream_decode bd false F [] acc data = Some (acc ++ c).
  Proof.
    induction fuel; intros fl data s s' H BO; cbn [mt_frames] in H; [discriminate|].
    destruct data as [|d0 dr] eqn:ED.
    { inversion H; subst s'; clear H. split; [apply mono_refl|]. repeat split; auto.
      exists []. split; [rewrite app_nil_r; reflexivity|]. intros acc F LF. destruct F; [cbn in LF; lia|]. cbn. rewrite app_nil_r. reflexivity. }
    rewrite <- ED in *. assert (NE : data <> []) by (rewrite ED; discriminate). clear ED d0 dr.
    destruct (len data <? minFHSize) eqn:E7; [discriminate|]. apply Z.ltb_ge in E7. unfold minFHSize, len in E7.
    assert (L4 : (4 <= length data)%nat) by lia.
    assert (BM : bytes_ok (firstn 4 data) = true) by (apply bytes_ok_firstn; exact BO).
    assert (RM := le_val_4_range _ BM (firstn_length_le _ L4)).
    set (m := le_val (firstn 4 data)) in *.
    destruct (Z.land m LZ4IO_SKIPPABLEMASK =? LZ4IO_SKIPPABLE0) eqn:ES.
    - (* skippable frame, skipped by the library *)
      destruct (len data <? 8) eqn:E8; [discriminate|]. apply Z.ltb_ge in E8. unfold len in E8.
      set (size := le_val (firstn 4 (skipn 4 data))) in *.
      destruct (len data - 8 <? size) eqn:EZ; [discriminate|]. apply Z.ltb_ge in EZ. unfold len in EZ.
      assert (BS : bytes_ok (firstn 4 (skipn 4 data)) = true) by (apply bytes_ok_firstn, bytes_ok_skipn; exact BO).
      assert (LS4 : (4 <= length (skipn 4 data))%nat) by (rewrite skipn_length; lia).
      assert (RS := le_val_4_range _ BS (firstn_length_le _ LS4)). fold size in RS.
      apply IHfuel in H; [|apply bytes_ok_skipn; exact BO].
      destruct H as [M [Ka [Kb [Kc [C [c [O SP]]]]]]].
      split; [exact M|]. split; [exact Ka|]. split; [exact Kb|]. split; [exact Kc|]. split; [exact C|].
      exists c. split; [exact O|]. intros acc F LF. destruct F; [lia|].
      rewrite stream_step_nonempty by exact L4. cbv zeta. fold m.
      rewrite skippable_mask_range in ES by exact RM. apply andb_true_iff in ES. destruct ES as [ES1 ES2].
      assert (m =? MAGIC = false).
      { apply Z.eqb_neq. apply Z.leb_le in ES1. unfold MAGIC, MAGIC_SKIP_LO in *. lia. }
      assert (m =? MAGIC_LEGACY = false).
      { apply Z.eqb_neq. apply Z.leb_le in ES1. unfold MAGIC_LEGACY, MAGIC_SKIP_LO in *. lia. }
      rewrite H, H0, ES1, ES2. cbn [andb].
      rewrite (take_firstn _ 4 LS4). fold size.
      assert (LP : (Z.to_nat size <= length (skipn 4 (skipn 4 data)))%nat) by (rewrite !skipn_length; lia).
      rewrite (take_firstn _ _ LP). rewrite !skipn_skipn'.
      replace (4 + (4 + Z.to_nat size))%nat with (Z.to_nat (8 + size)) by lia.
      apply SP. rewrite skipn_length. lia.
    - destruct (m =? LZ4IO_MAGICNUMBER) eqn:EM; [|discriminate].
      destruct (fdec data) as [[c rest]|] eqn:EF; [|discriminate].
      destruct (fwrite fl c s) as [ok s1] eqn:W. destruct ok; [|discriminate].
      destruct (fwrite_ok _ _ _ _ W) as [Wa [Wb [Wc [Wd [We [Wf Wg]]]]]].
      assert (M1 := fwrite_mono _ _ _ _ _ W).
      destruct (frame_decode_suffix _ _ _ _ _ _ EF) as [pre [EP [LP _]]].
      assert (BR : bytes_ok rest = true).
      { rewrite EP in BO. rewrite bytes_ok_app in BO. apply andb_true_iff in BO. tauto. }
      apply IHfuel in H; [|exact BR].
      destruct H as [M [Ka [Kb [Kc [C [c' [O SP]]]]]]].
      split; [eapply mono_trans; [exact M1|exact M]|]. split; [destruct Ka as [Ka1 Ka2]; rewrite Ka1, Ka2, Wb, Wc; split; reflexivity|].
      split; [rewrite Kb, Wd; reflexivity|]. split; [rewrite Kc, We; reflexivity|].
      split; [intros CC; apply C, Wg, CC|].
      exists (c ++ c'). split; [rewrite O, Wa, app_assoc; reflexivity|].
      intros acc F LF. destruct F; [lia|].
      rewrite stream_step_nonempty by exact L4. cbv zeta. fold m.
      change LZ4IO_MAGICNUMBER with MAGIC in EM. rewrite EM, EF. rewrite app_assoc. apply SP.
      rewrite EP in LF. rewrite app_length in LF. lia.
  Qed.

  Lemma magic_bytes_ok : bytes_ok (le_bytes 4 LZ4IO_MAGICNUMBER) = true.
  Proof. reflexivity. Qed.

  Lemma lz4f_mt_ok : forall fl s s',
    lz4f_mt fdec fl s = Ret tt s' -> bytes_ok (s_in s) = true ->
    mono s s' /\ s_in s' = [] /\ s_magic s' = s_magic s /\ s_nbFrames s' = s_nbFrames s /\ s_rerr s' = false /\
    (clean (s_tr s) -> clean (s_tr s')) /\
    exists c, s_out s' = s_out s ++ c /\
      forall acc F, (length (s_in s) + 4 < F)%nat ->
        stream_decode bd false F [] acc (le_bytes 4 LZ4IO_MAGICNUMBER ++ s_in s) = Some (acc ++ c).
  Proof.
    intros fl s s' H BO. unfold lz4f_mt in H.
    destruct (fread fl (len (s_in s) + 1) s) as [got s1] eqn:R.
    destruct (fread_ok _ _ _ _ _ R) as [M1 [[K1a [K1b [K1c K1d]]] F1]].
    destruct (s_rerr s1) eqn:RE; [discriminate|].
    destruct (F1 eq_refl) as [Fa [Fb Fc]].
    assert (GA : got = s_in s).
    { rewrite Fa. apply firstn_all2. unfold len. lia. }
    assert (SI : s_in s1 = []).
    { rewrite Fb. apply skipn_all2. unfold len. lia. }
    apply mt_frames_ok in H; [|rewrite bytes_ok_app, magic_bytes_ok, GA, BO; reflexivity].
    destruct H as [M [Ka [Kb [Kc [C [c [O SP]]]]]]].
    destruct Ka as [Ka1 Ka2].
    split; [eapply mono_trans; [exact M1|exact M]|]. split; [rewrite Ka1; exact SI|].
    split; [rewrite Kb; exact K1b|]. split; [rewrite Kc; exact K1c|].
    split; [rewrite Ka2; exact RE|].
    split; [intros CC; apply C, Fc, CC|].
    exists c. split; [rewrite O, K1a; reflexivity|].
    intros acc F LF. rewrite GA in SP. apply SP. rewrite app_length. cbn. lia.
  Qed.

  (* ---------------------------------------------------------------- selectDecoder *)
  Definition pending (s : st) (bs : list byte) : Prop :=
    (s_magic s = 0 /\ bs = s_in s) \/
    (exists hdr, length hdr = 4%nat /\ le_val hdr = s_magic s /\ s_magic s <> 0 /\ bs = hdr ++ s_in s).
  Definition handover_ok (s : st) : Prop := s_magic s <> 0 -> is_magic (s_magic s) = true.

  Definition frame_post (test : bool) (s sd : st) (bs : list byte) : Prop :=
    (clean (s_tr s) -> clean (s_tr sd)) /\
    exists c bs', pending sd bs' /\ (length bs' < length bs)%nat /\ bytes_ok bs' = true /\
      (test = false -> s_out sd = s_out s ++ c) /\
      (handover_ok sd -> forall acc F, (length bs <= F)%nat ->
          stream_decode bd false (S F) [] acc bs = stream_decode bd false F [] (acc ++ c) bs').

  Lemma is_skippable_magic : forall m, 0 <= m < 4294967296 -> is_skippable m = true -> is_magic m = true.
  Proof.
    intros m R H. unfold is_skippable in H. rewrite skippable_mask_range in H by exact R.
    unfold is_magic. rewrite H. apply orb_true_r.
  Qed.

  Lemma mt_frames_mono : forall fuel fl data s s', mt_frames fdec fuel fl data s = Ret tt s' -> mono s s'.
  Proof.
    induction fuel; intros fl data s s' H; cbn [mt_frames] in H; [discriminate|].
    destruct data as [|d0 dr] eqn:ED; [inversion H; apply mono_refl|]. rewrite <- ED in *. clear ED.
    destruct (len data <? minFHSize); [discriminate|].
    destruct (Z.land _ _ =? _).
    - destruct (len data <? 8); [discriminate|]. destruct (len data - 8 <? _); [discriminate|]. eapply IHfuel; exact H.
    - destruct (_ =? LZ4IO_MAGICNUMBER); [|discriminate].
      destruct (fdec data) as [[c rest]|]; [|discriminate].
      destruct (fwrite fl c s) as [ok s1] eqn:W. destruct ok; [|discriminate].
      eapply mono_trans; [eapply fwrite_mono; exact W|eapply IHfuel; exact H].
  Qed.

  Lemma dispatch_mono : forall mt test seekable fl magic mn s sd d,
    dispatch fdec bdec mt test false seekable fl magic mn s = Ret d sd -> mono s sd /\ d <> DEnd.
  Proof.
    intros mt test seekable fl magic mn s sd d H. unfold dispatch in H.
    set (m' := if is_skippable magic then LZ4IO_SKIPPABLE0 else magic) in *. clearbody m'.
    destruct (m' =? LZ4IO_MAGICNUMBER).
    { destruct mt.
      - destruct (lz4f_mt fdec fl s) as [[] s1|] eqn:E; cbn [lift] in H; [|discriminate].
        inversion H; subst d sd; clear H. split; [|discriminate]. unfold lz4f_mt in E.
        destruct (fread fl (len (s_in s) + 1) s) as [g s3] eqn:R3. destruct (fread_ok _ _ _ _ _ R3) as [Ma _].
        destruct (s_rerr s3); [discriminate|]. eapply mono_trans; [exact Ma|eapply mt_frames_mono; exact E].
      - destruct (lz4f_st fdec test fl s) as [[] s1|] eqn:E; cbn [lift] in H; [|discriminate].
        inversion H; subst d sd; clear H. split; [|discriminate]. destruct (lz4f_st_ok _ _ _ _ E) as [Ma _]. exact Ma. }
    destruct (m' =? LEGACY_MAGICNUMBER).
    { destruct (legacy bdec mt fl s) as [[] s1|] eqn:E; cbn [lift] in H; [|discriminate].
      inversion H; subst d sd; clear H. split; [|discriminate]. destruct (legacy_ok _ _ _ _ E) as [Ma _]. exact Ma. }
    destruct (m' =? LZ4IO_SKIPPABLE0).
    { destruct (fread fl 4 s) as [szb s2] eqn:R2. destruct (fread_ok _ _ _ _ _ R2) as [Ma _].
      destruct (negb (len szb =? 4)); [discriminate|].
      destruct (fseek_u32 6 seekable fl (le_val szb) s2) as [e s3] eqn:FS.
      destruct (e =? 0); [|discriminate]. inversion H; subst d sd; clear H. split; [|discriminate].
      destruct (fseek_u32_ok _ _ _ _ _ _ _ FS) as [Mb _]. eapply mono_trans; [exact Ma|exact Mb]. }
    destruct (s_nbFrames s =? 1); [cbn [andb] in H; discriminate|].
    inversion H; subst d sd; clear H. split; [apply mono_refl|discriminate].
  Qed.

  Lemma dispatch_ok : forall mt test seekable fl hdr mn s sd,
    dispatch fdec bdec mt test false seekable fl (le_val hdr) mn s = Ret DFrame sd ->
    length hdr = 4%nat -> s_magic s = 0 -> bytes_ok (hdr ++ s_in s) = true ->
    good sd -> frame_post test s sd (hdr ++ s_in s).
  Proof.
    intros mt test seekable fl hdr mn s sd H L4 Z0 BO G. unfold dispatch in H.
    assert (BH : bytes_ok hdr = true) by (rewrite bytes_ok_app in BO; apply andb_true_iff in BO; tauto).
    assert (BI : bytes_ok (s_in s) = true) by (rewrite bytes_ok_app in BO; apply andb_true_iff in BO; tauto).
    assert (RM := le_val_4_range _ BH L4).
    assert (HB : le_bytes 4 (le_val hdr) = hdr) by (rewrite <- L4; apply le_bytes_le_val; exact BH).
    assert (LBS : (4 <= length (hdr ++ s_in s))%nat) by (rewrite app_length; lia).
    assert (FH : firstn 4 (hdr ++ s_in s) = hdr) by (apply firstn_app_exact; exact L4).
    assert (SH : skipn 4 (hdr ++ s_in s) = s_in s) by (apply skipn_app_exact; exact L4).
    set (m := le_val hdr) in *.
    destruct (is_skippable m) eqn:SK.
    - (* skippable frame *)
      change (LZ4IO_SKIPPABLE0 =? LZ4IO_MAGICNUMBER) with false in H.
      change (LZ4IO_SKIPPABLE0 =? LEGACY_MAGICNUMBER) with false in H.
      change (LZ4IO_SKIPPABLE0 =? LZ4IO_SKIPPABLE0) with true in H. cbv iota in H.
      destruct (fread fl 4 s) as [szb s1] eqn:R1.
      destruct (fread_ok _ _ _ _ _ R1) as [M1 [[K1a [K1b [K1c K1d]]] F1]].
      destruct (len szb =? 4) eqn:E4; cbn [negb] in H; [|discriminate].
      destruct (fseek_u32 6 seekable fl (le_val szb) s1) as [e s2] eqn:FS.
      destruct (e =? 0) eqn:EE; [|discriminate]. apply Z.eqb_eq in EE. subst e.
      assert (ES : s2 = sd) by (inversion H; reflexivity). subst s2. clear H.
      destruct (fseek_u32_ok _ _ _ _ _ _ _ FS) as [M2 [K2a [K2b [K2c F2]]]].
      destruct (good_back _ _ M2 G) as [R1E _].
      destruct (F1 R1E) as [Fa [Fb Fc]]. change (Z.to_nat 4) with 4%nat in *.
      apply Z.eqb_eq in E4. assert (LI : (4 <= length (s_in s))%nat).
      { rewrite Fa in E4. unfold len in E4. rewrite firstn_length in E4. lia. }
      assert (BZ : bytes_ok szb = true) by (rewrite Fa; apply bytes_ok_firstn; exact BI).
      assert (RZ : 0 <= le_val szb < 4294967296) by (apply le_val_4_range; [exact BZ|unfold len in E4; lia]).
      destruct (F2 (proj1 RZ) eq_refl G) as [Fd [Fe Ff]].
      split; [intros C; apply Ff, Fc, C|].
      exists [], (s_in sd). split; [left; split; [rewrite K2b, K1b; exact Z0|reflexivity]|].
      split; [rewrite Fd, skipn_length, Fb, skipn_length, app_length; lia|].
      split; [rewrite Fd, Fb; apply bytes_ok_skipn, bytes_ok_skipn; exact BI|].
      split; [intros _; rewrite app_nil_r, K2a; exact K1a|].
      intros _ acc F LF. rewrite stream_step_nonempty by exact LBS. cbv zeta. rewrite FH, SH. fold m.
      unfold is_skippable in SK. rewrite skippable_mask_range in SK by exact RM.
      apply andb_true_iff in SK. destruct SK as [SK1 SK2].
      assert (N1 : m =? MAGIC = false).
      { apply Z.eqb_neq. apply Z.leb_le in SK1. unfold MAGIC, MAGIC_SKIP_LO in *. lia. }
      assert (N2 : m =? MAGIC_LEGACY = false).
      { apply Z.eqb_neq. apply Z.leb_le in SK1. unfold MAGIC_LEGACY, MAGIC_SKIP_LO in *. lia. }
      rewrite N1, N2, SK1, SK2. cbn [andb].
      rewrite (take_firstn _ 4 LI). rewrite <- Fa. rewrite <- Fb. rewrite (take_firstn _ _ Fe). rewrite <- Fd.
      rewrite app_nil_r. reflexivity.
    - destruct (m =? LZ4IO_MAGICNUMBER) eqn:EM.
      + (* LZ4 frame *)
        apply Z.eqb_eq in EM.
        assert (HM : hdr = le_bytes 4 LZ4IO_MAGICNUMBER) by (rewrite <- EM; symmetry; exact HB).
        destruct mt.
        * destruct (lz4f_mt fdec fl s) as [[] s1|] eqn:E; cbn [lift] in H; [|discriminate].
          assert (ES : s1 = sd) by (inversion H; reflexivity). subst s1. clear H.
          destruct (lz4f_mt_ok _ _ _ E BI) as [M [Ka [Kb [Kc [Kr [C [c [O SP]]]]]]]].
          split; [exact C|]. exists c, []. split; [left; split; [rewrite Kb; exact Z0|symmetry; exact Ka]|].
          split; [rewrite app_length; cbn [length]; lia|]. split; [reflexivity|]. split; [intros _; exact O|].
          intros _ acc F LF. rewrite HM. rewrite SP by (rewrite HM in LF; rewrite app_length in LF; cbn in LF; cbn; lia).
          destruct F; [lia|]. cbn. reflexivity.
        * destruct (lz4f_st fdec test fl s) as [[] s1|] eqn:E; cbn [lift] in H; [|discriminate].
          assert (ES : s1 = sd) by (inversion H; reflexivity). subst s1. clear H.
          destruct (lz4f_st_ok _ _ _ _ E) as [M [Kc [Kb [C [c [FD O]]]]]].
          split; [exact C|]. exists c, (s_in sd). split; [left; split; [rewrite Kb; exact Z0|reflexivity]|].
          rewrite <- HM in FD.
          destruct (frame_decode_suffix _ _ _ _ _ _ FD) as [pre [EP [LP _]]].
          split; [rewrite EP, app_length; lia|].
          split; [rewrite EP in BO; rewrite bytes_ok_app in BO; apply andb_true_iff in BO; tauto|]. split; [exact O|].
          intros _ acc F LF. rewrite stream_step_nonempty by exact LBS. cbv zeta. rewrite FH. fold m.
          change MAGIC with LZ4IO_MAGICNUMBER. rewrite EM. rewrite Z.eqb_refl. rewrite FD. reflexivity.
      + destruct (m =? LEGACY_MAGICNUMBER) eqn:EL.
        * (* legacy frame *)
          destruct (legacy bdec mt fl s) as [[] s1|] eqn:E; cbn [lift] in H; [|discriminate].
          assert (ES : s1 = sd) by (inversion H; reflexivity). subst s1. clear H.
          destruct (legacy_ok _ _ _ _ E) as [M [Kc [Kr SS]]].
          destruct (SS G Z0) as [C [c [O P]]].
          split; [exact C|].
          assert (STEP : forall rest acc F, (length (hdr ++ s_in s) <= F)%nat ->
                    legacy_blocks bd (S (length (s_in s))) [] (s_in s) = Some ([] ++ c, rest) ->
                    stream_decode bd false (S F) [] acc (hdr ++ s_in s) = stream_decode bd false F [] (acc ++ c) rest).
          { intros rest acc F LF LB. rewrite stream_step_nonempty by exact LBS. cbv zeta. rewrite FH, SH. fold m.
            change MAGIC with LZ4IO_MAGICNUMBER. change MAGIC_LEGACY with LEGACY_MAGICNUMBER. rewrite EM, EL.
            rewrite LB. reflexivity. }
          destruct P as [[Pa [Pb Pc]]|[h [Pa [Pb [Pc [Pd Pe]]]]]].
          -- exists c, []. split; [left; split; [exact Pa|symmetry; exact Pb]|].
             split; [rewrite app_length; cbn [length]; lia|]. split; [reflexivity|]. split; [intros _; exact O|].
             intros _ acc F LF. apply STEP; [exact LF|]. apply Pc. lia.
          -- exists c, (h ++ s_in sd).
             split; [right; exists h; split; [exact Pa|]; split; [exact Pb|]; split; [unfold LZ4IO_LEGACY_BOUND in Pc; lia|reflexivity]|].
             destruct Pd as [pre0 Pd].
             split; [rewrite (app_length hdr), Pd, !app_length; lia|].
             split; [rewrite Pd in BI; rewrite bytes_ok_app in BI; apply andb_true_iff in BI; tauto|].
             split; [intros _; exact O|].
             intros HO acc F LF. apply STEP; [exact LF|]. apply Pe; [lia|]. apply HO. unfold LZ4IO_LEGACY_BOUND in Pc. lia.
        * (* unknown magic number *)
          destruct (m =? LZ4IO_SKIPPABLE0) eqn:E0.
          { exfalso. apply Z.eqb_eq in E0. unfold is_skippable in SK. rewrite E0 in SK. discriminate. }
          destruct (s_nbFrames s =? 1); [cbn [andb] in H; discriminate|]. discriminate.
  Qed.

  Lemma select_ok : forall mt test seekable fl s sd d bs,
    select_decoder fdec bdec mt test false seekable fl s = Ret d sd -> pending s bs -> bytes_ok bs = true ->
    mono s sd /\
    (d = DEnd -> s_rerr sd = false /\ (s_rerr sd = false -> bs = [] /\ s_out sd = s_out s /\ (clean (s_tr s) -> clean (s_tr sd)))) /\
    (d = DFrame -> good sd -> frame_post test s sd bs).
  Proof.
    intros mt test seekable fl s sd d bs H P BO. unfold select_decoder in H.
    set (s0 := set_nb (s_nbFrames s + 1) s) in *.
    destruct P as [[Z0 EB]|[hdr [L4 [EV [NZ EB]]]]].
    - (* the magic number is read from the input *)
      replace (s_magic s0 =? 0) with true in H by (symmetry; apply Z.eqb_eq; exact Z0). cbn [negb] in H.
      destruct (fread fl MAGICNUMBER_SIZE s0) as [mn s1] eqn:R1.
      destruct (fread_ok _ _ _ _ _ R1) as [M1 [[K1a [K1b [K1c K1d]]] F1]].
      change (Z.to_nat MAGICNUMBER_SIZE) with 4%nat in F1. cbn [s0 set_nb s_in s_out s_magic s_tr s_rerr s_pasteof] in *.
      assert (M01 : mono s s1) by (destruct M1 as [A B]; split; [exact A|exact B]).
      destruct (len mn =? 0) eqn:E0.
      + destruct (s_rerr s1) eqn:RE; [discriminate|]. inversion H; subst d sd; clear H.
        split; [destruct M01; split; auto|]. split; [|intros D; discriminate]. intros _.
        cbn. split; [exact RE|]. intros _.
        destruct (F1 eq_refl) as [Fa [Fb Fc]].
        apply Z.eqb_eq in E0. unfold len in E0. assert (HN : mn = []) by (destruct mn; [reflexivity|cbn in E0; lia]).
        rewrite HN in Fa. symmetry in Fa. apply firstn_nil_inv in Fa; [|lia].
        split; [rewrite EB; exact Fa|]. split; [exact K1a|exact Fc].
      + destruct (len mn =? MAGICNUMBER_SIZE) eqn:E4; cbn [negb] in H; [|discriminate].
        apply Z.eqb_eq in E4. change MAGICNUMBER_SIZE with 4 in E4.
        destruct (dispatch_mono _ _ _ _ _ _ _ _ _ H) as [M2 ND].
        split; [eapply mono_trans; [exact M01|exact M2]|].
        split; [intros D; subst d; exfalso; apply ND; reflexivity|].
        intros D G. subst d. destruct (good_back _ _ M2 G) as [RE _].
        destruct (F1 RE) as [Fa [Fb Fc]].
        assert (EQ : bs = mn ++ s_in s1).
        { rewrite EB, Fa, Fb. symmetry. apply firstn_skipn. }
        rewrite EQ in BO.
        destruct (dispatch_ok _ _ _ _ mn mn s1 sd H ltac:(unfold len in E4; lia) ltac:(rewrite K1b; exact Z0) BO G)
          as [C [c [bs' [P' [LL [BB [O SP]]]]]]].
        split; [intros CC; apply C, Fc, CC|]. exists c, bs'. rewrite EQ.
        split; [exact P'|]. split; [exact LL|]. split; [exact BB|]. split; [intros T; rewrite (O T), K1a; reflexivity|exact SP].
    - (* the magic number was handed over by the legacy decoder *)
      replace (s_magic s0 =? 0) with false in H by (symmetry; apply Z.eqb_neq; exact NZ). cbn [negb] in H.
      cbn [s0 set_nb s_magic] in H. rewrite <- EV in H. rewrite EB in BO.
      destruct (dispatch_mono _ _ _ _ _ _ _ _ _ H) as [M2 ND].
      split; [destruct M2 as [A B]; split; [exact A|exact B]|].
      split; [intros D; subst d; exfalso; apply ND; reflexivity|].
      intros D G. subst d.
      match type of H with dispatch _ _ _ _ _ _ _ _ _ ?sx = _ =>
        destruct (dispatch_ok _ _ _ _ hdr [] sx sd H L4 eq_refl BO G) as [C [c [bs' [P' [LL [BB [O SP]]]]]]] end.
      cbn [set_magic set_nb s_in s_out s_tr s_rerr s_pasteof] in *.
      split; [exact C|]. exists c, bs'. rewrite EB. split; [exact P'|]. split; [exact LL|]. split; [exact BB|]. split; [exact O|exact SP].
  Qed.

  (* ---------------------------------------------------------------- the frame loop *)
  Lemma select_mono : forall mt test seekable fl s sd d,
    select_decoder fdec bdec mt test false seekable fl s = Ret d sd ->
    mono s sd /\ (d = DEnd -> s_rerr sd = false).
  Proof.
    intros mt test seekable fl s sd d H. unfold select_decoder in H.
    set (s0 := set_nb (s_nbFrames s + 1) s) in *.
    destruct (negb (s_magic s0 =? 0)).
    - destruct (dispatch_mono _ _ _ _ _ _ _ _ _ H) as [M ND].
      split; [destruct M as [A B]; split; [exact A|exact B]|]. intros D; subst d; exfalso; apply ND; reflexivity.
    - destruct (fread fl MAGICNUMBER_SIZE s0) as [mn s1] eqn:R1.
      destruct (fread_ok _ _ _ _ _ R1) as [M1 _].
      assert (M01 : mono s s1) by (destruct M1 as [A B]; split; [exact A|exact B]).
      destruct (len mn =? 0).
      + destruct (s_rerr s1) eqn:RE; [discriminate|]. inversion H; subst d sd; clear H.
        split; [destruct M01; split; auto|]. intros _. exact RE.
      + destruct (negb (len mn =? MAGICNUMBER_SIZE)); [discriminate|].
        destruct (dispatch_mono _ _ _ _ _ _ _ _ _ H) as [M ND].
        split; [eapply mono_trans; [exact M01|exact M]|]. intros D; subst d; exfalso; apply ND; reflexivity.
  Qed.

  Lemma frames_loop_mono : forall fuel mt test seekable fl s s',
    frames_loop fdec bdec fuel mt test false seekable fl s = Ret 0 s' -> mono s s' /\ s_rerr s' = false.
  Proof.
    induction fuel; intros mt test seekable fl s s' H; cbn [frames_loop] in H; [discriminate|].
    destruct (select_decoder fdec bdec mt test false seekable fl s) as [d sd|] eqn:SE; [|discriminate].
    destruct (select_mono _ _ _ _ _ _ _ SE) as [M RE].
    destruct d.
    - apply IHfuel in H. destruct H as [M2 R2]. split; [eapply mono_trans; [exact M|exact M2]|exact R2].
    - inversion H; subst s'. split; [exact M|apply RE; reflexivity].
    - inversion H.
  Qed.

  Lemma frames_ret0_magic : forall fuel mt test seekable fl s s',
    frames_loop fdec bdec fuel mt test false seekable fl s = Ret 0 s' ->
    s_magic s <> 0 -> 0 <= s_magic s < 4294967296 -> is_magic (s_magic s) = true.
  Proof.
    intros fuel mt test seekable fl s s' H NZ R.
    destruct fuel; cbn [frames_loop] in H; [discriminate|].
    unfold select_decoder in H. cbn [set_nb s_magic] in H.
    replace (s_magic s =? 0) with false in H by (symmetry; apply Z.eqb_neq; exact NZ). cbn [negb] in H.
    unfold dispatch in H.
    destruct (is_skippable (s_magic s)) eqn:SK; [apply is_skippable_magic; assumption|].
    destruct (s_magic s =? LZ4IO_MAGICNUMBER) eqn:E1.
    { apply Z.eqb_eq in E1. rewrite E1. reflexivity. }
    destruct (s_magic s =? LEGACY_MAGICNUMBER) eqn:E2.
    { apply Z.eqb_eq in E2. rewrite E2. reflexivity. }
    destruct (s_magic s =? LZ4IO_SKIPPABLE0) eqn:E3.
    { apply Z.eqb_eq in E3. rewrite E3. reflexivity. }
    cbn [set_magic set_nb s_nbFrames] in H.
    destruct (s_nbFrames s + 1 =? 1); cbn [andb] in H; inversion H.
  Qed.

  Lemma frames_loop_ok : forall fuel mt test seekable fl s s' bs,
    frames_loop fdec bdec fuel mt test false seekable fl s = Ret 0 s' ->
    pending s bs -> bytes_ok bs = true -> s_pasteof s' = false ->
    (clean (s_tr s) -> clean (s_tr s')) /\
    exists c, (test = false -> s_out s' = s_out s ++ c) /\
      forall acc, stream_decode bd false (S (length bs)) [] acc bs = Some (acc ++ c).
  Proof.
    induction fuel; intros mt test seekable fl s s' bs H P BO PE; cbn [frames_loop] in H; [discriminate|].
    destruct (select_decoder fdec bdec mt test false seekable fl s) as [d sd|] eqn:SE; [|discriminate].
    destruct (select_ok _ _ _ _ _ _ _ _ SE P BO) as [M [DE DF]].
    destruct d.
    - (* one more frame *)
      destruct (frames_loop_mono _ _ _ _ _ _ _ H) as [M2 R2].
      assert (G' : good s') by (split; assumption).
      assert (G : good sd) by (eapply good_back; [exact M2|exact G']).
      destruct (DF eq_refl G) as [C [c [bs' [P' [LL [BB [O SP]]]]]]].
      destruct (IHfuel _ _ _ _ _ _ _ H P' BB PE) as [C' [c' [O' SP']]].
      split; [intros CC; apply C', C, CC|].
      exists (c ++ c'). split; [intros T; rewrite (O' T), (O T), app_assoc; reflexivity|].
      intros acc.
      assert (HO : handover_ok sd).
      { intros NZ. eapply frames_ret0_magic; [exact H|exact NZ|].
        destruct P' as [[Z0 _]|[h [L4 [EV [_ EB]]]]]; [exfalso; apply NZ; exact Z0|].
        rewrite <- EV. apply le_val_4_range; [|exact L4].
        rewrite EB in BB. rewrite bytes_ok_app in BB. apply andb_true_iff in BB. tauto. }
      rewrite (SP HO acc (length bs) (le_n _)).
      rewrite app_assoc. eapply stream_decode_mono; [apply SP'|lia].
    - (* end of stream *)
      inversion H; subst s'; clear H.
      destruct (DE eq_refl) as [RE DD]. destruct (DD RE) as [EB [O C]].
      split; [exact C|]. exists []. split; [intros _; rewrite app_nil_r; exact O|].
      intros acc. rewrite EB. cbn. rewrite app_nil_r. reflexivity.
    - inversion H.
  Qed.
End Sound.

(* ------------------------------------------------------------------ END_PROCESS never exits with status 0 *)
Section DieNonzero.
  Variable fdec : list byte -> option (list byte * list byte).
  Variable bdec : list byte -> option (list byte).

  Ltac dz H := inversion H; subst; unfold FUEL; lia.

  Lemma legacy_loop_die : forall fuel mt fl s c s', legacy_loop bdec fuel mt fl s = Die c s' -> c <> 0.
  Proof.
    induction fuel; intros mt fl s c s' H; cbn [legacy_loop] in H; [dz H|].
    destruct (fread fl IO_LEGACY_BLOCK_HEADER_SIZE s) as [hdr s1].
    destruct (len hdr =? 0); [discriminate|].
    destruct (negb (len hdr =? IO_LEGACY_BLOCK_HEADER_SIZE)); [destruct mt; dz H|].
    destruct (LZ4IO_LEGACY_BOUND <? le_val hdr); [discriminate|].
    destruct (fread fl (le_val hdr) s1) as [blk s2].
    destruct (negb (len blk =? le_val hdr)); [dz H|].
    destruct (bdec blk) as [c0|]; [|dz H].
    destruct (LEGACY_BLOCKSIZE <? len c0); [dz H|].
    destruct (fwrite fl c0 s2) as [ok s3]. destruct ok; [eapply IHfuel; exact H|dz H].
  Qed.

  Lemma legacy_die : forall mt fl s c s', legacy bdec mt fl s = Die c s' -> c <> 0.
  Proof.
    intros mt fl s c s' H. unfold legacy in H.
    destruct (legacy_loop bdec (S (length (s_in s))) mt fl s) as [[] s1|c1 s1] eqn:E.
    - destruct (s_rerr s1); [dz H|discriminate].
    - inversion H; subst. eapply legacy_loop_die; exact E.
  Qed.

  Lemma lz4f_st_die : forall test fl s c s', lz4f_st fdec test fl s = Die c s' -> c <> 0.
  Proof.
    intros test fl s c s' H. unfold lz4f_st in H.
    destruct (fdec _) as [[c0 rest]|]; [|dz H].
    destruct (match f_rlimit fl with Some lim => _ | None => false end).
    - destruct (fread fl _ s). dz H.
    - destruct test; [discriminate|]. match type of H with context [fwrite fl c0 ?x] => destruct (fwrite fl c0 x) as [ok s2] end.
      destruct ok; [discriminate|dz H].
  Qed.

  Lemma mt_frames_die : forall fuel fl data s c s', mt_frames fdec fuel fl data s = Die c s' -> c <> 0.
  Proof.
    induction fuel; intros fl data s c s' H; cbn [mt_frames] in H; [dz H|].
    destruct data as [|d0 dr] eqn:ED; [discriminate|]. rewrite <- ED in *. clear ED.
    destruct (len data <? minFHSize); [dz H|].
    destruct (Z.land _ _ =? _).
    - destruct (len data <? 8); [dz H|]. destruct (len data - 8 <? _); [dz H|]. eapply IHfuel; exact H.
    - destruct (_ =? LZ4IO_MAGICNUMBER); [|dz H].
      destruct (fdec data) as [[c0 rest]|]; [|dz H].
      destruct (fwrite fl c0 s) as [ok s1]. destruct ok; [eapply IHfuel; exact H|dz H].
  Qed.

  Lemma lz4f_mt_die : forall fl s c s', lz4f_mt fdec fl s = Die c s' -> c <> 0.
  Proof.
    intros fl s c s' H. unfold lz4f_mt in H.
    destruct (fread fl (len (s_in s) + 1) s) as [got s1].
    destruct (s_rerr s1); [dz H|]. eapply mt_frames_die; exact H.
  Qed.

  Lemma dispatch_die : forall mt test seekable fl magic mn s c s',
    dispatch fdec bdec mt test false seekable fl magic mn s = Die c s' -> c <> 0.
  Proof.
    intros mt test seekable fl magic mn s c s' H. unfold dispatch in H.
    set (m' := if is_skippable magic then LZ4IO_SKIPPABLE0 else magic) in *. clearbody m'.
    destruct (m' =? LZ4IO_MAGICNUMBER).
    { destruct mt.
      - destruct (lz4f_mt fdec fl s) as [[] s1|c1 s1] eqn:E; cbn [lift] in H; [discriminate|].
        inversion H; subst. eapply lz4f_mt_die; exact E.
      - destruct (lz4f_st fdec test fl s) as [[] s1|c1 s1] eqn:E; cbn [lift] in H; [discriminate|].
        inversion H; subst. eapply lz4f_st_die; exact E. }
    destruct (m' =? LEGACY_MAGICNUMBER).
    { destruct (legacy bdec mt fl s) as [[] s1|c1 s1] eqn:E; cbn [lift] in H; [discriminate|].
      inversion H; subst. eapply legacy_die; exact E. }
    destruct (m' =? LZ4IO_SKIPPABLE0).
    { destruct (fread fl 4 s) as [szb s2].
      destruct (negb (len szb =? 4)); [dz H|].
      destruct (fseek_u32 6 seekable fl (le_val szb) s2) as [e s3].
      destruct (e =? 0); [discriminate|]. destruct (e =? FUEL); dz H. }
    destruct (s_nbFrames s =? 1); [cbn [andb] in H; dz H|discriminate].
  Qed.

  Lemma select_die : forall mt test seekable fl s c s',
    select_decoder fdec bdec mt test false seekable fl s = Die c s' -> c <> 0.
  Proof.
    intros mt test seekable fl s c s' H. unfold select_decoder in H.
    destruct (negb (s_magic _ =? 0)); [eapply dispatch_die; exact H|].
    destruct (fread fl MAGICNUMBER_SIZE _) as [mn s1].
    destruct (len mn =? 0); [destruct (s_rerr s1); [dz H|discriminate]|].
    destruct (negb (len mn =? MAGICNUMBER_SIZE)); [dz H|]. eapply dispatch_die; exact H.
  Qed.

  Lemma frames_loop_die : forall fuel mt test seekable fl s c s',
    frames_loop fdec bdec fuel mt test false seekable fl s = Die c s' -> c <> 0.
  Proof.
    induction fuel; intros mt test seekable fl s c s' H; cbn [frames_loop] in H; [dz H|].
    destruct (select_decoder fdec bdec mt test false seekable fl s) as [d sd|c1 s1] eqn:SE.
    - destruct d; [eapply IHfuel; exact H|discriminate|discriminate].
    - inversion H; subst. eapply select_die; exact SE.
  Qed.
End DieNonzero.

(* ------------------------------------------------------------------ LZ4IO_decompressSrcFile / DstFile *)
Section Top.
  Variable bd : list byte -> list byte -> option (list byte).
  Notation fdec := (frame_decode bd false []).
  Notation bdec := (bd []).

  Lemma clean_rev : forall tr, clean tr -> clean (rev tr).
  Proof.
    intros tr H. unfold clean in *. rewrite forallb_forall in *. intros e HI. apply H. apply in_rev. exact HI.
  Qed.

  (* C14_exit0_sound, for any block decoder [bd] the spec layer is instantiated with.
     [o_pasteof o = true] is the case the property leaves unspecified: a successful fseek moved
     beyond the end of the input (the input ends inside the user data of a skippable frame). *)
  Theorem exit0_sound : forall mt test seekable rm fl input,
    bytes_ok input = true ->
    let o := decompress_file fdec bdec mt test false seekable rm fl input in
    o_exit o = 0 -> o_pasteof o = false ->
    clean (o_trace o) /\
    (rm = true -> o_removed o = true) /\
    exists c, stream_decode bd false (S (length input)) [] [] input = Some c /\ (test = false -> o_out o = c).
  Proof.
    intros mt test seekable rm fl input BO o E0 PE. subst o.
    unfold decompress_file, decompress_dst in *.
    destruct (f_open_dst fl); [cbn in E0; lia|].
    unfold decompress_src in *. cbn [ev s_in st_init] in *.
    destruct (f_open_src fl).
    { unfold close_and_remove in E0. destruct (f_close_dst fl); cbn in E0; lia. }
    match type of E0 with context [frames_loop ?a ?b ?f ?m ?t ?p ?sk ?l ?s] =>
      destruct (frames_loop a b f m t p sk l s) as [r s2|c s2] eqn:FL end;
      [|cbn in E0; exfalso; exact (frames_loop_die _ _ _ _ _ _ _ _ _ _ FL E0)].
    unfold close_and_remove in *.
    destruct (f_close_dst fl); [cbn in E0; lia|].
    assert (R0 : r = 0).
    { destruct (r =? 0) eqn:ER; [apply Z.eqb_eq; exact ER|]. cbn in E0. apply Z.eqb_neq in ER. contradiction. }
    subst r. cbn [Z.eqb andb] in *.
    assert (PE2 : s_pasteof s2 = false).
    { destruct rm; [destruct (f_remove fl)|]; cbn in PE; exact PE. }
    match type of FL with frames_loop _ _ _ _ _ _ _ _ ?s0 = _ =>
      destruct (frames_loop_ok bd _ _ _ _ _ s0 s2 input FL) as [C [c [O SP]]] end;
      [left; split; reflexivity|exact BO|exact PE2|].
    cbn [s_tr s_out] in C, O.
    assert (C2 : clean (s_tr s2)) by (apply C; reflexivity).
    destruct rm.
    - destruct (f_remove fl); [cbn in E0; lia|].
      unfold outcome_of. cbn [o_trace o_exit o_out o_removed o_pasteof].
      split; [apply clean_rev; cbn [ev s_tr]; unfold clean; cbn [forallb clean_ev]; exact C2|].
      split; [intros _; reflexivity|].
      exists c. split; [exact (SP [])|]. intros T. cbn [ev s_out]. rewrite (O T). reflexivity.
    - unfold outcome_of. cbn [o_trace o_exit o_out o_removed o_pasteof].
      split; [apply clean_rev; cbn [ev s_tr]; unfold clean; cbn [forallb clean_ev]; exact C2|].
      split; [intros D; discriminate|].
      exists c. split; [exact (SP [])|]. intros T. cbn [ev s_out]. rewrite (O T). reflexivity.
  Qed.
End Top.
