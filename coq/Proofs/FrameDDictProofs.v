(* C08: the concrete dictionary / tmpOut bookkeeping (Model.FrameDDict) -- bounds of every memory
   operation, and what the bytes at dctx->dict are. *)
From Coq Require Import ZArith List Lia Bool.
From LZ4V Require Import Spec.BlockSpec Spec.BlockFast Spec.XXH32 Spec.FrameSpec Gen.Consts Model.FrameD Model.FrameDDict.
Import ListNotations.
Local Open Scope Z_scope.

(* ---- (a) bounds ------------------------------------------------------------------------ *)
(* [p, p+n) lies inside tmpOutBuffer[0, maxBuf) when p points into tmpOutBuffer *)
Definition in_tmp (maxBuf : Z) (p : ptr) (n : Z) : Prop :=
  match p with PTmp o => 0 <= o /\ o + n <= maxBuf | _ => True end.
(* [p, p+n) lies inside the caller's dst window [lo, hi) when p is a caller address *)
Definition in_win (lo hi : Z) (p : ptr) (n : Z) : Prop :=
  match p with PAbs a => lo <= a /\ a + n <= hi | _ => True end.
(* memcpy: source and destination do not overlap *)
Definition no_overlap (p q : ptr) (n : Z) : Prop :=
  match p, q with PTmp a, PTmp b => n = 0 \/ a + n <= b \/ b + n <= a | _, _ => True end.

Definition op_ok (maxBuf lo hi : Z) (op : mop) : Prop :=
  match op with
  | MCopy dst src n => 0 <= n /\ dst <> PNull /\ src <> PNull /\ in_tmp maxBuf dst n /\ in_win lo hi dst n /\
                       in_tmp maxBuf src n /\ no_overlap dst src n
  | MWrite dst bytes => dst <> PNull /\ in_tmp maxBuf dst (zlen bytes) /\ in_win lo hi dst (zlen bytes)
  | MDecode dst cap dict ds bytes =>
      zlen bytes <= cap /\ dst <> PNull /\ in_tmp maxBuf dst cap /\ in_win lo hi dst cap /\
      0 <= ds /\ in_tmp maxBuf dict ds /\ (dict = PNull -> ds = 0)
  end.

(* the invariant of the bookkeeping inside the block stages of a frame with block size [mb];
   [fl] = the context is in dstage_flushOut *)
Record ddI (mb maxBuf : Z) (lnk fl : bool) (d : ddict) : Prop := mkI {
  I_shape : match dd_dict d with
            | PNull => dd_dictSize d = 0
            | PTmp o => o = 0 /\ dd_dictSize d <= maxBuf
            | PAbs _ => True
            end;
  I_ds : 0 <= dd_dictSize d;
  I_to : 0 <= dd_tmpOut d /\ dd_tmpOut d + mb <= maxBuf;
  I_ts : 0 <= dd_tmpOutStart d <= dd_tmpOutSize d /\ dd_tmpOutSize d <= mb;
  I_fl : lnk = true -> fl = true -> dd_dict d = PTmp 0 -> dd_dictSize d = dd_tmpOut d + dd_tmpOutStart d }.

Ltac brk := repeat match goal with
  | |- context [if ?b then _ else _] => destruct b eqn:?
  end.
Ltac b2p := repeat match goal with
  | H : (_ =? _) = true |- _ => apply Z.eqb_eq in H
  | H : (_ =? _) = false |- _ => apply Z.eqb_neq in H
  | H : (_ <=? _) = true |- _ => apply Z.leb_le in H
  | H : (_ <=? _) = false |- _ => apply Z.leb_gt in H
  | H : (_ <? _) = true |- _ => apply Z.ltb_lt in H
  | H : (_ <? _) = false |- _ => apply Z.ltb_ge in H
  | H : andb _ _ = true |- _ => apply andb_prop in H; destruct H
  | H : negb _ = true |- _ => apply negb_true_iff in H
  | H : negb _ = false |- _ => apply negb_false_iff in H
  end.
Ltac kk := unfold FD_64KB, FD_128KB, FD_1GB in *.

Ltac red1 := cbn [dd_dict dd_dictSize dd_tmpOut dd_tmpOutSize dd_tmpOutStart dd_set_dict dd_set_tmpOut dd_set_tmpOutSS
                  andb negb padd peq fst snd app] in *.
Ltac brk1 := repeat (red1; match goal with |- context [if ?b then _ else _] => destruct b eqn:? end); red1.
Ltac fin := b2p; kk; try (exfalso; lia);
  repeat match goal with H : ?x = ?x -> _ |- _ => specialize (H eq_refl) end;
  repeat match goal with H : _ /\ _ |- _ => destruct H end; subst;
  repeat match goal with H : ?x = ?x -> _ |- _ => specialize (H eq_refl) end;
  try (exfalso; lia);
  repeat match goal with
  | |- _ /\ _ => split
  | |- Forall _ _ => constructor
  | |- ddI _ _ _ _ _ => constructor; red1
  | |- op_ok _ _ _ _ => cbn [op_ok in_tmp in_win no_overlap]
  | |- _ <> _ => discriminate
  | |- _ -> _ => intro
  end; red1; cbn [in_tmp in_win no_overlap]; try discriminate; try tauto; try lia.

Lemma zlen_nn (l : list byte) : 0 <= zlen l.
Proof. unfold zlen. lia. Qed.

Lemma ddI_weaken mb maxBuf lnk fl d : ddI mb maxBuf lnk fl d -> ddI mb maxBuf lnk false d.
Proof. intros [S1 S2 S3 S4 S5]. constructor; auto. discriminate. Qed.

Definition sizes (mb maxBuf : Z) (lnk : bool) : Prop :=
  FD_64KB <= mb /\ mb + (if lnk then FD_128KB else 0) <= maxBuf.

(* LZ4F_updateDict called from copyDirect / the direct decode (withinTmp = 0) *)
Lemma updateDict_direct_ok mb maxBuf d dstPtr dstSize dstStart hi :
  sizes mb maxBuf true ->
  ddI mb maxBuf true false d -> dstStart <= dstPtr -> 0 <= dstSize -> dstPtr + dstSize <= hi ->
  Forall (op_ok maxBuf dstStart hi) (snd (updateDict maxBuf d dstPtr dstSize dstStart false)) /\
  ddI mb maxBuf true false (fst (updateDict maxBuf d dstPtr dstSize dstStart false)).
Proof.
  intros [Hmb Hbuf] [S1 S2 S3 S4 S5] H1 H2 H3. destruct d as [dict ds to tsz tst]. red1.
  unfold updateDict. destruct dict as [|o|a]; brk1; fin.
Qed.

(* dstage_copyDirect *)
Lemma dd_copyDirect_ok mb maxBuf lnk dstnull d dstPtr dstStart piece hi :
  sizes mb maxBuf lnk ->
  ddI mb maxBuf lnk false d -> dstStart <= dstPtr -> dstPtr + zlen piece <= hi ->
  Forall (op_ok maxBuf dstStart hi) (snd (dd_copyDirect maxBuf lnk dstnull d dstPtr dstStart piece)) /\
  ddI mb maxBuf lnk false (fst (dd_copyDirect maxBuf lnk dstnull d dstPtr dstStart piece)).
Proof.
  intros Hs I H1 H2. pose proof (zlen_nn piece). unfold dd_copyDirect.
  destruct dstnull; [cbn; split; [constructor|auto]|].
  destruct lnk eqn:L.
  - destruct (updateDict_direct_ok mb maxBuf d dstPtr (zlen piece) dstStart hi Hs I H1 H H2) as [A B].
    destruct (updateDict _ _ _ _ _ _) as [d' ops]. cbn [fst snd] in *. split; auto.
    constructor; auto. cbn. repeat split; try lia. discriminate.
  - cbn [fst snd]. split; auto. constructor; auto. cbn. repeat split; try lia. discriminate.
Qed.

(* dstage_flushOut *)
Lemma dd_flushOut_ok mb maxBuf lnk dstnull d dstPtr dstStart cap :
  sizes mb maxBuf lnk ->
  ddI mb maxBuf lnk true d -> dstStart <= dstPtr -> 0 <= cap ->
  Forall (op_ok maxBuf dstStart (dstPtr + cap)) (snd (dd_flushOut maxBuf lnk dstnull d dstPtr dstStart cap)) /\
  ddI mb maxBuf lnk true (fst (dd_flushOut maxBuf lnk dstnull d dstPtr dstStart cap)).
Proof.
  intros [Hmb Hbuf] [S1 S2 S3 S4 S5] H1 H2. destruct d as [dict ds to tsz tst]. red1.
  unfold dd_flushOut. destruct dstnull; [cbn; split; [constructor|constructor; auto]|].
  destruct lnk; [|destruct dict; red1; fin].
  unfold updateDict.
  destruct dict as [|o|a]; brk1; fin.
Qed.

Lemma dec_dict_ok mb maxBuf lnk fl d dp ds :
  ddI mb maxBuf lnk fl d -> dec_dict d = (dp, ds) -> 0 <= ds /\ in_tmp maxBuf dp ds /\ (dp = PNull -> ds = 0).
Proof.
  intros [S1 S2 S3 S4 S5] E. destruct d as [dict dsz to tsz tst]. red1. unfold dec_dict in E. red1.
  destruct dict as [|o|a]; red1; cbn [negb andb] in E.
  - injection E as <- <-. fin.
  - destruct (FD_1GB <? dsz) eqn:EE; injection E as <- <-; fin.
  - destruct (FD_1GB <? dsz) eqn:EE; injection E as <- <-; fin.
Qed.

(* "manage dictionary" before decoding into tmpOut: afterwards tmpOut sits right behind a dictionary held in tmpOutBuffer *)
Lemma dd_place_ok mb maxBuf lnk d lo hi :
  sizes mb maxBuf lnk -> ddI mb maxBuf lnk false d ->
  Forall (op_ok maxBuf lo hi) (snd (dd_place_tmpOut lnk d)) /\
  ddI mb maxBuf lnk false (fst (dd_place_tmpOut lnk d)) /\
  (lnk = true -> dd_dict (fst (dd_place_tmpOut lnk d)) = PTmp 0 ->
   dd_dictSize (fst (dd_place_tmpOut lnk d)) = dd_tmpOut (fst (dd_place_tmpOut lnk d))).
Proof.
  intros [Hmb Hbuf] [S1 S2 S3 S4 S5]. destruct d as [dict ds to tsz tst]. red1.
  unfold dd_place_tmpOut. destruct lnk; [|red1; fin].
  destruct dict as [|o|a]; brk1; fin.
Qed.

(* a block decoded to [c]: straight into dst, or into tmpOut and then flushed *)
Lemma dd_cblock_ok mb maxBuf lnk dstnull d dstPtr dstStart cap c :
  sizes mb maxBuf lnk ->
  ddI mb maxBuf lnk false d -> dstStart <= dstPtr -> 0 <= cap -> zlen c <= mb ->
  Forall (op_ok maxBuf dstStart (dstPtr + cap)) (snd (dd_cblock mb maxBuf lnk dstnull d dstPtr dstStart cap c)) /\
  ddI mb maxBuf lnk (negb (decode_direct mb d cap)) (fst (dd_cblock mb maxBuf lnk dstnull d dstPtr dstStart cap c)).
Proof.
  intros Hs I H1 H2 H3. pose proof (zlen_nn c) as Hc. unfold dd_cblock.
  destruct (decode_direct mb d cap) eqn:DD; cbn [negb].
  - unfold decode_direct in DD. apply andb_prop in DD. destruct DD as [D1 D2]. apply Z.leb_le in D1.
    destruct (dec_dict d) as [dp ds] eqn:E.
    destruct (dec_dict_ok _ _ _ _ _ _ _ I E) as (O1 & O2 & O3).
    assert (OP : op_ok maxBuf dstStart (dstPtr + cap) (MDecode (PAbs dstPtr) mb dp ds c)).
    { cbn. repeat split; auto; try lia. discriminate. }
    destruct lnk eqn:L.
    + assert (H4 : dstPtr + zlen c <= dstPtr + cap) by lia.
      destruct (updateDict_direct_ok mb maxBuf d dstPtr (zlen c) dstStart _ Hs I H1 Hc H4) as [A B].
      destruct (updateDict _ _ _ _ _ _) as [d' ops]. cbn [fst snd] in *. split; [constructor; auto|auto].
    + cbn [fst snd]. split; [constructor; auto|auto].
  - destruct (dd_place_ok mb maxBuf lnk d dstStart (dstPtr + cap) Hs I) as (P1 & P2 & P3).
    destruct (dd_place_tmpOut lnk d) as [d1 ops0]. cbn [fst snd] in *.
    destruct (dec_dict d1) as [dp ds] eqn:E.
    destruct (dec_dict_ok _ _ _ _ _ _ _ P2 E) as (O1 & O2 & O3).
    assert (I2 : ddI mb maxBuf lnk true (dd_set_tmpOutSS d1 (zlen c) 0)).
    { destruct P2 as [S1 S2 S3 S4 S5]. constructor; destruct d1; red1; auto; try lia.
      intros L _ Ed. specialize (P3 L Ed). lia. }
    destruct (dd_flushOut_ok mb maxBuf lnk dstnull _ dstPtr dstStart cap Hs I2 H1 H2) as [F1 F2].
    assert (TO : dd_tmpOut (dd_set_tmpOutSS d1 (zlen c) 0) = dd_tmpOut d1) by (destruct d1; reflexivity).
    destruct (dd_flushOut _ _ _ _ _ _ _) as [d2 ops1]. cbn [fst snd] in *. split; auto.
    apply Forall_app. split; auto. constructor; auto.
    destruct P2 as [S1 S2 S3 S4 S5]. cbn. repeat split; auto; try lia. discriminate.
Qed.

(* "preserve history within tmpOut whenever necessary" at the end of a call *)
Lemma dd_endcall_ok mb maxBuf lnk stable stage fl d lo hi :
  sizes mb maxBuf lnk -> ddI mb maxBuf lnk fl d -> (fl = true <-> stage = FlushOut) ->
  Forall (op_ok maxBuf lo hi) (snd (dd_endcall lnk stable stage d)) /\
  ddI mb maxBuf lnk fl (fst (dd_endcall lnk stable stage d)).
Proof.
  intros [Hmb Hbuf] [S1 S2 S3 S4 S5] Hfl. destruct d as [dict ds to tsz tst]. red1.
  unfold dd_endcall. destruct lnk; [|cbn [andb]; red1; fin].
  destruct dict as [|o|a]; red1.
  - fin.
  - destruct S1 as [-> S1]. cbn. fin.
  - cbn [andb negb]. destruct stable; cbn [andb negb]; [fin|].
    destruct (_ && _) eqn:ST; [|fin].
    destruct stage; try (vm_compute in ST; discriminate ST); try (red1; fin; destruct Hfl as [Hf _]; destruct fl; [specialize (Hf eq_refl); discriminate|discriminate]).
    brk1; fin.
Qed.

(* dstage_init / LZ4F_resetDecompressionContext / LZ4F_decompress_usingDict re-establish the invariant for the new frame *)
Lemma dd_stage_init_ok mb maxBuf lnk d :
  0 <= mb <= maxBuf -> 0 <= dd_dictSize d ->
  match dd_dict d with PNull => dd_dictSize d = 0 | PTmp _ => False | PAbs _ => True end ->
  ddI mb maxBuf lnk false (dd_stage_init d).
Proof. intros H1 H2 H3. destruct d as [dict ds to tsz tst]. red1. destruct dict; [| tauto |]; constructor; cbn; auto; try lia; discriminate. Qed.

(* the executable check used by the oracle is the predicate of the theorems *)
Lemma op_okb_ok maxBuf lo hi op : op_okb maxBuf lo hi op = true -> op_ok maxBuf lo hi op.
Proof.
  destruct op as [dst src n|dst bs|dst cap dp ds bs]; cbn [op_okb op_ok]; intros H;
    repeat (apply andb_prop in H; destruct H as [H ?]).
  - destruct dst, src; cbn in *; b2p; repeat split; try discriminate; try lia;
      repeat match goal with H : orb _ _ = true |- _ => apply orb_prop in H; destruct H end; b2p; lia.
  - destruct dst; cbn in *; b2p; repeat split; try discriminate; try lia.
  - destruct dst, dp; cbn in *; b2p; repeat split; try discriminate; try lia; intros; try discriminate;
      repeat match goal with H : orb _ _ = true |- _ => apply orb_prop in H; destruct H end; b2p; try lia; discriminate.
Qed.

(* all the bookkeeping functions at once: each keeps the invariant and every memcpy / decoder call it
   performs stays inside tmpOutBuffer[0, maxBufferSize) resp. the dst window, source and destination of a
   memcpy inside tmpOutBuffer do not overlap.  (What is NOT proved here: that the stage machine of
   Model.FrameD calls them with arguments meeting the side conditions -- dstStart <= dstPtr, 0 <= cap,
   decodedSize <= maxBlockSize, maxBufferSize >= maxBlockSize + 128 KB for linked frames; the oracle
   evaluates [ops_okb] on every call of the correspondence runs instead.) *)
Theorem tmpOut_in_bounds_partial mb maxBuf lnk :
  sizes mb maxBuf lnk ->
  (forall dstnull d dstPtr dstStart piece hi,
     ddI mb maxBuf lnk false d -> dstStart <= dstPtr -> dstPtr + zlen piece <= hi ->
     Forall (op_ok maxBuf dstStart hi) (snd (dd_copyDirect maxBuf lnk dstnull d dstPtr dstStart piece)) /\
     ddI mb maxBuf lnk false (fst (dd_copyDirect maxBuf lnk dstnull d dstPtr dstStart piece))) /\
  (forall dstnull d dstPtr dstStart cap c,
     ddI mb maxBuf lnk false d -> dstStart <= dstPtr -> 0 <= cap -> zlen c <= mb ->
     Forall (op_ok maxBuf dstStart (dstPtr + cap)) (snd (dd_cblock mb maxBuf lnk dstnull d dstPtr dstStart cap c)) /\
     ddI mb maxBuf lnk (negb (decode_direct mb d cap)) (fst (dd_cblock mb maxBuf lnk dstnull d dstPtr dstStart cap c))) /\
  (forall dstnull d dstPtr dstStart cap,
     ddI mb maxBuf lnk true d -> dstStart <= dstPtr -> 0 <= cap ->
     Forall (op_ok maxBuf dstStart (dstPtr + cap)) (snd (dd_flushOut maxBuf lnk dstnull d dstPtr dstStart cap)) /\
     ddI mb maxBuf lnk true (fst (dd_flushOut maxBuf lnk dstnull d dstPtr dstStart cap))) /\
  (forall stable stage fl d lo hi,
     ddI mb maxBuf lnk fl d -> (fl = true <-> stage = FlushOut) ->
     Forall (op_ok maxBuf lo hi) (snd (dd_endcall lnk stable stage d)) /\
     ddI mb maxBuf lnk fl (fst (dd_endcall lnk stable stage d))).
Proof.
  intros Hs. split; [|split; [|split]]; intros.
  - apply (dd_copyDirect_ok mb); auto.
  - apply dd_cblock_ok; auto.
  - apply dd_flushOut_ok; auto.
  - eapply dd_endcall_ok; eauto.
Qed.

(* the invariant is satisfiable: the state right after dstage_init *)
Example ddI_example : sizes 65536 (65536 + 131072) true /\ ddI 65536 (65536 + 131072) true false (dd_stage_init dd_init).
Proof. split; [unfold sizes; kk; lia|]. apply dd_stage_init_ok; cbn; auto; lia. Qed.

(* ---- (b) what the bytes at dctx->dict are ------------------------------------------------- *)
(* memory = the tmpOutBuffer array + the caller's address space *)
Record mem := mkM { m_tmp : Z -> byte; m_abs : Z -> byte }.
Definition rd (m : mem) (p : ptr) (i : Z) : byte :=
  match p with PNull => 0 | PTmp o => m_tmp m (o + i) | PAbs a => m_abs m (a + i) end.
Definition wr_at (f : Z -> byte) (base n : Z) (g : Z -> byte) : Z -> byte :=
  fun a => if (base <=? a) && (a <? base + n) then g (a - base) else f a.
Definition store (m : mem) (p : ptr) (n : Z) (g : Z -> byte) : mem :=
  match p with
  | PNull => m
  | PTmp o => mkM (wr_at (m_tmp m) o n g) (m_abs m)
  | PAbs a => mkM (m_tmp m) (wr_at (m_abs m) a n g)
  end.
Definition exec_op (m : mem) (op : mop) : mem :=
  match op with
  | MCopy dst src n => store m dst n (fun i => rd m src i)
  | MWrite dst bs => store m dst (zlen bs) (fun i => nth (Z.to_nat i) bs 0)
  | MDecode dst _ _ _ bs => store m dst (zlen bs) (fun i => nth (Z.to_nat i) bs 0)
  end.
Definition exec_ops (m : mem) (ops : list mop) : mem := fold_left exec_op ops m.
Definition read (m : mem) (p : ptr) (n : Z) : list byte :=
  map (fun i => rd m p (Z.of_nat i)) (List.seq 0%nat (Z.to_nat n)).

(* the literal reading of "the dictSize bytes at dict are the last dictSize bytes of the history" *)
Definition dict_is_history (m : mem) (d : ddict) (hist : list byte) : Prop :=
  read m (dd_dict d) (dd_dictSize d) = lastn (Z.to_nat (dd_dictSize d)) hist.
(* what the decoder needs (match offsets are < 64 KB): the last min(dictSize, 64 KB) bytes *)
Definition dict_tail_is_history (m : mem) (d : ddict) (hist : list byte) : Prop :=
  let k := Z.min (dd_dictSize d) FD_64KB in
  Z.min FD_64KB (zlen hist) <= dd_dictSize d /\
  read m (padd (dd_dict d) (dd_dictSize d - k)) k = lastn (Z.to_nat k) hist.

Lemma read_nth0 m p n : 0 < n -> nth 0 (read m p n) 0 = rd m p 0.
Proof.
  intros H. unfold read. destruct (Z.to_nat n) eqn:E; [lia|]. cbn [List.seq map nth]. reflexivity.
Qed.

(* A legal call sequence (one call) after which the literal statement is false: a linked frame, bsid 4, whose
   first block is stored (61440 bytes 0x07) and whose second block decodes to 10241 bytes; dst capacity 61441.
   The second block goes through tmpOut (= tmpOutBuffer + 61440); one byte is flushed; at the end of the call
   "preserve history" (2092-2103) copies only copySize = 64 KB - tmpOutSize = 55295 bytes in front of tmpOut
   but sets dict = tmpOutBuffer, dictSize = 61441: tmpOutBuffer[0, 6145) was never written. *)
Definition wit_blk2 : list byte := [31; 97; 1; 0] ++ repeat 255 40 ++ [16; 80; 98; 98; 98; 98; 98].
Definition wit_frame : list byte :=
  header_bytes (mkDesc false false None false None 4)
  ++ le_bytes 4 (61440 + 2147483648) ++ repeat 7 (Z.to_nat 61440)
  ++ le_bytes 4 (zlen wit_blk2) ++ wit_blk2.
Definition wit_run := dd_decompress spec_decode_fast dctx_init dd_init wit_frame 61441 (mkO false false false) 1000000.
Definition wit_s := fst (fst (fst wit_run)).
Definition wit_r := snd (fst (fst wit_run)).
Definition wit_d := snd (fst wit_run).
Definition wit_ops := snd wit_run.

Lemma wit_facts :
  linked wit_s = true /\ d_stage wit_s = FlushOut /\ r_ret wit_r = 4 /\ r_produced wit_r = 61441 /\
  wit_d = mkDD (PTmp 0) 61441 61440 10241 1 /\
  nth 0 (lastn (Z.to_nat 61441) (r_out wit_r)) 0 = 7 /\
  ops_okb (d_maxBuf wit_s) 1000000 (1000000 + 61441) wit_ops = true.
Proof. vm_compute. repeat split; reflexivity. Qed.
Lemma wit_tmp0 m0 : rd (exec_ops m0 wit_ops) (PTmp 0) 0 = m_tmp m0 0.
Proof. vm_compute. reflexivity. Qed.

Lemma wit_refutes :
  linked wit_s = true /\ 0 <= r_ret wit_r /\ o_stableDst (mkO false false false) = false /\
  forall m0, m_tmp m0 0 <> 7 -> ~ dict_is_history (exec_ops m0 wit_ops) wit_d (r_out wit_r).
Proof.
  destruct wit_facts as (F1 & F2 & F3 & F4 & F5 & F6 & F7).
  split; [exact F1|]. split; [rewrite F3; lia|]. split; [reflexivity|].
  intros m0 Hm0 Hd. unfold dict_is_history in Hd. rewrite F5 in Hd. cbn [dd_dict dd_dictSize] in Hd.
  apply (f_equal (fun l => nth 0 l 0)) in Hd. cbv beta in Hd. rewrite read_nth0 in Hd by lia.
  rewrite wit_tmp0 in Hd. apply Hm0. rewrite Hd. exact F6.
Qed.

(* the refutation, stated on the named witness call [wit_run] (= one LZ4F_decompress call on a fresh context,
   legal by the API: stableDst = 0, capacity 61441, the whole frame as input) *)
Theorem dict_is_history_refuted :
  linked wit_s = true /\ 0 <= r_ret wit_r /\
  forall m0, m_tmp m0 0 <> 7 ->       (* tmpOutBuffer comes from malloc: its initial content is arbitrary *)
    ~ dict_is_history (exec_ops m0 wit_ops) wit_d (r_out wit_r).
Proof. destruct wit_refutes as (A & B & _ & C). auto. Qed.

(* ---- the statements for whole sessions (NOT proved; [tmpOut_in_bounds_partial] is the function-level part,
   the oracle evaluates [ops_okb] on every call of the correspondence runs) ------------------------------ *)
Record ddcall := mkDC { dc_src : list byte; dc_cap : Z; dc_o : dopts; dc_dst : Z;
                        dc_dict : option (list byte * Z) (* LZ4F_decompress_usingDict: bytes, address *) }.
(* the calls of a session on one context, until the first error; per call: state after, the call, its operations *)
Fixpoint dd_session (bdec : list byte -> list byte -> option (list byte)) (s : dstate) (d : ddict) (cs : list ddcall)
  : list (dstate * ddcall * list mop) :=
  match cs with
  | [] => []
  | c :: cs' =>
    let '(s', r, d', ops) :=
      match dc_dict c with
      | None => dd_decompress bdec s d (dc_src c) (dc_cap c) (dc_o c) (dc_dst c)
      | Some (dict, a) => dd_decompress_usingDict bdec s d (dc_src c) (dc_cap c) dict a (dc_o c) (dc_dst c)
      end in
    (s', c, ops) :: (if r_ret r <? 0 then [] else dd_session bdec s' d' cs')
  end.
Definition tmpOut_in_bounds_full_statement : Prop :=
  forall bdec cs, Forall (fun c => 0 <= dc_cap c) cs ->
    Forall (fun x => let '(s', c, ops) := x in
                     Forall (op_ok (d_maxBuf s') (dc_dst c) (dc_dst c + dc_cap c)) ops)
           (dd_session bdec dctx_init dd_init cs).
(* the abstract half of the concrete call is Model.FrameD's call: the bookkeeping rides along *)
Lemma dd_run_abstract bdec o dst : forall fuel l d ops,
  fst (fst (fst (dd_run bdec fuel o dst l d ops))) = fst (run bdec fuel o l) /\
  snd (fst (fst (dd_run bdec fuel o dst l d ops))) = snd (run bdec fuel o l).
Proof.
  induction fuel as [|f IH]; intros l d ops; cbn [dd_run run]; [auto|].
  destruct (iter bdec o l) as [l' oc]. destruct (dd_step o dst l l' oc d) as [d' ops'].
  destruct oc; cbn [fst snd]; auto.
Qed.
Theorem dd_decompress_abstract bdec s d src cap o dst :
  fst (fst (dd_decompress bdec s d src cap o dst)) = decompress bdec s src cap o.
Proof.
  unfold dd_decompress, decompress.
  pose proof (dd_run_abstract bdec o dst (call_fuel src) (mkL (set_skip s (d_skip s || o_skip o)) src 0 [] cap) d []) as [A B].
  destruct (dd_run _ _ _ _ _ _ _) as [[[l f] d1] ops1]. cbn [fst snd] in A, B.
  destruct (run _ _ _ _) as [l2 f2]. cbn [fst snd] in A, B. subst l2 f2.
  destruct f; [destruct (dd_endcall _ _ _ _) as [d2 ops2]|..]; reflexivity.
Qed.

(* ---- the true form of (b), stated, NOT proved ---------------------------------------------------------
   What a decoder call needs from (dict, dictSize): match offsets are < 64 KB, so only the last
   min(dictSize, 64 KB) bytes matter; they must be the end of the history, and dictSize must not be shorter
   than min(64 KB, |history|).  The history is the concatenation of what the earlier operations of the frame
   stored or decoded. *)
Definition decode_sees_history (m : mem) (dp : ptr) (ds : Z) (hist : list byte) : Prop :=
  let k := Z.min ds FD_64KB in
  Z.min FD_64KB (zlen hist) <= ds /\ read m (padd dp (ds - k)) k = lastn (Z.to_nat k) hist.
Definition op_payload (op : mop) : list byte :=
  match op with MWrite _ bs => bs | MDecode _ _ _ _ bs => bs | MCopy _ _ _ => [] end.
Fixpoint decodes_ok (m : mem) (hist : list byte) (ops : list mop) : Prop :=
  match ops with
  | [] => True
  | op :: r =>
    match op with MDecode _ _ dp ds _ => decode_sees_history m dp ds hist | _ => True end /\
    decodes_ok (exec_op m op) (hist ++ op_payload op) r
  end.
(* across the calls of a session that decodes one frame: without stableDst the caller may overwrite all of its
   memory between two calls *)
Fixpoint session_decodes_ok (m : mem) (hist : list byte) (xs : list (dstate * ddcall * list mop)) : Prop :=
  match xs with
  | [] => True
  | x :: r =>
    let ops := snd x in
    decodes_ok m hist ops /\
    forall abs', session_decodes_ok (mkM (m_tmp (exec_ops m ops)) abs') (hist ++ concat (map op_payload ops)) r
  end.
Definition dict_is_history_full_statement : Prop :=
  forall bdec cs m0,
    Forall (fun c => 0 <= dc_cap c /\ dc_dict c = None /\ o_stableDst (dc_o c) = false /\
                     (o_dstnull (dc_o c) = true -> dc_cap c = 0)) cs ->
    (* one linked frame: no call of the session ends back at dstage_getFrameHeader except the last one *)
    (forall x, In x (removelast (dd_session bdec dctx_init dd_init cs)) ->
               d_stage (fst (fst x)) <> GetFrameHeader /\ linked (fst (fst x)) = true) ->
    session_decodes_ok m0 [] (dd_session bdec dctx_init dd_init cs).
