(* Soundness of the building blocks of the HC hash-chain parser model (Model.HcChain): what has been written
   so far is the specification's encoding of a factorisation of the input up to the anchor ([out_ok], shared
   with the LZ4MID proof), and
     - c_encode (LZ4HC_encodeSequence + `goto _dest_overflow`) appends one verified sequence,
     - c_dest_overflow / c_last_literals produce a block that the specification decodes to the consumed input
       (strictly valid in the non-fill modes).
   The walk through main loop / _Search2 / _Search3 is in Proofs.HcChainParser. *)
From Coq Require Import ZArith List Lia Bool ZifyBool.
From LZ4V Require Import Gen.Consts Spec.BlockSpec Model.Mem Model.Fast Model.HcEmit Model.HcMid Model.HcChain.
From LZ4V Require Import Proofs.BlockSpecProofs Proofs.FactorSpec Proofs.FastBasics Proofs.FastCap Proofs.HcEmitProofs.
From LZ4V Require Import Proofs.HcMidSound Proofs.HcChainSearch.
Import ListNotations.
Local Open Scope Z_scope.

Section ChainSound.
  Variable vrd : Z -> Z.
  Variable lim : outdir.
  Variables prefixIdx dictIdx s0 srcSize : Z.
  Hypothesis Hb : forall a, 0 <= vrd a < 256.
  Hypothesis Hidx : 65536 <= dictIdx /\ dictIdx <= prefixIdx /\ prefixIdx <= s0 /\ s0 + srcSize < M32 - 65536.
  Hypothesis Hsz : 0 <= srcSize.

  Notation iend := (hc_iend s0 srcSize).
  Notation mflimit := (hc_mflimit s0 srcSize).
  Notation matchlimit := (hc_matchlimit s0 srcSize).
  Notation lo := dictIdx.
  Notation out_ok := (out_ok vrd s0 srcSize dictIdx).

  Lemma climits : mflimit = iend - 12 /\ matchlimit = iend - 5 /\ iend = s0 + srcSize.
  Proof. unfold hc_mflimit, hc_matchlimit, hc_iend, MFLIMIT, LASTLITERALS. lia. Qed.

  Definition RSpec (r : cres) : Prop :=
    match r with
    | COk ret consumed out t hw =>
      0 <= consumed <= srcSize /\ (lim <> FillOutput -> consumed = srcSize) /\
      spec_decode (seg vrd lo s0) out = Some (seg vrd s0 (s0 + consumed)) /\
      (lim <> FillOutput -> strict_valid (seg vrd lo s0) out = Some (seg vrd s0 (s0 + consumed))) /\
      ret = Z.of_nat (length out) /\ TB t iend /\ bytes_ok out = true
    | _ => True
    end.

  (* what every control point knows about the output side *)
  Definition Base (s : cst) : Prop :=
    s0 <= c_anchor s /\ c_anchor s <= c_ip s /\ c_ip s <= iend /\
    out_ok (c_rout s) (c_anchor s) /\ c_op s = Z.of_nat (length (c_rout s)).

  (* ---- _last_literals ---- *)
  Lemma c_last_literals_sound s oend :
    out_ok (c_rout s) (c_anchor s) -> s0 <= c_anchor s <= iend ->
    c_op s = Z.of_nat (length (c_rout s)) -> TB (c_tabs s) iend ->
    RSpec (c_last_literals vrd lim s0 srcSize s oend).
  Proof.
    intros (ss & Hr & Hv & He & Hend) Ha Hop HT. pose proof climits as (L1 & L2 & L3).
    unfold c_last_literals. cbv zeta.
    set (lastRun := iend - c_anchor s).
    assert (Emit : forall lr, 0 <= lr <= lastRun -> (lim <> FillOutput -> lr = lastRun) ->
      RSpec (let hdr := if lr >=? RUN_MASK then RUN_MASK * 16 :: lit_ext (Z.to_nat lr) (lr - RUN_MASK) else [lr * 16] in
             let bytes := hdr ++ src_bytes vrd (Z.to_nat lr) (c_anchor s) in
             let op' := c_op s + Z.of_nat (length bytes) in
             COk op' (c_anchor s + lr - s0) (rev_append (c_rout s) bytes) (c_tabs s) (Z.max (c_hw s) op'))).
    { intros lr Hlr Hfull. cbv zeta. cbn [RSpec].
      set (last := seg vrd (c_anchor s) (c_anchor s + lr)).
      assert (Hlen : Z.of_nat (length last) = lr) by (subst last; rewrite seg_length; lia).
      assert (Henc : (if lr >=? RUN_MASK then RUN_MASK * 16 :: lit_ext (Z.to_nat lr) (lr - RUN_MASK) else [lr * 16])
                     ++ src_bytes vrd (Z.to_nat lr) (c_anchor s) = encode_last last).
      { unfold encode_last. cbv zeta. unfold byte in *. rewrite Hlen. rewrite src_bytes_seg by lia. fold last.
        unfold enc_nib, enc_ext, RUN_MASK.
        destruct (lr >=? 15) eqn:E; destruct (lr <? 15) eqn:E'; try lia.
        - rewrite lit_ext_spec; [reflexivity | lia |]. left. Z.div_mod_to_equations. lia.
        - reflexivity. }
      rewrite Henc.
      split; [subst lastRun; lia|]. split; [intros Hn; specialize (Hfull Hn); subst lastRun; lia|].
      assert (Hout : rev_append (c_rout s) (encode_last last) = encode_block ss last).
      { rewrite rev_append_rev, Hr. reflexivity. }
      replace (s0 + (c_anchor s + lr - s0)) with (c_anchor s + lr) by lia.
      split; [|split; [|split; [|split; [exact HT|]]]].
      - rewrite Hout. apply factor_block_decodes; try assumption; try lia.
        subst last. rewrite He. reflexivity.
      - intros Hn. specialize (Hfull Hn). rewrite Hout.
        rewrite strict_valid_encode; [| eapply seqs_valid_wf; eauto | subst last; apply seg_bytes_ok; exact Hb].
        assert (Eo : end_ok ss last = true).
        { unfold end_ok. unfold end_inv in Hend. destruct (rev ss) as [|q r]; [reflexivity|].
          destruct Hend as [E1 E2]. unfold byte in *. rewrite Hlen. subst lastRun.
          unfold mi_matchlimit, mi_mflimit, mi_iend, MFLIMIT, LASTLITERALS in *. lia. }
        rewrite Eo. apply (factor_decodes vrd lo s0 (c_anchor s + lr) ss last); try assumption; try lia.
        subst last. rewrite He. reflexivity.
      - rewrite rev_append_rev, app_length, rev_length, Nat2Z.inj_add, Hop. rewrite <- Henc. reflexivity.
      - rewrite Hout. apply encode_block_bytes; [eapply seqs_valid_wf; eauto | subst last; apply seg_bytes_ok; exact Hb]. }
    destruct (hc_limited lim && (c_op s + (1 + (lastRun + 255 - RUN_MASK) / 255 + lastRun) >? oend)) eqn:E.
    - destruct lim eqn:El; try exact I.
      destruct (oend - c_op s <? 1) eqn:E1; [exact I|].
      apply Emit; [|intros Hn; congruence].
      cbn [hc_limited andb] in E. unfold RUN_MASK in *. subst lastRun.
      set (lr := iend - c_anchor s) in *. assert (0 <= lr) by (subst lr; lia). clearbody lr.
      assert (E' : c_op s + (1 + (lr + 255 - 15) / 255 + lr) > oend) by lia.
      assert (Hx : 0 <= oend - c_op s - 1) by lia.
      set (x := oend - c_op s - 1) in *.
      replace oend with (x + c_op s + 1) in E' by (subst x; lia). clearbody x. clear E E1.
      Z.div_mod_to_equations. lia.
    - apply Emit; [subst lastRun; lia | reflexivity].
  Qed.

  (* appending one verified sequence *)
  Lemma c_snoc rout anchor ip ml off op limit oend :
    out_ok rout anchor -> anchor <= ip -> match_ok vrd lo ip off ml -> ip <= mflimit -> ip + ml <= matchlimit ->
    let e := encodeSequence vrd ip anchor op ml off limit oend in
    e_ret e = 0 -> op = Z.of_nat (length rout) ->
    out_ok (rev_append (e_bytes e) rout) (ip + ml) /\ e_op e = Z.of_nat (length (rev_append (e_bytes e) rout)).
  Proof.
    intros Ho Ha Hm Hi Hl e Hret Hop.
    split; [apply (out_ok_snoc vrd s0 srcSize dictIdx rout anchor ip ml off op limit oend Ho Ha Hm Hi Hl Hret)|].
    destruct Hm as (M1 & M2 & _).
    pose proof (encodeSequence_encoding vrd ip anchor op ml off limit oend Ha ltac:(unfold MINMATCH; lia) ltac:(lia)) as HE.
    cbv zeta in HE. specialize (HE Hret). destruct HE as (_ & HE). fold e in HE.
    rewrite HE, rev_append_rev, app_length, rev_length, Nat2Z.inj_add, Hop. lia.
  Qed.

  (* ---- _dest_overflow ---- *)
  Lemma c_dest_overflow_sound s ml off oend :
    out_ok (c_rout s) (c_anchor s) -> s0 <= c_anchor s <= c_ip s ->
    c_op s = Z.of_nat (length (c_rout s)) ->
    match_ok vrd lo (c_ip s) off ml -> c_ip s + ml <= matchlimit -> c_ip s <= mflimit ->
    TB (c_tabs s) iend ->
    RSpec (c_dest_overflow vrd lim s0 srcSize s ml off oend).
  Proof.
    intros Ho Ha Hop Hm Hml Hipm HT. pose proof climits as (L1 & L2 & L3).
    unfold c_dest_overflow. remember lim as l eqn:El. destruct l; try exact I. rewrite El. cbv zeta.
    assert (Hai : c_anchor s <= iend) by (destruct Hm as (_ & ? & _); lia).
    match goal with |- RSpec (c_last_literals _ _ _ _ ?st _) => set (s' := st) end.
    assert (Hs' : out_ok (c_rout s') (c_anchor s') /\ s0 <= c_anchor s' <= iend /\
                  c_op s' = Z.of_nat (length (c_rout s')) /\ c_tabs s' = c_tabs s).
    { subst s'.
      destruct (c_op s + (1 + (c_ip s - c_anchor s + 240) / 255 + (c_ip s - c_anchor s)) <=? oend - 3) eqn:E1;
        [|split; [assumption | split; [lia | split; [assumption | reflexivity]]]].
      set (mx := MINMATCH + (ML_MASK - 1) + (oend - 3 - (c_op s + (1 + (c_ip s - c_anchor s + 240) / 255 + (c_ip s - c_anchor s)))) * 255).
      set (ml' := if ml >? mx then mx else ml).
      destruct (oend + LASTLITERALS - (c_op s + (1 + (c_ip s - c_anchor s + 240) / 255 + (c_ip s - c_anchor s)) + 2) - 1 + ml' >=? MFLIMIT) eqn:E2;
        [|split; [assumption | split; [lia | split; [assumption | reflexivity]]]].
      assert (Hml' : 4 <= ml' <= ml).
      { destruct Hm as (_ & H4 & _). subst ml' mx. unfold MINMATCH, ML_MASK in *. destruct (ml >? _) eqn:E3; lia. }
      pose proof (match_ok_shorten vrd lo (c_ip s) off ml ml' Hm Hml') as Hm'.
      pose proof (encodeSequence_notlimited vrd (c_ip s) (c_anchor s) (c_op s) ml' off oend) as Hret.
      pose proof (c_snoc (c_rout s) (c_anchor s) (c_ip s) ml' off (c_op s) false oend Ho ltac:(lia) Hm' Hipm ltac:(lia)) as Hsn.
      cbv zeta in Hsn. specialize (Hsn Hret Hop). destruct Hsn as (S1 & S2).
      cbn [c_rout c_anchor c_op c_tabs].
      split; [exact S1|]. split; [lia|]. split; [exact S2 | reflexivity]. }
    destruct Hs' as (A1 & A2 & A3 & A4).
    apply c_last_literals_sound; try assumption. rewrite A4. exact HT.
  Qed.

  (* ---- one sequence: LZ4HC_encodeSequence, or the overflow epilogue ---- *)
  Lemma c_encode_sound s ml off oend :
    Base s -> c_ip s <= mflimit -> match_ok vrd lo (c_ip s) off ml -> c_ip s + ml <= matchlimit ->
    TB (c_tabs s) iend ->
    match c_encode vrd lim s0 srcSize s ml off oend with
    | inl s' => Base s' /\ c_ip s' = c_ip s + ml /\ c_anchor s' = c_ip s + ml /\ c_tabs s' = c_tabs s
    | inr r => RSpec r
    end.
  Proof.
    intros (B1 & B2 & B3 & B4 & B5) Hip Hm Hml HT. pose proof climits as (L1 & L2 & L3).
    unfold c_encode. cbv zeta.
    set (e := encodeSequence vrd (c_ip s) (c_anchor s) (c_op s) ml off (hc_limited lim) oend).
    destruct (e_ret e =? 0) eqn:Er.
    - assert (Hret : e_ret e = 0) by lia.
      pose proof (c_snoc (c_rout s) (c_anchor s) (c_ip s) ml off (c_op s) (hc_limited lim) oend B4 B2 Hm Hip Hml) as Hsn.
      cbv zeta in Hsn. fold e in Hsn. specialize (Hsn Hret B5). destruct Hsn as (S1 & S2).
      destruct Hm as (_ & M4 & _).
      unfold Base. cbn [c_ip c_anchor c_op c_rout c_tabs].
      split; [|split; [reflexivity | split; reflexivity]].
      split; [lia|]. split; [lia|]. split; [lia|]. split; [exact S1 | exact S2].
    - apply c_dest_overflow_sound; cbn [c_ip c_anchor c_op c_rout c_tabs]; try assumption; lia.
  Qed.

  Lemma Base_with_ip s x : Base s -> c_anchor s <= x <= iend -> Base (with_ip s x).
  Proof.
    intros (B1 & B2 & B3 & B4 & B5) Hx. unfold Base, with_ip. cbn [c_ip c_anchor c_op c_rout].
    split; [exact B1|]. split; [lia|]. split; [lia|]. split; [exact B4 | exact B5].
  Qed.

  Lemma Base_with_tabs s t : Base s -> Base (with_tabs s t).
  Proof. intros H. exact H. Qed.
End ChainSound.
