(* C08: the whole-session lift of the bounds of the dictionary / tmpOut bookkeeping (Model.FrameDDict):
   every memory operation of every call of an API-conforming session is [op_ok]. *)
From Coq Require Import ZArith List Lia Bool.
From LZ4V Require Import Spec.BlockSpec Spec.XXH32 Spec.FrameSpec Gen.Consts Model.FrameD Model.FrameDDict.
From LZ4V Require Import Proofs.FrameDProofs Proofs.FrameDDictProofs.
Import ListNotations.
Local Open Scope Z_scope.

(* the stages between dstage_init and the end of the frame *)
Definition bst (st : dstage) : bool :=
  match st with
  | GetBlockHeader | StoreBlockHeader | CopyDirect | GetBlockChecksum | GetCBlock | StoreCBlock | FlushOut
  | GetSuffix | StoreSuffix => true
  | _ => false
  end.
Definition is_fl (st : dstage) : bool := match st with FlushOut => true | _ => false end.
Definition is_cb (st : dstage) : bool := match st with GetCBlock | StoreCBlock | FlushOut => true | _ => false end.

(* what a block stage leaves alone *)
Definition keeps (s s' : dstate) : Prop :=
  d_fi s' = d_fi s /\ d_maxBlock s' = d_maxBlock s /\ d_maxBuf s' = d_maxBuf s /\
  (bst (d_stage s') = true \/ d_stage s' = GetFrameHeader) /\
  (d_stage s' = FlushOut -> is_cb (d_stage s) = true).

Lemma core_fi s s' : core_eq s s' -> d_fi s' = d_fi s. Proof. unfold core_eq. tauto. Qed.
Lemma core_stage s s' : core_eq s s' -> d_stage s' = d_stage s. Proof. unfold core_eq. tauto. Qed.
Lemma core_mb s s' : core_eq s s' -> d_maxBlock s' = d_maxBlock s. Proof. unfold core_eq. tauto. Qed.
Lemma core_buf s s' : core_eq s s' -> d_maxBuf s' = d_maxBuf s. Proof. unfold core_eq. tauto. Qed.
Lemma core_tmpOut s s' : core_eq s s' -> d_tmpOut s' = d_tmpOut s. Proof. unfold core_eq. tauto. Qed.
Lemma ul_fi s p : d_fi (upd_link s p) = d_fi s. Proof. apply core_fi, upd_link_core. Qed.
Lemma ul_stage s p : d_stage (upd_link s p) = d_stage s. Proof. apply core_stage, upd_link_core. Qed.
Lemma ul_mb s p : d_maxBlock (upd_link s p) = d_maxBlock s. Proof. apply core_mb, upd_link_core. Qed.
Lemma ul_buf s p : d_maxBuf (upd_link s p) = d_maxBuf s. Proof. apply core_buf, upd_link_core. Qed.
Lemma ul_tmpOut s p : d_tmpOut (upd_link s p) = d_tmpOut s. Proof. apply core_tmpOut, upd_link_core. Qed.
Lemma ud_fi s p : d_fi (upd_decoded s p) = d_fi s. Proof. apply core_fi, upd_decoded_core. Qed.
Lemma ud_stage s p : d_stage (upd_decoded s p) = d_stage s. Proof. apply core_stage, upd_decoded_core. Qed.
Lemma ud_mb s p : d_maxBlock (upd_decoded s p) = d_maxBlock s. Proof. apply core_mb, upd_decoded_core. Qed.
Lemma ud_buf s p : d_maxBuf (upd_decoded s p) = d_maxBuf s. Proof. apply core_buf, upd_decoded_core. Qed.
Lemma uc_fi s p n : d_fi (upd_copy s p n) = d_fi s. Proof. apply core_fi, upd_copy_core. Qed.
Lemma uc_stage s p n : d_stage (upd_copy s p n) = d_stage s. Proof. apply core_stage, upd_copy_core. Qed.
Lemma uc_mb s p n : d_maxBlock (upd_copy s p n) = d_maxBlock s. Proof. apply core_mb, upd_copy_core. Qed.
Lemma uc_buf s p n : d_maxBuf (upd_copy s p n) = d_maxBuf s. Proof. apply core_buf, upd_copy_core. Qed.
Global Hint Rewrite ul_fi ul_stage ul_mb ul_buf ul_tmpOut ud_fi ud_stage ud_mb ud_buf uc_fi uc_stage uc_mb uc_buf : upd.

Ltac kp Hst := unfold keeps; ss; autorewrite with upd; ss; autorewrite with upd; ss; rewrite ?Hst; cbn [bst is_cb];
  repeat split; auto; try discriminate.

Section Sess.
Variable bdec : list byte -> list byte -> option (list byte).

Lemma k_gbh l : d_stage (l_s l) = GetBlockHeader -> keeps (l_s l) (l_s (fst (do_getBlockHeader l))).
Proof. intros Hst. unfold do_getBlockHeader, do_storeBlockHeader, do_blockHeader. brute; kp Hst. Qed.
Lemma k_sbh l : d_stage (l_s l) = StoreBlockHeader -> keeps (l_s l) (l_s (fst (do_storeBlockHeader l))).
Proof. intros Hst. unfold do_storeBlockHeader, do_blockHeader. brute; kp Hst. Qed.
Lemma k_cd o l : d_stage (l_s l) = CopyDirect -> keeps (l_s l) (l_s (fst (do_copyDirect o l))).
Proof. intros Hst. unfold do_copyDirect. destruct (o_dstnull o); cbv iota beta; brute; kp Hst. Qed.
Lemma k_gbc l : d_stage (l_s l) = GetBlockChecksum -> keeps (l_s l) (l_s (fst (do_getBlockChecksum l))).
Proof. intros Hst. unfold do_getBlockChecksum, do_blockChecksum_check. brute; kp Hst. Qed.
Lemma k_fo o l : bst (d_stage (l_s l)) = true -> is_cb (d_stage (l_s l)) = true -> keeps (l_s l) (l_s (fst (do_flushOut o l))).
Proof. intros Hb Hst. unfold do_flushOut. brute; unfold keeps; ss; autorewrite with upd; ss; cbn [bst]; repeat split; auto. Qed.
Lemma k_cblock o l sel : is_cb (d_stage (l_s l)) = true -> keeps (l_s l) (l_s (fst (do_cblock bdec o l sel))).
Proof.
  intros Hst. assert (Hb : bst (d_stage (l_s l)) = true) by (destruct (d_stage (l_s l)); try discriminate; reflexivity).
  unfold do_cblock.
  destruct (fi_bcFlag (d_fi (l_s l)) =? 0).
  - destruct (negb true); [unfold keeps; ss; repeat split; auto|].
    match goal with |- context [match ?d with Some c => _ | None => _ end] => destruct d as [c|] end;
      [|unfold keeps; ss; repeat split; auto].
    destruct (_ <=? _); [unfold keeps; ss; autorewrite with upd; ss; autorewrite with upd; ss; cbn [bst]; repeat split; auto; discriminate|].
    match goal with |- keeps _ (l_s (fst (do_flushOut o ?l1))) => pose proof (k_fo o l1 eq_refl eq_refl) as K end.
    unfold keeps in *; ss. autorewrite with upd in K. ss. autorewrite with upd in K. ss. destruct K as (K1 & K2 & K3 & K4 & _); repeat split; auto.
  - match goal with |- context [negb ?b] => destruct (negb b) end; [unfold keeps; ss; repeat split; auto|].
    match goal with |- context [match ?d with Some c => _ | None => _ end] => destruct d as [c|] end;
      [|unfold keeps; ss; repeat split; auto].
    destruct (_ <=? _); [unfold keeps; ss; autorewrite with upd; ss; autorewrite with upd; ss; cbn [bst]; repeat split; auto; discriminate|].
    match goal with |- keeps _ (l_s (fst (do_flushOut o ?l1))) => pose proof (k_fo o l1 eq_refl eq_refl) as K end.
    unfold keeps in *; ss. autorewrite with upd in K. ss. autorewrite with upd in K. ss. destruct K as (K1 & K2 & K3 & K4 & _); repeat split; auto.
Qed.
Lemma k_gs l : d_stage (l_s l) = GetSuffix -> keeps (l_s l) (l_s (fst (do_getSuffix l))).
Proof. intros Hst. unfold do_getSuffix, do_storeSuffix, do_checkSuffix. brute; kp Hst. Qed.
Lemma k_ss l : d_stage (l_s l) = StoreSuffix -> keeps (l_s l) (l_s (fst (do_storeSuffix l))).
Proof. intros Hst. unfold do_storeSuffix, do_checkSuffix. brute; kp Hst. Qed.
Lemma k_gcb o l : d_stage (l_s l) = GetCBlock -> keeps (l_s l) (l_s (fst (do_getCBlock bdec o l))).
Proof.
  intros Hst. unfold do_getCBlock. destruct (_ <? _); [kp Hst|].
  apply (k_cblock o (adv l (d_tmpInTarget (l_s l)))). ss. rewrite Hst. reflexivity.
Qed.
Lemma k_scb o l : d_stage (l_s l) = StoreCBlock -> keeps (l_s l) (l_s (fst (do_storeCBlock bdec o l))).
Proof.
  intros Hst. unfold do_storeCBlock. destruct (_ <? _); [kp Hst|].
  match goal with |- keeps _ (l_s (fst (do_cblock _ _ ?l1 ?sel))) => pose proof (k_cblock o l1 sel) as K end.
  ss. rewrite Hst in K. specialize (K eq_refl). unfold keeps in *; ss. rewrite Hst in *. exact K.
Qed.

Lemma iter_keeps o l : bst (d_stage (l_s l)) = true -> keeps (l_s l) (l_s (fst (iter bdec o l))).
Proof.
  intros Hb. unfold iter. destruct (d_stage (l_s l)) eqn:Hst; try discriminate Hb.
  - apply k_gbh; auto. - apply k_sbh; auto. - apply k_cd; auto. - apply k_gbc; auto.
  - apply k_gcb; auto. - apply k_scb; auto. - apply k_fo; rewrite Hst; reflexivity.
  - apply k_gs; auto. - apply k_ss; auto.
Qed.
End Sess.
