(* C08: the whole-session lift of the bounds of the dictionary / tmpOut bookkeeping (Model.FrameDDict):
   every memory operation of every call of an API-conforming session is [op_ok]. *)
From Coq Require Import ZArith List Lia Bool.
From LZ4V Require Import Spec.BlockSpec Spec.XXH32 Spec.FrameSpec Gen.Consts Model.FrameD Model.FrameDDict.
From LZ4V Require Import Proofs.FrameDProofs Proofs.FrameDDictProofs.
Import ListNotations.
Local Open Scope Z_scope.

(* the stages between dstage_init and the end of the frame *)
Definition bst (st : dstage) : bool :=
  match st with
  | GetBlockHeader | StoreBlockHeader | CopyDirect | GetBlockChecksum | GetCBlock | StoreCBlock | FlushOut
  | GetSuffix | StoreSuffix => true
  | _ => false
  end.
Definition is_fl (st : dstage) : bool := match st with FlushOut => true | _ => false end.
Definition is_cb (st : dstage) : bool := match st with GetCBlock | StoreCBlock | FlushOut => true | _ => false end.

(* what a block stage leaves alone *)
Definition keeps (s s' : dstate) : Prop :=
  d_fi s' = d_fi s /\ d_maxBlock s' = d_maxBlock s /\ d_maxBuf s' = d_maxBuf s /\
  (bst (d_stage s') = true \/ d_stage s' = GetFrameHeader) /\
  (d_stage s' = FlushOut -> is_cb (d_stage s) = true).

Lemma core_fi s s' : core_eq s s' -> d_fi s' = d_fi s. Proof. unfold core_eq. tauto. Qed.
Lemma core_stage s s' : core_eq s s' -> d_stage s' = d_stage s. Proof. unfold core_eq. tauto. Qed.
Lemma core_mb s s' : core_eq s s' -> d_maxBlock s' = d_maxBlock s. Proof. unfold core_eq. tauto. Qed.
Lemma core_buf s s' : core_eq s s' -> d_maxBuf s' = d_maxBuf s. Proof. unfold core_eq. tauto. Qed.
Lemma core_tmpOut s s' : core_eq s s' -> d_tmpOut s' = d_tmpOut s. Proof. unfold core_eq. tauto. Qed.
Lemma ul_fi s p : d_fi (upd_link s p) = d_fi s. Proof. apply core_fi, upd_link_core. Qed.
Lemma ul_stage s p : d_stage (upd_link s p) = d_stage s. Proof. apply core_stage, upd_link_core. Qed.
Lemma ul_mb s p : d_maxBlock (upd_link s p) = d_maxBlock s. Proof. apply core_mb, upd_link_core. Qed.
Lemma ul_buf s p : d_maxBuf (upd_link s p) = d_maxBuf s. Proof. apply core_buf, upd_link_core. Qed.
Lemma ul_tmpOut s p : d_tmpOut (upd_link s p) = d_tmpOut s. Proof. apply core_tmpOut, upd_link_core. Qed.
Lemma ud_fi s p : d_fi (upd_decoded s p) = d_fi s. Proof. apply core_fi, upd_decoded_core. Qed.
Lemma ud_stage s p : d_stage (upd_decoded s p) = d_stage s. Proof. apply core_stage, upd_decoded_core. Qed.
Lemma ud_mb s p : d_maxBlock (upd_decoded s p) = d_maxBlock s. Proof. apply core_mb, upd_decoded_core. Qed.
Lemma ud_buf s p : d_maxBuf (upd_decoded s p) = d_maxBuf s. Proof. apply core_buf, upd_decoded_core. Qed.
Lemma uc_fi s p n : d_fi (upd_copy s p n) = d_fi s. Proof. apply core_fi, upd_copy_core. Qed.
Lemma uc_stage s p n : d_stage (upd_copy s p n) = d_stage s. Proof. apply core_stage, upd_copy_core. Qed.
Lemma uc_mb s p n : d_maxBlock (upd_copy s p n) = d_maxBlock s. Proof. apply core_mb, upd_copy_core. Qed.
Lemma uc_buf s p n : d_maxBuf (upd_copy s p n) = d_maxBuf s. Proof. apply core_buf, upd_copy_core. Qed.
Global Hint Rewrite ul_fi ul_stage ul_mb ul_buf ul_tmpOut ud_fi ud_stage ud_mb ud_buf uc_fi uc_stage uc_mb uc_buf : upd.

Ltac kp Hst := unfold keeps; ss; autorewrite with upd; ss; autorewrite with upd; ss; rewrite ?Hst; cbn [bst is_cb];
  repeat split; auto; try discriminate.

(* before dstage_init has run for the frame: no dictionary, or the caller's *)
Definition pre_frame (d : ddict) : Prop :=
  0 <= dd_dictSize d /\
  match dd_dict d with PNull => dd_dictSize d = 0 | PTmp _ => False | PAbs _ => True end.
(* the invariant tying the bookkeeping to the state of Model.FrameD *)
Definition J (s : dstate) (d : ddict) : Prop :=
  if bst (d_stage s)
  then sizes (d_maxBlock s) (d_maxBuf s) (linked s) /\
       ddI (d_maxBlock s) (d_maxBuf s) (linked s) (is_fl (d_stage s)) d
  else pre_frame d.

Lemma pre_frame_reset d : pre_frame (dd_reset d).
Proof. destruct d; unfold pre_frame; cbn. split; [lia|reflexivity]. Qed.

Lemma fin_ops s' (r : ddict * list mop) (P : mop -> Prop) :
  Forall P (snd r) ->
  Forall P (snd (match d_stage s' with GetFrameHeader => (dd_reset (fst r), snd r) | _ => r end)).
Proof. intros H. destruct (d_stage s'); exact H. Qed.
Lemma fin_J s s' (r : ddict * list mop) fl :
  keeps s s' -> sizes (d_maxBlock s) (d_maxBuf s) (linked s) ->
  ddI (d_maxBlock s) (d_maxBuf s) (linked s) fl (fst r) -> (d_stage s' = FlushOut -> fl = true) ->
  J s' (fst (match d_stage s' with GetFrameHeader => (dd_reset (fst r), snd r) | _ => r end)).
Proof.
  intros (K1 & K2 & K3 & K4 & K5) Sz I Hfl.
  assert (L : linked s' = linked s) by (unfold linked; rewrite K1; reflexivity).
  unfold J. rewrite L, K2, K3.
  destruct (d_stage s') eqn:E'; cbn [fst snd bst is_fl];
    try (destruct K4 as [K4|K4]; discriminate K4);
    try (split; [exact Sz|eapply ddI_weaken; exact I]).
  - apply pre_frame_reset.
  - split; [exact Sz|]. rewrite (Hfl eq_refl) in I. exact I.
Qed.

(* the shape of dd_step's case for the two block-decoding stages *)
Lemma sel_cases (oc : outcome) (st' : dstage) (a b : ddict * list mop) :
  ((match oc with Ret _ => False | _ => True end) /\ (st' = GetBlockHeader \/ st' = FlushOut) /\
   match oc, st' with Ret _, _ => b | _, GetBlockHeader | _, FlushOut => a | _, _ => b end = a)
  \/ (match oc, st' with Ret _, _ => b | _, GetBlockHeader | _, FlushOut => a | _, _ => b end = b /\
      (st' = FlushOut -> match oc with Ret _ => True | _ => False end)).
Proof. destruct oc, st'; cbn; auto 6; right; split; auto; discriminate. Qed.

Lemma op_ok_mono mb mb' lo hi op : mb <= mb' -> op_ok mb lo hi op -> op_ok mb' lo hi op.
Proof.
  intros H. destruct op as [dst src n|dst bs|dst cap dp ds bs]; cbn [op_ok].
  - intros (A1 & A2 & A3 & A4 & A5 & A6 & A7). repeat split; auto; [destruct dst|destruct src]; cbn in *; auto; lia.
  - intros (A1 & A2 & A3). repeat split; auto. destruct dst; cbn in *; auto; lia.
  - intros (A1 & A2 & A3 & A4 & A5 & A6 & A7). repeat split; auto; [destruct dst|destruct dp]; cbn in *; auto; lia.
Qed.
Lemma nb_fin s' d : bst (d_stage s') = false -> pre_frame d ->
  J s' (fst (match d_stage s' with GetFrameHeader => (dd_reset (fst (d, @nil mop)), snd (d, @nil mop)) | _ => (d, @nil mop) end)) /\
  snd (match d_stage s' with GetFrameHeader => (dd_reset (fst (d, @nil mop)), snd (d, @nil mop)) | _ => (d, @nil mop) end) = [].
Proof.
  intros Hb Hp. unfold J. rewrite Hb. destruct (d_stage s'); cbn [fst snd]; split; auto. apply pre_frame_reset.
Qed.

Section Sess.
Variable bdec : list byte -> list byte -> option (list byte).

Lemma k_gbh l : d_stage (l_s l) = GetBlockHeader -> keeps (l_s l) (l_s (fst (do_getBlockHeader l))).
Proof. intros Hst. unfold do_getBlockHeader, do_storeBlockHeader, do_blockHeader. brute; kp Hst. Qed.
Lemma k_sbh l : d_stage (l_s l) = StoreBlockHeader -> keeps (l_s l) (l_s (fst (do_storeBlockHeader l))).
Proof. intros Hst. unfold do_storeBlockHeader, do_blockHeader. brute; kp Hst. Qed.
Lemma k_cd o l : d_stage (l_s l) = CopyDirect -> keeps (l_s l) (l_s (fst (do_copyDirect o l))).
Proof. intros Hst. unfold do_copyDirect. destruct (o_dstnull o); cbv iota beta; brute; kp Hst. Qed.
Lemma k_gbc l : d_stage (l_s l) = GetBlockChecksum -> keeps (l_s l) (l_s (fst (do_getBlockChecksum l))).
Proof. intros Hst. unfold do_getBlockChecksum, do_blockChecksum_check. brute; kp Hst. Qed.
Lemma k_fo o l : bst (d_stage (l_s l)) = true -> is_cb (d_stage (l_s l)) = true -> keeps (l_s l) (l_s (fst (do_flushOut o l))).
Proof. intros Hb Hst. unfold do_flushOut. brute; unfold keeps; ss; autorewrite with upd; ss; cbn [bst]; repeat split; auto. Qed.
Lemma k_cblock o l sel : is_cb (d_stage (l_s l)) = true -> keeps (l_s l) (l_s (fst (do_cblock bdec o l sel))).
Proof.
  intros Hst. assert (Hb : bst (d_stage (l_s l)) = true) by (destruct (d_stage (l_s l)); try discriminate; reflexivity).
  unfold do_cblock.
  destruct (fi_bcFlag (d_fi (l_s l)) =? 0).
  - destruct (negb true); [unfold keeps; ss; repeat split; auto|].
    match goal with |- context [match ?d with Some c => _ | None => _ end] => destruct d as [c|] end;
      [|unfold keeps; ss; repeat split; auto].
    destruct (_ <=? _); [unfold keeps; ss; autorewrite with upd; ss; autorewrite with upd; ss; cbn [bst]; repeat split; auto; discriminate|].
    match goal with |- keeps _ (l_s (fst (do_flushOut o ?l1))) => pose proof (k_fo o l1 eq_refl eq_refl) as K end.
    unfold keeps in *; ss. autorewrite with upd in K. ss. autorewrite with upd in K. ss. destruct K as (K1 & K2 & K3 & K4 & _); repeat split; auto.
  - match goal with |- context [negb ?b] => destruct (negb b) end; [unfold keeps; ss; repeat split; auto|].
    match goal with |- context [match ?d with Some c => _ | None => _ end] => destruct d as [c|] end;
      [|unfold keeps; ss; repeat split; auto].
    destruct (_ <=? _); [unfold keeps; ss; autorewrite with upd; ss; autorewrite with upd; ss; cbn [bst]; repeat split; auto; discriminate|].
    match goal with |- keeps _ (l_s (fst (do_flushOut o ?l1))) => pose proof (k_fo o l1 eq_refl eq_refl) as K end.
    unfold keeps in *; ss. autorewrite with upd in K. ss. autorewrite with upd in K. ss. destruct K as (K1 & K2 & K3 & K4 & _); repeat split; auto.
Qed.
Lemma k_gs l : d_stage (l_s l) = GetSuffix -> keeps (l_s l) (l_s (fst (do_getSuffix l))).
Proof. intros Hst. unfold do_getSuffix, do_storeSuffix, do_checkSuffix. brute; kp Hst. Qed.
Lemma k_ss l : d_stage (l_s l) = StoreSuffix -> keeps (l_s l) (l_s (fst (do_storeSuffix l))).
Proof. intros Hst. unfold do_storeSuffix, do_checkSuffix. brute; kp Hst. Qed.
Lemma k_gcb o l : d_stage (l_s l) = GetCBlock -> keeps (l_s l) (l_s (fst (do_getCBlock bdec o l))).
Proof.
  intros Hst. unfold do_getCBlock. destruct (_ <? _); [kp Hst|].
  apply (k_cblock o (adv l (d_tmpInTarget (l_s l)))). ss. rewrite Hst. reflexivity.
Qed.
Lemma k_scb o l : d_stage (l_s l) = StoreCBlock -> keeps (l_s l) (l_s (fst (do_storeCBlock bdec o l))).
Proof.
  intros Hst. unfold do_storeCBlock. destruct (_ <? _); [kp Hst|].
  match goal with |- keeps _ (l_s (fst (do_cblock _ _ ?l1 ?sel))) => pose proof (k_cblock o l1 sel) as K end.
  ss. rewrite Hst in K. specialize (K eq_refl). unfold keeps in *; ss. rewrite Hst in *. exact K.
Qed.

Lemma iter_keeps o l : bst (d_stage (l_s l)) = true -> keeps (l_s l) (l_s (fst (iter bdec o l))).
Proof.
  intros Hb. unfold iter. destruct (d_stage (l_s l)) eqn:Hst; try discriminate Hb.
  - apply k_gbh; auto. - apply k_sbh; auto. - apply k_cd; auto. - apply k_gbc; auto.
  - apply k_gcb; auto. - apply k_scb; auto. - apply k_fo; rewrite Hst; reflexivity.
  - apply k_gs; auto. - apply k_ss; auto.
Qed.

(* ---- facts about the block decode step that the bookkeeping needs ---- *)
Lemma zdrop_app_len (a c : list byte) : zdrop (zlen a) (a ++ c) = c.
Proof. unfold zdrop, zlen. rewrite Nat2Z.id. rewrite skipn_app, skipn_all, Nat.sub_diag. reflexivity. Qed.
Lemma fo_tmpOut o l : d_tmpOut (l_s (fst (do_flushOut o l))) = d_tmpOut (l_s l).
Proof. unfold do_flushOut. brute; ss; autorewrite with upd; ss; reflexivity. Qed.

Lemma cblock_facts o l sel :
  match snd (do_cblock bdec o l sel) with
  | Ret _ => True
  | _ => zlen (if d_maxBlock (l_s l) <=? l_cap l then zdrop (zlen (l_out l)) (l_out (fst (do_cblock bdec o l sel)))
               else d_tmpOut (l_s (fst (do_cblock bdec o l sel)))) <= d_maxBlock (l_s l) /\
         (d_stage (l_s (fst (do_cblock bdec o l sel))) = FlushOut -> (d_maxBlock (l_s l) <=? l_cap l) = false)
  end.
Proof.
  unfold do_cblock.
  destruct (fi_bcFlag (d_fi (l_s l)) =? 0).
  - destruct (negb true); [ss; exact I|].
    match goal with |- context [match ?d with Some c => _ | None => _ end] => destruct d as [c|] eqn:ED end; [|ss; exact I].
    assert (Hc : zlen c <= d_maxBlock (l_s l)).
    { destruct (bdec _ _) as [c0|]; [|discriminate]. destruct (zlen c0 <=? d_maxBlock (l_s l)) eqn:EL; [|discriminate].
      injection ED as <-. apply Z.leb_le in EL. exact EL. }
    rewrite ud_mb. destruct (d_maxBlock (l_s l) <=? l_cap l) eqn:EC.
    + ss. rewrite zdrop_app_len. split; [exact Hc|discriminate].
    + match goal with |- context [do_flushOut o ?l1] => pose proof (fo_tmpOut o l1) as T; destruct (do_flushOut o l1) as [l2 oc2] eqn:EF end.
      ss. assert (NR : match oc2 with Ret _ => False | _ => True end).
      { revert EF. unfold do_flushOut. brute; match goal with H : (_, _) = (_, _) |- _ => injection H as <- <- end; exact I. }
      destruct oc2; [| |contradiction]; (split; [rewrite T; exact Hc|reflexivity]).
  - match goal with |- context [negb ?b] => destruct (negb b) end; [ss; exact I|].
    match goal with |- context [match ?d with Some c => _ | None => _ end] => destruct d as [c|] eqn:ED end; [|ss; exact I].
    ss.
    assert (Hc : zlen c <= d_maxBlock (l_s l)).
    { destruct (bdec _ _) as [c0|]; [|discriminate]. destruct (zlen c0 <=? d_maxBlock (l_s l)) eqn:EL; [|discriminate].
      injection ED as <-. apply Z.leb_le in EL. exact EL. }
    rewrite ud_mb. ss. destruct (d_maxBlock (l_s l) <=? l_cap l) eqn:EC.
    + ss. rewrite zdrop_app_len. split; [exact Hc|discriminate].
    + match goal with |- context [do_flushOut o ?l1] => pose proof (fo_tmpOut o l1) as T; destruct (do_flushOut o l1) as [l2 oc2] eqn:EF end.
      ss. assert (NR : match oc2 with Ret _ => False | _ => True end).
      { revert EF. unfold do_flushOut. brute; match goal with H : (_, _) = (_, _) |- _ => injection H as <- <- end; exact I. }
      destruct oc2; [| |contradiction]; (split; [rewrite T; exact Hc|reflexivity]).
Qed.

Lemma out_delta_len l l' : acct l l' -> zlen (out_delta l l') = l_cap l - l_cap l'.
Proof.
  unfold acct, out_delta. intros (A1 & A2 & A3 & A4). pose proof (zlen_nonneg (l_out l)).
  rewrite zlen_zdrop by lia. lia.
Qed.

(* one iteration inside the block stages *)
Lemma dd_step_block o dst l d :
  wf (l_s l) -> 0 <= l_cap l -> bst (d_stage (l_s l)) = true -> J (l_s l) d ->
  Forall (op_ok (d_maxBuf (l_s l)) dst (dst + zlen (l_out l) + l_cap l))
         (snd (dd_step o dst l (fst (iter bdec o l)) (snd (iter bdec o l)) d)) /\
  match snd (iter bdec o l) with
  | Ret _ => True
  | _ => J (l_s (fst (iter bdec o l))) (fst (dd_step o dst l (fst (iter bdec o l)) (snd (iter bdec o l)) d))
  end.
Proof.
  intros W Hc Hb HJ. unfold J in HJ. rewrite Hb in HJ. destruct HJ as [Sz I].
  pose proof (iter_keeps o l Hb) as K.
  pose proof (iter_post bdec o l W Hc) as [A _].
  pose proof (zlen_nonneg (l_out l)) as Hlo.
  assert (KF : d_stage (l_s (fst (iter bdec o l))) = FlushOut -> is_cb (d_stage (l_s l)) = true) by apply K.
  set (P := op_ok (d_maxBuf (l_s l)) dst (dst + zlen (l_out l) + l_cap l)).
  assert (G : forall r fl, ddI (d_maxBlock (l_s l)) (d_maxBuf (l_s l)) (linked (l_s l)) fl (fst r) ->
              ((match snd (iter bdec o l) with Ret _ => False | _ => True end) ->
               d_stage (l_s (fst (iter bdec o l))) = FlushOut -> fl = true) -> Forall P (snd r) ->
              Forall P (snd (match d_stage (l_s (fst (iter bdec o l))) with GetFrameHeader => (dd_reset (fst r), snd r) | _ => r end)) /\
              match snd (iter bdec o l) with Ret _ => True | _ =>
                J (l_s (fst (iter bdec o l))) (fst (match d_stage (l_s (fst (iter bdec o l))) with GetFrameHeader => (dd_reset (fst r), snd r) | _ => r end)) end).
  { intros r fl I1 Hfl HP. split; [apply fin_ops; exact HP|].
    revert Hfl. destruct (snd (iter bdec o l)); intros Hfl; auto; apply (fin_J _ _ r fl K Sz I1); apply Hfl; exact Logic.I. }
  assert (NF : forall fl : bool, (match snd (iter bdec o l) with Ret _ => False | _ => True end) ->
               d_stage (l_s (fst (iter bdec o l))) = FlushOut -> is_cb (d_stage (l_s l)) = false -> fl = true).
  { intros fl _ E N. rewrite (KF E) in N. discriminate. }
  assert (CB : is_cb (d_stage (l_s l)) = true ->
     (match snd (iter bdec o l) with Ret _ => True | _ =>
        (d_stage (l_s (fst (iter bdec o l))) = GetBlockHeader \/ d_stage (l_s (fst (iter bdec o l))) = FlushOut) ->
        d_stage (l_s l) <> FlushOut ->
        zlen (if d_maxBlock (l_s l) <=? l_cap l then out_delta l (fst (iter bdec o l)) else d_tmpOut (l_s (fst (iter bdec o l))))
          <= d_maxBlock (l_s l) /\
        (d_stage (l_s (fst (iter bdec o l))) = FlushOut -> (d_maxBlock (l_s l) <=? l_cap l) = false) end)).
  { intros Hcb. unfold iter. destruct (d_stage (l_s l)) eqn:Hst; try discriminate Hcb.
    - unfold do_getCBlock. destruct (_ <? _).
      + ss. intros [E|E]; discriminate.
      + pose proof (cblock_facts o (adv l (d_tmpInTarget (l_s l))) (ztake (d_tmpInTarget (l_s l)) (l_src l))) as F.
        ss. unfold out_delta. destruct (snd (do_cblock _ _ _ _)); auto.
    - unfold do_storeCBlock. destruct (_ <? _).
      + ss. rewrite Hst. intros [E|E]; discriminate.
      + match goal with |- context [do_cblock bdec o ?l1 ?sel] => pose proof (cblock_facts o l1 sel) as F end.
        ss. unfold out_delta. destruct (snd (do_cblock _ _ _ _)); auto.
    - destruct (snd (do_flushOut o l)); auto; intros _ N; exfalso; apply N; reflexivity. }
  unfold dd_step. cbv zeta.
  destruct (d_stage (l_s l)) eqn:Hst; try discriminate Hb; cbv iota beta.
  - apply (G (d, []) false); [exact I|intros N E; apply (NF false N E eq_refl)|constructor].
  - apply (G (d, []) false); [exact I|intros N E; apply (NF false N E eq_refl)|constructor].
  - (* copyDirect *)
    assert (Hl : zlen (out_delta l (fst (iter bdec o l))) = l_cap l - l_cap (fst (iter bdec o l))) by (apply out_delta_len; exact A).
    destruct (dd_copyDirect_ok _ _ (linked (l_s l)) (o_dstnull o) d (dst + zlen (l_out l)) dst (out_delta l (fst (iter bdec o l)))
                (dst + zlen (l_out l) + l_cap l) Sz I) as [C1 C2]; [lia|unfold acct in A; lia|].
    apply (G _ false); [exact C2|intros N E; apply (NF false N E eq_refl)|exact C1].
  - apply (G (d, []) false); [exact I|intros N E; apply (NF false N E eq_refl)|constructor].
  - (* getCBlock *)
    specialize (CB eq_refl).
    match goal with |- context [dd_cblock ?mb ?mbuf ?lk ?dn d ?dp dst ?cap ?c] =>
      destruct (sel_cases (snd (iter bdec o l)) (d_stage (l_s (fst (iter bdec o l)))) (dd_cblock mb mbuf lk dn d dp dst cap c) (d, []))
        as [(N1 & N2 & ->)|(-> & N3)];
      [destruct (dd_cblock_ok mb mbuf lk dn d dp dst cap c Sz I) as [C1 C2]|] end.
    + lia. + exact Hc.
    + destruct (snd (iter bdec o l)); try contradiction; apply CB; auto; discriminate.
    + apply (G _ _ C2).
      * intros _ E. destruct (snd (iter bdec o l)); try contradiction;
          (destruct (CB N2) as [_ CB2]; [discriminate|]; specialize (CB2 E); unfold decode_direct; rewrite CB2; reflexivity).
      * unfold P. exact C1.
    + apply (G (d, []) false); [exact I| |constructor].
      intros N E. specialize (N3 E). destruct (snd (iter bdec o l)); contradiction.
  - (* storeCBlock *)
    specialize (CB eq_refl).
    match goal with |- context [dd_cblock ?mb ?mbuf ?lk ?dn d ?dp dst ?cap ?c] =>
      destruct (sel_cases (snd (iter bdec o l)) (d_stage (l_s (fst (iter bdec o l)))) (dd_cblock mb mbuf lk dn d dp dst cap c) (d, []))
        as [(N1 & N2 & ->)|(-> & N3)];
      [destruct (dd_cblock_ok mb mbuf lk dn d dp dst cap c Sz I) as [C1 C2]|] end.
    + lia. + exact Hc.
    + destruct (snd (iter bdec o l)); try contradiction; apply CB; auto; discriminate.
    + apply (G _ _ C2).
      * intros _ E. destruct (snd (iter bdec o l)); try contradiction;
          (destruct (CB N2) as [_ CB2]; [discriminate|]; specialize (CB2 E); unfold decode_direct; rewrite CB2; reflexivity).
      * unfold P. exact C1.
    + apply (G (d, []) false); [exact I| |constructor].
      intros N E. specialize (N3 E). destruct (snd (iter bdec o l)); contradiction.
  - (* flushOut *)
    destruct (dd_flushOut_ok _ _ (linked (l_s l)) (o_dstnull o) d (dst + zlen (l_out l)) dst (l_cap l) Sz I) as [C1 C2]; [lia|lia|].
    apply (G _ true); [exact C2|reflexivity|]. unfold P. rewrite <- Z.add_assoc in *. exact C1.
  - apply (G (d, []) false); [exact I|intros N E; apply (NF false N E eq_refl)|constructor].
  - apply (G (d, []) false); [exact I|intros N E; apply (NF false N E eq_refl)|constructor].
Qed.

(* ---- dstage_init ---- *)
Lemma init_sizes s : sizes_ok (d_maxBlock s) ->
  sizes (d_maxBlock (do_init s)) (d_maxBuf (do_init s)) (linked (do_init s)) /\ d_maxBuf s <= d_maxBuf (do_init s) /\
  d_stage (do_init s) = GetBlockHeader.
Proof.
  intros Hs. unfold do_init, sizes, linked.
  assert (H64 : FD_64KB <= d_maxBlock s).
  { unfold sizes_ok, FD_blockSize_4, FD_blockSize_5, FD_blockSize_6, FD_blockSize_7, FD_64KB in *. lia. }
  destruct (fi_ccFlag (d_fi s) =? 0); ss;
    destruct (fi_blockMode (d_fi s) =? FD_blockLinked) eqn:EB;
    match goal with |- context [if ?c then _ else _] => destruct c eqn:E end; ss; rewrite ?EB;
    try apply Z.ltb_ge in E; try apply Z.ltb_lt in E; repeat split; try lia.
Qed.

(* ---- header and skippable stages never hand over to a block stage ---- *)
Definition nbp (s' : dstate) (oc : outcome) : Prop :=
  bst (d_stage s') = false /\ match oc with Stop _ => d_stage s' <> Init | _ => True end.
Definition nb_post (s s' : dstate) (oc : outcome) : Prop :=
  d_maxBuf s' = d_maxBuf s /\ match oc with Ret v => 0 <= v -> nbp s' oc | _ => nbp s' oc end.

Lemma nb_decodeHeader s b src s' r :
  decodeHeader s b src = (s', r) -> d_maxBuf s' = d_maxBuf s /\ (0 <= r -> bst (d_stage s') = false).
Proof.
  intros H. pose proof (decodeHeader_cases _ _ _ _ _ H) as (M & _ & _ & D). split; [exact M|]. intros Hr.
  destruct D as [D|[D|[D|[D|D]]]]; [lia| | | |].
  - destruct D as (_ & -> & _). reflexivity.
  - destruct D as (_ & _ & _ & -> & _). reflexivity.
  - destruct D as (-> & _). reflexivity.
  - destruct D as (_ & -> & _). reflexivity.
Qed.
Lemma nb_sfh l : d_stage (l_s l) = StoreFrameHeader ->
  nb_post (l_s l) (l_s (fst (do_storeFrameHeader l))) (snd (do_storeFrameHeader l)).
Proof.
  intros Hst. unfold do_storeFrameHeader. destruct (_ <? _).
  - ss. unfold nb_post, nbp; ss. rewrite Hst. repeat split; auto. discriminate.
  - match goal with |- context [decodeHeader ?s1 true ?h] => destruct (decodeHeader s1 true h) as [s' r] eqn:ED end.
    destruct (nb_decodeHeader _ _ _ _ _ ED) as [N1 N2]. ss.
    destruct (r <? 0) eqn:ER; ss; unfold nb_post, nbp; (split; [exact N1|]).
    + apply Z.ltb_lt in ER. intros; lia.
    + apply Z.ltb_ge in ER. auto.
Qed.
Lemma nb_gfh l : d_stage (l_s l) = GetFrameHeader ->
  nb_post (l_s l) (l_s (fst (do_getFrameHeader l))) (snd (do_getFrameHeader l)).
Proof.
  intros Hst. unfold do_getFrameHeader. destruct (_ <=? _).
  - destruct (decodeHeader (l_s l) false (l_src l)) as [s' r] eqn:ED.
    destruct (nb_decodeHeader _ _ _ _ _ ED) as [N1 N2].
    destruct (r <? 0) eqn:ER; ss; unfold nb_post, nbp; (split; [exact N1|]).
    + apply Z.ltb_lt in ER. intros; lia.
    + apply Z.ltb_ge in ER. auto.
  - destruct (_ =? 0).
    + ss. unfold nb_post, nbp; ss. rewrite Hst. auto.
    + match goal with |- context [do_storeFrameHeader ?l1] => pose proof (nb_sfh l1 eq_refl) as N end.
      ss. exact N.
Qed.
Lemma nb_gsfs l : d_stage (l_s l) = GetSFrameSize ->
  nb_post (l_s l) (l_s (fst (do_getSFrameSize l))) (snd (do_getSFrameSize l)).
Proof.
  intros Hst. unfold do_getSFrameSize, do_storeSFrameSize, do_sframeSize.
  brute; unfold nb_post, nbp; ss; rewrite ?Hst; repeat split; auto; discriminate.
Qed.
Lemma nb_ssfs l : d_stage (l_s l) = StoreSFrameSize ->
  nb_post (l_s l) (l_s (fst (do_storeSFrameSize l))) (snd (do_storeSFrameSize l)).
Proof.
  intros Hst. unfold do_storeSFrameSize, do_sframeSize.
  brute; unfold nb_post, nbp; ss; rewrite ?Hst; repeat split; auto; discriminate.
Qed.
Lemma nb_skip l : d_stage (l_s l) = SkipSkippable ->
  nb_post (l_s l) (l_s (fst (do_skipSkippable l))) (snd (do_skipSkippable l)).
Proof.
  intros Hst. unfold do_skipSkippable.
  brute; unfold nb_post, nbp; ss; rewrite ?Hst; repeat split; auto; discriminate.
Qed.

(* a header / skippable stage: the bookkeeping is untouched (or reset at the end of a skippable frame) *)
Lemma nb_step st (s s' : dstate) oc d :
  nb_post s s' oc -> pre_frame d ->
  let r := match st with
           | GetFrameHeader => (d, @nil mop)
           | _ => match d_stage s' with GetFrameHeader => (dd_reset (fst (d, @nil mop)), snd (d, @nil mop)) | _ => (d, @nil mop) end
           end in
  d_maxBuf s <= d_maxBuf s' /\ (forall P : mop -> Prop, Forall P (snd r)) /\
  match oc with
  | Ret v => 0 <= v -> J s' (fst r)
  | Stop _ => J s' (fst r) /\ d_stage s' <> Init
  | Continue => J s' (fst r)
  end.
Proof.
  intros [N1 N2] Hp r. split; [lia|].
  assert (G : bst (d_stage s') = false -> snd r = [] /\ J s' (fst r)).
  { intros Hb. unfold r. destruct st; try (destruct (nb_fin s' d Hb Hp) as [G1 G2]; split; [exact G2|exact G1]).
    cbn [fst snd]. split; [reflexivity|]. unfold J. rewrite Hb. exact Hp. }
  assert (E : snd r = []) by (unfold r; destruct st; destruct (d_stage s'); reflexivity).
  split; [intros P; rewrite E; constructor|]. unfold nbp in N2.
  destruct oc.
  - apply G, N2. - split; [apply G, N2|apply N2]. - intros Hv. apply G, (N2 Hv).
Qed.

(* one iteration, any stage *)
Lemma dd_step_ok o dst l d :
  wf (l_s l) -> 0 <= l_cap l -> J (l_s l) d ->
  d_maxBuf (l_s l) <= d_maxBuf (l_s (fst (iter bdec o l))) /\
  Forall (op_ok (d_maxBuf (l_s (fst (iter bdec o l)))) dst (dst + zlen (l_out l) + l_cap l))
         (snd (dd_step o dst l (fst (iter bdec o l)) (snd (iter bdec o l)) d)) /\
  match snd (iter bdec o l) with
  | Ret v => 0 <= v -> J (l_s (fst (iter bdec o l))) (fst (dd_step o dst l (fst (iter bdec o l)) (snd (iter bdec o l)) d))
  | Stop _ => J (l_s (fst (iter bdec o l))) (fst (dd_step o dst l (fst (iter bdec o l)) (snd (iter bdec o l)) d)) /\
              d_stage (l_s (fst (iter bdec o l))) <> Init
  | Continue => J (l_s (fst (iter bdec o l))) (fst (dd_step o dst l (fst (iter bdec o l)) (snd (iter bdec o l)) d))
  end.
Proof.
  intros W Hc HJ.
  pose proof (iter_post bdec o l W Hc) as [A PO].
  destruct (bst (d_stage (l_s l))) eqn:Hb.
  - destruct (dd_step_block o dst l d W Hc Hb HJ) as [F1 F2].
    pose proof (iter_keeps o l Hb) as (K1 & K2 & K3 & K4 & K5).
    rewrite K3. split; [lia|]. split; [exact F1|].
    assert (NI : d_stage (l_s (fst (iter bdec o l))) <> Init).
    { destruct K4 as [K4|K4]; intros E; rewrite E in K4; discriminate. }
    destruct (snd (iter bdec o l)); auto.
    intros Hv. destruct PO as [_ [PO|(PO & _)]]; [lia|]. destruct (d_stage (l_s l)); discriminate.
  - unfold J in HJ. rewrite Hb in HJ.
    destruct (d_stage (l_s l)) eqn:Hst; try discriminate Hb.
    + pose proof (nb_step GetFrameHeader _ _ _ d (nb_gfh l Hst) HJ) as R. cbv zeta iota beta in R.
      unfold iter. rewrite Hst. unfold dd_step. cbv zeta. rewrite Hst. cbv iota beta.
      destruct R as (R1 & R2 & R3). split; [exact R1|]. split; [apply R2|exact R3].
    + pose proof (nb_step StoreFrameHeader _ _ _ d (nb_sfh l Hst) HJ) as R. cbv zeta iota beta in R.
      unfold iter. rewrite Hst. unfold dd_step. cbv zeta. rewrite Hst. cbv iota beta.
      destruct R as (R1 & R2 & R3). split; [exact R1|]. split; [apply R2|exact R3].
    + (* dstage_init *)
      destruct W as (Wo & Wa & Wi). unfold stage_inv in Wi. rewrite Hst in Wi. destruct Wi as [Ws Wb].
      destruct (init_sizes (l_s l) Ws) as (Sz1 & M1 & St1).
      assert (St1' : d_stage (l_s (with_s l (do_init (l_s l)))) = GetBlockHeader) by (ss; exact St1).
      pose proof (k_gbh (with_s l (do_init (l_s l))) St1') as K. ss.
      unfold iter in *. rewrite Hst in *.
      unfold dd_step. cbv zeta. rewrite Hst. cbv iota beta.
      destruct K as (K1 & K2 & K3 & K4 & K5).
      split; [rewrite K3; exact M1|].
      split; [apply fin_ops; constructor|].
      assert (ID : ddI (d_maxBlock (do_init (l_s l))) (d_maxBuf (do_init (l_s l))) (linked (do_init (l_s l))) false (dd_stage_init d)).
      { destruct HJ as [P1 P2]. destruct Sz1 as [Sa Sb]. apply dd_stage_init_ok; auto;
          try (unfold FD_64KB, FD_128KB in *; destruct (linked (do_init (l_s l))); lia); destruct (dd_dict d); auto. }
      assert (FJ : J (l_s (fst (do_getBlockHeader (with_s l (do_init (l_s l))))))
                (fst (match d_stage (l_s (fst (do_getBlockHeader (with_s l (do_init (l_s l)))))) with
                      | GetFrameHeader => (dd_reset (fst (dd_stage_init d, @nil mop)), snd (dd_stage_init d, @nil mop))
                      | _ => (dd_stage_init d, @nil mop) end))).
      { apply (fin_J (do_init (l_s l)) _ (dd_stage_init d, []) false); auto.
        all: try (unfold keeps; repeat split; auto; fail).
        all: try (intros E; specialize (K5 E); rewrite St1 in K5; discriminate). }
      assert (NI : d_stage (l_s (fst (do_getBlockHeader (with_s l (do_init (l_s l)))))) <> Init).
      { destruct K4 as [K4|K4]; intros E; rewrite E in K4; discriminate. }
      destruct (snd (do_getBlockHeader (with_s l (do_init (l_s l))))); auto.
    + pose proof (nb_step GetSFrameSize _ _ _ d (nb_gsfs l Hst) HJ) as R. cbv zeta iota beta in R.
      unfold iter. rewrite Hst. unfold dd_step. cbv zeta. rewrite Hst. cbv iota beta.
      destruct R as (R1 & R2 & R3). split; [exact R1|]. split; [apply R2|exact R3].
    + pose proof (nb_step StoreSFrameSize _ _ _ d (nb_ssfs l Hst) HJ) as R. cbv zeta iota beta in R.
      unfold iter. rewrite Hst. unfold dd_step. cbv zeta. rewrite Hst. cbv iota beta.
      destruct R as (R1 & R2 & R3). split; [exact R1|]. split; [apply R2|exact R3].
    + pose proof (nb_step SkipSkippable _ _ _ d (nb_skip l Hst) HJ) as R. cbv zeta iota beta in R.
      unfold iter. rewrite Hst. unfold dd_step. cbv zeta. rewrite Hst. cbv iota beta.
      destruct R as (R1 & R2 & R3). split; [exact R1|]. split; [apply R2|exact R3].
Qed.

(* ---- the loop of one call ---- *)
Lemma dd_run_ok o dst hi : forall fuel l d ops0,
  wf (l_s l) -> 0 <= l_cap l -> J (l_s l) d -> hi = dst + zlen (l_out l) + l_cap l ->
  exists ops1,
    snd (dd_run bdec fuel o dst l d ops0) = ops0 ++ ops1 /\
    Forall (op_ok (d_maxBuf (l_s (fst (fst (fst (dd_run bdec fuel o dst l d ops0)))))) dst hi) ops1 /\
    d_maxBuf (l_s l) <= d_maxBuf (l_s (fst (fst (fst (dd_run bdec fuel o dst l d ops0))))) /\
    match snd (fst (fst (dd_run bdec fuel o dst l d ops0))) with
    | FStop _ => J (l_s (fst (fst (fst (dd_run bdec fuel o dst l d ops0))))) (snd (fst (dd_run bdec fuel o dst l d ops0))) /\
                 wf (l_s (fst (fst (fst (dd_run bdec fuel o dst l d ops0))))) /\
                 d_stage (l_s (fst (fst (fst (dd_run bdec fuel o dst l d ops0))))) <> Init
    | FRet v => 0 <= v -> J (l_s (fst (fst (fst (dd_run bdec fuel o dst l d ops0))))) (snd (fst (dd_run bdec fuel o dst l d ops0)))
    | FFuel => True
    end.
Proof.
  induction fuel as [|fuel IH]; intros l d ops0 W Hc HJ Hhi.
  - cbn [dd_run fst snd]. exists []. rewrite app_nil_r. repeat split; auto. lia.
  - cbn [dd_run].
    pose proof (dd_step_ok o dst l d W Hc HJ) as (M & F & R).
    pose proof (iter_post bdec o l W Hc) as [A PO].
    destruct (iter bdec o l) as [l1 oc]. cbn [fst snd] in *.
    destruct (dd_step o dst l l1 oc d) as [d1 ops'] eqn:ES. cbn [fst snd] in *.
    rewrite <- Hhi in F.
    destruct oc as [|h|v].
    + destruct PO as [W1 _].
      assert (Hc1 : 0 <= l_cap l1) by (unfold acct in A; lia).
      assert (Hhi1 : hi = dst + zlen (l_out l1) + l_cap l1) by (unfold acct in A; lia).
      destruct (IH l1 d1 (ops0 ++ ops') W1 Hc1 R Hhi1) as (ops1 & E1 & F1 & M1 & R1).
      exists (ops' ++ ops1). split; [rewrite E1, app_assoc; reflexivity|].
      split; [|split; [lia|exact R1]].
      apply Forall_app. split; [|exact F1].
      eapply Forall_impl; [|exact F]. intros op. apply op_ok_mono. exact M1.
    + cbn [fst snd]. exists ops'. split; [reflexivity|]. split; [exact F|]. split; [exact M|].
      destruct R as [R1 R2]. destruct PO as [W1 _]. auto.
    + cbn [fst snd]. exists ops'. split; [reflexivity|]. split; [exact F|]. split; [exact M|exact R].
Qed.

Lemma wf_stage_fl s : (is_fl (d_stage s) = true <-> d_stage s = FlushOut).
Proof. destruct (d_stage s); cbn; split; intros; try discriminate; reflexivity. Qed.

(* the end of a call: "preserve history within tmpOut" *)
Lemma dd_endcall_J s d stable lo hi :
  J s d -> d_stage s <> Init ->
  Forall (op_ok (d_maxBuf s) lo hi) (snd (dd_endcall (linked s) stable (d_stage s) d)) /\
  J s (fst (dd_endcall (linked s) stable (d_stage s) d)).
Proof.
  intros HJ NI. unfold J in *. destruct (bst (d_stage s)) eqn:Hb.
  - destruct HJ as [Sz I].
    destruct (dd_endcall_ok _ _ (linked s) stable (d_stage s) _ d lo hi Sz I (wf_stage_fl s)) as [E1 E2].
    split; [exact E1|]. split; [exact Sz|exact E2].
  - assert (E : dd_endcall (linked s) stable (d_stage s) d = (d, [])).
    { assert (R : (FD_dstage_init <=? stage_num (d_stage s)) && (stage_num (d_stage s) <? FD_dstage_getSuffix) = false)
        by (destruct (d_stage s); try discriminate Hb; try (exfalso; apply NI; reflexivity); reflexivity).
      unfold dd_endcall. rewrite <- andb_assoc, R, andb_false_r. reflexivity. }
    rewrite E. cbn [fst snd]. split; [constructor|exact HJ].
Qed.

Lemma J_set_skip s v d : J s d -> J (set_skip s v) d.
Proof. unfold J, linked. ss. auto. Qed.
Lemma J_set_hist s v d : J s d -> J (set_hist s v) d.
Proof. unfold J, linked. ss. auto. Qed.

(* one LZ4F_decompress call *)
Lemma dd_decompress_ok s d src cap o dst :
  wf s -> 0 <= cap -> J s d ->
  Forall (op_ok (d_maxBuf (fst (fst (fst (dd_decompress bdec s d src cap o dst))))) dst (dst + cap))
         (snd (dd_decompress bdec s d src cap o dst)) /\
  (0 <= r_ret (snd (fst (fst (dd_decompress bdec s d src cap o dst)))) ->
   J (fst (fst (fst (dd_decompress bdec s d src cap o dst)))) (snd (fst (dd_decompress bdec s d src cap o dst))) /\
   wf (fst (fst (fst (dd_decompress bdec s d src cap o dst))))).
Proof.
  intros W Hc HJ.
  pose proof (decompress_ok bdec s src cap o W Hc) as OK.
  rewrite <- (dd_decompress_abstract bdec s d src cap o dst) in OK.
  destruct OK as (OKf & _ & _ & _ & _ & OKw & _).
  unfold dd_decompress in *.
  set (s0 := set_skip s (d_skip s || o_skip o)) in *.
  assert (W0 : wf s0) by (apply wf_set_skip; exact W).
  assert (J0 : J s0 d) by (apply J_set_skip; exact HJ).
  set (l0 := mkL s0 src 0 [] cap) in *.
  assert (Hhi : dst + cap = dst + zlen (l_out l0) + l_cap l0) by (unfold l0; ss; rewrite zlen_nil; lia).
  destruct (dd_run_ok o dst (dst + cap) (call_fuel src) l0 d [] W0 Hc J0 Hhi) as (ops1 & E1 & F1 & M1 & R1).
  destruct (dd_run bdec (call_fuel src) o dst l0 d []) as [[[l f] d1] opsr]. cbn [fst snd] in *.
  cbn [app] in E1. subst opsr.
  destruct f as [h|v|].
  - destruct R1 as (RJ & RW & RN).
    destruct (dd_endcall_J (l_s l) d1 (o_stableDst o) dst (dst + cap) RJ RN) as [E1 E2].
    destruct (dd_endcall (linked (l_s l)) (o_stableDst o) (d_stage (l_s l)) d1) as [d2 ops2]. cbn [fst snd] in *.
    split; [apply Forall_app; split; assumption|]. intros _. split; assumption.
  - cbn [fst snd] in *. split; [exact F1|]. intros Hv. split; [apply R1; exact Hv|].
    destruct OKw as [OKw|OKw]; [lia|exact OKw].
  - cbn [fst snd r_fuel] in *. discriminate OKf.
Qed.

Definition call_conform (c : ddcall) : Prop :=
  0 <= dc_cap c /\
  match dc_dict c with Some (dict, a) => a <> 0 \/ dict = [] | None => True end.

Lemma early_stage s : (stage_num (d_stage s) <=? FD_dstage_init) = true -> bst (d_stage s) = false.
Proof. destruct (d_stage s); intros H; try reflexivity; vm_compute in H; discriminate H. Qed.

Theorem session_in_bounds : forall cs s d,
  wf s -> J s d -> Forall call_conform cs ->
  Forall (fun x => let '(s', c, ops) := x in
                   Forall (op_ok (d_maxBuf s') (dc_dst c) (dc_dst c + dc_cap c)) ops)
         (dd_session bdec s d cs).
Proof.
  induction cs as [|c cs IH]; intros s d W HJ HC; [constructor|].
  apply Forall_cons_iff in HC. destruct HC as [[Hcap Hd] HC].
  cbn [dd_session].
  assert (G : forall s2 d2, wf s2 -> J s2 d2 ->
     Forall (fun x => let '(s', c, ops) := x in Forall (op_ok (d_maxBuf s') (dc_dst c) (dc_dst c + dc_cap c)) ops)
       (let '(s', r, d', ops) := dd_decompress bdec s2 d2 (dc_src c) (dc_cap c) (dc_o c) (dc_dst c) in
        (s', c, ops) :: (if r_ret r <? 0 then [] else dd_session bdec s' d' cs))).
  { intros s2 d2 W2 J2.
    pose proof (dd_decompress_ok s2 d2 (dc_src c) (dc_cap c) (dc_o c) (dc_dst c) W2 Hcap J2) as [F R].
    destruct (dd_decompress bdec s2 d2 (dc_src c) (dc_cap c) (dc_o c) (dc_dst c)) as [[[s' r] d'] ops]. cbn [fst snd] in *.
    constructor; [exact F|].
    destruct (r_ret r <? 0) eqn:ER; [constructor|]. apply Z.ltb_ge in ER. destruct (R ER) as [R1 R2]. apply IH; assumption. }
  destruct (dc_dict c) as [[dict a]|].
  - unfold dd_decompress_usingDict.
    destruct (stage_num (d_stage s) <=? FD_dstage_init) eqn:EF.
    + apply G; [apply wf_set_hist; exact W|].
      pose proof (early_stage s EF) as Hb. unfold J. cbn [d_stage set_hist]. ss. rewrite Hb.
      unfold pre_frame. destruct d as [dp ds to tsz tst]. cbn [dd_set_dict dd_dict dd_dictSize].
      split; [apply zlen_nonneg|]. destruct (a =? 0) eqn:EA; [|exact Logic.I].
      apply Z.eqb_eq in EA. destruct Hd as [Hd|Hd]; [contradiction|]. subst dict. reflexivity.
    + apply G; assumption.
  - apply G; assumption.
Qed.

Lemma J_init : J dctx_init dd_init.
Proof. unfold J. change (bst (d_stage dctx_init)) with false. cbv iota. unfold pre_frame, dd_init; cbn [dd_dict dd_dictSize]. split; [lia|reflexivity]. Qed.
End Sess.

(* every memory operation of every call of an API-conforming session on a fresh context is in bounds *)
Theorem tmpOut_in_bounds : forall bdec cs,
  Forall call_conform cs ->
  Forall (fun x => let '(s', c, ops) := x in
                   Forall (op_ok (d_maxBuf s') (dc_dst c) (dc_dst c + dc_cap c)) ops)
         (dd_session bdec dctx_init dd_init cs).
Proof. intros bdec cs H. apply session_in_bounds; [apply wf_init|apply J_init|exact H]. Qed.
