(* Round trip between the encoder and the parser of Spec/BlockSpec.v.

   encode_block defines the LZ4 block format constructively; parse_block is
   the reader.  We show that the reader inverts the writer on every
   well-formed list of sequences, hence that decoding an encoded block is
   exactly the sequence semantics [run_seqs], and that the writer only
   produces bytes. *)
From Coq Require Import ZArith List Lia Bool.
From Coq Require Import ZifyBool.
From LZ4V Require Import Spec.BlockSpec.
Import ListNotations.
Local Open Scope Z_scope.

(* [zlia]: lia that also understands division and modulo by constants
   (kept as a local tactic so that nothing leaks to files requiring this one) *)
Local Ltac zlia := Z.div_mod_to_equations; lia.

Definition seq_wf (s : seq) : Prop :=
  bytes_ok (s_lits s) = true /\ 0 <= s_off s < 65536 /\ 4 <= s_mlen s.

(* ---- 1. length fields -------------------------------------------------- *)

Lemma read_ext_repeat : forall n acc b rest, b <> 255 ->
  read_ext (repeat 255 n ++ b :: rest) acc = Some (acc + 255 * Z.of_nat n + b, rest).
Proof.
  induction n as [|n IH]; intros acc b rest Hb.
  - cbn [repeat app read_ext].
    destruct (b =? 255) eqn:E; [lia|].
    f_equal; f_equal; lia.
  - cbn [repeat app read_ext].
    rewrite Z.eqb_refl.
    rewrite IH by assumption.
    f_equal; f_equal; lia.
Qed.

Lemma read_ext_ext_len : forall v acc rest, 0 <= v ->
  read_ext (ext_len v ++ rest) acc = Some (acc + v, rest).
Proof.
  intros v acc rest Hv. unfold ext_len.
  rewrite <- app_assoc. cbn [app].
  rewrite read_ext_repeat by zlia.
  rewrite Z2Nat.id by zlia.
  f_equal; f_equal; zlia.
Qed.

Lemma read_len_enc : forall v rest, 0 <= v ->
  read_len (enc_nib v) (enc_ext v ++ rest) = Some (v, rest).
Proof.
  intros v rest Hv. unfold read_len, enc_nib, enc_ext.
  destruct (v <? 15) eqn:E.
  - destruct (v =? 15) eqn:E2; [lia|]. reflexivity.
  - rewrite Z.eqb_refl.
    rewrite read_ext_ext_len by lia.
    f_equal; f_equal; lia.
Qed.

Lemma enc_nib_range : forall v, 0 <= v -> 0 <= enc_nib v <= 15.
Proof. intros v Hv. unfold enc_nib. destruct (v <? 15) eqn:E; lia. Qed.

Lemma token_hi : forall a b, 0 <= b <= 15 -> (a * 16 + b) / 16 = a.
Proof. intros; zlia. Qed.

Lemma token_lo : forall a b, 0 <= b <= 15 -> (a * 16 + b) mod 16 = b.
Proof. intros; zlia. Qed.

(* ---- take -------------------------------------------------------------- *)

Lemma take_app : forall l r, take (length l) (l ++ r) = Some (l, r).
Proof.
  induction l as [|b l IH]; intros r; cbn [length app take]; [reflexivity|].
  rewrite IH. reflexivity.
Qed.

Lemma take_all : forall l, take (length l) l = Some (l, []).
Proof. intros l. rewrite <- (app_nil_r l) at 2. apply take_app. Qed.

(* ---- 2. the parser inverts the encoder --------------------------------- *)

Lemma parse_seqs_cons : forall f tok r,
  parse_seqs (S f) (tok :: r) =
  match read_len (tok / 16) r with
  | None => None
  | Some (ll, r1) =>
    match take (Z.to_nat ll) r1 with
    | None => None
    | Some (lits, r2) =>
      match r2 with
      | [] => Some ([], lits)
      | [_] => None
      | o1 :: o2 :: r3 =>
        match read_len (tok mod 16) r3 with
        | None => None
        | Some (ml, r4) =>
          match parse_seqs f r4 with
          | None => None
          | Some (ss, last) => Some (mkSeq lits (o1 + 256 * o2) (ml + 4) :: ss, last)
          end
        end
      end
    end
  end.
Proof. reflexivity. Qed.

Lemma parse_last : forall f last,
  parse_seqs (S f) (encode_last last) = Some ([], last).
Proof.
  intros f last. unfold encode_last. cbv zeta.
  rewrite parse_seqs_cons.
  rewrite Z.div_mul by lia.
  rewrite read_len_enc by lia.
  rewrite Nat2Z.id, take_all. reflexivity.
Qed.

Lemma encode_seq_app : forall s R,
  encode_seq s ++ R =
  (enc_nib (Z.of_nat (length (s_lits s))) * 16 + enc_nib (s_mlen s - 4))
    :: enc_ext (Z.of_nat (length (s_lits s))) ++ s_lits s
    ++ s_off s mod 256 :: s_off s / 256 :: enc_ext (s_mlen s - 4) ++ R.
Proof.
  intros s R. unfold encode_seq. cbv zeta. cbn [app].
  rewrite <- !app_assoc. reflexivity.
Qed.

Lemma encode_block_cons : forall s ss last,
  encode_block (s :: ss) last = encode_seq s ++ encode_block ss last.
Proof.
  intros. unfold encode_block. cbn [map concat]. rewrite <- app_assoc. reflexivity.
Qed.

(* Only [4 <= s_mlen] is needed here: the offset and the literals are copied
   through unchanged whatever their values are. *)
Lemma parse_seqs_encode : forall ss last fuel,
  Forall (fun s => 4 <= s_mlen s) ss -> (length ss < fuel)%nat ->
  parse_seqs fuel (encode_block ss last) = Some (ss, last).
Proof.
  induction ss as [|s ss IH]; intros last fuel Hwf Hfuel.
  - destruct fuel as [|f]; [cbn in Hfuel; lia|].
    unfold encode_block. cbn [map concat app]. apply parse_last.
  - destruct fuel as [|f]; [cbn in Hfuel; lia|].
    inversion Hwf as [|s' ss' Hs Hss]; subst.
    rewrite encode_block_cons, encode_seq_app, parse_seqs_cons.
    assert (Hll : 0 <= Z.of_nat (length (s_lits s))) by lia.
    assert (Hml : 0 <= s_mlen s - 4) by lia.
    pose proof (enc_nib_range _ Hml) as Hnml.
    rewrite token_hi, token_lo by assumption.
    rewrite read_len_enc by assumption.
    rewrite Nat2Z.id, take_app.
    rewrite read_len_enc by assumption.
    rewrite IH by (try assumption; cbn [length] in Hfuel; lia).
    destruct s as [lits off mlen]. cbn [s_lits s_off s_mlen] in *.
    replace (off mod 256 + 256 * (off / 256)) with off by zlia.
    replace (mlen - 4 + 4) with mlen by lia.
    reflexivity.
Qed.

Lemma seq_wf_mlen : forall ss, Forall seq_wf ss -> Forall (fun s => 4 <= s_mlen s) ss.
Proof.
  intros ss H. eapply Forall_impl; [|exact H].
  intros s (_ & _ & Hm). exact Hm.
Qed.

Lemma encode_seq_length : forall s, (1 <= length (encode_seq s))%nat.
Proof. intros s. unfold encode_seq. cbv zeta. cbn [length]. lia. Qed.

Lemma encode_block_length : forall ss last,
  (length ss < length (encode_block ss last))%nat.
Proof.
  induction ss as [|s ss IH]; intros last.
  - unfold encode_block, encode_last. cbv zeta. cbn [map concat app length]. lia.
  - rewrite encode_block_cons, app_length. cbn [length].
    pose proof (encode_seq_length s). specialize (IH last). lia.
Qed.

Theorem parse_encode_block : forall ss last,
  Forall seq_wf ss -> bytes_ok last = true ->
  parse_block (encode_block ss last) = Some (ss, last).
Proof.
  intros ss last Hwf _. unfold parse_block.
  apply parse_seqs_encode; [apply seq_wf_mlen; assumption|].
  pose proof (encode_block_length ss last). lia.
Qed.

(* ---- 3. decoding an encoded block is the sequence semantics ------------ *)

Theorem spec_decode_encode : forall hist ss last,
  Forall seq_wf ss -> bytes_ok last = true ->
  spec_decode hist (encode_block ss last) = run_seqs hist ss last.
Proof.
  intros hist ss last Hwf Hl. unfold spec_decode.
  rewrite parse_encode_block by assumption. reflexivity.
Qed.

Theorem strict_valid_encode : forall hist ss last,
  Forall seq_wf ss -> bytes_ok last = true ->
  strict_valid hist (encode_block ss last) = (if end_ok ss last then run_seqs hist ss last else None).
Proof.
  intros hist ss last Hwf Hl. unfold strict_valid.
  rewrite parse_encode_block by assumption. reflexivity.
Qed.

(* ---- 4. every encoded byte is a byte ----------------------------------- *)

Lemma bytes_ok_app : forall a b, bytes_ok (a ++ b) = bytes_ok a && bytes_ok b.
Proof. intros. unfold bytes_ok. apply forallb_app. Qed.

Lemma bytes_ok_cons : forall b l, bytes_ok (b :: l) = byte_ok b && bytes_ok l.
Proof. reflexivity. Qed.

Lemma bytes_ok_repeat : forall n, bytes_ok (repeat 255 n) = true.
Proof.
  induction n as [|n IH]; [reflexivity|].
  cbn [repeat]. rewrite bytes_ok_cons, IH. reflexivity.
Qed.

Lemma bytes_ok_ext_len : forall v, bytes_ok (ext_len v) = true.
Proof.
  intros v. unfold ext_len.
  rewrite bytes_ok_app, bytes_ok_repeat, bytes_ok_cons.
  cbn [bytes_ok forallb]. unfold byte_ok.
  rewrite !andb_true_r, andb_true_l.
  apply andb_true_intro; split; [apply Z.leb_le | apply Z.ltb_lt]; zlia.
Qed.

Lemma bytes_ok_enc_ext : forall v, bytes_ok (enc_ext v) = true.
Proof.
  intros v. unfold enc_ext. destruct (v <? 15); [reflexivity | apply bytes_ok_ext_len].
Qed.

Lemma byte_ok_intro : forall b, 0 <= b < 256 -> byte_ok b = true.
Proof.
  intros b Hb. unfold byte_ok.
  apply andb_true_intro; split; [apply Z.leb_le | apply Z.ltb_lt]; lia.
Qed.

Lemma byte_ok_token : forall a b, 0 <= a -> 0 <= b ->
  byte_ok (enc_nib a * 16 + enc_nib b) = true.
Proof.
  intros a b Ha Hb.
  pose proof (enc_nib_range _ Ha). pose proof (enc_nib_range _ Hb).
  apply byte_ok_intro; lia.
Qed.

Lemma encode_seq_bytes : forall s, seq_wf s -> bytes_ok (encode_seq s) = true.
Proof.
  intros s (Hl & Ho & Hm). unfold encode_seq. cbv zeta.
  rewrite bytes_ok_cons, !bytes_ok_app, !bytes_ok_cons.
  rewrite byte_ok_token by lia.
  rewrite !bytes_ok_enc_ext, Hl.
  rewrite !byte_ok_intro by zlia.
  reflexivity.
Qed.

Lemma encode_last_bytes : forall last, bytes_ok last = true -> bytes_ok (encode_last last) = true.
Proof.
  intros last Hl. unfold encode_last. cbv zeta.
  rewrite bytes_ok_cons, bytes_ok_app, bytes_ok_enc_ext, Hl.
  pose proof (enc_nib_range (Z.of_nat (length last)) ltac:(lia)).
  rewrite byte_ok_intro by lia. reflexivity.
Qed.

Theorem encode_block_bytes : forall ss last,
  Forall seq_wf ss -> bytes_ok last = true -> bytes_ok (encode_block ss last) = true.
Proof.
  induction ss as [|s ss IH]; intros last Hwf Hl.
  - unfold encode_block. cbn [map concat app]. apply encode_last_bytes; assumption.
  - inversion Hwf as [|s' ss' Hs Hss]; subst.
    rewrite encode_block_cons, bytes_ok_app.
    rewrite encode_seq_bytes by assumption.
    rewrite IH by assumption. reflexivity.
Qed.

(* ---- examples of the format document ----------------------------------- *)
(* literal length 48: token nibble 15, then 33 (48 - 15) *)
Example ex_len_48 : (enc_nib 48, enc_ext 48) = (15, [33]).
Proof. vm_compute. reflexivity. Qed.
(* literal length 280: 15, then 255, then 10 *)
Example ex_len_280 : (enc_nib 280, enc_ext 280) = (15, [255; 10]).
Proof. vm_compute. reflexivity. Qed.
(* literal length 15: 15, then 0 *)
Example ex_len_15 : (enc_nib 15, enc_ext 15) = (15, [0]).
Proof. vm_compute. reflexivity. Qed.
(* ... and lengths below 15 have no additional byte *)
Example ex_len_14 : (enc_nib 14, enc_ext 14) = (14, []).
Proof. vm_compute. reflexivity. Qed.
(* reading them back *)
Example ex_read_280 : read_len 15 [255; 10; 7] = Some (280, [7]).
Proof. vm_compute. reflexivity. Qed.
(* a multiple of 255 above 15 needs a trailing 0: 15 + 255 = 270 *)
Example ex_len_270 : (enc_nib 270, enc_ext 270) = (15, [255; 0]).
Proof. vm_compute. reflexivity. Qed.

(* a small complete block: "ab", match (offset 2, length 6), then "cdefg" *)
Example ex_block :
  encode_block [mkSeq [97; 98] 2 6] [99; 100; 101; 102; 103]
  = [34; 97; 98; 2; 0; 80; 99; 100; 101; 102; 103].
Proof. vm_compute. reflexivity. Qed.
Example ex_block_parse :
  parse_block [34; 97; 98; 2; 0; 80; 99; 100; 101; 102; 103]
  = Some ([mkSeq [97; 98] 2 6], [99; 100; 101; 102; 103]).
Proof. vm_compute. reflexivity. Qed.
Example ex_block_decode :
  spec_decode [] [34; 97; 98; 2; 0; 80; 99; 100; 101; 102; 103]
  = Some [97; 98; 97; 98; 97; 98; 97; 98; 99; 100; 101; 102; 103].
Proof. vm_compute. reflexivity. Qed.

Print Assumptions read_len_enc.
Print Assumptions parse_encode_block.
Print Assumptions spec_decode_encode.
Print Assumptions strict_valid_encode.
Print Assumptions encode_block_bytes.
