(* The one-shot HC entry points at the LZ4MID levels (Model.HcMidApi), for any prior state of the context:
   whatever was compressed before with the same LZ4_streamHC_t, a positive result is a block that the
   specification decodes to the input (strictly valid in the non-destSize entry points); nothing is written
   beyond the capacity in the limited modes; with a capacity of at least LZ4_compressBound the call succeeds. *)
From Coq Require Import ZArith List Lia Bool ZifyBool.
From LZ4V Require Import Gen.Consts Spec.BlockSpec Model.Mem Model.Fast Model.FastApi Model.HcEmit Model.HcMid Model.HcMidApi.
From LZ4V Require Import Proofs.BlockSpecProofs Proofs.FactorSpec Proofs.FastBasics Proofs.FastCap Proofs.FastApiSound.
From LZ4V Require Import Proofs.HcMidSound Proofs.HcMidCap Proofs.HcMidFill.
Import ListNotations.
Local Open Scope Z_scope.

(* entries of both tables are indices not above the index reached so far; a dirty context is re-initialised
   before use, so nothing is required of it *)
Definition hc_ok (c : hcctx) : Prop :=
  hc_dirty c = true \/ (0 <= hc_endIdx c /\ tab_lt (hc_h4 c) (hc_endIdx c + 1) /\ tab_lt (hc_h8 c) (hc_endIdx c + 1)).

Lemma tab_lt_empty b : 0 < b -> tab_lt empty b.
Proof. intros H k. unfold get, empty. rewrite FMapPositive.PositiveMap.gempty. lia. Qed.

Lemma hc_ok_init : hc_ok hc_init.
Proof. right. cbn. split; [lia|]. split; apply tab_lt_empty; lia. Qed.

Lemma hc_reset_fast_ok c : hc_ok c ->
  let c' := hc_reset_fast c in
  hc_dirty c' = false /\ 0 <= hc_endIdx c' /\ tab_lt (hc_h4 c') (hc_endIdx c' + 1) /\ tab_lt (hc_h8 c') (hc_endIdx c' + 1).
Proof.
  intros H. unfold hc_reset_fast. cbv zeta. destruct (hc_dirty c) eqn:E.
  - cbn. split; [reflexivity|]. split; [lia|]. split; apply tab_lt_empty; lia.
  - destruct H as [H|H]; [congruence|]. split; [exact E | exact H].
Qed.

Lemma hc_init_internal_ok c :
  0 <= hc_endIdx c -> tab_lt (hc_h4 c) (hc_endIdx c + 1) -> tab_lt (hc_h8 c) (hc_endIdx c + 1) ->
  let '(c1, start) := hc_init_internal c in
  65536 <= start <= 1073741824 + 65536 /\ tab_lt (hc_h4 c1) start /\ tab_lt (hc_h8 c1) start /\ hc_dirty c1 = hc_dirty c.
Proof.
  intros H0 H4 H8. unfold hc_init_internal. destruct (hc_endIdx c >? 1073741824) eqn:E.
  - cbn. split; [lia|]. split; [apply tab_lt_empty; lia|]. split; [apply tab_lt_empty; lia | reflexivity].
  - split; [lia|]. split; [eapply tab_lt_mono; eauto; lia|]. split; [eapply tab_lt_mono; eauto; lia | reflexivity].
Qed.

Definition hwlim_of (lim : outdir) (srcSize cap : Z) : Z :=
  match lim with NotLimited => srcSize + srcSize / 255 + 16 | _ => cap end.

Theorem hc_generic_mid_sound c start src srcSize cap lim :
  src_ok src -> 65536 <= start <= 1073741824 + 65536 -> tab_lt (hc_h4 c) start -> tab_lt (hc_h8 c) start ->
  0 <= srcSize < 2147483648 -> 0 <= cap ->            (* srcSize is an int *)
  let r := hc_generic_mid c start src srcSize cap lim in
  hc_ok (hr_ctx r) /\
  hr_hw r <= hwlim_of lim srcSize cap /\
  (lim = NotLimited -> srcSize <= LZ4_MAX_INPUT_SIZE -> 0 < hr_ret r) /\
  (0 < hr_ret r ->
     hr_ret r = Z.of_nat (length (hr_out r)) /\ hr_ret r <= hwlim_of lim srcSize cap /\
     0 <= hr_consumed r <= srcSize /\
     spec_decode [] (hr_out r) = Some (load_list src 0 (Z.to_nat (hr_consumed r))) /\
     (lim <> FillOutput -> hr_consumed r = srcSize /\
                           strict_valid [] (hr_out r) = Some (load_list src 0 (Z.to_nat srcSize)))).
Proof.
  intros Hsrc Hst T4 T8 [Hsz Hint] Hcap. unfold hc_generic_mid.
  change (hwlim_of lim srcSize cap) with (hwlim lim srcSize cap).
  assert (Hh0 : 0 <= hwlim lim srcSize cap).
  { unfold hwlim. destruct lim; try lia. assert (0 <= srcSize / 255) by (Z.div_mod_to_equations; lia). lia. }
  assert (OkSame : hc_ok {| hc_h4 := hc_h4 c; hc_h8 := hc_h8 c; hc_endIdx := start; hc_dirty := hc_dirty c |}).
  { right. cbn. split; [lia|]. split; eapply tab_lt_mono; eauto; lia. }
  destruct (match lim with FillOutput => cap <? 1 | _ => false end) eqn:E0.
  { cbn. split; [exact OkSame|]. split; [lia|]. split; [destruct lim; try discriminate; intros; congruence | lia]. }
  destruct (u32 srcSize >? LZ4_MAX_INPUT_SIZE) eqn:E1.
  { cbn. split; [exact OkSame|]. split; [lia|]. split; [|lia].
    intros _ Hm. rewrite u32_id in E1 by (unfold M32, LZ4_MAX_INPUT_SIZE in *; lia). lia. }
  assert (Hmax : srcSize <= LZ4_MAX_INPUT_SIZE).
  { rewrite u32_id in E1 by (unfold M32; lia). lia. }
  cbv zeta.
  set (vrd := fun p => get src (p - start)).
  assert (Hb : forall a, 0 <= vrd a < 256) by (intros a; apply Hsrc).
  assert (Hidx : 0 <= start /\ start <= start /\ start <= start /\ start + srcSize < M32)
    by (unfold M32, LZ4_MAX_INPUT_SIZE in *; lia).
  assert (Hlo : 0 <= start <= start) by lia.
  assert (Hnd : forall ip f, start <= ip <= mi_mflimit start srcSize -> (fun _ : Z => @None found) ip = Some f -> found_ok vrd start srcSize start ip f)
    by (intros ip f _ Hx; discriminate Hx).
  pose proof (mid_compress_sound vrd lim start start start srcSize cap Hb Hidx Hsz start Hlo (fun _ => None) Hnd (hc_h4 c) (hc_h8 c) T4 T8) as HS.
  pose proof (mid_compress_cap vrd lim start start start srcSize cap Hb Hidx Hsz Hcap start Hlo (fun _ => None) Hnd (hc_h4 c) (hc_h8 c) Hmax T4 T8) as HC.
  destruct (mid_compress vrd lim start start start srcSize cap (fun _ => None) (hc_h4 c) (hc_h8 c)) as [h4 h8 hw | ret consumed out h4 h8 hw | ].
  - cbn [RCap] in HC. destruct HC as (HC1 & HC2). cbn.
    split; [left; reflexivity|]. split; [exact HC1|]. split; [intros; congruence | lia].
  - cbn [RSpec] in HS. cbn [RCap] in HC. destruct HS as (S1 & S2 & S3 & S4 & S5 & S6 & S7 & SB). destruct HC as (C1 & C2).
    unfold mi_iend in *.
    assert (Ok1 : hc_ok {| hc_h4 := h4; hc_h8 := h8; hc_endIdx := start + srcSize; hc_dirty := if ret <=? 0 then true else hc_dirty c |}).
    { right. cbn. split; [lia|]. split; eapply tab_lt_mono; eauto; lia. }
    cbn [hr_ctx hr_hw hr_ret hr_out hr_consumed].
    split.
    { destruct lim; try exact Ok1.
      destruct ((0 <? ret) && (consumed <? srcSize)); [|exact Ok1].
      destruct Ok1 as [Od|(O1 & O2 & O3)].
      - cbn in Od. unfold hc_init_internal. cbn [hc_endIdx hc_dirty]. destruct (start + srcSize >? 1073741824); left; cbn; exact Od.
      - pose proof (hc_init_internal_ok _ O1 O2 O3) as HI.
        destruct (hc_init_internal _) as [c3 off]. destruct HI as (I1 & I2 & I3 & I4).
        right. cbn. split; [lia|]. split; eapply tab_lt_mono; eauto; lia. }
    split; [exact C1|]. split; [intros; lia|].
    intros Hpos. split; [exact S5|]. split; [lia|]. split; [exact S1|].
    unfold vrd in S3, S4. rewrite (seg_nil _ start start) in * by lia.
    rewrite seg_load in S3 by lia. split; [exact S3|].
    intros Hn. specialize (S2 Hn). specialize (S4 Hn). subst consumed.
    rewrite seg_load in S4 by lia. split; [reflexivity | exact S4].
  - cbn [RCap] in HC. cbn. split; [left; reflexivity|]. split; [lia|]. split; [intros; congruence | lia].
Qed.

(* fillOutput: the block is strictly valid too *)
Theorem hc_generic_mid_fill_strict c start src srcSize cap :
  src_ok src -> 65536 <= start <= 1073741824 + 65536 -> tab_lt (hc_h4 c) start -> tab_lt (hc_h8 c) start ->
  0 <= srcSize < 2147483648 -> 0 <= cap ->
  let r := hc_generic_mid c start src srcSize cap FillOutput in
  0 < hr_ret r -> strict_valid [] (hr_out r) = Some (load_list src 0 (Z.to_nat (hr_consumed r))).
Proof.
  intros Hsrc Hst T4 T8 [Hsz Hint] Hcap. unfold hc_generic_mid.
  destruct (cap <? 1) eqn:E0; [cbn; lia|].
  destruct (u32 srcSize >? LZ4_MAX_INPUT_SIZE) eqn:E1; [cbn; lia|].
  assert (Hmax : srcSize <= LZ4_MAX_INPUT_SIZE) by (rewrite u32_id in E1 by (unfold M32; lia); lia).
  cbv zeta.
  set (vrd := fun p => get src (p - start)).
  assert (Hb : forall a, 0 <= vrd a < 256) by (intros a; apply Hsrc).
  assert (Hidx : 0 <= start /\ start <= start /\ start <= start /\ start + srcSize < M32)
    by (unfold M32, LZ4_MAX_INPUT_SIZE in *; lia).
  assert (Hlo : 0 <= start <= start) by lia.
  assert (Hnd : forall ip f, start <= ip <= mi_mflimit start srcSize -> (fun _ : Z => @None found) ip = Some f -> found_ok vrd start srcSize start ip f)
    by (intros ip f _ Hx; discriminate Hx).
  pose proof (mid_compress_sound vrd FillOutput start start start srcSize cap Hb Hidx Hsz start Hlo (fun _ => None) Hnd (hc_h4 c) (hc_h8 c) T4 T8) as HS.
  pose proof (mid_compress_fill_strict vrd start start start srcSize cap Hb Hidx Hsz start Hlo (fun _ => None) Hnd (hc_h4 c) (hc_h8 c) T4 T8) as HF.
  destruct (mid_compress vrd FillOutput start start start srcSize cap (fun _ => None) (hc_h4 c) (hc_h8 c)) as [h4 h8 hw | ret consumed out h4 h8 hw | ].
  - cbn; lia.
  - cbn [RSpec] in HS. cbn [RFill] in HF. destruct HS as (S1 & _).
    cbn [hr_ret hr_out hr_consumed]. intros _.
    unfold vrd in HF. rewrite (seg_nil _ start start) in HF by lia. rewrite seg_load in HF by lia. exact HF.
  - cbn; lia.
Qed.

(* ---- the entry points ---- *)
Definition mid_call_ok (src : mem) (srcSize cap : Z) (lim : outdir) (r : hres) : Prop :=
  hc_ok (hr_ctx r) /\
  hr_hw r <= hwlim_of lim srcSize cap /\
  (0 < hr_ret r ->
     hr_ret r = Z.of_nat (length (hr_out r)) /\ hr_ret r <= hwlim_of lim srcSize cap /\
     0 <= hr_consumed r <= srcSize /\
     spec_decode [] (hr_out r) = Some (load_list src 0 (Z.to_nat (hr_consumed r))) /\
     (lim <> FillOutput -> hr_consumed r = srcSize /\
                           strict_valid [] (hr_out r) = Some (load_list src 0 (Z.to_nat srcSize)))).

(* LZ4_compress_HC_extStateHC_fastReset at levels 1-2, on a context with ANY history *)
Theorem compress_HC_fastReset_mid_sound c src srcSize cap :
  hc_ok c -> src_ok src -> 0 <= srcSize < 2147483648 -> 0 <= cap ->
  let r := compress_HC_fastReset_mid c src srcSize cap in
  let lim := if cap <? compressBound srcSize then LimitedOutput else NotLimited in
  mid_call_ok src srcSize cap lim r /\
  (compressBound srcSize <= cap -> srcSize <= LZ4_MAX_INPUT_SIZE -> 0 < hr_ret r /\ hr_hw r <= compressBound srcSize).
Proof.
  intros Hc Hsrc Hsz Hcap. unfold compress_HC_fastReset_mid.
  pose proof (hc_reset_fast_ok c Hc) as HR. cbv zeta in HR. destruct HR as (R0 & R1 & R2 & R3).
  pose proof (hc_init_internal_ok (hc_reset_fast c) R1 R2 R3) as HI.
  destruct (hc_init_internal (hc_reset_fast c)) as [c1 start]. destruct HI as (I1 & I2 & I3 & I4).
  cbv zeta.
  pose proof (hc_generic_mid_sound c1 start src srcSize cap (if cap <? compressBound srcSize then LimitedOutput else NotLimited)
                Hsrc I1 I2 I3 Hsz Hcap) as H. cbv zeta in H. destruct H as (H1 & H2 & H3 & H4).
  split; [split; [exact H1 | split; [exact H2 | exact H4]]|].
  intros Hb Hm. destruct (cap <? compressBound srcSize) eqn:E; [lia|].
  split; [apply H3; [reflexivity | exact Hm]|].
  unfold hwlim_of in H2. unfold compressBound.
  replace ((srcSize <? 0) || (srcSize >? LZ4_MAX_INPUT_SIZE)) with false by lia. exact H2.
Qed.

(* LZ4_compress_HC_destSize at levels 1-2 *)
Theorem compress_HC_destSize_mid_sound src srcSize target :
  src_ok src -> 0 <= srcSize < 2147483648 -> 0 <= target ->
  mid_call_ok src srcSize target FillOutput (compress_HC_destSize_mid src srcSize target).
Proof.
  intros Hsrc Hsz Ht. unfold compress_HC_destSize_mid.
  pose proof hc_ok_init as [Hd|(A1 & A2 & A3)]; [discriminate Hd|].
  pose proof (hc_init_internal_ok hc_init A1 A2 A3) as HI.
  destruct (hc_init_internal hc_init) as [c1 start]. destruct HI as (I1 & I2 & I3 & I4).
  pose proof (hc_generic_mid_sound c1 start src srcSize target FillOutput Hsrc I1 I2 I3 Hsz Ht) as H.
  cbv zeta in H. destruct H as (H1 & H2 & H3 & H4).
  split; [exact H1 | split; [exact H2 | exact H4]].
Qed.

(* ---- any history of fast-reset one-shot compressions on one LZ4_streamHC_t ---- *)
Record mcall := mkMC { mk_src : mem; mk_size : Z; mk_cap : Z }.
Fixpoint run_mid_history (c : hcctx) (calls : list mcall) : list (mcall * hres) :=
  match calls with
  | [] => []
  | k :: r => let a := compress_HC_fastReset_mid c (mk_src k) (mk_size k) (mk_cap k) in
              (k, a) :: run_mid_history (hr_ctx a) r
  end.

Theorem mid_history_sound : forall calls c,
  hc_ok c ->
  Forall (fun k => src_ok (mk_src k) /\ 0 <= mk_size k < 2147483648 /\ 0 <= mk_cap k) calls ->
  Forall (fun ka => let '(k, a) := ka in
            (mk_cap k < compressBound (mk_size k) -> hr_hw a <= mk_cap k) /\
            (0 < hr_ret a ->
               hr_ret a = Z.of_nat (length (hr_out a)) /\
               strict_valid [] (hr_out a) = Some (load_list (mk_src k) 0 (Z.to_nat (mk_size k)))))
         (run_mid_history c calls).
Proof.
  induction calls as [|k r IH]; intros c Hc Hs; cbn [run_mid_history]; [constructor|].
  inversion Hs as [|k' r' (K1 & K2 & K3) Hr]; subst.
  pose proof (compress_HC_fastReset_mid_sound c (mk_src k) (mk_size k) (mk_cap k) Hc K1 K2 K3) as H.
  cbv zeta in H. destruct H as ((H1 & H2 & H3) & _).
  constructor; [|apply IH; assumption].
  split.
  - intros Hlt. replace (mk_cap k <? compressBound (mk_size k)) with true in H2 by lia. exact H2.
  - intros Hpos. specialize (H3 Hpos). destruct H3 as (A & _ & _ & _ & B).
    split; [exact A|]. apply B. destruct (mk_cap k <? compressBound (mk_size k)); discriminate.
Qed.

(* LZ4_compress_HC_destSize at levels 1-2: strict validity of the returned block *)
Theorem compress_HC_destSize_mid_strict src srcSize target :
  src_ok src -> 0 <= srcSize < 2147483648 -> 0 <= target ->
  let r := compress_HC_destSize_mid src srcSize target in
  0 < hr_ret r -> strict_valid [] (hr_out r) = Some (load_list src 0 (Z.to_nat (hr_consumed r))).
Proof.
  intros Hsrc Hsz Ht. unfold compress_HC_destSize_mid.
  pose proof hc_ok_init as [Hd|(A1 & A2 & A3)]; [discriminate Hd|].
  pose proof (hc_init_internal_ok hc_init A1 A2 A3) as HI.
  destruct (hc_init_internal hc_init) as [c1 start]. destruct HI as (I1 & I2 & I3 & I4).
  apply hc_generic_mid_fill_strict; assumption.
Qed.

Print Assumptions compress_HC_destSize_mid_strict.
Print Assumptions compress_HC_fastReset_mid_sound.
Print Assumptions compress_HC_destSize_mid_sound.
Print Assumptions mid_history_sound.

(* sizes that are negative or above LZ4_MAX_INPUT_SIZE yield 0 (srcSize is an int: |srcSize| <= 2^31) *)
Theorem compress_HC_fastReset_mid_bad_size c src srcSize cap :
  -2147483648 <= srcSize < 2147483648 -> (srcSize < 0 \/ LZ4_MAX_INPUT_SIZE < srcSize) ->
  hr_ret (compress_HC_fastReset_mid c src srcSize cap) = 0.
Proof.
  intros Hint Hbad. unfold compress_HC_fastReset_mid.
  destruct (hc_init_internal (hc_reset_fast c)) as [c1 start].
  unfold hc_generic_mid.
  assert (Hu : (u32 srcSize >? LZ4_MAX_INPUT_SIZE) = true).
  { unfold u32, M32, LZ4_MAX_INPUT_SIZE in *. destruct Hbad as [Hn|Hb]; Z.div_mod_to_equations; lia. }
  rewrite Hu.
  destruct (cap <? compressBound srcSize); cbn; reflexivity.
Qed.
Print Assumptions compress_HC_fastReset_mid_bad_size.
