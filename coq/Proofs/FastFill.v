(* The fillOutput directive of the fast compressor model (LZ4_compress_destSize with a budget
   below LZ4_compressBound): for every input and every budget >= 1 the call succeeds, consumes a
   prefix of the input, writes at most the budget (high-water mark included), and emits a
   factorisation of exactly the consumed prefix that satisfies the end-of-block restrictions.

   Three fillOutput mechanisms are covered: rewinding a sequence whose literals or match would not
   leave room (goto _last_literals), shortening the last match so that exactly 1+LASTLITERALS
   bytes remain, and adapting the final literal run to the remaining room.  After a shortened
   match the table may hold positions beyond the new anchor (the C code clears them); the proof
   does not need the table from there on, because the output is then so full ("Full" states)
   that every later candidate sequence is rewound. *)
From Coq Require Import ZArith List Lia Bool ZifyBool.
From LZ4V Require Import Gen.Consts Spec.BlockSpec Model.Mem Model.Fast
     Proofs.BlockSpecProofs Proofs.FactorSpec Proofs.FastBasics Proofs.FastSound Proofs.FastCap.
Import ListNotations.
Local Open Scope Z_scope.

Section Fill.
  Variable vrd : Z -> Z.
  Variables (tt : ttype) (dd : cdict) (dictSmall : bool).
  Variables (startIndex dictSize : Z) (dtable : mem) (dictDelta inputSize olim acceleration : Z).

  Hypothesis Hb : forall a, 0 <= vrd a < 256.
  Hypothesis Hds : 0 <= dictSize.
  Hypothesis Hn : 0 <= inputSize.
  Hypothesis Holim : 1 <= olim.
  Variable L : Z.
  Hypothesis HL : L <= startIndex.
  Hypothesis Hdt : dd = CUsingDictCtx ->
                   forall h, get dtable h + dictDelta < startIndex /\
                             good3 tt dd dictSmall startIndex dictSize (get dtable h + dictDelta).
  Hypothesis Hu16 : dist_active tt = false ->
                    startIndex + inputSize - MFLIMIT - hist_lo dd startIndex dictSize <= 65535.

  Hypothesis Hs0 : 0 <= startIndex.
  Hypothesis Hidx : tt = ByU16 ->
                    mflimitPlusOne startIndex inputSize <= 65536
                    \/ (dictSmall = true /\ 65536 <= startIndex - dictSize /\ L <= 0).

  Let hlo := hist_lo dd startIndex dictSize.
  Let tok_ok := tab_ok tt dd dictSmall startIndex dictSize L.
  Let iend_ := iend startIndex inputSize.
  Let mfl := mflimitPlusOne startIndex inputSize.
  Let mlim := matchlimit startIndex inputSize.

  Let cand_spec := candidate_spec tt dd dictSmall startIndex dictSize dtable dictDelta inputSize Hds L Hdt Hu16 Hidx.
  Let t_set := tab_ok_put tt dd dictSmall startIndex dictSize dtable dictDelta inputSize Hds L HL Hdt Hu16 Hs0 Hidx.
  Let off_bound := offset_bound tt dd dictSmall startIndex dictSize inputSize L Hu16 Hidx.

  Lemma t_mono c c' tab : tok_ok c tab -> c <= c' -> tok_ok c' tab.
  Proof. intros H Hc h. destruct (H h). split; [lia | assumption]. Qed.

  (* ---- invariants ---- *)
  Definition FCore (anchor : Z) (seqs : list seq) (op hw : Z) : Prop :=
    startIndex <= anchor <= iend_ /\
    seqs_valid vrd hlo startIndex (rev seqs) /\ seqs_end startIndex (rev seqs) = anchor /\
    op = sumlen seqs /\ op <= hw <= olim /\
    match seqs with
    | [] => True
    | q :: _ => anchor <= mlim /\ anchor - s_mlen q <= iend_ - MFLIMIT /\
                op + 6 <= olim /\ op + 13 - s_mlen q <= olim /\ 4 <= s_mlen q
    end.

  Definition FInv (s : cstate) : Prop := FCore (c_anchor s) (c_seqs s) (c_op s) (c_hw s).

  Definition FPre (s : cstate) (tok l mi low fi : Z) : Prop :=
    FCore (c_anchor s) (c_seqs s) tok (c_hw s) /\
    c_anchor s <= c_ip s /\ l = c_ip s - c_anchor s /\
    hlo <= low <= mi /\ mi < c_ip s /\ c_ip s - mi <= 65535 /\
    c_ip s < mfl /\ fi < mfl /\
    (forall k, 0 <= k < Z.max 4 (fi - c_ip s + 4) -> vrd (c_ip s + k) = vrd (mi + k)) /\
    tok_ok (Z.max fi (c_ip s) + 1) (c_tab s) /\
    c_op s = tok + 1 + extlen l + l /\ c_op s <= c_hw s.

  (* pending sequence in a Full state: it will be rewound *)
  Definition FPreFull (s : cstate) (tok : Z) : Prop :=
    FCore (c_anchor s) (c_seqs s) tok (c_hw s) /\ olim < c_op s + 11.

  Definition NFill (n : next) : Prop :=
    match n with
    | NLast s => FInv s
    | NFail _ => False
    | NLoop s _ => FInv s /\ c_anchor s <= c_ip s /\ startIndex + 1 <= c_ip s <= mfl /\
                   (tok_ok (c_ip s) (c_tab s) \/ olim < c_op s + 12)
    | NMatch s tok l mi low fi => (FPre s tok l mi low fi \/ FPreFull s tok) /\ c_ip s < mfl /\ startIndex <= c_ip s
    end.

  Lemma mfl_le : mfl <= iend_.
  Proof. unfold mfl, mflimitPlusOne, iend_, MFLIMIT. lia. Qed.

  (* ---- search ---- *)
  Lemma search_fill : forall fuel s forwardIp step smn fh tab,
    FInv s -> c_anchor s <= forwardIp -> startIndex + 1 <= forwardIp <= mfl ->
    (tok_ok forwardIp tab \/ olim < c_op s + 12) ->
    1 <= step -> 2 ^ LZ4_skipTrigger <= smn -> mfl - forwardIp < Z.of_nat fuel ->
    NFill (search vrd tt FillOutput dd dictSmall startIndex dictSize dtable dictDelta inputSize olim
                  fuel s forwardIp step smn fh tab).
  Proof.
    induction fuel as [|f IH]; intros s forwardIp step smn fh tab HF Ha Hf Hmode Hstep Hsmn Hfuel;
      cbn [search]; [lia|].
    pose proof (cand_spec forwardIp tab fh) as Hc.
    destruct (candidate dd startIndex dictSize dtable dictDelta tab fh) as [mi low].
    cbv zeta. fold mfl.
    destruct (forwardIp + step >? mfl) eqn:E1.
    { cbn [NFill]. exact HF. }
    assert (Hmode' : tok_ok (forwardIp + 1) (set tab fh (idx tt forwardIp)) \/ olim < c_op s + 12).
    { destruct Hmode as [Ht|Hfull]; [left | right; exact Hfull].
      apply (t_set forwardIp); [exact Ht | lia | lia | fold mfl; lia]. }
    assert (Hrec : NFill (search vrd tt FillOutput dd dictSmall startIndex dictSize dtable dictDelta inputSize olim
                            f s (forwardIp + step) (smn / 2 ^ LZ4_skipTrigger) (smn + 1)
                            (hashPosition vrd tt (forwardIp + step)) (set tab fh (idx tt forwardIp)))).
    { apply IH; try assumption; try lia.
      - destruct Hmode' as [Ht|Hfull]; [left; eapply t_mono; [exact Ht | lia] | right; exact Hfull].
      - assert (0 < 2 ^ LZ4_skipTrigger) by (unfold LZ4_skipTrigger; lia).
        apply Z.div_le_lower_bound; lia. }
    destruct (dictSmall && (mi <? prefixIdxLimit startIndex dictSize)) eqn:E2; [exact Hrec|].
    destruct ((match tt with ByU16 => LZ4_DISTANCE_MAX <? LZ4_DISTANCE_ABSOLUTE_MAX | ByU32 => true end)
              && (mi + LZ4_DISTANCE_MAX <? forwardIp)) eqn:E3; [exact Hrec|].
    destruct (read32 vrd mi =? read32 vrd forwardIp) eqn:E4; [|exact Hrec].
    cbn [andb].
    pose proof (catchup_spec vrd (Z.to_nat (forwardIp - c_anchor s)) forwardIp mi (c_anchor s) low 0) as Hcu.
    cbv zeta in Hcu.
    set (back := catchup vrd (Z.to_nat (forwardIp - c_anchor s)) forwardIp mi (c_anchor s) low 0) in *.
    destruct Hcu as (Hb1 & Hb2 & Hb3 & Hb4).
    set (l := forwardIp - back - c_anchor s) in *.
    assert (Hl : 0 <= l) by (unfold l; lia).
    pose proof (extlen_nonneg l) as Hel0.
    assert (Hel1 : extlen l <= (l + 240) / 255).
    { unfold extlen. destruct (l <? 15) eqn:B; Z.div_mod_to_equations; lia. }
    assert (Hext : (if l >=? RUN_MASK then c_op s + 1 + (l - RUN_MASK) / 255 + 1 else c_op s + 1)
                   = c_op s + 1 + extlen l).
    { unfold extlen, RUN_MASK. destruct (l >=? 15) eqn:A; destruct (l <? 15) eqn:B; lia. }
    pose proof (wild8_len_bounds_cap (c_op s + 1 + extlen l) l Hl) as Hw.
    unfold olimit.
    destruct (c_op s + 1 + (l + 240) / 255 + l + 2 + 1 + MFLIMIT - MINMATCH >? olim) eqn:Eg.
    { (* rewind: goto _last_literals *)
      cbn [NFill]. unfold FInv. cbn [c_anchor c_seqs c_op c_hw].
      replace (c_op s + 1 - 1) with (c_op s) by lia. exact HF. }
    (* the sequence proceeds: we must be in Normal mode *)
    destruct Hmode as [Ht|Hfull]; [|unfold MFLIMIT, MINMATCH in Eg; lia].
    specialize (Hc Ht ltac:(lia)). destruct Hc as [Hmi Hlow].
    assert (N1 : ~ (dictSmall = true /\ mi < startIndex - dictSize)).
    { intros [A B]. unfold prefixIdxLimit in E2. rewrite A in E2. lia. }
    assert (N2 : ~ (dist_active tt = true /\ mi + LZ4_DISTANCE_MAX < forwardIp)).
    { intros [A B]. unfold dist_active in A. rewrite A in E3. lia. }
    specialize (Hlow N1 N2).
    rewrite Hext.
    destruct HF as (F1 & F2 & F3 & F4 & F5 & F6).
    cbn [NFill c_ip]. split; [|split; [lia | lia]]. left.
    unfold FPre. cbn [c_ip c_anchor c_seqs c_tab c_op c_hw].
    split.
    { unfold FCore. split; [exact F1|]. split; [exact F2|]. split; [exact F3|]. split; [exact F4|].
      split; [unfold MFLIMIT, MINMATCH in Eg; lia | exact F6]. }
    split; [lia|]. split; [reflexivity|]. split; [fold hlo in Hlow; lia|]. split; [lia|].
    split; [pose proof (off_bound mi forwardIp ltac:(fold hlo in Hlow; unfold hlo in *; lia) ltac:(fold mfl; lia) N2); lia|].
    split; [lia|]. split; [lia|]. split.
    - intros k Hk.
      destruct (Z_lt_le_dec k back) as [Hkb|Hkb].
      + replace (forwardIp - back + k) with (forwardIp - (back - k)) by lia.
        replace (mi - back + k) with (mi - (back - k)) by lia. apply Hb4. lia.
      + replace (forwardIp - back + k) with (forwardIp + (k - back)) by lia.
        replace (mi - back + k) with (mi + (k - back)) by lia.
        apply (read32_eq vrd Hb); [symmetry; apply Z.eqb_eq; exact E4 | lia].
    - split; [|split; [lia | lia]].
      replace (Z.max forwardIp (forwardIp - back) + 1) with (forwardIp + 1) by lia.
      destruct Hmode' as [Ht'|Hfull]; [exact Ht' | unfold MFLIMIT, MINMATCH in Eg; lia].
  Qed.

  (* ---- _next_match ---- *)
  Lemma next_match_fill s tok l mi low fi :
    (FPre s tok l mi low fi \/ FPreFull s tok) -> c_ip s < mfl -> startIndex <= c_ip s ->
    let n := next_match vrd tt FillOutput dd dictSmall startIndex dictSize dtable dictDelta inputSize olim
                        s tok l mi low fi in
    NFill n /\ match n with
               | NMatch s' _ _ _ _ _ => c_ip s + 4 <= c_ip s' /\ c_anchor s + 4 <= c_anchor s'
               | NLoop s' _ => c_anchor s + 4 <= c_anchor s'
               | _ => True
               end.
  Proof.
    intros Hpre Hipm Hips. unfold next_match. cbv zeta. cbn [andb]. unfold olimit.
    destruct (c_op s + 2 + 1 + MFLIMIT - MINMATCH >? olim) eqn:E3a.
    { (* rewind *)
      split; [|exact I]. cbn [NFill]. unfold FInv. cbn [c_anchor c_seqs c_op c_hw].
      destruct Hpre as [(H & _)|(H & _)]; exact H. }
    destruct Hpre as [Hpre|(_ & Hfull)]; [|unfold MFLIMIT, MINMATCH in E3a; lia].
    destruct Hpre as (HCo & Hai & Hl & Hlow & Hmi & Hoff & _ & Hfi & Heq & Ht & Hop & Hophw).
    destruct HCo as (K1 & K2 & K3 & K4 & K5 & K6).
    set (i := c_ip s) in *.
    assert (Hi4 : i + MINMATCH <= mlim) by (unfold mlim, matchlimit, mfl, mflimitPlusOne, iend, MFLIMIT, LASTLITERALS, MINMATCH in *; lia).
    pose proof (count_spec vrd (i + MINMATCH) (mi + MINMATCH) mlim Hi4) as Hc. cbv zeta in Hc.
    fold mlim.
    set (mc := count vrd (i + MINMATCH) (mi + MINMATCH) mlim) in *.
    destruct Hc as (Hc1 & Hc2 & _).
    assert (Hge : Z.max 0 (fi - i) <= mc).
    { apply (count_ge vrd (i + MINMATCH) (mi + MINMATCH) mlim (Z.max 0 (fi - i)) Hi4); [lia| |].
      - unfold mlim, matchlimit, mfl, mflimitPlusOne, iend, MFLIMIT, LASTLITERALS, MINMATCH in *. lia.
      - intros k Hk. unfold MINMATCH.
        replace (i + 4 + k) with (i + (k + 4)) by lia. replace (mi + 4 + k) with (mi + (k + 4)) by lia.
        apply Heq. lia. }
    assert (Hl0 : 0 <= l) by lia.
    set (o2 := c_op s + 2) in *.
    (* everything after the choice of the (possibly shortened) match length *)
    assert (Rest : forall mcx tabx,
      0 <= mcx <= mc ->
      o2 + extlen mcx + 6 <= olim -> o2 + extlen mcx + 9 - mcx <= olim ->
      (if mcx >=? ML_MASK then o2 + 4 * ((mcx - ML_MASK) / (4 * 255)) + 4 else o2) <= olim ->
      ((tok_ok (Z.max fi i + 1) tabx /\ Z.max fi i < i + mcx + MINMATCH) \/ olim < o2 + extlen mcx + 12) ->
      let i1 := i + mcx + MINMATCH in
      let sq := mkSeq (lits vrd (Z.to_nat l) (c_anchor s)) (i - mi) (mcx + MINMATCH) in
      let hw1 := Z.max (c_hw s) (if mcx >=? ML_MASK then o2 + 4 * ((mcx - ML_MASK) / (4 * 255)) + 4 else o2) in
      let o3 := if mcx >=? ML_MASK then o2 + (mcx - ML_MASK) / 255 + 1 else o2 in
      forall n,
      n = (if i1 >=? mfl then NLast (mkC i1 i1 o3 (sq :: c_seqs s) tabx (Z.max hw1 o3))
           else
             let tab := set tabx (hashPosition vrd tt (i1 - 2)) (idx tt (i1 - 2)) in
             let h := hashPosition vrd tt i1 in
             let '(mi2, low2) := candidate dd startIndex dictSize dtable dictDelta tab h in
             let tab0 := set tab h (idx tt i1) in
             if (if dictSmall then mi2 >=? prefixIdxLimit startIndex dictSize else true)
                && match tt with
                   | ByU16 => if LZ4_DISTANCE_MAX =? LZ4_DISTANCE_ABSOLUTE_MAX then true else mi2 + LZ4_DISTANCE_MAX >=? i1
                   | ByU32 => mi2 + LZ4_DISTANCE_MAX >=? i1
                   end
                && (read32 vrd mi2 =? read32 vrd i1)
             then NMatch (mkC i1 i1 (o3 + 1) (sq :: c_seqs s) tab0 (Z.max hw1 (o3 + 1))) o3 0 mi2 low2 fi
             else NLoop (mkC (i1 + 1) i1 o3 (sq :: c_seqs s) tab0 (Z.max hw1 o3)) (hashPosition vrd tt (i1 + 1))) ->
      NFill n /\ match n with
                 | NMatch s' _ _ _ _ _ => i + 4 <= c_ip s' /\ c_anchor s + 4 <= c_anchor s'
                 | NLoop s' _ => c_anchor s + 4 <= c_anchor s'
                 | _ => True
                 end).
    { intros mcx tabx Hmcx Hr6 Hr13 Hw32 Hmode i1 sq hw1 o3 n ->.
      assert (Ho3 : o3 = o2 + extlen mcx).
      { unfold o3, extlen, ML_MASK. destruct (mcx >=? 15) eqn:A; destruct (mcx <? 15) eqn:B; lia. }
      pose proof (extlen_nonneg mcx) as Hem0.
      assert (Hsq : seqlen sq = 1 + extlen l + l + 2 + extlen mcx).
      { unfold seqlen, sq. cbn [s_lits s_mlen]. rewrite lits_length. unfold MINMATCH.
        replace (Z.of_nat (Z.to_nat l)) with l by lia. replace (mcx + 4 - 4) with mcx by lia. reflexivity. }
      assert (Hll : Z.of_nat (length (s_lits sq)) = l) by (unfold sq; cbn [s_lits]; rewrite lits_length; lia).
      assert (HCore : forall hw, Z.max hw1 o3 <= hw <= olim -> FCore i1 (sq :: c_seqs s) o3 hw).
      { intros hw Hhw. unfold FCore.
        split; [unfold i1, MINMATCH, mlim, matchlimit, iend_, LASTLITERALS in *; lia|].
        split; [|split; [|split; [|split]]].
        - cbn [rev]. apply seqs_valid_app; [exact K2|]. cbv zeta. rewrite K3, Hll. split.
          + unfold sq. cbn [s_lits]. apply lits_seg. exact Hl0.
          + unfold sq. cbn [s_off s_mlen]. unfold match_ok.
            replace (c_anchor s + l) with i by lia.
            split; [lia|]. split; [unfold MINMATCH; lia|]. split; [unfold hlo in *; lia|].
            intros k Hk. replace (i + k - (i - mi)) with (mi + k) by lia.
            destruct (Z_lt_le_dec k 4) as [Hk4|Hk4]; [apply Heq; lia|].
            unfold MINMATCH in *.
            replace (i + k) with (i + 4 + (k - 4)) by lia. replace (mi + k) with (mi + 4 + (k - 4)) by lia.
            apply Hc2. lia.
        - cbn [rev]. rewrite seqs_end_app, K3, Hll. unfold sq. cbn [s_mlen]. unfold i1. lia.
        - cbn [sumlen]. rewrite Hsq, Ho3. unfold o2. lia.
        - lia.
        - unfold sq. cbn [s_mlen].
          unfold i1, MINMATCH, mlim, matchlimit, mfl, mflimitPlusOne, iend_, iend, MFLIMIT, LASTLITERALS in *. lia. }
      assert (Hhw1 : hw1 <= olim) by (unfold hw1; lia).
      destruct (i1 >=? mfl) eqn:E1.
      { split; [|exact I]. cbn [NFill]. unfold FInv. cbn [c_anchor c_seqs c_op c_hw]. apply HCore. lia. }
      cbv zeta.
      pose proof (cand_spec i1 (set tabx (hashPosition vrd tt (i1 - 2)) (idx tt (i1 - 2))) (hashPosition vrd tt i1)) as Hcs.
      destruct (candidate dd startIndex dictSize dtable dictDelta
                  (set tabx (hashPosition vrd tt (i1 - 2)) (idx tt (i1 - 2))) (hashPosition vrd tt i1)) as [mi2 low2].
      assert (Hi1s : startIndex + 1 <= i1) by (unfold i1, MINMATCH; lia).
      match goal with |- NFill (if ?c then _ else _) /\ _ => destruct c eqn:E2 end.
      - (* immediate re-match *)
        split; [|cbn [c_ip c_anchor]; unfold i1, MINMATCH; lia].
        cbn [NFill c_ip]. split; [|split; lia].
        destruct Hmode as [[Htx Hbig]|Hfull].
        + left.
          assert (Ht1 : tok_ok i1 (set tabx (hashPosition vrd tt (i1 - 2)) (idx tt (i1 - 2)))).
          { apply (t_set (Z.max fi i + 1)); [exact Htx | unfold i1; lia | unfold i1, MINMATCH in *; lia | fold mfl; lia]. }
          specialize (Hcs Ht1 Hi1s). destruct Hcs as [Hm2 Hlow2].
          apply andb_prop in E2. destruct E2 as [E2 E4]. apply andb_prop in E2. destruct E2 as [E2 E3].
          assert (N1 : ~ (dictSmall = true /\ mi2 < startIndex - dictSize)).
          { intros [A B]. rewrite A in E2. unfold prefixIdxLimit in E2. lia. }
          assert (N2 : ~ (dist_active tt = true /\ mi2 + LZ4_DISTANCE_MAX < i1)).
          { intros [A B]. unfold dist_active in A. destruct tt.
            - lia.
            - destruct (LZ4_DISTANCE_MAX =? LZ4_DISTANCE_ABSOLUTE_MAX) eqn:E5; lia. }
          specialize (Hlow2 N1 N2).
          unfold FPre. cbn [c_ip c_anchor c_seqs c_tab c_op c_hw].
          split; [apply HCore; lia|]. split; [lia|]. split; [lia|]. split; [unfold hlo; lia|]. split; [lia|].
          split; [apply off_bound; [lia | fold mfl; lia | exact N2]|].
          split; [lia|]. split; [lia|]. split.
          * intros k Hk. apply (read32_eq vrd Hb); [symmetry; apply Z.eqb_eq; exact E4 | lia].
          * split.
            -- replace (Z.max fi i1 + 1) with (i1 + 1) by (unfold i1 in *; lia).
               apply (t_set i1); [exact Ht1 | lia | lia | fold mfl; lia].
            -- unfold extlen. cbn. lia.
        + right. unfold FPreFull. cbn [c_anchor c_seqs c_op c_hw]. split; [apply HCore; lia | lia].
      - split; [|cbn [c_anchor]; unfold i1, MINMATCH; lia].
        cbn [NFill c_anchor c_ip c_tab c_op]. split; [unfold FInv; cbn [c_anchor c_seqs c_op c_hw]; apply HCore; lia|].
        split; [lia|]. split; [lia|].
        destruct Hmode as [[Htx Hbig]|Hfull]; [left | right; lia].
        apply (t_set i1); [|lia|lia|fold mfl; lia].
        apply (t_set (Z.max fi i + 1)); [exact Htx | unfold i1; lia | unfold i1, MINMATCH in *; lia | fold mfl; lia]. }
    pose proof (extlen_nonneg mc) as Hemc0.
    assert (Hemc1 : extlen mc <= (mc + 240) / 255).
    { unfold extlen. destruct (mc <? 15) eqn:B; Z.div_mod_to_equations; lia. }
    assert (Hemc2 : extlen mc <= mc).
    { unfold extlen. destruct (mc <? 15) eqn:B; [lia|]. Z.div_mod_to_equations. lia. }
    unfold MFLIMIT, MINMATCH in E3a.
    destruct (o2 + (1 + LASTLITERALS) + (mc + 240) / 255 >? olim) eqn:Eover; cbv iota beta.
    - (* the match is shortened so that 1 + LASTLITERALS bytes remain *)
      unfold LASTLITERALS in Eover.
      set (k := olim - o2 - 6) in *.
      assert (Hk : 3 <= k) by (unfold k, o2; lia).
      set (nmc := 15 - 1 + (olim - o2 - 1 - LASTLITERALS) * 255).
      assert (Hnmc : nmc = 14 + 255 * k) by (unfold nmc, k, LASTLITERALS; lia).
      assert (Hlt : nmc < mc) by (rewrite Hnmc; Z.div_mod_to_equations; lia).
      assert (Hex : extlen nmc = k).
      { unfold extlen. rewrite Hnmc. destruct (14 + 255 * k <? 15) eqn:B; [lia|]. Z.div_mod_to_equations. lia. }
      replace (i + mc + MINMATCH - (mc - nmc)) with (i + nmc + MINMATCH) by lia.
      eapply Rest; [| | | | |reflexivity].
      + lia.
      + rewrite Hex. unfold k. lia.
      + rewrite Hex. unfold k. lia.
      + unfold ML_MASK. rewrite Hnmc. destruct (14 + 255 * k >=? 15) eqn:B; [|lia].
        unfold k. Z.div_mod_to_equations. lia.
      + right. rewrite Hex. unfold k. lia.
    - eapply Rest; [| | | | |reflexivity].
      + lia.
      + unfold LASTLITERALS in Eover. lia.
      + unfold o2. lia.
      + unfold LASTLITERALS, ML_MASK in *. destruct (mc >=? 15) eqn:B; [|lia]. Z.div_mod_to_equations. lia.
      + left. split; [exact Ht | unfold MINMATCH; lia].
  Qed.

  (* ---- chain of _next_match's ---- *)
  Lemma chain_fill : forall fuel n,
    NFill n ->
    match n with NMatch s _ _ _ _ _ => mfl - c_ip s < Z.of_nat fuel | _ => True end ->
    let r := chain vrd tt FillOutput dd dictSmall startIndex dictSize dtable dictDelta inputSize olim fuel n in
    NFill r /\ final r /\
    match r with
    | NLoop s' _ => match n with
                    | NMatch s _ _ _ _ _ => c_anchor s + 4 <= c_anchor s'
                    | NLoop _ _ => True
                    | _ => False
                    end
    | _ => True
    end.
  Proof.
    induction fuel as [|f IH]; intros n Hnc Hm; cbv zeta.
    - destruct n as [s|tab|s fh|s t l mi low fi].
      + rewrite chain_id by exact I. split; [exact Hnc | split; exact I].
      + rewrite chain_id by exact I. split; [exact Hnc | split; exact I].
      + rewrite chain_id by exact I. split; [exact Hnc | split; exact I].
      + cbn [NFill] in Hnc. lia.
    - destruct n as [s|tab|s fh|s t l mi low fi].
      + rewrite chain_id by exact I. split; [exact Hnc | split; exact I].
      + rewrite chain_id by exact I. split; [exact Hnc | split; exact I].
      + rewrite chain_id by exact I. split; [exact Hnc | split; exact I].
      + cbn [chain]. cbn [NFill] in Hnc. destruct Hnc as (Hp & Hq1 & Hq2).
        pose proof (next_match_fill s t l mi low fi Hp Hq1 Hq2) as H. cbv zeta in H. destruct H as [H1 H2].
        set (n' := next_match vrd tt FillOutput dd dictSmall startIndex dictSize dtable dictDelta inputSize olim
                              s t l mi low fi) in *.
        destruct n' as [s0|tab0|s0 fh0|s0 t0 l0 mi0 low0 fi0].
        * rewrite chain_id by exact I. split; [exact H1 | split; exact I].
        * rewrite chain_id by exact I. split; [exact H1 | split; exact I].
        * rewrite chain_id by exact I. split; [exact H1 | split; [exact I | exact H2]].
        * assert (Hm' : mfl - c_ip s0 < Z.of_nat f) by lia.
          specialize (IH (NMatch s0 t0 l0 mi0 low0 fi0) H1 Hm'). cbv zeta in IH.
          destruct IH as (I1 & I2 & I3).
          split; [exact I1|]. split; [exact I2|].
          destruct (chain vrd tt FillOutput dd dictSmall startIndex dictSize dtable dictDelta inputSize olim f
                          (NMatch s0 t0 l0 mi0 low0 fi0)); try exact I. lia.
  Qed.

  (* ---- _last_literals with the adaptation of the last run ---- *)
  Definition RFill (r : cres) : Prop :=
    match r with
    | RFail _ => False
    | ROk ss last consumed _ hw =>
      0 <= consumed <= inputSize /\
      seqs_valid vrd hlo startIndex ss /\
      seqs_end startIndex ss <= startIndex + consumed /\
      last = seg vrd (seqs_end startIndex ss) (startIndex + consumed) /\
      end_ok ss last = true /\
      1 <= Z.of_nat (length (encode_block ss last)) <= hw /\ hw <= olim
    end.

  Lemma last_literals_fill s :
    FInv s -> RFill (last_literals vrd FillOutput startIndex inputSize olim s).
  Proof.
    intros (K1 & K2 & K3 & K4 & K5 & K6). unfold last_literals. cbv zeta. fold iend_. unfold olimit.
    set (R := iend_ - c_anchor s) in *.
    assert (HR : 0 <= R) by (unfold R; lia).
    pose proof (sumlen_nonneg (c_seqs s)) as Hop0.
    (* generic conclusion for a final run of R' literals *)
    assert (G : forall R', 0 <= R' <= R ->
                c_op s + 1 + extlen R' + R' <= olim ->
                (match c_seqs s with [] => True | q :: _ => 5 <= R' /\ 12 <= s_mlen q + R' end) ->
                forall tab,
                RFill (ROk (rev (c_seqs s)) (lits vrd (Z.to_nat R') (c_anchor s)) (c_anchor s + R' - startIndex) tab
                           (Z.max (c_hw s) (c_op s + 1 + (if R' >=? RUN_MASK then (R' - RUN_MASK) / 255 + 1 else 0) + R')))).
    { intros R' HR' Hfit Hend tab. cbn [RFill].
      assert (Hext : (if R' >=? RUN_MASK then (R' - RUN_MASK) / 255 + 1 else 0) = extlen R').
      { unfold extlen, RUN_MASK. destruct (R' >=? 15) eqn:A; destruct (R' <? 15) eqn:B; lia. }
      pose proof (extlen_nonneg R') as He0.
      rewrite K3.
      split; [unfold R, iend_, iend in *; lia|]. split; [exact K2|]. split; [lia|].
      split; [rewrite lits_seg by lia; f_equal; lia|].
      split.
      { unfold end_ok. rewrite rev_involutive. destruct (c_seqs s) as [|q r]; [reflexivity|].
        rewrite lits_length. destruct Hend. lia. }
      rewrite encode_block_length_Z, sumlen_rev, lits_length, <- K4, Hext.
      rewrite !Z2Nat.id by lia. lia. }
    destruct (c_op s + R + 1 + (R + 255 - RUN_MASK) / 255 >? olim) eqn:Eover.
    - (* adapt the last run to the room that is left *)
      set (l := olim - c_op s - 1).
      assert (Hl : 0 <= l).
      { unfold l. destruct (c_seqs s); [cbn [sumlen] in K4; lia | lia]. }
      unfold RUN_MASK in *.
      apply G.
      + split; Z.div_mod_to_equations; lia.
      + unfold extlen. destruct (l - (l + 256 - 15) / 256 <? 15) eqn:B; Z.div_mod_to_equations; lia.
      + destruct (c_seqs s) as [|q r]; [exact I|]. destruct K6 as (_ & _ & A & B & C).
        split; Z.div_mod_to_equations; lia.
    - apply G.
      + lia.
      + unfold RUN_MASK in *. unfold extlen. destruct (R <? 15) eqn:B; Z.div_mod_to_equations; lia.
      + destruct (c_seqs s) as [|q r]; [exact I|]. destruct K6 as (A & B & _ & _ & C).
        unfold R, mlim, matchlimit, iend_, LASTLITERALS, MFLIMIT in *. lia.
  Qed.

  Hypothesis Hacc : 1 <= acceleration.

  Lemma main_loop_fill : forall fuel s fh,
    FInv s -> c_anchor s <= c_ip s -> startIndex + 1 <= c_ip s <= mfl ->
    (tok_ok (c_ip s) (c_tab s) \/ olim < c_op s + 12) ->
    iend_ - c_anchor s < Z.of_nat fuel ->
    RFill (main_loop vrd tt FillOutput dd dictSmall startIndex dictSize dtable dictDelta inputSize olim acceleration
                     fuel s fh).
  Proof.
    induction fuel as [|f IH]; intros s fh HF Ha Hip Hmode Hfuel; cbn [main_loop].
    { destruct HF as (C1 & _). unfold mfl, mflimitPlusOne, iend_, iend, MFLIMIT in *. lia. }
    cbv zeta.
    set (n1 := search vrd tt FillOutput dd dictSmall startIndex dictSize dtable dictDelta inputSize olim
                      (Z.to_nat inputSize + 1) s (c_ip s) 1 (acceleration * 2 ^ LZ4_skipTrigger) fh (c_tab s)).
    assert (Hn1 : NFill n1).
    { apply search_fill; try assumption; try lia.
      - assert (0 < 2 ^ LZ4_skipTrigger) by (unfold LZ4_skipTrigger; lia). nia.
      - unfold mfl, mflimitPlusOne, iend, MFLIMIT in *. lia. }
    pose proof (search_shape vrd tt FillOutput dd dictSmall startIndex dictSize dtable dictDelta inputSize olim
                  (Z.to_nat inputSize + 1) s (c_ip s) 1 (acceleration * 2 ^ LZ4_skipTrigger) fh (c_tab s)) as Hsh.
    fold n1 in Hsh.
    assert (Hm : match n1 with NMatch s0 _ _ _ _ _ => mfl - c_ip s0 < Z.of_nat (Z.to_nat inputSize + 1) | _ => True end).
    { destruct n1; try exact I. cbn [NFill] in Hn1. destruct Hn1 as (_ & A & B).
      unfold mfl, mflimitPlusOne, iend, MFLIMIT in *. lia. }
    pose proof (chain_fill (Z.to_nat inputSize + 1) n1 Hn1 Hm) as H. cbv zeta in H.
    destruct H as (H1 & H2 & H3).
    destruct (chain vrd tt FillOutput dd dictSmall startIndex dictSize dtable dictDelta inputSize olim
                    (Z.to_nat inputSize + 1) n1) as [s'|tab|s' fh'|s' t l mi low fi]; cbn [NFill final] in *.
    - apply last_literals_fill; assumption.
    - contradiction.
    - destruct H1 as (A & B & C & D).
      assert (Hprog : c_anchor s + 4 <= c_anchor s').
      { destruct n1 as [s0|tab0|s0 fh0|s0 t0 l0 mi0 low0 fi0]; try contradiction. rewrite <- Hsh. exact H3. }
      apply IH; try assumption. lia.
    - contradiction.
  Qed.

  (* LZ4_compress_generic_validated with fillOutput *)
  Theorem compress_validated_fill tab :
    tok_ok (startIndex + 1) tab ->
    RFill (compress_validated vrd tt FillOutput dd dictSmall startIndex dictSize dtable dictDelta inputSize olim
                              acceleration tab).
  Proof.
    intros Ht. unfold compress_validated. cbn [andb].
    destruct (olim <? 1) eqn:E0; [lia|]. cbv zeta.
    assert (HF0 : forall ip t, FInv (mkC ip startIndex 0 [] t 0)).
    { intros. unfold FInv, FCore. cbn [c_anchor c_seqs c_op c_hw rev seqs_valid seqs_end sumlen].
      unfold iend_, iend. repeat split; lia. }
    destruct (inputSize <? LZ4_minLength) eqn:E.
    - apply last_literals_fill. apply HF0.
    - apply main_loop_fill; cbn [c_anchor c_ip c_tab c_op]; [apply HF0 | lia | | | ].
      + unfold mfl, mflimitPlusOne, iend, MFLIMIT, LZ4_minLength in *. lia.
      + left. apply (t_set (startIndex + 1)); [exact Ht | lia | lia|].
        fold mfl. unfold mfl, mflimitPlusOne, iend, MFLIMIT, LZ4_minLength in *. lia.
      + unfold iend_, iend. lia.
  Qed.

  (* The destSize contract at the level of LZ4_compress_generic_validated. *)
  Theorem compress_validated_fill_contract tab :
    tok_ok (startIndex + 1) tab ->
    exists ss last consumed tab' hw,
      compress_validated vrd tt FillOutput dd dictSmall startIndex dictSize dtable dictDelta inputSize olim
                         acceleration tab = ROk ss last consumed tab' hw /\
      0 <= consumed <= inputSize /\
      1 <= Z.of_nat (length (encode_block ss last)) <= hw /\ hw <= olim /\
      strict_valid (seg vrd hlo startIndex) (encode_block ss last)
        = Some (seg vrd startIndex (startIndex + consumed)).
  Proof.
    intros Ht. pose proof (compress_validated_fill tab Ht) as H.
    destruct (compress_validated vrd tt FillOutput dd dictSmall startIndex dictSize dtable dictDelta inputSize olim
                acceleration tab) as [t|ss last consumed tab' hw]; cbn [RFill] in H; [contradiction|].
    destruct H as (H1 & H2 & H3 & H4 & H5 & H6 & H7).
    exists ss, last, consumed, tab', hw. split; [reflexivity|]. split; [exact H1|]. split; [exact H6|]. split; [exact H7|].
    rewrite strict_valid_encode.
    - rewrite H5. apply (factor_decodes vrd hlo startIndex (startIndex + consumed) ss last
                           ltac:(unfold hlo, hist_lo; destruct dd; lia) H2 H3 H4).
    - eapply seqs_valid_wf; eauto.
    - subst last. apply seg_bytes_ok. exact Hb.
  Qed.
End Fill.

Print Assumptions compress_validated_fill_contract.
