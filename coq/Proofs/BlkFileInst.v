(* C20 with the block compressor INSTANTIATED (Proofs.BlkInst): lz4file.c always compresses at level 0, without
   dictionary; with independent blocks (prefs->frameInfo.blockMode = LZ4F_blockIndependent) LZ4F_makeBlock calls
   LZ4_compress_fast_extState_fastReset: the round trip through LZ4F_write* / LZ4F_read* holds with no hypothesis about
   block compressors. *)
From Coq Require Import ZArith List Bool.
From LZ4V Require Import Model.FrameD Proofs.FrameDProofs.   (* before Model.File: both define [dres] *)
From LZ4V Require Import Gen.Consts Spec.BlockSpec Spec.FrameSpec Model.FrameCSizes Model.File Model.FileInst.
From LZ4V Require Import Proofs.FileProofs Proofs.FileInstProofs.
From LZ4V Require Import Proofs.FileDecInst Proofs.FileCompInst.
From LZ4V Require Model.FrameC Proofs.FrameCTheorems.
From LZ4V Require Import Proofs.BlkInst Proofs.BlkFrameInst Proofs.BlkInstFastLinked.
Import ListNotations.

Theorem roundtrip_indep_unconditional : forall sf sm sh, states_ok sf sm sh ->
  forall (p : prefs) (mw : nat) (bufs : list (list byte)) (sizes : list nat) (junk : list byte),
    p_linked p = false ->
    maxWrite_of (Some p) = Some mw -> FileProofs.csize_ok (Some p) (concat bufs) -> prefs_wf (Some p) ->
    (Z.of_nat (length (concat bufs)) < FrameC.U64)%Z -> bytes_ok (concat bufs) = true ->
    exists file : list byte,
      write_session FrameC.cctx FrameC.cctx_zero fc_begin (fc_update (blk_indep 0 sf sm sh)) (fc_end (blk_indep 0 sf sm sh)) (Some p) bufs
        = (FOk (map (fun b => FOk (length b)) bufs), file) /\
      frame_ok file (concat bufs) /\
      read_session dstate dctx_init fd_info fd_dec true junk file sizes = FOk (chop (concat bufs) sizes).
Proof.
  intros sf sm sh Hst p mw bufs sizes junk _.
  exact (roundtrip_discharged (blk_indep 0 sf sm sh) (indep_contract 0 sf sm sh Hst) (indep_bytes 0 sf sm sh Hst) (Some p) mw bufs sizes junk).
Qed.

(* any block mode (lz4file.c's default preferences are LINKED blocks): LZ4_compress_fast_continue, Proofs.BlkInstFastLinked *)
Theorem roundtrip_stream_unconditional : forall st, (forall n, lorc_ok (st n)) ->
  forall (po : option prefs) (mw : nat) (bufs : list (list byte)) (sizes : list nat) (junk : list byte),
    maxWrite_of po = Some mw -> FileProofs.csize_ok po (concat bufs) -> prefs_wf po ->
    (Z.of_nat (length (concat bufs)) < FrameC.U64)%Z -> bytes_ok (concat bufs) = true ->
    exists file : list byte,
      write_session FrameC.cctx FrameC.cctx_zero fc_begin (fc_update (blk_fast_linked st 0)) (fc_end (blk_fast_linked st 0)) po bufs
        = (FOk (map (fun b => FOk (length b)) bufs), file) /\
      frame_ok file (concat bufs) /\
      read_session dstate dctx_init fd_info fd_dec true junk file sizes = FOk (chop (concat bufs) sizes).
Proof.
  intros st Hst.
  exact (roundtrip_discharged (blk_fast_linked st 0) (blk_fast_linked_contract st 0 Hst) (blk_fast_linked_bytes st 0 Hst)).
Qed.

Print Assumptions roundtrip_indep_unconditional.
Print Assumptions roundtrip_stream_unconditional.
