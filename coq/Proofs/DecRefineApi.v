(* C05/C16 at the level of the public entry points (Model.DecApi). *)
From Coq Require Import ZArith List Lia Bool ZifyBool.
From LZ4V Require Import Gen.Consts Spec.BlockSpec Model.Mem Model.Dec Model.DecApi.
From LZ4V Require Import Proofs.DecSafe Proofs.DecApiSafe.
From LZ4V Require Import Proofs.DecRefineBase Proofs.DecRefineSafe Proofs.DecRefineTop.
Import ListNotations.
Local Open Scope Z_scope.

(* where the history of a block lives for the two placements of LZ4_decompress_safe_usingDict:
   contiguous prefix: the bytes of [hist] end at address 0 of the destination memory;
   external: they are the dictionary [0, |hist|) of the dictionary memory *)
Definition hist_placed (pl : placement) (hist : list Z) (dictm m0 : mem) : Prop :=
  match pl with
  | PPrefix => out_at (get m0) 0 (rev hist)
  | PExt => out_at (get dictm) (Z.of_nat (length hist)) (rev hist)
  end.

(* the decoded image: return value |D| and D at [0,|D|) *)
Definition decodes_to (res : Z * mem * bool) (D : list Z) : Prop :=
  let '(r, m, k) := res in
  r = Z.of_nat (length D) /\ forall i, 0 <= i < Z.of_nat (length D) -> get m i = nth (Z.to_nat i) D 0.

Lemma lastn_length {A} k (l : list A) : length (lastn k l) = Nat.min k (length l).
Proof. unfold lastn. rewrite skipn_length. lia. Qed.

Lemma out_at_lastn (f : Z -> Z) op k (hist : list Z) :
  out_at f op (rev hist) -> out_at f op (rev (lastn k hist)).
Proof.
  intros H j Hj. rewrite rev_length, lastn_length in Hj.
  rewrite H by (rewrite rev_length; lia).
  rewrite !rev_nth by (rewrite ?lastn_length; lia).
  unfold lastn. rewrite nth_skipn_Z, skipn_length. f_equal. lia.
Qed.

(* ---- statement of C05 "valid blocks decode" at full strength ---- *)
Definition C05_valid_decodes_full_statement : Prop :=
  forall (fastloop : bool) (pl : placement) (B hist D : list Z) (srcm dictm : mem) (cap : Z) (m0 : mem),
    strict_valid (lastn (Z.to_nat 65536) hist) B = Some D -> bytes B -> src_at srcm 0 B ->
    hist_placed pl hist dictm m0 -> Z.of_nat (length D) <= cap ->
    decodes_to (decompress_usingDict fastloop false srcm (Z.of_nat (length B)) 0 cap pl dictm (Z.of_nat (length hist)) m0) D.

(* the history as the decoder's memory view sees it *)
Lemma view_prefix lowPrefix dictm ds m0 (R : list Z) :
  out_at (get m0) 0 R -> Z.of_nat (length R) <= - lowPrefix -> out_at (vget lowPrefix dictm ds m0) 0 R.
Proof. intros H Hl j Hj. rewrite vget_hi by lia. apply H. exact Hj. Qed.

Lemma view_ext dictm (hist : list Z) m0 k :
  out_at (get dictm) (Z.of_nat (length hist)) (rev hist) ->
  out_at (vget 0 dictm (Z.of_nat (length hist)) m0) 0 (rev (lastn k hist)).
Proof.
  intros H. pose proof (out_at_lastn _ _ k _ H) as H'.
  intros j Hj. unfold vget.
  assert (E : (0 - 1 - Z.of_nat j <? 0) = true) by lia. rewrite E.
  rewrite <- (H' j Hj). f_equal. lia.
Qed.

(* ---- proof of the full statement: fast loop on or off, every placement ---- *)
Theorem valid_decodes :
  forall (fastloop : bool) (pl : placement) (B hist D : list Z) (srcm dictm : mem) (cap : Z) (m0 : mem),
    strict_valid (lastn (Z.to_nat 65536) hist) B = Some D -> bytes B -> src_at srcm 0 B ->
    hist_placed pl hist dictm m0 -> Z.of_nat (length D) <= cap ->
    decodes_to (decompress_usingDict fastloop false srcm (Z.of_nat (length B)) 0 cap pl dictm (Z.of_nat (length hist)) m0) D.
Proof.
  intros fastloop pl B hist D srcm dictm cap m0 Hv Hb Hs Hh Hcap.
  unfold decompress_usingDict, decodes_to.
  pose proof (lastn_length (Z.to_nat 65536) hist) as Hl.
  destruct (Z.of_nat (length hist) =? 0) eqn:E0.
  - apply (dec_generic_valid NoDict srcm empty 0 0 0 ltac:(lia) ltac:(lia) fastloop B (lastn (Z.to_nat 65536) hist) D cap m0); try assumption.
    + intros j Hj. rewrite rev_length in Hj. lia.
    + unfold hroom. cbn [is_extdict]. lia.
  - destruct pl.
    + unfold hist_placed in Hh. pose proof (out_at_lastn _ _ (Z.to_nat 65536) _ Hh) as Hh'.
      destruct (Z.of_nat (length hist) >=? 65536 - 1) eqn:E1.
      * apply (dec_generic_valid WithPrefix64k srcm empty 0 (-65536) (- Z.of_nat (length hist)) ltac:(lia) ltac:(lia) fastloop B (lastn (Z.to_nat 65536) hist) D cap m0); try assumption.
        -- apply view_prefix; [exact Hh' | rewrite rev_length; lia].
        -- unfold hroom. cbn [is_extdict]. lia.
      * apply (dec_generic_valid NoDict srcm empty 0 (- Z.of_nat (length hist)) (- Z.of_nat (length hist)) ltac:(lia) ltac:(lia) fastloop B (lastn (Z.to_nat 65536) hist) D cap m0); try assumption.
        -- apply view_prefix; [exact Hh' | rewrite rev_length; lia].
        -- unfold hroom. cbn [is_extdict]. lia.
    + unfold hist_placed in Hh.
      apply (dec_generic_valid UsingExtDict srcm dictm (Z.of_nat (length hist)) 0 0 ltac:(lia) ltac:(lia) fastloop B (lastn (Z.to_nat 65536) hist) D cap m0); try assumption.
      * apply view_ext. exact Hh.
      * unfold hroom. cbn [is_extdict]. lia.
Qed.

Theorem valid_decodes_safe_loop_prefix :
  forall (B hist D : list Z) (srcm dictm : mem) (cap : Z) (m0 : mem),
    strict_valid (lastn (Z.to_nat 65536) hist) B = Some D -> bytes B -> src_at srcm 0 B ->
    hist_placed PPrefix hist dictm m0 -> Z.of_nat (length D) <= cap ->
    decodes_to (decompress_usingDict false false srcm (Z.of_nat (length B)) 0 cap PPrefix dictm (Z.of_nat (length hist)) m0) D.
Proof. intros. apply valid_decodes; assumption. Qed.

Theorem valid_decodes_nodict :
  forall (fastloop : bool) (B D : list Z) (srcm : mem) (cap : Z) (m0 : mem),
    strict_valid [] B = Some D -> bytes B -> src_at srcm 0 B -> Z.of_nat (length D) <= cap ->
    decodes_to (decompress_safe fastloop srcm (Z.of_nat (length B)) cap m0) D.
Proof.
  intros fastloop B D srcm cap m0 Hv Hb Hs Hcap. unfold decompress_safe, decodes_to.
  apply (dec_generic_valid NoDict srcm empty 0 0 0 ltac:(lia) ltac:(lia) fastloop B [] D cap m0); try assumption.
  - intros j Hj. cbn in Hj. lia.
  - cbn. lia.
Qed.

Theorem valid_decodes_full : C05_valid_decodes_full_statement.
Proof. exact valid_decodes. Qed.

(* ================= C16: partial decoding ================= *)
(* return value min(t,|D|) and that prefix of D at the start of the destination *)
Definition decodes_prefix (res : Z * mem * bool) (D : list Z) (t : Z) : Prop :=
  let '(r, m, k) := res in
  r = Z.min t (Z.of_nat (length D)) /\ forall i, 0 <= i < r -> get m i = nth (Z.to_nat i) D 0.

(* statement at full strength: every placement, fast loop on or off; [k] trailing bytes declared
   in srcSize (allowed when t <= |D|) *)
Definition C16_partial_exact_full_statement : Prop :=
  forall (fastloop : bool) (pl : placement) (B hist D : list Z) (srcm dictm : mem) (t cap k : Z) (m0 : mem),
    strict_valid (lastn (Z.to_nat 65536) hist) B = Some D -> bytes B -> src_at srcm 0 B ->
    hist_placed pl hist dictm m0 -> 0 <= t -> Z.min t (Z.of_nat (length D)) <= cap ->
    0 <= k -> (k = 0 \/ t <= Z.of_nat (length D)) ->
    decodes_prefix (decompress_usingDict fastloop true srcm (Z.of_nat (length B) + k) t cap pl dictm (Z.of_nat (length hist)) m0) D t.

Lemma partial_oend t cap n : 0 <= t -> 0 <= n -> Z.min t n <= cap -> 
  0 <= Z.min t cap /\ Z.min (Z.min t cap) n = Z.min t n /\ (t <= n -> Z.min t cap <= n).
Proof. lia. Qed.

Theorem partial_exact :
  forall (fastloop : bool) (pl : placement) (B hist D : list Z) (srcm dictm : mem) (t cap k : Z) (m0 : mem),
    strict_valid (lastn (Z.to_nat 65536) hist) B = Some D -> bytes B -> src_at srcm 0 B ->
    hist_placed pl hist dictm m0 -> 0 <= t -> Z.min t (Z.of_nat (length D)) <= cap ->
    0 <= k -> (k = 0 \/ t <= Z.of_nat (length D)) ->
    decodes_prefix (decompress_usingDict fastloop true srcm (Z.of_nat (length B) + k) t cap pl dictm (Z.of_nat (length hist)) m0) D t.
Proof.
  intros fastloop pl B hist D srcm dictm t cap k m0 Hv Hb Hs Hh Ht Hcap Hk Htr.
  unfold decompress_usingDict, decodes_prefix.
  pose proof (lastn_length (Z.to_nat 65536) hist) as Hl.
  destruct (partial_oend t cap (Z.of_nat (length D)) Ht ltac:(lia) Hcap) as (Ho0 & Hmin & Hle).
  rewrite <- Hmin.
  assert (Htr' : k = 0 \/ Z.min t cap <= Z.of_nat (length D)) by lia.
  destruct (Z.of_nat (length hist) =? 0) eqn:E0.
  - apply (dec_generic_partial NoDict srcm empty 0 0 0 ltac:(lia) ltac:(lia) fastloop B (lastn (Z.to_nat 65536) hist) D (Z.min t cap) k m0); try assumption.
    + intros j Hj. rewrite rev_length in Hj. lia.
    + unfold hroom. cbn [is_extdict]. lia.
  - destruct pl.
    + unfold hist_placed in Hh. pose proof (out_at_lastn _ _ (Z.to_nat 65536) _ Hh) as Hh'.
      destruct (Z.of_nat (length hist) >=? 65536 - 1) eqn:E1.
      * apply (dec_generic_partial WithPrefix64k srcm empty 0 (-65536) (- Z.of_nat (length hist)) ltac:(lia) ltac:(lia) fastloop B (lastn (Z.to_nat 65536) hist) D (Z.min t cap) k m0); try assumption.
        -- apply view_prefix; [exact Hh' | rewrite rev_length; lia].
        -- unfold hroom. cbn [is_extdict]. lia.
      * apply (dec_generic_partial NoDict srcm empty 0 (- Z.of_nat (length hist)) (- Z.of_nat (length hist)) ltac:(lia) ltac:(lia) fastloop B (lastn (Z.to_nat 65536) hist) D (Z.min t cap) k m0); try assumption.
        -- apply view_prefix; [exact Hh' | rewrite rev_length; lia].
        -- unfold hroom. cbn [is_extdict]. lia.
    + unfold hist_placed in Hh.
      apply (dec_generic_partial UsingExtDict srcm dictm (Z.of_nat (length hist)) 0 0 ltac:(lia) ltac:(lia) fastloop B (lastn (Z.to_nat 65536) hist) D (Z.min t cap) k m0); try assumption.
      * apply view_ext. exact Hh.
      * unfold hroom. cbn [is_extdict]. lia.
Qed.

Theorem partial_exact_full : C16_partial_exact_full_statement.
Proof. exact partial_exact. Qed.

Theorem partial_exact_nodict :
  forall (fastloop : bool) (B D : list Z) (srcm : mem) (t cap k : Z) (m0 : mem),
    strict_valid [] B = Some D -> bytes B -> src_at srcm 0 B ->
    0 <= t -> Z.min t (Z.of_nat (length D)) <= cap -> 0 <= k -> (k = 0 \/ t <= Z.of_nat (length D)) ->
    decodes_prefix (decompress_safe_partial fastloop srcm (Z.of_nat (length B) + k) t cap m0) D t.
Proof.
  intros fastloop B D srcm t cap k m0 Hv Hb Hs Ht Hcap Hk Htr. unfold decompress_safe_partial, decodes_prefix.
  destruct (partial_oend t cap (Z.of_nat (length D)) Ht ltac:(lia) Hcap) as (Ho0 & Hmin & Hle).
  rewrite <- Hmin.
  apply (dec_generic_partial NoDict srcm empty 0 0 0 ltac:(lia) ltac:(lia) fastloop B [] D (Z.min t cap) k m0); try assumption.
  - intros j Hj. cbn in Hj. lia.
  - unfold hroom. cbn. lia.
  - lia.
Qed.

(* the trailing-bytes case on its own: declared srcSize = |B| + k, t <= |D| *)
Corollary partial_trailing_bytes :
  forall (fastloop : bool) (pl : placement) (B hist D : list Z) (srcm dictm : mem) (t cap k : Z) (m0 : mem),
    strict_valid (lastn (Z.to_nat 65536) hist) B = Some D -> bytes B -> src_at srcm 0 B ->
    hist_placed pl hist dictm m0 -> 0 <= t <= Z.of_nat (length D) -> t <= cap -> 0 <= k ->
    let '(r, m, _) := decompress_usingDict fastloop true srcm (Z.of_nat (length B) + k) t cap pl dictm (Z.of_nat (length hist)) m0 in
    r = t /\ forall i, 0 <= i < t -> get m i = nth (Z.to_nat i) D 0.
Proof.
  intros fastloop pl B hist D srcm dictm t cap k m0 Hv Hb Hs Hh Ht Hcap Hk.
  pose proof (partial_exact fastloop pl B hist D srcm dictm t cap k m0 Hv Hb Hs Hh) as H.
  unfold decodes_prefix in H.
  destruct (decompress_usingDict fastloop true srcm (Z.of_nat (length B) + k) t cap pl dictm (Z.of_nat (length hist)) m0) as [[r m] kk].
  destruct H as [H1 H2]; try lia.
  replace (Z.min t (Z.of_nat (length D))) with t in H1 by lia. subst r. split; [reflexivity | exact H2].
Qed.

(* usingDict variant of the C02 bound, phrased for the partial entry point *)
Lemma partial_usingDict_no_write_beyond fastloop srcm srcSize target cap pl dictm dictSize m0 :
  Proofs.DecSafe.src_bytes srcm -> 0 <= srcSize -> 0 <= dictSize ->
  let '(r, m, ok) := decompress_usingDict fastloop true srcm srcSize target cap pl dictm dictSize m0 in
  ok = true /\ (r < 0 \/ (0 <= r <= cap /\ r <= target)).
Proof.
  intros H1 H2 H3.
  pose proof (Proofs.DecApiSafe.decompress_usingDict_ok fastloop true srcm srcSize target cap pl dictm dictSize m0 H1 H2 H3) as H.
  destruct (decompress_usingDict fastloop true srcm srcSize target cap pl dictm dictSize m0) as [[r m] k].
  destruct H as [Ha [Hb|[Hb Hc]]]; (split; [exact Ha|]); [left; exact Hb | right; split; [exact Hb | apply Hc; reflexivity]].
Qed.

(* ---- finding F5: the decoder accepts match offset 0 ---- *)
Definition f5_block : list Z := [16; 65; 0; 0; 80; 98; 99; 100; 101; 102].   (* 10 41 00 00 50 62 63 64 65 66 *)

Lemma bytes_f5 : bytes f5_block.
Proof. unfold bytes, f5_block. repeat constructor; lia. Qed.

Theorem success_sound_strict_refuted :
  exists (blk : list Z) (cap : Z),
    bytes blk /\
    (forall fastloop, let '(r, m, k) := decompress_safe fastloop (mem_of_list 0 blk) (Z.of_nat (length blk)) cap empty in r = 10) /\
    spec_decode [] blk = None.
Proof.
  exists f5_block, 64. split; [exact bytes_f5|]. split.
  - intros [|]; vm_compute; reflexivity.
  - vm_compute. reflexivity.
Qed.
