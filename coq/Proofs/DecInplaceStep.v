(* In-place decoding, one iteration: with [m0] the initial contents of the single memory, an
   iteration of the in-place decoder (Model.DecInplace: every input load goes to the current
   memory) started at a loop boundary where
     (1) the current memory still equals m0 at and above the input cursor, and
     (2) the input cursor is at least 31 bytes ahead of the output cursor,
   is EQUAL to the iteration of Model.Dec's decoder reading its input from the fixed memory m0
   - for every input, valid or not.  This is the order-of-loads-and-stores part of the in-place
   argument: token and literal-length bytes are loaded before any store; each chunk of the
   literal copy is loaded before the stores of that chunk and after stores that end below it;
   the literal over-copy ends below the offset bytes. *)
From Coq Require Import ZArith List Lia Bool ZifyBool.
From LZ4V Require Import Gen.Consts Model.Mem Model.Dec Model.DecInplace.
From LZ4V Require Import Proofs.DecSafe Proofs.DecRefineBase Proofs.DecConverseErr Proofs.DecFootprint.
Import ListNotations.
Local Open Scope Z_scope.

Lemma store_list_app : forall l1 l2 m d,
  store_list m d (l1 ++ l2) = store_list (store_list m d l1) (d + Z.of_nat (length l1)) l2.
Proof.
  induction l1 as [|b r IH]; intros l2 m d.
  - cbn [app store_list length]. replace (d + Z.of_nat 0) with d by lia. reflexivity.
  - cbn [app store_list length]. rewrite IH. f_equal. lia.
Qed.

Lemma load_list_app : forall n1 n2 m a,
  load_list m a (n1 + n2) = load_list m a n1 ++ load_list m (a + Z.of_nat n1) n2.
Proof.
  induction n1 as [|n IH]; intros n2 m a.
  - cbn [Nat.add load_list app]. replace (a + Z.of_nat 0) with a by lia. reflexivity.
  - cbn [Nat.add load_list app]. rewrite IH. do 3 f_equal. lia.
Qed.

Section Agree.
  Variable m0 : mem.

  Lemma load_agree : forall n m h a, same_above m0 m h -> h <= a -> load_list m a n = load_list m0 a n.
  Proof.
    induction n as [|n IH]; intros m h a S Ha; cbn [load_list]; [reflexivity|].
    rewrite (S a Ha). f_equal. apply (IH m h); [exact S | lia].
  Qed.

  Lemma blit_agree m h a n d : same_above m0 m h -> h <= a -> blit m a m d n = blit m0 a m d n.
  Proof. intros S Ha. unfold blit. rewrite (load_agree n m h a S Ha). reflexivity. Qed.

  (* a chunk loop inside one memory whose source is ahead of its destination and still original
     equals the copy from the original memory *)
  Lemma wild8_it_alias : forall k m d s, same_above m0 m s -> d <= s ->
    wild8_it k m d s = blit m0 s m d (8 * k).
  Proof.
    induction k as [|k IH]; intros m d s S Hd.
    - cbn [wild8_it]. unfold blit. cbn [Nat.mul load_list store_list]. reflexivity.
    - cbn [wild8_it]. unfold memcpy_k.
      rewrite (blit_agree m s s 8 d S (Z.le_refl _)).
      rewrite IH.
      + unfold blit. replace (8 * Datatypes.S k)%nat with (8 + 8 * k)%nat by lia.
        rewrite load_list_app, store_list_app, load_list_length. reflexivity.
      + eapply same_above_trans; [exact S | apply blit_above | lia | lia].
      + lia.
  Qed.

  Lemma wild32_it_alias : forall k m d s, same_above m0 m s -> d <= s ->
    wild32_it k m d s = blit m0 s m d (32 * k).
  Proof.
    induction k as [|k IH]; intros m d s S Hd.
    - cbn [wild32_it]. unfold blit. cbn [Nat.mul load_list store_list]. reflexivity.
    - cbn [wild32_it]. unfold memcpy_k.
      rewrite (blit_agree m s s 16 d S (Z.le_refl _)).
      assert (S1 : same_above m0 (blit m0 s m d 16) (s + 16)).
      { eapply same_above_trans; [exact S | apply blit_above | lia | lia]. }
      rewrite (blit_agree _ (s + 16) (s + 16) 16 (d + 16) S1 (Z.le_refl _)).
      rewrite IH.
      + unfold blit. replace (32 * Datatypes.S k)%nat with (16 + (16 + 32 * k))%nat by lia.
        rewrite load_list_app, store_list_app, load_list_length.
        rewrite load_list_app, store_list_app, load_list_length.
        replace (s + Z.of_nat 16 + Z.of_nat 16) with (s + 32) by lia.
        replace (d + Z.of_nat 16 + Z.of_nat 16) with (d + 32) by lia.
        reflexivity.
      + eapply same_above_trans; [exact S1 | apply blit_above | lia | lia].
      + lia.
  Qed.

  Lemma wild8_alias m d s e : same_above m0 m s -> d <= s -> wild8 m d s e = wild8_in m0 s m d e.
  Proof. intros. unfold wild8, wild8_in. apply wild8_it_alias; assumption. Qed.
  Lemma wild32_alias m d s e : same_above m0 m s -> d <= s -> wild32 m d s e = wild32_in m0 s m d e.
  Proof. intros. unfold wild32, wild32_in. apply wild32_it_alias; assumption. Qed.

  Variables (iend oend : Z).

  Lemma rvl_loop_agree m h : same_above m0 m h ->
    forall fuel p len k lim, h <= p -> rvl_loop m iend fuel p len k lim = rvl_loop m0 iend fuel p len k lim.
  Proof.
    intros S. induction fuel as [|f IH]; intros p len k lim Hp; cbn [rvl_loop]; [reflexivity|].
    rewrite (S p Hp). cbv zeta.
    destruct (p + 1 >? lim); [reflexivity|].
    destruct (get m0 p =? 255); [|reflexivity].
    apply IH. lia.
  Qed.
  Lemma rvl_agree m h p lim ic k : same_above m0 m h -> h <= p ->
    rvl m iend p lim ic k = rvl m0 iend p lim ic k.
  Proof. intros S Hp. unfold rvl. destruct (ic && (p >=? lim)); [reflexivity|]. apply (rvl_loop_agree m h S); exact Hp. Qed.
  Lemma readLE16_agree m h p : same_above m0 m h -> h <= p -> readLE16 m p = readLE16 m0 p.
  Proof. intros S Hp. unfold readLE16. rewrite (S p Hp), (S (p + 1)) by lia. reflexivity. Qed.

  Lemma copy_match_lbl_agree m h s offset ml : same_above m0 m h -> h <= ip s ->
    copy_match_lbl false NoDict m iend oend 0 0 empty 0 s offset ml
    = copy_match_lbl false NoDict m0 iend oend 0 0 empty 0 s offset ml.
  Proof. intros S Hp. unfold copy_match_lbl. rewrite (rvl_agree m h _ _ _ _ S Hp). reflexivity. Qed.

  Lemma fast_offset_agree m h s token : same_above m0 m h -> h <= ip s ->
    fast_offset false NoDict m iend oend 0 0 empty 0 s token
    = fast_offset false NoDict m0 iend oend 0 0 empty 0 s token.
  Proof.
    intros S Hp. unfold fast_offset.
    rewrite (readLE16_agree m h _ S Hp), (rvl_agree m h (ip s + 2) _ _ _ S) by lia. reflexivity.
  Qed.

  Hypothesis Hsrc : forall a, 0 <= get m0 a < 256.

  Lemma a_safe_lit_eq s token length :
    same_above m0 (dm s) (ip s) -> op s + 8 <= ip s -> 0 <= length ->
    a_safe_lit iend oend s token length
    = safe_lit false NoDict m0 iend oend 0 0 empty 0 s token length.
  Proof.
    intros S Hg Hl. unfold a_safe_lit, safe_lit. cbv zeta. cbn [negb andb orb].
    destruct ((op s + length >? oend - MFLIMIT) || (ip s + length >? iend - (2 + 1 + LASTLITERALS))).
    - destruct (negb (ip s + length =? iend) || (op s + length >? oend)); [reflexivity|].
      rewrite (blit_agree (dm s) (ip s) (ip s) _ (op s) S (Z.le_refl _)). reflexivity.
    - rewrite (wild8_alias (dm s) (op s) (ip s) (op s + length) S) by lia.
      cbn [ip op dm ok].
      pose proof (wild8_len_bounds (op s) (op s + length)) as Hw.
      assert (S1 : same_above m0 (wild8_in m0 (ip s) (dm s) (op s) (op s + length)) (ip s + length)).
      { eapply same_above_trans; [exact S | apply wild8_in_above | lia | lia]. }
      rewrite (readLE16_agree _ _ _ S1 (Z.le_refl _)).
      apply (copy_match_lbl_agree _ (ip s + length)); [exact S1 | cbn [ip]; lia].
  Qed.

  Lemma a_safe_top_eq s :
    same_above m0 (dm s) (ip s) -> op s + 31 <= ip s ->
    a_safe_top iend oend s = safe_top false NoDict m0 iend oend 0 0 empty 0 s.
  Proof.
    intros S Hg. unfold a_safe_top, safe_top. cbv zeta.
    rewrite (S (ip s) (Z.le_refl _)).
    pose proof (Hsrc (ip s)) as Hb.
    assert (Hll : 0 <= get m0 (ip s) / 16 < 16) by (split; [apply Z.div_pos; lia | apply Z.div_lt_upper_bound; lia]).
    destruct (negb (get m0 (ip s) / 16 =? RUN_MASK) && ((ip s + 1 <? shortiend iend) && (op s <=? shortoend oend))).
    - rewrite (blit_agree (dm s) (ip s) (ip s + 1) 16 (op s) S) by lia.
      set (m1 := blit m0 (ip s + 1) (dm s) (op s) 16).
      assert (S1 : same_above m0 m1 (ip s + 1 + get m0 (ip s) / 16)).
      { eapply same_above_trans; [exact S | apply (blit_above m0 (ip s + 1) (dm s) (op s) 16) | lia | lia]. }
      clearbody m1.
      rewrite (readLE16_agree m1 _ _ S1 (Z.le_refl _)).
      match goal with |- (if ?c then _ else _) = _ => destruct c end; [reflexivity|].
      apply (copy_match_lbl_agree m1 (ip s + 1 + get m0 (ip s) / 16)); [exact S1 | cbn [ip]; lia].
    - destruct (get m0 (ip s) / 16 =? RUN_MASK) eqn:E15.
      + rewrite (rvl_agree (dm s) (ip s) (ip s + 1) _ _ _ S) by lia.
        pose proof (rvl_ip m0 iend Hsrc (ip s + 1) (iend - RUN_MASK) true (ok s && rd_src iend (ip s) 1)) as Hr.
        destruct (rvl m0 iend (ip s + 1) (iend - RUN_MASK) true (ok s && rd_src iend (ip s) 1)) as [[[l|] p'] k'];
          destruct Hr as [Hp' Hl0]; [|reflexivity].
        apply a_safe_lit_eq; cbn [ip op dm]; [eapply same_above_weaken; [exact S | lia] | lia | lia].
      + apply a_safe_lit_eq; cbn [ip op dm]; [eapply same_above_weaken; [exact S | lia] | lia | lia].
  Qed.

  Lemma a_fast_top_eq s :
    same_above m0 (dm s) (ip s) -> op s + 31 <= ip s ->
    a_fast_top iend oend s = fast_top false NoDict m0 iend oend 0 0 empty 0 s.
  Proof.
    intros S Hg. unfold a_fast_top, fast_top. cbv zeta.
    rewrite (S (ip s) (Z.le_refl _)).
    pose proof (Hsrc (ip s)) as Hb.
    assert (Hll : 0 <= get m0 (ip s) / 16 < 16) by (split; [apply Z.div_pos; lia | apply Z.div_lt_upper_bound; lia]).
    destruct (get m0 (ip s) / 16 =? RUN_MASK) eqn:E15.
    - rewrite (rvl_agree (dm s) (ip s) (ip s + 1) _ _ _ S) by lia.
      pose proof (rvl_ip m0 iend Hsrc (ip s + 1) (iend - RUN_MASK) true (ok s && rd_src iend (ip s) 1)) as Hr.
      destruct (rvl m0 iend (ip s + 1) (iend - RUN_MASK) true (ok s && rd_src iend (ip s) 1)) as [[[l|] p'] k'];
        destruct Hr as [Hp' Hl0]; [|reflexivity].
      match goal with |- (if ?c then _ else _) = _ => destruct c end.
      + apply a_safe_lit_eq; cbn [ip op dm]; [eapply same_above_weaken; [exact S | lia] | lia | lia].
      + assert (Sp : same_above m0 (dm s) p') by (eapply same_above_weaken; [exact S | lia]).
        rewrite (wild32_alias (dm s) (op s) p' _ Sp) by lia.
        pose proof (wild32_len_bounds (op s) (op s + (get m0 (ip s) / 16 + l))) as Hw.
        unfold RUN_MASK in E15.
        apply (fast_offset_agree _ (p' + (get m0 (ip s) / 16 + l))); [|cbn [ip]; lia].
        eapply same_above_trans; [exact Sp | apply wild32_in_above | lia | lia].
    - destruct (ip s + 1 <=? iend - (16 + 1)).
      + rewrite (blit_agree (dm s) (ip s) (ip s + 1) 16 (op s) S) by lia.
        apply (fast_offset_agree _ (ip s + 1 + get m0 (ip s) / 16)); [|cbn [ip]; lia].
        eapply same_above_trans; [exact S | apply (blit_above m0 (ip s + 1) (dm s) (op s) 16) | lia | lia].
      + apply a_safe_lit_eq; cbn [ip op dm]; [eapply same_above_weaken; [exact S | lia] | lia | lia].
  Qed.

  (* the whole iteration, either loop; and what it leaves for the next boundary *)
  Definition a_step (fast : bool) (s : dstate) : dout :=
    if fast then a_fast_top iend oend s else a_safe_top iend oend s.
  Definition d_step (fast : bool) (s : dstate) : dout :=
    if fast then fast_top false NoDict m0 iend oend 0 0 empty 0 s
    else safe_top false NoDict m0 iend oend 0 0 empty 0 s.

  Theorem a_step_eq fast s :
    same_above m0 (dm s) (ip s) -> op s + 31 <= ip s -> a_step fast s = d_step fast s.
  Proof. intros S Hg. destruct fast; [apply a_fast_top_eq | apply a_safe_top_eq]; assumption. Qed.

  (* if the next boundary again has the input cursor 31 bytes ahead, its input is intact *)
  Lemma d_step_keeps fast s f' s' :
    same_above m0 (dm s) (ip s) -> d_step fast s = Cont f' s' ->
    ip s <= ip s' -> op s' + 31 <= ip s' -> same_above m0 (dm s') (ip s').
  Proof.
    intros S E Hi Hg.
    destruct step_footprint as [Hs Hf].
    assert (F : same_above (dm s) (dm s') (op s' + 31)).
    { destruct fast; unfold d_step in E.
      - specialize (Hf NoDict m0 iend oend 0 0 empty 0 s Hsrc). cbv iota in Hf. rewrite E in Hf. exact (proj1 Hf).
      - specialize (Hs NoDict m0 iend oend 0 0 empty 0 s Hsrc). cbv iota in Hs. rewrite E in Hs.
        intros a Ha. apply (proj1 Hs). lia. }
    eapply same_above_trans; [exact S | exact F | lia | lia].
  Qed.
End Agree.
