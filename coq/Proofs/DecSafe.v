(* C02: memory safety of the block decoder model [Model.Dec.dec_generic]:
   every memory access made by the decoder is in bounds (the sticky flag [ok]
   stays true, which also means the fuel never runs out), and the return value
   is either negative or a size in [0, oend]. *)
From Coq Require Import ZArith List Lia Bool ZifyBool.
From LZ4V Require Import Gen.Consts Model.Mem Model.Dec.
Import ListNotations.
Local Open Scope Z_scope.

Definition src_bytes (srcm : mem) : Prop := forall a, 0 <= get srcm a < 256.

(* ---------- arithmetic facts about the copy primitives ---------- *)

Lemma wild8_len_bounds d e : 8 <= wild8_len d e <= Z.max 8 (e - d + 7).
Proof. unfold wild8_len, wild_iters. Z.div_mod_to_equations. lia. Qed.

Lemma wild32_len_bounds d e : 32 <= wild32_len d e <= Z.max 32 (e - d + 31).
Proof. unfold wild32_len, wild_iters. Z.div_mod_to_equations. lia. Qed.

Lemma using_offset_len_bounds d e offset :
  8 <= using_offset_len d e offset <= Z.max 16 (e - d + 7).
Proof.
  unfold using_offset_len.
  pose proof (wild8_len_bounds d e). pose proof (wild8_len_bounds (d + 8) e).
  destruct ((offset =? 1) || (offset =? 2) || (offset =? 4)); lia.
Qed.

Lemma tbl_bounds offset :
  0 <= offset < 8 ->
  0 <= tbl inc32table offset <= offset /\
  0 <= tbl inc32table offset - tbl dec64table offset <= offset.
Proof.
  intros H.
  assert (offset = 0 \/ offset = 1 \/ offset = 2 \/ offset = 3 \/
          offset = 4 \/ offset = 5 \/ offset = 6 \/ offset = 7) as E by lia.
  destruct E as [E|[E|[E|[E|[E|[E|[E|E]]]]]]]; subst offset; vm_compute;
    repeat split; discriminate.
Qed.

(* ---------- the safety proof proper ---------- *)

Section Safe.
  Variables (partial : bool) (dict : ddict) (srcm : mem).
  Variables (iend oend lowPrefix rlow : Z) (dictm : mem) (dictSize : Z).
  Hypothesis Hsrc : src_bytes srcm.
  Hypothesis HlowP : lowPrefix <= 0.
  (* the readable region below dst starts at [rlow]: either it is the prefix the decoder
     was told about, or it is at least 65535 bytes (no offset can reach below it) *)
  Hypothesis Hrlow : rlow <= lowPrefix \/ (dict = WithPrefix64k /\ rlow <= -65535).
  (* [0 <= iend] is used only by the top-level theorem (to get [0 < iend] after
     the early returns); [0 <= dictSize] turns out not to be needed at all. *)
  Hypothesis Hp64 : dict = WithPrefix64k -> lowPrefix = -65536.
  Hypothesis Hext : dict <> UsingExtDict -> dictSize = 0.

  Lemma Hp64b : is_prefix64k dict = true -> lowPrefix = -65536.
  Proof. destruct dict; simpl; intros; try discriminate; auto. Qed.
  Lemma Hextb : is_extdict dict = false -> dictSize = 0.
  Proof. destruct dict; simpl; intros; try discriminate; apply Hext; discriminate. Qed.

  Lemma Hrlow_ext : is_extdict dict = true -> rlow <= lowPrefix.
  Proof. destruct dict; simpl; intros; try discriminate. destruct Hrlow as [|[? _]]; [assumption|discriminate]. Qed.
  Lemma Hrlow_w : rlow <= lowPrefix \/ rlow <= -65535.
  Proof. destruct Hrlow as [|[_ ?]]; auto. Qed.

  Lemma readLE16_range p : 0 <= readLE16 srcm p <= 65535.
  Proof. unfold readLE16. pose proof (Hsrc p). pose proof (Hsrc (p + 1)). lia. Qed.

  (* ----- read_variable_length ----- *)
  Lemma rvl_loop_spec : forall fuel p len ilimit,
    0 <= p < iend -> ilimit < iend -> iend - p < Z.of_nat fuel -> 0 <= len ->
    match rvl_loop srcm iend fuel p len true ilimit with
    | (Some l, p', k') => k' = true /\ p < p' <= ilimit /\ 0 <= l
    | (None, p', k') => k' = true /\ p < p'
    end.
  Proof.
    induction fuel as [|f IH]; intros p len ilimit Hp Hil Hf Hlen.
    - lia.
    - cbn [rvl_loop]. cbv zeta.
      assert (rd_src iend p 1 = true) as -> by (unfold rd_src; lia).
      cbn [andb].
      destruct (p + 1 >? ilimit) eqn:E1; [split; lia|].
      destruct (get srcm p =? 255) eqn:E2; [|repeat split; try lia; pose proof (Hsrc p); lia].
      pose proof (Hsrc p).
      specialize (IH (p + 1) (len + get srcm p) ilimit).
      destruct (rvl_loop srcm iend f (p + 1) (len + get srcm p) true ilimit) as [[[l|] p'] k'];
        cbv beta iota in IH |- *; lia.
  Qed.

  Lemma rvl_spec p ilimit ic k :
    0 <= p /\ ilimit < iend /\ (ic = true \/ p < iend) /\ k = true ->
    match rvl srcm iend p ilimit ic k with
    | (Some l, p', k') => k' = true /\ p < p' <= ilimit /\ 0 <= l
    | (None, p', k') => k' = true /\ p <= p'
    end.
  Proof.
    intros (Hp & Hil & Hic & ->). unfold rvl.
    destruct (ic && (p >=? ilimit)) eqn:E; [split; [reflexivity|lia]|].
    pose proof (rvl_loop_spec (Z.to_nat iend + 1) p 0 ilimit) as H.
    destruct (rvl_loop srcm iend (Z.to_nat iend + 1) p 0 true ilimit) as [[[l|] p'] k'];
      cbv beta iota in H |- *; lia.
  Qed.

  (* ----- post-condition of one step ----- *)
  Definition post (lo : Z) (out : dout) : Prop :=
    match out with
    | Cont f s' => ok s' = true /\ lo <= ip s' < iend /\ 0 <= op s' <= oend /\
                   (f = true -> op s' <= oend - 64)
    | Done s' => ok s' = true /\ 0 <= op s' <= oend
    | Err s' => ok s' = true /\ 0 <= ip s'
    end.

  Lemma post_mono lo lo' out : lo' <= lo -> post lo out -> post lo' out.
  Proof. destruct out; cbn [post]; intros; lia. Qed.

  Ltac hd :=
    lazymatch goal with
    | |- post _ (if ?c then _ else _) => destruct c eqn:?
    | |- post _ (match (if ?c then _ else _) with _ => _ end) => destruct c eqn:?
    end; cbv beta iota.

  Ltac abs_terms :=
    repeat match goal with
    | |- context [wild8_len ?d ?e] =>
        let x := fresh "w" in
        pose proof (wild8_len_bounds d e); set (x := wild8_len d e) in *; clearbody x
    | |- context [wild32_len ?d ?e] =>
        let x := fresh "w" in
        pose proof (wild32_len_bounds d e); set (x := wild32_len d e) in *; clearbody x
    | |- context [using_offset_len ?d ?e ?o] =>
        let x := fresh "w" in
        pose proof (using_offset_len_bounds d e o); set (x := using_offset_len d e o) in *; clearbody x
    | |- context [readLE16 srcm ?p] =>
        let x := fresh "off" in
        pose proof (readLE16_range p); set (x := readLE16 srcm p) in *; clearbody x
    | |- context [?t mod 16] =>
        let x := fresh "ml" in
        pose proof (Z.mod_pos_bound t 16 eq_refl); set (x := t mod 16) in *; clearbody x
    end.

  Ltac unf :=
    unfold wr, rd_src, rd_dst, rd_dict, checkOffset, shortiend, shortoend,
      MINMATCH, LASTLITERALS, MFLIMIT, MATCH_SAFEGUARD_DISTANCE,
      FASTLOOP_SAFE_DISTANCE, WILDCOPYLENGTH, ML_MASK, RUN_MASK in *;
    cbn [post ip op dm ok] in *.

  Ltac fin := unf; abs_terms; pose proof Hp64b; pose proof Hextb; pose proof Hrlow_w; pose proof Hrlow_ext; lia.

  (* ----- match starting in the external dictionary ----- *)
  Lemma ext_match_ok infast s mat len0 :
    ok s = true -> 0 <= ip s < iend -> 0 <= op s <= oend ->
    mat < lowPrefix -> lowPrefix <= mat + dictSize -> 0 <= len0 -> rlow <= lowPrefix ->
    (infast = true -> op s + len0 <= oend - 64) ->
    post (ip s) (ext_match partial oend lowPrefix rlow dictm dictSize infast s mat len0).
  Proof.
    intros Hok Hip Hop Hmat Hmd Hlen Hrl Hfast.
    unfold ext_match. cbv zeta.
    destruct (op s + len0 >? oend - LASTLITERALS) eqn:Eover; cbv beta iota.
    - hd; [fin|]. hd; fin.
    - hd; [fin|]. hd; fin.
  Qed.

  Ltac sub L := eapply post_mono; [|apply L]; fin.

  Ltac use_rvl :=
    match goal with
    | |- context [rvl srcm iend ?p ?il ?ic ?k] =>
        let Hr := fresh "Hr" in
        let l := fresh "l" in let p' := fresh "p'" in let k' := fresh "k'" in
        assert (Hr := rvl_spec p il ic k);
        lapply Hr; [clear Hr; intro Hr | fin];
        destruct (rvl srcm iend p il ic k) as [[[l|] p'] k']; cbv beta iota in Hr |- *
    end.

  (* ----- safe_match_copy ----- *)
  Lemma safe_match_ok s offset length :
    ok s = true -> 0 <= ip s < iend -> 0 <= op s <= oend ->
    (partial = false -> op s + 12 <= oend) ->
    0 <= offset <= 65535 -> 4 <= length ->
    post (ip s) (safe_match partial dict oend lowPrefix rlow dictm dictSize s offset length).
  Proof.
    intros Hok Hip Hop Hnp Hoff Hlen.
    unfold safe_match, first8. cbv zeta.
    hd. { fin. }
    hd. { apply ext_match_ok; fin. }
    hd.
    - hd; fin.
    - pose proof (tbl_bounds offset) as Htbl.
      destruct (offset <? 8) eqn:E8; cbv beta iota.
      + hd.
        * hd. { fin. } hd; fin.
        * hd; fin.
      + hd.
        * hd. { fin. } hd; fin.
        * hd; fin.
  Qed.

  (* ----- _copy_match ----- *)
  Lemma copy_match_ok s offset ml :
    ok s = true -> 0 <= ip s < iend -> 0 <= op s <= oend ->
    (partial = false -> op s + 12 <= oend) ->
    0 <= offset <= 65535 -> 0 <= ml <= 15 ->
    post (ip s) (copy_match_lbl partial dict srcm iend oend lowPrefix rlow dictm dictSize s offset ml).
  Proof.
    intros Hok Hip Hop Hnp Hoff Hml.
    unfold copy_match_lbl.
    hd.
    - use_rvl.
      + sub safe_match_ok.
      + fin.
    - apply safe_match_ok; fin.
  Qed.

  (* ----- safe_literal_copy ----- *)
  Lemma safe_lit_ok s token length :
    ok s = true -> 0 <= ip s <= iend -> 0 <= op s <= oend -> 0 <= length ->
    post (ip s) (safe_lit partial dict srcm iend oend lowPrefix rlow dictm dictSize s token length).
  Proof.
    intros Hok Hip Hop Hlen.
    unfold safe_lit. cbv zeta.
    hd.
    - hd. { fin. }
      hd; (hd; (hd; [fin | sub copy_match_ok])).
    - sub copy_match_ok.
  Qed.

  (* ----- the fast loop's match copy ----- *)
  Lemma fast_match_ok s offset length :
    ok s = true -> 0 <= ip s < iend -> 0 <= op s ->
    op s + length < oend - 64 -> 0 <= offset <= 65535 -> 4 <= length ->
    post (ip s) (fast_match partial dict oend lowPrefix rlow dictm dictSize s offset length).
  Proof.
    intros Hok Hip Hop Hcpy Hoff Hlen.
    unfold fast_match. cbv zeta.
    hd. { fin. }
    hd. { apply ext_match_ok; fin. }
    hd.
    - destruct (offset <? 8) eqn:E8; fin.
    - fin.
  Qed.

  Lemma fast_offset_ok s token :
    ok s = true -> 0 <= ip s -> ip s + 2 < iend -> 0 <= op s <= oend - 32 ->
    post (ip s) (fast_offset partial dict srcm iend oend lowPrefix rlow dictm dictSize s token).
  Proof.
    intros Hok Hip Hip2 Hop.
    unfold fast_offset. cbv zeta.
    hd.
    - use_rvl.
      + hd; [sub safe_match_ok | sub fast_match_ok].
      + fin.
    - hd. { sub safe_match_ok. }
      hd. { fin. }
      sub fast_match_ok.
  Qed.

  Lemma nibble_hi t : 0 <= t < 256 -> 0 <= t / 16 <= 15.
  Proof. intros. Z.div_mod_to_equations. lia. Qed.

  (* ----- one iteration of the safe loop ----- *)
  Lemma safe_top_ok s :
    ok s = true -> 0 <= ip s < iend -> 0 <= op s <= oend ->
    post (ip s + 1) (safe_top partial dict srcm iend oend lowPrefix rlow dictm dictSize s).
  Proof.
    intros Hok Hip Hop.
    unfold safe_top. cbv zeta.
    pose proof (Hsrc (ip s)) as Htok. pose proof (nibble_hi _ Htok) as Hlen.
    set (token := get srcm (ip s)) in *. clearbody token.
    set (len := token / 16) in *. clearbody len.
    hd.
    - hd. { fin. }
      sub copy_match_ok.
    - hd.
      + use_rvl.
        * sub safe_lit_ok.
        * fin.
      + sub safe_lit_ok.
  Qed.

  (* ----- one iteration of the fast loop ----- *)
  Lemma fast_top_ok s :
    ok s = true -> 0 <= ip s < iend -> 0 <= op s <= oend - 64 ->
    post (ip s + 1) (fast_top partial dict srcm iend oend lowPrefix rlow dictm dictSize s).
  Proof.
    intros Hok Hip Hop.
    unfold fast_top. cbv zeta.
    pose proof (Hsrc (ip s)) as Htok. pose proof (nibble_hi _ Htok) as Hlen.
    set (token := get srcm (ip s)) in *. clearbody token.
    set (len := token / 16) in *. clearbody len.
    hd.
    - use_rvl.
      + hd; [sub safe_lit_ok | sub fast_offset_ok].
      + fin.
    - hd; [sub fast_offset_ok | sub safe_lit_ok].
  Qed.

  (* ----- the loop ----- *)
  Lemma run_ok : forall fuel fast s,
    ok s = true -> 0 <= ip s < iend -> 0 <= op s <= oend ->
    (fast = true -> op s <= oend - 64) -> iend - ip s < Z.of_nat fuel ->
    let '(r, s') := run partial dict srcm iend oend lowPrefix rlow dictm dictSize fuel fast s in
    ok s' = true /\ (r < 0 \/ 0 <= r <= oend).
  Proof.
    induction fuel as [|f IH]; intros fast s Hok Hip Hop Hfast Hfuel.
    - lia.
    - cbn [run].
      assert (post (ip s + 1)
                (if fast then fast_top partial dict srcm iend oend lowPrefix rlow dictm dictSize s
                 else safe_top partial dict srcm iend oend lowPrefix rlow dictm dictSize s)) as Hpost.
      { destruct fast; [apply fast_top_ok | apply safe_top_ok]; auto; lia. }
      destruct (if fast then fast_top partial dict srcm iend oend lowPrefix rlow dictm dictSize s
                else safe_top partial dict srcm iend oend lowPrefix rlow dictm dictSize s)
        as [fast' s'|s'|s']; cbn [post] in Hpost.
      + apply IH; lia.
      + lia.
      + lia.
  Qed.

End Safe.

Theorem dec_generic_safe :
  forall fastloop partial dict srcm iend oend lowPrefix rlow dictm dictSize m0,
    src_bytes srcm -> 0 <= iend -> lowPrefix <= 0 ->
    (rlow <= lowPrefix \/ (dict = WithPrefix64k /\ rlow <= -65535)) -> 0 <= dictSize ->
    (dict = WithPrefix64k -> lowPrefix = -65536) ->
    (dict <> UsingExtDict -> dictSize = 0) ->
    let '(r, m, ok) := dec_generic fastloop partial dict srcm iend oend lowPrefix rlow dictm dictSize m0 in
    ok = true /\ (r < 0 \/ 0 <= r <= oend).
Proof.
  intros fastloop partial dict srcm iend oend lowPrefix rlow dictm dictSize m0
         Hsrc Hiend HlowP Hrlow Hds Hp64 Hext.
  unfold dec_generic.
  destruct (oend <? 0) eqn:E1; [split; [reflexivity | lia]|].
  destruct (oend =? 0) eqn:E2.
  { destruct partial; [split; [reflexivity | lia]|].
    destruct (iend =? 1); [|split; [reflexivity | lia]].
    destruct (get srcm 0 / 2 ^ ML_BITS =? 0); split; try reflexivity; lia. }
  destruct (iend =? 0) eqn:E3; [split; [reflexivity | lia]|].
  cbv zeta.
  pose proof (run_ok partial dict srcm iend oend lowPrefix rlow dictm dictSize
                Hsrc HlowP Hrlow Hp64 Hext (Z.to_nat iend + 2)
                (fastloop && negb (oend <? FASTLOOP_SAFE_DISTANCE)) (mkD 0 0 m0 true)) as H.
  cbn [ip op ok dm] in H.
  destruct (run partial dict srcm iend oend lowPrefix rlow dictm dictSize (Z.to_nat iend + 2)
              (fastloop && negb (oend <? FASTLOOP_SAFE_DISTANCE)) (mkD 0 0 m0 true)) as [r s'].
  apply H; unfold FASTLOOP_SAFE_DISTANCE; lia.
Qed.

Print Assumptions dec_generic_safe.

