(* Basic facts about the primitives of Model.Fast: LZ4_count, the catch-up loop,
   4-byte reads, literal extraction, and list lemmas about factorisations. *)
From Coq Require Import ZArith List Lia Bool ZifyBool.
From LZ4V Require Import Gen.Consts Spec.BlockSpec Model.Mem Model.Fast Proofs.FactorSpec.
Import ListNotations.
Local Open Scope Z_scope.

Section Basics.
  Variable vrd : Z -> Z.
  Hypothesis Hb : forall a, 0 <= vrd a < 256.

  Lemma lits_bytes n a : lits vrd n a = bytes vrd n a.
  Proof. revert a; induction n as [|n IH]; intros a; cbn [lits bytes]; [reflexivity | rewrite IH; reflexivity]. Qed.

  Lemma lits_seg a b : 0 <= b -> lits vrd (Z.to_nat b) a = seg vrd a (a + b).
  Proof. intros H. rewrite lits_bytes. unfold seg. f_equal. lia. Qed.

  Lemma lits_length n a : length (lits vrd n a) = n.
  Proof. rewrite lits_bytes. apply bytes_length. Qed.

  (* equal 4-byte little-endian reads mean equal bytes *)
  Lemma read32_eq p q :
    read32 vrd p = read32 vrd q -> forall k, 0 <= k < 4 -> vrd (p + k) = vrd (q + k).
  Proof.
    unfold read32. intros H k Hk.
    pose proof (Hb p). pose proof (Hb (p + 1)). pose proof (Hb (p + 2)). pose proof (Hb (p + 3)).
    pose proof (Hb q). pose proof (Hb (q + 1)). pose proof (Hb (q + 2)). pose proof (Hb (q + 3)).
    assert (k = 0 \/ k = 1 \/ k = 2 \/ k = 3) as [-> | [-> | [-> | ->]]] by lia;
      rewrite ?Z.add_0_r; lia.
  Qed.

  (* LZ4_count *)
  Lemma count_eq_spec : forall fuel p m limit acc,
    let n := count_eq vrd fuel p m limit acc in
    acc <= n <= acc + Z.of_nat fuel /\
    (p <= limit -> n - acc <= limit - p) /\
    (forall k, 0 <= k < n - acc -> vrd (p + k) = vrd (m + k)) /\
    (n - acc < Z.of_nat fuel -> p + (n - acc) < limit -> vrd (p + (n - acc)) <> vrd (m + (n - acc))).
  Proof.
    induction fuel as [|f IH]; intros p m limit acc; cbn [count_eq]; cbv zeta.
    - repeat split; intros; lia.
    - destruct ((p <? limit) && (vrd p =? vrd m)) eqn:E.
      + specialize (IH (p + 1) (m + 1) limit (acc + 1)). cbv zeta in IH.
        set (n := count_eq vrd f (p + 1) (m + 1) limit (acc + 1)) in *.
        destruct IH as (H1 & H2 & H3 & H4).
        repeat split; try lia.
        * intros k Hk. destruct (Z.eq_dec k 0) as [->|Hk0].
          -- rewrite !Z.add_0_r. lia.
          -- replace (p + k) with (p + 1 + (k - 1)) by lia. replace (m + k) with (m + 1 + (k - 1)) by lia.
             apply H3. lia.
        * intros Ha Hc. replace (p + (n - acc)) with (p + 1 + (n - (acc + 1))) by lia.
          replace (m + (n - acc)) with (m + 1 + (n - (acc + 1))) by lia. apply H4; lia.
      + repeat split; try lia.
        intros _ Hc. replace (p + (acc - acc)) with p by lia. replace (m + (acc - acc)) with m by lia.
        lia.
  Qed.

  Lemma count_spec p m limit :
    p <= limit ->
    let n := count vrd p m limit in
    0 <= n <= limit - p /\
    (forall k, 0 <= k < n -> vrd (p + k) = vrd (m + k)) /\
    (p + n < limit -> vrd (p + n) <> vrd (m + n)).
  Proof.
    intros Hp. unfold count.
    pose proof (count_eq_spec (Z.to_nat (limit - p)) p m limit 0) as H. cbv zeta in H.
    set (n := count_eq vrd (Z.to_nat (limit - p)) p m limit 0) in *.
    destruct H as (H1 & H2 & H3 & H4). cbv zeta.
    repeat split; try lia.
    - intros k Hk. apply H3. lia.
    - intros Hc. replace n with (n - 0) by lia. apply H4; lia.
  Qed.

  (* if the first K bytes are known to be equal and fit below the limit, count finds at least K *)
  Lemma count_ge p m limit K :
    p <= limit -> 0 <= K -> p + K <= limit ->
    (forall k, 0 <= k < K -> vrd (p + k) = vrd (m + k)) -> K <= count vrd p m limit.
  Proof.
    intros Hp HK Hl Heq. pose proof (count_spec p m limit Hp) as H. cbv zeta in H.
    set (n := count vrd p m limit) in *. destruct H as (H1 & H2 & H3).
    destruct (Z_lt_le_dec n K) as [Hlt|]; [|lia].
    exfalso. apply H3; [lia|]. apply Heq. lia.
  Qed.

  (* the catch-up loop *)
  Lemma catchup_spec : forall fuel i m anchor low back0,
    let b := catchup vrd fuel i m anchor low back0 in
    back0 <= b <= back0 + Z.of_nat fuel /\
    (anchor <= i -> anchor <= i - (b - back0)) /\
    (low <= m -> low <= m - (b - back0)) /\
    (forall k, 1 <= k <= b - back0 -> vrd (i - k) = vrd (m - k)).
  Proof.
    induction fuel as [|f IH]; intros i m anchor low back0; cbn [catchup]; cbv zeta.
    - repeat split; intros; lia.
    - destruct ((i >? anchor) && (m >? low) && (vrd (i - 1) =? vrd (m - 1))) eqn:E.
      + specialize (IH (i - 1) (m - 1) anchor low (back0 + 1)). cbv zeta in IH.
        set (b := catchup vrd f (i - 1) (m - 1) anchor low (back0 + 1)) in *.
        destruct IH as (H1 & H2 & H3 & H4).
        repeat split; try lia.
        intros k Hk. destruct (Z.eq_dec k 1) as [->|Hk1]; [lia|].
        replace (i - k) with (i - 1 - (k - 1)) by lia. replace (m - k) with (m - 1 - (k - 1)) by lia.
        apply H4. lia.
      + repeat split; intros; lia.
  Qed.
End Basics.

(* ---- factorisations: appending one sequence ---- *)
Section Snoc.
  Variable vrd : Z -> Z.

  Lemma seqs_end_app pos ss q :
    seqs_end pos (ss ++ [q]) = seqs_end pos ss + Z.of_nat (length (s_lits q)) + s_mlen q.
  Proof. revert pos; induction ss as [|x r IH]; intros pos; cbn [app seqs_end]; [lia | apply IH]. Qed.

  Lemma seqs_valid_app lo pos ss q :
    seqs_valid vrd lo pos ss ->
    (let e := seqs_end pos ss in
     let ll := Z.of_nat (length (s_lits q)) in
     s_lits q = seg vrd e (e + ll) /\ match_ok vrd lo (e + ll) (s_off q) (s_mlen q)) ->
    seqs_valid vrd lo pos (ss ++ [q]).
  Proof.
    revert pos; induction ss as [|x r IH]; intros pos Hv Hq; cbn [app seqs_valid seqs_end] in *.
    - cbv zeta in Hq. destruct Hq as (H1 & H2). split; [exact H1 | split; [exact H2 | exact I]].
    - destruct Hv as (H1 & H2 & H3). split; [exact H1 | split; [exact H2 | apply IH; assumption]].
  Qed.
End Snoc.
