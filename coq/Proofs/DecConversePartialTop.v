(* C16 converse at the level of dec_generic (partial = true) and of the partial entry points. *)
From Coq Require Import ZArith List Lia Bool ZifyBool.
From LZ4V Require Import Gen.Consts Spec.BlockSpec Model.Mem Model.Dec Model.DecApi.
From LZ4V Require Import Proofs.DecSafe Proofs.DecRefineBase Proofs.DecRefineSafe Proofs.DecRefineTop Proofs.DecRefineApi.
From LZ4V Require Import Model.DecSem.
From LZ4V Require Import Proofs.DecConverse Proofs.DecConversePartial.
Import ListNotations.
Local Open Scope Z_scope.

(* success with result r: the first r bytes of the destination are the first r bytes of the
   specified output - unless some parsed sequence has offset 0 (finding F5) *)
Definition prefix_sound (res : Z * mem * bool) (hist B : list Z) : Prop :=
  let '(r, m, k) := res in
  0 <= r ->
  zero_off (S (length B)) B = true \/
  (r <= Z.of_nat (length (specified_output hist B)) /\
   forall i, 0 <= i < r -> get m i = nth (Z.to_nat i) (specified_output hist B) 0).

Section PTop.
  Variables (dict : ddict) (srcm : mem) (dictm : mem) (dictSize : Z).
  Variables (lowPrefix rlow : Z).
  Hypothesis HlowP : lowPrefix <= 0.
  Hypothesis Hds : 0 <= dictSize.
  Hypothesis Hext : is_extdict dict = false -> dictSize = 0.
  Hypothesis Hp64 : is_prefix64k dict = true -> lowPrefix <= -65535.
  Hypothesis Hsrc : forall a, 0 <= get srcm a < 256.
  Hypothesis Hrlow : rlow <= lowPrefix \/ (dict = WithPrefix64k /\ rlow <= -65535).
  Hypothesis Hp64e : dict = WithPrefix64k -> lowPrefix = -65536.
  Hypothesis Hexte : dict <> UsingExtDict -> dictSize = 0.

  Theorem dec_generic_partial_sound (fastloop : bool) (B hist : list Z) oend m0 :
    bytes B -> src_at srcm 0 B ->
    out_at (vget lowPrefix dictm dictSize m0) 0 (rev hist) ->
    (- lowPrefix + hroom dict dictSize <= Z.of_nat (length hist) \/ 65535 <= Z.of_nat (length hist)) ->
    prefix_sound (dec_generic fastloop true dict srcm (Z.of_nat (length B)) oend lowPrefix rlow dictm dictSize m0) hist B.
  Proof.
    intros Hb Hs Hh Hav. unfold prefix_sound, dec_generic.
    destruct (oend <? 0) eqn:E1; [intros; lia|].
    destruct (oend =? 0) eqn:E0.
    { intros _. right. split; [lia|]. intros; lia. }
    destruct (Z.of_nat (length B) =? 0) eqn:EB; [intros; lia|].
    pose proof (run_rev_part dict srcm (Z.of_nat (length B)) oend lowPrefix rlow dictm dictSize
                  HlowP Hds Hext Hp64 Hsrc Hrlow Hp64e Hexte
                  (Z.to_nat (Z.of_nat (length B)) + 2) (fastloop && negb (oend <? FASTLOOP_SAFE_DISTANCE))
                  (mkD 0 0 m0 true) B (rev hist) (S (length B)) _ (Z.of_nat (length hist)) eq_refl eq_refl) as HR.
    cbn [ip op dm] in HR.
    specialize (HR Hs Hb ltac:(lia) ltac:(lia) ltac:(lia)).
    specialize (HR ltac:(unfold FASTLOOP_SAFE_DISTANCE; lia) Hh ltac:(rewrite rev_length; lia) Hav ltac:(lia)).
    destruct (run true dict srcm (Z.of_nat (length B)) oend lowPrefix rlow dictm dictSize
                (Z.to_nat (Z.of_nat (length B)) + 2) (fastloop && negb (oend <? FASTLOOP_SAFE_DISTANCE)) (mkD 0 0 m0 true)) as [r s'].
    intros Hr. destruct (HR Hr) as [Hz|[Hro (c & Hout & Hlen & Hc)]]; [left; exact Hz|].
    right. unfold specified_output.
    set (T := sem (S (length B)) (rev hist) B) in *.
    split.
    - rewrite skipn_length, rev_length. lia.
    - intros i Hi. rewrite <- (vget_hi lowPrefix dictm dictSize (dm s') i) by lia.
      apply (content_of_image_cut (vget lowPrefix dictm dictSize (dm s')) hist T r c Hout); lia.
  Qed.
End PTop.

(* ---- the partial entry points ---- *)
Definition C16_partial_sound_full_statement : Prop :=
  forall (fastloop : bool) (pl : placement) (B hist : list Z) (srcm dictm : mem) (t cap : Z) (m0 : mem),
    (forall a, 0 <= get srcm a < 256) -> bytes B -> src_at srcm 0 B -> hist_placed pl hist dictm m0 ->
    prefix_sound (decompress_usingDict fastloop true srcm (Z.of_nat (length B)) t cap pl dictm (Z.of_nat (length hist)) m0)
                 (lastn (Z.to_nat 65536) hist) B.

Theorem partial_sound : C16_partial_sound_full_statement.
Proof.
  intros fastloop pl B hist srcm dictm t cap m0 Hsrc Hb Hs Hh.
  unfold decompress_usingDict.
  pose proof (lastn_length (Z.to_nat 65536) hist) as Hl.
  destruct (Z.of_nat (length hist) =? 0) eqn:E0.
  - apply (dec_generic_partial_sound NoDict srcm empty 0 0 0 ltac:(lia) ltac:(lia) ltac:(reflexivity) ltac:(discriminate) Hsrc
             ltac:(left; lia) ltac:(discriminate) ltac:(reflexivity) fastloop); try assumption.
    + intros j Hj. rewrite rev_length in Hj. lia.
    + unfold hroom. cbn [is_extdict]. lia.
  - destruct pl.
    + unfold hist_placed in Hh. pose proof (out_at_lastn _ _ (Z.to_nat 65536) _ Hh) as Hh'.
      destruct (Z.of_nat (length hist) >=? 65536 - 1) eqn:E1.
      * apply (dec_generic_partial_sound WithPrefix64k srcm empty 0 (-65536) (- Z.of_nat (length hist)) ltac:(lia) ltac:(lia) ltac:(reflexivity) ltac:(intros; lia) Hsrc
                 ltac:(right; split; [reflexivity | lia]) ltac:(reflexivity) ltac:(reflexivity) fastloop); try assumption.
        -- apply view_prefix; [exact Hh' | rewrite rev_length; lia].
        -- right. lia.
      * apply (dec_generic_partial_sound NoDict srcm empty 0 (- Z.of_nat (length hist)) (- Z.of_nat (length hist)) ltac:(lia) ltac:(lia) ltac:(reflexivity) ltac:(discriminate) Hsrc
                 ltac:(left; lia) ltac:(discriminate) ltac:(reflexivity) fastloop); try assumption.
        -- apply view_prefix; [exact Hh' | rewrite rev_length; lia].
        -- unfold hroom. cbn [is_extdict]. left. lia.
    + unfold hist_placed in Hh.
      apply (dec_generic_partial_sound UsingExtDict srcm dictm (Z.of_nat (length hist)) 0 0 ltac:(lia) ltac:(lia) ltac:(discriminate) ltac:(discriminate) Hsrc
               ltac:(left; lia) ltac:(discriminate) ltac:(intros H; exfalso; apply H; reflexivity) fastloop); try assumption.
      * apply view_ext. exact Hh.
      * unfold hroom. cbn [is_extdict]. lia.
Qed.

Theorem partial_sound_nodict :
  forall (fastloop : bool) (B : list Z) (srcm : mem) (t cap : Z) (m0 : mem),
    (forall a, 0 <= get srcm a < 256) -> bytes B -> src_at srcm 0 B ->
    prefix_sound (decompress_safe_partial fastloop srcm (Z.of_nat (length B)) t cap m0) [] B.
Proof.
  intros fastloop B srcm t cap m0 Hsrc Hb Hs. unfold decompress_safe_partial.
  apply (dec_generic_partial_sound NoDict srcm empty 0 0 0 ltac:(lia) ltac:(lia) ltac:(reflexivity) ltac:(discriminate) Hsrc
           ltac:(left; lia) ltac:(discriminate) ltac:(reflexivity) fastloop); try assumption.
  - intros j Hj. cbn in Hj. lia.
  - unfold hroom. cbn. lia.
Qed.

(* on a complete valid block the specified output is the decoded content *)
Lemma sem_valid : forall f (bs : list Z) ss (last : list Z) (rout rout' : list Z),
  parse_seqs f bs = Some (ss, last) -> apply_seqs rout ss = Some rout' ->
  sem f rout bs = rev last ++ rout'.
Proof.
  induction f as [|f IH]; intros bs ss last rout rout' H Ha; [discriminate|].
  rewrite parse_seqs_S in H. rewrite sem_S.
  destruct bs as [|tok r]; [discriminate|].
  destruct (read_len (tok / 16) r) as [[ll r1]|] eqn:E1; [|discriminate].
  destruct (take (Z.to_nat ll) r1) as [[lits r2]|] eqn:E2; [|discriminate].
  destruct (take_spec _ _ _ _ E2) as [Er1 Hlen]. unfold byte in *.
  assert (Hf : firstn (Z.to_nat ll) r1 = lits /\ skipn (Z.to_nat ll) r1 = r2).
  { subst r1. rewrite <- Hlen. split; [rewrite firstn_app, firstn_all, Nat.sub_diag; cbn [firstn]; apply app_nil_r
                                     | rewrite skipn_app, skipn_all, Nat.sub_diag; reflexivity]. }
  destruct Hf as [Hf1 Hf2]. cbv zeta. rewrite Hf1, Hf2.
  destruct r2 as [|o1 [|o2 r3]]; [| discriminate |].
  - assert (ss = []) by congruence. assert (lits = last) by congruence. subst ss last.
    cbn [apply_seqs] in Ha. congruence.
  - destruct (read_len (tok mod 16) r3) as [[ml r4]|] eqn:E3; [|discriminate].
    destruct (parse_seqs f r4) as [[ss' last']|] eqn:E4; [|discriminate].
    assert (Hss : mkSeq lits (o1 + 256 * o2) (ml + 4) :: ss' = ss) by congruence.
    assert (Hl : last' = last) by congruence. subst ss last.
    cbn [apply_seqs] in Ha. unfold byte in *.
    destruct (apply_seq rout (mkSeq lits (o1 + 256 * o2) (ml + 4))) as [rout1|] eqn:Eapp; [|discriminate].
    apply (IH r4 ss' last' rout1 rout' E4 Ha).
Qed.

Theorem specified_output_valid (hist B D : list Z) :
  spec_decode hist B = Some D -> specified_output hist B = D.
Proof.
  unfold spec_decode, specified_output, parse_block, run_seqs. unfold byte in *. intros H.
  destruct (parse_seqs (S (length B)) B) as [[ss last]|] eqn:Ep; [|discriminate].
  destruct (apply_seqs (rev hist) ss) as [rout'|] eqn:Ea; [|discriminate].
  injection H as <-. rewrite (sem_valid _ _ _ _ _ _ Ep Ea). reflexivity.
Qed.
