(* Invariants of the streaming model (Model/FastStream.v):
   - [table_inv]: the hash table of a stream never holds an index at or above currentOffset,
     dictSize <= currentOffset, an attached dictionary context satisfies [dict_inv];
     established by LZ4_initStream / LZ4_loadDict, preserved by EVERY operation, failed
     compressions and the index renormalisation included;
   - under [table_inv] every call of the compression kernel made by the streaming API starts from a
     table that is [FastSound.tab_ok] for the directives the API chooses (stale entries are excluded
     by dictSmall / the 64 KB distance test / the dictCtx switch);
   - hence (FastSound) every successful block is a factorisation of the bytes the call designates. *)
From Coq Require Import ZArith List Lia Bool ZifyBool FMapPositive.
From LZ4V Require Import Gen.Consts Spec.BlockSpec Model.Mem Model.Fast Model.FastApi Model.FastStream
     Proofs.BlockSpecProofs Proofs.FactorSpec Proofs.FastBasics Proofs.FastSound Proofs.FastApiSound Proofs.FastStreamMem.
Import ListNotations.
Local Open Scope Z_scope.

Definition mem_ok (m : mem) : Prop := forall a, 0 <= get m a < 256.

(* what LZ4_loadDict guarantees about a dictionary stream (lz4.c:1598-1604, 1759-1764):
   every table entry is below currentOffset and either inside the dictionary window or at least
   LZ4_DISTANCE_MAX behind currentOffset *)
Definition dict_inv (d : dctx) : Prop :=
  0 <= d_dictSize d <= d_cur d /\ d_cur d <= 33554432 /\
  forall h, 0 <= get (d_tab d) h < d_cur d /\
            (d_cur d - d_dictSize d <= get (d_tab d) h \/ get (d_tab d) h + LZ4_DISTANCE_MAX <= d_cur d).

(* the table never holds an index at or above currentOffset (0 = empty slot) *)
Definition range_ok (c : sctx) : Prop :=
  0 <= s_cur c /\ 0 <= s_dictSize c /\
  (forall h, 0 <= get (s_tab c) h <= s_cur c) /\
  (s_cur c <> 0 -> forall h, get (s_tab c) h < s_cur c).

Definition table_inv (c : sctx) : Prop :=
  range_ok c /\
  match s_dctx c with
  | None => True
  | Some d => dict_inv d /\ s_dictSize c = 0 /\ 1 <= s_cur c
  end.

(* tableType tag: a never-used table (clearedTable) sits at offset 0 or at least 64 KB (LZ4_loadDict of a
   tiny dictionary and LZ4_attach_dictionary leave currentOffset = 64 KB with a cleared table) *)
Definition tt_inv (c : sctx) : Prop :=
  (s_tt c = 0 -> s_cur c = 0 \/ KB64 <= s_cur c) /\ (s_tt c = 0 \/ s_tt c = 2 \/ s_tt c = 3).

(* the index range in which the streaming entry points may be called (they renormalise at 2^31) *)
Definition stream_ready (c : sctx) : Prop := s_cur c <= 2147483648 /\ s_dictSize c <= s_cur c.

Lemma M32_val : M32 = 4294967296. Proof. reflexivity. Qed.
Lemma u32_small x : 0 <= x < M32 -> u32 x = x.
Proof. intros H. unfold u32. apply Z.mod_small. exact H. Qed.

Lemma get_map f tab h : f 0 = 0 -> get (PositiveMap.map f tab) h = f (get tab h).
Proof.
  intros H0. unfold get, PositiveMap.map. rewrite PositiveMap.gmapi.
  destruct (PositiveMap.find (enc h) tab); cbn [option_map]; [reflexivity | symmetry; exact H0].
Qed.

Lemma table_inv_init : table_inv s_init.
Proof.
  unfold table_inv, range_ok, s_init. cbn [s_tab s_cur s_tt s_dictSize s_dctx].
  split; [|exact I]. split; [lia|]. split; [lia|]. split; intros; rewrite get_empty; lia.
Qed.

(* ---------------------------------------------------------------- renormDictT *)
Lemma renorm_inv c n :
  table_inv c -> stream_ready c -> 0 <= n <= LZ4_MAX_INPUT_SIZE ->
  let c' := renormDictT c n in
  table_inv c' /\ s_cur c' + n <= 2147483648 /\ s_dictSize c' <= s_cur c' /\ s_dctx c' = s_dctx c /\
  s_dict c' + s_dictSize c' = s_dict c + s_dictSize c /\ s_dictSize c' <= s_dictSize c /\
  (s_dictSize c <= KB64 -> s_dictSize c' = s_dictSize c).
Proof.
  intros ((C1 & C2 & C3 & C4) & D2) (R & D1) Hn. unfold renormDictT in *.
  cbn [to_f f_cur f_dictSize f_tab] in *. unfold LZ4_MAX_INPUT_SIZE in Hn.
  assert (U : u32 (s_cur c + n) = s_cur c + n) by (apply u32_small; rewrite M32_val; lia).
  rewrite U. cbv zeta.
  destruct (s_cur c + n >? 2147483648) eqn:E.
  - assert (Ud : u32 (s_cur c - KB64) = s_cur c - KB64) by (apply u32_small; rewrite M32_val; unfold KB64; lia).
    rewrite Ud. set (delta := s_cur c - KB64).
    assert (G : forall h, get (PositiveMap.map (renorm_entry delta) (s_tab c)) h = renorm_entry delta (get (s_tab c) h)).
    { intros h. apply get_map. unfold renorm_entry, delta, KB64. destruct (0 <? s_cur c - 65536) eqn:E0; [reflexivity | lia]. }
    assert (Hc0 : s_cur c <> 0) by (unfold KB64 in *; lia).
    assert (B : forall h, 0 <= renorm_entry delta (get (s_tab c) h) < KB64).
    { intros h. specialize (C3 h). specialize (C4 Hc0 h). unfold renorm_entry, delta, KB64 in *.
      destruct (get (s_tab c) h <? s_cur c - 65536) eqn:E1; lia. }
    set (ds' := if s_dictSize c >? KB64 then KB64 else s_dictSize c).
    assert (Hds : 0 <= ds' <= KB64 /\ ds' <= s_dictSize c /\ (s_dictSize c <= KB64 -> ds' = s_dictSize c)).
    { unfold ds', KB64. destruct (s_dictSize c >? 65536) eqn:E2; lia. }
    cbn [s_cur s_dictSize s_dict s_dctx].
    split.
    { unfold table_inv, range_ok. cbn [to_f f_cur f_dictSize f_tab s_tab s_cur s_tt s_dictSize s_dctx].
      split.
      - split; [unfold KB64; lia|]. split; [lia|]. split.
        + intros h. rewrite G. specialize (B h). lia.
        + intros _ h. rewrite G. specialize (B h). lia.
      - destruct (s_dctx c) as [d|]; [|exact I]. destruct D2 as (D3 & D4 & D5).
        split; [exact D3|]. split; [lia | unfold KB64; lia]. }
    split; [unfold KB64; lia|]. split; [unfold KB64 in *; lia|]. split; [reflexivity|]. split; [lia|]. split; lia.
  - split; [unfold table_inv, range_ok; tauto|].
    repeat split; try reflexivity; lia.
Qed.

(* ---------------------------------------------------------------- one kernel call made by the streaming API *)
Definition cd_dict (c : sctx) (dd : cdict) : Z :=
  match dd, s_dctx c with CUsingDictCtx, Some d => d_dict d | _, _ => s_dict c end.
Definition cd_dictSize (c : sctx) (dd : cdict) : Z :=
  match dd, s_dctx c with CUsingDictCtx, Some d => d_dictSize d | _, _ => s_dictSize c end.
Definition cd_dtab (c : sctx) (dd : cdict) : mem :=
  match dd, s_dctx c with CUsingDictCtx, Some d => d_tab d | _, _ => empty end.
Definition cd_dcur (c : sctx) (dd : cdict) : Z :=
  match dd, s_dctx c with CUsingDictCtx, Some d => d_cur d | _, _ => s_cur c end.
(* the virtual index space of the call *)
Definition call_vrd (m : mem) (c : sctx) (dd : cdict) (source : Z) : Z -> Z :=
  vrd_of m dd source (s_cur c) (cd_dict c dd) (cd_dictSize c dd).

(* the table (and the attached dictionary's table) is harmless for the directives of the call:
   exactly the hypotheses of FastSound.compress_validated_factor *)
Definition call_ok (c : sctx) (dd : cdict) (small : bool) : Prop :=
  0 <= cd_dictSize c dd /\
  tab_ok ByU32 dd small (s_cur c) (cd_dictSize c dd) 0 (s_cur c + 1) (s_tab c) /\
  (dd = CUsingDictCtx ->
   forall h, get (cd_dtab c dd) h + (s_cur c - cd_dcur c dd) < s_cur c /\
             good3 ByU32 dd small (s_cur c) (cd_dictSize c dd) (get (cd_dtab c dd) h + (s_cur c - cd_dcur c dd))).

Definition gen_upd (c : sctx) (dd : cdict) (n : Z) (tab : mem) : sctx :=
  match dd with
  | CUsingDictCtx => mkS tab (s_cur c + n) 2 n (s_dict c) None
  | _ => mkS tab (s_cur c + n) 2 (s_dictSize c + n) (s_dict c) (s_dctx c)
  end.

(* a successful call emitted a factorisation of [cur, cur+n) over the virtual space of the call *)
Definition factored (vrd : Z -> Z) (lo cur n : Z) (out : list byte) : Prop :=
  exists ss last, out = encode_block ss last /\ end_ok ss last = true /\
    seqs_valid vrd lo cur ss /\ seqs_end cur ss <= cur + n /\ last = seg vrd (seqs_end cur ss) (cur + n).

Lemma s_generic_unfold m c source n cap od dd small accel :
  s_generic m c source n cap od dd small accel =
  if (n <? 0) || (n >? LZ4_MAX_INPUT_SIZE) then mkR 0 [] n c else
  if n =? 0 then
    if (match od with NotLimited => false | _ => true end) && (cap <=? 0) then mkR 0 [] n c
    else mkR 1 [0] 0 c
  else
    let upd := fun tab =>
      match dd with
      | CUsingDictCtx => mkS tab (u32 (s_cur c + n)) 2 n (s_dict c) None
      | _ => mkS tab (u32 (s_cur c + n)) 2 (u32 (s_dictSize c + n)) (s_dict c) (s_dctx c)
      end in
    match compress_validated (call_vrd m c dd source) ByU32 od dd small (s_cur c) (cd_dictSize c dd) (cd_dtab c dd)
                             (s_cur c - cd_dcur c dd) n cap accel (s_tab c) with
    | RFail tab => mkR 0 [] n (upd tab)
    | ROk ss last consumed tab hw =>
      let out := encode_block ss last in
      mkR (Z.of_nat (length out)) out consumed (upd tab)
    end.
Proof.
  unfold s_generic, call_vrd, cd_dict, cd_dictSize, cd_dtab, cd_dcur.
  destruct ((n <? 0) || (n >? LZ4_MAX_INPUT_SIZE)); [reflexivity|].
  destruct (n =? 0); [reflexivity|].
  destruct dd; try reflexivity. destruct (s_dctx c); reflexivity.
Qed.

Lemma vrd_of_byte m dd source st d ds : mem_ok m -> forall a, 0 <= vrd_of m dd source st d ds a < 256.
Proof.
  intros Hm a. unfold vrd_of. destruct (a <? st); [destruct dd|]; apply Hm.
Qed.

Lemma s_generic_ok m c source n cap od dd small accel :
  mem_ok m -> od <> FillOutput -> 1 <= accel ->
  0 <= s_cur c -> 0 <= s_dictSize c <= s_cur c -> s_cur c + n < M32 ->
  call_ok c dd small ->
  let r := s_generic m c source n cap od dd small accel in
  ((n <= 0 \/ n > LZ4_MAX_INPUT_SIZE) -> r_ctx r = c) /\
  (0 < n <= LZ4_MAX_INPUT_SIZE ->
   exists tab', (forall h, 0 <= get tab' h < s_cur c + n) /\ r_ctx r = gen_upd c dd n tab') /\
  (0 < r_ret r ->
   r_ret r = Z.of_nat (length (r_out r)) /\
   ((n = 0 /\ r_out r = [0]) \/
    (0 < n /\ r_consumed r = n /\
     factored (call_vrd m c dd source) (hist_lo dd (s_cur c) (cd_dictSize c dd)) (s_cur c) n (r_out r)))).
Proof.
  intros Hm Hod Hacc Hcur Hds H32 (K1 & K2 & K3). cbv zeta. rewrite s_generic_unfold.
  destruct ((n <? 0) || (n >? LZ4_MAX_INPUT_SIZE)) eqn:E0.
  { cbn [r_ctx r_ret]. split; [reflexivity|]. split; lia. }
  destruct (n =? 0) eqn:E1.
  { assert (n = 0) as -> by lia.
    destruct ((match od with NotLimited => false | _ => true end) && (cap <=? 0)); cbn [r_ctx r_ret r_out];
      (split; [reflexivity|]; split; [lia|]); [lia|].
    intros _. split; [reflexivity|]. left. split; reflexivity. }
  cbv zeta.
  assert (Hn : 0 < n <= LZ4_MAX_INPUT_SIZE) by lia.
  assert (U1 : u32 (s_cur c + n) = s_cur c + n) by (apply u32_small; lia).
  assert (U2 : u32 (s_dictSize c + n) = s_dictSize c + n) by (apply u32_small; lia).
  rewrite U1, U2.
  set (vrd := call_vrd m c dd source).
  assert (Hb : forall a, 0 <= vrd a < 256) by (intros a; apply vrd_of_byte; exact Hm).
  pose proof (compress_validated_factor vrd ByU32 od dd small (s_cur c) (cd_dictSize c dd) (cd_dtab c dd)
                (s_cur c - cd_dcur c dd) n cap accel Hb K1 Hod 0 Hcur K3 ltac:(discriminate) Hcur ltac:(discriminate) Hacc (s_tab c) ltac:(lia) K2) as F.
  assert (HB : endB (s_cur c) n = s_cur c + n) by (unfold endB; lia).
  fold (gen_upd c dd n).
  destruct (compress_validated vrd ByU32 od dd small (s_cur c) (cd_dictSize c dd) (cd_dtab c dd)
              (s_cur c - cd_dcur c dd) n cap accel (s_tab c)) as [tab|ss last consumed tab hw] eqn:E;
    cbn [RPost] in F; cbv zeta; cbn [r_ctx r_ret r_out r_consumed].
  - split; [intros; lia|]. split; [|lia]. intros _. exists tab. split; [|destruct dd; reflexivity].
    intros h. rewrite HB in F. destruct (F h) as [? _]. lia.
  - destruct F as (Ft & Fe & F1 & F2 & F3 & F4).
    split; [intros; lia|]. split.
    + intros _. exists tab. split; [|destruct dd; reflexivity].
      intros h. rewrite HB in Ft. destruct (Ft h) as [? _]. lia.
    + intros _. split; [reflexivity|]. right. split; [lia|]. split; [exact F1|].
      exists ss, last. repeat split; assumption.
Qed.

(* ---------------------------------------------------------------- the three ways the API calls the kernel *)
(* own dictionary (prefix or external), dictSmall decided by the API *)
Lemma call_ok_own c dd :
  dd = CWithPrefix64k \/ dd = CUsingExtDict ->
  range_ok c -> s_dictSize c <= s_cur c ->
  call_ok c dd (small_dict c).
Proof.
  intros Hdd (C1 & C2 & C3 & C4) D1. cbn [to_f f_cur f_dictSize f_tab] in *.
  assert (Ed : cd_dictSize c dd = s_dictSize c) by (unfold cd_dictSize; destruct Hdd as [-> | ->]; reflexivity).
  unfold call_ok. rewrite Ed. split; [exact C2|]. split; [|destruct Hdd as [-> | ->]; discriminate].
  intros h. specialize (C3 h). split; [lia|]. left.
  unfold good3, dist_active, small_dict, KB64, LZ4_DISTANCE_MAX.
  assert (Hh : hist_lo dd (s_cur c) (s_dictSize c) = s_cur c - s_dictSize c) by (destruct Hdd as [-> | ->]; reflexivity).
  rewrite Hh.
  destruct (Z_le_gt_dec (s_cur c - s_dictSize c) (get (s_tab c) h)) as [Hin|Hout]; [left; exact Hin|].
  right. destruct ((s_dictSize c <? 65536) && (s_dictSize c <? s_cur c)) eqn:Es.
  - left. split; [reflexivity | lia].
  - right. split; [reflexivity|]. lia.
Qed.

(* attached dictionary context, input <= 4 KB: usingDictCtx, noDictIssue *)
Lemma call_ok_dictctx c d :
  table_inv c -> s_dctx c = Some d -> call_ok c CUsingDictCtx false.
Proof.
  intros (C & D2) E. rewrite E in D2. destruct D2 as ((I1 & I2 & I3) & Z0 & G).
  unfold call_ok, cd_dictSize, cd_dtab, cd_dcur. rewrite E.
  split; [lia|]. destruct C as (C1 & C2 & C3 & C4). cbn [to_f f_cur f_dictSize f_tab] in *.
  split.
  - intros h. specialize (C3 h). specialize (C4 ltac:(lia) h). split; [lia|].
    right. split; [reflexivity | lia].
  - intros _ h. destruct (I3 h) as [B [Hin|Hfar]]; (split; [lia|]); unfold good3, hist_lo.
    + left. lia.
    + right. right. split; [reflexivity | lia].
Qed.

(* attached dictionary context, input > 4 KB: the dictionary stream is copied, usingExtDict, noDictIssue *)
Lemma call_ok_memcpy d :
  dict_inv d -> call_ok (mkS (d_tab d) (d_cur d) (d_tt d) (d_dictSize d) (d_dict d) None) CUsingExtDict false.
Proof.
  intros (I1 & I2 & I3). unfold call_ok, cd_dictSize, cd_dtab, cd_dcur. cbn [s_dctx s_dictSize s_cur s_tab].
  split; [lia|]. split; [|discriminate].
  intros h. destruct (I3 h) as [B [Hin|Hfar]]; (split; [lia|]); left; unfold good3, hist_lo.
  - left. lia.
  - right. right. split; [reflexivity | lia].
Qed.

Lemma table_inv_with_dict c d ds :
  table_inv c -> 0 <= ds -> (s_dctx c <> None -> ds = 0) -> table_inv (with_dict c d ds).
Proof.
  intros ((C1 & C2 & C3 & C4) & D2) H H0. unfold table_inv, with_dict, range_ok.
  cbn [to_f f_cur f_dictSize f_tab s_tab s_cur s_tt s_dictSize s_dctx] in *.
  split; [split; [exact C1 | split; [lia | split; [exact C3 | exact C4]]]|].
  destruct (s_dctx c) as [x|]; [|exact I]. destruct D2 as (D3 & D4 & D5).
  split; [exact D3|]. split; [apply H0; discriminate | exact D5].
Qed.

(* ---------------------------------------------------------------- LZ4_compress_fast_continue *)
(* everything before the mode selection: renormalisation, tiny-dictionary invalidation, overlap trimming *)
Definition prelude (c : sctx) (source inputSize : Z) : sctx * Z :=
  let dictEnd0 := if s_dictSize c =? 0 then 0 else s_dict c + s_dictSize c in
  let c := renormDictT c inputSize in
  let cd :=
    if (s_dictSize c <? 4) && negb (dictEnd0 =? source) && (inputSize >? 0)
       && (match s_dctx c with None => true | Some _ => false end)
    then (with_dict c source 0, source) else (c, dictEnd0) in
  let c := fst cd in let dictEnd := snd cd in
  let sourceEnd := source + inputSize in
  let c :=
    if (sourceEnd >? s_dict c) && (sourceEnd <? dictEnd) then
      let ds := dictEnd - sourceEnd in
      let ds := if ds >? KB64 then KB64 else ds in
      let ds := if ds <? 4 then 0 else ds in
      with_dict c (dictEnd - ds) ds
    else c in
  (c, dictEnd).

Definition continue_body (m : mem) (c : sctx) (dictEnd source inputSize maxOutputSize acceleration : Z) : sres :=
  if dictEnd =? source then
    s_generic m c source inputSize maxOutputSize LimitedOutput CWithPrefix64k (small_dict c) acceleration
  else
    let r :=
      match s_dctx c with
      | Some d =>
        if inputSize >? 4096 then
          s_generic m (mkS (d_tab d) (d_cur d) (d_tt d) (d_dictSize d) (d_dict d) None) source inputSize maxOutputSize
                    LimitedOutput CUsingExtDict false acceleration
        else s_generic m c source inputSize maxOutputSize LimitedOutput CUsingDictCtx false acceleration
      | None => s_generic m c source inputSize maxOutputSize LimitedOutput CUsingExtDict (small_dict c) acceleration
      end in
    mkR (r_ret r) (r_out r) (r_consumed r) (with_dict (r_ctx r) source (u32 inputSize)).

Lemma fast_continue_eq m c source n cap acc :
  fast_continue m c source n cap acc =
  continue_body m (fst (prelude c source n)) (snd (prelude c source n)) source n cap (clamp_accel acc).
Proof.
  unfold fast_continue, prelude, continue_body. cbv zeta.
  destruct ((s_dictSize (renormDictT c n) <? 4)
            && negb ((if s_dictSize c =? 0 then 0 else s_dict c + s_dictSize c) =? source) && (n >? 0)
            && match s_dctx (renormDictT c n) with None => true | Some _ => false end); reflexivity.
Qed.

(* the dictionary the stream designates after the prelude: [dictEnd - dictSize, dictEnd) *)
Lemma prelude_inv c source n :
  table_inv c -> stream_ready c -> 0 <= n <= LZ4_MAX_INPUT_SIZE -> 0 <= source ->
  let c1 := fst (prelude c source n) in let dictEnd := snd (prelude c source n) in
  table_inv c1 /\ s_cur c1 + n <= 2147483648 /\ s_dictSize c1 <= s_cur c1 /\ s_dctx c1 = s_dctx c /\
  (s_dictSize c1 <> 0 -> s_dict c1 + s_dictSize c1 = dictEnd) /\
  (s_dctx c1 <> None -> dictEnd = 0) /\
  (0 < source -> dictEnd = source -> s_dict c1 + s_dictSize c1 = source) /\
  (* the designated region only shrinks, to a suffix, and the new block never ends strictly inside it *)
  s_dictSize c1 <= s_dictSize c /\
  (s_dictSize c1 <> 0 -> dictEnd = s_dict c + s_dictSize c /\ (source + n <= s_dict c1 \/ dictEnd <= source + n)).
Proof.
  intros T R Hn Hs. pose proof (renorm_inv c n T R Hn) as P. cbv zeta in P.
  destruct P as (T1 & R1 & Q1 & X1 & S1 & L1 & _).
  unfold prelude. cbv zeta.
  set (c0 := renormDictT c n) in *.
  set (dictEnd0 := if s_dictSize c =? 0 then 0 else s_dict c + s_dictSize c).
  assert (P0 : 0 <= s_dictSize c0 <= s_cur c0 /\ 0 <= s_cur c0).
  { destruct T1 as ((? & ? & _) & _). cbn [to_f f_cur f_dictSize] in *. lia. }
  assert (A0 : s_dictSize c0 <> 0 -> s_dict c0 + s_dictSize c0 = dictEnd0).
  { intros Hz. unfold dictEnd0. destruct (s_dictSize c =? 0) eqn:E; [lia | lia]. }
  assert (Z0 : s_dctx c0 <> None -> s_dictSize c0 = 0 /\ dictEnd0 = 0).
  { intros Hd. rewrite X1 in Hd. destruct T as (_ & D). destruct (s_dctx c); [|congruence]. destruct D as (_ & D & _).
    split; [lia|]. unfold dictEnd0. destruct (s_dictSize c =? 0) eqn:E; [reflexivity | lia]. }
  (* tiny-dictionary invalidation *)
  set (cd := if (s_dictSize c0 <? 4) && negb (dictEnd0 =? source) && (n >? 0)
                && match s_dctx c0 with None => true | Some _ => false end
             then (with_dict c0 source 0, source) else (c0, dictEnd0)).
  assert (B : table_inv (fst cd) /\ s_cur (fst cd) = s_cur c0 /\ s_dictSize (fst cd) <= s_cur c0 /\ s_dctx (fst cd) = s_dctx c0 /\
              (s_dictSize (fst cd) <> 0 -> s_dict (fst cd) + s_dictSize (fst cd) = snd cd) /\
              (s_dctx c0 <> None -> s_dictSize (fst cd) = 0 /\ snd cd = 0) /\
              (s_dictSize (fst cd) = 0 -> snd cd <= s_dict (fst cd) \/ snd cd = 0) /\
              (0 < source -> snd cd = source -> s_dict (fst cd) + s_dictSize (fst cd) = source) /\
              s_dictSize (fst cd) <= s_dictSize c /\
              (s_dictSize (fst cd) <> 0 -> snd cd = s_dict c + s_dictSize c)).
  { unfold cd.
    destruct ((s_dictSize c0 <? 4) && negb (dictEnd0 =? source) && (n >? 0)
              && match s_dctx c0 with None => true | Some _ => false end) eqn:E; cbn [fst snd].
    - split; [apply table_inv_with_dict; [exact T1 | lia | reflexivity]|].
      unfold with_dict. cbn [s_cur s_dctx s_dictSize s_dict].
      split; [reflexivity|]. split; [lia|]. split; [reflexivity|]. split; [lia|]. split.
      + intros Hd. destruct (s_dctx c0); [|congruence]. rewrite andb_false_r in E. discriminate.
      + split; [intros _; left; lia|]. split; [intros _ _; lia|]. split; [destruct T as ((_ & ? & _) & _); lia | intros; lia].
    - split; [exact T1|]. split; [reflexivity|]. split; [lia|]. split; [reflexivity|]. split; [exact A0|]. split; [exact Z0|].
      split.
      { intros Hz. right. unfold dictEnd0. destruct (s_dictSize c =? 0) eqn:E2; [reflexivity|].
        exfalso. unfold c0, renormDictT in Hz. unfold KB64 in *.
        destruct (u32 (s_cur c + n) >? 2147483648); cbn [s_dictSize] in Hz; [|lia].
        destruct T as ((_ & ? & _) & _). cbn [to_f f_dictSize] in *. destruct (s_dictSize c >? 65536) eqn:E3; lia. }
      split; [intros Hsp He; unfold dictEnd0 in He; destruct (s_dictSize c =? 0) eqn:E2; lia|].
      split; [lia|]. intros Hnz. unfold dictEnd0. destruct (s_dictSize c =? 0) eqn:E2; [lia | reflexivity]. }
  destruct B as (B1 & B2 & B2' & B3 & B4 & B5 & B6 & B7 & B8 & B9).
  set (c1 := fst cd) in *. set (dictEnd := snd cd) in *.
  assert (P1 : 0 <= s_dictSize c1 <= s_cur c1).
  { destruct B1 as ((? & ? & _) & _). cbn [to_f f_cur f_dictSize] in *. lia. }
  destruct ((source + n >? s_dict c1) && (source + n <? dictEnd)) eqn:Eo; cbn [fst snd].
  - (* trimming *)
    set (ds0 := dictEnd - (source + n)).
    set (ds1 := if ds0 >? KB64 then KB64 else ds0).
    set (ds2 := if ds1 <? 4 then 0 else ds1).
    assert (Hnz : s_dictSize c1 <> 0).
    { intros Hz. destruct (B6 Hz); lia. }
    assert (Hd2 : 0 <= ds2 <= s_dictSize c1 /\ ds2 <= dictEnd - (source + n)).
    { specialize (B4 Hnz). unfold ds2, ds1, ds0, KB64.
      destruct (dictEnd - (source + n) >? 65536) eqn:E1;
        [destruct (65536 <? 4) eqn:E2 | destruct (dictEnd - (source + n) <? 4) eqn:E2]; lia. }
    split.
    + apply table_inv_with_dict; [exact B1 | lia|].
      intros Hd. rewrite B3 in Hd. destruct (B5 Hd) as [? ?]. lia.
    + unfold with_dict. cbn [s_cur s_dctx s_dictSize s_dict]. rewrite B2, B3. split; [lia|]. split; [lia|]. split; [exact X1|].
      split; [lia|]. split; [intros Hd; apply (B5 Hd)|]. split; [intros; lia|]. split; [lia|].
      intros Hn2. split; [apply B9; exact Hnz | left; lia].
  - split; [exact B1|]. rewrite B2, B3. split; [lia|]. split; [lia|]. split; [exact X1|]. split; [exact B4|].
    split; [intros Hd; apply (B5 Hd)|]. split; [exact B7|]. split; [exact B8|].
    intros Hn2. split; [apply B9; exact Hn2|]. specialize (B4 Hn2). lia.
Qed.

Lemma renorm_tt c n : tt_inv c -> tt_inv (renormDictT c n).
Proof.
  intros (V1 & V2). unfold renormDictT. destruct (u32 (s_cur c + n) >? 2147483648); [|split; assumption].
  unfold tt_inv. cbn [s_tt s_cur]. split; [intros _; right; lia | exact V2].
Qed.

Lemma with_dict_tt c d ds : tt_inv c -> tt_inv (with_dict c d ds).
Proof. intros V. exact V. Qed.

Lemma prelude_tt c source n : tt_inv c -> tt_inv (fst (prelude c source n)).
Proof.
  intros V. pose proof (renorm_tt c n V) as V0. unfold prelude. cbv zeta.
  set (c0 := renormDictT c n) in *.
  destruct ((s_dictSize c0 <? 4) && negb ((if s_dictSize c =? 0 then 0 else s_dict c + s_dictSize c) =? source) && (n >? 0)
            && match s_dctx c0 with None => true | Some _ => false end); cbn [fst snd];
    match goal with |- context [if ?b then _ else _] => destruct b end; exact V0.
Qed.

(* which context / directive / dictIssue the mode selection hands to LZ4_compress_generic *)
Definition continue_call (c : sctx) (dictEnd source n : Z) : sctx * cdict * bool :=
  if dictEnd =? source then (c, CWithPrefix64k, small_dict c) else
  match s_dctx c with
  | Some d => if n >? 4096 then (mkS (d_tab d) (d_cur d) (d_tt d) (d_dictSize d) (d_dict d) None, CUsingExtDict, false)
              else (c, CUsingDictCtx, false)
  | None => (c, CUsingExtDict, small_dict c)
  end.

Lemma continue_body_eq m c dictEnd source n cap acc :
  continue_body m c dictEnd source n cap acc =
  let '(cc, dd, small) := continue_call c dictEnd source n in
  let r := s_generic m cc source n cap LimitedOutput dd small acc in
  if dictEnd =? source then r else mkR (r_ret r) (r_out r) (r_consumed r) (with_dict (r_ctx r) source (u32 n)).
Proof.
  unfold continue_body, continue_call. destruct (dictEnd =? source); [reflexivity|].
  destruct (s_dctx c) as [d|]; [destruct (n >? 4096)|]; reflexivity.
Qed.

Lemma gen_upd_inv cc dd n tab :
  (forall h, 0 <= get tab h < s_cur cc + n) -> 0 < n -> 0 <= s_cur cc -> 0 <= s_dictSize cc <= s_cur cc ->
  (dd = CUsingDictCtx \/ s_dctx cc = None) ->
  table_inv (gen_upd cc dd n tab).
Proof.
  intros Ht Hn Hc Hd Hx. unfold table_inv, gen_upd, range_ok.
  destruct Hx as [-> | Hx].
  - cbn [to_f f_cur f_dictSize f_tab s_tab s_cur s_tt s_dictSize s_dctx].
    split; [split; [lia | split; [lia | split; intros; specialize (Ht h); lia]]|]. exact I.
  - destruct dd; cbn [to_f f_cur f_dictSize f_tab s_tab s_cur s_tt s_dictSize s_dctx]; try rewrite Hx;
      (split; [split; [lia | split; [lia | split; intros; specialize (Ht h); lia]]|]; exact I).
Qed.

Lemma continue_call_ok c dictEnd source n :
  table_inv c -> s_dictSize c <= s_cur c -> (s_dctx c <> None -> dictEnd = 0) -> 0 < source -> 0 <= n <= LZ4_MAX_INPUT_SIZE -> s_cur c + n <= 2147483648 ->
  let '(cc, dd, small) := continue_call c dictEnd source n in
  call_ok cc dd small /\ 0 <= s_cur cc /\ 0 <= s_dictSize cc <= s_cur cc /\ s_cur cc + n <= 2147483648 /\
  table_inv cc /\ (dd = CUsingDictCtx \/ s_dctx cc = None \/ n = 0 /\ cc = c) /\ dd <> CNoDict /\ (n <= 4096 -> cc = c) /\
  ((dictEnd =? source) = true -> cc = c /\ dd = CWithPrefix64k).
Proof.
  intros T D1 Hz Hs Hn R. pose proof T as ((C1 & C2 & C3 & C4) & D2). unfold LZ4_MAX_INPUT_SIZE in Hn.
  cbn [to_f f_cur f_dictSize f_tab] in *. unfold continue_call.
  destruct (dictEnd =? source) eqn:E.
  - split; [apply call_ok_own; [left; reflexivity | destruct T as (T & _); exact T | exact D1]|].
    split; [lia|]. split; [lia|]. split; [lia|]. split; [exact T|]. split; [|split; [discriminate | split; [reflexivity | intros _; split; reflexivity]]].
    right. left. destruct (s_dctx c); [|reflexivity]. exfalso. specialize (Hz ltac:(discriminate)). lia.
  - destruct (s_dctx c) as [d|] eqn:Ed.
    + destruct D2 as ((I1 & I2 & I3) & D3 & D4).
      destruct (n >? 4096) eqn:E4.
      * split; [apply call_ok_memcpy; exact (conj I1 (conj I2 I3))|]. cbn [s_cur s_dictSize s_dctx].
        split; [lia|]. split; [lia|]. split; [lia|]. split.
        { unfold table_inv, range_ok. cbn [to_f f_cur f_dictSize f_tab s_tab s_cur s_tt s_dictSize s_dctx].
          split; [split; [lia | split; [lia | split; intros; specialize (I3 h); lia]]|]. exact I. }
        split; [right; left; reflexivity|]. split; [discriminate|]. split; [intros; lia | discriminate].
      * split; [eapply call_ok_dictctx; [exact T | exact Ed]|].
        split; [lia|]. split; [lia|]. split; [lia|]. split; [exact T|]. split; [left; reflexivity|]. split; [discriminate|]. split; [reflexivity | discriminate].
    + split; [apply call_ok_own; [right; reflexivity | destruct T as (T & _); exact T | exact D1]|].
      split; [lia|]. split; [lia|]. split; [lia|]. split; [exact T|]. split; [right; left; exact Ed|]. split; [discriminate|]. split; [reflexivity | discriminate].
Qed.

(* ---------------------------------------------------------------- main result for one LZ4_compress_fast_continue *)
Theorem fast_continue_sound m c source n cap acc :
  mem_ok m -> table_inv c -> tt_inv c -> stream_ready c -> 0 <= n <= LZ4_MAX_INPUT_SIZE -> 0 < source ->
  let r := fast_continue m c source n cap acc in
  let c1 := fst (prelude c source n) in let dictEnd := snd (prelude c source n) in
  let '(cc, dd, small) := continue_call c1 dictEnd source n in
  (* the context after the call, successful or not *)
  table_inv (r_ctx r) /\ tt_inv (r_ctx r) /\ stream_ready (r_ctx r) /\
  (* which bytes the stream designates as history afterwards *)
  (if dictEnd =? source
   then (n = 0 -> r_ctx r = c1) /\
        (0 < n -> s_dict (r_ctx r) = s_dict c1 /\ s_dictSize (r_ctx r) = s_dictSize c1 + n /\ s_dctx (r_ctx r) = None)
   else s_dict (r_ctx r) = source /\ s_dictSize (r_ctx r) = n /\
        (0 < n -> s_dctx (r_ctx r) = None) /\ (n = 0 -> s_dctx (r_ctx r) = s_dctx c1)) /\
  (* a positive result is a factorisation over the virtual index space of the call *)
  (0 < r_ret r ->
   r_ret r = Z.of_nat (length (r_out r)) /\
   ((n = 0 /\ r_out r = [0]) \/
    (0 < n /\ r_consumed r = n /\
     factored (call_vrd m cc dd source) (s_cur cc - cd_dictSize cc dd) (s_cur cc) n (r_out r)))).
Proof.
  intros Hm T V R Hn Hs. cbv zeta.
  pose proof (prelude_tt c source n V) as V1.
  pose proof (prelude_inv c source n T R Hn ltac:(lia)) as P. cbv zeta in P.
  destruct P as (T1 & R1 & Q1 & X1 & S1 & Z1 & _ & _ & _).
  rewrite fast_continue_eq, continue_body_eq.
  set (c1 := fst (prelude c source n)) in *. set (dictEnd := snd (prelude c source n)) in *.
  pose proof (continue_call_ok c1 dictEnd source n T1 Q1 Z1 Hs Hn R1) as K.
  destruct (continue_call c1 dictEnd source n) as [[cc dd] small].
  destruct K as (K1 & K2 & K3 & K4 & K5 & K6 & K7 & K8 & K9).
  pose proof (clamp_accel_ge acc) as Hacc.
  pose proof (s_generic_ok m cc source n cap LimitedOutput dd small (clamp_accel acc) Hm ltac:(discriminate) Hacc K2 K3
                ltac:(rewrite M32_val; unfold LZ4_MAX_INPUT_SIZE in *; lia) K1) as G.
  cbv zeta in G. destruct G as (G1 & G2 & G3).
  set (r := s_generic m cc source n cap LimitedOutput dd small (clamp_accel acc)) in *.
  assert (Hh : hist_lo dd (s_cur cc) (cd_dictSize cc dd) = s_cur cc - cd_dictSize cc dd).
  { unfold hist_lo. destruct dd; try reflexivity. congruence. }
  rewrite Hh in G3.
  assert (U : u32 n = n) by (apply u32_small; rewrite M32_val; unfold LZ4_MAX_INPUT_SIZE in *; lia).
  (* invariant of the context the kernel call returns *)
  assert (TI : table_inv (r_ctx r) /\ s_cur (r_ctx r) <= 2147483648 /\ 0 <= n <= s_cur (r_ctx r) /\
               s_dictSize (r_ctx r) <= s_cur (r_ctx r) /\
               (s_dctx (r_ctx r) <> None -> n = 0) /\ tt_inv (r_ctx r)).
  { destruct (Z.eq_dec n 0) as [Hz|Hnz].
    - rewrite G1 by lia. split; [exact K5|]. split; [lia|]. split; [lia|]. split; [lia|]. split; [intros _; exact Hz|].
      rewrite (K8 ltac:(lia)). exact V1.
    - destruct (G2 ltac:(lia)) as (tab' & Ht & Er). rewrite Er.
      assert (Hx : dd = CUsingDictCtx \/ s_dctx cc = None) by (destruct K6 as [?|[?|[? _]]]; [left|right|lia]; assumption).
      split; [apply gen_upd_inv; try assumption; lia|].
      unfold gen_upd, tt_inv. destruct Hx as [-> | Hx].
      + cbn [s_cur s_dctx s_dictSize s_tt]. split; [lia|]. split; [lia|]. split; [lia|]. split; [congruence|].
        split; [intros; lia | right; left; reflexivity].
      + destruct dd; cbn [s_cur s_dctx s_dictSize s_tt];
          (split; [lia|]; split; [lia|]; split; [lia|]; split; [congruence|]; split; [intros; lia | right; left; reflexivity]). }
  destruct TI as (TI1 & TI2 & TI3 & TI5 & TI4 & TI6).
  assert (Hx0 : 0 < n -> dd = CUsingDictCtx \/ s_dctx cc = None) by (intros; destruct K6 as [?|[?|[? _]]]; [left|right|lia]; assumption).
  destruct (dictEnd =? source) eqn:Ep; cbv iota zeta.
  - split; [exact TI1|]. split; [exact TI6|]. split; [split; [exact TI2 | exact TI5]|]. split; [|exact G3].
    destruct (K9 eq_refl) as (-> & ->). split.
    + intros Hz. apply G1. lia.
    + intros Hp. destruct (G2 ltac:(lia)) as (tab' & _ & Er). rewrite Er. unfold gen_upd. cbn [s_dict s_dictSize s_dctx].
      split; [reflexivity|]. split; [reflexivity|]. destruct (Hx0 Hp); [discriminate | assumption].
  - cbn [r_ctx r_ret r_out r_consumed]. rewrite U.
    split; [apply table_inv_with_dict; [exact TI1 | lia | exact TI4]|].
    split; [apply with_dict_tt; exact TI6|].
    split; [unfold stream_ready, with_dict; cbn [s_cur s_dictSize]; split; [exact TI2 | lia]|]. split; [|exact G3].
    unfold with_dict. cbn [s_dict s_dictSize s_dctx]. split; [reflexivity|]. split; [reflexivity|]. split.
    + intros Hp. destruct (G2 ltac:(lia)) as (tab' & _ & Er). rewrite Er. unfold gen_upd.
      destruct (Hx0 Hp) as [-> | Hx1]; [reflexivity|]. destruct dd; cbn [s_dctx]; try exact Hx1; reflexivity.
    + intros Hz. rewrite G1 by lia. rewrite (K8 ltac:(lia)). reflexivity.
Qed.

(* ================================================================ the other operations *)
Lemma to_f_of_f f : to_f (of_f f) = f.
Proof. destruct f; reflexivity. Qed.

(* ---------------------------------------------------------------- LZ4_prepareTable on any stream state *)
Lemma tt_inv_init : tt_inv s_init.
Proof. unfold tt_inv, s_init. cbn [s_tt s_cur]. split; [intros _|]; left; reflexivity. Qed.

Lemma prepareTable_any c n t :
  range_ok c -> tt_inv c ->
  let c1 := s_prepareTable c n t in
  let small := match t with ByU16 => negb (s_cur c1 =? 0) | ByU32 => false end in
  range_ok c1 /\ tt_inv c1 /\ s_dictSize c1 = 0 /\ s_dict c1 = 0 /\ s_dctx c1 = None /\
  tab_ok t CNoDict small (s_cur c1) 0 0 (s_cur c1 + 1) (s_tab c1) /\
  (t = ByU16 -> 0 <= n < LZ4_64Klimit ->
   s_cur c1 + n - MFLIMIT + 1 <= 65536 \/ (small = true /\ 65536 <= s_cur c1 - 0)) /\
  (t = ByU32 -> (s_tt c <> 0 \/ s_cur c <= 2147418112) -> s_cur c1 <= 2147483648).
Proof.
  intros (C1 & C2 & C3 & C4) (V1 & V2). cbv zeta.
  unfold s_prepareTable, of_f, prepareTable, to_f. cbn [f_tt f_cur f_tab f_dictSize]. cbv zeta.
  set (reset := negb (s_tt c =? tt_code t)
                || match t with ByU16 => s_cur c + n >=? 65535 | ByU32 => false end
                || match t with ByU32 => s_cur c >? 1073741824 | ByU16 => false end
                || (n >=? 4096)).
  unfold tab_ok, good, good3, hist_lo, dist_active, range_ok, tt_inv, KB64, LZ4_DISTANCE_MAX, LZ4_DISTANCE_ABSOLUTE_MAX,
    LZ4_64Klimit, MFLIMIT in *.
  destruct (negb (s_tt c =? 0) && reset) eqn:Er.
  - (* table cleared *)
    replace (if negb (s_tt c =? 0) then if reset then mkF empty 0 0 (s_dictSize c) else mkF (s_tab c) (s_cur c) (s_tt c) (s_dictSize c)
             else mkF (s_tab c) (s_cur c) (s_tt c) (s_dictSize c)) with (mkF empty 0 0 (s_dictSize c))
      by (destruct (negb (s_tt c =? 0)); [destruct reset; [reflexivity | discriminate] | discriminate]).
    cbn [f_cur f_tab f_tt f_dictSize s_tab s_cur s_tt s_dictSize s_dict s_dctx Z.eqb negb andb].
    split; [split; [lia | split; [lia | split; intros; rewrite get_empty; lia]]|].
    split; [split; [intros _|]; left; reflexivity|].
    split; [reflexivity|]. split; [reflexivity|]. split; [reflexivity|].
    split; [intros h; rewrite get_empty; split; [lia|]; left; left; destruct t; lia|].
    split; [intros _ Hn; left; lia | intros; lia].
  - (* table kept *)
    replace (if negb (s_tt c =? 0) then if reset then mkF empty 0 0 (s_dictSize c) else mkF (s_tab c) (s_cur c) (s_tt c) (s_dictSize c)
             else mkF (s_tab c) (s_cur c) (s_tt c) (s_dictSize c)) with (mkF (s_tab c) (s_cur c) (s_tt c) (s_dictSize c))
      by (destruct (negb (s_tt c =? 0)); [destruct reset; [discriminate | reflexivity] | reflexivity]).
    cbn [f_cur f_tab f_tt f_dictSize s_tab s_cur s_tt s_dictSize s_dict s_dctx].
    destruct t.
    + (* ByU32: 64 KB gap unless the offset is 0 *)
      destruct (s_cur c =? 0) eqn:E0; cbn [negb andb].
      * split; [split; [lia | split; [lia | split; [exact C3 | exact C4]]]|].
        split; [split; [exact V1 | exact V2]|].
        split; [reflexivity|]. split; [reflexivity|]. split; [reflexivity|].
        split; [intros h; specialize (C3 h); split; [lia|]; left; left; lia|].
        split; [discriminate | intros; lia].
      * split; [split; [lia | split; [lia | split; intros; specialize (C3 h); specialize (C4 ltac:(lia) h); lia]]|].
        split; [split; [intros Hz; specialize (V1 Hz); lia | exact V2]|].
        split; [reflexivity|]. split; [reflexivity|]. split; [reflexivity|].
        split; [intros h; specialize (C3 h); specialize (C4 ltac:(lia) h); split; [lia|]; left; right; right; split; [reflexivity | lia]|].
        split; [discriminate|]. intros _ [H|H]; [|lia].
        unfold reset, tt_code in Er. destruct (s_tt c =? 0) eqn:Ez; [lia|]. cbn [negb andb] in Er. lia.
    + (* ByU16: no gap, dictSmall when the offset is not 0 *)
      rewrite andb_false_r.
      split; [split; [lia | split; [lia | split; [exact C3 | exact C4]]]|].
      split; [split; [exact V1 | exact V2]|].
      split; [reflexivity|]. split; [reflexivity|]. split; [reflexivity|].
      split.
      * intros h. specialize (C3 h). split; [lia|]. left.
        destruct (s_cur c =? 0) eqn:E0; cbn [negb]; [left; lia|]. right. left. split; [reflexivity|].
        specialize (C4 ltac:(lia) h). lia.
      * split; [|discriminate]. intros _ Hn.
        destruct (s_cur c =? 0) eqn:E0; cbn [negb]; [left; lia|].
        destruct (s_tt c =? 0) eqn:Ez.
        -- right. split; [reflexivity|]. destruct (V1 ltac:(lia)); lia.
        -- left. unfold reset, tt_code in Er. cbn [negb andb] in Er. lia.
Qed.

(* ---------------------------------------------------------------- LZ4_resetStream_fast *)
Lemma resetStream_fast_inv c :
  table_inv c -> tt_inv c ->
  let c' := resetStream_fast c in
  table_inv c' /\ tt_inv c' /\ s_dictSize c' = 0 /\ s_dict c' = 0 /\ s_dctx c' = None /\
  ((s_tt c <> 0 \/ s_cur c <= 2147418112) -> stream_ready c').
Proof.
  intros (C & _) V. cbv zeta. unfold resetStream_fast.
  pose proof (prepareTable_any c 0 ByU32 C V) as P. cbv zeta in P.
  destruct P as (P1 & P2 & P3 & P4 & P5 & _ & _ & P8).
  split; [split; [exact P1 | rewrite P5; exact I]|].
  split; [exact P2|]. split; [exact P3|]. split; [exact P4|]. split; [exact P5|].
  intros H. split; [apply (P8 eq_refl H)|]. destruct P1 as (? & _). lia.
Qed.

(* ---------------------------------------------------------------- LZ4_loadDict / LZ4_loadDictSlow *)
Lemma ld_pass1_range rd lo : forall k tab p idx,
  lo <= idx ->
  (forall h, get tab h = 0 \/ lo <= get tab h < idx) ->
  forall h, get (ld_pass1 rd k tab p idx) h = 0 \/ lo <= get (ld_pass1 rd k tab p idx) h < idx + 3 * Z.of_nat k.
Proof.
  induction k as [|k IH]; intros tab p idx Hlo Ht h; cbn [ld_pass1].
  - specialize (Ht h). lia.
  - replace (idx + 3 * Z.of_nat (S k)) with (idx + 3 + 3 * Z.of_nat k) by lia.
    apply IH; [lia|]. intros h'. rewrite get_set.
    destruct (hashPosition rd ByU32 p =? h'); [right; lia|]. specialize (Ht h'). lia.
Qed.

Lemma ld_pass2_range rd lo hi : forall k tab p idx limit,
  lo <= idx -> idx + Z.of_nat k <= hi ->
  (forall h, get tab h = 0 \/ lo <= get tab h < hi) ->
  forall h, get (ld_pass2 rd k tab p idx limit) h = 0 \/ lo <= get (ld_pass2 rd k tab p idx limit) h < hi.
Proof.
  induction k as [|k IH]; intros tab p idx limit Hlo Hhi Ht h; cbn [ld_pass2].
  - apply Ht.
  - cbv zeta. apply IH; [lia | lia |]. intros h'.
    destruct (get tab (hashPosition rd ByU32 p) <=? limit); [|apply Ht].
    rewrite get_set. destruct (hashPosition rd ByU32 p =? h'); [right; lia | apply Ht].
Qed.

Theorem loadDict_inv m a n slow :
  let c := fst (loadDict m a n slow) in let r := snd (loadDict m a n slow) in
  table_inv c /\ stream_ready c /\ s_cur c = KB64 /\ s_dctx c = None /\ r = s_dictSize c /\
  0 <= s_dictSize c <= KB64 /\
  (n < HASH_UNIT -> s_dictSize c = 0) /\
  (HASH_UNIT <= n -> s_dictSize c = Z.min n KB64 /\ s_dict c + s_dictSize c = a + n) /\
  (forall h, get (s_tab c) h = 0 \/ KB64 - s_dictSize c <= get (s_tab c) h < KB64) /\
  dict_inv (view c) /\ tt_inv c.
Proof.
  cbv zeta. unfold loadDict. cbv zeta. unfold HASH_UNIT.
  assert (Fin : forall tab ds p tt,
            0 <= ds <= KB64 ->
            (forall h, get tab h = 0 \/ KB64 - ds <= get tab h < KB64) ->
            let c := mkS tab KB64 tt ds p None in
            table_inv c /\ stream_ready c /\
            (forall h, get (s_tab c) h = 0 \/ KB64 - s_dictSize c <= get (s_tab c) h < KB64) /\ dict_inv (view c)).
  { intros tab ds p tt Hds Ht. cbv zeta. unfold table_inv, stream_ready, dict_inv, range_ok, view, KB64, LZ4_DISTANCE_MAX in *.
    cbn [to_f f_cur f_dictSize f_tab s_tab s_cur s_tt s_dictSize s_dict s_dctx d_tab d_cur d_dictSize].
    split; [split; [|exact I]; split; [lia | split; [lia | split; intros; specialize (Ht h); lia]]|].
    split; [lia|]. split; [exact Ht|]. split; [lia|]. split; [lia|]. intros h. specialize (Ht h). lia. }
  destruct (n <? 8) eqn:E; cbn [fst snd].
  - specialize (Fin empty 0 0 0 ltac:(unfold KB64; lia) ltac:(intros h; left; apply get_empty)). cbv zeta in Fin.
    destruct Fin as (F1 & F2 & F3 & F4). cbn [s_cur s_dctx s_dictSize s_tab s_dict] in *.
    split; [exact F1|]. split; [exact F2|]. split; [reflexivity|]. split; [reflexivity|]. split; [reflexivity|].
    split; [unfold KB64; lia|]. split; [intros _; reflexivity|]. split; [intros; lia|]. split; [exact F3|]. split; [exact F4|].
    unfold tt_inv. cbn [s_tt s_cur]. split; [intros _; right; lia | left; reflexivity].
  - set (dictEnd := a + n).
    set (p := if dictEnd - a >? KB64 then dictEnd - KB64 else a).
    set (ds := dictEnd - p).
    assert (Hds : 8 <= ds <= KB64 /\ ds = Z.min n KB64).
    { unfold ds, p, dictEnd, KB64. destruct (a + n - a >? 65536) eqn:E2; lia. }
    set (cnt1 := loop_count p (dictEnd - 8) 3). set (cnt2 := loop_count p (dictEnd - 8) 1).
    assert (Hc1 : 3 * Z.of_nat cnt1 <= ds - 5).
    { unfold cnt1, loop_count. replace (p <=? dictEnd - 8) with true by (unfold ds in Hds; lia).
      rewrite Z2Nat.id by (assert (0 <= (dictEnd - 8 - p) / 3) by (apply Z.div_pos; unfold ds in Hds; lia); lia).
      assert (3 * ((dictEnd - 8 - p) / 3) <= dictEnd - 8 - p) by (apply Z.mul_div_le; lia). unfold ds. lia. }
    assert (Hc2 : Z.of_nat cnt2 = ds - 7).
    { unfold cnt2, loop_count. replace (p <=? dictEnd - 8) with true by (unfold ds in Hds; lia).
      rewrite Z.div_1_r. rewrite Z2Nat.id by (unfold ds in Hds; lia). unfold ds. lia. }
    set (tab1 := ld_pass1 (get m) cnt1 empty p (KB64 - ds)).
    assert (T1 : forall h, get tab1 h = 0 \/ KB64 - ds <= get tab1 h < KB64).
    { intros h. pose proof (ld_pass1_range (get m) (KB64 - ds) cnt1 empty p (KB64 - ds) ltac:(lia)
                              ltac:(intros h'; left; apply get_empty) h) as H. fold tab1 in H. lia. }
    set (tab2 := if slow then ld_pass2 (get m) cnt2 tab1 p (KB64 - ds) (KB64 - KB64) else tab1).
    assert (T2 : forall h, get tab2 h = 0 \/ KB64 - ds <= get tab2 h < KB64).
    { unfold tab2. destruct slow; [|exact T1]. intros h.
      apply (ld_pass2_range (get m) (KB64 - ds) KB64 cnt2 tab1 p (KB64 - ds) (KB64 - KB64)); [lia | lia | exact T1]. }
    specialize (Fin tab2 ds p 2 ltac:(lia) T2). cbv zeta in Fin. destruct Fin as (F1 & F2 & F3 & F4).
    cbn [s_cur s_dctx s_dictSize s_tab s_dict] in *.
    split; [exact F1|]. split; [exact F2|]. split; [reflexivity|]. split; [reflexivity|]. split; [reflexivity|].
    split; [lia|]. split; [intros; lia|]. split; [intros _; split; [lia | unfold ds, dictEnd; lia]|].
    split; [exact F3|]. split; [exact F4|].
    unfold tt_inv. cbn [s_tt s_cur]. split; [intros; lia | right; left; reflexivity].
Qed.

(* ---------------------------------------------------------------- LZ4_attach_dictionary *)
(* the dictionary stream was prepared by LZ4_loadDict ([dict_inv], see loadDict_inv); the working stream may
   be in any state (since fix F12 the attached dictionary replaces its history) *)
Definition attach_pre (d : option sctx) : Prop :=
  match d with None => True | Some ds => dict_inv (view ds) end.

Lemma attach_inv c d :
  table_inv c -> attach_pre d ->
  let c' := attach_dictionary c d in
  table_inv c' /\ (tt_inv c -> tt_inv c') /\ (stream_ready c -> stream_ready c').
Proof.
  intros ((C1 & C2 & C3 & C4) & D) P. cbv zeta. unfold attach_dictionary.
  destruct d as [ds|].
  - assert (Hc : 0 < (if s_cur c =? 0 then KB64 else s_cur c)) by (unfold KB64; destruct (s_cur c =? 0) eqn:E; lia).
    assert (He : forall h, 0 <= get (s_tab c) h < (if s_cur c =? 0 then KB64 else s_cur c)).
    { intros h. specialize (C3 h). destruct (s_cur c =? 0) eqn:E; [unfold KB64; lia|]. specialize (C4 ltac:(lia) h). lia. }
    split; [|split].
    + unfold table_inv, range_ok. cbn [s_tab s_cur s_tt s_dictSize s_dctx].
      split; [split; [lia | split; [lia | split; intros; specialize (He h); lia]]|].
      destruct (s_dictSize ds =? 0); [exact I|]. split; [exact P|]. split; [reflexivity | lia].
    + intros (V1 & V2). unfold tt_inv. cbn [s_tt s_cur]. split; [|exact V2]. intros Hz. specialize (V1 Hz).
      unfold KB64 in *. destruct (s_cur c =? 0) eqn:E; lia.
    + intros (R1 & R2). unfold stream_ready. cbn [s_cur s_dictSize]. unfold KB64 in *.
      destruct (s_cur c =? 0) eqn:E; lia.
  - split; [|split].
    + unfold table_inv, range_ok. cbn [s_tab s_cur s_tt s_dictSize s_dctx].
      split; [split; [lia | split; [lia | split; assumption]] | exact I].
    + intros V. exact V.
    + intros R. exact R.
Qed.

(* ---------------------------------------------------------------- LZ4_saveDict *)
Lemma saveDict_inv m c a n :
  mem_ok m -> table_inv c -> - 2147483648 <= n < 2147483648 ->
  let m' := fst (fst (saveDict m c a n)) in let c' := snd (fst (saveDict m c a n)) in let r := snd (saveDict m c a n) in
  mem_ok m' /\ table_inv c' /\ (stream_ready c -> stream_ready c') /\
  r = s_dictSize c' /\ 0 <= r <= s_dictSize c /\ r <= KB64 /\ s_dict c' = a /\ s_dctx c' = s_dctx c /\ s_cur c' = s_cur c /\
  (0 <= n -> r = Z.min (Z.min n KB64) (s_dictSize c)) /\ (tt_inv c -> tt_inv c').
Proof.
  intros Hm T Hn. cbv zeta. unfold saveDict. cbv zeta.
  pose proof T as ((C1 & C2 & C3 & C4) & D). cbn [to_f f_cur f_dictSize f_tab] in *.
  set (ds1 := if u32 n >? KB64 then KB64 else n).
  assert (H1 : 0 <= ds1 <= KB64 /\ (0 <= n -> ds1 = Z.min n KB64)).
  { unfold ds1, u32, KB64. rewrite M32_val.
    destruct (Z_lt_ge_dec n 0) as [Hneg|Hpos].
    - replace (n mod 4294967296) with (n + 4294967296)
        by (apply (Z.mod_unique _ _ (-1)); lia).
      destruct (n + 4294967296 >? 65536) eqn:E; lia.
    - rewrite Z.mod_small by lia. destruct (n >? 65536) eqn:E; lia. }
  assert (U : u32 ds1 = ds1) by (apply u32_small; rewrite M32_val; unfold KB64 in *; lia).
  rewrite U.
  set (ds2 := if ds1 >? s_dictSize c then s_dictSize c else ds1).
  assert (H2 : 0 <= ds2 <= s_dictSize c /\ ds2 <= KB64 /\ (0 <= n -> ds2 = Z.min (Z.min n KB64) (s_dictSize c))).
  { unfold ds2. destruct (ds1 >? s_dictSize c) eqn:E; lia. }
  cbn [fst snd]. unfold with_dict. cbn [s_dictSize s_dict s_dctx s_cur].
  split.
  { destruct (ds2 >? 0); [|exact Hm]. unfold blit. intros x. apply store_list_ok; [exact Hm | apply load_list_ok; exact Hm]. }
  split.
  { apply (table_inv_with_dict c a ds2 T); [lia|].
    intros Hd. destruct (s_dctx c); [|congruence]. destruct D as (_ & D & _). lia. }
  split; [intros (R1 & R2); unfold stream_ready; cbn [s_cur s_dictSize]; lia|].
  split; [reflexivity|]. split; [lia|]. split; [lia|]. split; [reflexivity|]. split; [reflexivity|]. split; [reflexivity|].
  split; [apply H2 | intros V; exact V].
Qed.

(* ---------------------------------------------------------------- one-shot entry points on a stream object *)
Lemma src_view_ok m a n : mem_ok m -> src_ok (src_view m a n).
Proof.
  intros Hm x. unfold src_view, mem_of_list. apply store_list_ok; [intros y; rewrite get_empty; lia|].
  apply load_list_ok. exact Hm.
Qed.

Lemma src_view_load m a n : load_list (src_view m a n) 0 (Z.to_nat n) = load_list m a (Z.to_nat n).
Proof.
  unfold src_view, mem_of_list.
  rewrite <- (load_list_length m a (Z.to_nat n)) at 2. apply load_store_same.
Qed.

(* LZ4_compress_generic(noDict) on a stream whose table is harmless for the chosen directives *)
Lemma nodict_on_stream m c1 src n cap od t small acc :
  mem_ok m -> od <> FillOutput -> 1 <= acc -> range_ok c1 -> s_dictSize c1 = 0 -> tt_inv c1 ->
  tab_ok t CNoDict small (s_cur c1) 0 0 (s_cur c1 + 1) (s_tab c1) ->
  (t = ByU16 -> n < LZ4_64Klimit) ->
  (t = ByU16 -> 0 <= n -> s_cur c1 + n - MFLIMIT + 1 <= 65536 \/ (small = true /\ 65536 <= s_cur c1 - 0)) ->
  let a := compress_generic_nodict (to_f c1) (src_view m src n) n cap od t small acc in
  range_ok (of_f (a_ctx a)) /\ tt_inv (of_f (a_ctx a)) /\
  (0 < a_ret a ->
   a_ret a = Z.of_nat (length (a_out a)) /\ strict_valid [] (a_out a) = Some (load_list m src (Z.to_nat n))).
Proof.
  intros Hm Hod Hacc (C1 & C2 & C3 & C4) Hz V Ht Hu Hi. cbv zeta.
  pose proof (compress_generic_nodict_sound (to_f c1) (src_view m src n) n cap od t small acc (src_view_ok m src n Hm) Hod Hacc) as G.
  change (f_cur (to_f c1)) with (s_cur c1) in G. change (f_dictSize (to_f c1)) with (s_dictSize c1) in G.
  change (f_tab (to_f c1)) with (s_tab c1) in G. rewrite Hz in G.
  specialize (G ltac:(lia) C1 Ht Hu Hi). cbv zeta in G. destruct G as (G1 & G2 & G3).
  set (a := compress_generic_nodict (to_f c1) (src_view m src n) n cap od t small acc) in *.
  assert (K : range_ok (of_f (a_ctx a)) /\ tt_inv (of_f (a_ctx a))).
  { assert (Same : range_ok (of_f (to_f c1)) /\ tt_inv (of_f (to_f c1))).
    { unfold of_f, to_f, range_ok, tt_inv in *. cbn [f_tab f_cur f_tt f_dictSize s_tab s_cur s_tt s_dictSize].
      split; [exact (conj C1 (conj C2 (conj C3 C4))) | exact V]. }
    destruct (Z_le_gt_dec n 0) as [Hle|Hgt]; [rewrite G1 by lia; exact Same|].
    destruct (Z_gt_le_dec n LZ4_MAX_INPUT_SIZE) as [Hg|Hl]; [rewrite G1 by lia; exact Same|].
    destruct (G2 ltac:(lia)) as (B1 & B2 & B3 & B4).
    unfold of_f, range_ok, tt_inv. cbn [s_tab s_cur s_tt s_dictSize]. rewrite B1, B2, B3.
    split; [split; [lia | split; [lia | split; intros; specialize (B4 h); lia]]|].
    unfold tt_code. destruct t; (split; [intros; lia|]); [right; left | right; right]; reflexivity. }
  destruct K as (K1 & K2). split; [exact K1|]. split; [exact K2|].
  intros Hr. destruct (G3 Hr) as (A & B & _). split; [exact A|]. rewrite B. f_equal. apply src_view_load.
Qed.

(* LZ4_compress_fast_extState_fastReset on a stream in ANY state reachable through the API *)
Theorem s_fastReset_sound m c src n cap acc :
  mem_ok m -> table_inv c -> tt_inv c ->
  let r := s_fastReset m c src n cap acc in
  table_inv (r_ctx r) /\ tt_inv (r_ctx r) /\
  (0 < r_ret r ->
   r_ret r = Z.of_nat (length (r_out r)) /\ strict_valid [] (r_out r) = Some (load_list m src (Z.to_nat n))).
Proof.
  intros Hm (C & _) V. cbv zeta. unfold s_fastReset, of_ares, compress_fast_extState_fastReset. cbv zeta.
  cbn [r_ctx r_ret r_out].
  pose proof (clamp_accel_ge acc) as Hacc.
  pose proof (prepareTable_any c n (ttype_for n) C V) as P. cbv zeta in P.
  destruct P as (P1 & P2 & P3 & P4 & P5 & P6 & P7 & _).
  unfold s_prepareTable in *. set (f1 := prepareTable (to_f c) n (ttype_for n)) in *.
  assert (Ef : f1 = to_f (of_f f1)) by (symmetry; apply to_f_of_f). 
  assert (Ec : f_cur f1 = s_cur (of_f f1)) by reflexivity.
  rewrite Ec. rewrite Ef at 2 4.
  assert (K : forall cap' od, od <> FillOutput ->
     let a := compress_generic_nodict (to_f (of_f f1)) (src_view m src n) n cap' od (ttype_for n)
                (match ttype_for n with ByU16 => negb (s_cur (of_f f1) =? 0) | ByU32 => false end) (clamp_accel acc) in
     table_inv (of_f (a_ctx a)) /\ tt_inv (of_f (a_ctx a)) /\
     (0 < a_ret a -> a_ret a = Z.of_nat (length (a_out a)) /\ strict_valid [] (a_out a) = Some (load_list m src (Z.to_nat n)))).
  { intros cap' od Hod. cbv zeta.
    pose proof (nodict_on_stream m (of_f f1) src n cap' od (ttype_for n)
                  (match ttype_for n with ByU16 => negb (s_cur (of_f f1) =? 0) | ByU32 => false end) (clamp_accel acc)
                  Hm Hod Hacc P1 P3 P2 P6 (ttype_for_u16 n)) as N.
    assert (Hi : ttype_for n = ByU16 -> 0 <= n ->
                 s_cur (of_f f1) + n - MFLIMIT + 1 <= 65536 \/
                 ((match ttype_for n with ByU16 => negb (s_cur (of_f f1) =? 0) | ByU32 => false end) = true /\ 65536 <= s_cur (of_f f1) - 0)).
    { intros Et Hn. apply (P7 Et). split; [exact Hn | apply ttype_for_u16; exact Et]. }
    specialize (N Hi). cbv zeta in N. destruct N as (N1 & N2 & N3).
    split; [split; [exact N1 | exact I]|]. split; [exact N2 | exact N3]. }
  destruct (ttype_for n) eqn:Et; destruct (cap >=? compressBound n); apply K; discriminate.
Qed.

(* LZ4_compress_fast_extState: LZ4_initStream, then the kernel on a pristine table *)
Theorem s_extState_sound m src n cap acc :
  mem_ok m ->
  let r := s_extState m src n cap acc in
  table_inv (r_ctx r) /\ tt_inv (r_ctx r) /\
  (0 < r_ret r ->
   r_ret r = Z.of_nat (length (r_out r)) /\ strict_valid [] (r_out r) = Some (load_list m src (Z.to_nat n))).
Proof.
  intros Hm. cbv zeta. unfold s_extState, of_ares, compress_fast_extState. cbv zeta. cbn [r_ctx r_ret r_out].
  pose proof (clamp_accel_ge acc) as Hacc.
  assert (Ei : ctx_init = to_f s_init) by reflexivity. rewrite Ei.
  assert (R0 : range_ok s_init) by (destruct table_inv_init; assumption).
  assert (K : forall cap' od, od <> FillOutput ->
     let a := compress_generic_nodict (to_f s_init) (src_view m src n) n cap' od (ttype_for n) false (clamp_accel acc) in
     table_inv (of_f (a_ctx a)) /\ tt_inv (of_f (a_ctx a)) /\
     (0 < a_ret a -> a_ret a = Z.of_nat (length (a_out a)) /\ strict_valid [] (a_out a) = Some (load_list m src (Z.to_nat n)))).
  { intros cap' od Hod. cbv zeta.
    pose proof (nodict_on_stream m s_init src n cap' od (ttype_for n) false (clamp_accel acc) Hm Hod Hacc R0 eq_refl tt_inv_init
                  (tab_ok_init (ttype_for n) false) (ttype_for_u16 n)) as N.
    assert (Hi : ttype_for n = ByU16 -> 0 <= n -> s_cur s_init + n - MFLIMIT + 1 <= 65536 \/ (false = true /\ 65536 <= s_cur s_init - 0)).
    { intros Et Hn. left. pose proof (ttype_for_u16 n Et). unfold s_init, LZ4_64Klimit, MFLIMIT in *. cbn [s_cur]. lia. }
    specialize (N Hi). cbv zeta in N. destruct N as (N1 & N2 & N3).
    split; [split; [exact N1 | exact I]|]. split; [exact N2 | exact N3]. }
  destruct (cap >=? compressBound n); apply K; discriminate.
Qed.

Lemma s_destSize_inv m src n target acc :
  table_inv (r_ctx (s_destSize m src n target acc)) /\ tt_inv (r_ctx (s_destSize m src n target acc)).
Proof. unfold s_destSize. cbn [r_ctx]. split; [exact table_inv_init | exact tt_inv_init]. Qed.

(* ---------------------------------------------------------------- LZ4_compress_forceExtDict *)
Lemma forceExtDict_inv m c src n :
  mem_ok m -> table_inv c -> tt_inv c -> stream_ready c -> s_dctx c = None -> 0 <= n <= LZ4_MAX_INPUT_SIZE ->
  let r := forceExtDict m c src n in
  table_inv (r_ctx r) /\ tt_inv (r_ctx r) /\ stream_ready (r_ctx r).
Proof.
  intros Hm T V R Hd Hn. cbv zeta. unfold forceExtDict. pose proof (renorm_tt c n V) as V0.
  pose proof (renorm_inv c n T R Hn) as P. cbv zeta in P. destruct P as (T1 & R1 & Q1 & X1 & _).
  set (c0 := renormDictT c n) in *.
  pose proof T1 as ((C1 & C2 & C3 & C4) & _). cbn [to_f f_cur f_dictSize f_tab] in *.
  pose proof (s_generic_ok m c0 src n 0 NotLimited CUsingExtDict (small_dict c0) 1 Hm ltac:(discriminate) ltac:(lia) C1
                ltac:(lia) ltac:(rewrite M32_val; lia)
                (call_ok_own c0 CUsingExtDict (or_intror eq_refl) (proj1 T1) Q1)) as G.
  cbv zeta in G. destruct G as (G1 & G2 & _).
  set (r := s_generic m c0 src n 0 NotLimited CUsingExtDict (small_dict c0) 1) in *.
  cbn [r_ctx].
  assert (U : u32 n = n) by (apply u32_small; rewrite M32_val; unfold LZ4_MAX_INPUT_SIZE in *; lia). rewrite U.
  assert (Hx : s_dctx c0 = None) by congruence.
  destruct (Z.eq_dec n 0) as [Hz|Hnz].
  - rewrite G1 by lia. split; [apply table_inv_with_dict; [exact T1 | lia | congruence]|].
    split; [apply with_dict_tt; exact V0|].
    unfold stream_ready, with_dict. cbn [s_cur s_dictSize]. lia.
  - destruct (G2 ltac:(lia)) as (tab' & Ht & Er). rewrite Er.
    split; [|split].
    + apply table_inv_with_dict; [apply gen_upd_inv; try assumption; try lia; right; exact Hx | lia|].
      unfold gen_upd. cbn [s_dctx]. congruence.
    + unfold tt_inv, with_dict, gen_upd. cbn [s_cur s_tt]. split; [intros; lia | right; left; reflexivity].
    + unfold stream_ready, with_dict, gen_upd. cbn [s_cur s_dictSize]. lia.
Qed.

(* ================================================================ every operation, any history *)
(* the API-level preconditions of one operation in state (m, c) *)
Definition op_pre (st : mem * sctx) (o : op) : Prop :=
  match o with
  | OWrite a bs => list_ok bs
  | OAttach d => attach_pre d
  | OContinue src n cap acc => stream_ready (snd st) /\ 0 <= n <= LZ4_MAX_INPUT_SIZE /\ 0 < src
  | OForceExt src n => stream_ready (snd st) /\ s_dctx (snd st) = None /\ 0 <= n <= LZ4_MAX_INPUT_SIZE
  | OSaveDict a n => - 2147483648 <= n < 2147483648
  | _ => True
  end.

Fixpoint ops_pre (st : mem * sctx) (ops : list op) : Prop :=
  match ops with
  | [] => True
  | o :: r => op_pre st o /\ ops_pre (fst (step st o)) r
  end.

Definition state_inv (st : mem * sctx) : Prop := mem_ok (fst st) /\ table_inv (snd st) /\ tt_inv (snd st).

Lemma step_inv st o : state_inv st -> op_pre st o -> state_inv (fst (step st o)).
Proof.
  destruct st as [m c]. intros (Hm & T & V) P. unfold state_inv in *. cbn [fst snd] in *.
  destruct o; cbn [step op_pre snd] in *.
  - cbn [fst snd]. split; [intros x; apply store_list_ok; assumption | split; assumption].
  - cbn [fst snd]. split; [exact Hm | split; [exact table_inv_init | exact tt_inv_init]].
  - cbn [fst snd]. pose proof (resetStream_fast_inv c T V) as H. cbv zeta in H. split; [exact Hm | split; apply H].
  - pose proof (loadDict_inv m a n slow) as L. cbv zeta in L.
    destruct (loadDict m a n slow) as [c' r]. cbn [fst snd] in *. split; [exact Hm | split; apply L].
  - cbn [fst snd]. pose proof (attach_inv c d T P) as H. cbv zeta in H. split; [exact Hm | split; [apply H | apply H; exact V]].
  - destruct P as (R & Hn & Hs). cbn [fst snd]. split; [exact Hm|].
    pose proof (fast_continue_sound m c src n cap acc Hm T V R Hn Hs) as F. cbv zeta in F.
    destruct (continue_call (fst (prelude c src n)) (snd (prelude c src n)) src n) as [[cc dd] sm]. split; apply F.
  - destruct P as (R & Hd & Hn). cbn [fst snd]. split; [exact Hm|].
    pose proof (forceExtDict_inv m c src n Hm T V R Hd Hn) as H. cbv zeta in H. split; apply H.
  - pose proof (saveDict_inv m c a n Hm T P) as S. cbv zeta in S.
    destruct (saveDict m c a n) as [[m' c'] r]. cbn [fst snd] in *. split; [apply S | split; [apply S|]].
    destruct S as (_ & _ & _ & _ & _ & _ & _ & _ & _ & _ & S11). exact (S11 V).
  - cbn [fst snd]. pose proof (s_fastReset_sound m c src n cap acc Hm T V) as H. cbv zeta in H. split; [exact Hm | split; apply H].
  - cbn [fst snd]. pose proof (s_extState_sound m src n cap acc Hm) as H. cbv zeta in H. split; [exact Hm | split; apply H].
  - cbn [fst snd]. split; [exact Hm | apply s_destSize_inv].
Qed.

(* C18 / C11: [table_inv] holds after ANY finite sequence of operations (failed compressions, resets,
   dictionary loads and attachments, saveDict, one-shot calls, index renormalisation included) *)
Theorem table_inv_run : forall ops st, state_inv st -> ops_pre st ops -> state_inv (run st ops).
Proof.
  induction ops as [|o r IH]; intros st I P; cbn [run fold_left] in *; [exact I|].
  destruct P as (P1 & P2). apply (IH (fst (step st o)) (step_inv st o I P1) P2).
Qed.

Lemma stream_ready_init : stream_ready s_init.
Proof. unfold stream_ready, s_init. cbn [s_cur s_dictSize]. lia. Qed.

(* ================================================================ stale table entries are never used *)
(* Streaming call: whatever earlier, unrelated inputs left in the hash table, every candidate that survives the
   dictSmall test and the distance test of the search step - for the table on entry and for every table the
   kernel can reach ([tab_ok] is the kernel's loop invariant, FastSound) - lies inside the history the call
   designates, [startIndex - dictSize, c), c = current position + 1. *)
Theorem continue_stale_skipped c source n :
  table_inv c -> stream_ready c -> 0 <= n <= LZ4_MAX_INPUT_SIZE -> 0 < source ->
  let c1 := fst (prelude c source n) in let dictEnd := snd (prelude c source n) in
  let '(cc, dd, small) := continue_call c1 dictEnd source n in
  let st := s_cur cc in let ds := cd_dictSize cc dd in
  (* the table on entry is harmless *)
  tab_ok ByU32 dd small st ds 0 (st + 1) (s_tab cc) /\
  (* and a harmless table never yields a stale candidate *)
  forall cb tab h, tab_ok ByU32 dd small st ds 0 cb tab -> st + 1 <= cb ->
    let '(mi, low) := candidate dd st ds (cd_dtab cc dd) (st - cd_dcur cc dd) tab h in
    mi < cb /\
    (~ (small = true /\ mi < st - ds) -> ~ (mi + LZ4_DISTANCE_MAX < cb) -> st - ds <= low <= mi).
Proof.
  intros T R Hn Hs. cbv zeta.
  pose proof (prelude_inv c source n T R Hn ltac:(lia)) as P. cbv zeta in P.
  destruct P as (T1 & R1 & Q1 & X1 & S1 & Z1 & _).
  pose proof (continue_call_ok (fst (prelude c source n)) (snd (prelude c source n)) source n T1 Q1 Z1 Hs Hn R1) as K.
  destruct (continue_call (fst (prelude c source n)) (snd (prelude c source n)) source n) as [[cc dd] small].
  destruct K as ((K1 & K2 & K3) & _ & _ & _ & _ & _ & K7 & _).
  split; [exact K2|].
  intros cb tab h Ht Hcb.
  pose proof (candidate_spec ByU32 dd small (s_cur cc) (cd_dictSize cc dd) (cd_dtab cc dd) (s_cur cc - cd_dcur cc dd) n
                K1 0 K3 ltac:(discriminate) ltac:(discriminate) cb tab h Ht Hcb) as C.
  destruct (candidate dd (s_cur cc) (cd_dictSize cc dd) (cd_dtab cc dd) (s_cur cc - cd_dcur cc dd) tab h) as [mi low].
  destruct C as (C1 & C2). split; [exact C1|]. intros N1 N2.
  assert (Hh : hist_lo dd (s_cur cc) (cd_dictSize cc dd) = s_cur cc - cd_dictSize cc dd).
  { unfold hist_lo. destruct dd; try reflexivity. congruence. }
  rewrite <- Hh. apply C2; [exact N1|]. intros (_ & N). apply N2. exact N.
Qed.

(* One-shot call after the documented reset (LZ4_compress_fast_extState_fastReset = LZ4_prepareTable + kernel),
   on a stream in ANY state the API can produce: no surviving candidate lies before the start of the current
   input, i.e. no match can refer to an earlier, unrelated input. *)
Theorem fastReset_stale_skipped c n :
  table_inv c -> tt_inv c -> 0 <= n < LZ4_64Klimit \/ ttype_for n = ByU32 ->
  let t := ttype_for n in
  let c1 := s_prepareTable c n t in
  let small := match t with ByU16 => negb (s_cur c1 =? 0) | ByU32 => false end in
  let st := s_cur c1 in
  tab_ok t CNoDict small st 0 0 (st + 1) (s_tab c1) /\
  forall cb tab h, tab_ok t CNoDict small st 0 0 cb tab -> st + 1 <= cb ->
    let '(mi, low) := candidate CNoDict st 0 empty 0 tab h in
    mi < cb /\
    (~ (small = true /\ mi < st - 0) -> ~ (dist_active t = true /\ mi + LZ4_DISTANCE_MAX < cb) -> st <= low <= mi).
Proof.
  intros (C & _) V Hn. cbv zeta.
  pose proof (prepareTable_any c n (ttype_for n) C V) as P. cbv zeta in P.
  destruct P as (P1 & P2 & P3 & P4 & P5 & P6 & P7 & _).
  split; [exact P6|].
  intros cb tab h Ht Hcb.
  assert (Hu : dist_active (ttype_for n) = false ->
               s_cur (s_prepareTable c n (ttype_for n)) + n - MFLIMIT - hist_lo CNoDict (s_cur (s_prepareTable c n (ttype_for n))) 0 <= 65535).
  { unfold hist_lo, dist_active. destruct (ttype_for n) eqn:Et; [discriminate|]. intros _.
    pose proof (ttype_for_u16 n Et). unfold LZ4_64Klimit, MFLIMIT in *. lia. }
  assert (Hi : ttype_for n = ByU16 ->
               mflimitPlusOne (s_cur (s_prepareTable c n (ttype_for n))) n <= 65536 \/
               (match ttype_for n with ByU16 => negb (s_cur (s_prepareTable c n (ttype_for n)) =? 0) | ByU32 => false end) = true /\
               65536 <= s_cur (s_prepareTable c n (ttype_for n)) - 0 /\ 0 <= 0).
  { intros Et. destruct Hn as [Hn|Hn]; [|congruence].
    destruct (P7 Et Hn) as [H|(H1 & H2)]; [left; unfold mflimitPlusOne, iend; lia | right; split; [exact H1 | split; [exact H2 | lia]]]. }
  pose proof (candidate_spec (ttype_for n) CNoDict
                (match ttype_for n with ByU16 => negb (s_cur (s_prepareTable c n (ttype_for n)) =? 0) | ByU32 => false end)
                (s_cur (s_prepareTable c n (ttype_for n))) 0 empty 0 n ltac:(lia) 0 ltac:(discriminate) Hu Hi cb tab h Ht Hcb) as K.
  destruct (candidate CNoDict (s_cur (s_prepareTable c n (ttype_for n))) 0 empty 0 tab h) as [mi low].
  destruct K as (K1 & K2). split; [exact K1|]. intros N1 N2. unfold hist_lo in K2. apply K2; assumption.
Qed.

(* ================================================================ state injection (correspondence check) *)
(* Shifting every index of a used 32-bit table by the same amount yields a state that satisfies the same
   invariants: the states the check injects to reach the > 1 GB / > 2 GB regions are inside the domain of
   the theorems (and designate the same dictionary bytes). *)
Lemma shift_inv c delta :
  table_inv c -> tt_inv c -> s_tt c = 2 -> 0 <= delta ->
  let c' := shift_ctx c delta in
  table_inv c' /\ tt_inv c' /\ s_dict c' = s_dict c /\ s_dictSize c' = s_dictSize c /\ s_dctx c' = s_dctx c /\
  (stream_ready c -> s_cur c + delta <= 2147483648 -> stream_ready c').
Proof.
  intros ((C1 & C2 & C3 & C4) & D) (V1 & V2) Ht Hd. cbv zeta. unfold shift_ctx.
  assert (G : forall h, get (PositiveMap.map (shift_entry delta) (s_tab c)) h = shift_entry delta (get (s_tab c) h)).
  { intros h. apply get_map. reflexivity. }
  split; [|split; [|split; [reflexivity | split; [reflexivity | split; [reflexivity|]]]]].
  - unfold table_inv, range_ok. cbn [s_tab s_cur s_tt s_dictSize s_dctx].
    split.
    + split; [lia|]. split; [lia|]. split.
      * intros h. rewrite G. unfold shift_entry. specialize (C3 h). destruct (get (s_tab c) h =? 0) eqn:E; lia.
      * intros Hnz h. rewrite G. unfold shift_entry. specialize (C3 h).
        destruct (get (s_tab c) h =? 0) eqn:E; [lia|]. specialize (C4 ltac:(lia) h). lia.
    + destruct (s_dctx c); [|exact I]. destruct D as (D1 & D2 & D3). split; [exact D1|]. split; [exact D2 | lia].
  - unfold tt_inv. cbn [s_tt s_cur]. split; [intros; lia | exact V2].
  - intros (R1 & R2) Hb. unfold stream_ready. cbn [s_cur s_dictSize]. lia.
Qed.
