(* C05 for the deprecated LZ4_decompress_fast* family (Model.DecFast): on every strictly
   valid block, given originalSize = |D|, LZ4_decompress_unsafe_generic returns the number
   of source bytes, produces exactly D and performs no access outside the caller's buffers.
   The C function trusts its input: nothing is claimed for blocks that are not valid. *)
From Coq Require Import ZArith List Lia Bool ZifyBool.
From LZ4V Require Import Gen.Consts Spec.BlockSpec Model.Mem Model.Dec Model.DecApi Model.DecStream Model.DecFast.
From LZ4V Require Import Proofs.DecRefineBase Proofs.DecRefineSafe Proofs.DecRefineTop Proofs.DecRefineApi.
Import ListNotations.
Local Open Scope Z_scope.

Definition is_ucont (out : uout) (P : dstate -> Prop) : Prop :=
  match out with UCont s' => P s' | _ => False end.
Definition is_udone (out : uout) (P : dstate -> Prop) : Prop :=
  match out with UDone s' => P s' | _ => False end.

Section USim.
  Variables (srcm : mem) (srcSize oend prefixSize : Z) (dictm : mem) (dictSize : Z).
  Hypothesis Hps : 0 <= prefixSize.
  Hypothesis Hds : 0 <= dictSize.

  Notation uvget := (vget (- prefixSize) dictm dictSize).

  Ltac unf :=
    unfold urd_src, uwr, urd_dst, urd_dict, MINMATCH, LASTLITERALS, MFLIMIT in *; cbn [ip op dm ok] in *.
  Ltac fin := unfold byte in *; unf; lia.

  (* ---------- read_long_length_no_check against read_ext ---------- *)
  Lemma rll_loop_sim : forall (bs : list Z) acc v (r : list Z), read_ext bs acc = Some (v, r) ->
    forall fuel p l,
    src_at srcm p bs -> 0 <= p -> p + Z.of_nat (length bs) <= srcSize ->
    Z.of_nat (length bs) - Z.of_nat (length r) <= Z.of_nat fuel ->
    (length r < length bs)%nat /\
    src_at srcm (p + (Z.of_nat (length bs) - Z.of_nat (length r))) r /\
    rll_loop srcm srcSize fuel p l true = (l + (v - acc), p + (Z.of_nat (length bs) - Z.of_nat (length r)), true).
  Proof.
    induction bs as [|b r0 IH]; intros acc v r H fuel p l Hs Hp Hie Hf; [discriminate|].
    pose proof (read_ext_shorter _ _ _ _ H) as Hsh. cbn [read_ext] in H. unfold byte in *.
    destruct (src_at_cons _ _ _ _ Hs) as [Hb Hs'].
    cbn [length] in *.
    destruct fuel as [|f]; [lia|]. cbn [rll_loop]. cbv zeta. rewrite Hb.
    assert (Erd : urd_src srcSize p 1 = true) by (unfold urd_src; lia). rewrite Erd. cbn [andb].
    destruct (b =? 255) eqn:E255.
    - pose proof (read_ext_shorter _ _ _ _ H) as Hsh2. unfold byte in *.
      destruct (IH _ _ _ H f (p + 1) (l + b) Hs') as (Hl & Hsr & Hr); try lia.
      split; [lia|]. split.
      + replace (p + (Z.of_nat (S (length r0)) - Z.of_nat (length r))) with (p + 1 + (Z.of_nat (length r0) - Z.of_nat (length r))) by lia. exact Hsr.
      + rewrite Hr. f_equal. f_equal; lia.
    - injection H as Hv Hr0. subst v r. split; [lia|]. split.
      + replace (p + (Z.of_nat (S (length r0)) - Z.of_nat (length r0))) with (p + 1) by lia. exact Hs'.
      + f_equal. f_equal; lia.
  Qed.

  (* a length field (nibble + optional extension) as the C code reads it *)
  Lemma ulen_sim nib (bs : list Z) v (r : list Z) p :
    0 <= nib <= 15 -> read_len nib bs = Some (v, r) -> src_at srcm p bs -> 0 <= p ->
    p + Z.of_nat (length bs) <= srcSize ->
    (if nib =? 15 then (let '(l, p', k') := rll srcm srcSize p true in (15 + l, p', k')) else (nib, p, true))
    = (v, p + (Z.of_nat (length bs) - Z.of_nat (length r)), true).
  Proof.
    intros Hn H Hs Hp Hie. unfold read_len in H.
    destruct (nib =? 15) eqn:E.
    - unfold rll.
      destruct (rll_loop_sim bs 15 v r H (Z.to_nat srcSize + 1) p 0 Hs Hp Hie) as (_ & _ & Hr).
      { apply read_ext_shorter in H. lia. }
      rewrite Hr. f_equal. f_equal. lia.
    - injection H as Hv Hr. subst v r. f_equal. f_equal. lia.
  Qed.

  (* ---------- one iteration on a complete sequence ---------- *)
  Lemma unsafe_top_seq s tok (r : list Z) ll (r1 lits : list Z) o1 o2 (r3 : list Z) ml (r4 rout rout1 : list Z) :
    ok s = true ->
    bytes (tok :: r) -> src_at srcm (ip s) (tok :: r) -> 0 <= ip s ->
    ip s + Z.of_nat (length (tok :: r)) <= srcSize ->
    read_len (tok / 16) r = Some (ll, r1) -> take (Z.to_nat ll) r1 = Some (lits, o1 :: o2 :: r3) ->
    read_len (tok mod 16) r3 = Some (ml, r4) ->
    out_at (uvget (dm s)) (op s) rout -> Z.of_nat (length rout) <= op s + prefixSize + dictSize -> 0 <= op s ->
    apply_seq rout (mkSeq lits (o1 + 256 * o2) (ml + 4)) = Some rout1 ->
    op s + ll + 12 <= oend -> op s + ll + (ml + 4) + 5 <= oend ->
    is_ucont (unsafe_top srcm srcSize oend prefixSize dictm dictSize s)
      (fun s' => ok s' = true /\
                 ip s' + Z.of_nat (length r4) = ip s + Z.of_nat (length (tok :: r)) /\
                 src_at srcm (ip s') r4 /\ bytes r4 /\
                 op s' = op s + ll + (ml + 4) /\ out_at (uvget (dm s')) (op s') rout1).
  Proof.
    intros Hok Hb Hs Hip Hie Hrl1 Htk Hrl2 O Hlen Hop Happ Hroom1 Hroom2.
    unfold byte in *.
    destruct (bytes_cons _ _ Hb) as [Htok Hbr].
    destruct (src_at_cons _ _ _ _ Hs) as [Htokm Hsr].
    destruct (nibbles tok Htok) as [Hn1 Hn2].
    cbn [length] in Hie.
    destruct (read_len_suffix srcm 0 _ _ _ _ _ Hn1 Hrl1 Hbr Hsr) as (Hl1 & Hll & _ & Hs1 & Hb1).
    unfold byte in *.
    pose proof (ulen_sim _ _ _ _ (ip s + 1) Hn1 Hrl1 Hsr ltac:(lia) ltac:(lia)) as HL1.
    remember (ip s + 1 + (Z.of_nat (length r) - Z.of_nat (length r1))) as p1 eqn:Ep1.
    destruct (take_spec _ _ _ _ Htk) as [Er1 Hlits]. unfold byte in *.
    assert (Ell : ll = Z.of_nat (length lits)) by lia.
    assert (Hlr1 : length r1 = (length lits + S (S (length r3)))%nat) by (rewrite Er1, app_length; reflexivity).
    rewrite Er1 in Hs1, Hb1.
    destruct (bytes_app _ _ Hb1) as [_ Hb2].
    destruct (bytes_cons _ _ Hb2) as [Ho1 Hb3]. destruct (bytes_cons _ _ Hb3) as [Ho2 Hb4].
    destruct (src_at_app _ _ _ _ Hs1) as [Hsl Hs2].
    destruct (src_at_cons _ _ _ _ Hs2) as [_ Hs3]. destruct (src_at_cons _ _ _ _ Hs3) as [_ Hs4].
    destruct (read_len_suffix srcm 0 _ _ _ _ _ Hn2 Hrl2 Hb4 Hs4) as (Hl2 & Hml & _ & Hs5 & Hb5). unfold byte in *.
    pose proof (ulen_sim _ _ _ _ (p1 + Z.of_nat (length lits) + 1 + 1) Hn2 Hrl2 Hs4 ltac:(lia) ltac:(lia)) as HL2.
    unfold apply_seq in Happ. cbn [s_lits s_off s_mlen] in Happ.
    destruct (off_ok (o1 + 256 * o2) && (4 <=? ml + 4)) eqn:Eok; [|discriminate].
    assert (Hoff : 1 <= o1 + 256 * o2) by (unfold off_ok in Eok; lia).
    assert (Hoffle : o1 + 256 * o2 <= Z.of_nat (length lits) + Z.of_nat (length rout)).
    { replace (Z.to_nat (ml + 4)) with (S (Z.to_nat (ml + 3))) in Happ by lia.
      apply copy_match_off in Happ. rewrite app_length, rev_length in Happ. unfold byte in *. lia. }
    remember (o1 + 256 * o2) as off eqn:Eoff.
    unfold unsafe_top. cbv zeta. rewrite Htokm, Hok. cbn [andb].
    assert (Erd0 : urd_src srcSize (ip s) 1 = true) by fin. rewrite Erd0.
    rewrite HL1.
    assert (E1 : (oend - op s <? ll) = false) by lia. rewrite E1.
    assert (E2 : (oend - (op s + ll) <? MFLIMIT) = false) by fin. rewrite E2.
    rewrite Ell in *. rewrite Nat2Z.id.
    rewrite (readLE16_src _ _ _ _ _ Hs2). rewrite <- Eoff.
    assert (Erd1 : urd_src srcSize p1 (Z.of_nat (length lits)) && uwr oend (op s) (Z.of_nat (length lits)) = true) by fin.
    assert (Erd2 : urd_src srcSize (p1 + Z.of_nat (length lits)) 2 = true) by fin.
    cbn [andb]. rewrite Erd1, Erd2. cbn [andb].
    replace (p1 + Z.of_nat (length lits) + 2) with (p1 + Z.of_nat (length lits) + 1 + 1) by lia.
    rewrite HL2.
    set (p4 := p1 + Z.of_nat (length lits) + 1 + 1 + (Z.of_nat (length r3) - Z.of_nat (length r4))) in *.
    set (o := op s + Z.of_nat (length lits)) in *.
    set (m1 := blit srcm p1 (dm s) (op s) (length lits)).
    assert (O1 : out_at (uvget m1) o (rev lits ++ rout)).
    { apply lits_out_v with (m := dm s); try assumption; try lia.
      - apply blit_same_below.
      - apply (blit_lits srcm); [exact Hsl | lia]. }
    assert (E3 : (oend - o <? ml + MINMATCH) = false) by (unfold o; fin). rewrite E3.
    assert (E4 : (off >? o + prefixSize + dictSize) = false) by (unfold o; lia). rewrite E4.
    assert (Hdict : forall m' x, x < - prefixSize -> uvget m' x = get dictm (dictSize - (- prefixSize - x))).
    { intros m' x Hx. unfold vget. destruct (x <? - prefixSize) eqn:E; [reflexivity | lia]. }
    (* what the three copy variants establish *)
    assert (Hfin : forall m2 kf, same_below m1 m2 o -> frec (uvget m2) off o (o + (ml + 4)) -> kf = true ->
               (oend - (o + (ml + 4)) <? LASTLITERALS) = false /\
               (ok (mkD p4 (o + (ml + 4)) m2 kf) = true /\
                ip (mkD p4 (o + (ml + 4)) m2 kf) + Z.of_nat (length r4) = ip s + Z.of_nat (length (tok :: r)) /\
                src_at srcm (ip (mkD p4 (o + (ml + 4)) m2 kf)) r4 /\ bytes r4 /\
                op (mkD p4 (o + (ml + 4)) m2 kf) = op s + Z.of_nat (length lits) + (ml + 4) /\
                out_at (uvget (dm (mkD p4 (o + (ml + 4)) m2 kf))) (op (mkD p4 (o + (ml + 4)) m2 kf)) rout1)).
    { intros m2 kf S R Hk. split; [unfold o; fin|]. cbn [ip op dm ok length].
      split; [exact Hk|]. split; [unfold p4; lia|]. split; [exact Hs5|]. split; [exact Hb5|]. split; [unfold o; lia|].
      replace (ml + 4) with (Z.of_nat (Z.to_nat (ml + 4))) by lia.
      apply copy_match_out with (rout := rev lits ++ rout) (off := Z.to_nat off).
      - lia.
      - exact Happ.
      - eapply out_at_ext; [exact O1|]. intros a Ha. eapply vget_same_below; eauto.
      - replace (Z.of_nat (Z.to_nat off)) with off by lia. replace (Z.of_nat (Z.to_nat (ml + 4))) with (ml + 4) by lia. exact R. }
    replace (ml + MINMATCH) with (ml + 4) by fin.
    destruct (off >? o + prefixSize) eqn:Eext; cbv beta iota.
    - (* the match starts in the external dictionary *)
      set (extml := off - (o + prefixSize)) in *.
      destruct (extml >? ml + 4) eqn:Ein; cbv beta iota.
      + (* entirely inside the dictionary *)
        cbn [Z.to_nat copy_fwd].
        set (m2 := blit dictm (dictSize - extml) m1 o (Z.to_nat (ml + 4))).
        destruct (Hfin m2 (true && urd_dict dictSize (dictSize - extml) (ml + 4) && uwr oend o (ml + 4) && uwr oend (o + (ml + 4)) 0 && urd_dst oend prefixSize (- prefixSize) 0)) as [E5 HP].
        * apply blit_same_below.
        * intros x Hx. rewrite vget_hi by (unfold o in *; lia). rewrite Hdict by (unfold extml in *; lia).
          unfold m2. rewrite get_blit.
          assert (E : (o <=? x) && (x <? o + Z.of_nat (Z.to_nat (ml + 4))) = true) by lia. rewrite E.
          f_equal. unfold extml. lia.
        * unfold extml, o in *. fin.
        * replace (o + (ml + 4) + 0) with (o + (ml + 4)) by lia. rewrite E5. exact HP.
      + (* dictionary tail, then the start of the prefix / output *)
        set (m2 := blit dictm (dictSize - extml) m1 o (Z.to_nat extml)).
        assert (S2 : same_below m1 m2 o) by apply blit_same_below.
        destruct (copy_fwd_lz (Z.to_nat (ml + 4 - extml)) m2 (o + extml) off Hoff) as [S3 R3].
        replace (o + extml - off) with (- prefixSize) in S3, R3 by (unfold extml; lia).
        set (m3 := copy_fwd m2 (o + extml) (- prefixSize) (Z.to_nat (ml + 4 - extml))) in *.
        destruct (Hfin m3 (true && urd_dict dictSize (dictSize - extml) extml && uwr oend o extml && uwr oend (o + extml) (ml + 4 - extml) && urd_dst oend prefixSize (- prefixSize) (ml + 4 - extml))) as [E5 HP].
        * eapply same_below_trans; [exact S2 | exact S3 | unfold extml; lia].
        * intros x Hx. destruct (Z_lt_ge_dec x (o + extml)) as [Hlo|Hhi].
          -- rewrite vget_hi by (unfold o in *; lia). rewrite Hdict by (unfold extml in *; lia).
             rewrite S3 by lia. unfold m2. rewrite get_blit.
             assert (E : (o <=? x) && (x <? o + Z.of_nat (Z.to_nat extml)) = true) by (unfold extml in *; lia). rewrite E.
             f_equal. unfold extml. lia.
          -- rewrite !vget_hi by (unfold extml, o in *; lia). apply R3. lia.
        * unfold extml, o in *. fin.
        * replace (o + extml + (ml + 4 - extml)) with (o + (ml + 4)) by lia. rewrite E5. exact HP.
    - (* inside prefix + current output *)
      destruct (copy_fwd_lz (Z.to_nat (ml + 4)) m1 o off Hoff) as [S3 R3].
      rewrite Z2Nat.id in R3 by lia.
      set (m3 := copy_fwd m1 o (o - off) (Z.to_nat (ml + 4))) in *.
      destruct (Hfin m3 (true && uwr oend o (ml + 4) && urd_dst oend prefixSize (o - off) (ml + 4))) as [E5 HP].
      + exact S3.
      + apply lzrec_v; [exact R3 | lia | lia].
      + unfold o in *. fin.
      + rewrite E5. exact HP.
  Qed.

  (* ---------- the final literal run: the output must end exactly at oend ---------- *)
  Lemma unsafe_top_last s tok (r : list Z) ll (r1 lits rout : list Z) :
    ok s = true ->
    bytes (tok :: r) -> src_at srcm (ip s) (tok :: r) -> 0 <= ip s ->
    ip s + Z.of_nat (length (tok :: r)) <= srcSize ->
    read_len (tok / 16) r = Some (ll, r1) -> take (Z.to_nat ll) r1 = Some (lits, []) ->
    out_at (uvget (dm s)) (op s) rout -> 0 <= op s -> op s + ll = oend ->
    is_udone (unsafe_top srcm srcSize oend prefixSize dictm dictSize s)
      (fun s' => ok s' = true /\ ip s' = ip s + Z.of_nat (length (tok :: r)) /\ op s' = oend /\
                 out_at (uvget (dm s')) oend (rev lits ++ rout)).
  Proof.
    intros Hok Hb Hs Hip Hie Hrl1 Htk O Hop Hroom.
    unfold byte in *.
    destruct (bytes_cons _ _ Hb) as [Htok Hbr].
    destruct (src_at_cons _ _ _ _ Hs) as [Htokm Hsr].
    destruct (nibbles tok Htok) as [Hn1 Hn2].
    cbn [length] in Hie.
    destruct (read_len_suffix srcm 0 _ _ _ _ _ Hn1 Hrl1 Hbr Hsr) as (Hl1 & Hll & _ & Hs1 & Hb1).
    unfold byte in *.
    pose proof (ulen_sim _ _ _ _ (ip s + 1) Hn1 Hrl1 Hsr ltac:(lia) ltac:(lia)) as HL1.
    remember (ip s + 1 + (Z.of_nat (length r) - Z.of_nat (length r1))) as p1 eqn:Ep1.
    destruct (take_spec _ _ _ _ Htk) as [Er1 Hlits]. unfold byte in *.
    rewrite app_nil_r in Er1.
    assert (Ell : ll = Z.of_nat (length lits)) by lia.
    assert (Hlr1 : length r1 = length lits) by (rewrite Er1; reflexivity).
    rewrite Er1 in Hs1.
    unfold unsafe_top. cbv zeta. rewrite Htokm, Hok. cbn [andb].
    assert (Erd0 : urd_src srcSize (ip s) 1 = true) by fin. rewrite Erd0.
    rewrite HL1.
    assert (E1 : (oend - op s <? ll) = false) by lia. rewrite E1.
    assert (E2 : (oend - (op s + ll) <? MFLIMIT) = true) by fin. rewrite E2.
    assert (E3 : (op s + ll =? oend) = true) by lia. rewrite E3.
    cbn [is_udone ip op dm ok length].
    assert (Erd1 : urd_src srcSize p1 ll && uwr oend (op s) ll = true) by fin.
    cbn [andb]. rewrite Erd1.
    split; [reflexivity|]. split; [lia|]. split; [lia|].
    rewrite <- Hroom, Ell, Nat2Z.id.
    apply lits_out_v with (m := dm s); try assumption; try lia.
    - apply blit_same_below.
    - apply (blit_lits srcm); [exact Hs1 | lia].
  Qed.

  (* ---------- the loop on a strictly valid block ---------- *)
  Lemma urun_sim : forall f (bs : list Z) ss (last : list Z), parse_seqs f bs = Some (ss, last) ->
    forall rout rout' s fuel,
    ok s = true ->
    apply_seqs rout ss = Some rout' -> end_ok ss last = true ->
    bytes bs -> src_at srcm (ip s) bs -> 0 <= ip s -> ip s + Z.of_nat (length bs) <= srcSize ->
    out_at (uvget (dm s)) (op s) rout -> Z.of_nat (length rout) <= op s + prefixSize + dictSize -> 0 <= op s ->
    op s + total_len ss last = oend -> (length bs < fuel)%nat ->
    exists s', urun srcm srcSize oend prefixSize dictm dictSize fuel s = (ip s + Z.of_nat (length bs), s')
               /\ ok s' = true /\ out_at (uvget (dm s')) oend (rev last ++ rout').
  Proof.
    induction f as [|f IH]; intros bs ss last H rout rout' s fuel Hok Happ Hend Hb Hs Hip Hie O Hlen Hop Hroom Hfuel;
      [discriminate|]. rewrite parse_seqs_S in H.
    destruct bs as [|tok r]; [discriminate|].
    destruct (read_len (tok / 16) r) as [[ll r1]|] eqn:E1; [|discriminate].
    destruct (take (Z.to_nat ll) r1) as [[lits r2]|] eqn:E2; [|discriminate].
    destruct fuel as [|fuel]; [lia|].
    cbn [urun].
    assert (Ell : ll = Z.of_nat (length lits)).
    { destruct (take_spec _ _ _ _ E2) as [_ Hl]. destruct (bytes_cons _ _ Hb) as [Htok Hbr].
      destruct (nibbles tok Htok) as [Hn1 _].
      destruct (src_at_cons _ _ _ _ Hs) as [_ Hsr].
      destruct (read_len_suffix srcm 0 _ _ _ _ _ Hn1 E1 Hbr Hsr) as (_ & Hll & _). unfold byte in *. lia. }
    destruct r2 as [|o1 [|o2 r3]]; [| discriminate |].
    - assert (Hss : ss = []) by congruence. assert (Hla : lits = last) by congruence. clear H. subst ss last.
      cbn [apply_seqs] in Happ. assert (Hr' : rout = rout') by congruence. subst rout'.
      cbn [total_len fold_right] in *.
      pose proof (unsafe_top_last s tok r ll r1 lits rout Hok Hb Hs Hip Hie E1 E2 O Hop ltac:(unfold byte in *; lia)) as HL.
      destruct (unsafe_top srcm srcSize oend prefixSize dictm dictSize s) as [s'|s'|s'];
        cbn [is_udone] in HL; try contradiction.
      destruct HL as (H1 & H2 & H3 & H4).
      exists s'. rewrite H2. split; [reflexivity|]. split; assumption.
    - destruct (read_len (tok mod 16) r3) as [[ml r4]|] eqn:E3; [|discriminate].
      destruct (parse_seqs f r4) as [[ss' last']|] eqn:E4; [|discriminate].
      assert (Hss : mkSeq lits (o1 + 256 * o2) (ml + 4) :: ss' = ss) by congruence.
      assert (Hlast : last' = last) by congruence. clear H. subst ss last.
      cbn [apply_seqs] in Happ.
      destruct (apply_seq rout (mkSeq lits (o1 + 256 * o2) (ml + 4))) as [rout1|] eqn:Eapp; [|discriminate].
      pose proof (apply_seqs_mlen _ _ _ Happ) as Fml.
      assert (Hml0 : 0 <= ml + 4).
      { unfold apply_seq in Eapp. cbn [s_off s_mlen] in Eapp. destruct (off_ok (o1 + 256 * o2) && (4 <=? ml + 4)) eqn:E; [lia|discriminate]. }
      destruct (end_room ss' (mkSeq lits (o1 + 256 * o2) (ml + 4)) last' Hend) as (H5 & H12 & Hend').
      { constructor; [cbn [s_mlen]; lia | exact Fml]. }
      cbn [s_mlen] in H12.
      pose proof (total_len_ge ss' last' Fml) as Htl.
      cbn [total_len fold_right s_lits s_mlen] in Hroom. fold (total_len ss' last') in Hroom.
      assert (Hlen1 : length rout1 = (length rout + length lits + Z.to_nat (ml + 4))%nat).
      { unfold apply_seq in Eapp. cbn [s_lits s_off s_mlen] in Eapp.
        destruct (off_ok (o1 + 256 * o2) && (4 <=? ml + 4)); [|discriminate].
        apply copy_match_length in Eapp. rewrite app_length, rev_length in Eapp. unfold byte in *. lia. }
      pose proof (unsafe_top_seq s tok r ll r1 lits o1 o2 r3 ml r4 rout rout1 Hok Hb Hs Hip Hie E1 E2 E3 O Hlen Hop Eapp) as HS.
      destruct (unsafe_top srcm srcSize oend prefixSize dictm dictSize s) as [s'|s'|s'];
        cbn [is_ucont] in HS; try (exfalso; apply HS; unfold byte in *; lia).
      destruct HS as (Hok' & Hi' & Hs' & Hb' & Ho' & O'); try (unfold byte in *; lia).
      assert (Hshr : (length r4 + 2 <= length r)%nat).
      { pose proof (read_len_shorter _ _ _ _ E1). pose proof (read_len_shorter _ _ _ _ E3).
        destruct (take_spec _ _ _ _ E2) as [Er1 _]. unfold byte in *.
        assert (length r1 = (length lits + S (S (length r3)))%nat) by (rewrite Er1, app_length; reflexivity). lia. }
      cbn [length] in Hi', Hie, Hfuel.
      destruct (IH r4 ss' last' E4 rout1 rout' s' fuel Hok' Happ Hend' Hb' Hs') as (s'' & Hrun & Hok'' & Hout);
        try (unfold byte in *; lia).
      + exact O'.
      + exists s''. rewrite Hrun. cbn [length]. split; [f_equal; unfold byte in *; lia|]. split; assumption.
  Qed.

End USim.

