(* The LZ4MID search into an attached LZ4MID dictionary context (Model.HcMidDict.dict_search) only returns verified
   matches: it discharges the hypothesis on [dsrch] of Proofs.HcMidSound / HcMidCap / HcMidFill, so all their theorems
   hold for the usingDictCtxHc configuration with such a dictionary.

   Conditions on the dictionary context - established by LZ4_loadDictHC at an LZ4MID level: every table entry is 0
   (empty) or an index inside the dictionary [dDictLimit, lDictEndIndex), with 64 KB <= dDictLimit (LZ4HC_init_internal
   starts a fresh context at 64 KB) - and on the placement: the dictionary's bytes are the virtual indices just below
   gDictEndIndex, not below the history start [lo]. *)
From Coq Require Import ZArith List Lia Bool ZifyBool.
From LZ4V Require Import Gen.Consts Spec.BlockSpec Model.Mem Model.Fast Model.HcEmit Model.HcMid Model.HcMidDict.
From LZ4V Require Import Proofs.FactorSpec Proofs.FastBasics Proofs.HcMidSound.
Import ListNotations.
Local Open Scope Z_scope.

Section MidDictSound.
  Variable vrd : Z -> Z.
  Variables s0 srcSize gDictEndIndex lo : Z.
  Variables dh4 dh8 : mem.
  Variables dDictLimit lDictEndIndex : Z.

  Definition dtab_ok (T : mem) : Prop := forall k, get T k = 0 \/ dDictLimit <= get T k < lDictEndIndex.

  Hypothesis Hd4 : dtab_ok dh4.
  Hypothesis Hd8 : dtab_ok dh8.
  Hypothesis Hdl : 65536 <= dDictLimit <= lDictEndIndex /\ lDictEndIndex <= 1073741824 + 131072.
  Hypothesis Hpl : 0 <= lo /\ lo <= gDictEndIndex - (lDictEndIndex - dDictLimit) /\ gDictEndIndex <= s0 /\ s0 + srcSize < M32.

  Notation mflimit := (mi_mflimit s0 srcSize).
  Notation matchlimit := (mi_matchlimit s0 srcSize).

  Lemma dict_cand_sound ip l f :
    s0 <= ip <= mflimit -> ip - gDictEndIndex < 65535 ->
    (l = 0 \/ dDictLimit <= l < lDictEndIndex) ->
    dict_cand vrd s0 srcSize gDictEndIndex lDictEndIndex ip l = Some f ->
    found_ok vrd s0 srcSize lo ip f.
  Proof.
    intros Hip Hnear Hl. pose proof (limits s0 srcSize) as (L1 & L2 & L3).
    unfold dict_cand. cbv zeta.
    assert (Hu : u32 ip = ip) by (apply u32_id; unfold M32 in *; lia).
    assert (Hul : u32 lDictEndIndex = lDictEndIndex) by (apply u32_id; unfold M32; lia).
    rewrite Hu, Hul. unfold LZ4_DISTANCE_MAX, MINMATCH.
    destruct Hl as [-> | Hl].
    - (* empty entry: the distance is at least lDictEndIndex >= 64 KB *)
      assert (Hdist : u32 (ip - u32 (0 + gDictEndIndex - lDictEndIndex)) = ip - gDictEndIndex + lDictEndIndex).
      { unfold u32, M32 in *. Z.div_mod_to_equations. lia. }
      rewrite Hdist. destruct (ip - gDictEndIndex + lDictEndIndex <=? 65535) eqn:E; [lia | discriminate].
    - set (m := l + gDictEndIndex - lDictEndIndex) in *.
      assert (Hm : lo <= m < gDictEndIndex) by (subst m; lia).
      assert (Hum : u32 m = m) by (apply u32_id; unfold M32 in *; lia).
      rewrite Hum.
      assert (Hud : u32 (ip - m) = ip - m) by (apply u32_id; unfold M32 in *; lia).
      rewrite Hud.
      destruct (ip - m <=? 65535) eqn:E1; [|discriminate].
      rewrite (Z.mod_small (lDictEndIndex - l)) by (unfold M64; lia).
      set (sl := Z.min (lDictEndIndex - l) (matchlimit - ip)).
      assert (Hsl : 0 <= sl <= matchlimit - ip) by (subst sl; lia).
      pose proof (count_spec vrd ip m (ip + sl) ltac:(lia)) as Hc. cbv zeta in Hc.
      set (n := count vrd ip m (ip + sl)) in *. destruct Hc as (Hn & Heq & _).
      destruct (n >=? 4) eqn:E2; [|discriminate].
      intros Hf. inversion Hf; subst f; clear Hf.
      split; [left; reflexivity|]. cbn [f_ip f_dist f_ml]. split; [|lia].
      split; [lia|]. split; [lia|]. split; [lia|].
      intros i Hi. rewrite Heq by lia. f_equal. lia.
  Qed.

  Theorem dict_search_sound ip f :
    s0 <= ip <= mflimit ->
    dict_search vrd s0 srcSize gDictEndIndex dh4 dh8 lDictEndIndex ip = Some f ->
    found_ok vrd s0 srcSize lo ip f.
  Proof.
    intros Hip. pose proof (limits s0 srcSize) as (L1 & L2 & L3). unfold dict_search.
    assert (Hu : u32 ip = ip) by (apply u32_id; unfold M32 in *; lia).
    rewrite Hu. rewrite (u32_id (ip - gDictEndIndex)) by (unfold M32 in *; lia).
    unfold LZ4_DISTANCE_MAX.
    destruct (ip - gDictEndIndex <? 65535 - 8) eqn:E; [|discriminate].
    unfold mid_searchExtDict.
    destruct (dict_cand vrd s0 srcSize gDictEndIndex lDictEndIndex ip (get dh8 (hash8p vrd ip))) as [f8|] eqn:E8.
    - destruct (f_ml f8 >=? MINMATCH); [|discriminate]. intros Hf; inversion Hf; subst f.
      eapply dict_cand_sound; [exact Hip | lia | apply Hd8 | exact E8].
    - destruct (dict_cand vrd s0 srcSize gDictEndIndex lDictEndIndex ip (get dh4 (hash4p vrd ip))) as [f4|] eqn:E4; [|discriminate].
      destruct (f_ml f4 >=? MINMATCH); [|discriminate]. intros Hf; inversion Hf; subst f.
      eapply dict_cand_sound; [exact Hip | lia | apply Hd4 | exact E4].
  Qed.
End MidDictSound.

Print Assumptions dict_search_sound.

(* the parser with the dictionary-context search plugged in *)
Theorem mid_compress_dictctx_sound :
  forall vrd lim prefixIdx dictIdx s0 srcSize maxOut lo dh4 dh8 dDictLimit lDictEndIndex h4 h8,
    (forall a, 0 <= vrd a < 256) ->
    0 <= dictIdx /\ dictIdx <= prefixIdx /\ prefixIdx <= s0 /\ s0 + srcSize < M32 -> 0 <= srcSize ->
    dtab_ok dDictLimit lDictEndIndex dh4 -> dtab_ok dDictLimit lDictEndIndex dh8 ->
    65536 <= dDictLimit <= lDictEndIndex /\ lDictEndIndex <= 1073741824 + 131072 ->
    0 <= lo /\ lo <= dictIdx - (lDictEndIndex - dDictLimit) ->
    tab_lt h4 s0 -> tab_lt h8 s0 ->
    RSpec vrd lim s0 srcSize lo
          (mid_compress vrd lim prefixIdx dictIdx s0 srcSize maxOut (dict_search vrd s0 srcSize dictIdx dh4 dh8 lDictEndIndex) h4 h8).
Proof.
  intros vrd lim prefixIdx dictIdx s0 srcSize maxOut lo dh4 dh8 dDictLimit lDictEndIndex h4 h8 Hb Hidx Hsz D4 D8 Hdl Hlo T4 T8.
  apply mid_compress_sound; try assumption; [lia|].
  intros ip f Hip Hf.
  eapply (dict_search_sound vrd s0 srcSize dictIdx lo dh4 dh8 dDictLimit lDictEndIndex D4 D8 Hdl); [lia | exact Hip | exact Hf].
Qed.
Print Assumptions mid_compress_dictctx_sound.
