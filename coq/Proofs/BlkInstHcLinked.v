(* FrameC's block compressor instantiated with the model of LZ4_compress_HC_continue at levels 3..12 (Model.HcTabStream /
   Model.HcOptStream: hash chain and optimal parser on one stream model), i.e. what lz4frame.c calls from level 3 on for
   LINKED blocks (LZ4F_compressBlockHC_continue), with the capacity srcSize-1.
   Same explicit memory-model glue as Proofs.BlkInstFastLinked: the oracle gives memory, stream context, block address and the
   byte history designated by the context; the instance compresses only if that is consistent with the block and the
   history FrameC offers.  The invariants asked of the oracle are those every legal stream session maintains
   (C11_hc_opt_stream; the history invariant of the EFFECTIVE context is what C11_hc_opt_write_block provides).
   Not covered: level 2 (LZ4MID streaming has its own model, C11_hc_mid_stream), and an attached CDict at HC levels (the
   dictionary-context search is outside Model.HcTabStream). *)
From Coq Require Import ZArith List Lia Bool.
From LZ4V Require Import Gen.Consts Spec.BlockSpec Model.Mem Model.Fast Model.FastApi Model.FrameC.
From LZ4V Require Import Model.HcEmit Model.HcMid Model.HcMidStream Proofs.HcMidStreamProofs Proofs.HcMidStreamHist.
From LZ4V Require Import Model.HcChain Model.HcChainApi Model.HcChainStream Proofs.HcChainStreamProofs Proofs.HcChainStreamHist.
From LZ4V Require Import Model.HcOpt Model.HcOptApi Model.HcTabStream Model.HcOptStream Proofs.HcTabStreamProofs Proofs.HcOptStreamProofs.
From LZ4V Require Import Proofs.FastStreamMem Proofs.FrameCExamples Proofs.FrameCTheorems Proofs.FrameRoundTrip Proofs.BlkInst Proofs.ParserBytesStream.
Import ListNotations.
Local Open Scope Z_scope.

Record horc := mkHO { ho_m : mem; ho_c : tctx; ho_src : Z; ho_H : list Z }.

Definition horc_ok (o : horc) : Prop :=
  hmem_ok (ho_m o) /\ ts_ok (ho_c o) /\ k_dirty (ts_core (ho_c o)) = false /\ 0 < ho_src o /\
  (forall n ke cte, ts_effective lvl_all (ho_m o) (ho_c o) (ho_src o) n = Some (ke, cte) -> hhist_inv (ho_m o) ke (ho_H o)).

Definition horc_consistent (o : horc) (h x : list byte) : bool :=
  list_eqb x (load_list (ho_m o) (ho_src o) (length x)) && list_eqb h (lastZ FC_64KB (ho_H o)).

Definition blk_hc_linked (st : nat -> horc) (n : nat) (h x : list byte) : option (list byte) :=
  let o := st n in
  if blk_guard x && horc_consistent o h x then
    match os_continue (ho_m o) (ho_c o) (ho_src o) (len x) (len x - 1) with
    | Some (TRes ret consumed out hw c') => blk_out ret out
    | None => None
    end
  else None.

Theorem blk_hc_linked_contract st : (forall n, horc_ok (st n)) -> blk_contract strict_valid (blk_hc_linked st).
Proof.
  intros Hst n h x c. unfold blk_hc_linked. cbv zeta.
  destruct (blk_guard x && horc_consistent (st n) h x) eqn:G; [|discriminate].
  apply andb_true_iff in G. destruct G as [G Gc]. destruct (guard_facts x G) as (Gb & Gn).
  unfold horc_consistent in Gc. apply andb_true_iff in Gc. destruct Gc as [Gx Gh].
  apply list_eqb_eq in Gx. apply list_eqb_eq in Gh.
  destruct (Hst n) as (O1 & O2 & O3 & O4 & O5).
  unfold os_continue, ts_continue.
  set (lim := if len x - 1 <? compressBound (len x) then LimitedOutput else NotLimited).
  assert (Hlim : lim <> FillOutput) by (subst lim; destruct (len x - 1 <? compressBound (len x)); discriminate).
  destruct (ts_continue_generic blk_all lvl_all (ho_m (st n)) (ho_c (st n)) (ho_src (st n)) (len x) (len x - 1) lim) as [[ret consumed out hw c']|] eqn:E; [|discriminate].
  intros H. destruct (blk_out_some _ _ _ H) as (Hp & ->).
  destruct (os_continue_generic_sound (ho_m (st n)) (ho_c (st n)) (ho_src (st n)) (len x) (len x - 1) lim ret consumed out hw c'
              O1 O2 O3 O4 ltac:(lia) ltac:(lia) E) as (ke & cte & He & Hr & _ & _ & Hpost).
  pose proof (ts_call_decodes (ho_m (st n)) ke (ho_src (st n)) (len x) (len x - 1) lim ret consumed out hw c' (ho_H (st n))
                Hr Hpost (O5 _ _ _ He) Hp) as (_ & HV & _).
  specialize (HV Hlim (Z.to_nat 65536) ltac:(lia)).
  destruct Hpost as (_ & _ & _ & _ & _ & _ & Hpos). destruct (Hpos Hp) as (_ & _ & _ & _ & Hc & _).
  rewrite (Hc Hlim) in HV. unfold len in HV. rewrite Nat2Z.id in HV. rewrite <- Gx in HV.
  rewrite Gh. unfold lastZ, FC_64KB. exact HV.
Qed.

Theorem blk_hc_linked_bytes st : (forall n, horc_ok (st n)) -> blk_bytes (blk_hc_linked st).
Proof.
  intros Hst n h x c. unfold blk_hc_linked. cbv zeta.
  destruct (blk_guard x && horc_consistent (st n) h x) eqn:G; [|discriminate].
  apply andb_true_iff in G. destruct G as [G Gc]. destruct (guard_facts x G) as (Gb & Gn).
  destruct (Hst n) as (O1 & O2 & O3 & O4 & O5).
  destruct (os_continue _ _ _ _ _) as [[ret consumed out hw c']|] eqn:E; [|discriminate].
  intros H. destruct (blk_out_some _ _ _ H) as (Hp & ->).
  apply (os_continue_bytes (ho_m (st n)) (ho_c (st n)) (ho_src (st n)) (len x) (len x - 1) ret consumed out hw c' O1 O2 O3 O4 ltac:(lia) ltac:(lia) E).
Qed.

Print Assumptions blk_hc_linked_contract.
