(* Proofs about Model/TPool.v: the circular buffer of threadpool.c is a FIFO queue of capacity
   queueSize-1 (= the depth given to TPool_create); isQueueFull / queueEmpty say what they should. *)
From Coq Require Import List Bool Arith Lia.
From LZ4V Require Import Model.TPool.
Import ListNotations.

Lemma mod_add_cases : forall H d s, 0 < s -> d < s ->
  (H + d) mod s = if H mod s + d <? s then H mod s + d else H mod s + d - s.
Proof.
  intros H d s Hs Hd.
  rewrite <- (Nat.add_mod_idemp_l H d s) by lia.
  pose proof (Nat.mod_upper_bound H s ltac:(lia)) as Hr.
  set (r := H mod s) in *. clearbody r.
  destruct (r + d <? s) eqn:E.
  - apply Nat.ltb_lt in E. apply Nat.mod_small. exact E.
  - apply Nat.ltb_ge in E.
    symmetry. apply (Nat.mod_unique (r + d) s 1 (r + d - s)); lia.
Qed.

(* two positions less than a full turn apart are different slots *)
Lemma mod_neq : forall H d s, 0 < d -> d < s -> (H + d) mod s <> H mod s.
Proof.
  intros H d s Hd Hs. rewrite (mod_add_cases H d s) by lia.
  pose proof (Nat.mod_upper_bound H s ltac:(lia)).
  destruct (H mod s + d <? s) eqn:E.
  - lia.
  - apply Nat.ltb_ge in E. lia.
Qed.

Lemma mod_neq2 : forall a b s, a < b -> b - a < s -> a mod s <> b mod s.
Proof.
  intros a b s Hab Hs. replace b with (a + (b - a)) by lia.
  intros E. symmetry in E. revert E. apply mod_neq; lia.
Qed.

Lemma nth_set_nth_eq : forall (A : Type) (l : list A) n x d, n < length l -> nth n (set_nth n x l) d = x.
Proof.
  induction l as [|a l IH]; intros n x d H; cbn [length] in H; [lia|].
  destruct n; cbn [set_nth nth]; [reflexivity|]. apply IH. lia.
Qed.

Lemma nth_set_nth_neq : forall (A : Type) (l : list A) n m x d, n <> m -> nth m (set_nth n x l) d = nth m l d.
Proof.
  induction l as [|a l IH]; intros n m x d H.
  - destruct n; reflexivity.
  - destruct n, m; cbn [set_nth nth]; try reflexivity; try lia. apply IH. lia.
Qed.

Lemma set_nth_length : forall (A : Type) (l : list A) n x, length (set_nth n x l) = length l.
Proof.
  induction l as [|a l IH]; intros n x; destruct n; cbn [set_nth length]; try reflexivity. rewrite IH. reflexivity.
Qed.

Section Ring.
Variable J : Type.

(* [ring_ok p l]: the queue of p holds exactly the jobs l, oldest first.  H = number of pops so far. *)
Definition ring_ok (p : pool J) (l : list J) : Prop :=
  exists H : nat,
    2 <= q_size p /\ length (q_arr p) = q_size p /\
    q_head p = H mod q_size p /\ q_tail p = (H + length l) mod q_size p /\
    length l < q_size p /\
    q_empty p = (length l =? 0) /\
    (forall i j, nth_error l i = Some j -> nth ((H + i) mod q_size p) (q_arr p) None = Some j).

Lemma ring_create : forall nb depth, 1 <= depth -> ring_ok (pool_create nb depth) [].
Proof.
  intros nb depth Hd. exists 0. unfold pool_create. cbn [q_size q_arr q_head q_tail q_empty length].
  rewrite repeat_length. repeat split; try lia.
  - rewrite Nat.mod_0_l by lia. reflexivity.
  - cbn. rewrite Nat.mod_0_l by lia. reflexivity.
  - intros i j H. destruct i; discriminate.
Qed.

Lemma ring_empty : forall p l, ring_ok p l -> (q_empty p = true <-> l = []).
Proof.
  intros p l [H [_ [_ [_ [_ [_ [E _]]]]]]]. rewrite E. destruct l; cbn [length Nat.eqb]; split; intros; congruence.
Qed.

Lemma ring_full : forall p l, ring_ok p l -> isQueueFull p = (S (length l) =? q_size p).
Proof.
  intros p l [H [Hs [_ [Hh [Ht [Hl _]]]]]]. unfold isQueueFull.
  assert (E1 : (1 <? q_size p) = true) by (apply Nat.ltb_lt; lia). rewrite E1, Hh, Ht.
  rewrite Nat.add_mod_idemp_l by lia.
  replace (H + length l + 1) with (H + S (length l)) by lia.
  destruct (S (length l) =? q_size p) eqn:E.
  - apply Nat.eqb_eq in E. rewrite <- E.
    replace (H + S (length l)) with (H + 1 * S (length l)) by lia.
    rewrite Nat.mod_add by lia. apply Nat.eqb_refl.
  - apply Nat.eqb_neq in E. apply Nat.eqb_neq. intros C. symmetry in C. revert C. apply mod_neq; lia.
Qed.

Lemma ring_push : forall p l j, ring_ok p l -> S (length l) < q_size p -> ring_ok (pool_push p j) (l ++ [j]).
Proof.
  intros p l j [H [Hs [Ha [Hh [Ht [Hl [He Hn]]]]]]] Hroom.
  exists H. unfold pool_push. cbn [q_size q_arr q_head q_tail q_empty].
  rewrite set_nth_length, app_length. cbn [length].
  repeat split; try lia; try assumption.
  - rewrite Ht, Nat.add_mod_idemp_l by lia. f_equal. lia.
  - symmetry. apply Nat.eqb_neq. lia.
  - intros i x Hi. rewrite Ht.
    destruct (Nat.lt_ge_cases i (length l)) as [Hlt|Hge].
    + rewrite nth_error_app1 in Hi by exact Hlt.
      rewrite nth_set_nth_neq; [apply Hn; exact Hi|].
      apply not_eq_sym. apply mod_neq2; lia.
    + rewrite nth_error_app2 in Hi by exact Hge.
      destruct (i - length l) as [|k] eqn:Ek; [|destruct k; discriminate].
      cbn in Hi. injection Hi as <-. replace i with (length l) by lia.
      apply nth_set_nth_eq. rewrite Ha. apply Nat.mod_upper_bound. lia.
Qed.

Lemma ring_pop : forall p j l, ring_ok p (j :: l) ->
  exists p', pool_pop p = Some (j, p') /\ ring_ok p' l /\
             n_busy p' = S (n_busy p) /\ t_limit p' = t_limit p /\ shut p' = shut p /\
             push_w p' = push_w p /\ pop_w p' = pop_w p /\ q_size p' = q_size p.
Proof.
  intros p j l [H [Hs [Ha [Hh [Ht [Hl [He Hn]]]]]]].
  unfold pool_pop. rewrite Hh. specialize (Hn 0 j eq_refl) as H0. rewrite Nat.add_0_r in H0. rewrite H0.
  eexists. split; [reflexivity|]. cbn [n_busy t_limit shut push_w pop_w q_size].
  split; [|repeat split; lia].
  exists (S H). cbn [q_size q_arr q_head q_tail q_empty]. cbn [length] in *.
  repeat split; try lia; try assumption.
  - rewrite Nat.add_mod_idemp_l by lia. f_equal. lia.
  - rewrite Ht. f_equal. lia.
  - rewrite Nat.add_mod_idemp_l by lia. rewrite Ht.
    replace (H + 1) with (S H) by lia. replace (H + S (length l)) with (S H + length l) by lia.
    destruct (length l =? 0) eqn:E.
    + apply Nat.eqb_eq in E. rewrite E, Nat.add_0_r. apply Nat.eqb_refl.
    + apply Nat.eqb_neq in E. apply Nat.eqb_neq. apply not_eq_sym. apply mod_neq; lia.
  - intros i x Hi. replace (S H + i) with (H + S i) by lia. apply Hn. exact Hi.
Qed.

(* the observation function [q_list] (used by the ownership tests of Model/Pipeline.v) shows exactly l *)
Lemma ring_from_spec : forall arr s n H, 0 < s ->
  ring_from J arr s (H mod s) n = map (fun i => nth ((H + i) mod s) arr None) (seq 0 n).
Proof.
  intros arr s n. induction n as [|n IH]; intros H Hs; [reflexivity|].
  cbn [ring_from seq map]. rewrite Nat.add_0_r. f_equal.
  rewrite Nat.add_mod_idemp_l by lia. rewrite (IH (H + 1)) by lia. rewrite <- seq_shift, map_map.
  apply map_ext. intros i. f_equal. f_equal. lia.
Qed.

Lemma ring_q_len : forall p l, ring_ok p l -> q_len p = length l.
Proof.
  intros p l [H [Hs [_ [Hh [Ht [Hl [He _]]]]]]]. unfold q_len. rewrite He.
  destruct (length l =? 0) eqn:E; [apply Nat.eqb_eq in E; lia|]. apply Nat.eqb_neq in E.
  rewrite Hh, Ht. rewrite (mod_add_cases H (length l) (q_size p)) by lia.
  pose proof (Nat.mod_upper_bound H (q_size p) ltac:(lia)).
  destruct (H mod q_size p + length l <? q_size p) eqn:E2.
  - assert (E3 : (H mod q_size p <? H mod q_size p + length l) = true) by (apply Nat.ltb_lt; lia).
    rewrite E3. lia.
  - apply Nat.ltb_ge in E2.
    assert (E3 : (H mod q_size p <? H mod q_size p + length l - q_size p) = false) by (apply Nat.ltb_ge; lia).
    rewrite E3. lia.
Qed.

Lemma ring_q_list : forall p l, ring_ok p l -> q_list p = map Some l.
Proof.
  intros p l R. unfold q_list. rewrite (ring_q_len p l R).
  destruct R as [H [Hs [_ [Hh [_ [_ [_ Hn]]]]]]]. rewrite Hh, ring_from_spec by lia.
  clear Hh. revert H Hn. induction l as [|j l IH]; intros H Hn; [reflexivity|].
  cbn [length seq map]. f_equal.
  - rewrite Nat.add_0_r. specialize (Hn 0 j eq_refl). rewrite Nat.add_0_r in Hn. exact Hn.
  - rewrite <- seq_shift, map_map. rewrite <- (IH (S H)).
    + apply map_ext. intros i. f_equal. f_equal. lia.
    + intros i x Hi. replace (S H + i) with (H + S i) by lia. apply Hn. exact Hi.
Qed.

(* setters that do not touch the ring *)
Lemma ring_ok_ext : forall p p' l, ring_ok p l ->
  q_arr p' = q_arr p -> q_head p' = q_head p -> q_tail p' = q_tail p -> q_size p' = q_size p -> q_empty p' = q_empty p ->
  ring_ok p' l.
Proof.
  intros p p' l [H R] Ea Eh Et Es Ee. exists H. rewrite Ea, Eh, Et, Es, Ee. exact R.
Qed.

End Ring.
Arguments ring_ok {J}.
