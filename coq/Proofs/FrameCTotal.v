(* Totality of the compressor model on legal sessions: with preferences in range (and a raw dictionary of
   at most INT_MAX bytes) compressBegin succeeds; inside a frame every compressUpdate / uncompressedUpdate
   (independent blocks) / flush succeeds; compressEnd succeeds exactly when a declared content size is the
   real one.  (Capacities are outside this model: Model.FrameCSizes / property C10.)  So "a session in
   which no call reports an error" in C03/C07 is every legal session. *)
From Coq Require Import ZArith List Lia Bool.
From Coq Require Import ZifyBool.
From LZ4V Require Import Spec.BlockSpec Spec.XXH32 Spec.FrameSpec Gen.Consts Model.FrameC.
From LZ4V Require Import Proofs.BlockSpecProofs Proofs.BlockHistExt Proofs.FrameCBytes Proofs.FrameCBlocks
     Proofs.FrameCProofs Proofs.FrameCTheorems.
Import ListNotations.
Local Open Scope Z_scope.
Set Warnings "-abstract-large-number".

Definition dict_fits (dk : dictkind) : Prop :=
  match dk with UsingDict d => len d <= FC_INT_MAX | _ => True end.

Lemma begin_succeeds : forall c0 po dk,
  prefs_opt_ok po -> dict_fits dk -> exists hdr c1, compressBegin c0 po dk = (Out hdr, c1).
Proof.
  intros c0 po dk Hpo Hd.
  set (p0 := match po with Some p => p | None => prefs_null end).
  assert (Hp0 : prefs_ok p0) by (unfold p0; destruct po; [exact Hpo|exact prefs_null_ok]).
  set (p := if p_bsid p0 =? 0 then set_bsid p0 LZ4F_BLOCKSIZEID_DEFAULT else p0).
  assert (Hb : 4 <= p_bsid p <= 7).
  { unfold p. destruct Hp0 as [Hb _]. destruct (Z.eqb_spec (p_bsid p0) 0); cbn; unfold LZ4F_BLOCKSIZEID_DEFAULT; lia. }
  destruct (bsid_size_ex _ Hb) as [maxb Hm].
  pose proof (bsid_size_range _ _ Hm) as Hr.
  assert (Hgen : forall dictBuffer cdict,
            match dictBuffer with Some d => len d <= FC_INT_MAX | None => True end ->
            exists hdr c1, compressBegin_internal c0 dictBuffer cdict po = (Out hdr, c1)).
  { intros dictBuffer cdict Hl. unfold compressBegin_internal. cbv zeta. fold p0. fold p.
    rewrite (getBlockSize_spec _ _ Hm).
    replace (isError maxb) with false by (unfold isError, errZ, U64, FC_ERR_maxCode; lia).
    destruct dictBuffer as [d|].
    - replace (FC_INT_MAX <? len d) with false by lia. eexists. eexists. reflexivity.
    - eexists. eexists. reflexivity. }
  unfold compressBegin. destruct dk as [|d|d]; apply Hgen; cbn in *; auto.
Qed.

Section Total.
  Variable blk : nat -> list byte -> list byte -> option (list byte).
  Variable bdec : list byte -> list byte -> option (list byte).
  Hypothesis blk_ok : forall n h x c, blk n h x = Some c -> bdec h c = Some x.
  Hypothesis bdec_ext : forall h' h c x, bdec h c = Some x -> bdec (h' ++ h) c = Some x.

  Lemma flush_succeeds : forall dk p maxb X c bl,
    prefs_norm p -> 0 < maxb < 2147483648 -> Inv bdec dk p maxb X c bl ->
    exists o c', flush blk c = (Out o, c').
  Proof.
    intros dk p maxb X c bl Hp Hmax HI.
    destruct (flush blk c) as [r c'] eqn:E.
    destruct (flush_inv blk bdec blk_ok bdec_ext dk p maxb X c bl r c' Hp Hmax HI E) as [bl' [Hr _]].
    subst r. eexists. eexists. reflexivity.
  Qed.

  Lemma update_succeeds : forall dk p maxb X c bl src bc,
    prefs_norm p -> 0 < maxb < 2147483648 -> Inv bdec dk p maxb X c bl ->
    exists o c', compressUpdateImpl blk c src bc = (Out o, c').
  Proof.
    intros dk p maxb X c bl src bc Hp Hmax HI.
    pose proof (core_stage _ _ _ _ _ _ (inv_core _ _ _ _ _ _ _ HI)) as Hst.
    pose proof (core_maxb _ _ _ _ _ _ (inv_core _ _ _ _ _ _ _ HI)) as Hmb.
    destruct (flush_succeeds dk p maxb X c bl Hp Hmax HI) as [of [cf Ef]].
    unfold compressUpdateImpl. cbv zeta. rewrite Hst. cbn [Z.eqb Pos.eqb negb]. rewrite Ef.
    set (st0 := if negb (c_mode c =? bc) then inl (of, set_mode cf bc) else inl ([], c)
                : (list byte * cctx) + (res * cctx)).
    assert (E0 : exists o0 c0, st0 = inl (o0, c0)).
    { unfold st0. destruct (negb (c_mode c =? bc)); eexists; eexists; reflexivity. }
    destruct E0 as [o0 [c0 E0]]. fold st0. rewrite E0.
    destruct (if 0 <? len (c_tmp c0) then _ else _) as [[o1 c1] rest1].
    pose proof (fullBlocks_fuel blk (S (length rest1)) c1
                  (selectCompression (p_blockMode (c_prefs c)) (p_level (c_prefs c)) bc) (c_maxBlock c) rest1
                  ltac:(lia) ltac:(lia)) as Hfb.
    destruct (fullBlocks blk (S (length rest1)) c1 _ (c_maxBlock c) rest1) as [[[o2 c2] rest2]|]; [|contradiction].
    destruct (if negb (p_autoFlush (c_prefs c) =? 0) && (0 <? len rest2) then _ else _) as [[o3 c3] rest3].
    eexists. eexists. reflexivity.
  Qed.

  Lemma end_succeeds : forall dk p maxb X c bl,
    prefs_norm p -> 0 < maxb < 2147483648 -> Inv bdec dk p maxb X c bl -> len X < U64 ->
    (p_contentSize p = 0 \/ p_contentSize p = len X) ->
    exists tail c', compressEnd blk c = (Out tail, c').
  Proof.
    intros dk p maxb X c bl Hp Hmax HI HX Hcs.
    unfold compressEnd.
    destruct (flush blk c) as [r c1] eqn:Ef.
    destruct (flush_inv blk bdec blk_ok bdec_ext dk p maxb X c bl r c1 Hp Hmax HI Ef) as [bl' [Hr [HI1 _]]].
    subst r. cbv zeta.
    destruct HI1 as [[H1 _ _ _ _ _ _] _ _ _ Htot _].
    assert (Hpr : c_prefs (set_stage c1 0) = p) by (cbn; exact H1).
    assert (Htot2 : c_totalIn (set_stage c1 0) = c_totalIn c1) by reflexivity.
    rewrite Hpr, Htot2.
    assert (Eok : negb (p_contentSize p =? 0) && negb (p_contentSize p =? c_totalIn c1) = false).
    { destruct Hcs as [E | E].
      - rewrite E. reflexivity.
      - destruct (Z.eqb_spec (p_contentSize p) 0); [reflexivity|].
        rewrite (Htot n). pose proof (len_nonneg X). rewrite Z.mod_small by lia. rewrite E, Z.eqb_refl. reflexivity. }
    rewrite Eok. eexists. eexists. reflexivity.
  Qed.

  Lemma run_mops_succeeds : forall dk p maxb ms X c bl,
    prefs_norm p -> 0 < maxb < 2147483648 -> Inv bdec dk p maxb X c bl ->
    (forall m, In m ms -> is_uncompressed m = true -> p_blockMode p = 1) ->
    exists body c', run_mops blk c ms = Some (body, c').
  Proof.
    induction ms as [|m ms IH]; intros X c bl Hp Hmax HI Hunc.
    - eexists. eexists. reflexivity.
    - cbn [run_mops].
      assert (Hstep : exists o c1 X1 bl1, step_mop blk c m = (Out o, c1) /\ Inv bdec dk p maxb X1 c1 bl1).
      { destruct m as [s|s|]; cbn [step_mop].
        - destruct (update_succeeds dk p maxb X c bl s FC_LZ4B_COMPRESSED Hp Hmax HI) as [o [c1 E]].
          destruct (update_inv blk bdec blk_ok bdec_ext dk p maxb X c bl s FC_LZ4B_COMPRESSED o c1 Hp Hmax HI (fun _ => eq_refl) E)
            as [bl1 [_ HI1]].
          exists o, c1, (X ++ s), (bl ++ bl1). split; [exact E|exact HI1].
        - assert (Hind : p_blockMode p = 1) by (apply (Hunc (MUncompressed s)); [left; reflexivity|reflexivity]).
          destruct (update_succeeds dk p maxb X c bl s FC_LZ4B_UNCOMPRESSED Hp Hmax HI) as [o [c1 E]].
          destruct (update_inv blk bdec blk_ok bdec_ext dk p maxb X c bl s FC_LZ4B_UNCOMPRESSED o c1 Hp Hmax HI
                               ltac:(intros E0; rewrite E0 in Hind; discriminate) E) as [bl1 [_ HI1]].
          exists o, c1, (X ++ s), (bl ++ bl1). split; [exact E|exact HI1].
        - destruct (flush_succeeds dk p maxb X c bl Hp Hmax HI) as [o [c1 E]].
          destruct (flush_inv blk bdec blk_ok bdec_ext dk p maxb X c bl (Out o) c1 Hp Hmax HI E) as [bl1 [_ [HI1 _]]].
          exists o, c1, X, (bl ++ bl1). split; [exact E|exact HI1]. }
      destruct Hstep as [o [c1 [X1 [bl1 [E HI1]]]]]. rewrite E.
      destruct (IH X1 c1 bl1 Hp Hmax HI1 ltac:(intros m0 Hin; apply Hunc; right; exact Hin)) as [body [c' E2]].
      rewrite E2. eexists. eexists. reflexivity.
  Qed.

  (* every legal session runs to the end *)
  Theorem session_total : forall c0 po dk ms,
    prefs_opt_ok po -> dict_fits dk -> uncompressed_only_if_independent po ms ->
    len (mop_inputs ms) < U64 ->
    (p_contentSize (eff_prefs po) = 0 \/ p_contentSize (eff_prefs po) = len (mop_inputs ms)) ->
    exists F, session blk c0 po dk ms = Some (F, mop_inputs ms).
  Proof.
    intros c0 po dk ms Hpo Hd Hunc HX Hcs. unfold session.
    destruct (begin_succeeds c0 po dk Hpo Hd) as [hdr [c1 Eb]]. rewrite Eb.
    destruct (begin_inv bdec c0 po dk hdr c1 Hpo Eb) as [p [maxb [Ep [Hp [Hmaxb [_ HI]]]]]].
    pose proof (bsid_size_range _ _ Hmaxb) as Hmax.
    unfold uncompressed_only_if_independent in Hunc. rewrite <- Ep in *.
    destruct (run_mops_succeeds dk p maxb ms [] c1 [] Hp Hmax HI Hunc) as [body [c2 Er]]. rewrite Er.
    destruct (run_mops_inv blk bdec blk_ok bdec_ext dk p maxb ms [] c1 [] body c2 Hp Hmax HI Hunc Er) as [bl1 [_ HI2]].
    cbn [app] in HI2.
    destruct (end_succeeds dk p maxb _ c2 bl1 Hp Hmax HI2 HX Hcs) as [tail [c3 Ee]]. rewrite Ee.
    eexists. reflexivity.
  Qed.
End Total.

(* C03 without the proviso "no call reports an error": every legal session produces a frame, and it
   decodes to the input *)
Theorem c03_legal_session : forall blk, blk_contract spec_decode blk ->
  forall c0 po dk ms,
  prefs_opt_ok po -> dict_fits dk -> uncompressed_only_if_independent po ms ->
  len (mop_inputs ms) < U64 ->
  (p_contentSize (eff_prefs po) = 0 \/ p_contentSize (eff_prefs po) = len (mop_inputs ms)) ->
  exists F, session blk c0 po dk ms = Some (F, mop_inputs ms) /\
            frame_decode spec_decode false (dict_of dk) F = Some (mop_inputs ms, []).
Proof.
  intros blk Hblk c0 po dk ms Hpo Hd Hunc HX Hcs.
  destruct (session_total blk spec_decode Hblk spec_decode_ext c0 po dk ms Hpo Hd Hunc HX Hcs) as [F HF].
  exists F. split; [exact HF|].
  exact (c03_roundtrip blk Hblk c0 po dk ms F _ Hpo Hunc HX HF).
Qed.
