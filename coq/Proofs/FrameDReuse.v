(* C19 (decoder half, model level): the end of a frame goes through
   LZ4F_resetDecompressionContext; LZ4F_getFrameInfo consumes exactly the header and reports
   the specification's fields, and leaves the context alone when it fails. *)
From Coq Require Import ZArith List Lia Bool.
From LZ4V Require Import Spec.BlockSpec Spec.XXH32 Spec.FrameSpec Gen.Consts Model.FrameD.
From LZ4V Require Import Proofs.FrameDHeader Proofs.FrameDProofs.
Import ListNotations.
Local Open Scope Z_scope.
Local Opaque xxh32.

Definition is_reset (s : dstate) : Prop := exists s0, s = reset s0.

(* ---- a hint of 0 is only ever returned together with a reset ---- *)
Ltac stop0 :=
  repeat (match goal with
          | |- context [if ?c then _ else _] => destruct c eqn:?
          | |- context [match ?x with Some _ => _ | None => _ end] => destruct x
          end); ss; intros H; try discriminate H; try (eexists; reflexivity).

Lemma s0_sframeSize l sel : snd (do_sframeSize l sel) = Stop 0 -> is_reset (l_s (fst (do_sframeSize l sel))).
Proof. unfold do_sframeSize, is_reset. stop0. Qed.
Lemma inj_stop a b : Stop a = Stop b -> a = b.
Proof. intro H; inversion H; reflexivity. Qed.
Lemma s0_storeSFrameSize l : snd (do_storeSFrameSize l) = Stop 0 -> is_reset (l_s (fst (do_storeSFrameSize l))).
Proof.
  unfold do_storeSFrameSize. destruct (_ <? _) eqn:E; [|apply s0_sframeSize].
  ss. intro H. apply inj_stop in H. apply Z.ltb_lt in E. lia.
Qed.
Lemma s0_getSFrameSize l : snd (do_getSFrameSize l) = Stop 0 -> is_reset (l_s (fst (do_getSFrameSize l))).
Proof. unfold do_getSFrameSize. destruct (_ <=? _); [apply s0_sframeSize|apply s0_storeSFrameSize]. Qed.
Lemma s0_skip l : snd (do_skipSkippable l) = Stop 0 -> is_reset (l_s (fst (do_skipSkippable l))).
Proof.
  unfold do_skipSkippable, is_reset. destruct (negb _) eqn:E; ss; intro H.
  - apply inj_stop in H. rewrite H in E. discriminate E.
  - eexists; reflexivity.
Qed.
Lemma s0_checkSuffix l sel : snd (do_checkSuffix l sel) = Stop 0 -> is_reset (l_s (fst (do_checkSuffix l sel))).
Proof. unfold do_checkSuffix, is_reset. stop0. Qed.
Lemma s0_storeSuffix l : snd (do_storeSuffix l) = Stop 0 -> is_reset (l_s (fst (do_storeSuffix l))).
Proof.
  unfold do_storeSuffix. destruct (_ <? _) eqn:E; [|apply s0_checkSuffix].
  ss. intro H. apply inj_stop in H. apply Z.ltb_lt in E. lia.
Qed.
Lemma s0_getSuffix l : snd (do_getSuffix l) = Stop 0 -> is_reset (l_s (fst (do_getSuffix l))).
Proof.
  unfold do_getSuffix. destruct (negb _); [ss; discriminate|].
  destruct (_ =? 0); [ss; intros _; eexists; reflexivity|].
  destruct (_ <? _); [apply s0_storeSuffix|apply s0_checkSuffix].
Qed.
Lemma s0_bcc l crc : snd (do_blockChecksum_check l crc) = Stop 0 -> is_reset (l_s (fst (do_blockChecksum_check l crc))).
Proof. unfold do_blockChecksum_check. stop0. Qed.
Lemma s0_getBlockChecksum l : snd (do_getBlockChecksum l) = Stop 0 -> is_reset (l_s (fst (do_getBlockChecksum l))).
Proof.
  unfold do_getBlockChecksum. destruct (_ && _); [apply s0_bcc|].
  destruct (_ <? _); [ss; discriminate|apply s0_bcc].
Qed.
Lemma s0_flushOut o l : snd (do_flushOut o l) = Stop 0 -> is_reset (l_s (fst (do_flushOut o l))).
Proof. unfold do_flushOut. stop0. Qed.
Lemma s0_blockHeader l sel :
  0 <= fi_bcFlag (d_fi (l_s l)) -> snd (do_blockHeader l sel) = Stop 0 -> is_reset (l_s (fst (do_blockHeader l sel))).
Proof.
  intro Hb. unfold do_blockHeader.
  assert (Hn : 0 <= Z.land (rd32 sel) 2147483647) by (apply Z.land_nonneg; right; lia).
  destruct (_ =? 0); [ss; discriminate|]. destruct (_ <? _); [ss; discriminate|].
  destruct (negb _); [destruct (_ =? 0); ss; discriminate|].
  destruct (_ || _); ss; [|discriminate]. intro H. apply inj_stop in H. unfold FD_BHSize, FD_BFSize in H. nia.
Qed.
Lemma s0_storeBlockHeader l :
  0 <= fi_bcFlag (d_fi (l_s l)) -> snd (do_storeBlockHeader l) = Stop 0 -> is_reset (l_s (fst (do_storeBlockHeader l))).
Proof.
  intro Hb. unfold do_storeBlockHeader. destruct (_ <? _) eqn:E.
  - ss. intro H. apply inj_stop in H. apply Z.ltb_lt in E. lia.
  - apply s0_blockHeader. unfold tmpin_write. ss. exact Hb.
Qed.
Lemma s0_getBlockHeader l :
  0 <= fi_bcFlag (d_fi (l_s l)) -> snd (do_getBlockHeader l) = Stop 0 -> is_reset (l_s (fst (do_getBlockHeader l))).
Proof.
  intro Hb. unfold do_getBlockHeader. destruct (_ <=? _).
  - apply s0_blockHeader. ss. exact Hb.
  - apply s0_storeBlockHeader. ss. exact Hb.
Qed.
Lemma s0_copyDirect o l :
  0 <= d_tmpInTarget (l_s l) -> snd (do_copyDirect o l) = Stop 0 -> is_reset (l_s (fst (do_copyDirect o l))).
Proof.
  intro Ht. unfold do_copyDirect.
  assert (Hb : forall s, 0 <= bcsize s) by (intro s; unfold bcsize, FD_BFSize; destruct (_ =? 0); lia).
  destruct (o_dstnull o); cbv iota beta.
  - destruct (0 =? _) eqn:E; [destruct (_ =? 0); ss; discriminate|].
    ss. intro H. apply inj_stop in H. apply Z.eqb_neq in E.
    specialize (Hb (set_tmpInTarget (l_s l) (d_tmpInTarget (l_s l) - 0))). unfold FD_BHSize in H. lia.
  - ss. pose proof (upd_copy_core (l_s l) (ztake (Z.min (d_tmpInTarget (l_s l)) (Z.min (zlen (l_src l)) (l_cap l))) (l_src l))
                                  (Z.min (d_tmpInTarget (l_s l)) (Z.min (zlen (l_src l)) (l_cap l)))) as C.
    destruct C as (_ & _ & _ & _ & _ & _ & C7 & _). rewrite C7.
    destruct (_ =? d_tmpInTarget (l_s l)) eqn:E; [destruct (_ =? 0); ss; discriminate|].
    ss. intro H. apply inj_stop in H. apply Z.eqb_neq in E.
    match type of H with _ + bcsize ?x + _ = 0 => specialize (Hb x) end. unfold FD_BHSize in H. lia.
Qed.
Lemma s0_storeFrameHeader l : snd (do_storeFrameHeader l) = Stop 0 -> is_reset (l_s (fst (do_storeFrameHeader l))).
Proof.
  unfold do_storeFrameHeader. destruct (_ <? _) eqn:E.
  - ss. intro H. apply inj_stop in H. apply Z.ltb_lt in E. unfold FD_BHSize in H. lia.
  - match goal with |- context [decodeHeader ?s1 true ?h] => destruct (decodeHeader s1 true h) as [s' r] end.
    destruct (r <? 0); ss; discriminate.
Qed.
Lemma s0_getFrameHeader l : snd (do_getFrameHeader l) = Stop 0 -> is_reset (l_s (fst (do_getFrameHeader l))).
Proof.
  unfold do_getFrameHeader. destruct (_ <=? _).
  - destruct (decodeHeader (l_s l) false (l_src l)) as [s' r]. destruct (r <? 0); ss; discriminate.
  - destruct (_ =? 0); [ss; discriminate|]. apply s0_storeFrameHeader.
Qed.

Section Reuse.
Variable bdec : list byte -> list byte -> option (list byte).

Lemma s0_cblock o l sel : snd (do_cblock bdec o l sel) = Stop 0 -> is_reset (l_s (fst (do_cblock bdec o l sel))).
Proof.
  unfold do_cblock.
  match goal with |- context [let '(_, _) := ?x in _] => destruct x as [s0 ok] end.
  destruct (negb ok); [ss; discriminate|].
  match goal with |- context [match ?d with Some c => _ | None => _ end] => destruct d as [c|] end; [|ss; discriminate].
  destruct (_ <=? _); [ss; discriminate|]. apply s0_flushOut.
Qed.

Lemma iter_stop0 o l :
  wf (l_s l) -> snd (iter bdec o l) = Stop 0 -> is_reset (l_s (fst (iter bdec o l))).
Proof.
  intros (Ho & Ha & Hi). unfold iter. unfold stage_inv in Hi.
  assert (B : forall s, past_init s -> 0 <= fi_bcFlag (d_fi s)) by (intros s (_ & _ & [E|E]); rewrite E; lia).
  destruct (d_stage (l_s l)) eqn:Hst.
  - apply s0_getFrameHeader.
  - apply s0_storeFrameHeader.
  - destruct Hi as (H1 & H2).
    destruct (do_init_props (l_s l) Ho Ha H1 H2) as (_ & _ & I3 & _).
    apply s0_getBlockHeader. ss. apply B. exact I3.
  - apply s0_getBlockHeader. apply B. exact Hi.
  - apply s0_storeBlockHeader. apply B. apply Hi.
  - apply s0_copyDirect. apply Hi.
  - apply s0_getBlockChecksum.
  - unfold do_getCBlock. destruct (_ <? _); [ss; discriminate|apply s0_cblock].
  - unfold do_storeCBlock. destruct (_ <? _) eqn:E; [|apply s0_cblock].
    ss. intro H. apply inj_stop in H. apply Z.ltb_lt in E.
    assert (Hb : 0 <= bcsize (tmpin_write (l_s l) (ztake (Z.min (d_tmpInTarget (l_s l) - d_tmpInSize (l_s l)) (zlen (l_src l))) (l_src l))
                                         (Z.min (d_tmpInTarget (l_s l) - d_tmpInSize (l_s l)) (zlen (l_src l)))))
      by (unfold bcsize, FD_BFSize; destruct (_ =? 0); lia).
    unfold FD_BHSize in H. lia.
  - apply s0_flushOut.
  - apply s0_getSuffix.
  - apply s0_storeSuffix.
  - apply s0_getSFrameSize.
  - apply s0_storeSFrameSize.
  - apply s0_skip.
Qed.

Lemma run_stop0 o : forall fuel l l',
  wf (l_s l) -> 0 <= l_cap l -> run bdec fuel o l = (l', FStop 0) -> is_reset (l_s l').
Proof.
  induction fuel as [|fuel IH]; intros l l' Hwf Hc Hr; [discriminate Hr|].
  cbn [run] in Hr.
  pose proof (iter_post bdec o l Hwf Hc) as P. pose proof (iter_stop0 o l Hwf) as S0.
  destruct (iter bdec o l) as [l1 oc]. cbn [fst snd] in *.
  destruct oc as [|h|v].
  - destruct P as [A [W _]]. eapply IH; [exact W| |exact Hr]. unfold acct in A. lia.
  - inversion Hr; subst. apply S0. reflexivity.
  - discriminate Hr.
Qed.

(* LZ4F_decompress returned 0 (frame complete): the context is in the state
   LZ4F_resetDecompressionContext leaves *)
Theorem frame_end_is_reset s src cap o :
  wf s -> 0 <= cap -> r_ret (snd (decompress bdec s src cap o)) = 0 ->
  is_reset (fst (decompress bdec s src cap o)).
Proof.
  intros Hwf Hc. unfold decompress.
  set (s0 := set_skip s (d_skip s || o_skip o)).
  assert (W0 : wf s0) by (apply wf_set_skip; exact Hwf).
  destruct (run bdec (call_fuel src) o (mkL s0 src 0 [] cap)) as [l' f] eqn:ER.
  pose proof (run_post bdec o (call_fuel src) (mkL s0 src 0 [] cap) l' f W0 Hc ER) as (_ & _ & F & R).
  destruct f as [h|v|]; ss.
  - intro H; subst h. exact (run_stop0 o (call_fuel src) (mkL s0 src 0 [] cap) l' W0 Hc ER).
  - intro H; subst v. destruct R as [R|(_ & _ & _ & R)]; lia.
  - intro. pose proof (zlen_nonneg src). assert (Hmu : mu (mkL s0 src 0 [] cap) < Z.of_nat (call_fuel src)).
    { unfold mu, call_fuel; ss. pose proof (rank_range (d_stage s0)). lia. }
    exfalso. apply (F Hmu). reflexivity.
Qed.
End Reuse.

(* ---- LZ4F_getFrameInfo ---- *)
Lemma take_length : forall n (r a b : list byte), take n r = Some (a, b) -> length a = n /\ length r = (n + length b)%nat.
Proof.
  induction n as [|n IH]; intros r a b H; simpl in H.
  - inversion H; subst. simpl. auto.
  - destruct r as [|x r]; [discriminate|]. destruct (take n r) as [[a' b']|] eqn:E; [|discriminate].
    inversion H; subst. destruct (IH _ _ _ E) as [H1 H2]. simpl. split; lia.
Qed.
Lemma take_firstn : forall n (r a b : list byte) k,
  take n r = Some (a, b) -> (n <= k)%nat -> take n (firstn k r) = Some (a, firstn (k - n) b).
Proof.
  induction n as [|n IH]; intros r a b k H Hk; simpl in H.
  - inversion H; subst. simpl. rewrite Nat.sub_0_r. reflexivity.
  - destruct r as [|x r]; [discriminate|]. destruct (take n r) as [[a' b']|] eqn:E; [|discriminate].
    inversion H; subst. destruct k as [|k]; [lia|]. simpl.
    rewrite (IH _ _ _ k E) by lia. reflexivity.
Qed.
Lemma bytes_ok_firstn k (l : list byte) : bytes_ok l = true -> bytes_ok (firstn k l) = true.
Proof.
  unfold bytes_ok. revert l. induction k as [|k IH]; intros l H; [reflexivity|].
  destruct l as [|x l]; [reflexivity|]. simpl in *. apply andb_prop in H. destruct H as [H1 H2].
  rewrite H1. simpl. apply IH. exact H2.
Qed.

Lemma parse_desc_prefix rest d tl :
  parse_desc rest = Some (d, tl) ->
  parse_desc (firstn (length rest - length tl) rest) = Some (d, []) /\ (length tl <= length rest)%nat.
Proof.
  intro H. destruct rest as [|flg [|bd r]]; try discriminate H.
  rewrite parse_desc_factor in H.
  destruct (spec_flags flg bd) as [[[[[[indep bcrc] csz] ccrc] did] bsid]|] eqn:ES; [|discriminate].
  destruct (take (if csz =? 1 then 8%nat else 0%nat) r) as [[cs r1]|] eqn:T1; [|discriminate].
  destruct (take (if did =? 1 then 4%nat else 0%nat) r1) as [[di r2]|] eqn:T2; [|discriminate].
  destruct r2 as [|hc r3]; [discriminate|].
  destruct (hc =? header_checksum (flg :: bd :: cs ++ di)) eqn:EH; [|discriminate].
  inversion H; subst; clear H.
  destruct (take_length _ _ _ _ T1) as [L1 L1']. destruct (take_length _ _ _ _ T2) as [L2 L2'].
  set (n1 := if csz =? 1 then 8%nat else 0%nat) in *. set (n2 := if did =? 1 then 4%nat else 0%nat) in *.
  simpl length in *.
  replace (S (S (length r)) - length tl)%nat with (S (S (n1 + n2 + 1))) by lia.
  split; [|lia]. cbn [firstn]. rewrite parse_desc_factor, ES. fold n1. fold n2.
  rewrite (take_firstn _ _ _ _ (n1 + n2 + 1) T1) by lia.
  replace (n1 + n2 + 1 - n1)%nat with (n2 + 1)%nat by lia.
  rewrite (take_firstn _ _ _ _ (n2 + 1) T2) by lia.
  replace (n2 + 1 - n2)%nat with 1%nat by lia. cbn [firstn]. rewrite EH. reflexivity.
Qed.

Section Info.
Variable bdec : list byte -> list byte -> option (list byte).

(* on a complete, valid header: consumes exactly LZ4F_headerSize, reports the specification's
   fields, returns BHSize, and the context is where LZ4F_decompress would be after the header *)
Theorem getFrameInfo_header : forall s m0 m1 m2 m3 rest d tl,
  d_stage s = GetFrameHeader ->
  bytes_ok rest = true -> le_val [m0; m1; m2; m3] = FD_MAGICNUMBER ->
  parse_desc rest = Some (d, tl) ->
  let src := m0 :: m1 :: m2 :: m3 :: rest in
  getFrameInfo bdec s src
  = (accept_state s d, mkI (headerSize false src) (Some (fi_of_desc d)) FD_BHSize false)
  /\ headerSize false src = zlen src - zlen tl.
Proof.
  intros s m0 m1 m2 m3 rest d tl Hst Hb Hm Hp src.
  pose proof (headerSize_spec m0 m1 m2 m3 rest d tl Hb Hm Hp) as HS. fold src in HS.
  split; [|exact HS].
  destruct (parse_desc_prefix rest d tl Hp) as [PP PL].
  set (k := (length rest - length tl)%nat) in *.
  assert (Hh : headerSize false src = 4 + Z.of_nat k).
  { rewrite HS. unfold src, zlen, k. simpl length. lia. }
  assert (Htr : ztake (headerSize false src) src = m0 :: m1 :: m2 :: m3 :: firstn k rest).
  { rewrite Hh. unfold ztake, src. replace (Z.to_nat (4 + Z.of_nat k)) with (S (S (S (S k)))) by lia. reflexivity. }
  assert (Hk7 : FD_minFHSize <= zlen (m0 :: m1 :: m2 :: m3 :: firstn k rest)).
  { destruct (firstn k rest) as [|f [|b [|c r]]] eqn:EF; try discriminate PP.
    - unfold parse_desc in PP. simpl in PP.
      repeat (match type of PP with (if ?c then _ else _) = _ => destruct c; try discriminate PP end).
      destruct ((f / 8) mod 2 =? 1); simpl in PP; try discriminate PP.
      destruct (f mod 2 =? 1); simpl in PP; discriminate PP.
    - unfold zlen, FD_minFHSize. simpl length. lia. }
  pose proof (decodeHeader_iff s false m0 m1 m2 m3 (firstn k rest) (bytes_ok_firstn k rest Hb) Hm Hk7) as DI.
  rewrite PP in DI. destruct DI as [DI _].
  unfold getFrameInfo. rewrite Hst.
  replace (FD_dstage_storeFrameHeader <? stage_num GetFrameHeader) with false by (vm_compute; reflexivity).
  replace (stage_num GetFrameHeader =? FD_dstage_storeFrameHeader) with false by (vm_compute; reflexivity).
  assert (H7 : 7 <= headerSize false src).
  { rewrite Hh. unfold zlen, FD_minFHSize in Hk7. simpl length in Hk7. rewrite firstn_length in *. unfold k in *. lia. }
  replace (headerSize false src <? 0) with false by (symmetry; apply Z.ltb_ge; lia).
  replace (zlen src <? headerSize false src) with false
    by (symmetry; apply Z.ltb_ge; rewrite HS; pose proof (zlen_nonneg tl); lia).
  rewrite Htr, DI.
  replace (zlen (m0 :: m1 :: m2 :: m3 :: firstn k rest) - zlen []) with (headerSize false src).
  2:{ rewrite Hh. unfold zlen. simpl length. rewrite firstn_length. unfold k. lia. }
  replace (headerSize false src <? 0) with false by (symmetry; apply Z.ltb_ge; lia).
  replace (d_fi (accept_state s d)) with (fi_of_desc d) by (unfold accept_state; destruct (f_csize d); reflexivity).
  reflexivity.
Qed.

(* on failure before any frame was started: nothing consumed, nothing but the frameInfo
   scratch area changed (so decoding can start or go on as if the call had not happened) *)
Theorem getFrameInfo_error_unchanged : forall s src,
  d_stage s = GetFrameHeader \/ d_stage s = StoreFrameHeader ->
  let '(s', r) := getFrameInfo bdec s src in
  i_ret r < 0 -> i_consumed r = 0 /\ (s' = s \/ s' = set_fi s fi_zero).
Proof.
  intros s src Hst. unfold getFrameInfo.
  replace (FD_dstage_storeFrameHeader <? stage_num (d_stage s)) with false
    by (destruct Hst as [-> | ->]; vm_compute; reflexivity).
  destruct (stage_num (d_stage s) =? FD_dstage_storeFrameHeader); [ss; auto|].
  destruct (headerSize false src <? 0); [ss; auto|].
  destruct (zlen src <? headerSize false src); [ss; auto|].
  destruct (decodeHeader s false (ztake (headerSize false src) src)) as [s' r] eqn:ED.
  pose proof (decodeHeader_cases _ _ _ _ _ ED) as (_ & _ & _ & D).
  destruct (r <? 0) eqn:ER; ss.
  - intros _. split; [reflexivity|]. apply Z.ltb_lt in ER.
    pose proof (zlen_nonneg (ztake (headerSize false src) src)).
    destruct D as [D|[D|[D|[D|D]]]]; [tauto| | | |]; exfalso.
    + destruct D as (D & _). discriminate D.
    + lia.
    + destruct D as (_ & _ & _ & _ & D & _). lia.
    + unfold FD_minFHSize in D. lia.
  - intro H. unfold FD_BHSize in H. lia.
Qed.
End Info.

(* LZ4F_resetDecompressionContext from any reachable state, failed or not *)
Theorem reset_restores_invariant bdec s failed :
  Reach bdec s failed -> wf (reset s) /\ Reach bdec (reset s) false.
Proof.
  intro R. split; [|apply R_reset with (b := failed); exact R].
  destruct (reach_wf bdec s failed R) as [[H1 H2] _]. apply wf_reset; assumption.
Qed.
