(* In-place decoding (lz4.h "In-place compression and decompression"): the block sits at the END
   of a buffer of LZ4_DECOMPRESS_INPLACE_BUFFER_SIZE(d) = d + LZ4_DECOMPRESS_INPLACE_MARGIN(d)
   bytes and is decoded to its START.  The decoder writes ahead of its output cursor (the
   wild copies of Model.Mem: at most 31 bytes past the end of a match, LZ4_wildCopy32), so
   the scheme is correct exactly when the distance between the input cursor and the output
   cursor never drops below that slack.

   This file proves the arithmetic for EVERY block of the specification: after any number of
   sequences has been consumed, (input cursor - output cursor) >= INPLACE_MARGIN_BASE - 2,
   whence >= 31 with the generated constant.  The argument is a potential per sequence:
   256 * (decoded bytes - encoded bytes) + encoded bytes >= 0 for a full sequence (a match
   gives at least 1 byte more than its 3..n bytes of encoding; a literal run costs one length
   byte per 255 literals), and >= -495 for the last literals. *)
From Coq Require Import ZArith List Lia Bool ZifyBool.
From LZ4V Require Import Gen.Consts Spec.BlockSpec Model.Mem Proofs.FastCap.
Import ListNotations.
Local Open Scope Z_scope.
Ltac Zify.zify_post_hook ::= Z.div_mod_to_equations.

(* LZ4_DECOMPRESS_INPLACE_MARGIN(n) = (n >> 8) + LZ4_DECOMPRESS_INPLACE_MARGIN(0); both the
   base and the value at 65536 are read from lz4.h by the translator, and the harness checks
   that the macro has this shape on a sweep of sizes. *)
Definition inplace_margin (n : Z) : Z := n / 256 + INPLACE_MARGIN_BASE.

Definition lastlen (last : list byte) : Z := 1 + extlen (Z.of_nat (length last)) + Z.of_nat (length last).
Definition enc_len (ss : list seq) (last : list byte) : Z := sumlen ss + lastlen last.
Definition mlens_ok (ss : list seq) : Prop := Forall (fun q => 4 <= s_mlen q) ss.

Lemma enc_len_spec ss last : Z.of_nat (length (encode_block ss last)) = enc_len ss last.
Proof.
  unfold encode_block, enc_len, lastlen. rewrite app_length, Nat2Z.inj_add, concat_encode_length, encode_last_length. reflexivity.
Qed.

Lemma seq_potential q : 4 <= s_mlen q ->
  0 <= 256 * (Z.of_nat (length (s_lits q)) + s_mlen q - seqlen q) + seqlen q.
Proof.
  intros Hm. unfold seqlen, extlen.
  set (ll := Z.of_nat (length (s_lits q))). assert (0 <= ll) by (subst ll; lia). clearbody ll.
  set (ml := s_mlen q) in *. clearbody ml.
  destruct (ll <? 15) eqn:E1; destruct (ml - 4 <? 15) eqn:E2; lia.
Qed.

Lemma last_potential last :
  -495 <= 256 * (Z.of_nat (length last) - lastlen last) + lastlen last.
Proof.
  unfold lastlen, extlen.
  set (ll := Z.of_nat (length last)). assert (0 <= ll) by (subst ll; lia). clearbody ll.
  destruct (ll <? 15) eqn:E1; lia.
Qed.

Lemma suffix_potential ss last : mlens_ok ss ->
  -495 <= 256 * (total_len ss last - enc_len ss last) + enc_len ss last.
Proof.
  intros H. induction H as [|q r Hq Hr IH].
  - unfold total_len, enc_len. cbn [fold_right sumlen]. pose proof (last_potential last). lia.
  - unfold total_len, enc_len in *. cbn [fold_right sumlen]. pose proof (seq_potential q Hq). lia.
Qed.

Lemma total_len_app a b last :
  total_len (a ++ b) last = total_len a [] + total_len b last.
Proof.
  unfold total_len. induction a as [|q r IH].
  - cbn [app fold_right length]. change (Z.of_nat 0) with 0. lia.
  - cbn [app fold_right]. rewrite IH. lia.
Qed.

(* The cursors: with the block placed at the end of a buffer of d + inplace_margin d bytes, once
   the sequences [done] have been decoded the input cursor is at  size - enc_len rest last  and
   the output cursor at  d - total_len rest last. *)
Definition cursor_gap (done rest : list seq) (last : list byte) : Z :=
  let d := total_len (done ++ rest) last in
  (d + inplace_margin d - enc_len rest last) - (d - total_len rest last).

Lemma inplace_gap done rest last :
  mlens_ok rest ->
  enc_len (done ++ rest) last <= total_len (done ++ rest) last ->       (* lz4.h: "presumes that decompressedSize > compressedSize" *)
  INPLACE_MARGIN_BASE - 2 <= cursor_gap done rest last.
Proof.
  intros Hm Hpres. unfold cursor_gap. cbv zeta.
  pose proof (suffix_potential rest last Hm) as Hp.
  assert (Hle : enc_len rest last <= enc_len (done ++ rest) last).
  { unfold enc_len. rewrite sumlen_app. pose proof (sumlen_nonneg done). lia. }
  set (d := total_len (done ++ rest) last) in *. clearbody d.
  set (rin := enc_len rest last) in *. clearbody rin.
  set (rout := total_len rest last) in *. clearbody rout.
  set (n := enc_len (done ++ rest) last) in *. clearbody n.
  unfold inplace_margin. lia.
Qed.

(* what the wild copy of a match may write past the end of the match *)
Lemma wild32_slack d e : d < e -> wild32_len d e - (e - d) <= 31.
Proof. intros H. unfold wild32_len, wild_iters. lia. Qed.

Theorem inplace_margin_sufficient done rest last o len :
  mlens_ok rest -> enc_len (done ++ rest) last <= total_len (done ++ rest) last -> 0 < len ->
  wild32_len o (o + len) - len <= cursor_gap done rest last.
Proof.
  intros Hm Hp Hl. pose proof (inplace_gap done rest last Hm Hp). pose proof (wild32_slack o (o + len) ltac:(lia)).
  unfold INPLACE_MARGIN_BASE in *. lia.
Qed.
