(* C13: the parametric pipeline theorems instantiated with the constants generated from the C sources
   (Gen/Consts.v: NB_BUFFSETS, PBUFFERS_NB; Gen/TPoolSites.v: the TPool_create arguments and the declared
   array sizes), and the witnesses that show the side conditions are tight. *)
From Coq Require Import ZArith List Bool Arith Lia.
From LZ4V Require Import Gen.Consts Gen.TPoolSites Model.WriteReg Model.TPool Model.Pipeline
  Proofs.TPoolProofs Proofs.DecodeRingProofs Proofs.CompressProofs Proofs.NeverFullProofs Proofs.DeadlockProofs Proofs.TerminationProofs Proofs.DecDeadlock.
Import ListNotations.

(* ---- the generated layer is consistent with what the models assume *)
Lemma gen_consistent :
  TP_DL_t_workers = Some 1%Z /\ TP_DL_w_workers = Some 1%Z /\ TP_DF_t_workers = Some 1%Z /\ TP_DF_w_workers = Some 1%Z /\
  TP_CL_w_workers = Some 1%Z /\ TP_CF_w_workers = Some 1%Z /\ TP_CL_t_workers = None /\ TP_CF_t_workers = None /\
  RING_DL_in = NB_BUFFSETS /\ RING_DL_out = NB_BUFFSETS /\ RING_DF_in = NB_BUFFSETS /\ RING_DF_out = PBUFFERS_NB.
Proof. repeat split; reflexivity. Qed.

Definition dl_cfg (nblocks : nat) : cfg :=
  real_cfg DecLegacy 1 TP_DL_t_depth TP_DL_w_depth NB_BUFFSETS PBUFFERS_NB 0 false nblocks [].
Definition df_cfg (outs : list nat) : cfg :=
  real_cfg DecLZ4F 1 TP_DF_t_depth TP_DF_w_depth NB_BUFFSETS PBUFFERS_NB 0 false 0 outs.

(* legacy decoding: NB_BUFFSETS >= depth(tPool) + 2 and NB_BUFFSETS >= depth(wPool) + 2 hold for the generated values *)
Theorem no_reuse_legacy : forall nblocks sched st,
  run (dl_cfg nblocks) (init_state (dl_cfg nblocks)) sched = Some st -> s_viol st = false.
Proof.
  intros nblocks. apply ring_safe; unfold dl_cfg, real_cfg; cbn [c_kind c_N c_tdepth c_wdepth c_NB c_PB].
  - left. reflexivity.
  - reflexivity.
  - vm_compute. lia.
  - vm_compute. lia.
  - (* ring_in_safe:  NB >= TQ + 2 *) vm_compute. lia.
  - (* ring_out_safe (legacy outBuffs):  NB >= WQ + 2 *) intros _. vm_compute. lia.
  - discriminate.
Qed.

(* LZ4F decoding: NB_BUFFSETS >= depth(tPool) + 2 and PBUFFERS_NB >= depth(wPool) + 2 *)
Theorem no_reuse_lz4f : forall outs sched st,
  run (df_cfg outs) (init_state (df_cfg outs)) sched = Some st -> s_viol st = false.
Proof.
  intros outs. apply ring_safe; unfold df_cfg, real_cfg; cbn [c_kind c_N c_tdepth c_wdepth c_NB c_PB].
  - right. reflexivity.
  - reflexivity.
  - vm_compute. lia.
  - vm_compute. lia.
  - vm_compute. lia.
  - discriminate.
  - (* ring_out_safe (BufferPool):  PB >= WQ + 2 *) intros _. vm_compute. lia.
Qed.

(* ---- tightness: with one slot less, or one more queued job, a schedule reuses a live buffer *)
Definition picks (l : list (nat * nat)) : list pick := l.

Lemma reuse_if_NB_is_2 :
  let c := mkCfg DecLegacy 1 1 1 2 3 0 false 3 [] in
  exists sched st, run c (init_state c) sched = Some st /\ s_viol st = true.
Proof.
  exists (picks [(0,2);(1,2);(0,2);(0,2)]). eexists. split; [vm_compute; reflexivity|reflexivity].
Qed.

Lemma reuse_if_PB_is_2 :
  let c := mkCfg DecLZ4F 1 1 1 4 2 0 false 0 [3] in
  exists sched st, run c (init_state c) sched = Some st /\ s_viol st = true.
Proof.
  exists (picks [(0,2);(1,2);(1,2);(2,2);(1,2);(1,2)]). eexists. split; [vm_compute; reflexivity|reflexivity].
Qed.

Lemma reuse_if_writer_queue_is_2 :
  let c := mkCfg DecLegacy 1 1 2 3 3 0 false 4 [] in
  exists sched st, run c (init_state c) sched = Some st /\ s_viol st = true.
Proof.
  exists (picks [(0,2);(1,2);(0,2);(1,2);(1,2);(1,2);(0,2);(1,2);(1,2);(1,2);(0,2);(2,2);(1,2);(1,2);(1,2);(1,2)]).
  eexists. split; [vm_compute; reflexivity|reflexivity].
Qed.

(* ---- the lost wake-up at queue depth 1: main (in TPool_jobsCompleted) and the reader job (in TPool_submitJob)
   wait on the same queuePushCond, which is only ever signalled; both signals go to main *)
Lemma blocked_no_step : forall c st, blocked_all st = true -> forall pk, pstep c st pk = None.
Proof.
  intros c st H [t w]. unfold blocked_all in H. apply andb_true_iff in H. destruct H as [Hm Hw].
  unfold pstep. destruct t as [|t]; cbn [Nat.eqb].
  - unfold main_step. destruct (s_mst st); try discriminate; reflexivity.
  - unfold worker_step. destruct (nth_error (s_ws st) (S t - 1)) as [ws|] eqn:E; [|reflexivity].
    apply nth_error_In in E. rewrite forallb_forall in Hw. specialize (Hw ws E).
    destruct ws; try discriminate; reflexivity.
Qed.

Lemma depth1_deadlock :
  let c := mkCfg CompLegacy 2 1 4 4 3 1 false 0 [] in
  exists sched st, run c (init_state c) sched = Some st /\ final st = false /\
                   q_len (s_pt st) = 0 /\ q_len (s_pw st) = 0 /\
                   (forall pk, pstep c st pk = None).
Proof.
  exists (picks [(0,3);(1,3);(0,3);(1,3);(1,3);(2,0);(0,3);(2,3);(2,0);(0,3);(2,3);(3,3);(3,3);(3,3)]).
  eexists. split; [vm_compute; reflexivity|]. split; [reflexivity|]. split; [reflexivity|]. split; [reflexivity|].
  apply blocked_no_step. reflexivity.
Qed.

(* ---- compression with the generated queue depths, any worker count in 1..LZ4_NBWORKERS_MAX (in fact any N >= 1) *)
Definition cl_cfg (N nfull : nat) (last : bool) : cfg :=
  mkCfg CompLegacy N (Z.to_nat TP_CL_t_depth) (Z.to_nat TP_CL_w_depth) (Z.to_nat NB_BUFFSETS) (Z.to_nat PBUFFERS_NB) nfull last 0 [].
Definition cf_cfg (N nfull : nat) (last : bool) : cfg :=
  mkCfg CompLZ4F N (Z.to_nat TP_CF_t_depth) (Z.to_nat TP_CF_w_depth) (Z.to_nat NB_BUFFSETS) (Z.to_nat PBUFFERS_NB) nfull last 0 [].

Theorem sequential_equiv_legacy : forall N nfull last sched st, 1 <= N ->
  run (cl_cfg N nfull last) (init_state (cl_cfg N nfull last)) sched = Some st ->
  (exists e, s_out st = firstn e (sequential_output (cl_cfg N nfull last))) /\
  (final st = true -> s_out st = sequential_output (cl_cfg N nfull last)).
Proof.
  intros N nfull last sched st HN H.
  assert (C1 : is_comp (cl_cfg N nfull last)) by (left; reflexivity).
  assert (D1 : 1 <= c_tdepth (cl_cfg N nfull last)) by (vm_compute; lia).
  assert (D2 : 1 <= c_wdepth (cl_cfg N nfull last)) by (vm_compute; lia).
  split.
  - eapply comp_prefix; eassumption.
  - intros F. eapply comp_final; eassumption.
Qed.

Theorem sequential_equiv_lz4f : forall N nfull last sched st, 1 <= N -> 1 <= nfull ->
  run (cf_cfg N nfull last) (init_state (cf_cfg N nfull last)) sched = Some st ->
  (exists e, s_out st = firstn e (sequential_output (cf_cfg N nfull last))) /\
  (final st = true -> s_out st = sequential_output (cf_cfg N nfull last)).
Proof.
  intros N nfull last sched st HN Hn H.
  assert (C1 : is_comp (cf_cfg N nfull last)) by (right; split; [reflexivity|exact Hn]).
  assert (D1 : 1 <= c_tdepth (cf_cfg N nfull last)) by (vm_compute; lia).
  assert (D2 : 1 <= c_wdepth (cf_cfg N nfull last)) by (vm_compute; lia).
  split.
  - eapply comp_prefix; eassumption.
  - intros F. eapply comp_final; eassumption.
Qed.

(* ---- tPool queue depth of the compression call sites is >= 2: nobody ever blocks in TPool_submitJob(tPool) *)
Theorem never_full_legacy : forall N nfull last sched st, 1 <= N ->
  run (cl_cfg N nfull last) (init_state (cl_cfg N nfull last)) sched = Some st ->
  length (queued (s_pt st)) <= 2 /\ q_len (s_pt st) <= 2 /\ (forall t, In t (push_w (s_pt st)) -> t = 0) /\
  (In 0 (push_w (s_pw st)) -> queued (s_pt st) = [] /\ n_busy (s_pt st) = 0).
Proof.
  intros N nfull last sched st HN H.
  assert (C1 : is_comp (cl_cfg N nfull last)) by (left; reflexivity).
  assert (D1 : 2 <= c_tdepth (cl_cfg N nfull last)) by (vm_compute; lia).
  assert (D2 : 1 <= c_wdepth (cl_cfg N nfull last)) by (vm_compute; lia).
  destruct (never_full _ C1 HN D1 D2 sched st H) as (A&B&C0).
  repeat split; try assumption; eapply (waiters_homogeneous _ C1 HN D1 D2 sched st H); assumption.
Qed.

Theorem never_full_lz4f : forall N nfull last sched st, 1 <= N -> 1 <= nfull ->
  run (cf_cfg N nfull last) (init_state (cf_cfg N nfull last)) sched = Some st ->
  length (queued (s_pt st)) <= 2 /\ q_len (s_pt st) <= 2 /\ (forall t, In t (push_w (s_pt st)) -> t = 0) /\
  (In 0 (push_w (s_pw st)) -> queued (s_pt st) = [] /\ n_busy (s_pt st) = 0).
Proof.
  intros N nfull last sched st HN Hn H.
  assert (C1 : is_comp (cf_cfg N nfull last)) by (right; split; [reflexivity|exact Hn]).
  assert (D1 : 2 <= c_tdepth (cf_cfg N nfull last)) by (vm_compute; lia).
  assert (D2 : 1 <= c_wdepth (cf_cfg N nfull last)) by (vm_compute; lia).
  destruct (never_full _ C1 HN D1 D2 sched st H) as (A&B&C0).
  repeat split; try assumption; eapply (waiters_homogeneous _ C1 HN D1 D2 sched st H); assumption.
Qed.

(* ---- deadlock freedom at the generated TPool_create depths, any worker count >= 1 *)
Theorem no_deadlock_legacy : forall N nfull last sched st, 1 <= N ->
  run (cl_cfg N nfull last) (init_state (cl_cfg N nfull last)) sched = Some st -> final st = false ->
  exists pk st', pstep (cl_cfg N nfull last) st pk = Some st'.
Proof.
  intros N nfull last sched st HN H Hf.
  assert (C1 : is_comp (cl_cfg N nfull last)) by (left; reflexivity).
  assert (D1 : 2 <= c_tdepth (cl_cfg N nfull last)) by (vm_compute; lia).
  assert (D2 : 1 <= c_wdepth (cl_cfg N nfull last)) by (vm_compute; lia).
  exact (no_deadlock _ C1 HN D1 D2 sched st H Hf).
Qed.

Theorem no_deadlock_lz4f : forall N nfull last sched st, 1 <= N -> 1 <= nfull ->
  run (cf_cfg N nfull last) (init_state (cf_cfg N nfull last)) sched = Some st -> final st = false ->
  exists pk st', pstep (cf_cfg N nfull last) st pk = Some st'.
Proof.
  intros N nfull last sched st HN Hn H Hf.
  assert (C1 : is_comp (cf_cfg N nfull last)) by (right; split; [reflexivity|exact Hn]).
  assert (D1 : 2 <= c_tdepth (cf_cfg N nfull last)) by (vm_compute; lia).
  assert (D2 : 1 <= c_wdepth (cf_cfg N nfull last)) by (vm_compute; lia).
  exact (no_deadlock _ C1 HN D1 D2 sched st H Hf).
Qed.

(* a run that cannot be extended is a completed run with the sequential output *)
Theorem stuck_is_complete : forall c, is_comp c -> 1 <= c_N c -> 2 <= c_tdepth c -> 1 <= c_wdepth c ->
  forall sched st, run c (init_state c) sched = Some st -> (forall pk, pstep c st pk = None) ->
  final st = true /\ s_out st = sequential_output c.
Proof.
  intros c C1 HN D1 D2 sched st H Hn.
  pose proof (stuck_is_final c C1 HN D1 D2 sched st H Hn) as F. split; [exact F|].
  eapply comp_final; try eassumption. lia.
Qed.

(* ---- termination: every schedule is at most as long as the initial value of the measure
        Phi = (N+4) * remaining work + number of awake threads, which strictly decreases on every pstep *)
Theorem terminates : forall c, is_comp c -> 1 <= c_N c -> 2 <= c_tdepth c -> 1 <= c_wdepth c ->
  exists bound, forall sched st, run c (init_state c) sched = Some st -> length sched <= bound.
Proof. intros c C1 HN D1 D2. exists (Phi c (init_state c)). exact (comp_terminates c C1 HN D1 D2). Qed.

Theorem terminates_legacy : forall N nfull last, 1 <= N ->
  exists bound, forall sched st, run (cl_cfg N nfull last) (init_state (cl_cfg N nfull last)) sched = Some st -> length sched <= bound.
Proof.
  intros N nfull last HN. apply terminates; [left; reflexivity|exact HN|vm_compute; lia|vm_compute; lia].
Qed.
Theorem terminates_lz4f : forall N nfull last, 1 <= N -> 1 <= nfull ->
  exists bound, forall sched st, run (cf_cfg N nfull last) (init_state (cf_cfg N nfull last)) sched = Some st -> length sched <= bound.
Proof.
  intros N nfull last HN Hn. apply terminates; [right; split; [reflexivity|exact Hn]|exact HN|vm_compute; lia|vm_compute; lia].
Qed.

(* ---- the decoding pipelines (1 decoder worker + 1 writer): deadlock freedom and termination.
        Hypotheses: both queue depths >= 1, NB >= depth(tPool) + 2, and for the output side
        NB >= depth(wPool) + 2 (legacy) / PB >= depth(wPool) + 2 (LZ4F)  -- the same ones as ring_safe *)
Theorem no_deadlock_dec : forall c, is_dec c -> c_N c = 1 -> 1 <= c_tdepth c -> 1 <= c_wdepth c ->
  c_tdepth c + 2 <= c_NB c -> (c_kind c = DecLegacy -> c_wdepth c + 2 <= c_NB c) -> (c_kind c = DecLZ4F -> c_wdepth c + 2 <= c_PB c) ->
  forall sched st, run c (init_state c) sched = Some st -> final st = false -> exists pk st', pstep c st pk = Some st'.
Proof. exact dec_no_deadlock. Qed.

Theorem stuck_is_final_dec : forall c, is_dec c -> c_N c = 1 -> 1 <= c_tdepth c -> 1 <= c_wdepth c ->
  c_tdepth c + 2 <= c_NB c -> (c_kind c = DecLegacy -> c_wdepth c + 2 <= c_NB c) -> (c_kind c = DecLZ4F -> c_wdepth c + 2 <= c_PB c) ->
  forall sched st, run c (init_state c) sched = Some st -> (forall pk, pstep c st pk = None) -> final st = true.
Proof. exact dec_stuck_is_final. Qed.

Theorem terminates_dec : forall c, is_dec c -> c_N c = 1 -> 1 <= c_tdepth c -> 1 <= c_wdepth c ->
  c_tdepth c + 2 <= c_NB c -> (c_kind c = DecLegacy -> c_wdepth c + 2 <= c_NB c) -> (c_kind c = DecLZ4F -> c_wdepth c + 2 <= c_PB c) ->
  exists bound, forall sched st, run c (init_state c) sched = Some st -> length sched <= bound.
Proof. intros c A1 A2 A3 A4 A5 A6 A7. exists (Phi c (init_state c)). exact (dec_terminates c A1 A2 A3 A4 A5 A6 A7). Qed.

Lemma dl_side : forall nblocks, let c := dl_cfg nblocks in
  is_dec c /\ c_N c = 1 /\ 1 <= c_tdepth c /\ 1 <= c_wdepth c /\ c_tdepth c + 2 <= c_NB c /\
  (c_kind c = DecLegacy -> c_wdepth c + 2 <= c_NB c) /\ (c_kind c = DecLZ4F -> c_wdepth c + 2 <= c_PB c).
Proof.
  intros nblocks c. unfold c, dl_cfg, real_cfg; cbn [c_kind c_N c_tdepth c_wdepth c_NB c_PB].
  split; [left; reflexivity|]. split; [reflexivity|]. split; [vm_compute; lia|]. split; [vm_compute; lia|]. split; [vm_compute; lia|].
  split; [intros _; vm_compute; lia|discriminate].
Qed.
Lemma df_side : forall outs, let c := df_cfg outs in
  is_dec c /\ c_N c = 1 /\ 1 <= c_tdepth c /\ 1 <= c_wdepth c /\ c_tdepth c + 2 <= c_NB c /\
  (c_kind c = DecLegacy -> c_wdepth c + 2 <= c_NB c) /\ (c_kind c = DecLZ4F -> c_wdepth c + 2 <= c_PB c).
Proof.
  intros outs c. unfold c, df_cfg, real_cfg; cbn [c_kind c_N c_tdepth c_wdepth c_NB c_PB].
  split; [right; reflexivity|]. split; [reflexivity|]. split; [vm_compute; lia|]. split; [vm_compute; lia|]. split; [vm_compute; lia|].
  split; [discriminate|intros _; vm_compute; lia].
Qed.

(* at the generated TPool_create depths and ring sizes (NB_BUFFSETS, PBUFFERS_NB), any number of blocks *)
Theorem no_deadlock_dec_legacy : forall nblocks sched st,
  run (dl_cfg nblocks) (init_state (dl_cfg nblocks)) sched = Some st -> final st = false ->
  exists pk st', pstep (dl_cfg nblocks) st pk = Some st'.
Proof. intros nblocks. destruct (dl_side nblocks) as (A1&A2&A3&A4&A5&A6&A7). exact (dec_no_deadlock _ A1 A2 A3 A4 A5 A6 A7). Qed.
Theorem no_deadlock_dec_lz4f : forall outs sched st,
  run (df_cfg outs) (init_state (df_cfg outs)) sched = Some st -> final st = false ->
  exists pk st', pstep (df_cfg outs) st pk = Some st'.
Proof. intros outs. destruct (df_side outs) as (A1&A2&A3&A4&A5&A6&A7). exact (dec_no_deadlock _ A1 A2 A3 A4 A5 A6 A7). Qed.
Theorem terminates_dec_legacy : forall nblocks, exists bound, forall sched st,
  run (dl_cfg nblocks) (init_state (dl_cfg nblocks)) sched = Some st -> length sched <= bound.
Proof. intros nblocks. destruct (dl_side nblocks) as (A1&A2&A3&A4&A5&A6&A7). exact (terminates_dec _ A1 A2 A3 A4 A5 A6 A7). Qed.
Theorem terminates_dec_lz4f : forall outs, exists bound, forall sched st,
  run (df_cfg outs) (init_state (df_cfg outs)) sched = Some st -> length sched <= bound.
Proof. intros outs. destruct (df_side outs) as (A1&A2&A3&A4&A5&A6&A7). exact (terminates_dec _ A1 A2 A3 A4 A5 A6 A7). Qed.
