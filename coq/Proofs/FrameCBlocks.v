(* Frames as a list of block records: how the audit of Model/FrameAudit.v and the decoder of
   Spec/FrameSpec.v run over [header ++ encoded blocks ++ EndMark ++ checksum]. *)
From Coq Require Import ZArith List Lia Bool.
From Coq Require Import ZifyBool.
From LZ4V Require Import Spec.BlockSpec Spec.XXH32 Spec.FrameSpec Gen.Consts Model.FrameC Model.FrameAudit.
From LZ4V Require Import Proofs.BlockSpecProofs Proofs.FrameCBytes.
Import ListNotations.
Local Open Scope Z_scope.
Local Ltac zlia := Z.div_mod_to_equations; lia.

Record blockrec := mkB { b_raw : bool; b_stored : list byte; b_content : list byte }.

Definition enc_block (bcrc : bool) (b : blockrec) : list byte :=
  le_bytes 4 (len (b_stored b) + (if b_raw b then 2147483648 else 0)) ++ b_stored b
  ++ (if bcrc then le_bytes 4 (xxh32 0 (b_stored b)) else []).
Definition enc_blocks (bcrc : bool) (bl : list blockrec) : list byte := concat (map (enc_block bcrc) bl).
Definition contents (bl : list blockrec) : list byte := concat (map b_content bl).

(* the history the format gives a block: the dictionary alone (independent blocks), or the last
   64 KB of dictionary ++ preceding content (linked blocks) *)
Definition hist_spec (indep : bool) (dict acc : list byte) : list byte :=
  if indep then dict else lastn 65536 (dict ++ acc).

Lemma enc_blocks_app : forall bcrc a b, enc_blocks bcrc (a ++ b) = enc_blocks bcrc a ++ enc_blocks bcrc b.
Proof. intros. unfold enc_blocks. rewrite map_app, concat_app. reflexivity. Qed.
Lemma contents_app : forall a b, contents (a ++ b) = contents a ++ contents b.
Proof. intros. unfold contents. rewrite map_app, concat_app. reflexivity. Qed.
Lemma len_app : forall a b, len (a ++ b) = len a + len b.
Proof. intros. unfold len. rewrite app_length. lia. Qed.
Lemma len_nonneg : forall a, 0 <= len a.
Proof. intros. unfold len. lia. Qed.

Section Blocks.
  Variable bdec : list byte -> list byte -> option (list byte).

  Definition block_ok (h : list byte) (maxb : Z) (b : blockrec) : Prop :=
    0 < len (b_stored b) <= maxb /\ len (b_content b) <= maxb /\
    (if b_raw b then b_stored b = b_content b
     else bdec h (b_stored b) = Some (b_content b) /\ len (b_stored b) < len (b_content b)).

  Fixpoint chain (indep : bool) (dict : list byte) (maxb : Z) (acc : list byte) (bl : list blockrec) : Prop :=
    match bl with
    | [] => True
    | b :: r => block_ok (hist_spec indep dict acc) maxb b /\ chain indep dict maxb (acc ++ b_content b) r
    end.

  Lemma chain_app : forall indep dict maxb l1 acc l2,
    chain indep dict maxb acc (l1 ++ l2) <->
    chain indep dict maxb acc l1 /\ chain indep dict maxb (acc ++ contents l1) l2.
  Proof.
    induction l1 as [|b l1 IH]; intros acc l2; cbn [app chain].
    - unfold contents. cbn. rewrite app_nil_r. tauto.
    - rewrite IH. unfold contents. cbn [map concat]. rewrite app_assoc. tauto.
  Qed.

  Lemma enc_block_length : forall bcrc b, (1 <= length (enc_block bcrc b))%nat.
  Proof. intros. unfold enc_block. rewrite app_length, le_bytes_length. lia. Qed.
  Lemma enc_blocks_length : forall bcrc bl, (length bl <= length (enc_blocks bcrc bl))%nat.
  Proof.
    induction bl as [|b bl IH]; [cbn; lia|].
    unfold enc_blocks in *. cbn [map concat length]. rewrite app_length.
    pose proof (enc_block_length bcrc b). lia.
  Qed.

  (* ---- one block ---- *)
  Lemma header_word : forall b maxb h, maxb < 2147483648 -> block_ok h maxb b ->
    let w := len (b_stored b) + (if b_raw b then 2147483648 else 0) in
    0 <= w < 4294967296 /\ (w =? 0) = false /\ (2147483648 <=? w) = b_raw b /\
    w mod 2147483648 = len (b_stored b).
  Proof.
    intros b maxb h Hm [Hs _]. cbv zeta.
    destruct (b_raw b); repeat split; try lia; zlia.
  Qed.

  Lemma audit_block_step : forall f d maxb dict acc b rest nb,
    maxb < 2147483648 ->
    block_ok (hist_spec (f_indep d) dict acc) maxb b ->
    audit_blocks bdec (S f) d maxb dict acc (enc_block (f_bcrc d) b ++ rest) nb
    = audit_blocks bdec f d maxb dict (acc ++ b_content b) rest (nb + 1).
  Proof.
    intros f d maxb dict acc b rest nb Hm Hb.
    destruct (header_word b maxb _ Hm Hb) as [Hw [Hz [Hr Hn]]].
    destruct Hb as [Hs [Hc Hk]].
    unfold enc_block. rewrite <- !app_assoc.
    cbn [audit_blocks]. rewrite take_le_bytes. cbv zeta.
    rewrite le_val_le_bytes_4 by exact Hw.
    rewrite Hz, Hr, Hn.
    replace (maxb <? len (b_stored b)) with false by lia.
    unfold len at 1. rewrite Nat2Z.id. rewrite take_app.
    fold (hist_spec (f_indep d) dict acc).
    assert (Hafter :
      match (if b_raw b then Some (b_stored b) else bdec (hist_spec (f_indep d) dict acc) (b_stored b)) with
      | Some c =>
        if maxb <? Z.of_nat (length c) then None
        else if negb (b_raw b) && (Z.of_nat (length c) <=? Z.of_nat (length (b_stored b))) then None
             else audit_blocks bdec f d maxb dict (acc ++ c) rest (nb + 1)
      | None => None
      end = audit_blocks bdec f d maxb dict (acc ++ b_content b) rest (nb + 1)).
    { destruct (b_raw b).
      - rewrite Hk. unfold len in Hc. replace (maxb <? Z.of_nat (length (b_content b))) with false by lia.
        reflexivity.
      - destruct Hk as [Hk1 Hk2]. rewrite Hk1. unfold len in Hc, Hk2.
        replace (maxb <? Z.of_nat (length (b_content b))) with false by lia.
        replace (Z.of_nat (length (b_content b)) <=? Z.of_nat (length (b_stored b))) with false by lia.
        reflexivity. }
    destruct (f_bcrc d).
    - rewrite take_le_bytes, le_val_crc, Z.eqb_refl. exact Hafter.
    - cbn [app]. exact Hafter.
  Qed.

  Lemma audit_blocks_chain : forall bl f d maxb dict acc rest nb,
    maxb < 2147483648 ->
    chain (f_indep d) dict maxb acc bl ->
    audit_blocks bdec (length bl + f) d maxb dict acc (enc_blocks (f_bcrc d) bl ++ rest) nb
    = audit_blocks bdec f d maxb dict (acc ++ contents bl) rest (nb + Z.of_nat (length bl)).
  Proof.
    induction bl as [|b bl IH]; intros f d maxb dict acc rest nb Hm Hc.
    - unfold contents. cbn. rewrite app_nil_r, Z.add_0_r. reflexivity.
    - destruct Hc as [Hb Hc].
      unfold enc_blocks. cbn [map concat length plus]. rewrite <- app_assoc.
      rewrite audit_block_step by assumption.
      fold (enc_blocks (f_bcrc d) bl). rewrite IH by assumption.
      unfold contents. cbn [map concat]. rewrite app_assoc.
      f_equal. lia.
  Qed.

  Lemma audit_end : forall f d maxb dict acc rest nb,
    match f_csize d with Some n => n = len acc | None => True end ->
    audit_blocks bdec (S f) d maxb dict acc
      (le_bytes 4 0 ++ (if f_ccrc d then le_bytes 4 (xxh32 0 acc) else []) ++ rest) nb
    = Some (acc, rest, nb).
  Proof.
    intros f d maxb dict acc rest nb Hcs.
    cbn [audit_blocks]. rewrite take_le_bytes. cbv zeta.
    rewrite le_val_le_bytes_4 by lia. cbn [Z.eqb].
    assert (Hfin : match f_csize d with
                   | Some n => if n =? Z.of_nat (length acc) then Some (acc, rest, nb) else None
                   | None => Some (acc, rest, nb)
                   end = Some (acc, rest, nb)).
    { destruct (f_csize d) as [n|]; [|reflexivity]. unfold len in Hcs. rewrite Hcs, Z.eqb_refl. reflexivity. }
    destruct (f_ccrc d).
    - rewrite take_le_bytes, le_val_crc, Z.eqb_refl. exact Hfin.
    - cbn [app]. exact Hfin.
  Qed.

  (* ---- a whole frame ---- *)
  Theorem frame_audit_structured : forall d dict bl maxb rest,
    desc_wf d -> bsid_size (f_bsid d) = Some maxb ->
    chain (f_indep d) dict maxb [] bl ->
    match f_csize d with Some n => n = len (contents bl) | None => True end ->
    frame_audit bdec dict
      (header_bytes d ++ enc_blocks (f_bcrc d) bl ++ le_bytes 4 0
       ++ (if f_ccrc d then le_bytes 4 (xxh32 0 (contents bl)) else []) ++ rest)
    = Some (d, contents bl, rest, Z.of_nat (length bl)).
  Proof.
    intros d dict bl maxb rest Hwf Hsz Hch Hcs.
    unfold frame_audit, header_bytes. rewrite <- !app_assoc.
    rewrite take_le_bytes. rewrite le_val_le_bytes_4 by (unfold MAGIC; lia). rewrite Z.eqb_refl.
    change ([header_checksum (descriptor_bytes d)] ++ enc_blocks (f_bcrc d) bl ++ le_bytes 4 0
            ++ (if f_ccrc d then le_bytes 4 (xxh32 0 (contents bl)) else []) ++ rest)
      with ([header_checksum (descriptor_bytes d)] ++ (enc_blocks (f_bcrc d) bl ++ le_bytes 4 0
            ++ (if f_ccrc d then le_bytes 4 (xxh32 0 (contents bl)) else []) ++ rest)).
    rewrite parse_desc_header by exact Hwf.
    rewrite Hsz.
    assert (Hm : maxb < 2147483648).
    { unfold bsid_size in Hsz.
      destruct (f_bsid d =? 4); [inversion Hsz; lia|]. destruct (f_bsid d =? 5); [inversion Hsz; lia|].
      destruct (f_bsid d =? 6); [inversion Hsz; lia|]. destruct (f_bsid d =? 7); [inversion Hsz; lia|discriminate]. }
    set (tail := le_bytes 4 0 ++ (if f_ccrc d then le_bytes 4 (xxh32 0 (contents bl)) else []) ++ rest).
    assert (Hl : exists f, S (length (enc_blocks (f_bcrc d) bl ++ tail)) = (length bl + S f)%nat).
    { pose proof (enc_blocks_length (f_bcrc d) bl). rewrite app_length.
      exists (length (enc_blocks (f_bcrc d) bl) - length bl + length tail)%nat. lia. }
    destruct Hl as [f Hl]. rewrite Hl.
    rewrite audit_blocks_chain by assumption.
    cbn [app]. unfold tail. rewrite audit_end by exact Hcs.
    reflexivity.
  Qed.

  (* ---- the audit is stronger than the decoder of the format document ---- *)
  Lemma audit_blocks_sound : forall f d maxb dict acc bs nb c rest n,
    audit_blocks bdec f d maxb dict acc bs nb = Some (c, rest, n) ->
    blocks bdec false f d maxb dict acc bs = Some (c, rest).
  Proof.
    induction f as [|f IH]; intros d maxb dict acc bs nb c rest n H; [discriminate|].
    cbn [audit_blocks blocks] in *.
    destruct (take 4 bs) as [[szb r]|]; [|discriminate].
    cbv zeta in *. cbn [orb].
    destruct (le_val szb =? 0).
    - assert (Hfin : forall rest0,
        match f_csize d with
        | Some n0 => if n0 =? Z.of_nat (length acc) then Some (acc, rest0, nb) else None
        | None => Some (acc, rest0, nb)
        end = Some (c, rest, n) ->
        match f_csize d with
        | Some n0 => if (n0 =? 0) || (n0 =? Z.of_nat (length acc)) then Some (acc, rest0) else None
        | None => Some (acc, rest0)
        end = Some (c, rest)).
      { intros rest0 H0. destruct (f_csize d) as [n0|].
        - destruct (n0 =? Z.of_nat (length acc)); [|discriminate]. rewrite orb_true_r.
          inversion H0. reflexivity.
        - inversion H0. reflexivity. }
      destruct (f_ccrc d).
      + destruct (take 4 r) as [[cb r1]|]; [|discriminate].
        destruct (le_val cb =? xxh32 0 acc); [|discriminate]. apply Hfin. exact H.
      + apply Hfin. exact H.
    - destruct (maxb <? le_val szb mod 2147483648); [discriminate|].
      destruct (take (Z.to_nat (le_val szb mod 2147483648)) r) as [[data r1]|]; [|discriminate].
      assert (Hafter : forall rest0,
        match (if 2147483648 <=? le_val szb then Some data
               else bdec (if f_indep d then dict else lastn 65536 (dict ++ acc)) data) with
        | Some c0 =>
          if maxb <? Z.of_nat (length c0) then None
          else if negb (2147483648 <=? le_val szb) && (Z.of_nat (length c0) <=? Z.of_nat (length data)) then None
               else audit_blocks bdec f d maxb dict (acc ++ c0) rest0 (nb + 1)
        | None => None
        end = Some (c, rest, n) ->
        match (if 2147483648 <=? le_val szb then Some data
               else bdec (if f_indep d then dict else lastn 65536 (dict ++ acc)) data) with
        | Some c0 => if maxb <? Z.of_nat (length c0) then None else blocks bdec false f d maxb dict (acc ++ c0) rest0
        | None => None
        end = Some (c, rest)).
      { intros rest0 H0.
        destruct (if 2147483648 <=? le_val szb then Some data
                  else bdec (if f_indep d then dict else lastn 65536 (dict ++ acc)) data) as [c0|]; [|discriminate].
        destruct (maxb <? Z.of_nat (length c0)); [discriminate|].
        destruct (negb (2147483648 <=? le_val szb) && (Z.of_nat (length c0) <=? Z.of_nat (length data))); [discriminate|].
        eapply IH. exact H0. }
      destruct (f_bcrc d).
      + destruct (take 4 r1) as [[cb r2]|]; [|discriminate].
        destruct (le_val cb =? xxh32 0 data); [|discriminate]. apply Hafter. exact H.
      + apply Hafter. exact H.
  Qed.

  Theorem audit_sound : forall dict bs d c rest n,
    frame_audit bdec dict bs = Some (d, c, rest, n) ->
    frame_decode bdec false dict bs = Some (c, rest).
  Proof.
    intros dict bs d c rest n H. unfold frame_audit, frame_decode in *.
    destruct (take 4 bs) as [[mg r]|]; [|discriminate].
    destruct (le_val mg =? MAGIC); [|discriminate].
    destruct (parse_desc r) as [[d0 r1]|]; [|discriminate].
    destruct (bsid_size (f_bsid d0)) as [maxb|]; [|discriminate].
    destruct (audit_blocks bdec (S (length r1)) d0 maxb dict [] r1 0) as [[[c0 rest0] n0]|] eqn:E; [|discriminate].
    inversion H; subst. eapply audit_blocks_sound. exact E.
  Qed.
End Blocks.
