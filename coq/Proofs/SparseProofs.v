(* C04_sparse_equiv: LZ4IO_fwriteSparse on every buffer then LZ4IO_fwriteSparseEnd leaves the
   same file (bytes, length, position) as plain fwrite of the same buffers. *)
From Coq Require Import ZArith List Lia Bool.
From LZ4V Require Import Gen.Consts Model.Sparse.
Import ListNotations.
Local Open Scope Z_scope.

(* ---------------------------------------------------------------- list/Z helpers *)
Lemma lenZ_nonneg l : 0 <= lenZ l.
Proof. unfold lenZ. lia. Qed.
Lemma lenZ_app a b : lenZ (a ++ b) = lenZ a + lenZ b.
Proof. unfold lenZ. rewrite app_length. lia. Qed.
Lemma lenZ_nil : lenZ [] = 0.
Proof. reflexivity. Qed.
Lemma lenZ_cons x l : lenZ (x :: l) = 1 + lenZ l.
Proof. unfold lenZ. cbn [length]. lia. Qed.
Lemma takeZ_dropZ n l : takeZ n l ++ dropZ n l = l.
Proof. unfold takeZ, dropZ. apply firstn_skipn. Qed.
Lemma lenZ_takeZ n l : 0 <= n <= lenZ l -> lenZ (takeZ n l) = n.
Proof. unfold lenZ, takeZ. intros H. rewrite firstn_length. lia. Qed.
Lemma lenZ_dropZ n l : 0 <= n <= lenZ l -> lenZ (dropZ n l) = lenZ l - n.
Proof. unfold lenZ, dropZ. intros H. rewrite skipn_length. lia. Qed.
Lemma takeZ_all n l : lenZ l <= n -> takeZ n l = l.
Proof. unfold lenZ, takeZ. intros H. apply firstn_all2. lia. Qed.
Lemma dropZ_0 l : dropZ 0 l = l.
Proof. reflexivity. Qed.
Lemma takeZ_takeZ a b l : 0 <= a <= b -> takeZ a (takeZ b l) = takeZ a l.
Proof. unfold takeZ. intros H. rewrite firstn_firstn. f_equal. lia. Qed.
Lemma takeZ_app_le n a b : 0 <= n <= lenZ a -> takeZ n (a ++ b) = takeZ n a.
Proof.
  unfold takeZ, lenZ. intros H. rewrite firstn_app.
  replace (Z.to_nat n - length a)%nat with 0%nat by lia. cbn [firstn]. apply app_nil_r.
Qed.
Lemma lenZ_zeros n : 0 <= n -> lenZ (zeros n) = n.
Proof. unfold lenZ, zeros. intros H. rewrite repeat_length. lia. Qed.
Lemma zeros_app a b : 0 <= a -> 0 <= b -> zeros (a + b) = zeros a ++ zeros b.
Proof. unfold zeros. intros Ha Hb. rewrite Z2Nat.inj_add by lia. apply repeat_app. Qed.
Lemma zeros_0 : zeros 0 = [].
Proof. reflexivity. Qed.
Lemma zeros_succ n : 0 <= n -> zeros (1 + n) = 0 :: zeros n.
Proof. intros H. rewrite zeros_app by lia. reflexivity. Qed.

Lemma all_zero_spec l : all_zero l = true -> l = zeros (lenZ l).
Proof.
  induction l as [|b r IH]; intros H; [reflexivity|].
  cbn [all_zero] in H. apply andb_prop in H. destruct H as [Hb Hr].
  apply Z.eqb_eq in Hb. subst b. rewrite lenZ_cons, zeros_succ by apply lenZ_nonneg.
  f_equal. apply IH. exact Hr.
Qed.

Lemma sizeT_pos : 0 < sizeT.
Proof. reflexivity. Qed.
Lemma segmentSizeT_pos : 0 < segmentSizeT.
Proof. reflexivity. Qed.
Lemma maskT_mod n : 0 <= n -> Z.land n maskT = n mod sizeT.
Proof.
  intros H. change maskT with (Z.ones (Z.log2 sizeT)). rewrite Z.land_ones by (vm_compute; discriminate).
  reflexivity.
Qed.
Lemma uint32_small x : 0 <= x < 4294967296 -> uint32 x = x.
Proof. intros H. unfold uint32. apply Z.mod_small. exact H. Qed.

(* leading-zero scans only ever skip zero bytes *)
Lemma count0_words_spec k : forall bs,
  Z.of_nat k * sizeT <= lenZ bs ->
  0 <= count0_words k bs <= Z.of_nat k /\
  takeZ (count0_words k bs * sizeT) bs = zeros (count0_words k bs * sizeT).
Proof.
  pose proof sizeT_pos as HS.
  induction k as [|k IH]; intros bs Hlen; cbn [count0_words].
  - split; [lia|]. reflexivity.
  - destruct (all_zero (takeZ sizeT bs)) eqn:Ez.
    + assert (Hl : lenZ (dropZ sizeT bs) = lenZ bs - sizeT) by (apply lenZ_dropZ; nia).
      destruct (IH (dropZ sizeT bs)) as [Hc Ht]; [nia|].
      set (c := count0_words k (dropZ sizeT bs)) in *.
      split; [lia|].
      apply all_zero_spec in Ez. rewrite lenZ_takeZ in Ez by nia.
      replace ((1 + c) * sizeT) with (sizeT + c * sizeT) by lia.
      rewrite zeros_app by nia.
      rewrite <- (takeZ_dropZ sizeT bs) at 1.
      unfold takeZ at 1. rewrite firstn_app.
      fold (takeZ (sizeT + c * sizeT) (takeZ sizeT bs)).
      rewrite takeZ_all by (rewrite lenZ_takeZ; nia).
      rewrite Ez. f_equal.
      replace (Z.to_nat (sizeT + c * sizeT) - length (zeros sizeT))%nat with (Z.to_nat (c * sizeT)).
      * exact Ht.
      * unfold zeros. rewrite repeat_length. nia.
    + split; [lia|]. reflexivity.
Qed.

Lemma count0_bytes_spec bs :
  0 <= count0_bytes bs <= lenZ bs /\ takeZ (count0_bytes bs) bs = zeros (count0_bytes bs).
Proof.
  induction bs as [|b r IH]; cbn [count0_bytes].
  - split; [rewrite lenZ_nil; lia|reflexivity].
  - rewrite lenZ_cons. destruct (b =? 0) eqn:E.
    + apply Z.eqb_eq in E. subst b. destruct IH as [Hc Ht]. split; [lia|].
      rewrite zeros_succ by lia. unfold takeZ. rewrite Z2Nat.inj_add by lia.
      change (Z.to_nat 1) with 1%nat. cbn [Nat.add firstn]. f_equal. exact Ht.
    + split; [pose proof (lenZ_nonneg r); lia|reflexivity].
Qed.

(* ---------------------------------------------------------------- file states *)
(* the bytes the file will hold once the pending skips are materialised *)
Definition virt (f : file) (s : Z) : list Z :=
  f_data f ++ zeros (f_pos f - lenZ (f_data f)) ++ zeros s.
(* position at or beyond end-of-file; exactly at end-of-file when nothing is pending *)
Definition inv (f : file) (s : Z) : Prop :=
  lenZ (f_data f) <= f_pos f /\ 0 <= s /\ (s = 0 -> f_pos f = lenZ (f_data f)).

Lemma virt_skip f s k : inv f s -> 0 <= k -> virt f (s + k) = virt f s ++ zeros k.
Proof.
  intros [H1 [H2 _]] Hk. unfold virt. rewrite zeros_app by lia. rewrite !app_assoc. reflexivity.
Qed.
Lemma inv_skip f s k : inv f s -> 0 <= k -> inv f (s + k).
Proof. intros [H1 [H2 H3]] Hk. repeat split; lia. Qed.

Lemma do_op_write f bs : bs <> [] ->
  do_op f (Write bs) = mkFile (write_at (f_data f) (f_pos f) bs) (f_pos f + lenZ bs).
Proof. destruct bs; [congruence|reflexivity]. Qed.

Lemma flush_w f s bs : lenZ (f_data f) <= f_pos f -> 0 <= s -> bs <> [] ->
  let f' := do_op (do_op f (Seek s)) (Write bs) in
  inv f' 0 /\ virt f' 0 = virt f s ++ bs.
Proof.
  intros H1 H2 Hne. cbv zeta.
  rewrite do_op_write by exact Hne.
  cbn [do_op f_data f_pos].
  unfold write_at. destruct (lenZ (f_data f) <=? f_pos f + s) eqn:E; [|apply Z.leb_gt in E; lia].
  assert (Hz : lenZ (zeros (f_pos f + s - lenZ (f_data f))) = f_pos f + s - lenZ (f_data f))
    by (apply lenZ_zeros; lia).
  split.
  - unfold inv. cbn [f_data f_pos]. rewrite !lenZ_app, Hz. lia.
  - unfold virt. cbn [f_data f_pos]. rewrite !lenZ_app, Hz.
    replace (f_pos f + s + lenZ bs - (lenZ (f_data f) + (f_pos f + s - lenZ (f_data f) + lenZ bs))) with 0 by lia.
    rewrite zeros_0, !app_nil_r.
    replace (f_pos f + s - lenZ (f_data f)) with ((f_pos f - lenZ (f_data f)) + s) by lia.
    rewrite zeros_app by lia. rewrite <- !app_assoc. reflexivity.
Qed.
Lemma flush_ok f s bs : inv f s -> bs <> [] ->
  let f' := do_op (do_op f (Seek s)) (Write bs) in
  inv f' 0 /\ virt f' 0 = virt f s ++ bs.
Proof. intros [H1 [H2 _]]. apply flush_w; assumption. Qed.

Lemma run_ops_snoc f acc o : run_ops f (rev (o :: acc)) = do_op (run_ops f (rev acc)) o.
Proof. unfold run_ops. cbn [rev]. rewrite fold_left_app. reflexivity. Qed.
Lemma run_ops_app f a b : run_ops f (a ++ b) = run_ops (run_ops f a) b.
Proof. unfold run_ops. apply fold_left_app. Qed.

(* ---------------------------------------------------------------- the segment loop *)
Lemma seg_loop_ok f0 : forall fuel bs bsT skips acc,
  lenZ bs = bsT * sizeT -> (Z.to_nat bsT < fuel)%nat ->
  skips + lenZ bs < 4294967296 ->
  inv (run_ops f0 (rev acc)) skips ->
  exists skips' acc',
    seg_loop fuel bs bsT skips acc = Some (skips', acc') /\
    inv (run_ops f0 (rev acc')) skips' /\
    virt (run_ops f0 (rev acc')) skips' = virt (run_ops f0 (rev acc)) skips ++ bs /\
    skips' <= skips + lenZ bs.
Proof.
  pose proof sizeT_pos as HS. pose proof segmentSizeT_pos as HG.
  induction fuel as [|fuel IH]; intros bs bsT skips acc Hlen Hfuel Hbound Hinv.
  - lia.
  - destruct bs as [|b0 r0].
    + cbn [seg_loop]. exists skips, acc. rewrite app_nil_r, lenZ_nil. split; [reflexivity|]. split; [exact Hinv|]. split; [reflexivity|lia].
    + set (bs := b0 :: r0) in *.
      assert (Hpos : 0 < lenZ bs) by (unfold bs; rewrite lenZ_cons; pose proof (lenZ_nonneg r0); lia).
      assert (HbsT : 1 <= bsT) by nia.
      cbn [seg_loop]. fold bs.
      set (seg0 := if segmentSizeT >? bsT then bsT else segmentSizeT).
      assert (Hseg0 : 1 <= seg0 <= bsT) by (unfold seg0; destruct (segmentSizeT >? bsT) eqn:E; lia).
      set (seg := takeZ (seg0 * sizeT) bs).
      set (rest := dropZ (seg0 * sizeT) bs).
      assert (Hsegl : lenZ seg = seg0 * sizeT) by (apply lenZ_takeZ; nia).
      assert (Hrestl : lenZ rest = (bsT - seg0) * sizeT) by (unfold rest; rewrite lenZ_dropZ; nia).
      assert (Hsplit : bs = seg ++ rest) by (symmetry; apply takeZ_dropZ).
      destruct (count0_words_spec (Z.to_nat seg0) seg) as [Hc Hz]; [rewrite Z2Nat.id by lia; lia|].
      rewrite Z2Nat.id in Hc by lia.
      set (nb0 := count0_words (Z.to_nat seg0) seg) in *.
      destruct Hinv as [Hi1 [Hi2 Hi3]].
      assert (Hu1 : uint32 (nb0 * sizeT) = nb0 * sizeT) by (apply uint32_small; nia).
      rewrite Hu1.
      assert (Hu2 : uint32 (skips + nb0 * sizeT) = skips + nb0 * sizeT) by (apply uint32_small; nia).
      rewrite Hu2.
      assert (Hinv : inv (run_ops f0 (rev acc)) skips) by (repeat split; assumption).
      destruct (nb0 =? seg0) eqn:En; cbn [negb].
      * (* the whole segment is zero *)
        apply Z.eqb_eq in En.
        destruct (IH rest (bsT - seg0) (skips + nb0 * sizeT) acc) as [s' [acc' [He [Hi' [Hv' Hb']]]]].
        { exact Hrestl. } { lia. } { rewrite Hrestl. nia. }
        { apply inv_skip; [exact Hinv|nia]. }
        exists s', acc'. split; [exact He|]. split; [exact Hi'|]. split.
        -- rewrite Hv'. rewrite virt_skip by (try exact Hinv; nia).
           rewrite <- app_assoc. f_equal. rewrite Hsplit. f_equal.
           rewrite <- Hz. rewrite En, <- Hsegl. rewrite takeZ_all by lia. reflexivity.
        -- rewrite Hrestl in Hb'. nia.
      * (* flush the pending skips, write the non-zero remainder of the segment *)
        apply Z.eqb_neq in En.
        set (w := dropZ (nb0 * sizeT) seg).
        assert (Hwl : lenZ w = (seg0 - nb0) * sizeT) by (unfold w; rewrite lenZ_dropZ; nia).
        assert (Hwne : w <> []) by (intros E; rewrite E, lenZ_nil in Hwl; nia).
        assert (Hk : 0 <= nb0 * sizeT) by nia.
        assert (Hfl := flush_ok (run_ops f0 (rev acc)) (skips + nb0 * sizeT) w
                         (inv_skip _ _ _ Hinv Hk) Hwne).
        cbv zeta in Hfl. rewrite <- !run_ops_snoc in Hfl. destruct Hfl as [Hfi Hfv].
        destruct (IH rest (bsT - seg0) 0 (Write w :: Seek (skips + nb0 * sizeT) :: acc))
          as [s' [acc' [He [Hi' [Hv' Hb']]]]].
        { exact Hrestl. } { lia. } { rewrite Hrestl. nia. } { exact Hfi. }
        exists s', acc'. split; [exact He|]. split; [exact Hi'|]. split.
        -- rewrite Hv', Hfv. rewrite virt_skip by (try exact Hinv; nia).
           rewrite <- !app_assoc. f_equal. rewrite Hsplit. rewrite app_assoc. f_equal.
           rewrite <- Hz. apply takeZ_dropZ.
        -- rewrite Hrestl in Hb'. nia.
Qed.

(* ---------------------------------------------------------------- one call of LZ4IO_fwriteSparse *)
Definition sparse_mode (is_stdout : bool) (support : Z) : bool := (support - b2z is_stdout) >? 0.
Definition SKIP_MAX : Z := 2147483648.       (* bound kept on storedSkips between calls: 2 GB *)
Definition BUF_MAX : Z := 1073741824.        (* largest buffer a single call may receive: 1 GB *)

Lemma seek0_write f bs : do_op (do_op f (Seek 0)) (Write bs) = do_op f (Write bs).
Proof.
  destruct bs as [|b r]; cbn [do_op f_data f_pos].
  - destruct f as [d p]. cbn [f_data f_pos]. f_equal. lia.
  - rewrite !Z.add_0_r. reflexivity.
Qed.

Lemma plain_write_ok f bs : inv f 0 ->
  inv (do_op f (Write bs)) 0 /\ virt (do_op f (Write bs)) 0 = virt f 0 ++ bs.
Proof.
  intros Hinv. destruct bs as [|b r].
  - cbn [do_op]. rewrite app_nil_r. split; [exact Hinv|reflexivity].
  - rewrite <- seek0_write. apply flush_ok; [exact Hinv|discriminate].
Qed.

Lemma guard_ok f s : inv f s -> ONE_GB < s ->
  inv (do_op f (Seek ONE_GB)) (s - ONE_GB) /\ virt (do_op f (Seek ONE_GB)) (s - ONE_GB) = virt f s.
Proof.
  intros [H1 [H2 H3]] Hs. assert (HG : 0 < ONE_GB) by reflexivity.
  cbn [do_op]. unfold inv, virt. cbn [f_data f_pos]. split; [repeat split; lia|].
  f_equal. rewrite <- zeros_app by lia.
  replace (f_pos f + ONE_GB - lenZ (f_data f) + (s - ONE_GB)) with ((f_pos f - lenZ (f_data f)) + s) by lia.
  rewrite zeros_app by lia. reflexivity.
Qed.

Lemma fwrite_sparse_ok so sup buf skips f :
  lenZ buf <= BUF_MAX -> skips <= SKIP_MAX ->
  inv f skips -> (sparse_mode so sup = false -> skips = 0) ->
  exists skips' ops,
    fwrite_sparse so sup buf skips = Some (skips', ops) /\
    inv (run_ops f ops) skips' /\
    virt (run_ops f ops) skips' = virt f skips ++ buf /\
    skips' <= SKIP_MAX /\ (sparse_mode so sup = false -> skips' = 0).
Proof.
  intros Hbuf Hsk Hinv Hmode.
  pose proof sizeT_pos as HS. pose proof (lenZ_nonneg buf) as Hb0.
  assert (HGB : ONE_GB = 1073741824) by reflexivity.
  unfold BUF_MAX in Hbuf. unfold SKIP_MAX in *.
  unfold fwrite_sparse. fold (sparse_mode so sup).
  destruct (sparse_mode so sup) eqn:Em; cbn [negb].
  2:{ (* normal write *)
    rewrite (Hmode eq_refl) in *.
    exists 0, [Write buf]. split; [reflexivity|].
    change (run_ops f [Write buf]) with (do_op f (Write buf)).
    destruct (plain_write_ok f buf Hinv) as [Hi Hv].
    split; [exact Hi|]. split; [exact Hv|]. split; [lia|]. reflexivity. }
  (* sparse mode: guard, then segment loop *)
  set (g := if skips >? ONE_GB then (uint32 (skips - ONE_GB), [Seek ONE_GB]) else (skips, [])).
  assert (Hg : exists skips0 acc0, g = (skips0, acc0) /\ skips0 <= ONE_GB /\
                 inv (run_ops f (rev acc0)) skips0 /\ virt (run_ops f (rev acc0)) skips0 = virt f skips).
  { unfold g. destruct (skips >? ONE_GB) eqn:Eg.
    - assert (Hgt : ONE_GB < skips) by lia.
      exists (skips - ONE_GB), [Seek ONE_GB]. rewrite uint32_small by lia.
      split; [reflexivity|]. split; [lia|].
      change (run_ops f (rev [Seek ONE_GB])) with (do_op f (Seek ONE_GB)).
      apply guard_ok; assumption.
    - exists skips, []. split; [reflexivity|]. split; [lia|]. split; [exact Hinv|reflexivity]. }
  destruct Hg as [skips0 [acc0 [Eg [Hs0 [Hi0 Hv0]]]]]. rewrite Eg.
  set (bsT := lenZ buf / sizeT).
  assert (HbsT : 0 <= bsT) by (apply Z.div_pos; lia).
  assert (Hdm : lenZ buf = sizeT * bsT + lenZ buf mod sizeT) by (apply Z.div_mod; lia).
  assert (Hmod : 0 <= lenZ buf mod sizeT < sizeT) by (apply Z.mod_pos_bound; lia).
  set (rs := lenZ buf mod sizeT) in *.
  assert (Hwb : 0 <= bsT * sizeT <= lenZ buf) by nia.
  assert (Hwl : lenZ (takeZ (bsT * sizeT) buf) = bsT * sizeT) by (apply lenZ_takeZ; exact Hwb).
  destruct (seg_loop_ok f (S (Z.to_nat bsT)) (takeZ (bsT * sizeT) buf) bsT skips0 acc0)
    as [skips1 [acc1 [He [Hi1 [Hv1 Hb1]]]]].
  { exact Hwl. } { lia. } { rewrite Hwl. lia. } { exact Hi0. }
  rewrite He. rewrite Hwl in Hb1.
  rewrite maskT_mod by exact Hb0. fold rs.
  assert (Hs1 : 0 <= skips1) by (destruct Hi1 as [_ [H _]]; exact H).
  destruct (rs =? 0) eqn:Er; cbn [negb].
  - (* size multiple of sizeT *)
    apply Z.eqb_eq in Er.
    exists skips1, (rev acc1). split; [reflexivity|]. split; [exact Hi1|]. split.
    + rewrite Hv1, Hv0. f_equal. apply takeZ_all. lia.
    + split; [lia|]. intros E; discriminate.
  - apply Z.eqb_neq in Er.
    set (rest := takeZ rs (dropZ (bsT * sizeT) buf)).
    assert (Hdl : lenZ (dropZ (bsT * sizeT) buf) = rs) by (rewrite lenZ_dropZ by exact Hwb; lia).
    assert (Hrest : rest = dropZ (bsT * sizeT) buf) by (apply takeZ_all; lia).
    assert (Hrl : lenZ rest = rs) by (rewrite Hrest; exact Hdl).
    assert (Hbuf2 : buf = takeZ (bsT * sizeT) buf ++ rest) by (rewrite Hrest; symmetry; apply takeZ_dropZ).
    destruct (count0_bytes_spec rest) as [Hc Hz].
    set (nz := count0_bytes rest) in *.
    rewrite (uint32_small nz) by lia.
    rewrite (uint32_small (skips1 + nz)) by lia.
    destruct (nz =? lenZ rest) eqn:En; cbn [negb].
    + apply Z.eqb_eq in En.
      exists (skips1 + nz), (rev acc1). split; [reflexivity|].
      split; [apply inv_skip; [exact Hi1|lia]|]. split.
      * rewrite virt_skip by (try exact Hi1; lia). rewrite Hv1, Hv0.
        rewrite <- app_assoc. f_equal. rewrite Hbuf2 at 2. f_equal.
        rewrite <- Hz, En. apply takeZ_all. lia.
      * split; [lia|]. intros E; discriminate.
    + apply Z.eqb_neq in En.
      set (w := dropZ nz rest).
      assert (Hwl2 : lenZ w = lenZ rest - nz) by (unfold w; apply lenZ_dropZ; lia).
      assert (Hwne : w <> []) by (intros E; rewrite E, lenZ_nil in Hwl2; lia).
      assert (Hk : 0 <= nz) by lia.
      assert (Hfl := flush_ok (run_ops f (rev acc1)) (skips1 + nz) w (inv_skip _ _ _ Hi1 Hk) Hwne).
      cbv zeta in Hfl. rewrite <- !run_ops_snoc in Hfl. destruct Hfl as [Hfi Hfv].
      exists 0, (rev (Write w :: Seek (skips1 + nz) :: acc1)). split; [reflexivity|].
      split; [exact Hfi|]. split.
      * rewrite Hfv. rewrite virt_skip by (try exact Hi1; lia). rewrite Hv1, Hv0.
        rewrite <- !app_assoc. f_equal. rewrite Hbuf2 at 2. f_equal.
        rewrite <- Hz. apply takeZ_dropZ.
      * split; [lia|]. intros E; discriminate.
Qed.

(* ---------------------------------------------------------------- LZ4IO_fwriteSparseEnd *)
Lemma fwrite_sparse_end_ok f s : inv f s ->
  let f' := run_ops f (fwrite_sparse_end s) in
  f_data f' = virt f s /\ f_pos f' = lenZ (f_data f').
Proof.
  intros Hinv. destruct Hinv as [H1 [H2 H3]]. unfold fwrite_sparse_end. cbv zeta.
  destruct (s >? 0) eqn:E.
  - assert (Hne : [0] <> @nil Z) by discriminate.
    destruct (flush_w f (s - 1) [0] H1 ltac:(lia) Hne) as [[Ha [_ Hb]] Hv].
    change (run_ops f [Seek (s - 1); Write [0]]) with (do_op (do_op f (Seek (s - 1))) (Write [0])).
    set (f' := do_op (do_op f (Seek (s - 1))) (Write [0])) in *.
    specialize (Hb eq_refl). split; [|exact Hb].
    unfold virt in Hv at 1. rewrite Hb in Hv.
    replace (lenZ (f_data f') - lenZ (f_data f')) with 0 in Hv by lia.
    rewrite zeros_0, !app_nil_r in Hv. rewrite Hv.
    unfold virt. replace s with ((s - 1) + 1) at 2 by lia. rewrite zeros_app by lia.
    rewrite <- !app_assoc. reflexivity.
  - assert (s = 0) by lia. subst s. cbn [run_ops fold_left]. specialize (H3 eq_refl).
    split; [|exact H3]. unfold virt. rewrite H3.
    replace (lenZ (f_data f) - lenZ (f_data f)) with 0 by lia. rewrite zeros_0, !app_nil_r. reflexivity.
Qed.

(* ---------------------------------------------------------------- a whole frame *)
Lemma sparse_run_ok so sup : forall bufs skips f,
  Forall (fun b => lenZ b <= BUF_MAX) bufs -> skips <= SKIP_MAX ->
  inv f skips -> (sparse_mode so sup = false -> skips = 0) ->
  exists ops, sparse_run so sup bufs skips = Some ops /\
    f_data (run_ops f ops) = virt f skips ++ concat bufs /\
    f_pos (run_ops f ops) = lenZ (f_data (run_ops f ops)).
Proof.
  induction bufs as [|b r IH]; intros skips f Hall Hsk Hinv Hmode.
  - cbn [sparse_run concat]. exists (fwrite_sparse_end skips). split; [reflexivity|].
    rewrite app_nil_r. apply fwrite_sparse_end_ok. exact Hinv.
  - inversion Hall as [|? ? Hb Hr]; subst.
    destruct (fwrite_sparse_ok so sup b skips f Hb Hsk Hinv Hmode) as [s1 [ops1 [E1 [Hi1 [Hv1 [Hs1 Hm1]]]]]].
    destruct (IH s1 (run_ops f ops1) Hr Hs1 Hi1 Hm1) as [ops2 [E2 [Hd Hp]]].
    cbn [sparse_run]. rewrite E1, E2. exists (ops1 ++ ops2). split; [reflexivity|].
    rewrite run_ops_app. split; [|exact Hp].
    rewrite Hd, Hv1. cbn [concat]. rewrite <- app_assoc. reflexivity.
Qed.

Lemma plain_run_ok : forall bufs f, f_pos f = lenZ (f_data f) ->
  f_data (run_ops f (plain_run bufs)) = f_data f ++ concat bufs /\
  f_pos (run_ops f (plain_run bufs)) = lenZ (f_data (run_ops f (plain_run bufs))).
Proof.
  induction bufs as [|b r IH]; intros f Hp.
  - cbn [plain_run map run_ops fold_left concat]. rewrite app_nil_r. split; [reflexivity|exact Hp].
  - assert (Hinv : inv f 0) by (unfold inv; repeat split; lia).
    destruct (plain_write_ok f b Hinv) as [[Ha [_ Hb]] Hv].
    specialize (Hb eq_refl).
    change (run_ops f (plain_run (b :: r))) with (run_ops (do_op f (Write b)) (plain_run r)).
    destruct (IH (do_op f (Write b)) Hb) as [Hd Hq]. split; [|exact Hq].
    rewrite Hd. cbn [concat]. rewrite app_assoc. f_equal.
    unfold virt in Hv. rewrite Hb, Hp in Hv.
    replace (lenZ (f_data (do_op f (Write b))) - lenZ (f_data (do_op f (Write b)))) with 0 in Hv by lia.
    replace (lenZ (f_data f) - lenZ (f_data f)) with 0 in Hv by lia.
    rewrite zeros_0, !app_nil_r in Hv. exact Hv.
Qed.

(* ================================================================ the theorem *)
Theorem sparse_equiv (is_stdout : bool) (support : Z) (bufs : list (list Z)) (f : file) :
  f_pos f = lenZ (f_data f) ->                          (* positioned at end-of-file (fresh "wb" file, or append) *)
  Forall (fun b => lenZ b <= BUF_MAX) bufs ->           (* every decoded block is at most 1 GB *)
  exists ops,
    sparse_run is_stdout support bufs 0 = Some ops /\
    run_ops f ops = run_ops f (plain_run bufs) /\
    f_data (run_ops f ops) = f_data f ++ concat bufs /\
    f_pos (run_ops f ops) = lenZ (f_data f) + lenZ (concat bufs).
Proof.
  intros Hp Hall.
  assert (Hinv : inv f 0) by (unfold inv; repeat split; lia).
  destruct (sparse_run_ok is_stdout support bufs 0 f Hall ltac:(unfold SKIP_MAX; lia) Hinv (fun _ => eq_refl))
    as [ops [E [Hd Hq]]].
  destruct (plain_run_ok bufs f Hp) as [Hd' Hq'].
  assert (Hv : virt f 0 = f_data f).
  { unfold virt. rewrite Hp. replace (lenZ (f_data f) - lenZ (f_data f)) with 0 by lia.
    rewrite zeros_0, !app_nil_r. reflexivity. }
  rewrite Hv in Hd.
  exists ops. split; [exact E|]. split.
  - destruct (run_ops f ops) as [d p], (run_ops f (plain_run bufs)) as [d' p'].
    cbn [f_data f_pos] in *. subst. reflexivity.
  - split; [exact Hd|]. rewrite Hq, Hd, lenZ_app. reflexivity.
Qed.

(* several frames decoded into the same file (each frame: fwriteSparse*, fwriteSparseEnd, storedSkips reset) *)
Fixpoint sparse_frames (is_stdout : bool) (support : Z) (frames : list (list (list Z))) : option (list fop) :=
  match frames with
  | [] => Some []
  | fr :: r =>
    match sparse_run is_stdout support fr 0, sparse_frames is_stdout support r with
    | Some a, Some b => Some (a ++ b)
    | _, _ => None
    end
  end.

Theorem sparse_equiv_frames (is_stdout : bool) (support : Z) : forall (frames : list (list (list Z))) (f : file),
  f_pos f = lenZ (f_data f) ->
  Forall (Forall (fun b => lenZ b <= BUF_MAX)) frames ->
  exists ops,
    sparse_frames is_stdout support frames = Some ops /\
    f_data (run_ops f ops) = f_data f ++ concat (map (@concat Z) frames) /\
    f_pos (run_ops f ops) = lenZ (f_data (run_ops f ops)).
Proof.
  induction frames as [|fr r IH]; intros f Hp Hall.
  - exists []. cbn. rewrite app_nil_r. repeat split; [exact Hp].
  - inversion Hall as [|? ? Hf Hr]; subst.
    destruct (sparse_equiv is_stdout support fr f Hp Hf) as [a [Ea [_ [Hd Hq]]]].
    assert (Hp1 : f_pos (run_ops f a) = lenZ (f_data (run_ops f a))) by (rewrite Hq, Hd, lenZ_app; reflexivity).
    destruct (IH (run_ops f a) Hp1 Hr) as [b [Eb [Hd2 Hq2]]].
    cbn [sparse_frames]. rewrite Ea, Eb. exists (a ++ b). split; [reflexivity|].
    rewrite run_ops_app. split; [|exact Hq2].
    rewrite Hd2, Hd. cbn [map concat]. rewrite app_assoc. reflexivity.
Qed.
