(* LZ4_compress_HC_destSize at the hash-chain levels (3-9) and the optimal-parser levels (10-12): the block it
   returns is STRICTLY valid (end-of-block restrictions of the format included) for the consumed prefix. *)
From Coq Require Import ZArith List Lia Bool ZifyBool FMapPositive.
From LZ4V Require Import Gen.Consts Spec.BlockSpec Model.Mem Model.Fast Model.FastApi Model.HcEmit Model.HcMid Model.HcChain Model.HcChainApi Model.HcOpt Model.HcOptApi.
From LZ4V Require Import Proofs.BlockSpecProofs Proofs.FactorSpec Proofs.FastBasics Proofs.FastCap Proofs.FastApiSound.
From LZ4V Require Import Proofs.HcMidSound Proofs.HcMidCap Proofs.HcMidApiSound.
From LZ4V Require Import Proofs.HcChainSearch Proofs.HcChainSound Proofs.HcChainCap Proofs.HcChainFill Proofs.HcChainParser Proofs.HcChainApiSound
     Proofs.HcOptParser Proofs.HcOptApiSound.
Import ListNotations.
Local Open Scope Z_scope.

Theorem cc_generic_fill_strict c src srcSize cap cLevel :
  src_ok src -> 65536 <= cc_endIdx c <= 1073741824 + 65536 -> TB (cc_tabs c) (cc_endIdx c) ->
  0 <= srcSize < 2147483648 -> 0 <= cap -> chain_level cLevel = true ->
  let r := cc_generic c src srcSize cap cLevel FillOutput in
  0 < cr_ret r -> strict_valid [] (cr_out r) = Some (load_list src 0 (Z.to_nat (cr_consumed r))).
Proof.
  intros Hsrc Hst HT [Hsz Hint] Hcap Hlvl. unfold cc_generic. cbv zeta.
  set (start := cc_endIdx c) in *.
  destruct (cap <? 1) eqn:E0; [cbn; lia|].
  destruct (u32 srcSize >? LZ4_MAX_INPUT_SIZE) eqn:E1; [cbn; lia|].
  assert (Hmax : srcSize <= LZ4_MAX_INPUT_SIZE).
  { rewrite u32_id in E1 by (unfold M32; lia). lia. }
  rewrite Hlvl. cbn [negb].
  set (vrd := fun p => get src (p - start)).
  assert (Hb : forall a, 0 <= vrd a < 256) by (intros a; apply Hsrc).
  assert (Hidx : 65536 <= start /\ start <= start /\ start <= start /\ start + srcSize < M32 - 65536)
    by (unfold M32, LZ4_MAX_INPUT_SIZE in *; lia).
  assert (Hfill : FillOutput = FillOutput -> 1 <= cap) by (intros _; lia).
  pose proof (hc_compress_ok vrd FillOutput start start start srcSize cap (snd (cl_params cLevel)) Hb Hidx Hsz Hcap Hfill
                (mkHT (cc_hash c) (cc_chain c) (cc_ntu c)) HT) as (HS & HC).
  assert (HF : cRFill vrd start start
                 (hc_compress vrd start start FillOutput start srcSize cap (snd (cl_params cLevel)) (mkHT (cc_hash c) (cc_chain c) (cc_ntu c))))
    by (eapply hc_compress_fill_strict; try eassumption; reflexivity).
  destruct (hc_compress vrd start start FillOutput start srcSize cap (snd (cl_params cLevel)) (mkHT (cc_hash c) (cc_chain c) (cc_ntu c)))
    as [t hw | ret consumed out t hw | ]; [cbn; lia | | cbn; lia].
  cbn [HcChainSound.RSpec] in HS. destruct HS as (S1 & _). cbn [cRFill] in HF.
  cbn [cr_ret cr_out cr_consumed]. intros _.
  unfold vrd in HF. rewrite (seg_nil _ start start) in HF by lia. rewrite seg_load in HF by lia. exact HF.
Qed.

Theorem cc_generic_opt_fill_strict c src srcSize cap cLevel :
  src_ok src -> 65536 <= cc_endIdx c <= 1073741824 + 65536 -> TB (cc_tabs c) (cc_endIdx c) ->
  0 <= srcSize < 2147483648 -> 0 <= cap -> opt_level cLevel = true ->
  let r := cc_generic_opt c src srcSize cap cLevel FillOutput in
  0 < cr_ret r -> strict_valid [] (cr_out r) = Some (load_list src 0 (Z.to_nat (cr_consumed r))).
Proof.
  intros Hsrc Hst HT [Hsz Hint] Hcap Hlvl. unfold cc_generic_opt. cbv zeta.
  set (start := cc_endIdx c) in *.
  destruct (cap <? 1) eqn:E0; [cbn; lia|].
  destruct (u32 srcSize >? LZ4_MAX_INPUT_SIZE) eqn:E1; [cbn; lia|].
  assert (Hmax : srcSize <= LZ4_MAX_INPUT_SIZE).
  { rewrite u32_id in E1 by (unfold M32; lia). lia. }
  rewrite Hlvl. cbn [negb].
  set (vrd := fun p => get src (p - start)).
  assert (Hb : forall a, 0 <= vrd a < 256) by (intros a; apply Hsrc).
  assert (Hidx : 65536 <= start /\ start <= start /\ start <= start /\ start + srcSize < M32 - 65536)
    by (unfold M32, LZ4_MAX_INPUT_SIZE in *; lia).
  assert (Hfill : FillOutput = FillOutput -> 1 <= cap) by (intros _; lia).
  pose proof (opt_compress_ok vrd FillOutput start start start srcSize cap (snd (cl_params cLevel)) (cl_target cLevel)
                (cLevel >=? LZ4HC_CLEVEL_MAX) (cc_fav c) Hb Hidx Hsz Hcap Hfill
                (mkHT (cc_hash c) (cc_chain c) (cc_ntu c)) HT) as (HS & HC).
  assert (HF : cRFill vrd start start
                 (opt_compress vrd start start FillOutput start srcSize cap (snd (cl_params cLevel)) (cl_target cLevel)
                    (cLevel >=? LZ4HC_CLEVEL_MAX) (cc_fav c) (mkHT (cc_hash c) (cc_chain c) (cc_ntu c))))
    by (eapply opt_compress_fill_strict; try eassumption; reflexivity).
  destruct (opt_compress vrd start start FillOutput start srcSize cap (snd (cl_params cLevel)) (cl_target cLevel)
              (cLevel >=? LZ4HC_CLEVEL_MAX) (cc_fav c) (mkHT (cc_hash c) (cc_chain c) (cc_ntu c)))
    as [t hw | ret consumed out t hw | ]; [cbn; lia | | cbn; lia].
  cbn [HcChainSound.RSpec] in HS. destruct HS as (S1 & _). cbn [cRFill] in HF.
  cbn [cr_ret cr_out cr_consumed]. intros _.
  unfold vrd in HF. rewrite (seg_nil _ start start) in HF by lia. rewrite seg_load in HF by lia. exact HF.
Qed.

(* LZ4_compress_HC_destSize, levels 3-9 *)
Theorem chain_destSize_strict src srcSize target cLevel :
  src_ok src -> 0 <= srcSize < 2147483648 -> 0 <= target -> chain_level cLevel = true ->
  let r := compress_HC_destSize_chain src srcSize target cLevel in
  0 < cr_ret r -> strict_valid [] (cr_out r) = Some (load_list src 0 (Z.to_nat (cr_consumed r))).
Proof.
  intros Hsrc Hsz Ht Hl. unfold compress_HC_destSize_chain.
  pose proof cc_ok_init as [Hd|(A1 & A2)]; [discriminate Hd|].
  pose proof (cc_init_internal_ok cc_init A1 A2) as HI. cbv zeta in HI. destruct HI as (I1 & I2 & I3 & I4).
  apply cc_generic_fill_strict; assumption.
Qed.

(* LZ4_compress_HC_destSize, levels 3-12 *)
Theorem all_destSize_strict src srcSize target cLevel :
  src_ok src -> 0 <= srcSize < 2147483648 -> 0 <= target -> all_level cLevel = true ->
  let r := compress_HC_destSize_all src srcSize target cLevel in
  0 < cr_ret r -> strict_valid [] (cr_out r) = Some (load_list src 0 (Z.to_nat (cr_consumed r))).
Proof.
  intros Hsrc Hsz Ht Hl. unfold compress_HC_destSize_all, cc_generic_all, all_level in *.
  pose proof cc_ok_init as [Hd|(A1 & A2)]; [discriminate Hd|].
  pose proof (cc_init_internal_ok cc_init A1 A2) as HI. cbv zeta in HI. destruct HI as (I1 & I2 & I3 & I4).
  destruct (chain_level cLevel) eqn:E.
  - apply cc_generic_fill_strict; assumption.
  - apply cc_generic_opt_fill_strict; assumption.
Qed.

Print Assumptions chain_destSize_strict.
Print Assumptions all_destSize_strict.
