(* A concrete oracle of stream calls meeting the per-call premise, and a linked-block frame with a dictionary produced by
   Model.FrameC from it: the composition theorems are not vacuous. *)
From Coq Require Import ZArith List Lia Bool.
From LZ4V Require Import Gen.Consts Spec.BlockSpec Spec.XXH32 Spec.FrameSpec Model.Mem Model.Fast Model.FastApi Model.FastStream Model.FrameC Model.FrameAudit.
From LZ4V Require Import Proofs.FastStreamMem Proofs.FastStreamProofs Proofs.FastStreamHist Proofs.FastStreamExamples.
From LZ4V Require Import Proofs.FrameCTheorems Proofs.FrameRoundTrip Proofs.BlkInstLinked Proofs.BlkInstLinkedFrame.
Import ListNotations.
Local Open Scope Z_scope.

(* LZ4_loadDict of the 81-byte dictionary at 1000, then LZ4_compress_fast_continue of the 78 bytes at 3000 and of the 63
   bytes that follow: the two calls a linked-block frame with that dictionary makes (autoFlush, blocks compressed in place) *)
Definition ex_lst1 : mem * sctx := fst (FastStream.step (ex_m, s_init) (OLoadDict 1000 81 false)).
Definition ex_lst2 : mem * sctx := fst (FastStream.step ex_lst1 (OContinue 3000 78 200 1)).
Definition ex_lorc (n : nat) : fcall :=
  match n with
  | O => mkFC (fst ex_lst1) (snd ex_lst1) 3000 78 200 1 ex_dict
  | _ => mkFC (fst ex_lst2) (snd ex_lst2) 3078 63 200 1 (ex_dict ++ ex_b1)
  end.

Lemma ex_lst1_inv : state_inv ex_lst1.
Proof. apply FastStreamProofs.step_inv; [exact ex_state | exact Logic.I]. Qed.
Lemma ex_lst2_inv : state_inv ex_lst2.
Proof. apply FastStreamProofs.step_inv; [exact ex_lst1_inv | split; [split; zle | split; [split; zle | zlt]]]. Qed.

Lemma ex_lorc_ok : forall n, fcall_ok (ex_lorc n).
Proof.
  intros [|n]; unfold fcall_ok, ex_lorc; cbn [fc_m fc_c fc_src fc_n fc_cap fc_acc fc_H].
  - destruct ex_lst1_inv as (A & B & C).
    split; [exact A|]. split; [exact B|]. split; [exact C|]. split; [split; zle|]. split; [split; zle|]. split; [zlt|].
    split; [apply list_ok_dec; vm_compute; reflexivity|]. unfold hist_inv. split; [split; zle | vm_compute; reflexivity].
  - destruct ex_lst2_inv as (A & B & C).
    split; [exact A|]. split; [exact B|]. split; [exact C|]. split; [split; zle|]. split; [split; zle|]. split; [zlt|].
    split; [apply list_ok_dec; vm_compute; reflexivity|]. unfold hist_inv. split; [split; zle | vm_compute; reflexivity].
Qed.

(* linked blocks, content checksum, block checksums, level 1, autoFlush; dictionary = the 81 bytes *)
Definition ex_lprefs : prefs := mkPrefs 4 0 1 0 0 1 1 1 0.
Definition ex_lops : list mop := [MUpdate ex_b1; MUpdate ex_b2].
Definition ex_lsession := session (blk_fast ex_lorc) cctx_zero (Some ex_lprefs) (UsingDict ex_dict) ex_lops.
Definition ex_lframe : list byte := match ex_lsession with Some (F, _) => F | None => [] end.
(* 141 bytes of content in a 98-byte frame: both blocks are stored compressed, the first one refers to the dictionary *)
Lemma ex_lsession_val : ex_lsession = Some (ex_lframe, ex_b1 ++ ex_b2) /\ length ex_lframe = 98%nat.
Proof. vm_compute. split; reflexivity. Qed.
(* the instance answers only when the history FrameC offers ends with the oracle's H *)
Lemma ex_lblk_val :
  blk_fast ex_lorc 0 ex_dict ex_b1 = Some (r_out ex_r1) /\ length (r_out ex_r1) = 20%nat /\
  blk_fast ex_lorc 1 (ex_dict ++ ex_b1) ex_b2 = Some (r_out ex_r2) /\ blk_fast ex_lorc 1 ex_b1 ex_b2 = None.
Proof. vm_compute. repeat split; reflexivity. Qed.
Lemma ex_lunc : uncompressed_only_if_independent (Some ex_lprefs) ex_lops.
Proof. intros m Hm Hu. cbn in Hm. destruct Hm as [<-|[<-|[]]]; discriminate Hu. Qed.
