(* Proofs about Model/Io.v, part 3 (C15): on a concatenation of valid frames the fault-free
   model exits 0 and writes the concatenated contents - ST model: every sequence of frames;
   MT model: every sequence in which no legacy frame follows an LZ4 frame; and a witness on
   which the MT model fails (finding F4). *)
From Coq Require Import ZArith List Lia Bool.
From LZ4V Require Import Spec.BlockSpec Spec.XXH32 Spec.FrameSpec Gen.Consts Model.Io.
From LZ4V Require Import Proofs.BlockSpecProofs Proofs.IoSpecFacts Proofs.IoProofs.
Import ListNotations.
Local Open Scope Z_scope.

(* ---------------------------------------------------------------- little-endian words *)
Lemma le_bytes_length : forall n v, length (le_bytes n v) = n.
Proof. induction n; intros v; cbn [le_bytes length]; [reflexivity|]. rewrite IHn. reflexivity. Qed.

Lemma len_le_bytes4 : forall v, len (le_bytes 4 v) = 4.
Proof. intros v. unfold len. rewrite le_bytes_length. reflexivity. Qed.

Lemma to_nat_len : forall (A : Type) (l : list A), Z.to_nat (len l) = length l.
Proof. intros. unfold len. apply Nat2Z.id. Qed.

Lemma le_val_le_bytes : forall n v, 0 <= v < 256 ^ Z.of_nat n -> le_val (le_bytes n v) = v.
Proof.
  induction n; intros v H.
  - cbn in *. lia.
  - cbn [le_bytes le_val]. rewrite Nat2Z.inj_succ, Z.pow_succ_r in H by lia.
    rewrite IHn.
    + assert (D := Z.div_mod v 256 ltac:(lia)). lia.
    + split; [apply Z.div_pos; lia|]. apply Z.div_lt_upper_bound; lia.
Qed.
Lemma le_val_le_bytes4 : forall v, 0 <= v < 4294967296 -> le_val (le_bytes 4 v) = v.
Proof. intros v H. apply (le_val_le_bytes 4). exact H. Qed.

(* ---------------------------------------------------------------- fault-free stdio *)
Definition benign (fl : faults) : Prop :=
  f_rlimit fl = None /\ f_wlimit fl = None /\ f_open_src fl = false /\ f_open_dst fl = false /\
  f_close_dst fl = false /\ f_remove fl = false.
(* [f_seek] stays arbitrary: a failing fseek is not an error, the code falls back to reading *)

(* what one step leaves: new input, appended output, magic hand-over; flags untouched *)
Definition stepto (s s' : st) (newin c : list byte) (magic : Z) : Prop :=
  s_in s' = newin /\ s_out s' = s_out s ++ c /\ s_magic s' = magic /\ s_rerr s' = s_rerr s /\ s_pasteof s' = s_pasteof s.

Lemma stepto_trans : forall a b c i1 c1 m1 i2 c2 m2,
  stepto a b i1 c1 m1 -> stepto b c i2 c2 m2 -> stepto a c i2 (c1 ++ c2) m2.
Proof.
  intros a b c i1 c1 m1 i2 c2 m2 [A1 [A2 [A3 [A4 A5]]]] [B1 [B2 [B3 [B4 B5]]]].
  repeat split; try congruence. rewrite B2, A2, app_assoc. reflexivity.
Qed.

Lemma fread_nf : forall fl n s, f_rlimit fl = None ->
  exists s1, fread fl n s = (firstn (Z.to_nat n) (s_in s), s1) /\ stepto s s1 (skipn (Z.to_nat n) (s_in s)) [] (s_magic s) /\
             s_nbFrames s1 = s_nbFrames s.
Proof.
  intros fl n s H. unfold fread. rewrite H. unfold read_plain. eexists. split; [reflexivity|].
  cbn. repeat split. rewrite app_nil_r. reflexivity.
Qed.

Lemma fwrite_nf : forall fl d s, f_wlimit fl = None ->
  exists s1, fwrite fl d s = (true, s1) /\ stepto s s1 (s_in s) d (s_magic s) /\ s_nbFrames s1 = s_nbFrames s.
Proof.
  intros fl d s H. unfold fwrite. rewrite H. eexists. split; [reflexivity|]. cbn. repeat split.
Qed.

Lemma firstn_app_le : forall (A : Type) n (a b : list A), (n <= length a)%nat -> firstn n (a ++ b) = firstn n a.
Proof. intros. rewrite firstn_app. replace (n - length a)%nat with 0%nat by lia. cbn. apply app_nil_r. Qed.
Lemma skipn_app_le : forall (A : Type) n (a b : list A), (n <= length a)%nat -> skipn n (a ++ b) = skipn n a ++ b.
Proof. intros. rewrite skipn_app. replace (n - length a)%nat with 0%nat by lia. reflexivity. Qed.

(* ---------------------------------------------------------------- fseek_u32 on enough input *)
Lemma fseek_run : forall fuel sk fl offset s,
  f_rlimit fl = None -> 0 <= offset <= len (s_in s) -> offset <= IO_FSEEK_STEPMAX * (Z.of_nat fuel - 1) -> (0 < fuel)%nat ->
  exists s2, fseek_u32 fuel sk fl offset s = (0, s2) /\ stepto s s2 (skipn (Z.to_nat offset) (s_in s)) [] (s_magic s).
Proof.
  induction fuel; intros sk fl offset s NF R FU FP; [lia|]. cbn [fseek_u32].
  destruct (offset <=? 0) eqn:E0.
  { apply Z.leb_le in E0. assert (offset = 0) by lia. subst offset. exists s. split; [reflexivity|]. cbn. repeat split. rewrite app_nil_r. reflexivity. }
  apply Z.leb_gt in E0.
  remember (if IO_FSEEK_STEPMAX <? offset then IO_FSEEK_STEPMAX else offset) as step eqn:ES.
  rewrite Nat2Z.inj_succ in FU.
  assert (ST : 0 < step <= offset /\ (offset - step <= IO_FSEEK_STEPMAX * (Z.of_nat fuel - 1)) /\ (0 < fuel)%nat).
  { subst step. destruct (IO_FSEEK_STEPMAX <? offset) eqn:E1; [apply Z.ltb_lt in E1|apply Z.ltb_ge in E1]; unfold IO_FSEEK_STEPMAX in *; lia. }
  clear ES. destruct ST as [ST1 [ST2 ST3]].
  destruct (sk && negb (f_seek fl (s_nseek s))).
  - destruct (IHfuel sk fl (offset - step) (seek_fwd step s) NF) as [s2 [E S2]].
    + cbn [seek_fwd s_in]. unfold len in *. rewrite skipn_length. lia.
    + exact ST2.
    + exact ST3.
    + exists s2. split; [exact E|]. destruct S2 as [A1 [A2 [A3 [A4 A5]]]]. cbn [seek_fwd s_in s_out s_magic s_rerr s_pasteof] in *.
      repeat split; try assumption.
      * rewrite A1, skipn_skipn'. f_equal. lia.
      * rewrite A5. replace (len (s_in s) <? step) with false by (symmetry; apply Z.ltb_ge; lia). apply orb_false_r.
  - (* fseek failed: skipStream *)
    unfold skip_stream. replace (offset <=? 0) with false by (symmetry; apply Z.leb_gt; lia).
    destruct (fread_nf fl offset (seek_fail step s) NF) as [s1 [E [S1 _]]]. rewrite E.
    cbn [seek_fail s_in] in *. unfold len in *. rewrite firstn_length.
    replace (Z.of_nat (Nat.min (Z.to_nat offset) (length (s_in s))) =? offset) with true by (symmetry; apply Z.eqb_eq; lia).
    exists s1. split; [reflexivity|]. exact S1.
Qed.

(* ---------------------------------------------------------------- frames *)
Section Concat.
  Variable bd : list byte -> list byte -> option (list byte).
  Notation fdec := (frame_decode bd false []).
  Notation bdec := (bd []).

  Inductive frame :=
  | FLz4 (bytes content : list byte)
  | FLegacy (blocks : list (list byte * list byte))        (* (compressed block, its content) *)
  | FSkip (idx : Z) (payload : list byte).

  Definition enc_block (p : list byte * list byte) : list byte := le_bytes 4 (len (fst p)) ++ fst p.
  Definition enc_blocks (bl : list (list byte * list byte)) : list byte := concat (map enc_block bl).
  Definition enc_frame (f : frame) : list byte :=
    match f with
    | FLz4 b _ => b
    | FLegacy bl => le_bytes 4 LEGACY_MAGICNUMBER ++ enc_blocks bl
    | FSkip i p => le_bytes 4 (LZ4IO_SKIPPABLE0 + i) ++ le_bytes 4 (len p) ++ p
    end.
  Definition content (f : frame) : list byte :=
    match f with
    | FLz4 _ c => c
    | FLegacy bl => concat (map snd bl)
    | FSkip _ _ => []
    end.
  Definition valid_block (p : list byte * list byte) : Prop :=
    bdec (fst p) = Some (snd p) /\ len (snd p) <= LEGACY_BLOCKSIZE /\ len (fst p) <= LZ4IO_LEGACY_BOUND.
  Definition valid_frame (f : frame) : Prop :=
    match f with
    | FLz4 b c => fdec b = Some (c, []) /\ bytes_ok b = true
    | FLegacy bl => Forall valid_block bl
    | FSkip i p => 0 <= i < 16 /\ len p < 4294967296
    end.
  Definition enc_all (fs : list frame) : list byte := concat (map enc_frame fs).
  Definition contents (fs : list frame) : list byte := concat (map content fs).

  (* every frame starts with a 4-byte magic number above the legacy block bound *)
  Definition magic_of (f : frame) : Z :=
    match f with FLz4 _ _ => LZ4IO_MAGICNUMBER | FLegacy _ => LEGACY_MAGICNUMBER | FSkip i _ => LZ4IO_SKIPPABLE0 + i end.

  Lemma enc_frame_head : forall f, valid_frame f ->
    exists body, enc_frame f = le_bytes 4 (magic_of f) ++ body /\ LZ4IO_LEGACY_BOUND < magic_of f < 4294967296.
  Proof.
    intros f V. destruct f as [b c|bl|i p]; cbn [enc_frame magic_of valid_frame] in *.
    - destruct V as [V BO]. destruct (frame_decode_suffix _ _ _ _ _ _ V) as [pre [EP [LP [F4 MG]]]].
      exists (skipn 4 b). split; [|unfold LZ4IO_LEGACY_BOUND, LZ4IO_MAGICNUMBER; lia].
      rewrite <- (firstn_skipn 4 b) at 1. f_equal.
      assert (L4 : length (firstn 4 b) = 4%nat).
      { rewrite firstn_length. rewrite EP, app_length. lia. }
      change LZ4IO_MAGICNUMBER with MAGIC. rewrite <- MG. rewrite <- L4 at 2. symmetry. apply le_bytes_le_val.
      apply bytes_ok_firstn. exact BO.
    - exists (enc_blocks bl). split; [reflexivity|]. unfold LZ4IO_LEGACY_BOUND, LEGACY_MAGICNUMBER. lia.
    - exists (le_bytes 4 (len p) ++ p). split; [reflexivity|]. unfold LZ4IO_LEGACY_BOUND, LZ4IO_SKIPPABLE0. lia.
  Qed.

  Definition starts_with_magic (bs : list byte) : Prop :=
    bs = [] \/ exists m body, bs = le_bytes 4 m ++ body /\ LZ4IO_LEGACY_BOUND < m < 4294967296.

  Lemma enc_all_starts : forall fs, Forall valid_frame fs -> starts_with_magic (enc_all fs).
  Proof.
    intros fs V. destruct fs as [|f fs]; [left; reflexivity|]. right.
    inversion V as [|? ? Vf Vr]; subst. destruct (enc_frame_head f Vf) as [body [E R]].
    exists (magic_of f), (body ++ enc_all fs). split; [|exact R].
    unfold enc_all. cbn [map concat]. rewrite E, <- app_assoc. reflexivity.
  Qed.

  Lemma enc_all_length : forall fs, Forall valid_frame fs -> (4 * length fs <= length (enc_all fs))%nat.
  Proof.
    induction fs as [|f fs IH]; intros V; [cbn; lia|]. inversion V as [|? ? Vf Vr]; subst.
    destruct (enc_frame_head f Vf) as [body [E R]]. unfold enc_all in *. cbn [map concat length].
    rewrite app_length, E, app_length, le_bytes_length. specialize (IH Vr).
    set (x := length (concat (map enc_frame fs))) in *. set (y := length fs) in *. set (z := length body). clearbody x y z. clear - IH. lia.
  Qed.

  Lemma enc_blocks_length : forall bl, (length bl <= length (enc_blocks bl))%nat.
  Proof.
    induction bl as [|x bl IH]; [cbn; lia|]. unfold enc_blocks in *. cbn [map concat length].
    rewrite app_length. unfold enc_block at 1. rewrite app_length, le_bytes_length. lia.
  Qed.

  (* ---------------------------------------------------------------- legacy frame body *)
  Lemma legacy_loop_run : forall bl fuel mt fl s tail,
    f_rlimit fl = None -> f_wlimit fl = None -> Forall valid_block bl ->
    s_in s = enc_blocks bl ++ tail -> starts_with_magic tail -> (length bl < fuel)%nat ->
    exists s', legacy_loop bdec fuel mt fl s = Ret tt s' /\
      ((tail = [] /\ stepto s s' [] (concat (map snd bl)) (s_magic s)) \/
       (exists m body, tail = le_bytes 4 m ++ body /\ LZ4IO_LEGACY_BOUND < m < 4294967296 /\ stepto s s' body (concat (map snd bl)) m)).
  Proof.
    induction bl as [|[blk c] bl IH]; intros fuel mt fl s tail NR NW V EI SM LF; (destruct fuel; [lia|]); cbn [legacy_loop].
    - cbn [enc_blocks map concat app] in EI.
      destruct (fread_nf fl IO_LEGACY_BLOCK_HEADER_SIZE s NR) as [s1 [E1 [T1 _]]]. rewrite E1. clear E1.
      change (Z.to_nat IO_LEGACY_BLOCK_HEADER_SIZE) with 4%nat in *. rewrite EI in *.
      destruct SM as [->|[m [body [-> RM]]]].
      + cbn. exists s1. split; [reflexivity|]. left. split; [reflexivity|exact T1].
      + rewrite firstn_app_exact in * by apply le_bytes_length. rewrite skipn_app_exact in T1 by apply le_bytes_length.
        rewrite !len_le_bytes4. change (4 =? 0) with false. change (4 =? IO_LEGACY_BLOCK_HEADER_SIZE) with true. cbn [negb].
        rewrite le_val_le_bytes4 by (unfold LZ4IO_LEGACY_BOUND in RM; lia).
        replace (LZ4IO_LEGACY_BOUND <? m) with true by (symmetry; apply Z.ltb_lt; lia).
        eexists. split; [reflexivity|]. right. exists m, body. split; [reflexivity|]. split; [exact RM|].
        destruct T1 as [A1 [A2 [A3 [A4 A5]]]]. cbn. repeat split; assumption.
    - inversion V as [|? ? [VB [VC VL]] Vr]; subst. cbn [fst snd] in *.
      unfold enc_blocks in EI. cbn [map concat] in EI. unfold enc_block in EI at 1. cbn [fst] in EI. rewrite <- !app_assoc in EI.
      fold (enc_blocks bl) in EI.
      assert (RB : 0 <= len blk < 4294967296) by (unfold len, LZ4IO_LEGACY_BOUND in *; lia).
      destruct (fread_nf fl IO_LEGACY_BLOCK_HEADER_SIZE s NR) as [s1 [E1 [T1 _]]]. rewrite E1. clear E1.
      change (Z.to_nat IO_LEGACY_BLOCK_HEADER_SIZE) with 4%nat in *. rewrite EI in *.
      rewrite firstn_app_exact in * by apply le_bytes_length. rewrite skipn_app_exact in T1 by apply le_bytes_length.
      rewrite !len_le_bytes4. change (4 =? 0) with false. change (4 =? IO_LEGACY_BLOCK_HEADER_SIZE) with true. cbn [negb].
      rewrite le_val_le_bytes4 by exact RB.
      replace (LZ4IO_LEGACY_BOUND <? len blk) with false by (symmetry; apply Z.ltb_ge; lia).
      destruct (fread_nf fl (len blk) s1 NR) as [s2 [E2 [T2 _]]]. rewrite E2. clear E2.
      destruct T1 as [A1 [A2 [A3 [A4 A5]]]]. rewrite A1 in *.
      rewrite to_nat_len in *.
      rewrite firstn_app_exact by reflexivity. rewrite skipn_app_exact in T2 by reflexivity.
      rewrite Z.eqb_refl. cbn [negb]. rewrite VB.
      replace (LEGACY_BLOCKSIZE <? len c) with false by (symmetry; apply Z.ltb_ge; lia).
      destruct (fwrite_nf fl c s2 NW) as [s3 [E3 [T3 _]]]. rewrite E3. clear E3.
      destruct T2 as [B1 [B2 [B3 [B4 B5]]]]. destruct T3 as [C1 [C2 [C3 [C4 C5]]]].
      destruct (IH fuel mt fl s3 tail NR NW Vr ltac:(rewrite C1, B1; reflexivity) SM ltac:(cbn in LF; lia)) as [s' [E [[-> T]|[m [body [-> [RM T]]]]]]].
      + exists s'. split; [exact E|]. left. split; [reflexivity|]. destruct T as [D1 [D2 [D3 [D4 D5]]]].
        cbn [map concat snd]. repeat split; try congruence.
        rewrite D2, C2, B2, A2, !app_nil_r, app_assoc. reflexivity.
      + exists s'. split; [exact E|]. right. exists m, body. split; [reflexivity|]. split; [exact RM|].
        destruct T as [D1 [D2 [D3 [D4 D5]]]]. cbn [map concat snd]. repeat split; try congruence.
        rewrite D2, C2, B2, A2, !app_nil_r, app_assoc. reflexivity.
  Qed.

  (* ---------------------------------------------------------------- one frame through selectDecoder *)
  Definition at_frames (s : st) (bs : list byte) : Prop :=
    (s_magic s = 0 /\ s_in s = bs) \/
    (exists m body, bs = le_bytes 4 m ++ body /\ LZ4IO_LEGACY_BOUND < m < 4294967296 /\ s_magic s = m /\ s_in s = body).

  Definition is_lz4 (f : frame) : bool := match f with FLz4 _ _ => true | _ => false end.
  Definition is_legacy (f : frame) : bool := match f with FLegacy _ => true | _ => false end.

  Lemma app_eq_len : forall (A : Type) (a b x y : list A), a ++ x = b ++ y -> length a = length b -> a = b /\ x = y.
  Proof.
    induction a as [|h a IH]; intros b x y E L; destruct b as [|h' b]; cbn in *; try lia; [auto|].
    inversion E; subst. destruct (IH b x y H1 ltac:(lia)) as [-> ->]. auto.
  Qed.

  (* what dispatch sees, whichever way the magic number arrived *)
  Lemma select_to_dispatch : forall mt test sk fl s m body,
    f_rlimit fl = None -> at_frames s (le_bytes 4 m ++ body) -> LZ4IO_LEGACY_BOUND < m < 4294967296 ->
    exists mn s1, select_decoder fdec bdec mt test false sk fl s = dispatch fdec bdec mt test false sk fl m mn s1 /\
                  stepto s s1 body [] 0.
  Proof.
    intros mt test sk fl s m body NR AF RM. unfold select_decoder.
    assert (RM' : 0 <= m < 4294967296) by (unfold LZ4IO_LEGACY_BOUND in RM; lia).
    destruct AF as [[Z0 EI]|[m' [body' [EB [RM2 [EM EI]]]]]].
    - cbn [set_nb s_magic]. replace (s_magic s =? 0) with true by (symmetry; apply Z.eqb_eq; exact Z0). cbn [negb].
      destruct (fread_nf fl MAGICNUMBER_SIZE (set_nb (s_nbFrames s + 1) s) NR) as [s1 [E1 [T1 _]]]. rewrite E1. clear E1.
      change (Z.to_nat MAGICNUMBER_SIZE) with 4%nat in *. cbn [set_nb s_in s_out s_magic s_rerr s_pasteof] in *.
      destruct T1 as [A1 [A2 [A3 [A4 A5]]]]. cbn [set_nb s_in s_out s_magic s_rerr s_pasteof] in *.
      rewrite EI in *. rewrite firstn_app_exact by apply le_bytes_length. rewrite skipn_app_exact in A1 by apply le_bytes_length.
      rewrite len_le_bytes4. change (4 =? 0) with false. change (4 =? MAGICNUMBER_SIZE) with true. cbn [negb].
      rewrite le_val_le_bytes4 by exact RM'.
      exists (le_bytes 4 m), s1. split; [reflexivity|]. repeat split; try assumption. congruence.
    - apply app_eq_len in EB; [|rewrite !le_bytes_length; reflexivity]. destruct EB as [EB1 EB2]. subst body'.
      assert (EMM : m' = m).
      { rewrite <- (le_val_le_bytes4 m RM'). rewrite EB1. symmetry. apply le_val_le_bytes4. unfold LZ4IO_LEGACY_BOUND in RM2. lia. }
      rewrite EMM in *. clear EMM. cbn [set_nb s_magic].
      replace (s_magic s =? 0) with false by (symmetry; apply Z.eqb_neq; unfold LZ4IO_LEGACY_BOUND in RM; lia). cbn [negb].
      rewrite EM. eexists [], _. split; [reflexivity|]. cbn. repeat split; try assumption. rewrite app_nil_r. reflexivity.
  Qed.

  Lemma magic_not_skippable : is_skippable LZ4IO_MAGICNUMBER = false /\ is_skippable LEGACY_MAGICNUMBER = false.
  Proof. split; reflexivity. Qed.

  Lemma skippable_idx : forall i, 0 <= i < 16 -> is_skippable (LZ4IO_SKIPPABLE0 + i) = true.
  Proof.
    intros i H. unfold is_skippable. rewrite skippable_mask_range by (unfold LZ4IO_SKIPPABLE0; lia).
    unfold MAGIC_SKIP_LO, MAGIC_SKIP_HI, LZ4IO_SKIPPABLE0. apply andb_true_iff. split; apply Z.leb_le; lia.
  Qed.

  (* one valid frame: the ST path, and the MT path for legacy / skippable frames *)
  Lemma select_run : forall f rest mt sk fl s,
    benign fl -> valid_frame f -> (mt = true -> is_lz4 f = false) ->
    at_frames s (enc_frame f ++ rest) -> starts_with_magic rest -> s_rerr s = false ->
    exists s', select_decoder fdec bdec mt false false sk fl s = Ret DFrame s' /\
      at_frames s' rest /\ s_out s' = s_out s ++ content f /\ s_rerr s' = false /\ s_pasteof s' = s_pasteof s.
  Proof.
    intros f rest mt sk fl s [NR [NW _]] V MTL AF SM RE.
    destruct (enc_frame_head f V) as [body [EH RM]].
    rewrite EH, <- app_assoc in AF.
    destruct (select_to_dispatch mt false sk fl s _ _ NR AF RM) as [mn [s1 [ES T1]]]. rewrite ES. clear ES.
    destruct T1 as [A1 [A2 [A3 [A4 A5]]]]. rewrite app_nil_r in A2.
    unfold dispatch.
    destruct f as [b c|bl|i p]; cbn [magic_of enc_frame content valid_frame is_lz4] in *.
    - (* LZ4 frame, ST *)
      destruct V as [V BO]. destruct mt; [specialize (MTL eq_refl); discriminate|].
      replace (is_skippable LZ4IO_MAGICNUMBER) with false by reflexivity. rewrite Z.eqb_refl.
      unfold lz4f_st. rewrite A1. rewrite app_assoc, <- EH.
      rewrite (frame_decode_ext _ _ _ _ _ _ rest V). cbn [app]. rewrite NR.
      destruct (fwrite_nf fl c (mkSt rest (s_rpos s1 + (len (body ++ rest) - len rest)) (s_rerr s1) (s_nseek s1) (s_out s1) (s_wpos s1)
                                    (ERead (len (body ++ rest) - len rest) (len (body ++ rest) - len rest) false :: s_tr s1)
                                    (s_magic s1) (s_nbFrames s1) (s_pasteof s1)) NW) as [s2 [E2 [T2 _]]].
      rewrite E2. clear E2. cbn [lift]. exists s2. split; [reflexivity|].
      destruct T2 as [B1 [B2 [B3 [B4 B5]]]]. cbn [s_in s_out s_magic s_rerr s_pasteof] in *.
      split; [left; split; congruence|]. repeat split; congruence.
    - (* legacy frame *)
      replace (is_skippable LEGACY_MAGICNUMBER) with false by reflexivity.
      change (LEGACY_MAGICNUMBER =? LZ4IO_MAGICNUMBER) with false. rewrite Z.eqb_refl.
      assert (EB : body = enc_blocks bl).
      { apply app_eq_len in EH; [destruct EH as [_ EH]; symmetry; exact EH|rewrite !le_bytes_length; reflexivity]. }
      subst body. unfold legacy.
      destruct (legacy_loop_run bl (S (length (s_in s1))) mt fl s1 rest NR NW V A1 SM) as [s' [E P]].
      { rewrite A1, app_length. assert (H := enc_blocks_length bl). lia. }
      rewrite E. clear E.
      destruct P as [[-> T]|[m [bd' [-> [RM2 T]]]]]; destruct T as [B1 [B2 [B3 [B4 B5]]]];
        (replace (s_rerr s') with false by congruence); cbn [lift]; exists s'; (split; [reflexivity|]).
      + split; [left; split; congruence|]. repeat split; congruence.
      + split; [right; exists m, bd'; repeat split; try tauto; congruence|]. repeat split; congruence.
    - (* skippable frame *)
      destruct V as [VI VP]. rewrite (skippable_idx i VI).
      change (LZ4IO_SKIPPABLE0 =? LZ4IO_MAGICNUMBER) with false.
      change (LZ4IO_SKIPPABLE0 =? LEGACY_MAGICNUMBER) with false. rewrite Z.eqb_refl.
      assert (EB : body = le_bytes 4 (len p) ++ p).
      { apply app_eq_len in EH; [destruct EH as [_ EH]; symmetry; exact EH|rewrite !le_bytes_length; reflexivity]. }
      subst body. rewrite <- app_assoc in A1.
      destruct (fread_nf fl 4 s1 NR) as [s2 [E2 [T2 _]]]. rewrite E2. clear E2.
      change (Z.to_nat 4) with 4%nat in *. rewrite A1 in *.
      rewrite firstn_app_exact by apply le_bytes_length. rewrite skipn_app_exact in T2 by apply le_bytes_length.
      rewrite len_le_bytes4. change (4 =? 4) with true. cbn [negb].
      assert (RP : 0 <= len p < 4294967296) by (unfold len in *; lia).
      rewrite le_val_le_bytes4 by exact RP.
      destruct T2 as [B1 [B2 [B3 [B4 B5]]]].
      destruct (fseek_run 6 sk fl (len p) s2 NR) as [s3 [E3 T3]].
      { rewrite B1, len_app. assert (H := len_nonneg _ rest). lia. }
      { unfold IO_FSEEK_STEPMAX. cbn. lia. }
      { lia. }
      rewrite E3. clear E3. cbn [Z.eqb]. exists s3. split; [reflexivity|].
      destruct T3 as [C1 [C2 [C3 [C4 C5]]]]. rewrite B1, to_nat_len, skipn_app_exact in C1 by reflexivity.
      rewrite !app_nil_r in *.
      split; [left; split; congruence|]. repeat split; congruence.
  Qed.

  (* ---------------------------------------------------------------- the frame loop on a list of frames *)
  Lemma enc_all_cons : forall f fs, enc_all (f :: fs) = enc_frame f ++ enc_all fs.
  Proof. reflexivity. Qed.
  Lemma contents_cons : forall f fs, contents (f :: fs) = content f ++ contents fs.
  Proof. reflexivity. Qed.

  Lemma frames_loop_run : forall fs fuel mt sk fl s,
    benign fl -> Forall valid_frame fs -> (mt = true -> Forall (fun f => is_lz4 f = false) fs) ->
    at_frames s (enc_all fs) -> s_rerr s = false -> (length fs < fuel)%nat ->
    exists s', frames_loop fdec bdec fuel mt false false sk fl s = Ret 0 s' /\
       s_out s' = s_out s ++ contents fs /\ s_rerr s' = false /\ s_pasteof s' = s_pasteof s.
  Proof.
    induction fs as [|f fs IH]; intros fuel mt sk fl s BN V MTL AF RE LF; (destruct fuel; [cbn in LF; lia|]); cbn [frames_loop].
    - destruct AF as [[Z0 EI]|[m [body [EB _]]]].
      2:{ exfalso. apply (f_equal (@length byte)) in EB. rewrite app_length, le_bytes_length in EB. cbn in EB. lia. }
      destruct BN as [NR _]. unfold select_decoder. cbn [set_nb s_magic].
      replace (s_magic s =? 0) with true by (symmetry; apply Z.eqb_eq; exact Z0). cbn [negb].
      destruct (fread_nf fl MAGICNUMBER_SIZE (set_nb (s_nbFrames s + 1) s) NR) as [s1 [E1 [T1 _]]]. rewrite E1. clear E1.
      cbn [set_nb s_in] in *. rewrite EI in *. cbn [enc_all map concat firstn skipn] in *.
      replace (firstn (Z.to_nat MAGICNUMBER_SIZE) []) with (@nil byte) by (destruct (Z.to_nat MAGICNUMBER_SIZE); reflexivity).
      cbn [len length Z.of_nat Z.eqb].
      destruct T1 as [A1 [A2 [A3 [A4 A5]]]]. cbn [set_nb s_in s_out s_magic s_rerr s_pasteof] in *.
      rewrite A4, RE. eexists. split; [reflexivity|]. cbn [set_nb s_out s_rerr s_pasteof contents map concat].
      repeat split; congruence.
    - inversion V as [|? ? Vf Vr]; subst. rewrite enc_all_cons in AF.
      assert (MTf : mt = true -> is_lz4 f = false) by (intros M; specialize (MTL M); inversion MTL; assumption).
      destruct (select_run f (enc_all fs) mt sk fl s BN Vf MTf AF (enc_all_starts fs Vr) RE) as [s1 [ES [AF1 [O1 [R1 P1]]]]].
      rewrite ES. clear ES.
      destruct (IH fuel mt sk fl s1 BN Vr ltac:(intros M; specialize (MTL M); inversion MTL; assumption) AF1 R1 ltac:(cbn in LF; lia))
        as [s' [E [O2 [R2 P2]]]].
      exists s'. split; [exact E|]. rewrite contents_cons. repeat split; try congruence. rewrite O2, O1, app_assoc. reflexivity.
  Qed.

  (* C15_st_concat *)
  Theorem st_concat : forall fs sk rm fl,
    benign fl -> Forall valid_frame fs ->
    let o := decompress_file fdec bdec false false false sk rm fl (enc_all fs) in
    o_exit o = 0 /\ o_out o = contents fs /\ o_pasteof o = false /\ (rm = true -> o_removed o = true).
  Proof.
    intros fs sk rm fl BN V o. subst o.
    assert (BN' := BN). destruct BN' as [NR [NW [OS [OD [CD RMF]]]]].
    unfold decompress_file, decompress_dst, decompress_src. rewrite OD, OS. cbn [ev s_in st_init].
    destruct (frames_loop_run fs (2 * length (enc_all fs) + 3) false sk fl
                (ev (EOpenSrc true) (ev (EOpenDst true) (st_init (enc_all fs) 0))) BN V ltac:(intros D; discriminate))
      as [s' [E [O [R P]]]].
    { left. split; reflexivity. }
    { reflexivity. }
    { assert (H := enc_all_length fs V). lia. }
    rewrite E. unfold close_and_remove. rewrite CD. cbn [Z.eqb andb].
    destruct rm; [rewrite RMF|]; cbn; (split; [reflexivity|]); (split; [exact O|]); (split; [exact P|]); [reflexivity|intros D; discriminate].
  Qed.

  (* ---------------------------------------------------------------- MT: LZ4F_decompress fed to EOF *)
  Lemma mt_frames_run : forall fs fuel fl s,
    f_wlimit fl = None -> Forall valid_frame fs -> Forall (fun f => is_legacy f = false) fs -> (length fs < fuel)%nat ->
    exists s', mt_frames fdec fuel fl (enc_all fs) s = Ret tt s' /\ stepto s s' (s_in s) (contents fs) (s_magic s).
  Proof.
    induction fs as [|f fs IH]; intros fuel fl s NW V NL LF; (destruct fuel; [cbn in LF; lia|]); cbn [mt_frames].
    - cbn. exists s. split; [reflexivity|]. repeat split. rewrite app_nil_r. reflexivity.
    - inversion V as [|? ? Vf Vr]; subst. inversion NL as [|? ? NLf NLr]; subst.
      rewrite enc_all_cons, contents_cons.
      destruct (enc_frame_head f Vf) as [body [EH RM]].
      assert (L7 : 7 <= len (enc_frame f ++ enc_all fs)).
      { rewrite len_app. assert (H := len_nonneg _ (enc_all fs)).
        destruct f as [b c|bl|i p]; cbn [enc_frame valid_frame is_legacy] in *; [|discriminate|].
        - destruct Vf as [Vf _]. destruct (frame_decode_suffix _ _ _ _ _ _ Vf) as [pre [EP [LP _]]]. unfold len. rewrite EP, app_length. lia.
        - rewrite !len_app, !len_le_bytes4. assert (H2 := len_nonneg _ p). lia. }
      destruct (enc_frame f ++ enc_all fs) as [|d0 dr] eqn:ED; [cbn in L7; lia|]. rewrite <- ED in *. clear ED d0 dr.
      replace (len (enc_frame f ++ enc_all fs) <? minFHSize) with false by (symmetry; apply Z.ltb_ge; unfold minFHSize; lia).
      assert (M4 : le_val (firstn 4 (enc_frame f ++ enc_all fs)) = magic_of f).
      { rewrite EH, <- app_assoc, firstn_app_exact by apply le_bytes_length. apply le_val_le_bytes4. unfold LZ4IO_LEGACY_BOUND in RM. lia. }
      rewrite M4.
      destruct f as [b c|bl|i p]; cbn [magic_of enc_frame content valid_frame is_legacy] in *; [|discriminate|].
      + destruct Vf as [Vf BO].
        replace (Z.land LZ4IO_MAGICNUMBER LZ4IO_SKIPPABLEMASK =? LZ4IO_SKIPPABLE0) with false by reflexivity.
        rewrite Z.eqb_refl. rewrite (frame_decode_ext _ _ _ _ _ _ (enc_all fs) Vf). cbn [app].
        destruct (fwrite_nf fl c s NW) as [s1 [E1 [T1 _]]]. rewrite E1. clear E1.
        destruct (IH fuel fl s1 NW Vr NLr ltac:(cbn in LF; lia)) as [s' [E T]].
        exists s'. split; [exact E|]. destruct T1 as [A1 [A2 [A3 [A4 A5]]]]. destruct T as [B1 [B2 [B3 [B4 B5]]]].
        repeat split; try congruence. rewrite B2, A2, app_assoc. reflexivity.
      + destruct Vf as [VI VP].
        assert (SKI := skippable_idx i VI). unfold is_skippable in SKI. rewrite SKI.
        assert (RP : 0 <= len p < 4294967296) by (unfold len in *; lia).
        assert (L8 : 8 <= len ((le_bytes 4 (LZ4IO_SKIPPABLE0 + i) ++ le_bytes 4 (len p) ++ p) ++ enc_all fs)).
        { rewrite !len_app, !len_le_bytes4. assert (H1 := len_nonneg _ p). assert (H2 := len_nonneg _ (enc_all fs)). lia. }
        replace (len ((le_bytes 4 (LZ4IO_SKIPPABLE0 + i) ++ le_bytes 4 (len p) ++ p) ++ enc_all fs) <? 8) with false
          by (symmetry; apply Z.ltb_ge; exact L8).
        rewrite <- !app_assoc. rewrite skipn_app_exact by apply le_bytes_length.
        rewrite firstn_app_exact by apply le_bytes_length. rewrite le_val_le_bytes4 by exact RP.
        replace (len (le_bytes 4 (LZ4IO_SKIPPABLE0 + i) ++ le_bytes 4 (len p) ++ p ++ enc_all fs) - 8 <? len p) with false.
        2:{ symmetry. apply Z.ltb_ge. rewrite !len_app, !len_le_bytes4. assert (H2 := len_nonneg _ (enc_all fs)). lia. }
        replace (skipn (Z.to_nat (8 + len p)) (le_bytes 4 (LZ4IO_SKIPPABLE0 + i) ++ le_bytes 4 (len p) ++ p ++ enc_all fs)) with (enc_all fs).
        2:{ symmetry. rewrite !app_assoc. apply skipn_app_exact. rewrite !app_length, !le_bytes_length. unfold len. lia. }
        destruct (IH fuel fl s NW Vr NLr ltac:(cbn in LF; lia)) as [s' [E T]].
        exists s'. split; [exact E|]. exact T.
  Qed.

  Fixpoint mt_ok (fs : list frame) : Prop :=
    match fs with
    | [] => True
    | f :: r => if is_lz4 f then Forall (fun g => is_legacy g = false) r else mt_ok r
    end.

  Lemma frames_loop_run_mt : forall fs fuel sk fl s,
    benign fl -> Forall valid_frame fs -> mt_ok fs ->
    at_frames s (enc_all fs) -> s_rerr s = false -> (length fs + 1 < fuel)%nat ->
    exists s', frames_loop fdec bdec fuel true false false sk fl s = Ret 0 s' /\
       s_out s' = s_out s ++ contents fs /\ s_rerr s' = false /\ s_pasteof s' = s_pasteof s.
  Proof.
    induction fs as [|f fs IH]; intros fuel sk fl s BN V OK AF RE LF.
    - apply frames_loop_run; try assumption; [intros _; constructor|cbn in *; lia].
    - inversion V as [|? ? Vf Vr]; subst. cbn [mt_ok] in OK.
      destruct (is_lz4 f) eqn:LZ.
      + (* the first LZ4 frame: the library is fed everything that follows *)
        destruct f as [b c|bl|i p]; cbn [is_lz4] in LZ; try discriminate.
        destruct fuel as [|fuel]; [cbn in LF; lia|]. cbn [frames_loop].
        rewrite enc_all_cons in AF.
        destruct (enc_frame_head _ Vf) as [body [EH RM]]. cbn [enc_frame magic_of] in EH, RM.
        assert (BN' := BN). destruct BN' as [NR [NW _]].
        cbn [enc_frame] in AF. rewrite EH, <- app_assoc in AF.
        destruct (select_to_dispatch true false sk fl s _ _ NR AF RM) as [mn [s1 [ES T1]]]. rewrite ES. clear ES.
        destruct T1 as [A1 [A2 [A3 [A4 A5]]]]. rewrite app_nil_r in A2.
        unfold dispatch. replace (is_skippable LZ4IO_MAGICNUMBER) with false by reflexivity. rewrite Z.eqb_refl.
        unfold lz4f_mt.
        destruct (fread_nf fl (len (s_in s1) + 1) s1 NR) as [s2 [E2 [T2 _]]]. rewrite E2. clear E2.
        destruct T2 as [B1 [B2 [B3 [B4 B5]]]].
        rewrite firstn_all2 by (unfold len; lia). rewrite skipn_all2 in B1 by (unfold len; lia).
        rewrite B4, A4, RE. rewrite A1.
        replace (le_bytes 4 LZ4IO_MAGICNUMBER ++ body ++ enc_all fs) with (enc_all (FLz4 b c :: fs))
          by (rewrite enc_all_cons; cbn [enc_frame]; rewrite EH, <- app_assoc; reflexivity).
        destruct (mt_frames_run (FLz4 b c :: fs) (S (length (body ++ enc_all fs) + 4)) fl s2 NW V
                    ltac:(constructor; [reflexivity|exact OK])) as [s3 [E3 T3]].
        { assert (H := enc_all_length (FLz4 b c :: fs) V). rewrite enc_all_cons in H. cbn [enc_frame] in H.
          rewrite EH, <- app_assoc, app_length, le_bytes_length in H. cbn [length] in *. lia. }
        rewrite E3. clear E3. cbn [lift].
        destruct T3 as [C1 [C2 [C3 [C4 C5]]]].
        destruct (frames_loop_run [] fuel true sk fl s3 BN ltac:(constructor) ltac:(intros _; constructor)) as [s' [E [O [R P]]]].
        { left. cbn [enc_all map concat]. split; congruence. }
        { congruence. }
        { cbn in *; lia. }
        rewrite E. exists s'. split; [reflexivity|]. cbn [contents map concat] in O. rewrite app_nil_r in O.
        repeat split; try congruence. rewrite O, C2, B2, app_nil_r, A2. reflexivity.
      + destruct fuel; [cbn in LF; lia|]. cbn [frames_loop]. rewrite enc_all_cons in AF.
        destruct (select_run f (enc_all fs) true sk fl s BN Vf ltac:(intros _; exact LZ) AF (enc_all_starts fs Vr) RE) as [s1 [ES [AF1 [O1 [R1 P1]]]]].
        rewrite ES. clear ES.
        destruct (IH fuel sk fl s1 BN Vr OK AF1 R1 ltac:(cbn in LF; lia)) as [s' [E [O2 [R2 P2]]]].
        exists s'. split; [exact E|]. rewrite contents_cons. repeat split; try congruence. rewrite O2, O1, app_assoc. reflexivity.
  Qed.

  (* C15_mt_concat_partial *)
  Theorem mt_concat_partial : forall fs sk rm fl,
    benign fl -> Forall valid_frame fs -> mt_ok fs ->
    let o := decompress_file fdec bdec true false false sk rm fl (enc_all fs) in
    o_exit o = 0 /\ o_out o = contents fs /\ o_pasteof o = false /\ (rm = true -> o_removed o = true).
  Proof.
    intros fs sk rm fl BN V OK o. subst o.
    assert (BN' := BN). destruct BN' as [NR [NW [OS [OD [CD RMF]]]]].
    unfold decompress_file, decompress_dst, decompress_src. rewrite OD, OS. cbn [ev s_in st_init].
    destruct (frames_loop_run_mt fs (2 * length (enc_all fs) + 3) sk fl
                (ev (EOpenSrc true) (ev (EOpenDst true) (st_init (enc_all fs) 0))) BN V OK)
      as [s' [E [O [R P]]]].
    { left. split; reflexivity. }
    { reflexivity. }
    { assert (H := enc_all_length fs V). lia. }
    rewrite E. unfold close_and_remove. rewrite CD. cbn [Z.eqb andb].
    destruct rm; [rewrite RMF|]; cbn; (split; [reflexivity|]); (split; [exact O|]); (split; [exact P|]); [reflexivity|intros D; discriminate].
  Qed.
End Concat.

(* ------------------------------------------------------------------ finding F4: the MT model fails on LZ4 frame ++ legacy frame *)
Definition f4_lz4 : list byte := [4; 34; 77; 24; 96; 64; 130; 0; 0; 0; 0].           (* empty LZ4 frame *)
Definition f4_block : list byte := [80; 97; 98; 99; 100; 101].                        (* token 0x50, 5 literals *)
Definition f4_witness : list frame := [FLz4 f4_lz4 []; FLegacy [(f4_block, [97; 98; 99; 100; 101])]].

Theorem mt_refuted :
  Forall (valid_frame spec_decode) f4_witness /\
  o_exit (decompress_file spec_fdec spec_bdec true false false true false no_faults (enc_all f4_witness)) = 34 /\
  o_exit (decompress_file spec_fdec spec_bdec true false false false false no_faults (enc_all f4_witness)) = 34 /\
  (let o := decompress_file spec_fdec spec_bdec false false false true false no_faults (enc_all f4_witness) in
   o_exit o = 0 /\ o_out o = contents f4_witness).
Proof.
  split; [repeat constructor; vm_compute; try reflexivity; intros D; discriminate|].
  split; [vm_compute; reflexivity|]. split; [vm_compute; reflexivity|]. vm_compute. split; reflexivity.
Qed.

(* the full-strength MT statement (no restriction on the order of frames) is false for the current code *)
Definition mt_concat_full_statement : Prop :=
  forall fs sk rm fl, benign fl -> Forall (valid_frame spec_decode) fs ->
    let o := decompress_file spec_fdec spec_bdec true false false sk rm fl (enc_all fs) in
    o_exit o = 0 /\ o_out o = contents fs.

Theorem mt_full_refuted : ~ mt_concat_full_statement.
Proof.
  intros H. destruct mt_refuted as [V [E _]].
  destruct (H f4_witness true false no_faults ltac:(repeat split) V) as [E0 _].
  rewrite E in E0. discriminate.
Qed.
