(* The walk of LZ4HC_compress_hashChain (Model.HcChain.hc_run: main loop, _Search2, _Search3) preserves
   - the factorisation invariant (Proofs.HcChainSound) : every sequence written is a verified match or a
     sub-range of one (start moved forward, length cut: `match_ok` is closed under both);
   - the capacity invariant (Proofs.HcChainCap);
   - the geometry the C code relies on without stating it (e.g. that `m1.len = start2 - ip` is >= MINMATCH);
   and a measure decreases at every step, so the fuel of the model suffices.
   Results: hc_compress_sound, hc_compress_cap. *)
From Coq Require Import ZArith List Lia Bool ZifyBool.
From LZ4V Require Import Gen.Consts Spec.BlockSpec Model.Mem Model.Fast Model.HcEmit Model.HcMid Model.HcChain.
From LZ4V Require Import Proofs.BlockSpecProofs Proofs.FactorSpec Proofs.FastBasics Proofs.FastCap Proofs.HcEmitProofs.
From LZ4V Require Import Proofs.HcMidSound Proofs.HcMidCap Proofs.HcChainSearch Proofs.HcChainSound Proofs.HcChainCap Proofs.HcChainFill.
Import ListNotations.
Local Open Scope Z_scope.

Lemma hm_eta m : mkHM (hm_off m) (hm_len m) (hm_back m) = m.
Proof. destruct m; reflexivity. Qed.

Section Parser.
  Variable vrd : Z -> Z.
  Variable lim : outdir.
  Variables prefixIdx dictIdx s0 srcSize maxOut nb : Z.
  Hypothesis Hb : forall a, 0 <= vrd a < 256.
  Hypothesis Hidx : 65536 <= dictIdx /\ dictIdx <= prefixIdx /\ prefixIdx <= s0 /\ s0 + srcSize < M32 - 65536.
  Hypothesis Hsz : 0 <= srcSize.
  Hypothesis Hmo : 0 <= maxOut.

  Notation iend := (hc_iend s0 srcSize).
  Notation mflimit := (hc_mflimit s0 srcSize).
  Notation matchlimit := (hc_matchlimit s0 srcSize).
  Notation lo := dictIdx.
  Notation oes := (coe lim maxOut).
  Notation Base := (Base vrd dictIdx s0 srcSize).
  Notation CInv := (CInv lim s0 srcSize maxOut).
  Notation RSpec := (RSpec vrd lim dictIdx s0 srcSize).
  Notation RCap := (RCap lim srcSize maxOut).

  Lemma plimits : mflimit = iend - 12 /\ matchlimit = iend - 5 /\ iend = s0 + srcSize.
  Proof. unfold hc_mflimit, hc_matchlimit, hc_iend, MFLIMIT, LASTLITERALS. lia. Qed.

  Lemma oes_restore : (match lim with FillOutput => oes + LASTLITERALS | _ => oes end) = maxOut.
  Proof. unfold coe, oend_seq, LASTLITERALS. destruct lim; lia. Qed.

  Lemma oes_def : (match lim with FillOutput => maxOut - LASTLITERALS | _ => maxOut end) = oes.
  Proof. reflexivity. Qed.

  Lemma chw_nonneg : 0 <= chw lim srcSize maxOut.
  Proof. unfold chw, hwlim. destruct lim; try lia. assert (0 <= srcSize / 255) by (Z.div_mod_to_equations; lia). lia. Qed.

  Hypothesis Hfill : lim = FillOutput -> 1 <= maxOut.

  Definition ROK (r : cres) : Prop := RSpec r /\ RCap r.

  (* ---- valid matches and their sub-ranges ---- *)
  Definition mv (p : Z) (m : hmatch) : Prop :=
    match_ok vrd lo p (hm_off m) (hm_len m) /\ p + hm_len m <= matchlimit.

  Lemma mv_len p m : mv p m -> 4 <= hm_len m.
  Proof. intros ((_ & H & _) & _). exact H. Qed.

  Lemma mv_sub p m c : mv p m -> 0 <= c -> 4 <= hm_len m - c -> mv (p + c) (set_len m (hm_len m - c)).
  Proof.
    intros (H1 & H2) Hc Hl. unfold mv, set_len. cbn [hm_off hm_len].
    split; [apply match_ok_sub; assumption | lia].
  Qed.

  Lemma mv_short p m l : mv p m -> 4 <= l <= hm_len m -> mv p (set_len m l).
  Proof.
    intros (H1 & H2) Hl. unfold mv, set_len. cbn [hm_off hm_len].
    split; [eapply match_ok_shorten; eauto | lia].
  Qed.

  (* ---- wrappers ---- *)
  Lemma enc_ok s ml off :
    Base s -> CInv s -> c_ip s <= mflimit -> match_ok vrd lo (c_ip s) off ml -> c_ip s + ml <= matchlimit ->
    TB (c_tabs s) iend ->
    match c_encode vrd lim s0 srcSize s ml off oes with
    | inl s' => Base s' /\ CInv s' /\ c_ip s' = c_ip s + ml /\ c_anchor s' = c_ip s + ml /\ c_tabs s' = c_tabs s
    | inr r => ROK r
    end.
  Proof.
    intros HB HC Hip Hm Hml HT.
    assert (S : match c_encode vrd lim s0 srcSize s ml off oes with
                | inl s' => HcChainSound.Base vrd dictIdx s0 srcSize s' /\ c_ip s' = c_ip s + ml /\ c_anchor s' = c_ip s + ml /\ c_tabs s' = c_tabs s
                | inr r => HcChainSound.RSpec vrd lim dictIdx s0 srcSize r end)
      by (apply (c_encode_sound vrd lim prefixIdx dictIdx s0 srcSize); assumption).
    assert (C : match c_encode vrd lim s0 srcSize s ml off oes with
                | inl s' => HcChainCap.CInv lim s0 srcSize maxOut s'
                | inr r => HcChainCap.RCap lim srcSize maxOut r end).
    { destruct HB as (B1 & B2 & _). destruct Hm as (_ & M4 & _).
      apply (c_encode_cap vrd lim s0 srcSize maxOut); try assumption; lia. }
    destruct (c_encode vrd lim s0 srcSize s ml off oes) as [s'|r].
    - destruct S as (S1 & S2 & S3 & S4). split; [exact S1|]. split; [exact C|]. split; [exact S2|]. split; [exact S3 | exact S4].
    - split; assumption.
  Qed.

  Lemma ll_ok s : Base s -> CInv s -> TB (c_tabs s) iend ->
    ROK (c_last_literals vrd lim s0 srcSize s maxOut).
  Proof.
    intros (B1 & B2 & B3 & B4 & B5) HC HT. split.
    - apply (c_last_literals_sound vrd lim prefixIdx dictIdx s0 srcSize); try assumption.
      destruct B4 as (ss & _ & Hv & He & _). split; [lia|].
      (* the anchor is the end of a factorisation: not beyond the input *)
      lia.
    - apply (c_last_literals_cap vrd lim s0 srcSize maxOut); try assumption; [lia | reflexivity].
  Qed.

  Lemma Hidx2 : 65536 <= dictIdx /\ dictIdx <= prefixIdx.
  Proof. lia. Qed.

  (* ---- the conditional searches of _Search2 / _Search3 ---- *)
  Lemma search_next_spec t pos len back0 :
    TB t (pos + len - back0) -> prefixIdx <= pos -> 3 <= len -> 2 <= back0 <= 3 -> back0 <= len ->
    exists start m t', search_next vrd prefixIdx dictIdx s0 srcSize nb t pos len back0 = Some (start, m, t') /\
      TB t' (pos + len - back0 + 1) /\
      (hm_len m <= len \/
       (len < hm_len m /\ pos + len <= mflimit /\ mv start m /\ pos <= start <= pos + len - back0 /\
        pos + len - back0 + 4 <= start + hm_len m)).
  Proof.
    intros HT Hp Hl Hb0 Hbl. pose proof plimits as (L1 & L2 & L3).
    unfold search_next. destruct (pos + len <=? mflimit) eqn:E.
    - cbv zeta. set (q := pos + len - back0) in *.
      destruct (wider_sound vrd Hb prefixIdx dictIdx Hidx2 t q q pos matchlimit len nb (hc_pa nb) HT
                  ltac:(lia) Hp ltac:(subst q; lia) ltac:(subst q; lia) ltac:(unfold M32 in *; lia) Hl)
        as (m & t' & Hs & HT' & Hn & Hlen & Hv).
      rewrite Hs. exists (q + hm_back m), m, t'. split; [reflexivity|].
      split; [eapply TB_mono; eauto; lia|].
      destruct (Z_le_gt_dec (hm_len m) len) as [Hle|Hgt]; [left; exact Hle | right].
      destruct (Hv ltac:(lia)) as (V1 & V2 & V3 & V4 & V5).
      split; [lia|]. split; [lia|]. split; [split; assumption|]. split; lia.
    - exists 0, nomatch, t. split; [reflexivity|]. split; [eapply TB_mono; eauto; lia|].
      left. cbn [nomatch hm_len]. lia.
  Qed.

  (* ---- head of _Search3 ---- *)
  Lemma s3_adjust_spec ip m1 start2 m2 :
    mv ip m1 -> mv start2 m2 -> 5 <= hm_len m2 -> ip <= start2 -> 8 <= start2 - ip + hm_len m2 ->
    start2 <= ip + hm_len m1 + 1 ->
    let a := fst (s3_adjust ip m1 start2 m2) in let m := snd (s3_adjust ip m1 start2 m2) in
    mv a m /\ a + hm_len m = start2 + hm_len m2 /\ start2 <= a /\ ip + 4 <= a /\ a <= ip + hm_len m1 + 1 /\
    4 <= hm_len m /\ (ip + hm_len m1 < a -> m = m2 /\ a = start2) /\ (a = start2 \/ a <= ip + hm_len m1).
  Proof.
    intros Hm1 Hm2 H5 Hi H8 Hg. pose proof (mv_len ip m1 Hm1) as H14.
    unfold s3_adjust, HC_OPTIMAL_ML, MINMATCH. cbv zeta.
    assert (Same : 18 <= start2 - ip \/ ip + 4 <= start2 ->
              mv start2 m2 /\ start2 + hm_len m2 = start2 + hm_len m2 /\ start2 <= start2 /\ ip + 4 <= start2 /\ start2 <= ip + hm_len m1 + 1 /\
              4 <= hm_len m2 /\ (ip + hm_len m1 < start2 -> m2 = m2 /\ start2 = start2) /\ (start2 = start2 \/ start2 <= ip + hm_len m1)).
    { intros Hc. split; [exact Hm2|]. split; [reflexivity|]. split; [lia|]. split; [lia|]. split; [exact Hg|].
      split; [lia|]. split; [intros; split; reflexivity | left; reflexivity]. }
    destruct (start2 - ip <? 18) eqn:E1; [|cbn [fst snd]; apply Same; lia].
    set (n1 := if hm_len m1 >? 18 then 18 else hm_len m1).
    assert (Hn1 : 4 <= n1 <= hm_len m1 /\ n1 <= 18) by (subst n1; destruct (hm_len m1 >? 18) eqn:E2; lia).
    set (n2 := if ip + n1 >? start2 + hm_len m2 - 4 then start2 - ip + hm_len m2 - 4 else n1).
    assert (Hn2 : 4 <= n2 <= n1 /\ n2 <= start2 - ip + hm_len m2 - 4).
    { subst n2. destruct (ip + n1 >? start2 + hm_len m2 - 4) eqn:E3; lia. }
    clearbody n2. clearbody n1.
    destruct (n2 - (start2 - ip) >? 0) eqn:E4; cbn [fst snd]; [|apply Same; lia].
    pose proof (mv_sub start2 m2 (n2 - (start2 - ip)) Hm2 ltac:(lia) ltac:(lia)) as Hs.
    split; [exact Hs|]. unfold set_len. cbn [hm_len].
    split; [lia|]. split; [lia|]. split; [lia|]. split; [lia|]. split; [lia|]. split; [intros; lia | right; lia].
  Qed.

  (* "can write Seq1 immediately ==> Seq2 is removed" *)
  Lemma s3_remove2_spec ip m1 a m start3 m3 :
    mv a m -> mv start3 m3 -> a <= start3 -> ip + hm_len m1 <= start3 -> start3 < ip + hm_len m1 + 3 ->
    let b := fst (s3_remove2 ip m1 a m start3 m3) in let mb := snd (s3_remove2 ip m1 a m start3 m3) in
    mv b mb /\ ip + hm_len m1 <= b /\ b <= start3 /\ start3 - b <= 2 /\
    (b + hm_len mb = a + hm_len m \/ (b = start3 /\ mb = m3)).
  Proof.
    intros Hm Hm3 Ha H1 H2. unfold s3_remove2, MINMATCH. cbv zeta.
    destruct (a <? ip + hm_len m1) eqn:E1.
    - change (hm_len (set_len m (hm_len m - (ip + hm_len m1 - a)))) with (hm_len m - (ip + hm_len m1 - a)).
      destruct (hm_len m - (ip + hm_len m1 - a) <? 4) eqn:E2; cbn [fst snd].
      + split; [exact Hm3|]. split; [lia|]. split; [lia|]. split; [lia|]. right. split; reflexivity.
      + pose proof (mv_sub a m (ip + hm_len m1 - a) Hm ltac:(lia) ltac:(lia)) as Hs.
        split; [exact Hs|]. unfold set_len. cbn [hm_len]. split; [lia|]. split; [lia|]. split; [lia|]. left. lia.
    - cbn [fst snd]. split; [exact Hm|]. split; [lia|]. split; [lia|]. split; [lia|]. left. reflexivity.
  Qed.

  (* "3 ascending matches; let's write the first one ML1" *)
  Lemma s3_ml1_spec ip m1 a m :
    mv ip m1 -> mv a m -> ip + 4 <= a -> 4 <= hm_len m ->
    let r := s3_ml1 ip m1 a m in
    let m1' := fst (fst r) in let a' := snd (fst r) in let m' := snd r in
    mv ip m1' /\ hm_off m1' = hm_off m1 /\ hm_len m1' <= hm_len m1 /\
    mv a' m' /\ a' + hm_len m' = a + hm_len m /\ ip + hm_len m1' <= a' /\ a <= a' /\
    (a' = a /\ m' = m \/ a' <= ip + hm_len m1).
  Proof.
    intros Hm1 Hm Ha H4. pose proof (mv_len ip m1 Hm1) as H14.
    unfold s3_ml1, HC_OPTIMAL_ML, MINMATCH. cbv zeta.
    destruct (a <? ip + hm_len m1) eqn:E1.
    2:{ cbn [fst snd]. split; [exact Hm1|]. split; [reflexivity|]. split; [lia|]. split; [exact Hm|].
        split; [reflexivity|]. split; [lia|]. split; [lia|]. left. split; reflexivity. }
    destruct (a - ip <? 18) eqn:E2.
    2:{ cbn [fst snd]. pose proof (mv_short ip m1 (a - ip) Hm1 ltac:(lia)) as Hs.
        split; [exact Hs|]. unfold set_len. cbn [hm_off hm_len].
        split; [reflexivity|]. split; [lia|]. split; [exact Hm|]. split; [reflexivity|]. split; [lia|]. split; [lia|].
        left. split; reflexivity. }
    set (n1 := if hm_len m1 >? 18 then 18 else hm_len m1).
    assert (Hn1 : 4 <= n1 <= hm_len m1) by (subst n1; destruct (hm_len m1 >? 18) eqn:E3; lia).
    set (n2 := if ip + n1 >? a + hm_len m - 4 then a - ip + hm_len m - 4 else n1).
    assert (Hn2 : 4 <= n2 <= n1 /\ n2 <= a - ip + hm_len m - 4).
    { subst n2. destruct (ip + n1 >? a + hm_len m - 4) eqn:E3; lia. }
    clearbody n2. clearbody n1.
    pose proof (mv_short ip m1 n2 Hm1 ltac:(lia)) as Hs1.
    destruct (n2 - (a - ip) >? 0) eqn:E4; cbn [fst snd].
    - pose proof (mv_sub a m (n2 - (a - ip)) Hm ltac:(lia) ltac:(lia)) as Hs.
      split; [exact Hs1|]. unfold set_len. cbn [hm_off hm_len].
      split; [reflexivity|]. split; [lia|]. split; [exact Hs|]. cbn [hm_len].
      split; [lia|]. split; [lia|]. split; [lia|]. right. lia.
    - split; [exact Hs1|]. unfold set_len. cbn [hm_off hm_len].
      split; [reflexivity|]. split; [lia|]. split; [exact Hm|]. split; [reflexivity|]. split; [lia|]. split; [lia|].
      left. split; reflexivity.
  Qed.

  (* ---- the invariant of each control point ---- *)
  Definition PInv (p : pc) (s : cst) : Prop :=
    Base s /\ CInv s /\
    match p with
    | PMain => TB (c_tabs s) (c_ip s)
    | PSearch2 start0 m0 m1 =>
      c_ip s <= mflimit /\ mv (c_ip s) m1 /\ c_anchor s <= start0 /\ start0 <= c_ip s /\ c_ip s - start0 <= 2 /\
      mv start0 m0 /\ (start0 + hm_len m0 <= mflimit \/ (start0 = c_ip s /\ m0 = m1)) /\
      TB (c_tabs s) (c_ip s + hm_len m1 - 2)
    | PSearch3 _ _ m1 start2 m2 =>
      mv (c_ip s) m1 /\ c_ip s + hm_len m1 <= mflimit /\ mv start2 m2 /\ c_ip s <= start2 /\ start2 <= mflimit /\
      start2 <= c_ip s + hm_len m1 + 1 /\ 5 <= hm_len m2 /\ 8 <= start2 - c_ip s + hm_len m2 /\
      TB (c_tabs s) (start2 + hm_len m2 - 3)
    end.

  (* twice the distance from the next search position to the end, plus one inside _Search2/_Search3 *)
  Definition mu (p : pc) (s : cst) : Z :=
    match p with
    | PMain => 2 * (iend - c_ip s)
    | PSearch2 _ _ m1 => 2 * (iend - (c_ip s + hm_len m1 - 2)) + 1
    | PSearch3 _ _ _ start2 m2 => 2 * (iend - (start2 + hm_len m2 - 3)) + 1
    end.

  Lemma mu_nonneg p s : PInv p s -> 0 <= mu p s.
  Proof.
    intros (HB & _ & HP). pose proof plimits as (L1 & L2 & L3). destruct HB as (_ & _ & B3 & _).
    destruct p as [|start0 m0 m1|start0 m0 m1 start2 m2]; unfold mu.
    - lia.
    - destruct HP as (_ & (_ & H) & _). lia.
    - destruct HP as (_ & _ & (_ & H) & _). lia.
  Qed.

  Definition step_post (p : pc) (s : cst) (r : (pc * cst) + cres) : Prop :=
    match r with
    | inl (p', s') => PInv p' s' /\ mu p' s' < mu p s
    | inr r => ROK r
    end.

  Lemma main_step_ok s : PInv PMain s -> step_post PMain s (main_step vrd prefixIdx dictIdx lim s0 srcSize nb s oes).
  Proof.
    intros (HB & HC & HT). pose proof plimits as (L1 & L2 & L3).
    pose proof HB as (B1 & B2 & B3 & B4 & B5).
    unfold main_step. cbv zeta.
    destruct (c_ip s <=? mflimit) eqn:E.
    - unfold insertAndFindBestMatch.
      destruct (wider_sound vrd Hb prefixIdx dictIdx Hidx2 (c_tabs s) (c_ip s) (c_ip s) (c_ip s) matchlimit (MINMATCH - 1) nb (hc_pa nb) HT
                  ltac:(lia) ltac:(lia) ltac:(lia) ltac:(lia) ltac:(unfold M32 in *; lia) ltac:(unfold MINMATCH; lia))
        as (m & t' & Hs & HT' & Hn & Hlen & Hv).
      rewrite Hs. unfold MINMATCH in *.
      destruct (hm_len m <? 4) eqn:E4; unfold step_post.
      + split; [|unfold mu, with_ip; cbn [c_ip]; lia].
        split; [apply Base_with_ip; [exact HB | cbn [with_tabs c_anchor]; lia]|].
        split; [exact HC|]. cbn [with_ip with_tabs c_tabs c_ip]. eapply TB_mono; eauto; lia.
      + destruct (Hv ltac:(lia)) as (V1 & V2 & V3 & V4 & V5).
        assert (Hb0 : hm_back m = 0) by lia. rewrite Hb0, Z.add_0_r in *.
        assert (Hmv : mv (c_ip s) m) by (split; assumption).
        split; [|unfold mu, with_tabs; cbn [c_ip]; lia].
        split; [exact HB|]. split; [exact HC|]. cbn [with_tabs c_ip c_anchor c_tabs].
        split; [lia|]. split; [exact Hmv|]. split; [lia|]. split; [lia|]. split; [lia|]. split; [exact Hmv|].
        split; [right; split; reflexivity|]. eapply TB_mono; eauto; lia.
    - unfold step_post. rewrite oes_restore. apply ll_ok; [exact HB | exact HC|]. eapply TB_mono; eauto; lia.
  Qed.

  Lemma search2_step_ok start0 m0 m1 s : PInv (PSearch2 start0 m0 m1) s ->
    step_post (PSearch2 start0 m0 m1) s (search2_step vrd prefixIdx dictIdx lim s0 srcSize nb start0 m0 m1 s oes).
  Proof.
    intros (HB & HC & Hip & Hm1 & Ha0 & H0i & H02 & Hm0 & He & HT). pose proof plimits as (L1 & L2 & L3).
    pose proof HB as (B1 & B2 & B3 & B4 & B5).
    pose proof (mv_len _ _ Hm1) as H14. pose proof (mv_len _ _ Hm0) as H04.
    unfold search2_step. cbv zeta.
    destruct (search_next_spec (c_tabs s) (c_ip s) (hm_len m1) 2 HT ltac:(lia) ltac:(lia) ltac:(lia) ltac:(lia))
      as (start2 & m2 & t' & Hs & HT' & Hcase).
    rewrite Hs.
    destruct (hm_len m2 <=? hm_len m1) eqn:El.
    - (* No better match => encode ML1 immediately *)
      pose proof (enc_ok (with_tabs s t') (hm_len m1) (hm_off m1) HB HC Hip (proj1 Hm1) (proj2 Hm1)
                    ltac:(cbn [with_tabs c_tabs]; eapply TB_mono; eauto; destruct Hm1; lia)) as HE.
      destruct (c_encode vrd lim s0 srcSize (with_tabs s t') (hm_len m1) (hm_off m1) oes) as [s'|r]; [|exact HE].
      destruct HE as (E1 & E2 & E3 & E4 & E5). cbn [with_tabs c_ip c_tabs] in *.
      unfold step_post. split; [|unfold mu; lia].
      split; [exact E1|]. split; [exact E2|]. rewrite E5, E3. eapply TB_mono; eauto; lia.
    - destruct Hcase as [Hle|(Hgt & Hmf & Hm2 & Hst & Hend)]; [lia|].
      pose proof (mv_len _ _ Hm2) as H24. destruct Hm2 as (Hm2a & Hm2b).
      assert (Hm2 : mv start2 m2) by (split; assumption).
      (* the state in which the first match is dropped: ip = start2, m1 = m2 *)
      assert (Skip : start2 - start0 <= 2 ->
                step_post (PSearch2 start0 m0 m1) s (inl (PSearch2 start0 m0 m2, with_ip (with_tabs s t') start2))).
      { intros H2. unfold step_post. split; [|unfold mu, with_ip; cbn [c_ip]; lia].
        split; [apply Base_with_ip; [exact HB | cbn [with_tabs c_anchor]; lia]|].
        split; [exact HC|]. cbn [with_ip with_tabs c_ip c_anchor c_tabs].
        split; [lia|]. split; [exact Hm2|]. split; [lia|]. split; [lia|]. split; [lia|]. split; [exact Hm0|].
        split; [left; destruct He as [He|(He1 & He2)]; [exact He | subst m0; lia]|].
        eapply TB_mono; eauto; lia. }
      unfold s2_restore.
      destruct ((start0 <? c_ip s) && (start2 <? c_ip s + hm_len m0)) eqn:Er.
      + (* restore the initial match *)
        assert (He' : start0 + hm_len m0 <= mflimit) by (destruct He as [He|(He1 & _)]; [exact He | lia]).
        destruct (start2 - start0 <? 3) eqn:E3; [apply Skip; lia|].
        unfold step_post. split; [|unfold mu, with_ip; cbn [c_ip]; lia].
        split; [apply Base_with_ip; [exact HB | cbn [with_tabs c_anchor]; lia]|].
        split; [exact HC|]. cbn [with_ip with_tabs c_ip c_anchor c_tabs].
        split; [exact Hm0|]. split; [exact He'|]. split; [exact Hm2|]. split; [lia|]. split; [lia|]. split; [lia|].
        split; [lia|]. split; [lia|]. eapply TB_mono; eauto; lia.
      + destruct (start2 - c_ip s <? 3) eqn:E3; [apply Skip; lia|].
        unfold step_post. split; [|unfold mu, with_ip; cbn [c_ip]; lia].
        split; [apply Base_with_ip; [exact HB | cbn [with_tabs c_anchor]; lia]|].
        split; [exact HC|]. cbn [with_ip with_tabs c_ip c_anchor c_tabs].
        split; [exact Hm1|]. split; [lia|]. split; [exact Hm2|]. split; [lia|]. split; [lia|]. split; [lia|].
        split; [lia|]. split; [lia|]. eapply TB_mono; eauto; lia.
  Qed.

  Lemma search3_step_ok start0 m0 m1 start2 m2 s : PInv (PSearch3 start0 m0 m1 start2 m2) s ->
    step_post (PSearch3 start0 m0 m1 start2 m2) s
      (search3_step vrd prefixIdx dictIdx lim s0 srcSize nb start0 m0 m1 start2 m2 s oes).
  Proof.
    intros (HB & HC & Hm1 & Hmf1 & Hm2 & Hi2 & H2mf & Hg & H5 & H8 & HT). pose proof plimits as (L1 & L2 & L3).
    pose proof HB as (B1 & B2 & B3 & B4 & B5).
    pose proof (mv_len _ _ Hm1) as H14.
    unfold search3_step. cbv zeta.
    pose proof (s3_adjust_spec (c_ip s) m1 start2 m2 Hm1 Hm2 H5 Hi2 H8 Hg) as HA. cbv zeta in HA.
    destruct (s3_adjust (c_ip s) m1 start2 m2) as [a m]. cbn [fst snd] in HA.
    destruct HA as (Hma & Hend2 & A1 & A2 & A3 & A4 & A5 & A6).
    assert (Hamf : a <= mflimit) by lia.
    assert (HTa : TB (c_tabs s) (a + hm_len m - 3)) by (rewrite Hend2; exact HT).
    destruct (search_next_spec (c_tabs s) a (hm_len m) 3 HTa ltac:(lia) ltac:(lia) ltac:(lia) ltac:(lia))
      as (start3 & m3 & t' & Hs & HT' & Hcase).
    rewrite Hs.
    assert (HTe : TB t' iend) by (eapply TB_mono; eauto; destruct Hma; lia).
    assert (Hmu : mu (PSearch3 start0 m0 m1 start2 m2) s = 2 * (iend - (a + hm_len m - 3)) + 1) by (unfold mu; lia).
    destruct (hm_len m3 <=? hm_len m) eqn:El.
    - (* No better match => encode ML1 and ML2 *)
      set (m1' := if a <? c_ip s + hm_len m1 then set_len m1 (a - c_ip s) else m1).
      assert (Hm1' : mv (c_ip s) m1' /\ hm_off m1' = hm_off m1 /\ c_ip s + hm_len m1' <= a).
      { subst m1'. destruct (a <? c_ip s + hm_len m1) eqn:E1.
        - split; [apply mv_short; [exact Hm1 | lia]|]. unfold set_len. cbn [hm_off hm_len]. split; [reflexivity | lia].
        - split; [exact Hm1|]. split; [reflexivity | lia]. }
      destruct Hm1' as (Hv1 & Ho1 & Hl1). clearbody m1'.
      pose proof (enc_ok (with_tabs s t') (hm_len m1') (hm_off m1') HB HC ltac:(cbn [with_tabs c_ip]; lia) (proj1 Hv1) (proj2 Hv1) HTe) as HE.
      destruct (c_encode vrd lim s0 srcSize (with_tabs s t') (hm_len m1') (hm_off m1') oes) as [s1|r]; [|exact HE].
      destruct HE as (E1 & E2 & E3 & E4 & E5). cbn [with_tabs c_ip c_tabs] in *.
      pose proof (enc_ok (with_ip s1 a) (hm_len m) (hm_off m)
                    ltac:(apply Base_with_ip; [exact E1 | destruct Hma; lia]) E2 ltac:(cbn [with_ip c_ip]; lia)
                    (proj1 Hma) (proj2 Hma) ltac:(cbn [with_ip c_tabs]; rewrite E5; exact HTe)) as HE2.
      destruct (c_encode vrd lim s0 srcSize (with_ip s1 a) (hm_len m) (hm_off m) oes) as [s2|r]; [|exact HE2].
      destruct HE2 as (F1 & F2 & F3 & F4 & F5). cbn [with_ip c_ip c_tabs] in *.
      unfold step_post. split; [|rewrite Hmu; unfold mu; lia].
      split; [exact F1|]. split; [exact F2|]. rewrite F5, E5, F3. apply (TB_mono t' (a + hm_len m - 3 + 1)); [exact HT' | lia].
    - destruct Hcase as [Hle|(Hgt & Hmf & Hm3 & Hst & Hend)]; [lia|].
      pose proof (mv_len _ _ Hm3) as H34.
      destruct (start3 <? c_ip s + hm_len m1 + 3) eqn:E3.
      + destruct (start3 >=? c_ip s + hm_len m1) eqn:E4.
        * (* Seq2 is removed, Seq3 becomes Seq1 *)
          pose proof (s3_remove2_spec (c_ip s) m1 a m start3 m3 Hma Hm3 ltac:(lia) ltac:(lia) ltac:(lia)) as HR. cbv zeta in HR.
          destruct (s3_remove2 (c_ip s) m1 a m start3 m3) as [b mb]. cbn [fst snd] in HR.
          destruct HR as (R1 & R2 & R3 & R4 & R5).
          pose proof (enc_ok (with_tabs s t') (hm_len m1) (hm_off m1) HB HC ltac:(cbn [with_tabs c_ip]; lia) (proj1 Hm1) (proj2 Hm1) HTe) as HE.
          destruct (c_encode vrd lim s0 srcSize (with_tabs s t') (hm_len m1) (hm_off m1) oes) as [s1|r]; [|exact HE].
          destruct HE as (E1 & E2 & E5 & E6 & E7). cbn [with_tabs c_ip c_tabs] in *.
          unfold step_post. split; [|rewrite Hmu; unfold mu, with_ip; cbn [c_ip]; lia].
          split; [apply Base_with_ip; [exact E1 | destruct Hm3; lia]|].
          split; [exact E2|]. cbn [with_ip c_ip c_anchor c_tabs]. rewrite E6, E7.
          split; [lia|]. split; [exact Hm3|]. split; [lia|]. split; [lia|]. split; [lia|]. split; [exact R1|].
          split; [destruct R5 as [R5|(R5 & R6)]; [left; lia | right; split; assumption]|].
          apply (TB_mono t' (a + hm_len m - 3 + 1)); [exact HT' | lia].
        * (* Not enough space for match 2 : remove it *)
          unfold step_post. split; [|rewrite Hmu; unfold mu; lia].
          split; [exact HB|]. split; [exact HC|]. cbn [with_tabs c_ip c_tabs].
          split; [exact Hm1|]. split; [exact Hmf1|]. split; [exact Hm3|]. split; [lia|]. split; [lia|]. split; [lia|].
          split; [lia|]. split; [lia|]. apply (TB_mono t' (a + hm_len m - 3 + 1)); [exact HT' | lia].
      + (* 3 ascending matches: write ML1 *)
        pose proof (s3_ml1_spec (c_ip s) m1 a m Hm1 Hma A2 A4) as HM. cbv zeta in HM.
        destruct (s3_ml1 (c_ip s) m1 a m) as [[m1' a'] m']. cbn [fst snd] in HM.
        destruct HM as (M1 & M2 & M3 & M4 & M5 & M6 & M7 & M8).
        pose proof (mv_len _ _ M4) as H44.
        pose proof (enc_ok (with_tabs s t') (hm_len m1') (hm_off m1') HB HC ltac:(cbn [with_tabs c_ip]; lia) (proj1 M1) (proj2 M1) HTe) as HE.
        destruct (c_encode vrd lim s0 srcSize (with_tabs s t') (hm_len m1') (hm_off m1') oes) as [s1|r]; [|exact HE].
        destruct HE as (E1 & E2 & E5 & E6 & E7). cbn [with_tabs c_ip c_tabs] in *.
        unfold step_post. split; [|rewrite Hmu; unfold mu, with_ip; cbn [c_ip]; lia].
        split; [apply Base_with_ip; [exact E1 | destruct M4; lia]|].
        split; [exact E2|]. cbn [with_ip c_ip c_anchor c_tabs]. rewrite E7.
        split; [exact M4|]. split; [lia|]. split; [exact Hm3|]. split; [lia|]. split; [lia|]. split; [lia|].
        split; [lia|]. split; [|apply (TB_mono t' (a + hm_len m - 3 + 1)); [exact HT' | lia]].
        destruct M8 as [(M8a & M8b)|M8]; [|lia].
        subst a' m'. destruct (Z_le_gt_dec a (c_ip s + hm_len m1)) as [Hle|Hgt2]; [lia|].
        destruct (A5 ltac:(lia)) as (A5a & A5b). subst m a. lia.
  Qed.

  Lemma hc_step_ok p s : PInv p s -> step_post p s (hc_step vrd prefixIdx dictIdx lim s0 srcSize nb p s oes).
  Proof.
    intros H. destruct p as [|start0 m0 m1|start0 m0 m1 start2 m2]; cbn [hc_step].
    - apply main_step_ok; exact H.
    - apply search2_step_ok; exact H.
    - apply search3_step_ok; exact H.
  Qed.

  Lemma hc_run_ok : forall fuel p s, PInv p s -> mu p s < Z.of_nat fuel ->
    ROK (hc_run vrd prefixIdx dictIdx lim s0 srcSize nb fuel p s oes).
  Proof.
    induction fuel as [|f IH]; intros p s HI Hf.
    - pose proof (mu_nonneg p s HI). lia.
    - cbn [hc_run]. pose proof (hc_step_ok p s HI) as Hs.
      destruct (hc_step vrd prefixIdx dictIdx lim s0 srcSize nb p s oes) as [[p' s']|r]; cbn [step_post] in Hs.
      + destruct Hs as (H1 & H2). apply IH; [exact H1 | lia].
      + exact Hs.
  Qed.

  (* LZ4HC_compress_hashChain: for any tables whose hash entries are indices below the block and whose chain
     entries are 16-bit, the result is a valid block for the consumed input, within the capacity contract,
     and the fuel of the model suffices *)
  Theorem hc_compress_ok t : TB t s0 -> ROK (hc_compress vrd prefixIdx dictIdx lim s0 srcSize maxOut nb t).
  Proof.
    intros HT. pose proof plimits as (L1 & L2 & L3). unfold hc_compress. cbv zeta. rewrite oes_def.
    set (st := mkS s0 s0 0 [] t 0).
    assert (HB : Base st).
    { unfold HcChainSound.Base. subst st. cbn [c_ip c_anchor c_op c_rout].
      split; [lia|]. split; [lia|]. split; [lia|]. split; [|reflexivity].
      exists []. cbn. split; [reflexivity|]. split; [exact I|]. split; [reflexivity | exact I]. }
    assert (HC : CInv st).
    { unfold HcChainCap.CInv. subst st. cbn [c_hw c_op c_anchor]. pose proof chw_nonneg.
      split; [lia|]. split; [lia|]. split; [intros; lia | intros; lia]. }
    destruct (srcSize <? LZ4_minLength) eqn:E.
    - apply ll_ok; [exact HB | exact HC|]. subst st. cbn [c_tabs]. eapply TB_mono; eauto; lia.
    - apply hc_run_ok.
      + split; [exact HB|]. split; [exact HC|]. subst st. cbn [c_tabs c_ip]. exact HT.
      + unfold mu. subst st. cbn [c_ip]. lia.
  Qed.

  (* ================= fillOutput: strict end-of-block conditions (appended; nothing above is changed) =================
     The room invariant of Proofs.HcChainFill is carried through the same walk. *)
  Notation FInv := (cFInv vrd dictIdx s0 srcSize maxOut).
  Notation RFill := (cRFill vrd dictIdx s0).

  Lemma oes_fill : lim = FillOutput -> oes = maxOut - LASTLITERALS.
  Proof. intros ->. reflexivity. Qed.

  (* one sequence: the conclusions of enc_ok, and the room invariant / a strictly valid result *)
  Lemma enc_both s ml off : lim = FillOutput ->
    Base s -> CInv s -> FInv s -> c_ip s <= mflimit -> match_ok vrd lo (c_ip s) off ml -> c_ip s + ml <= matchlimit ->
    TB (c_tabs s) iend ->
    match c_encode vrd lim s0 srcSize s ml off oes with
    | inl s' => (Base s' /\ CInv s' /\ c_ip s' = c_ip s + ml /\ c_anchor s' = c_ip s + ml /\ c_tabs s' = c_tabs s) /\ FInv s'
    | inr r => RFill r
    end.
  Proof.
    intros Hfo HB HC HF Hip Hm Hml HT.
    pose proof (enc_ok s ml off HB HC Hip Hm Hml HT) as H1.
    assert (H2 : match c_encode vrd lim s0 srcSize s ml off oes with inl s' => FInv s' | inr r => RFill r end).
    { rewrite (oes_fill Hfo). rewrite Hfo. destruct HB as (B1 & B2 & _).
      eapply c_encode_fill; try eassumption; lia. }
    destruct (c_encode vrd lim s0 srcSize s ml off oes) as [s'|r]; [split; assumption | exact H2].
  Qed.

  Lemma FInv_ip_tabs s t x : FInv s -> FInv (with_ip (with_tabs s t) x).
  Proof. intros H. apply (cFInv_same vrd dictIdx s0 srcSize maxOut s); [exact H | reflexivity | reflexivity | reflexivity]. Qed.
  Lemma FInv_tabs s t : FInv s -> FInv (with_tabs s t).
  Proof. intros H. apply (cFInv_same vrd dictIdx s0 srcSize maxOut s); [exact H | reflexivity | reflexivity | reflexivity]. Qed.
  Lemma FInv_ip s x : FInv s -> FInv (with_ip s x).
  Proof. intros H. apply (cFInv_same vrd dictIdx s0 srcSize maxOut s); [exact H | reflexivity | reflexivity | reflexivity]. Qed.

  Lemma ll_fill s : lim = FillOutput -> Base s -> FInv s -> RFill (c_last_literals vrd lim s0 srcSize s maxOut).
  Proof.
    intros Hfo (B1 & B2 & B3 & _) HF. rewrite Hfo.
    eapply c_ll_fill; try eassumption; lia.
  Qed.

  Definition fill_post (r : (pc * cst) + cres) : Prop :=
    match r with
    | inl (p', s') => FInv s'
    | inr r => RFill r
    end.

  Lemma main_step_fill s : lim = FillOutput -> PInv PMain s -> FInv s ->
    fill_post (main_step vrd prefixIdx dictIdx lim s0 srcSize nb s oes).
  Proof.
    intros Hfo (HB & HC & HT) HF. pose proof plimits as (L1 & L2 & L3).
    pose proof HB as (B1 & B2 & B3 & B4 & B5).
    unfold main_step. cbv zeta.
    destruct (c_ip s <=? mflimit) eqn:E.
    - unfold insertAndFindBestMatch.
      destruct (wider_sound vrd Hb prefixIdx dictIdx Hidx2 (c_tabs s) (c_ip s) (c_ip s) (c_ip s) matchlimit (MINMATCH - 1) nb (hc_pa nb) HT
                  ltac:(lia) ltac:(lia) ltac:(lia) ltac:(lia) ltac:(unfold M32 in *; lia) ltac:(unfold MINMATCH; lia))
        as (m & t' & Hs & HT' & Hn & Hlen & Hv).
      rewrite Hs.
      destruct (hm_len m <? MINMATCH); unfold fill_post; [apply FInv_ip_tabs; exact HF | apply FInv_tabs; exact HF].
    - unfold fill_post. rewrite oes_restore. apply ll_fill; assumption.
  Qed.

  Lemma search2_step_fill start0 m0 m1 s : lim = FillOutput -> PInv (PSearch2 start0 m0 m1) s -> FInv s ->
    fill_post (search2_step vrd prefixIdx dictIdx lim s0 srcSize nb start0 m0 m1 s oes).
  Proof.
    intros Hfo (HB & HC & Hip & Hm1 & Ha0 & H0i & H02 & Hm0 & He & HT) HF. pose proof plimits as (L1 & L2 & L3).
    pose proof HB as (B1 & B2 & B3 & B4 & B5).
    pose proof (mv_len _ _ Hm1) as H14. pose proof (mv_len _ _ Hm0) as H04.
    unfold search2_step. cbv zeta.
    destruct (search_next_spec (c_tabs s) (c_ip s) (hm_len m1) 2 HT ltac:(lia) ltac:(lia) ltac:(lia) ltac:(lia))
      as (start2 & m2 & t' & Hs & HT' & Hcase).
    rewrite Hs.
    destruct (hm_len m2 <=? hm_len m1) eqn:El.
    - pose proof (enc_both (with_tabs s t') (hm_len m1) (hm_off m1) Hfo HB HC (FInv_tabs s t' HF) Hip (proj1 Hm1) (proj2 Hm1)
                    ltac:(cbn [with_tabs c_tabs]; eapply TB_mono; eauto; destruct Hm1; lia)) as HE.
      destruct (c_encode vrd lim s0 srcSize (with_tabs s t') (hm_len m1) (hm_off m1) oes) as [s'|r]; [|exact HE].
      destruct HE as (_ & EF). exact EF.
    - destruct (s2_restore start0 m0 (c_ip s) m1 start2) as [ip' m1'].
      destruct (start2 - ip' <? 3); unfold fill_post; apply FInv_ip_tabs; exact HF.
  Qed.

  Lemma search3_step_fill start0 m0 m1 start2 m2 s : lim = FillOutput -> PInv (PSearch3 start0 m0 m1 start2 m2) s -> FInv s ->
    fill_post (search3_step vrd prefixIdx dictIdx lim s0 srcSize nb start0 m0 m1 start2 m2 s oes).
  Proof.
    intros Hfo (HB & HC & Hm1 & Hmf1 & Hm2 & Hi2 & H2mf & Hg & H5 & H8 & HT) HF. pose proof plimits as (L1 & L2 & L3).
    pose proof HB as (B1 & B2 & B3 & B4 & B5).
    pose proof (mv_len _ _ Hm1) as H14.
    unfold search3_step. cbv zeta.
    pose proof (s3_adjust_spec (c_ip s) m1 start2 m2 Hm1 Hm2 H5 Hi2 H8 Hg) as HA. cbv zeta in HA.
    destruct (s3_adjust (c_ip s) m1 start2 m2) as [a m]. cbn [fst snd] in HA.
    destruct HA as (Hma & Hend2 & A1 & A2 & A3 & A4 & A5 & A6).
    assert (Hamf : a <= mflimit) by lia.
    assert (HTa : TB (c_tabs s) (a + hm_len m - 3)) by (rewrite Hend2; exact HT).
    destruct (search_next_spec (c_tabs s) a (hm_len m) 3 HTa ltac:(lia) ltac:(lia) ltac:(lia) ltac:(lia))
      as (start3 & m3 & t' & Hs & HT' & Hcase).
    rewrite Hs.
    assert (HTe : TB t' iend) by (eapply TB_mono; eauto; destruct Hma; lia).
    pose proof (FInv_tabs s t' HF) as HF'.
    destruct (hm_len m3 <=? hm_len m) eqn:El.
    - set (m1' := if a <? c_ip s + hm_len m1 then set_len m1 (a - c_ip s) else m1).
      assert (Hm1' : mv (c_ip s) m1' /\ hm_off m1' = hm_off m1 /\ c_ip s + hm_len m1' <= a).
      { subst m1'. destruct (a <? c_ip s + hm_len m1) eqn:E1.
        - split; [apply mv_short; [exact Hm1 | lia]|]. unfold set_len. cbn [hm_off hm_len]. split; [reflexivity | lia].
        - split; [exact Hm1|]. split; [reflexivity | lia]. }
      destruct Hm1' as (Hv1 & Ho1 & Hl1). clearbody m1'.
      pose proof (enc_both (with_tabs s t') (hm_len m1') (hm_off m1') Hfo HB HC HF' ltac:(cbn [with_tabs c_ip]; lia) (proj1 Hv1) (proj2 Hv1) HTe) as HE.
      destruct (c_encode vrd lim s0 srcSize (with_tabs s t') (hm_len m1') (hm_off m1') oes) as [s1|r]; [|exact HE].
      destruct HE as ((E1 & E2 & E3 & E4 & E5) & EF). cbn [with_tabs c_ip c_tabs] in *.
      pose proof (enc_both (with_ip s1 a) (hm_len m) (hm_off m) Hfo
                    ltac:(apply Base_with_ip; [exact E1 | destruct Hma; lia]) E2 (FInv_ip s1 a EF) ltac:(cbn [with_ip c_ip]; lia)
                    (proj1 Hma) (proj2 Hma) ltac:(cbn [with_ip c_tabs]; rewrite E5; exact HTe)) as HE2.
      destruct (c_encode vrd lim s0 srcSize (with_ip s1 a) (hm_len m) (hm_off m) oes) as [s2|r]; [|exact HE2].
      destruct HE2 as (_ & EF2). exact EF2.
    - destruct Hcase as [Hle|(Hgt & Hmf & Hm3 & Hst & Hend)]; [lia|].
      pose proof (mv_len _ _ Hm3) as H34.
      destruct (start3 <? c_ip s + hm_len m1 + 3) eqn:E3.
      + destruct (start3 >=? c_ip s + hm_len m1) eqn:E4.
        * destruct (s3_remove2 (c_ip s) m1 a m start3 m3) as [b mb].
          pose proof (enc_both (with_tabs s t') (hm_len m1) (hm_off m1) Hfo HB HC HF' ltac:(cbn [with_tabs c_ip]; lia) (proj1 Hm1) (proj2 Hm1) HTe) as HE.
          destruct (c_encode vrd lim s0 srcSize (with_tabs s t') (hm_len m1) (hm_off m1) oes) as [s1|r]; [|exact HE].
          destruct HE as (_ & EF). unfold fill_post. apply FInv_ip. exact EF.
        * unfold fill_post. exact HF'.
      + pose proof (s3_ml1_spec (c_ip s) m1 a m Hm1 Hma A2 A4) as HM. cbv zeta in HM.
        destruct (s3_ml1 (c_ip s) m1 a m) as [[m1' a'] m']. cbn [fst snd] in HM.
        destruct HM as (M1 & M2 & M3 & M4 & M5 & M6 & M7 & M8).
        pose proof (enc_both (with_tabs s t') (hm_len m1') (hm_off m1') Hfo HB HC HF' ltac:(cbn [with_tabs c_ip]; lia) (proj1 M1) (proj2 M1) HTe) as HE.
        destruct (c_encode vrd lim s0 srcSize (with_tabs s t') (hm_len m1') (hm_off m1') oes) as [s1|r]; [|exact HE].
        destruct HE as (_ & EF). unfold fill_post. apply FInv_ip. exact EF.
  Qed.

  Lemma hc_step_fill p s : lim = FillOutput -> PInv p s -> FInv s ->
    fill_post (hc_step vrd prefixIdx dictIdx lim s0 srcSize nb p s oes).
  Proof.
    intros Hfo H HF. destruct p as [|start0 m0 m1|start0 m0 m1 start2 m2]; cbn [hc_step].
    - apply main_step_fill; assumption.
    - apply search2_step_fill; assumption.
    - apply search3_step_fill; assumption.
  Qed.

  Lemma hc_run_fill : lim = FillOutput -> forall fuel p s, PInv p s -> FInv s ->
    RFill (hc_run vrd prefixIdx dictIdx lim s0 srcSize nb fuel p s oes).
  Proof.
    intros Hfo. induction fuel as [|f IH]; intros p s HI HF; [exact I|].
    cbn [hc_run]. pose proof (hc_step_ok p s HI) as Hs. pose proof (hc_step_fill p s Hfo HI HF) as Hf.
    destruct (hc_step vrd prefixIdx dictIdx lim s0 srcSize nb p s oes) as [[p' s']|r]; cbn [step_post fill_post] in *.
    - destruct Hs as (H1 & _). apply IH; assumption.
    - exact Hf.
  Qed.

  (* LZ4HC_compress_hashChain with limit == fillOutput: the block is STRICTLY valid for the consumed prefix *)
  Theorem hc_compress_fill_strict t : lim = FillOutput -> TB t s0 ->
    RFill (hc_compress vrd prefixIdx dictIdx lim s0 srcSize maxOut nb t).
  Proof.
    intros Hfo HT. pose proof plimits as (L1 & L2 & L3). unfold hc_compress. cbv zeta. rewrite oes_def.
    set (st := mkS s0 s0 0 [] t 0).
    assert (HB : Base st).
    { unfold HcChainSound.Base. subst st. cbn [c_ip c_anchor c_op c_rout].
      split; [lia|]. split; [lia|]. split; [lia|]. split; [|reflexivity].
      exists []. cbn. split; [reflexivity|]. split; [exact I|]. split; [reflexivity | exact I]. }
    assert (HC : CInv st).
    { unfold HcChainCap.CInv. subst st. cbn [c_hw c_op c_anchor]. pose proof chw_nonneg.
      split; [lia|]. split; [lia|]. split; [intros; lia | intros; lia]. }
    assert (HF : FInv st) by (subst st; apply cFInv_init).
    destruct (srcSize <? LZ4_minLength) eqn:E.
    - apply ll_fill; assumption.
    - apply hc_run_fill; [exact Hfo | | exact HF].
      split; [exact HB|]. split; [exact HC|]. subst st. cbn [c_tabs c_ip]. exact HT.
  Qed.
End Parser.

Print Assumptions hc_compress_ok.
Print Assumptions hc_compress_fill_strict.
