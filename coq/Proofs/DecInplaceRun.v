(* In-place decoding: the whole run on a strictly valid, non-expanding block stored at the end
   of a buffer of n + margin bytes, destination at its start, ONE memory (Model.DecInplace).
   Induction over the sequences with the distance invariant
       ip - op = K + total_len rest last - |remaining input|
   (K = margin + n - n = the margin), which is >= 31 at every loop boundary by the potential
   argument of Proofs.InplaceMargin (suffix_potential); every iteration is then equal to the
   iteration of the decoder reading a separate copy of the input (DecInplaceStep.a_step_eq) and
   leaves the input of the next boundary intact (DecFootprint). *)
From Coq Require Import ZArith List Lia Bool ZifyBool.
From LZ4V Require Import Gen.Consts Spec.BlockSpec Model.Mem Model.Dec Model.DecInplace.
From LZ4V Require Import Proofs.FastCap Proofs.InplaceMargin.
From LZ4V Require Import Proofs.DecSafe Proofs.DecRefineBase Proofs.DecRefineSafe Proofs.DecFootprint Proofs.DecInplaceStep.
Import ListNotations.
Local Open Scope Z_scope.

(* ---- the length of a parsed block is the canonical encoded length of its sequences ---- *)
Lemma read_ext_len : forall (bs : list Z) acc v (r : list Z), bytes bs -> read_ext bs acc = Some (v, r) ->
  acc <= v /\ Z.of_nat (length bs) - Z.of_nat (length r) = (v - acc) / 255 + 1.
Proof.
  induction bs as [|b r0 IH]; intros acc v r Hb H; cbn [read_ext] in H; [discriminate|].
  destruct (bytes_cons _ _ Hb) as [Hb0 Hbr].
  destruct (b =? 255) eqn:E.
  - destruct (IH _ _ _ Hbr H) as [H1 H2]. cbn [length]. split; [lia|].
    replace ((v - acc) / 255) with ((v - (acc + 255)) / 255 + 1); [lia|].
    Z.div_mod_to_equations. lia.
  - inversion H; subst. cbn [length]. split; [lia|].
    replace (acc + b - acc) with b by lia. rewrite Z.div_small by lia. lia.
Qed.

Lemma read_len_len nib (bs : list Z) v (r : list Z) :
  0 <= nib <= 15 -> bytes bs -> read_len nib bs = Some (v, r) ->
  Z.of_nat (length bs) - Z.of_nat (length r) = extlen v /\ nib <= v /\ bytes r.
Proof.
  intros Hn Hb H. unfold read_len in H. unfold extlen. destruct (nib =? 15) eqn:E.
  - destruct (read_ext_len _ _ _ _ Hb H) as [H1 H2].
    assert (Hbr : bytes r).
    { clear - H Hb. revert H. generalize 15. induction bs as [|b r0 IH]; intros acc H; cbn [read_ext] in H; [discriminate|].
      destruct (bytes_cons _ _ Hb) as [_ Hbr]. destruct (b =? 255); [eapply IH; eauto | inversion H; subst; exact Hbr]. }
    destruct (v <? 15) eqn:E2; [lia|]. repeat split; [lia | lia | exact Hbr].
  - inversion H; subst. destruct (v <? 15) eqn:E2; [|lia]. repeat split; [lia | lia | exact Hb].
Qed.

Lemma parse_enc_len : forall f (bs : list Z) ss (last : list Z),
  parse_seqs f bs = Some (ss, last) -> bytes bs -> Z.of_nat (length bs) = enc_len ss last.
Proof.
  induction f as [|f IH]; intros bs ss last H Hb; [discriminate|]. rewrite parse_seqs_S in H.
  destruct bs as [|tok r]; [discriminate|].
  destruct (bytes_cons _ _ Hb) as [Htok Hbr]. destruct (nibbles tok Htok) as [Hn1 Hn2].
  destruct (read_len (tok / 16) r) as [[ll r1]|] eqn:E1; [|discriminate].
  destruct (take (Z.to_nat ll) r1) as [[lits r2]|] eqn:E2; [|discriminate].
  destruct (read_len_len _ _ _ _ Hn1 Hbr E1) as (L1 & G1 & Hb1).
  destruct (take_spec _ _ _ _ E2) as [Er1 Hl].
  assert (Hlr1 : Z.of_nat (length r1) = Z.of_nat (length lits) + Z.of_nat (length r2)).
  { rewrite Er1, app_length. lia. }
  assert (Ell : ll = Z.of_nat (length lits)) by lia. subst ll.
  rewrite Er1 in Hb1. destruct (bytes_app _ _ Hb1) as [_ Hb2].
  destruct r2 as [|o1 [|o2 r3]]; [| discriminate |].
  - inversion H; subst ss last. unfold enc_len, lastlen. cbn [sumlen length] in *. unfold byte in *. lia.
  - destruct (bytes_cons _ _ Hb2) as [_ Hb3]. destruct (bytes_cons _ _ Hb3) as [_ Hb4].
    destruct (read_len (tok mod 16) r3) as [[ml r4]|] eqn:E3; [|discriminate].
    destruct (parse_seqs f r4) as [[ss' last']|] eqn:E4; [|discriminate].
    destruct (read_len_len _ _ _ _ Hn2 Hb4 E3) as (L3 & G3 & Hbr4).
    specialize (IH _ _ _ E4 Hbr4).
    inversion H; subst ss last. unfold enc_len in *. cbn [sumlen]. unfold seqlen. cbn [s_lits s_mlen length] in *.
    replace (ml + 4 - 4) with ml by lia. unfold byte in *. lia.
Qed.

Lemma apply_seqs_mlen4 : forall ss rout rout', apply_seqs rout ss = Some rout' -> mlens_ok ss.
Proof.
  induction ss as [|x ss IH]; intros rout rout' H; [constructor|].
  cbn [apply_seqs] in H. destruct (apply_seq rout x) as [r1|] eqn:E; [|discriminate].
  constructor; [|eapply IH; eauto].
  unfold apply_seq in E. destruct (off_ok (s_off x) && (4 <=? s_mlen x)) eqn:E2; [lia | discriminate].
Qed.

(* the distance between the cursors at a sequence boundary *)
Lemma boundary_gap K N ss last E :
  N / 256 + 33 <= K -> mlens_ok ss -> E = enc_len ss last -> E <= N ->
  31 <= K + total_len ss last - E.
Proof.
  intros HK Hm HE HN. pose proof (suffix_potential ss last Hm) as Hp. rewrite <- HE in Hp.
  set (T := total_len ss last) in *. clearbody T.
  Z.div_mod_to_equations. lia.
Qed.

Section Run.
  Variables (m0 : mem) (iend oend pos K N : Z).
  Hypothesis Hsrc : forall a, 0 <= get m0 a < 256.
  Hypothesis HK : N / 256 + 33 <= K.

  Local Notation VG := (vget 0 empty 0).
  Local Notation dstep := (d_step m0 iend oend).

  Lemma dstep_post fast s :
    ok s = true -> 0 <= ip s < iend -> 0 <= op s <= oend -> (fast = true -> op s <= oend - 64) ->
    post iend oend (ip s + 1) (dstep fast s).
  Proof.
    intros Hok Hip Hop Hf. unfold d_step. destruct fast.
    - specialize (Hf eq_refl).
      apply fast_top_ok; try assumption; try lia; try (left; lia); try discriminate; try reflexivity.
    - apply safe_top_ok; try assumption; try lia; try (left; lia); try discriminate; try reflexivity.
  Qed.

  Lemma a_run_valid : forall f (bs : list Z) ss (last : list Z), parse_seqs f bs = Some (ss, last) ->
    forall rout rout' s fuel (fast : bool),
    apply_seqs rout ss = Some rout' -> end_ok ss last = true ->
    bytes bs -> src_at m0 (ip s) bs -> 0 <= ip s -> ip s + Z.of_nat (length bs) = iend ->
    out_at (VG (dm s)) (op s) rout -> Z.of_nat (length rout) <= op s -> 0 <= op s ->
    op s + total_len ss last <= oend -> (length bs < fuel)%nat ->
    ok s = true -> (fast = true -> op s <= oend - 64) ->
    same_above m0 (dm s) (ip s) ->
    ip s - op s = K + total_len ss last - Z.of_nat (length bs) -> Z.of_nat (length bs) <= N ->
    exists s', a_run iend oend pos fuel fast s = (op s + total_len ss last, s')
               /\ out_at (VG (dm s')) (op s + total_len ss last) (rev last ++ rout') /\ ok s' = true.
  Proof.
    induction f as [|f IH]; intros bs ss last H rout rout' s fuel fast Happ Hend Hb Hs Hip Hie O Hlen Hop Hroom Hfuel Hok Hfast SA Hgap HN.
    { discriminate. }
    pose proof (parse_enc_len _ _ _ _ H Hb) as Henc.
    pose proof (apply_seqs_mlen4 _ _ _ Happ) as Hm4.
    pose proof (boundary_gap K N ss last _ HK Hm4 Henc HN) as Hg31.
    assert (Hstep : a_step iend oend fast s = dstep fast s) by (apply (a_step_eq m0 iend oend Hsrc); [exact SA | lia]).
    rewrite parse_seqs_S in H.
    destruct bs as [|tok r]; [discriminate|].
    destruct (read_len (tok / 16) r) as [[ll r1]|] eqn:E1; [|discriminate].
    destruct (take (Z.to_nat ll) r1) as [[lits r2]|] eqn:E2; [|discriminate].
    destruct fuel as [|fuel]; [lia|].
    cbn [a_run]. change (if fast then a_fast_top iend oend s else a_safe_top iend oend s) with (a_step iend oend fast s).
    rewrite Hstep.
    assert (HP : post iend oend (ip s + 1) (dstep fast s)).
    { apply dstep_post; try assumption; cbn [length] in Hie; try lia. pose proof (total_len_ge ss last (apply_seqs_mlen _ _ _ Happ)). lia. }
    assert (Ell : ll = Z.of_nat (length lits)).
    { destruct (take_spec _ _ _ _ E2) as [_ Hl]. destruct (bytes_cons _ _ Hb) as [Htok Hbr].
      destruct (nibbles tok Htok) as [Hn1 _].
      destruct (src_at_cons _ _ _ _ Hs) as [_ Hsr].
      destruct (read_len_suffix m0 iend _ _ _ _ _ Hn1 E1 Hbr Hsr) as (_ & Hll & _). unfold byte in *. lia. }
    destruct r2 as [|o1 [|o2 r3]]; [| discriminate |].
    - assert (Hss : ss = []) by congruence. assert (Hla : lits = last) by congruence. clear H. subst ss last.
      cbn [apply_seqs] in Happ. assert (Hr' : rout = rout') by congruence. subst rout'.
      cbn [total_len fold_right] in *.
      assert (HL : is_done (dstep fast s)
                     (fun s' => op s' = op s + ll /\ out_at (VG (dm s')) (op s') (rev lits ++ rout))).
      { unfold d_step. destruct fast.
        - apply (fast_top_last_sim false NoDict m0 iend oend 0 0 empty 0 ltac:(lia) s tok r ll r1 lits rout eq_refl Hb Hs Hip Hie E1 E2 O Hop). unfold byte in *. lia.
        - apply (safe_top_last_sim false NoDict m0 iend oend 0 0 empty 0 ltac:(lia) s tok r ll r1 lits rout eq_refl Hb Hs Hip Hie E1 E2 O Hop). unfold byte in *. lia. }
      destruct (dstep fast s) as [f' s'|s'|s']; cbn [is_done] in HL; try (exfalso; exact HL).
      destruct HL as [H1 H2]. cbn [post] in HP.
      exists s'. rewrite H1, Ell. split; [reflexivity|]. split; [|apply HP]. rewrite <- Ell, <- H1. exact H2.
    - destruct (read_len (tok mod 16) r3) as [[ml r4]|] eqn:E3; [|discriminate].
      destruct (parse_seqs f r4) as [[ss' last']|] eqn:E4; [|discriminate].
      assert (Hss : mkSeq lits (o1 + 256 * o2) (ml + 4) :: ss' = ss) by congruence.
      assert (Hlast : last' = last) by congruence. clear H. subst ss last.
      cbn [apply_seqs] in Happ.
      destruct (apply_seq rout (mkSeq lits (o1 + 256 * o2) (ml + 4))) as [rout1|] eqn:Eapp; [|discriminate].
      pose proof (apply_seqs_mlen _ _ _ Happ) as Fml.
      assert (Hml0 : 0 <= ml + 4).
      { unfold apply_seq in Eapp. cbn [s_off s_mlen] in Eapp. destruct (off_ok (o1 + 256 * o2) && (4 <=? ml + 4)) eqn:E; [lia|discriminate]. }
      destruct (end_room ss' (mkSeq lits (o1 + 256 * o2) (ml + 4)) last' Hend) as (H5 & H12 & Hend').
      { constructor; [cbn [s_mlen]; lia | exact Fml]. }
      cbn [s_mlen] in H12.
      pose proof (total_len_ge ss' last' Fml) as Htl.
      pose proof (parse_seqs_len _ _ _ _ E4) as Hr4.
      cbn [total_len fold_right s_lits s_mlen] in Hroom, Hgap. fold (total_len ss' last') in Hroom, Hgap.
      assert (Hlen1 : length rout1 = (length rout + length lits + Z.to_nat (ml + 4))%nat).
      { unfold apply_seq in Eapp. cbn [s_lits s_off s_mlen] in Eapp.
        destruct (off_ok (o1 + 256 * o2) && (4 <=? ml + 4)); [|discriminate].
        apply copy_match_length in Eapp. rewrite app_length, rev_length in Eapp. unfold byte in *. lia. }
      assert (HS : is_cont_any (dstep fast s)
            (fun s' => ip s' + Z.of_nat (length r4) = ip s + Z.of_nat (length (tok :: r)) /\
                       src_at m0 (ip s') r4 /\ bytes r4 /\
                       op s' = op s + ll + (ml + 4) /\ out_at (VG (dm s')) (op s') rout1)).
      { unfold d_step. destruct fast.
        - apply (fast_top_seq_sim false NoDict m0 iend oend 0 0 empty 0 ltac:(lia) ltac:(lia) s tok r ll r1 lits o1 o2 r3 ml r4 rout rout1);
            try assumption; unfold byte in *; cbn [hroom is_extdict]; try lia.
        - pose proof (safe_top_seq_sim false NoDict m0 iend oend 0 0 empty 0 ltac:(lia) ltac:(lia) s tok r ll r1 lits o1 o2 r3 ml r4 rout rout1) as X.
          assert (X' : is_cont (safe_top false NoDict m0 iend oend 0 0 empty 0 s)
                    (fun s' => ip s' + Z.of_nat (length r4) = ip s + Z.of_nat (length (tok :: r)) /\
                       src_at m0 (ip s') r4 /\ bytes r4 /\
                       op s' = op s + ll + (ml + 4) /\ out_at (VG (dm s')) (op s') rout1)).
          { apply X; try assumption; unfold byte in *; cbn [hroom is_extdict]; try lia. }
          destruct (safe_top false NoDict m0 iend oend 0 0 empty 0 s) as [[|] s'|s'|s']; cbn [is_cont is_cont_any] in *; first [exact X' | exfalso; exact X']. }
      pose proof (d_step_keeps m0 iend oend Hsrc fast s) as Hkeep.
      destruct (dstep fast s) as [f' s'|s'|s']; cbn [is_cont_any] in HS; try (exfalso; exact HS).
      destruct HS as (Hi' & Hs' & Hb' & Ho' & O').
      cbn [post] in HP. destruct HP as (Hok' & Hip' & Hop' & Hf').
      assert (Hshr : (length r4 + 2 <= length r)%nat).
      { pose proof (read_len_shorter _ _ _ _ E1). pose proof (read_len_shorter _ _ _ _ E3).
        destruct (take_spec _ _ _ _ E2) as [Er1 _]. unfold byte in *.
        assert (length r1 = (length lits + S (S (length r3)))%nat) by (rewrite Er1, app_length; reflexivity). lia. }
      cbn [length] in Hi', Hie, Hfuel, Hgap, HN.
      assert (Hgap' : ip s' - op s' = K + total_len ss' last' - Z.of_nat (length r4)) by (unfold byte in *; lia).
      assert (Hg31' : 31 <= K + total_len ss' last' - Z.of_nat (length r4)).
      { apply (boundary_gap K N ss' last'); [exact HK | eapply apply_seqs_mlen4; exact Happ | apply (parse_enc_len f); assumption | unfold byte in *; lia]. }
      assert (SA' : same_above m0 (dm s') (ip s')).
      { apply (Hkeep f' s' SA eq_refl); unfold byte in *; lia. }
      destruct (IH r4 ss' last' E4 rout1 rout' s' fuel f' Happ Hend' Hb' Hs') as (s'' & Hrun & Hout & Hok'');
        try assumption; try (unfold byte in *; lia).
      exists s''. rewrite Hrun. split; [|split; [|exact Hok'']].
      + f_equal. cbn [total_len fold_right s_lits s_mlen]. fold (total_len ss' last'). lia.
      + cbn [total_len fold_right s_lits s_mlen]. fold (total_len ss' last').
        replace (op s + (Z.of_nat (length lits) + (ml + 4) + total_len ss' last')) with (op s' + total_len ss' last') by lia.
        exact Hout.
  Qed.
End Run.
