(* Proofs about Model/Io.v, part 5: the exception of C14_exit0_sound is only reachable on seekable
   input.  [s_pasteof] ("a successful fseek went beyond the end of the input") is set by [seek_fwd]
   alone, which runs only when the source is seekable: on a pipe the flag never changes. *)
From Coq Require Import ZArith List Lia Bool.
From LZ4V Require Import Spec.BlockSpec Spec.FrameSpec Gen.Consts Model.Io.
Import ListNotations.
Local Open Scope Z_scope.

Definition pk (s s' : st) : Prop := s_pasteof s' = s_pasteof s.
Definition rpk {A} (s : st) (r : res A) : Prop := match r with Ret _ s' => pk s s' | Die _ s' => pk s s' end.

Lemma pk_refl : forall s, pk s s.
Proof. intros s. reflexivity. Qed.
Lemma pk_trans : forall a b c, pk a b -> pk b c -> pk a c.
Proof. unfold pk. intros a b c H1 H2. congruence. Qed.

Lemma fread_pk : forall fl n s g s1, fread fl n s = (g, s1) -> pk s s1.
Proof.
  intros fl n s g s1 H. unfold fread, read_plain in H.
  destruct (f_rlimit fl) as [lim|]; [destruct (lim - s_rpos s <=? 0); [|destruct (lim - s_rpos s <? n)]|];
    inversion H; subst; reflexivity.
Qed.
Lemma fwrite_pk : forall fl d s b s1, fwrite fl d s = (b, s1) -> pk s s1.
Proof.
  intros fl d s b s1 H. unfold fwrite in H.
  destruct (f_wlimit fl) as [lim|]; [destruct (lim - s_wpos s <? len d)|]; inversion H; subst; reflexivity.
Qed.
Lemma skip_stream_pk : forall fl off s e s1, skip_stream fl off s = (e, s1) -> pk s s1.
Proof.
  intros fl off s e s1 H. unfold skip_stream in H. destruct (off <=? 0); [inversion H; apply pk_refl|].
  destruct (fread fl off s) as [g s2] eqn:R. apply fread_pk in R. destruct (len g =? off); inversion H; subst; exact R.
Qed.
(* on a pipe every fseek fails *)
Lemma fseek_u32_pk : forall fuel fl off s e s1, fseek_u32 fuel false fl off s = (e, s1) -> pk s s1.
Proof.
  intros fuel fl off s e s1 H. destruct fuel; cbn [fseek_u32] in H; [inversion H; apply pk_refl|].
  destruct (off <=? 0); [inversion H; apply pk_refl|]. cbn [andb] in H.
  apply skip_stream_pk in H. eapply pk_trans; [|exact H]. reflexivity.
Qed.

Section Seek.
  Variable fdec : list byte -> option (list byte * list byte).
  Variable bdec : list byte -> option (list byte).

  Lemma legacy_loop_pk : forall fuel mt fl s, rpk s (legacy_loop bdec fuel mt fl s).
  Proof.
    induction fuel; intros mt fl s; cbn [legacy_loop]; [apply pk_refl|].
    destruct (fread fl IO_LEGACY_BLOCK_HEADER_SIZE s) as [hdr s1] eqn:R1. apply fread_pk in R1.
    destruct (len hdr =? 0); [exact R1|].
    destruct (negb (len hdr =? IO_LEGACY_BLOCK_HEADER_SIZE)); [exact R1|].
    destruct (LZ4IO_LEGACY_BOUND <? le_val hdr); [exact R1|].
    destruct (fread fl (le_val hdr) s1) as [blk s2] eqn:R2. apply fread_pk in R2.
    assert (D2 := pk_trans _ _ _ R1 R2).
    destruct (negb (len blk =? le_val hdr)); [exact D2|].
    destruct (bdec blk) as [c|]; [|exact D2].
    destruct (LEGACY_BLOCKSIZE <? len c); [exact D2|].
    destruct (fwrite fl c s2) as [ok s3] eqn:W. apply fwrite_pk in W. assert (D3 := pk_trans _ _ _ D2 W).
    destruct ok; [|exact D3].
    specialize (IHfuel mt fl s3). destruct (legacy_loop bdec fuel mt fl s3); cbn [rpk] in *; eapply pk_trans; eassumption.
  Qed.

  Lemma legacy_pk : forall mt fl s, rpk s (legacy bdec mt fl s).
  Proof.
    intros mt fl s. unfold legacy. assert (H := legacy_loop_pk (S (length (s_in s))) mt fl s).
    destruct (legacy_loop bdec (S (length (s_in s))) mt fl s) as [[] s1|c s1]; cbn [rpk] in *; [destruct (s_rerr s1)|]; exact H.
  Qed.

  Lemma lz4f_st_pk : forall test fl s, rpk s (lz4f_st fdec test fl s).
  Proof.
    intros test fl s. unfold lz4f_st.
    destruct (fdec _) as [[c rest]|]; [|reflexivity].
    destruct (match f_rlimit fl with Some lim => _ | None => false end).
    - destruct (fread fl _ s) as [g s1] eqn:R. apply fread_pk in R. exact R.
    - destruct test; [reflexivity|].
      match goal with |- context [fwrite fl c ?x] => destruct (fwrite fl c x) as [ok s2] eqn:W end.
      apply fwrite_pk in W. destruct ok; cbn [rpk]; exact W.
  Qed.

  Lemma mt_frames_pk : forall fuel fl data s, rpk s (mt_frames fdec fuel fl data s).
  Proof.
    induction fuel; intros fl data s; cbn [mt_frames]; [apply pk_refl|].
    destruct data as [|d0 dr] eqn:ED; [apply pk_refl|]. rewrite <- ED. clear ED.
    destruct (len data <? minFHSize); [apply pk_refl|].
    destruct (Z.land _ _ =? _).
    - destruct (len data <? 8); [apply pk_refl|]. destruct (len data - 8 <? _); [apply pk_refl|]. apply IHfuel.
    - destruct (_ =? LZ4IO_MAGICNUMBER); [|apply pk_refl].
      destruct (fdec data) as [[c rest]|]; [|apply pk_refl].
      destruct (fwrite fl c s) as [ok s1] eqn:W. apply fwrite_pk in W. destruct ok; [|exact W].
      specialize (IHfuel fl rest s1). destruct (mt_frames fdec fuel fl rest s1); cbn [rpk] in *; eapply pk_trans; eassumption.
  Qed.

  Lemma lz4f_mt_pk : forall fl s, rpk s (lz4f_mt fdec fl s).
  Proof.
    intros fl s. unfold lz4f_mt. destruct (fread fl (len (s_in s) + 1) s) as [g s1] eqn:R. apply fread_pk in R.
    destruct (s_rerr s1); [exact R|].
    match goal with |- rpk s ?x => assert (H : rpk s1 x) by apply mt_frames_pk; destruct x end; cbn [rpk] in *; eapply pk_trans; eassumption.
  Qed.

  Lemma pass_through_pk : forall fl mn s, rpk s (pass_through fl mn s).
  Proof.
    intros fl mn s. unfold pass_through.
    destruct (fwrite fl mn s) as [ok s1] eqn:W. apply fwrite_pk in W. destruct (negb ok); [exact W|].
    destruct (fread fl (len (s_in s1) + 1) s1) as [g s2] eqn:R. apply fread_pk in R.
    destruct (fwrite fl g s2) as [ok2 s3] eqn:W2. apply fwrite_pk in W2.
    assert (D := pk_trans _ _ _ (pk_trans _ _ _ W R) W2).
    destruct (negb ok2); [exact D|]. destruct (s_rerr s3); exact D.
  Qed.

  Lemma lift_pk : forall s (r : res unit), rpk s r -> rpk s (lift r).
  Proof. intros s r H. destruct r; exact H. Qed.

  Lemma dispatch_pk : forall mt test pt fl magic mn s, rpk s (dispatch fdec bdec mt test pt false fl magic mn s).
  Proof.
    intros mt test pt fl magic mn s. unfold dispatch.
    set (m' := if is_skippable magic then LZ4IO_SKIPPABLE0 else magic). clearbody m'.
    destruct (m' =? LZ4IO_MAGICNUMBER); [apply lift_pk; destruct mt; [apply lz4f_mt_pk|apply lz4f_st_pk]|].
    destruct (m' =? LEGACY_MAGICNUMBER); [apply lift_pk, legacy_pk|].
    destruct (m' =? LZ4IO_SKIPPABLE0).
    { destruct (fread fl 4 s) as [szb s1] eqn:R. apply fread_pk in R.
      destruct (negb (len szb =? 4)); [exact R|].
      destruct (fseek_u32 6 false fl (le_val szb) s1) as [e s2] eqn:FS. apply fseek_u32_pk in FS.
      destruct (e =? 0); cbn [rpk]; eapply pk_trans; eassumption. }
    destruct (s_nbFrames s =? 1); [|apply pk_refl].
    destruct (pt && negb test); [|apply pk_refl].
    apply lift_pk. assert (H := pass_through_pk fl mn (set_nb 0 s)).
    destruct (pass_through fl mn (set_nb 0 s)); cbn [rpk] in *; exact H.
  Qed.

  Lemma select_pk : forall mt test pt fl s, rpk s (select_decoder fdec bdec mt test pt false fl s).
  Proof.
    intros mt test pt fl s. unfold select_decoder.
    set (s0 := set_nb (s_nbFrames s + 1) s).
    destruct (negb (s_magic s0 =? 0)).
    - assert (H := dispatch_pk mt test pt fl (s_magic s0) [] (set_magic 0 s0)).
      destruct (dispatch _ _ _ _ _ _ _ _ _ _); cbn [rpk] in *; exact H.
    - destruct (fread fl MAGICNUMBER_SIZE s0) as [mn s1] eqn:R. apply fread_pk in R.
      assert (D1 : pk s s1) by exact R.
      destruct (len mn =? 0); [destruct (s_rerr s1); cbn [rpk]; exact D1|].
      destruct (negb (len mn =? MAGICNUMBER_SIZE)); [exact D1|].
      assert (H := dispatch_pk mt test pt fl (le_val mn) mn s1).
      destruct (dispatch _ _ _ _ _ _ _ _ _ _); cbn [rpk] in *; eapply pk_trans; eassumption.
  Qed.

  Lemma frames_loop_pk : forall fuel mt test pt fl s, rpk s (frames_loop fdec bdec fuel mt test pt false fl s).
  Proof.
    induction fuel; intros mt test pt fl s; cbn [frames_loop]; [apply pk_refl|].
    assert (H := select_pk mt test pt fl s).
    destruct (select_decoder fdec bdec mt test pt false fl s) as [d sd|c sd]; cbn [rpk] in H; [|exact H].
    destruct d; [|exact H|exact H].
    specialize (IHfuel mt test pt fl sd).
    destruct (frames_loop fdec bdec fuel mt test pt false fl sd); cbn [rpk] in *; eapply pk_trans; eassumption.
  Qed.

  (* on a pipe (no fseek) the exception of C14_exit0_sound cannot arise *)
  Theorem pipe_no_pasteof : forall mt test pt rm fl input,
    o_pasteof (decompress_file fdec bdec mt test pt false rm fl input) = false.
  Proof.
    intros mt test pt rm fl input. unfold decompress_file, decompress_dst, decompress_src.
    destruct (f_open_dst fl); [reflexivity|].
    cbn [ev s_in st_init].
    destruct (f_open_src fl).
    { unfold close_and_remove. destruct (f_close_dst fl); [reflexivity|]. cbn. reflexivity. }
    match goal with |- context [frames_loop ?a ?b ?f ?m ?t ?p ?k ?l ?x] =>
      assert (H := frames_loop_pk f m t p l x); destruct (frames_loop a b f m t p k l x) as [r s2|c s2] end;
      cbn [rpk] in H; unfold pk in H; cbn [ev s_pasteof st_init] in H.
    - unfold close_and_remove. destruct (f_close_dst fl); [cbn; exact H|].
      destruct ((r =? 0) && rm); [destruct (f_remove fl)|]; cbn; exact H.
    - cbn. exact H.
  Qed.
End Seek.
