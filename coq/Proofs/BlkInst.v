(* The block compressor of the LZ4F model (Model.FrameC's Section variable [blk]) instantiated with the block-compressor
   MODELS, for independent blocks without dictionary: what lz4frame.c calls there is
     level <  LZ4HC_CLEVEL_MIN (2) : LZ4_compress_fast_extState_fastReset(ctx, src, dst, n, n-1, level < 0 ? -level+1 : 1)
     level >= LZ4HC_CLEVEL_MIN     : LZ4_resetStreamHC_fast (LZ4F_initStream) then
                                     LZ4_compress_HC_extStateHC_fastReset(ctx, src, dst, n, n-1, level)
                                     (level 2: LZ4MID, Model.HcMidApi; levels 3..: hash chain / optimal, Model.HcOptApi)
   (LZ4F_compressBlock / LZ4F_compressBlockHC with cdict == NULL; LZ4F_makeBlock passes the capacity srcSize-1).

   The state of the lz4 / lz4hc context before the n-th call is given by an ORACLE [st : nat -> state]: the theorems hold
   for every oracle whose states satisfy the models' context invariants (ctx_ok / hc_ok / cc_ok); the states actually
   reached by a session form such an oracle ([fast_run_ok], [mid_run_ok], [hc_run_ok]: the invariants are preserved by
   every call).

   Glue between FrameC's lists and the models' flat memories: the block is loaded at address 0 of a fresh memory
   ([mem_of_list 0 x]).  The models' range hypotheses (the input is a byte string, 0 < n < 2^31) cannot be premises of
   [blk_contract] (it quantifies over every list), so they are a GUARD of the instance: outside them it returns None
   (= "the compressor returned 0", block stored raw).  LZ4F blocks are at most 4 MB of bytes, so the guard never fires in
   a real session.  There is NO run-time check of the output: that the models' outputs are byte strings is proved
   (FastApiSound for the fast path, Proofs.ParserBytes for LZ4MID / hash chain / optimal), which gives [blk_bytes]. *)
From Coq Require Import ZArith List Lia Bool.
From LZ4V Require Import Gen.Consts Spec.BlockSpec Model.Mem Model.Fast Model.FastApi Model.HcMid Model.HcMidApi
     Model.HcChain Model.HcChainApi Model.HcOpt Model.HcOptApi Model.FrameC.
From LZ4V Require Import Proofs.BlockHistExt Proofs.FastStreamMem Proofs.FastApiSound Proofs.HcMidApiSound
     Proofs.HcChainSearch Proofs.HcChainApiSound Proofs.HcOptApiSound Proofs.ParserBytes Proofs.FrameCTheorems Proofs.FrameRoundTrip.
Import ListNotations.
Local Open Scope Z_scope.

(* ---- glue ---- *)
Definition blk_guard (x : list byte) : bool := bytes_ok x && (0 <? len x) && (len x <? 2147483648).
Definition blk_out (ret : Z) (out : list byte) : option (list byte) := if 0 <? ret then Some out else None.
(* the former, guarded form (output checked at run time); [blk_out_guard_true]: the guard always passes on byte outputs *)
Definition blk_out_g (ret : Z) (out : list byte) : option (list byte) := if (0 <? ret) && bytes_ok out then Some out else None.
Lemma blk_out_guard_true ret out : bytes_ok out = true -> blk_out_g ret out = blk_out ret out.
Proof. intros H. unfold blk_out_g, blk_out. rewrite H, andb_true_r. reflexivity. Qed.

Lemma bytes_list_ok x : bytes_ok x = true -> list_ok x.
Proof.
  unfold bytes_ok, list_ok. rewrite forallb_forall, Forall_forall. intros H b Hb. specialize (H b Hb).
  unfold byte_ok in H. lia.
Qed.

Lemma src_ok_of_list x : bytes_ok x = true -> src_ok (mem_of_list 0 x).
Proof.
  intros H a. unfold mem_of_list. apply store_list_ok; [intros y; rewrite FastApiSound.get_empty; lia | apply bytes_list_ok; exact H].
Qed.

Lemma load_of_list x : load_list (mem_of_list 0 x) 0 (Z.to_nat (len x)) = x.
Proof. unfold len, mem_of_list. rewrite Nat2Z.id. apply load_store_same. Qed.

Lemma blk_out_some ret out c : blk_out ret out = Some c -> 0 < ret /\ c = out.
Proof.
  unfold blk_out. destruct (0 <? ret) eqn:E; [|discriminate].
  intros H; inversion H; subst. split; [lia | reflexivity].
Qed.
Lemma blk_out_g_some ret out c : blk_out_g ret out = Some c -> 0 < ret /\ c = out /\ bytes_ok c = true.
Proof.
  unfold blk_out_g. destruct ((0 <? ret) && bytes_ok out) eqn:E; [|discriminate].
  intros H; inversion H; subst. apply andb_true_iff in E. destruct E as [E1 E2]. split; [lia | split; [reflexivity | exact E2]].
Qed.

Lemma strict_any_hist h c x : strict_valid [] c = Some x -> strict_valid h c = Some x.
Proof. intros H. rewrite <- (app_nil_r h). apply strict_valid_ext. exact H. Qed.

(* ---- the three instances ---- *)
Definition fast_accel (level : Z) : Z := if level <? 0 then - level + 1 else 1.

Definition fast_call (c : fctx) (level : Z) (x : list byte) : ares :=
  compress_fast_extState_fastReset c (mem_of_list 0 x) (len x) (len x - 1) (fast_accel level).
Definition mid_call (c : hcctx) (x : list byte) : hres :=
  compress_HC_fastReset_mid (hc_reset_fast c) (mem_of_list 0 x) (len x) (len x - 1).
Definition hc_call (c : hcc) (level : Z) (x : list byte) : cres_api :=
  compress_HC_fastReset_all (cc_reset_fast c) (mem_of_list 0 x) (len x) (len x - 1) level.

Definition blk_fast (st : nat -> fctx) (level : Z) (n : nat) (h x : list byte) : option (list byte) :=
  if blk_guard x then let a := fast_call (st n) level x in blk_out (a_ret a) (a_out a) else None.
Definition blk_mid (st : nat -> hcctx) (n : nat) (h x : list byte) : option (list byte) :=
  if blk_guard x then let r := mid_call (st n) x in blk_out (hr_ret r) (hr_out r) else None.
Definition blk_hc (st : nat -> hcc) (level : Z) (n : nat) (h x : list byte) : option (list byte) :=
  if blk_guard x then let r := hc_call (st n) level x in blk_out (cr_ret r) (cr_out r) else None.

(* LZ4F_selectCompression / LZ4HC_getCLevelParams: which compressor serves the frame's level *)
Definition blk_indep (level : Z) (sf : nat -> fctx) (sm : nat -> hcctx) (sh : nat -> hcc) : nat -> list byte -> list byte -> option (list byte) :=
  if level <? LZ4HC_CLEVEL_MIN then blk_fast sf level
  else if level <? 3 then blk_mid sm
  else blk_hc sh level.

Lemma guard_facts x : blk_guard x = true -> bytes_ok x = true /\ 0 < len x < 2147483648.
Proof. unfold blk_guard. intros H. apply andb_true_iff in H. destruct H as [H H3]. apply andb_true_iff in H. destruct H as [H1 H2]. split; [exact H1 | lia]. Qed.

Lemma hc_reset_fast_hc_ok c : hc_ok c -> hc_ok (hc_reset_fast c).
Proof. intros H. unfold hc_reset_fast. destruct (hc_dirty c); [apply hc_ok_init | exact H]. Qed.
Lemma cc_reset_fast_cc_ok c : cc_ok c -> cc_ok (cc_reset_fast c).
Proof. intros H. unfold cc_reset_fast. destruct (cc_dirty c); [apply cc_ok_init | exact H]. Qed.

Lemma all_level_ge3 l : 3 <= l -> all_level l = true.
Proof.
  intros H. destruct (Z_le_gt_dec l 12) as [Hle|Hgt].
  - assert (E : l = 3 \/ l = 4 \/ l = 5 \/ l = 6 \/ l = 7 \/ l = 8 \/ l = 9 \/ l = 10 \/ l = 11 \/ l = 12) by lia.
    repeat (destruct E as [->|E]; [vm_compute; reflexivity|]). subst l. vm_compute. reflexivity.
  - unfold all_level, chain_level, opt_level, cl_params. unfold LZ4HC_CLEVEL_MAX, LZ4HC_CLEVEL_DEFAULT.
    replace (l <? 1) with false by lia. replace (Z.min 12 l) with 12 by lia. vm_compute. reflexivity.
Qed.

(* ---- blk_contract and blk_bytes, for every oracle of invariant-satisfying states ---- *)
Theorem blk_fast_contract st level : (forall n, ctx_ok (st n)) -> blk_contract strict_valid (blk_fast st level).
Proof.
  intros Hst n h x c. unfold blk_fast. destruct (blk_guard x) eqn:G; [|discriminate].
  destruct (guard_facts x G) as (Gb & Gn). cbv zeta. intros H. destruct (blk_out_some _ _ _ H) as (Hp & ->).
  destruct (compress_fast_extState_fastReset_sound (st n) (mem_of_list 0 x) (len x) (len x - 1) (fast_accel level)
              (src_ok_of_list x Gb) (Hst n)) as (_ & HS).
  destruct (HS Hp) as (_ & HV). rewrite load_of_list in HV. apply strict_any_hist. exact HV.
Qed.

Theorem blk_mid_contract st : (forall n, hc_ok (st n)) -> blk_contract strict_valid (blk_mid st).
Proof.
  intros Hst n h x c. unfold blk_mid. destruct (blk_guard x) eqn:G; [|discriminate].
  destruct (guard_facts x G) as (Gb & Gn). cbv zeta. intros H. destruct (blk_out_some _ _ _ H) as (Hp & ->).
  destruct (compress_HC_fastReset_mid_sound (hc_reset_fast (st n)) (mem_of_list 0 x) (len x) (len x - 1)
              (hc_reset_fast_hc_ok _ (Hst n)) (src_ok_of_list x Gb) ltac:(lia) ltac:(lia)) as ((_ & _ & HS) & _).
  destruct (HS Hp) as (_ & _ & _ & _ & HV).
  destruct (HV ltac:(destruct (len x - 1 <? compressBound (len x)); discriminate)) as (_ & HV').
  rewrite load_of_list in HV'. apply strict_any_hist. exact HV'.
Qed.

Theorem blk_hc_contract st level : 3 <= level -> (forall n, cc_ok (st n)) -> blk_contract strict_valid (blk_hc st level).
Proof.
  intros Hl Hst n h x c. unfold blk_hc. destruct (blk_guard x) eqn:G; [|discriminate].
  destruct (guard_facts x G) as (Gb & Gn). cbv zeta. intros H. destruct (blk_out_some _ _ _ H) as (Hp & ->).
  destruct (compress_HC_fastReset_all_sound (cc_reset_fast (st n)) (mem_of_list 0 x) (len x) (len x - 1) level
              (cc_reset_fast_cc_ok _ (Hst n)) (src_ok_of_list x Gb) ltac:(lia) ltac:(lia) (all_level_ge3 level Hl)) as ((_ & _ & HS) & _).
  destruct (HS Hp) as (_ & _ & _ & _ & HV).
  destruct (HV ltac:(destruct (len x - 1 <? compressBound (len x)); discriminate)) as (_ & HV').
  rewrite load_of_list in HV'. apply strict_any_hist. exact HV'.
Qed.

Theorem blk_indep_contract level sf sm sh :
  (forall n, ctx_ok (sf n)) -> (forall n, hc_ok (sm n)) -> (forall n, cc_ok (sh n)) ->
  blk_contract strict_valid (blk_indep level sf sm sh).
Proof.
  intros Hf Hm Hh. unfold blk_indep. destruct (level <? LZ4HC_CLEVEL_MIN) eqn:E1; [apply blk_fast_contract; exact Hf|].
  destruct (level <? 3) eqn:E2; [apply blk_mid_contract; exact Hm | apply blk_hc_contract; [lia | exact Hh]].
Qed.

(* the outputs are byte strings: no run-time check, from "the compressors emit bytes" *)
Theorem blk_fast_bytes st level : (forall n, ctx_ok (st n)) -> blk_bytes (blk_fast st level).
Proof.
  intros Hst n h x c. unfold blk_fast. destruct (blk_guard x) eqn:G; [|discriminate].
  destruct (guard_facts x G) as (Gb & Gn). cbv zeta. intros H. destruct (blk_out_some _ _ _ H) as (Hp & ->).
  exact (compress_fast_extState_fastReset_bytes (st n) (mem_of_list 0 x) (len x) (len x - 1) (fast_accel level)
           (src_ok_of_list x Gb) (Hst n) Hp).
Qed.

Theorem blk_mid_bytes st : (forall n, hc_ok (st n)) -> blk_bytes (blk_mid st).
Proof.
  intros Hst n h x c. unfold blk_mid. destruct (blk_guard x) eqn:G; [|discriminate].
  destruct (guard_facts x G) as (Gb & Gn). cbv zeta. intros H. destruct (blk_out_some _ _ _ H) as (Hp & ->).
  apply compress_HC_fastReset_mid_bytes; [apply hc_reset_fast_hc_ok; apply Hst | apply src_ok_of_list; exact Gb | lia | lia].
Qed.

Theorem blk_hc_bytes st level : (forall n, cc_ok (st n)) -> blk_bytes (blk_hc st level).
Proof.
  intros Hst n h x c. unfold blk_hc. destruct (blk_guard x) eqn:G; [|discriminate].
  destruct (guard_facts x G) as (Gb & Gn). cbv zeta. intros H. destruct (blk_out_some _ _ _ H) as (Hp & ->).
  apply compress_HC_fastReset_all_bytes; [apply cc_reset_fast_cc_ok; apply Hst | apply src_ok_of_list; exact Gb | lia | lia].
Qed.

Theorem blk_indep_bytes level sf sm sh :
  (forall n, ctx_ok (sf n)) -> (forall n, hc_ok (sm n)) -> (forall n, cc_ok (sh n)) ->
  blk_bytes (blk_indep level sf sm sh).
Proof.
  intros Hf Hm Hh. unfold blk_indep. destruct (level <? LZ4HC_CLEVEL_MIN); [apply blk_fast_bytes; exact Hf|].
  destruct (level <? 3); [apply blk_mid_bytes; exact Hm | apply blk_hc_bytes; exact Hh].
Qed.

(* ---- the states reached by a session form such an oracle ---- *)
(* [xs n] = the n-th block handed to the compressor; [*_run c0 xs n] = the context before the n-th call *)
Fixpoint fast_run (c0 : fctx) (level : Z) (xs : nat -> list byte) (n : nat) : fctx :=
  match n with O => c0 | S k => a_ctx (fast_call (fast_run c0 level xs k) level (xs k)) end.
Fixpoint mid_run (c0 : hcctx) (xs : nat -> list byte) (n : nat) : hcctx :=
  match n with O => c0 | S k => hr_ctx (mid_call (mid_run c0 xs k) (xs k)) end.
Fixpoint hc_run_states (c0 : hcc) (level : Z) (xs : nat -> list byte) (n : nat) : hcc :=
  match n with O => c0 | S k => cr_ctx (hc_call (hc_run_states c0 level xs k) level (xs k)) end.

Lemma fast_run_ok c0 level xs : ctx_ok c0 -> (forall n, blk_guard (xs n) = true) -> forall n, ctx_ok (fast_run c0 level xs n).
Proof.
  intros H0 Hx. induction n as [|k IH]; cbn [fast_run]; [exact H0|].
  destruct (guard_facts _ (Hx k)) as (Gb & _).
  exact (proj1 (compress_fast_extState_fastReset_sound _ _ _ _ _ (src_ok_of_list _ Gb) IH)).
Qed.

Lemma mid_run_ok c0 xs : hc_ok c0 -> (forall n, blk_guard (xs n) = true) -> forall n, hc_ok (mid_run c0 xs n).
Proof.
  intros H0 Hx. induction n as [|k IH]; cbn [mid_run]; [exact H0|].
  destruct (guard_facts _ (Hx k)) as (Gb & Gn).
  destruct (compress_HC_fastReset_mid_sound (hc_reset_fast (mid_run c0 xs k)) (mem_of_list 0 (xs k)) (len (xs k)) (len (xs k) - 1)
              (hc_reset_fast_hc_ok _ IH) (src_ok_of_list _ Gb) ltac:(lia) ltac:(lia)) as ((H1 & _) & _). exact H1.
Qed.

Lemma hc_run_states_ok c0 level xs : 3 <= level -> cc_ok c0 -> (forall n, blk_guard (xs n) = true) -> forall n, cc_ok (hc_run_states c0 level xs n).
Proof.
  intros Hl H0 Hx. induction n as [|k IH]; cbn [hc_run_states]; [exact H0|].
  destruct (guard_facts _ (Hx k)) as (Gb & Gn).
  destruct (compress_HC_fastReset_all_sound (cc_reset_fast (hc_run_states c0 level xs k)) (mem_of_list 0 (xs k)) (len (xs k)) (len (xs k) - 1) level
              (cc_reset_fast_cc_ok _ IH) (src_ok_of_list _ Gb) ltac:(lia) ltac:(lia) (all_level_ge3 level Hl)) as ((H1 & _) & _). exact H1.
Qed.

(* fresh contexts (LZ4_initStream / LZ4_initStreamHC, as LZ4F_createCompressionContext + first use leave them) *)
Lemma fresh_states_ok : ctx_ok ctx_init /\ hc_ok hc_init /\ cc_ok cc_init.
Proof. split; [apply ctx_init_ok | split; [apply hc_ok_init | apply cc_ok_init]]. Qed.

Print Assumptions blk_indep_contract.
Print Assumptions blk_indep_bytes.
