(* The statements exported by Properties_C03.v / Properties_C07.v: the session theorems of
   FrameCProofs.v instantiated with the two block judgments of the format document
   (spec_decode: sequence semantics; strict_valid: plus the end-of-block conditions), and the
   one-shot entry points LZ4F_compressFrame(_usingCDict). *)
From Coq Require Import ZArith List Lia Bool.
From Coq Require Import ZifyBool.
From LZ4V Require Import Spec.BlockSpec Spec.XXH32 Spec.FrameSpec Gen.Consts Model.FrameC Model.FrameAudit.
From LZ4V Require Import Proofs.BlockSpecProofs Proofs.BlockHistExt Proofs.FrameCBytes Proofs.FrameCBlocks Proofs.FrameCProofs.
Import ListNotations.
Local Open Scope Z_scope.
Set Warnings "-abstract-large-number".

(* contract of the block compressors with respect to a block judgment *)
Definition blk_contract (bdec : list byte -> list byte -> option (list byte))
           (blk : nat -> list byte -> list byte -> option (list byte)) : Prop :=
  forall n h x c, blk n h x = Some c -> bdec h c = Some x.

(* LZ4F_uncompressedUpdate is documented for independent blocks only *)
Definition uncompressed_only_if_independent (po : option prefs) (ms : list mop) : Prop :=
  forall m, In m ms -> is_uncompressed m = true -> p_blockMode (eff_prefs po) = 1.

Lemma strict_contract_spec : forall blk, blk_contract strict_valid blk -> blk_contract spec_decode blk.
Proof. intros blk H n h x c E. apply strict_valid_spec_decode. eapply H. exact E. Qed.

(* ---- C03 ---- *)
Theorem c03_roundtrip : forall blk, blk_contract spec_decode blk ->
  forall c0 po dk ms F X,
  prefs_opt_ok po -> uncompressed_only_if_independent po ms -> len X < U64 ->
  session blk c0 po dk ms = Some (F, X) ->
  frame_decode spec_decode false (dict_of dk) F = Some (X, []).
Proof.
  intros blk Hblk c0 po dk ms F X Hpo Hunc HX H.
  destruct (session_audit blk spec_decode Hblk spec_decode_ext c0 po dk ms F X Hpo Hunc HX H) as [nb HA].
  eapply audit_sound. exact HA.
Qed.

(* ---- C07 ---- *)
Theorem c07_conformant : forall blk, blk_contract strict_valid blk ->
  forall c0 po dk ms F X,
  prefs_opt_ok po -> uncompressed_only_if_independent po ms -> len X < U64 ->
  session blk c0 po dk ms = Some (F, X) ->
  exists maxb bl,
    let p := eff_prefs po in
    4 <= p_bsid p <= 7 /\ bsid_size (p_bsid p) = Some maxb /\
    F = header_bytes (desc_of p) ++ enc_blocks (p_bcrc p =? 1) bl ++ le_bytes 4 0
        ++ (if p_ccrc p =? 1 then le_bytes 4 (xxh32 0 X) else []) /\
    X = contents bl /\
    chain strict_valid (p_blockMode p =? 1) (dict_of dk) maxb [] bl /\
    (p_contentSize p <> 0 -> p_contentSize p = len X) /\
    frame_audit strict_valid (dict_of dk) F = Some (desc_of p, X, [], Z.of_nat (length bl)) /\
    frame_decode strict_valid false (dict_of dk) F = Some (X, []).
Proof.
  intros blk Hblk c0 po dk ms F X Hpo Hunc HX H.
  destruct (session_structure blk strict_valid Hblk strict_valid_ext c0 po dk ms F X Hpo Hunc HX H) as [maxb [bl Hs]].
  cbv zeta in Hs. destruct Hs as [Hp [Hmaxb [HF [HXc [Hch Hcs]]]]].
  exists maxb, bl. cbv zeta.
  set (p := eff_prefs po) in *.
  assert (HA : frame_audit strict_valid (dict_of dk) F = Some (desc_of p, X, [], Z.of_nat (length bl))).
  { pose proof (frame_audit_structured strict_valid (desc_of p) (dict_of dk) bl maxb [] (desc_of_wf p Hp) Hmaxb) as HA.
    cbn [f_indep f_bcrc f_ccrc f_csize f_bsid desc_of] in HA.
    rewrite app_nil_r in HA. rewrite HF, HXc. apply HA; [exact Hch|].
    destruct (Z.eqb_spec (p_contentSize p) 0) as [E|E]; [exact I|]. rewrite <- HXc. apply Hcs. exact E. }
  split; [exact (proj2 Hp)|]. split; [exact Hmaxb|]. split; [exact HF|]. split; [exact HXc|].
  split; [exact Hch|]. split; [exact Hcs|]. split; [exact HA|].
  eapply audit_sound. exact HA.
Qed.

(* blocks of an independent-blocks frame decode with the dictionary alone *)
Lemma chain_indep : forall bdec dict maxb bl acc,
  chain bdec true dict maxb acc bl -> Forall (block_ok bdec dict maxb) bl.
Proof.
  induction bl as [|b bl IH]; intros acc H; [constructor|].
  destruct H as [Hb Hc]. constructor; [exact Hb|]. eapply IH. exact Hc.
Qed.

Theorem c07_independent_blocks : forall blk, blk_contract strict_valid blk ->
  forall c0 po dk ms F X,
  prefs_opt_ok po -> uncompressed_only_if_independent po ms -> len X < U64 ->
  session blk c0 po dk ms = Some (F, X) ->
  p_blockMode (eff_prefs po) = 1 ->
  exists maxb bl,
    let p := eff_prefs po in
    F = header_bytes (desc_of p) ++ enc_blocks (p_bcrc p =? 1) bl ++ le_bytes 4 0
        ++ (if p_ccrc p =? 1 then le_bytes 4 (xxh32 0 X) else []) /\
    X = contents bl /\
    Forall (block_ok strict_valid (dict_of dk) maxb) bl.
Proof.
  intros blk Hblk c0 po dk ms F X Hpo Hunc HX H Hind.
  destruct (c07_conformant blk Hblk c0 po dk ms F X Hpo Hunc HX H) as [maxb [bl Hs]].
  cbv zeta in Hs. destruct Hs as [_ [_ [HF [HXc [Hch _]]]]].
  exists maxb, bl. cbv zeta. split; [exact HF|]. split; [exact HXc|].
  rewrite Hind in Hch. cbn [Z.eqb Pos.eqb] in Hch. eapply chain_indep. exact Hch.
Qed.

(* every block of a linked-blocks frame decodes with at most the 64 KB that precede it *)
Theorem c07_linked_window : forall blk, blk_contract strict_valid blk ->
  forall c0 po dk ms F X,
  prefs_opt_ok po -> uncompressed_only_if_independent po ms -> len X < U64 ->
  session blk c0 po dk ms = Some (F, X) ->
  p_blockMode (eff_prefs po) = 0 ->
  exists maxb bl,
    let p := eff_prefs po in
    F = header_bytes (desc_of p) ++ enc_blocks (p_bcrc p =? 1) bl ++ le_bytes 4 0
        ++ (if p_ccrc p =? 1 then le_bytes 4 (xxh32 0 X) else []) /\
    X = contents bl /\
    forall bl1 b bl2, bl = bl1 ++ b :: bl2 ->
      exists h, is_suffix h (dict_of dk ++ contents bl1) /\ (length h <= 65536)%nat /\
                block_ok strict_valid h maxb b.
Proof.
  intros blk Hblk c0 po dk ms F X Hpo Hunc HX H Hlnk.
  destruct (c07_conformant blk Hblk c0 po dk ms F X Hpo Hunc HX H) as [maxb [bl Hs]].
  cbv zeta in Hs. destruct Hs as [_ [_ [HF [HXc [Hch _]]]]].
  exists maxb, bl. cbv zeta. split; [exact HF|]. split; [exact HXc|].
  intros bl1 b bl2 E. rewrite E in Hch. rewrite Hlnk in Hch. cbn [Z.eqb] in Hch.
  apply chain_app in Hch. destruct Hch as [_ [Hb _]]. cbn [app] in Hb.
  unfold hist_spec in Hb.
  exists (lastn 65536 (dict_of dk ++ contents bl1)).
  split; [apply lastn_suffix|]. split; [rewrite lastn_length; apply Nat.le_min_l|exact Hb].
Qed.

(* a wrong declared content size is refused by compressEnd *)
Theorem c07_frameSize_wrong : forall blk, blk_contract strict_valid blk ->
  forall c0 po dk ms hdr c1 body c2,
  prefs_opt_ok po -> uncompressed_only_if_independent po ms ->
  compressBegin c0 po dk = (Out hdr, c1) ->
  run_mops blk c1 ms = Some (body, c2) ->
  len (mop_inputs ms) < U64 ->
  p_contentSize (eff_prefs po) <> 0 -> p_contentSize (eff_prefs po) <> len (mop_inputs ms) ->
  exists c3, compressEnd blk c2 = (Err FC_ERR_frameSize_wrong, c3).
Proof.
  intros blk Hblk c0 po dk ms hdr c1 body c2 Hpo Hunc Eb Er HX Hne Hneq.
  destruct (begin_inv strict_valid c0 po dk hdr c1 Hpo Eb) as [p [maxb [Ep [Hp [Hmaxb [Hhdr HI]]]]]].
  pose proof (bsid_size_range _ _ Hmaxb) as Hmax.
  unfold uncompressed_only_if_independent in Hunc. rewrite <- Ep in *.
  destruct (run_mops_inv blk strict_valid Hblk strict_valid_ext dk p maxb ms [] c1 [] body c2 Hp Hmax HI Hunc Er)
    as [bl1 [Hbody HI2]].
  cbn [app] in HI2.
  eapply (end_wrong blk strict_valid Hblk strict_valid_ext); eassumption.
Qed.

(* ---- one-shot entry points ---- *)
Lemma optimalBSID_loop_range : forall fuel r prop mb s,
  4 <= prop <= r -> prop <= optimalBSID_loop fuel r prop mb s <= r.
Proof.
  induction fuel as [|k IH]; intros r prop mb s H; cbn [optimalBSID_loop]; [lia|].
  destruct (prop <? r) eqn:E; [|lia].
  destruct (s <=? mb); [lia|].
  specialize (IH r (prop + 1) ((mb * 4) mod U64) s ltac:(lia)). lia.
Qed.

Lemma compressFrame_prefs_ok : forall po n,
  prefs_opt_ok po -> 0 <= n < U64 -> prefs_ok (compressFrame_prefs po n).
Proof.
  intros po n Hpo Hn. unfold compressFrame_prefs. cbv zeta.
  set (p0 := match po with Some p => p | None => prefs_null end).
  assert (Hp0 : prefs_ok p0) by (unfold p0; destruct po; [exact Hpo|exact prefs_null_ok]).
  destruct Hp0 as [Hb [Hm [Hcc [Hbc [Hcs Hd]]]]].
  set (p1 := if negb (p_contentSize p0 =? 0) then set_contentSize p0 n else p0).
  assert (Hp1 : p_bsid p1 = p_bsid p0 /\ p_blockMode p1 = p_blockMode p0 /\ p_ccrc p1 = p_ccrc p0 /\
                p_bcrc p1 = p_bcrc p0 /\ p_dictID p1 = p_dictID p0 /\ 0 <= p_contentSize p1 < U64).
  { unfold p1. destruct (negb (p_contentSize p0 =? 0)); cbn; unfold U64 in *; repeat split; lia. }
  destruct Hp1 as [B1 [B2 [B3 [B4 [B5 B6]]]]].
  assert (Hopt : optimalBSID (p_bsid p1) n = 0 \/ 4 <= optimalBSID (p_bsid p1) n <= 7).
  { rewrite B1. destruct Hb as [E | E].
    - rewrite E. left. reflexivity.
    - right. unfold optimalBSID.
      pose proof (optimalBSID_loop_range (Z.to_nat (p_bsid p0)) (p_bsid p0) LZ4F_max64KB FC_64KB n) as Hr.
      unfold LZ4F_max64KB in *. specialize (Hr ltac:(lia)). lia. }
  unfold U64 in *.
  destruct (n <=? getBlockSize _); cbn; unfold FC_blockIndependent; unfold prefs_ok; cbn;
    rewrite ?B2, ?B3, ?B4, ?B5; repeat split; try tauto; try lia.
Qed.

Lemma compressFrame_session : forall blk c src cd po F c',
  compressFrame_usingCDict blk c src (match cd with Some d => Some (createCDict d) | None => None end) po = (Out F, c') ->
  session blk c (Some (compressFrame_prefs po (len src))) (match cd with Some d => UsingCDict d | None => NoDict end)
          [MUpdate src] = Some (F, src ++ []).
Proof.
  intros blk c src cd po F c' H.
  unfold compressFrame_usingCDict in H. cbv zeta in H.
  unfold session.
  assert (Eb : compressBegin c (Some (compressFrame_prefs po (len src)))
                             (match cd with Some d => UsingCDict d | None => NoDict end)
               = compressBegin_internal c None (match cd with Some d => Some (createCDict d) | None => None end)
                                        (Some (compressFrame_prefs po (len src)))).
  { destruct cd; reflexivity. }
  rewrite Eb.
  destruct (compressBegin_internal c None _ (Some (compressFrame_prefs po (len src)))) as [r c1].
  destruct r as [code|hdr|]; try discriminate.
  cbn [run_mops step_mop mop_inputs].
  destruct (compressUpdate blk c1 src) as [r c2].
  destruct r as [code|body|]; try discriminate.
  destruct (compressEnd blk c2) as [r c3].
  destruct r as [code|tail|]; try discriminate.
  rewrite app_nil_r. pose proof (f_equal fst H) as Ho. cbn [fst] in Ho. congruence.
Qed.

Lemma no_uncompressed_update : forall po src, uncompressed_only_if_independent po [MUpdate src].
Proof. intros po src m [<- | []] E. discriminate. Qed.

Theorem c03_compressFrame_roundtrip : forall blk, blk_contract spec_decode blk ->
  forall c src cd po F c',
  prefs_opt_ok po -> len src < U64 ->
  compressFrame_usingCDict blk c src (match cd with Some d => Some (createCDict d) | None => None end) po = (Out F, c') ->
  frame_decode spec_decode false (match cd with Some d => d | None => [] end) F = Some (src, []).
Proof.
  intros blk Hblk c src cd po F c' Hpo Hn H.
  apply compressFrame_session in H.
  pose proof (c03_roundtrip blk Hblk c (Some (compressFrame_prefs po (len src)))
                            (match cd with Some d => UsingCDict d | None => NoDict end) [MUpdate src] F (src ++ [])) as T.
  rewrite app_nil_r in *.
  replace (dict_of (match cd with Some d => UsingCDict d | None => NoDict end))
    with (match cd with Some d => d | None => [] end) in T by (destruct cd; reflexivity).
  apply T; try assumption.
  - apply compressFrame_prefs_ok; [exact Hpo|]. pose proof (len_nonneg src). lia.
  - apply no_uncompressed_update.
Qed.

Theorem c07_compressFrame_conformant : forall blk, blk_contract strict_valid blk ->
  forall c src cd po F c',
  prefs_opt_ok po -> len src < U64 ->
  compressFrame_usingCDict blk c src (match cd with Some d => Some (createCDict d) | None => None end) po = (Out F, c') ->
  exists nb,
    frame_audit strict_valid (match cd with Some d => d | None => [] end) F
    = Some (desc_of (eff_prefs (Some (compressFrame_prefs po (len src)))), src, [], nb).
Proof.
  intros blk Hblk c src cd po F c' Hpo Hn H.
  apply compressFrame_session in H. rewrite app_nil_r in H.
  destruct (c07_conformant blk Hblk c (Some (compressFrame_prefs po (len src)))
                           (match cd with Some d => UsingCDict d | None => NoDict end) [MUpdate src] F src) as [maxb [bl Hs]].
  - apply compressFrame_prefs_ok; [exact Hpo|]. pose proof (len_nonneg src). lia.
  - apply no_uncompressed_update.
  - exact Hn.
  - exact H.
  - cbv zeta in Hs. destruct Hs as [_ [_ [_ [_ [_ [_ [HA _]]]]]]].
    exists (Z.of_nat (length bl)).
    replace (dict_of (match cd with Some d => UsingCDict d | None => NoDict end))
      with (match cd with Some d => d | None => [] end) in HA by (destruct cd; reflexivity).
    exact HA.
Qed.
