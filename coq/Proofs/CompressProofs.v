(* Compression pipelines (CompLegacy, CompLZ4F) of Model/Pipeline.v, for every worker count N >= 1, every number
   of chunks and every schedule: each block reaches LZ4IO_checkWriteOrder exactly once, so the output is always
   a prefix of the sequential output and, when the run has completed, equal to it.
   Proved as an inductive invariant of pstep ("potential" of every job token + write-register invariant +
   quiescence of a pool once TPool_jobsCompleted has returned for it). *)
From Coq Require Import ZArith List Bool Arith Lia Permutation.
From LZ4V Require Import Model.WriteReg Model.TPool Model.Pipeline
  Proofs.TPoolProofs Proofs.WriteRegProofs Proofs.DecodeRingProofs.
Import ListNotations.

Definition co := count_occ Nat.eq_dec.

(* ------------------------------------------------------------------ lists of worker states *)
Definition nrun (l : list wstate) : nat := sum_list (map (fun w => b2n (running w)) l).

Lemma nrun_cons : forall w l, nrun (w :: l) = b2n (running w) + nrun l.
Proof. reflexivity. Qed.

Lemma nrun_set_nth : forall l i x old, nth_error l i = Some old ->
  nrun (set_nth i x l) + b2n (running old) = nrun l + b2n (running x).
Proof.
  induction l as [|a l IH]; intros i x old H; destruct i; cbn [nth_error] in H; try discriminate.
  - injection H as ->. cbn [set_nth]. rewrite !nrun_cons. lia.
  - cbn [set_nth]. rewrite !nrun_cons. specialize (IH i x old H). lia.
Qed.

Lemma nrun_le_length : forall l, nrun l <= length l.
Proof. induction l as [|a l IH]; [cbn; lia|]. rewrite nrun_cons. cbn [length]. destruct (running a); cbn [b2n]; lia. Qed.

Lemma nrun_idle : forall l i w, nth_error l i = Some w -> running w = false -> nrun l < length l.
Proof.
  induction l as [|a l IH]; intros i w H R; destruct i; cbn [nth_error] in H; try discriminate.
  - injection H as ->. rewrite nrun_cons, R. cbn [b2n length]. pose proof (nrun_le_length l). lia.
  - rewrite nrun_cons. cbn [length]. specialize (IH i w H R). destruct (running a); cbn [b2n]; lia.
Qed.

Lemma nrun_busy : forall l i w, nth_error l i = Some w -> running w = true -> 1 <= nrun l.
Proof.
  induction l as [|a l IH]; intros i w H R; destruct i; cbn [nth_error] in H; try discriminate.
  - injection H as ->. rewrite nrun_cons, R. cbn [b2n]. lia.
  - rewrite nrun_cons. specialize (IH i w H R). lia.
Qed.

Lemma firstn_set_nth : forall (A : Type) (l : list A) n i x,
  firstn n (set_nth i x l) = if i <? n then set_nth i x (firstn n l) else firstn n l.
Proof.
  induction l as [|a l IH]; intros n i x.
  - assert (E : forall k, set_nth k x (@nil A) = []) by (intros k; destruct k; reflexivity).
    rewrite E, firstn_nil, E. destruct (i <? n); reflexivity.
  - destruct n as [|n]; [reflexivity|]. destruct i as [|i]; cbn [set_nth firstn]; [reflexivity|].
    rewrite IH. change (S i <? S n) with (i <? n). destruct (i <? n); reflexivity.
Qed.

Lemma skipn_set_nth : forall (A : Type) (l : list A) n i x,
  skipn n (set_nth i x l) = if i <? n then skipn n l else set_nth (i - n) x (skipn n l).
Proof.
  induction l as [|a l IH]; intros n i x.
  - assert (E : forall k, set_nth k x (@nil A) = []) by (intros k; destruct k; reflexivity).
    rewrite E, skipn_nil, E. destruct (i <? n); reflexivity.
  - destruct n as [|n]; [cbn [skipn]; rewrite Nat.sub_0_r; reflexivity|].
    destruct i as [|i]; cbn [set_nth skipn]; [reflexivity|].
    rewrite IH. change (S i <? S n) with (i <? n). reflexivity.
Qed.

Lemma nth_error_firstn_lt : forall (A : Type) (l : list A) n i, i < n -> nth_error (firstn n l) i = nth_error l i.
Proof.
  induction l as [|a l IH]; intros n i H; destruct n; try lia; [destruct i; reflexivity|].
  destruct i; cbn [firstn nth_error]; [reflexivity|]. apply IH. lia.
Qed.

Lemma nth_error_skipn_add : forall (A : Type) (l : list A) n i, nth_error (skipn n l) i = nth_error l (n + i).
Proof.
  induction l as [|a l IH]; intros n i.
  - destruct n, i; reflexivity.
  - destruct n; [reflexivity|]. cbn [skipn Nat.add nth_error]. apply IH.
Qed.

Lemma Forall_set_nth : forall (A : Type) (P : A -> Prop) l i x, Forall P l -> P x -> Forall P (set_nth i x l).
Proof.
  induction l as [|a l IH]; intros i x H Hx; destruct i; cbn [set_nth]; try exact H;
    inversion H; subst; constructor; auto.
Qed.

Lemma Forall_nth_error : forall (A : Type) (P : A -> Prop) l i x, Forall P l -> nth_error l i = Some x -> P x.
Proof. intros A P l i x H E. rewrite Forall_forall in H. apply H. eapply nth_error_In. exact E. Qed.

Lemma co_flat_map_set_nth : forall (A : Type) (f : A -> list nat) l i x old k, nth_error l i = Some old ->
  co (flat_map f (set_nth i x l)) k + co (f old) k = co (flat_map f l) k + co (f x) k.
Proof.
  unfold co. induction l as [|a l IH]; intros i x old k H; destruct i; cbn [nth_error] in H; try discriminate.
  - injection H as ->. cbn [set_nth flat_map]. rewrite !count_occ_app. lia.
  - cbn [set_nth flat_map]. rewrite !count_occ_app. specialize (IH i x old k H). lia.
Qed.

Lemma skipn_cons_S : forall (A : Type) (l : list A) q a r, skipn q l = a :: r -> skipn (S q) l = r.
Proof.
  induction l as [|b l IH]; intros q a r H; destruct q; cbn [skipn] in *; try discriminate.
  - injection H as _ <-. reflexivity.
  - apply (IH q a r H).
Qed.

Lemma skipn_cons_lt : forall (A : Type) (l : list A) q a r, skipn q l = a :: r -> q < length l.
Proof.
  intros A l q a r H. destruct (Nat.lt_ge_cases q (length l)) as [L|L]; [exact L|].
  rewrite skipn_all2 in H by exact L. discriminate.
Qed.

(* ------------------------------------------------------------------ the compression configurations *)
Definition is_comp (c : cfg) : Prop := c_kind c = CompLegacy \/ (c_kind c = CompLZ4F /\ 1 <= c_nfull c).
Definition nb (c : cfg) : nat := comp_blocks c.

Definition pot_job (c : cfg) (j : job) : list nat :=
  match j with
  | JRead k => seq k (nb c - k)
  | JComp k => [k]
  | JWrite k => [k]
  | _ => []
  end.
Definition pot_subs (c : cfg) (j : job) (i : nat) : list nat :=
  flat_map (fun pj => pot_job c (snd pj)) (skipn i (job_subs c j)).
Definition pot_w (c : cfg) (w : wstate) : list nat :=
  match w with
  | WRun j i | WSubWait j i | WSubWoken j i => pot_subs c j i ++ match j with JWrite k => [k] | _ => [] end
  | _ => []
  end.
Definition pot_op (c : cfg) (op : mop) : list nat := match op with MSubmit _ j => pot_job c j | _ => [] end.
Definition pots (c : cfg) (ops : list mop) (qt qw : list job) (ws : list wstate) : list nat :=
  flat_map (pot_op c) ops ++ flat_map (pot_job c) qt ++ flat_map (pot_job c) qw ++ flat_map (pot_w c) ws.

Lemma co_pots : forall c ops qt qw ws k,
  co (pots c ops qt qw ws) k =
  co (flat_map (pot_op c) ops) k + co (flat_map (pot_job c) qt) k + co (flat_map (pot_job c) qw) k + co (flat_map (pot_w c) ws) k.
Proof. intros. unfold pots, co. rewrite !count_occ_app. lia. Qed.

Lemma pot_pop_read : forall c k, pot_w c (WRun (JRead k) 0) = pot_job c (JRead k).
Proof.
  intros c k. unfold pot_w, pot_subs. cbn [skipn job_subs pot_job]. rewrite app_nil_r. unfold nb, comp_blocks.
  destruct (k <? c_nfull c) eqn:E1.
  - apply Nat.ltb_lt in E1. cbn [flat_map snd pot_job app]. rewrite app_nil_r. unfold nb, comp_blocks.
    replace (c_nfull c + (if c_last c then 1 else 0) - k) with (S (c_nfull c + (if c_last c then 1 else 0) - S k)) by lia.
    reflexivity.
  - apply Nat.ltb_ge in E1. destruct ((k =? c_nfull c) && c_last c) eqn:E2.
    + apply andb_true_iff in E2. destruct E2 as [E2 E3]. apply Nat.eqb_eq in E2. subst k. rewrite E3.
      cbn [flat_map snd pot_job app]. replace (c_nfull c + 1 - c_nfull c) with 1 by lia. reflexivity.
    + cbn [flat_map app]. apply andb_false_iff in E2.
      replace (c_nfull c + (if c_last c then 1 else 0) - k) with 0; [reflexivity|].
      destruct E2 as [E2|E2]; [apply Nat.eqb_neq in E2; destruct (c_last c); lia|rewrite E2; lia].
Qed.

Lemma pot_pop : forall c j, match j with JRead _ | JComp _ | JWrite _ => True | _ => False end ->
  pot_w c (WRun j 0) = pot_job c j.
Proof.
  intros c j H. destruct j; try contradiction.
  - apply pot_pop_read.
  - reflexivity.
  - reflexivity.
Qed.

Lemma pot_sub_step : forall c j i p j', nth_error (job_subs c j) i = Some (p, j') ->
  pot_subs c j i = pot_job c j' ++ pot_subs c j (S i).
Proof.
  intros c j i p j' H. unfold pot_subs.
  assert (E : skipn i (job_subs c j) = (p, j') :: skipn (S i) (job_subs c j)).
  { revert i H. generalize (job_subs c j). induction l as [|a l IH]; intros i H; destruct i; cbn [nth_error] in H; try discriminate.
    - injection H as ->. reflexivity.
    - cbn [skipn]. apply IH. exact H. }
  rewrite E. reflexivity.
Qed.

Lemma pot_subs_end : forall c j i, nth_error (job_subs c j) i = None -> pot_subs c j i = [].
Proof.
  intros c j i H. unfold pot_subs. apply nth_error_None in H. rewrite skipn_all2 by exact H. reflexivity.
Qed.

(* ------------------------------------------------------------------ pools and their workers *)
Definition pid_eqb (a b : pid) : bool := match a, b with PT, PT | PW, PW => true | _, _ => false end.
Lemma pid_eqb_eq : forall a b, pid_eqb a b = true <-> a = b.
Proof. intros [] []; cbn; split; congruence. Qed.
Lemma pid_eqb_refl : forall a, pid_eqb a a = true.
Proof. intros []; reflexivity. Qed.

Definition upd {A : Type} (Q : pid -> A) (p : pid) (v : A) : pid -> A := fun p' => if pid_eqb p p' then v else Q p'.

Lemma get_pool_set_pool : forall st p x p', get_pool (set_pool st p x) p' = if pid_eqb p p' then x else get_pool st p'.
Proof. intros st [] x []; reflexivity. Qed.

Definition wof (c : cfg) (ws : list wstate) (p : pid) : list wstate :=
  match p with PT => firstn (c_N c) ws | PW => skipn (c_N c) ws end.
Definition pidx (c : cfg) (t : tid) : nat := if t <=? c_N c then t - 1 else t - 1 - c_N c.

Lemma wof_nth : forall c ws t, 1 <= t -> nth_error (wof c ws (own_pool c t)) (pidx c t) = nth_error ws (t - 1).
Proof.
  intros c ws t Ht. unfold own_pool, pidx, wof. destruct (t <=? c_N c) eqn:E.
  - apply Nat.leb_le in E. apply nth_error_firstn_lt. lia.
  - apply Nat.leb_gt in E. rewrite nth_error_skipn_add. f_equal. lia.
Qed.

Lemma wof_set_own : forall c ws t x, 1 <= t ->
  wof c (set_nth (t - 1) x ws) (own_pool c t) = set_nth (pidx c t) x (wof c ws (own_pool c t)).
Proof.
  intros c ws t x Ht. unfold own_pool, pidx, wof. destruct (t <=? c_N c) eqn:E.
  - apply Nat.leb_le in E. rewrite firstn_set_nth.
    assert (L : (t - 1 <? c_N c) = true) by (apply Nat.ltb_lt; lia). rewrite L. reflexivity.
  - apply Nat.leb_gt in E. rewrite skipn_set_nth.
    assert (L : (t - 1 <? c_N c) = false) by (apply Nat.ltb_ge; lia). rewrite L. reflexivity.
Qed.

Lemma wof_set_other : forall c ws t x p, 1 <= t -> p <> own_pool c t ->
  wof c (set_nth (t - 1) x ws) p = wof c ws p.
Proof.
  intros c ws t x p Ht Hp. unfold own_pool in Hp. unfold wof. destruct (t <=? c_N c) eqn:E.
  - apply Nat.leb_le in E. destruct p; [congruence|]. rewrite skipn_set_nth.
    assert (L : (t - 1 <? c_N c) = true) by (apply Nat.ltb_lt; lia). rewrite L. reflexivity.
  - apply Nat.leb_gt in E. destruct p; [|congruence]. rewrite firstn_set_nth.
    assert (L : (t - 1 <? c_N c) = false) by (apply Nat.ltb_ge; lia). rewrite L. reflexivity.
Qed.

(* ------------------------------------------------------------------ the main program *)
Inductive cpos := CInit (i : nat) | CTail (q : nat).
Definition csubs (c : cfg) : list mop :=
  match c_kind c with CompLZ4F => [MSubmit PT (JComp 0); MSubmit PT (JRead 1)] | _ => [MSubmit PT (JRead 0)] end.
Definition cfrees (c : cfg) : list mop :=
  match c_kind c with CompLZ4F => free_pool c PT ++ free_pool c PW | _ => free_pool c PW ++ free_pool c PT end.
Definition ctl (c : cfg) : list mop := MJobsCompleted PT :: MJobsCompleted PW :: cfrees c.
Definition cops_of (c : cfg) (pos : cpos) : list mop :=
  match pos with CInit i => skipn i (csubs c) ++ ctl c | CTail q => skipn q (ctl c) end.
Definition cpos_ok (c : cfg) (pos : cpos) : Prop :=
  match pos with CInit i => i < length (csubs c) | CTail q => q <= length (ctl c) end.
Definition ctail (pos : cpos) : nat := match pos with CInit _ => 0 | CTail q => q end.

Definition is_free (op : mop) : Prop := match op with MShutdown _ | MBroadcast _ | MJoin _ => True | _ => False end.

Lemma free_pool_free : forall c p, Forall is_free (free_pool c p).
Proof.
  intros c p. unfold free_pool. repeat constructor.
  destruct p; [|repeat constructor]. apply Forall_forall. intros x Hx. apply in_map_iff in Hx. destruct Hx as [t [<- _]]. exact I.
Qed.

Lemma cfrees_free : forall c, Forall is_free (cfrees c).
Proof. intros c. unfold cfrees. destruct (c_kind c); apply Forall_app; split; apply free_pool_free. Qed.

Lemma main_program_comp : forall c, is_comp c -> main_program c = csubs c ++ ctl c.
Proof. intros c [E|[E _]]; unfold main_program, csubs, ctl, cfrees; rewrite E; reflexivity. Qed.

Definition plimit (c : cfg) (p : pid) : nat := match p with PT => c_N c | PW => 1 end.
Definition jtype (p : pid) (j : job) : Prop :=
  match p, j with PT, JRead _ | PT, JComp _ | PW, JWrite _ => True | _, _ => False end.
Definition wjob_ok (p : pid) (w : wstate) : Prop :=
  match w with WRun j _ | WSubWait j _ | WSubWoken j _ => jtype p j | _ => True end.
Definition qlevel (p : pid) : nat := match p with PT => 1 | PW => 2 end.
Definition qsum (c : cfg) (Q : pid -> list job) (k : nat) : nat :=
  co (flat_map (pot_job c) (Q PT)) k + co (flat_map (pot_job c) (Q PW)) k.

Lemma qsum_push : forall c Q p j k, qsum c (upd Q p (Q p ++ [j])) k = qsum c Q k + co (pot_job c j) k.
Proof.
  intros c Q p j k. unfold qsum, upd, co. destruct p; cbn [pid_eqb]; rewrite flat_map_app, count_occ_app; cbn [flat_map]; rewrite app_nil_r; lia.
Qed.

Lemma qsum_pop : forall c Q p j rest k, Q p = j :: rest -> qsum c (upd Q p rest) k + co (pot_job c j) k = qsum c Q k.
Proof.
  intros c Q p j rest k H. unfold qsum, upd, co. destruct p; cbn [pid_eqb]; rewrite H; cbn [flat_map]; rewrite count_occ_app; lia.
Qed.

Lemma subs_type : forall c p j i p' j', jtype p j -> nth_error (job_subs c j) i = Some (p', j') -> p = PT /\ jtype p' j'.
Proof.
  intros c p j i p' j' T H. apply nth_error_In in H.
  destruct p, j; try contradiction; cbn [job_subs] in H.
  - destruct (k <? c_nfull c).
    + destruct H as [H|[H|[]]]; injection H as <- <-; split; exact I || reflexivity.
    + destruct ((k =? c_nfull c) && c_last c); [|destruct H].
      destruct H as [H|[]]; injection H as <- <-; split; exact I || reflexivity.
  - destruct H as [H|[]]; injection H as <- <-; split; exact I || reflexivity.
Qed.

(* ------------------------------------------------------------------ the invariant *)
Inductive cinv (c : cfg) (st : state) : Prop :=
  CInv : forall (pos : cpos) (Q : pid -> list job) (arrived : list nat),
    s_mops st = cops_of c pos -> cpos_ok c pos ->
    length (s_ws st) = S (c_N c) ->
    (forall p, ring_ok (get_pool st p) (Q p)) ->
    (forall p, n_busy (get_pool st p) = nrun (wof c (s_ws st) p)) ->
    (forall p, t_limit (get_pool st p) = plimit c p) ->
    (forall p, Forall (jtype p) (Q p)) ->
    (forall p, Forall (wjob_ok p) (wof c (s_ws st) p)) ->
    (forall k, co arrived k + (co (flat_map (pot_op c) (s_mops st)) k + qsum c Q k + co (flat_map (pot_w c) (s_ws st)) k)
               = co (seq 0 (nb c)) k) ->
    inv (sequential_output c) arrived (s_wr st) (s_out st) ->
    (forall p, qlevel p <= ctail pos -> Q p = [] /\ n_busy (get_pool st p) = 0) ->
    (forall p, shut (get_pool st p) = true -> 2 <= ctail pos) ->
    (s_mst st = MFinished -> s_mops st = []) ->
    cinv c st.

(* ---- invariance under wake-ups *)
Lemma wsim_pot : forall c w w', wsim w w' -> pot_w c w' = pot_w c w.
Proof. intros c w w' [->|[[-> ->]|[j [i [-> ->]]]]]; reflexivity. Qed.
Lemma wsim_wjob : forall p w w', wsim w w' -> wjob_ok p w -> wjob_ok p w'.
Proof. intros p w w' [->|[[-> ->]|[j [i [-> ->]]]]] H; [exact H|exact I|exact H]. Qed.

Lemma Forall2_wsim_firstn : forall n l l', Forall2 wsim l l' -> Forall2 wsim (firstn n l) (firstn n l').
Proof. induction n; intros l l' H; [constructor|]. destruct H; cbn [firstn]; constructor; auto. Qed.
Lemma Forall2_wsim_skipn : forall n l l', Forall2 wsim l l' -> Forall2 wsim (skipn n l) (skipn n l').
Proof. induction n; intros l l' H; [exact H|]. destruct H; cbn [skipn]; [constructor|auto]. Qed.
Lemma Forall2_wsim_wof : forall c l l' p, Forall2 wsim l l' -> Forall2 wsim (wof c l p) (wof c l' p).
Proof. intros c l l' [] H; [apply Forall2_wsim_firstn|apply Forall2_wsim_skipn]; exact H. Qed.
Lemma Forall2_wsim_nrun : forall l l', Forall2 wsim l l' -> nrun l' = nrun l.
Proof. induction 1; [reflexivity|]. rewrite !nrun_cons, IHForall2, (wsim_running _ _ H). reflexivity. Qed.
Lemma Forall2_wsim_pots : forall c l l', Forall2 wsim l l' -> flat_map (pot_w c) l' = flat_map (pot_w c) l.
Proof. induction 1; [reflexivity|]. cbn [flat_map]. rewrite IHForall2, (wsim_pot c _ _ H). reflexivity. Qed.
Lemma Forall2_wsim_wjob : forall p l l', Forall2 wsim l l' -> Forall (wjob_ok p) l -> Forall (wjob_ok p) l'.
Proof. induction 1; intros F; [constructor|]. inversion F; subst. constructor; [eapply wsim_wjob; eassumption|auto]. Qed.
Lemma Forall2_length_eq : forall l l', Forall2 wsim l l' -> length l' = length l.
Proof. induction 1; cbn [length]; congruence. Qed.

Lemma sim_get_pool : forall st st' p, sim st st' -> pool_eq (get_pool st p) (get_pool st' p).
Proof. intros st st' [] [_ A B _ _]; assumption. Qed.

(* wake-ups do not touch the write register, and never make the main thread "finished" *)
Definition keeps (st st' : state) : Prop :=
  s_wr st' = s_wr st /\ s_out st' = s_out st /\ (s_mst st' = MFinished -> s_mst st = MFinished).
Lemma keeps_refl : forall st, keeps st st.
Proof. intros st. repeat split; auto. Qed.
Lemma keeps_trans : forall a b d, keeps a b -> keeps b d -> keeps a d.
Proof. intros a b d (A1&A2&A3) (B1&B2&B3). repeat split; try congruence. auto. Qed.
Lemma wake_thread_keeps : forall st t, keeps st (wake_thread st t).
Proof.
  intros st [t|]; [|apply keeps_refl]. unfold wake_thread. destruct t as [|t].
  - destruct (s_mst st) eqn:E; repeat split; cbn; try rewrite E; auto; discriminate.
  - destruct (nth_error (s_ws st) (S t - 1)) as [w|]; [|repeat split; auto].
    destruct w; repeat split; auto.
Qed.
Lemma wake_all_keeps : forall ts st, keeps st (wake_all st ts).
Proof.
  unfold wake_all. induction ts as [|t ts IH]; intros st; cbn [fold_left]; [apply keeps_refl|].
  eapply keeps_trans; [apply wake_thread_keeps|apply IH].
Qed.
Lemma signal_push_keeps : forall st p w st', signal_push st p w = Some st' -> keeps st st'.
Proof.
  intros st p w st' H. unfold signal_push in H.
  destruct (wake (push_w (get_pool st p)) w) as [[ws' woken]|]; [|discriminate]. injection H as <-.
  eapply keeps_trans; [|apply wake_thread_keeps]. destruct p; repeat split; auto.
Qed.
Lemma signal_pop_keeps : forall st p w st', signal_pop st p w = Some st' -> keeps st st'.
Proof.
  intros st p w st' H. unfold signal_pop in H.
  destruct (wake (pop_w (get_pool st p)) w) as [[ws' woken]|]; [|discriminate]. injection H as <-.
  eapply keeps_trans; [|apply wake_thread_keeps]. destruct p; repeat split; auto.
Qed.

Lemma cinv_sim : forall c st st', cinv c st -> sim st st' -> keeps st st' -> cinv c st'.
Proof.
  intros c st st' [pos Q arrived Hops Hpos Hlen HR HB HL HT HW HC HI HQ HS HF] S (Ewr&Eout&Efin).
  pose proof S as [Eops _ _ Ews _].
  apply (CInv c st' pos Q arrived).
  - congruence.
  - exact Hpos.
  - rewrite (Forall2_length_eq _ _ Ews). exact Hlen.
  - intros p. eapply ring_ok_eq; [apply sim_get_pool; exact S|apply HR].
  - intros p. destruct (sim_get_pool st st' p S) as (_&_&_&_&_&Eb&_&_). rewrite Eb, HB.
    symmetry. apply Forall2_wsim_nrun, Forall2_wsim_wof. exact Ews.
  - intros p. destruct (sim_get_pool st st' p S) as (_&_&_&_&_&_&El&_). rewrite El. apply HL.
  - exact HT.
  - intros p. eapply Forall2_wsim_wjob; [apply Forall2_wsim_wof; exact Ews|apply HW].
  - intros k. rewrite Eops, (Forall2_wsim_pots c _ _ Ews). apply HC.
  - rewrite Ewr, Eout. exact HI.
  - intros p Hq. destruct (HQ p Hq) as [A B]. split; [exact A|].
    destruct (sim_get_pool st st' p S) as (_&_&_&_&_&Eb&_&_). rewrite Eb. exact B.
  - intros p Hs. destruct (sim_get_pool st st' p S) as (_&_&_&_&_&_&_&Esh). rewrite Esh in Hs. apply (HS p Hs).
  - intros F. rewrite Eops. apply HF, Efin, F.
Qed.

(* ------------------------------------------------------------------ TPool_submitJob, generically *)
Lemma submit_cs_cases : forall st t p j w st2 b q,
  ring_ok (get_pool st p) q -> shut (get_pool st p) = false ->
  submit_cs st t p j w = Some (st2, b) ->
  (b = false /\ sim st st2 /\ keeps st st2) \/
  (b = true /\ S (length q) < q_size (get_pool st p) /\
   sim (set_pool st p (pool_push (get_pool st p) j)) st2 /\ keeps st st2).
Proof.
  intros st t p j w st2 b q R Hsh H. unfold submit_cs in H.
  rewrite (ring_full job _ _ R), Hsh in H. cbn [negb] in H. rewrite andb_true_r in H.
  destruct (S (length q) =? q_size (get_pool st p)) eqn:Ef.
  - injection H as <- <-. left. split; [reflexivity|]. split.
    + apply sim_set_pool_waiters. repeat split.
    + destruct p; repeat split; auto.
  - apply Nat.eqb_neq in Ef. destruct (signal_pop _ p w) as [st3|] eqn:Es; [|discriminate]. injection H as <- <-.
    right. split; [reflexivity|]. split.
    + destruct R as [H0 [_ [_ [_ [_ [L _]]]]]]. lia.
    + split; [eapply signal_pop_sim; exact Es|].
      eapply keeps_trans; [|eapply signal_pop_keeps; exact Es]. destruct p; repeat split; auto.
Qed.

(* ------------------------------------------------------------------ projections through the state setters *)
Lemma gp_set_w : forall st t x p, get_pool (set_w st t x) p = get_pool st p. Proof. intros st t x []; reflexivity. Qed.
Lemma gp_add_event : forall st e p, get_pool (add_event st e) p = get_pool st p. Proof. intros st e []; reflexivity. Qed.
Lemma gp_set_main : forall st o m p, get_pool (set_main st o m) p = get_pool st p. Proof. intros st o m []; reflexivity. Qed.
Lemma gp_set_wr : forall st w o k p, get_pool (set_wr st w o k) p = get_pool st p. Proof. intros st w o k []; reflexivity. Qed.
Lemma ws_set_pool : forall st p x, s_ws (set_pool st p x) = s_ws st. Proof. intros st [] x; reflexivity. Qed.
Lemma ops_set_pool : forall st p x, s_mops (set_pool st p x) = s_mops st. Proof. intros st [] x; reflexivity. Qed.
Lemma mst_set_pool : forall st p x, s_mst (set_pool st p x) = s_mst st. Proof. intros st [] x; reflexivity. Qed.
Lemma wr_set_pool : forall st p x, s_wr (set_pool st p x) = s_wr st. Proof. intros st [] x; reflexivity. Qed.
Lemma out_set_pool : forall st p x, s_out (set_pool st p x) = s_out st. Proof. intros st [] x; reflexivity. Qed.
#[export] Hint Rewrite gp_set_w gp_add_event gp_set_main gp_set_wr get_pool_set_pool
  ws_set_pool ops_set_pool mst_set_pool wr_set_pool out_set_pool : gp.

Lemma wr_events_core : forall st t o,
  (forall p, get_pool (wr_events st t o) p = get_pool st p) /\ s_ws (wr_events st t o) = s_ws st /\
  s_mops (wr_events st t o) = s_mops st /\ s_mst (wr_events st t o) = s_mst st /\
  s_wr (wr_events st t o) = s_wr st /\ s_out (wr_events st t o) = s_out st.
Proof.
  intros st t o. unfold wr_events. generalize (s_step st). intros n. revert st.
  induction o as [|d o IH]; intros st; cbn [fold_left]; [repeat split; auto|].
  destruct (IH (add_event st (EvWr n t match d with [] => (-1)%Z | r :: _ => r end))) as (A&B&C&D&E&F).
  repeat split; assumption.
Qed.

Lemma co_flat_map_ge : forall (A : Type) (f : A -> list nat) l i x k, nth_error l i = Some x ->
  co (f x) k <= co (flat_map f l) k.
Proof.
  unfold co. induction l as [|a l IH]; intros i x k H; destruct i; cbn [nth_error] in H; try discriminate; cbn [flat_map]; rewrite count_occ_app.
  - injection H as ->. lia.
  - specialize (IH i x k H). lia.
Qed.

Lemma co_seq : forall n k, co (seq 0 n) k = if k <? n then 1 else 0.
Proof.
  intros n k. unfold co. destruct (k <? n) eqn:E.
  - apply Nat.ltb_lt in E. apply NoDup_count_occ'; [apply seq_NoDup|apply in_seq; lia].
  - apply Nat.ltb_ge in E. apply count_occ_not_In. rewrite in_seq. lia.
Qed.

Lemma seqout_nth : forall c k, k < nb c -> nth k (sequential_output c) [] = [Z.of_nat k].
Proof.
  intros c k H. unfold sequential_output. fold (nb c).
  rewrite nth_indep with (d' := (fun k => [Z.of_nat k]) 0) by (rewrite map_length, seq_length; exact H).
  rewrite (map_nth (fun k => [Z.of_nat k]) (seq 0 (nb c)) 0 k), seq_nth by exact H. reflexivity.
Qed.

Lemma seqout_length : forall c, length (sequential_output c) = nb c.
Proof. intros c. unfold sequential_output. rewrite map_length, seq_length. reflexivity. Qed.

Section Comp.
Variable c : cfg.
Hypothesis Hcomp : is_comp c.
Hypothesis HN : 1 <= c_N c.

Lemma wof_length : forall ws p, length ws = S (c_N c) -> length (wof c ws p) = plimit c p.
Proof.
  intros ws [] H; unfold wof, plimit.
  - rewrite firstn_length. lia.
  - rewrite skipn_length. lia.
Qed.

Lemma start_effects_comp : forall st t p j, jtype p j -> start_effects c st t j = add_event st (EvStart (s_step st) t j).
Proof. intros st t p j H. destruct p, j; try contradiction; reflexivity. Qed.
Lemma sub_effects_comp : forall st t p0 p j, jtype p j -> sub_effects c st t p0 j = add_event st (EvSub (s_step st) t p0 j).
Proof. intros st t p0 p j H. destruct p, j; try contradiction; reflexivity. Qed.

Ltac inv_cinv H := destruct H as [pos Q arrived Hops Hpos Hlen HR HB HL HT HW HC HI HQ HS HF].

(* rebuilding the invariant after a step of worker t: its state goes from w0 to x, the pools become P', the queues Q' *)
Lemma rebuild_worker : forall st st' t w0 x (P' : pid -> pool job) (Q' : pid -> list job) arrived' pos Q arrived,
  s_mops st = cops_of c pos -> cpos_ok c pos -> length (s_ws st) = S (c_N c) ->
  (forall p, n_busy (get_pool st p) = nrun (wof c (s_ws st) p)) ->
  (forall p, t_limit (get_pool st p) = plimit c p) ->
  (forall p, Forall (wjob_ok p) (wof c (s_ws st) p)) ->
  (forall k, co arrived k + (co (flat_map (pot_op c) (s_mops st)) k + qsum c Q k + co (flat_map (pot_w c) (s_ws st)) k)
             = co (seq 0 (nb c)) k) ->
  (forall p, shut (get_pool st p) = true -> 2 <= ctail pos) ->
  (s_mst st = MFinished -> s_mops st = []) ->
  1 <= t -> nth_error (s_ws st) (t - 1) = Some w0 ->
  s_mops st' = s_mops st -> s_ws st' = set_nth (t - 1) x (s_ws st) -> (forall p, get_pool st' p = P' p) ->
  (s_mst st' = MFinished -> s_mst st = MFinished) ->
  (forall p, ring_ok (P' p) (Q' p)) ->
  (forall p, t_limit (P' p) = t_limit (get_pool st p)) ->
  (forall p, shut (P' p) = shut (get_pool st p)) ->
  n_busy (P' (own_pool c t)) + b2n (running w0) = n_busy (get_pool st (own_pool c t)) + b2n (running x) ->
  (forall p, p <> own_pool c t -> n_busy (P' p) = n_busy (get_pool st p)) ->
  (forall p, Forall (jtype p) (Q' p)) -> wjob_ok (own_pool c t) x ->
  (forall k, co arrived' k + (qsum c Q' k + co (pot_w c x) k) = co arrived k + (qsum c Q k + co (pot_w c w0) k)) ->
  inv (sequential_output c) arrived' (s_wr st') (s_out st') ->
  (forall p, qlevel p <= ctail pos -> Q' p = [] /\ n_busy (P' p) = 0) ->
  cinv c st'.
Proof.
  intros st st' t w0 x P' Q' arrived' pos Q arrived Hops Hpos Hlen HB HL HW HC HS HF Ht Ew
         Eops Ews Egp Emst R' L' S' B' Bo' T' Tx C' I' Q'q.
  pose proof (wof_nth c (s_ws st) t Ht) as Ewp. rewrite Ew in Ewp.
  apply (CInv c st' pos Q' arrived').
  - congruence.
  - exact Hpos.
  - rewrite Ews, set_nth_length. exact Hlen.
  - intros p. rewrite Egp. apply R'.
  - intros p. rewrite Egp, Ews. destruct (pid_eqb p (own_pool c t)) eqn:E.
    + apply pid_eqb_eq in E. subst p. rewrite wof_set_own by exact Ht.
      pose proof (nrun_set_nth _ _ x _ Ewp). rewrite HB in B'. lia.
    + assert (p <> own_pool c t) by (intros ->; rewrite pid_eqb_refl in E; discriminate).
      rewrite wof_set_other by assumption. rewrite Bo' by assumption. apply HB.
  - intros p. rewrite Egp, L'. apply HL.
  - exact T'.
  - intros p. rewrite Ews. destruct (pid_eqb p (own_pool c t)) eqn:E.
    + apply pid_eqb_eq in E. subst p. rewrite wof_set_own by exact Ht. apply Forall_set_nth; [apply HW|exact Tx].
    + assert (p <> own_pool c t) by (intros ->; rewrite pid_eqb_refl in E; discriminate).
      rewrite wof_set_other by assumption. apply HW.
  - intros k. rewrite Eops, Ews. pose proof (co_flat_map_set_nth _ (pot_w c) _ _ x _ k Ew). specialize (C' k). specialize (HC k). lia.
  - exact I'.
  - intros p Hq. rewrite Egp. apply Q'q. exact Hq.
  - intros p Hs. rewrite Egp, S' in Hs. apply (HS p Hs).
  - intros F. rewrite Eops. apply HF, Emst, F.
Qed.

(* rebuilding after a step of the main thread *)
Lemma rebuild_main : forall st st' (P' : pid -> pool job) (Q' : pid -> list job) pos' Q arrived,
  length (s_ws st) = S (c_N c) ->
  (forall p, n_busy (get_pool st p) = nrun (wof c (s_ws st) p)) ->
  (forall p, t_limit (get_pool st p) = plimit c p) ->
  (forall p, Forall (wjob_ok p) (wof c (s_ws st) p)) ->
  (forall k, co arrived k + (co (flat_map (pot_op c) (s_mops st)) k + qsum c Q k + co (flat_map (pot_w c) (s_ws st)) k)
             = co (seq 0 (nb c)) k) ->
  inv (sequential_output c) arrived (s_wr st) (s_out st) ->
  s_ws st' = s_ws st -> s_wr st' = s_wr st -> s_out st' = s_out st -> (forall p, get_pool st' p = P' p) ->
  s_mops st' = cops_of c pos' -> cpos_ok c pos' ->
  (forall p, ring_ok (P' p) (Q' p)) ->
  (forall p, t_limit (P' p) = t_limit (get_pool st p)) ->
  (forall p, n_busy (P' p) = n_busy (get_pool st p)) ->
  (forall p, shut (P' p) = true -> 2 <= ctail pos') ->
  (forall p, Forall (jtype p) (Q' p)) ->
  (forall k, co (flat_map (pot_op c) (s_mops st')) k + qsum c Q' k = co (flat_map (pot_op c) (s_mops st)) k + qsum c Q k) ->
  (forall p, qlevel p <= ctail pos' -> Q' p = [] /\ n_busy (P' p) = 0) ->
  (s_mst st' = MFinished -> s_mops st' = []) ->
  cinv c st'.
Proof.
  intros st st' P' Q' pos' Q arrived Hlen HB HL HW HC HI Ews Ewr Eout Egp Eops Hpos' R' L' B' S' T' C' Q'q F'.
  apply (CInv c st' pos' Q' arrived); try assumption.
  - rewrite Ews. exact Hlen.
  - intros p. rewrite Egp. apply R'.
  - intros p. rewrite Egp, B', Ews. apply HB.
  - intros p. rewrite Egp, L'. apply HL.
  - intros p. rewrite Ews. apply HW.
  - intros k. rewrite Ews. specialize (C' k). specialize (HC k). lia.
  - rewrite Ewr, Eout. exact HI.
  - intros p Hq. rewrite Egp. apply Q'q. exact Hq.
  - intros p Hs. rewrite Egp in Hs. apply (S' p Hs).
Qed.

Lemma keeps_set_w : forall a b t x, keeps a b -> keeps (set_w a t x) (set_w b t x).
Proof. intros a b t x (A&B&C). repeat split; assumption. Qed.
Lemma keeps_set_main : forall a b o m, keeps a b -> m <> MFinished -> keeps (set_main a o m) (set_main b o m).
Proof. intros a b o m (A&B&C) H. repeat split; try assumption. cbn. intros F. congruence. Qed.

(* a worker that runs a job: its pool is not quiescent; if it is a tPool worker nothing has been shut down *)
Lemma running_facts : forall st t w0 pos (Q : pid -> list job),
  (forall p, n_busy (get_pool st p) = nrun (wof c (s_ws st) p)) ->
  (forall p, qlevel p <= ctail pos -> Q p = [] /\ n_busy (get_pool st p) = 0) ->
  1 <= t -> nth_error (s_ws st) (t - 1) = Some w0 -> running w0 = true ->
  ~ (qlevel (own_pool c t) <= ctail pos) /\ 1 <= n_busy (get_pool st (own_pool c t)).
Proof.
  intros st t w0 pos Q HB HQ Ht Ew Hr.
  pose proof (wof_nth c (s_ws st) t Ht) as Ewp. rewrite Ew in Ewp.
  pose proof (nrun_busy _ _ _ Ewp Hr) as Hn. rewrite <- HB in Hn.
  split; [|exact Hn]. intros Hq. destruct (HQ _ Hq) as [_ Hz]. lia.
Qed.

(* states that differ only by the event trace *)
Definition tr_eq (a b : state) : Prop :=
  s_pt b = s_pt a /\ s_pw b = s_pw a /\ s_ws b = s_ws a /\ s_mops b = s_mops a /\ s_mst b = s_mst a /\
  s_wr b = s_wr a /\ s_out b = s_out a.
Lemma tr_eq_refl : forall a, tr_eq a a. Proof. intros a. repeat split. Qed.
Lemma tr_eq_add_event : forall a e, tr_eq a (add_event a e). Proof. intros a e. repeat split. Qed.
Lemma tr_eq_trans : forall a b d, tr_eq a b -> tr_eq b d -> tr_eq a d.
Proof. intros a b d (A1&A2&A3&A4&A5&A6&A7) (B1&B2&B3&B4&B5&B6&B7). repeat split; congruence. Qed.
Lemma tr_eq_get_pool : forall a b p, tr_eq a b -> get_pool b p = get_pool a p.
Proof. intros a b [] (A1&A2&_); assumption. Qed.

Lemma cinv_core : forall a b, cinv c a -> tr_eq a b -> cinv c b.
Proof.
  intros a b D E. pose proof E as (E1&E2&E3&E4&E5&E6&E7). inv_cinv D.
  apply (CInv c b pos Q arrived); rewrite ?E3, ?E4, ?E5, ?E6, ?E7; try assumption;
    intros p0; rewrite ?(tr_eq_get_pool a b p0 E); auto. apply HS.
Qed.

(* TPool_submitJob(p', j') called by worker t from inside job j *)
Lemma worker_submit : forall st t w j i w0 p' j' st2 b,
  1 <= t -> cinv c st -> nth_error (s_ws st) (t - 1) = Some w0 ->
  (w0 = WRun j i \/ w0 = WSubWoken j i) ->
  nth_error (job_subs c j) i = Some (p', j') ->
  submit_cs st t p' j' w = Some (st2, b) ->
  cinv c (set_w st2 t (if b then WRun j (S i) else WSubWait j i)).
Proof.
  intros st t w j i w0 p' j' st2 b Ht D Ew Hw0 Esub Hsub. inv_cinv D.
  pose proof (wof_nth c (s_ws st) t Ht) as Ewp. rewrite Ew in Ewp.
  pose proof (Forall_nth_error _ _ _ _ _ (HW (own_pool c t)) Ewp) as Tw0.
  assert (Tj : jtype (own_pool c t) j) by (destruct Hw0 as [->| ->]; exact Tw0).
  assert (Hr : running w0 = true) by (destruct Hw0 as [->| ->]; reflexivity).
  assert (Hpot : pot_w c w0 = pot_w c (WRun j i)) by (destruct Hw0 as [->| ->]; reflexivity).
  destruct (running_facts st t w0 pos Q HB HQ Ht Ew Hr) as [Hnq Hbusy].
  destruct (subs_type c _ j i p' j' Tj Esub) as [EpT Tj'].
  rewrite EpT in Hnq. cbn [qlevel] in Hnq.
  assert (Hsh : shut (get_pool st p') = false).
  { destruct (shut (get_pool st p')) eqn:E; [|reflexivity]. specialize (HS p' E). lia. }
  destruct (submit_cs_cases st t p' j' w st2 b (Q p') (HR p') Hsh Hsub) as [(-> & S1 & K1)|(-> & Hroom & S1 & K1)].
  - (* queue full: the worker waits *)
    eapply cinv_sim; [|apply sim_set_w; exact S1|apply keeps_set_w; exact K1].
    apply (rebuild_worker st _ t w0 (WSubWait j i) (get_pool st) Q arrived pos Q arrived);
      try assumption; cbn [s_mops s_ws s_mst s_wr s_out set_w set_ws]; try reflexivity; try congruence.
    + rewrite Hr. reflexivity.
    + intros k. rewrite Hpot. reflexivity.
  - (* pushed *)
    eapply cinv_sim; [|apply sim_set_w; exact S1|].
    2:{ apply keeps_set_w. destruct K1 as (A&B&C0). repeat split; autorewrite with gp; assumption. }
    apply (rebuild_worker st _ t w0 (WRun j (S i)) (upd (get_pool st) p' (pool_push (get_pool st p') j')) (upd Q p' (Q p' ++ [j'])) arrived pos Q arrived);
      try assumption; cbn [s_mops s_ws s_mst s_wr s_out set_w set_ws]; autorewrite with gp; try reflexivity; try congruence.
    + intros p0. autorewrite with gp. reflexivity.
    + intros p0. unfold upd. destruct (pid_eqb p' p0) eqn:E; [apply pid_eqb_eq in E; subst p0|apply HR].
      apply ring_push; [apply HR|exact Hroom].
    + intros p0. unfold upd. destruct (pid_eqb p' p0) eqn:E; [apply pid_eqb_eq in E; subst p0|]; reflexivity.
    + intros p0. unfold upd. destruct (pid_eqb p' p0) eqn:E; [apply pid_eqb_eq in E; subst p0|]; reflexivity.
    + unfold upd. rewrite Hr. destruct (pid_eqb p' (own_pool c t)) eqn:E; [apply pid_eqb_eq in E; rewrite <- E|]; reflexivity.
    + intros p0 _. unfold upd. destruct (pid_eqb p' p0) eqn:E; [apply pid_eqb_eq in E; subst p0|]; reflexivity.
    + intros p0. unfold upd. destruct (pid_eqb p' p0) eqn:E; [apply pid_eqb_eq in E; subst p0|apply HT].
      apply Forall_app. split; [apply HT|constructor; [exact Tj'|constructor]].
    + intros k. rewrite qsum_push, Hpot. cbn [pot_w]. rewrite (pot_sub_step c j i p' j' Esub).
      unfold co. rewrite <- !app_assoc, !count_occ_app. lia.
    + intros p0 Hq. exfalso. destruct p0; cbn [qlevel] in Hq; lia.
Qed.

(* the job function returns: (for JWrite: LZ4IO_checkWriteOrder runs), then numThreadsBusy--, signal *)
Lemma worker_finish : forall st t w j i e st3,
  1 <= t -> cinv c st -> nth_error (s_ws st) (t - 1) = Some (WRun j i) ->
  nth_error (job_subs c j) i = None ->
  signal_push (set_pool (add_event (body_effects c st t j) e) (own_pool c t)
                 (pool_job_done (get_pool (add_event (body_effects c st t j) e) (own_pool c t)))) (own_pool c t) w = Some st3 ->
  cinv c (set_w st3 t WIdle).
Proof.
  intros st t w j i e st3 Ht D Ew Esub Hsig. inv_cinv D.
  pose proof (wof_nth c (s_ws st) t Ht) as Ewp. rewrite Ew in Ewp.
  pose proof (Forall_nth_error _ _ _ _ _ (HW (own_pool c t)) Ewp) as Tj. cbn [wjob_ok] in Tj.
  destruct (running_facts st t (WRun j i) pos Q HB HQ Ht Ew eq_refl) as [Hnq Hbusy].
  set (p := own_pool c t) in *.
  eapply cinv_sim; [|apply sim_set_w; eapply signal_push_sim; exact Hsig|apply keeps_set_w; eapply signal_push_keeps; exact Hsig].
  assert (Hps : pot_subs c j i = []) by (apply pot_subs_end; exact Esub).
  (* common part, given what the body did to the register *)
  assert (G : forall stb arrived',
            s_mops stb = s_mops st -> s_ws stb = s_ws st -> s_mst stb = s_mst st -> (forall p0, get_pool stb p0 = get_pool st p0) ->
            inv (sequential_output c) arrived' (s_wr stb) (s_out stb) ->
            (forall k, co arrived' k = co arrived k + co (pot_w c (WRun j i)) k) ->
            cinv c (set_w (set_pool (add_event stb e) p (pool_job_done (get_pool (add_event stb e) p))) t WIdle)).
  { intros stb arrived' E1 E2 E3 E4 I' C'.
    apply (rebuild_worker st _ t (WRun j i) WIdle (upd (get_pool st) p (pool_job_done (get_pool st p))) Q arrived' pos Q arrived);
      try assumption; cbn [s_mops s_ws s_mst s_wr s_out set_w set_ws add_event]; autorewrite with gp; cbn [s_mops s_ws s_mst s_wr s_out add_event]; try congruence.
    - intros p0. autorewrite with gp. rewrite !E4. reflexivity.
    - intros p0. unfold upd. destruct (pid_eqb p p0) eqn:E; [apply pid_eqb_eq in E; subst p0|apply HR].
      eapply ring_ok_ext; [apply HR|reflexivity..].
    - intros p0. unfold upd. destruct (pid_eqb p p0) eqn:E; [apply pid_eqb_eq in E; subst p0|]; reflexivity.
    - intros p0. unfold upd. destruct (pid_eqb p p0) eqn:E; [apply pid_eqb_eq in E; subst p0|]; reflexivity.
    - fold p. unfold upd. rewrite pid_eqb_refl. cbn [pool_job_done n_busy running b2n]. lia.
    - intros p0 Hp0. unfold upd. fold p in Hp0. destruct (pid_eqb p p0) eqn:E; [apply pid_eqb_eq in E; congruence|reflexivity].
    - exact I.
    - intros k. rewrite C'. change (pot_w c WIdle) with (@nil nat). change (co [] k) with 0. lia.
    - intros p0 Hq. unfold upd. destruct (pid_eqb p p0) eqn:E; [apply pid_eqb_eq in E; subst p0; contradiction|apply HQ; exact Hq]. }
  destruct j as [k|k|k|k|k|k|k]; try (destruct p; contradiction).
  - (* JRead: nothing left to do *)
    cbn [body_effects]. apply (G st arrived); try reflexivity; try assumption.
    intros k0. cbn [pot_w]. rewrite Hps. cbn. lia.
  - cbn [body_effects]. apply (G st arrived); try reflexivity; try assumption.
    intros k0. cbn [pot_w]. rewrite Hps. cbn. lia.
  - (* JWrite k: the block arrives at the write register *)
    assert (Hk : co arrived k = 0 /\ k < nb c).
    { pose proof (HC k) as Hc. pose proof (co_flat_map_ge _ (pot_w c) _ _ _ k Ew) as Hge.
      cbn [pot_w] in Hge. rewrite Hps in Hge. unfold co at 1 in Hge. cbn [app count_occ] in Hge.
      destruct (Nat.eq_dec k k) as [_|N]; [|congruence]. rewrite co_seq in Hc.
      destruct (k <? nb c) eqn:E; [apply Nat.ltb_lt in E|]; lia. }
    destruct Hk as [Hk0 Hkn].
    assert (Hle : forall x, co arrived x <= co (seq 0 (nb c)) x) by (intros x; specialize (HC x); lia).
    assert (ND : NoDup arrived).
    { apply (NoDup_count_occ Nat.eq_dec). intros x. specialize (Hle x). fold (co arrived x). rewrite co_seq in Hle. destruct (x <? nb c); lia. }
    assert (Hlt : forall x, In x arrived -> x < length (sequential_output c)).
    { intros x Hx. rewrite seqout_length. apply (count_occ_In Nat.eq_dec) in Hx. specialize (Hle x). fold (co arrived x) in Hx.
      rewrite co_seq in Hle. destruct (x <? nb c) eqn:E; [apply Nat.ltb_lt in E; exact E|lia]. }
    assert (Hni : ~ In k arrived) by (apply (count_occ_not_In Nat.eq_dec); exact Hk0).
    destruct (arrive_ok (sequential_output c) arrived (s_wr st) (s_out st) k HI ND Hlt Hni) as [w' [o [A I']]].
    { rewrite seqout_length. exact Hkn. }
    rewrite (seqout_nth c k Hkn) in A.
    cbn [body_effects]. rewrite A.
    destruct (wr_events_core (set_wr st w' o true) t o) as (W1&W2&W3&W4&W5&W6).
    apply (G (wr_events (set_wr st w' o true) t o) (k :: arrived)); rewrite ?W2, ?W3, ?W4, ?W5, ?W6; try reflexivity.
    + intros p0. rewrite W1. apply gp_set_wr.
    + cbn [s_wr s_out set_wr]. exact I'.
    + intros k0. cbn [pot_w]. rewrite Hps. unfold co. cbn [app count_occ]. destruct (Nat.eq_dec k k0); lia.
Qed.

Lemma step_worker : forall st t w st', 1 <= t -> cinv c st -> worker_step c st t w = Some st' -> cinv c st'.
Proof.
  intros st t w st' Ht D Hstep. pose proof D as D0. inv_cinv D.
  unfold worker_step in Hstep.
  destruct (nth_error (s_ws st) (t - 1)) as [w0|] eqn:Ew; [|discriminate].
  pose proof (wof_nth c (s_ws st) t Ht) as Ewp. rewrite Ew in Ewp.
  pose proof (wof_length (s_ws st) (own_pool c t) Hlen) as Lp.
  pose proof (Forall_nth_error _ _ _ _ _ (HW (own_pool c t)) Ewp) as Tw0.
  set (p := own_pool c t) in *.
  destruct w0 as [| |j i|j i|j i| |].
  - (* WIdle *)
    assert (Elim : (t_limit (get_pool st p) <=? n_busy (get_pool st p)) = false).
    { apply Nat.leb_gt. rewrite HL, HB, <- Lp. eapply nrun_idle; [exact Ewp|reflexivity]. }
    unfold worker_must_wait in Hstep. rewrite Elim, orb_false_r in Hstep.
    destruct (q_empty (get_pool st p)) eqn:Eem.
    + (* nothing to pop: wait or exit *)
      assert (G : forall x st2, running x = false -> pot_w c x = [] -> wjob_ok p x ->
                  s_mops st2 = s_mops st -> s_ws st2 = s_ws st -> s_mst st2 = s_mst st ->
                  s_wr st2 = s_wr st -> s_out st2 = s_out st ->
                  (forall p0, pool_eq (get_pool st p0) (get_pool st2 p0)) -> cinv c (set_w st2 t x)).
      { intros x st2 Rx Px Tx E1 E2 E3 E4 E5 E6.
        apply (rebuild_worker st (set_w st2 t x) t WIdle x (get_pool st2) Q arrived pos Q arrived); try assumption; cbn [s_mops s_ws s_mst s_wr s_out set_w set_ws]; try congruence.
        - intros p0. apply gp_set_w.
        - intros p0. eapply ring_ok_eq; [apply E6|apply HR].
        - intros p0. destruct (E6 p0) as (_&_&_&_&_&_&El&_). exact El.
        - intros p0. destruct (E6 p0) as (_&_&_&_&_&_&_&Esh). exact Esh.
        - destruct (E6 p) as (_&_&_&_&_&Eb&_&_). fold p. rewrite Eb, Rx. reflexivity.
        - intros p0 _. destruct (E6 p0) as (_&_&_&_&_&Eb&_&_). exact Eb.
        - intros k. rewrite Px. reflexivity.
        - intros p0 Hq. destruct (HQ p0 Hq) as [A B]. destruct (E6 p0) as (_&_&_&_&_&Eb&_&_). rewrite Eb. auto. }
      destruct (shut (get_pool st p)); injection Hstep as <-.
      * apply G; try reflexivity; try exact I. intros p0. apply pool_eq_refl.
      * apply G; try reflexivity; try exact I; autorewrite with gp; try reflexivity.
        intros p0. autorewrite with gp. destruct (pid_eqb p p0) eqn:E; [|apply pool_eq_refl].
        apply pid_eqb_eq in E. subst p0. repeat split.
    + (* pop the oldest job *)
      destruct (Q p) as [|j rest] eqn:EQ.
      { exfalso. pose proof (HR p) as R. rewrite EQ in R. apply (ring_empty job _ _) in R. destruct R as [_ R]. rewrite R in Eem by reflexivity. discriminate. }
      pose proof (HR p) as R. rewrite EQ in R.
      destruct (ring_pop job _ _ _ R) as [pl' [Epop [R' [Eb [El [Es [Epw [Eqw Esz]]]]]]]].
      rewrite Epop in Hstep.
      destruct (signal_push _ p w) as [st3|] eqn:Esig; [|discriminate]. injection Hstep as <-.
      eapply cinv_sim; [|apply sim_set_w; eapply signal_push_sim; exact Esig|apply keeps_set_w; eapply signal_push_keeps; exact Esig].
      assert (Tj : jtype p j) by (pose proof (HT p) as F; rewrite EQ in F; inversion F; assumption).
      apply (rebuild_worker st _ t WIdle (WRun j 0) (upd (get_pool st) p pl') (upd Q p rest) arrived pos Q arrived);
        try assumption; cbn [s_mops s_ws s_mst s_wr s_out set_w set_ws]; autorewrite with gp; try reflexivity; try congruence.
      * intros p0. autorewrite with gp. reflexivity.
      * intros p0. unfold upd. destruct (pid_eqb p p0) eqn:E; [apply pid_eqb_eq in E; subst p0; exact R'|apply HR].
      * intros p0. unfold upd. destruct (pid_eqb p p0) eqn:E; [apply pid_eqb_eq in E; subst p0; exact El|reflexivity].
      * intros p0. unfold upd. destruct (pid_eqb p p0) eqn:E; [apply pid_eqb_eq in E; subst p0; exact Es|reflexivity].
      * fold p. unfold upd. rewrite pid_eqb_refl, Eb. cbn [running b2n]. lia.
      * intros p0 Hp0. unfold upd. fold p in Hp0. destruct (pid_eqb p p0) eqn:E; [apply pid_eqb_eq in E; congruence|reflexivity].
      * intros p0. unfold upd. destruct (pid_eqb p p0) eqn:E; [apply pid_eqb_eq in E; subst p0|apply HT].
        pose proof (HT p) as F. rewrite EQ in F. inversion F; assumption.
      * intros k. pose proof (qsum_pop c Q p j rest k EQ). rewrite (pot_pop c j) by (destruct p, j; try contradiction; exact I).
        change (pot_w c WIdle) with (@nil nat). change (co [] k) with 0. lia.
      * intros p0 Hq. unfold upd. destruct (pid_eqb p p0) eqn:E.
        -- apply pid_eqb_eq in E. subst p0. destruct (HQ p Hq) as [A _]. congruence.
        -- apply HQ. exact Hq.
  - discriminate.
  - (* WRun j i *)
    cbn [wjob_ok] in Tw0.
    set (st1 := if i =? 0 then start_effects c st t j else st) in Hstep.
    assert (E1 : tr_eq st st1).
    { unfold st1. destruct (i =? 0); [rewrite (start_effects_comp st t p j Tw0); apply tr_eq_add_event|apply tr_eq_refl]. }
    clearbody st1.
    destruct (nth_error (job_subs c j) i) as [[p' j']|] eqn:Esub.
    + destruct (subs_type c p j i p' j' Tw0 Esub) as [_ Tj'].
      rewrite (sub_effects_comp st1 t p' p' j' Tj') in Hstep.
      set (st1' := add_event st1 _) in Hstep.
      assert (E2 : tr_eq st st1') by (eapply tr_eq_trans; [exact E1|apply tr_eq_add_event]).
      clearbody st1'.
      destruct (submit_cs st1' t p' j' w) as [[st2 b]|] eqn:Hsub; [|discriminate].
      pose proof (worker_submit st1' t w j i (WRun j i) p' j' st2 b Ht (cinv_core _ _ D0 E2)) as G.
      destruct E2 as (_&_&E2&_). rewrite E2 in G. specialize (G Ew (or_introl eq_refl) Esub Hsub).
      destruct b; injection Hstep as <-; exact G.
    + destruct (signal_push _ p w) as [st3|] eqn:Hsig; [|discriminate]. injection Hstep as <-.
      pose proof E1 as (_&_&E2&_).
      eapply (worker_finish st1 t w j i _ st3 Ht (cinv_core _ _ D0 E1)); [rewrite E2; exact Ew|exact Esub|exact Hsig].
  - discriminate.
  - (* WSubWoken j i *)
    destruct (nth_error (job_subs c j) i) as [[p' j']|] eqn:Esub.
    + destruct (submit_cs st t p' j' w) as [[st2 b]|] eqn:Hsub; [|discriminate].
      pose proof (worker_submit st t w j i (WSubWoken j i) p' j' st2 b Ht D0 Ew (or_intror eq_refl) Esub Hsub) as G.
      destruct b; injection Hstep as <-; exact G.
    + injection Hstep as <-. eapply cinv_sim; [exact D0|apply sim_set_err|repeat split; auto].
  - (* WExit *)
    injection Hstep as <-.
    assert (G : cinv c (set_w st t WDone)).
    { apply (rebuild_worker st _ t WExit WDone (get_pool st) Q arrived pos Q arrived);
        try assumption; cbn [s_mops s_ws s_mst s_wr s_out set_w set_ws]; try reflexivity; try congruence. }
    cbn [set_w set_ws s_mst]. destruct (s_mst st) as [|pp| |tj|] eqn:Em; try exact G. destruct (tj =? t); [|exact G].
    eapply cinv_sim; [exact G| |].
    + constructor; cbn; try reflexivity; try apply pool_eq_refl. apply Forall2_wsim_refl.
    + repeat split; cbn; auto. discriminate.
  - discriminate.
Qed.

Lemma csubs_head : forall i, i < length (csubs c) ->
  exists j, skipn i (csubs c) = MSubmit PT j :: skipn (S i) (csubs c) /\ jtype PT j.
Proof.
  intros i Hi. unfold csubs in *. destruct Hcomp as [E|[E _]]; rewrite E in *; cbn [length] in Hi.
  - destruct i; [|lia]. eexists. split; [reflexivity|exact I].
  - destruct i as [|[|i]]; [| |lia]; eexists; (split; [reflexivity|exact I]).
Qed.

Lemma In_skipn_ : forall (A : Type) n (l : list A) x, In x (skipn n l) -> In x l.
Proof. induction n; intros l x H; [exact H|]. destruct l; [exact H|]. right. apply IHn. exact H. Qed.

Lemma Forall_skipn_ : forall (A : Type) (P : A -> Prop) n l, Forall P l -> Forall P (skipn n l).
Proof. induction n; intros l H; [exact H|]. destruct l; [constructor|]. inversion H; subst. cbn [skipn]. auto. Qed.

Lemma head_submit_tail0 : forall pos p j r, cops_of c pos = MSubmit p j :: r -> ctail pos = 0.
Proof.
  intros pos p j r H. destruct pos as [i|q]; [reflexivity|]. exfalso. cbn [cops_of] in H.
  destruct q as [|[|q]]; cbn [skipn ctl] in H; try discriminate.
  pose proof (Forall_skipn_ _ _ q _ (cfrees_free c)) as F. rewrite H in F. inversion F; subst. contradiction.
Qed.

Ltac inv_cinv2 H := destruct H as [pos0 Q0 arrived0 Hops0 Hpos0 Hlen0 HR0 HB0 HL0 HT0 HW0 HC0 HI0 HQ0 HS0 HF0].

(* TPool_submitJob(tPool, j) by the main thread, the i-th of its initial submissions *)
Lemma main_submit_c : forall st i j w st2 b m,
  cinv c st -> s_mops st = cops_of c (CInit i) -> i < length (csubs c) ->
  skipn i (csubs c) = MSubmit PT j :: skipn (S i) (csubs c) -> jtype PT j ->
  submit_cs st 0 PT j w = Some (st2, b) -> m <> MFinished ->
  cinv c (set_main st2 (if b then skipn (S i) (csubs c) ++ ctl c else s_mops st) m).
Proof.
  intros st i j w st2 b m D Hm Hi Hhd Tj Hsub Hmf. inv_cinv D.
  assert (Ht0 : ctail pos = 0).
  { eapply head_submit_tail0. rewrite <- Hops, Hm. cbn [cops_of]. rewrite Hhd. reflexivity. }
  assert (Hsh : shut (get_pool st PT) = false).
  { destruct (shut (get_pool st PT)) eqn:E; [|reflexivity]. specialize (HS PT E). lia. }
  destruct (submit_cs_cases st 0 PT j w st2 b (Q PT) (HR PT) Hsh Hsub) as [(-> & S1 & K1)|(-> & Hroom & S1 & K1)].
  - eapply cinv_sim; [|apply sim_set_main; [exact S1|reflexivity]|apply keeps_set_main; [exact K1|exact Hmf]].
    apply (rebuild_main st _ (get_pool st) Q (CInit i) Q arrived); try assumption; cbn [s_mops s_ws s_wr s_out s_mst set_main]; try reflexivity; try congruence.
    + intros p0 E. specialize (HS p0 E). lia.
    + intros p0 Hq. exfalso. destruct p0; cbn [qlevel ctail] in Hq; lia.
  - eapply cinv_sim; [|apply sim_set_main; [exact S1|reflexivity]|].
    2:{ apply keeps_set_main; [|exact Hmf]. destruct K1 as (A&B&C0). repeat split; autorewrite with gp; assumption. }
    set (pos' := if S i <? length (csubs c) then CInit (S i) else CTail 0).
    assert (Eops' : skipn (S i) (csubs c) ++ ctl c = cops_of c pos').
    { unfold pos'. destruct (S i <? length (csubs c)) eqn:E; [reflexivity|]. apply Nat.ltb_ge in E.
      cbn [cops_of]. rewrite (skipn_all2 (csubs c)) by exact E. reflexivity. }
    assert (Hp' : cpos_ok c pos' /\ ctail pos' = 0).
    { unfold pos'. destruct (S i <? length (csubs c)) eqn:E; [apply Nat.ltb_lt in E|]; cbn; split; lia. }
    destruct Hp' as [Hp' Ht'].
    apply (rebuild_main st _ (upd (get_pool st) PT (pool_push (get_pool st PT) j)) (upd Q PT (Q PT ++ [j])) pos' Q arrived);
      try assumption; cbn [s_mops s_ws s_wr s_out s_mst set_main]; autorewrite with gp; try reflexivity; try congruence.
    + intros p0. autorewrite with gp. reflexivity.
    + intros p0. unfold upd. destruct (pid_eqb PT p0) eqn:E; [apply pid_eqb_eq in E; subst p0|apply HR].
      apply ring_push; [apply HR|exact Hroom].
    + intros p0. unfold upd. destruct (pid_eqb PT p0) eqn:E; [apply pid_eqb_eq in E; subst p0|]; reflexivity.
    + intros p0. unfold upd. destruct (pid_eqb PT p0) eqn:E; [apply pid_eqb_eq in E; subst p0|]; reflexivity.
    + intros p0 E. exfalso. assert (E2 : shut (get_pool st p0) = true).
      { revert E. unfold upd. destruct (pid_eqb PT p0) eqn:E3; [apply pid_eqb_eq in E3; subst p0|]; auto. }
      specialize (HS p0 E2). lia.
    + intros p0. unfold upd. destruct (pid_eqb PT p0) eqn:E; [apply pid_eqb_eq in E; subst p0|apply HT].
      apply Forall_app. split; [apply HT|constructor; [exact Tj|constructor]].
    + intros k. rewrite qsum_push, Hm. cbn [cops_of]. rewrite Hhd. cbn [app flat_map pot_op]. unfold co. rewrite !count_occ_app. lia.
    + intros p0 Hq. exfalso. destruct p0; cbn [qlevel] in Hq; lia.
Qed.

Lemma main_run_cinv : forall fuel st w woken st',
  cinv c st -> main_run fuel c st w woken = Some st' -> cinv c st'.
Proof.
  induction fuel as [|f IH]; intros st w woken st' D Hrun.
  { cbn in Hrun. injection Hrun as <-. eapply cinv_sim; [exact D|apply sim_set_err|repeat split; auto]. }
  pose proof D as D0. inv_cinv D. cbn [main_run] in Hrun. rewrite Hops in Hrun.
  destruct pos as [i|q]; cbn [cops_of cpos_ok] in *.
  - (* one of the initial TPool_submitJob calls *)
    destruct (csubs_head i Hpos) as [j [Hhd Tj]]. rewrite Hhd in Hrun. cbn [app] in Hrun.
    set (st1 := if woken then st else sub_effects c st 0 PT j) in Hrun.
    assert (E1 : tr_eq st st1).
    { unfold st1. destruct woken; [apply tr_eq_refl|rewrite (sub_effects_comp st 0 PT PT j Tj); apply tr_eq_add_event]. }
    clearbody st1.
    destruct (submit_cs st1 0 PT j w) as [[st2 b]|] eqn:Hsub; [|discriminate].
    pose proof E1 as (_&_&_&E4&_).
    pose proof (main_submit_c st1 i j w st2 b) as G.
    specialize (fun m => G m (cinv_core _ _ D0 E1) (eq_trans E4 Hops) Hpos Hhd Tj Hsub).
    destruct b; injection Hrun as <-.
    + apply G. discriminate.
    + specialize (G (MWaitPush PT)). rewrite E4, Hops in G. cbn [cops_of] in G. rewrite Hhd in G. apply G. discriminate.
  - (* the tail: TPool_jobsCompleted twice, then the TPool_free calls *)
    assert (MK : forall q' st2, q' <= length (ctl c) -> s_mops st2 = skipn q' (ctl c) -> q <= q' ->
                  s_ws st2 = s_ws st -> s_wr st2 = s_wr st -> s_out st2 = s_out st ->
                  (forall p0, pool_eq (get_pool st p0) (get_pool st2 p0)) ->
                  (forall p0, qlevel p0 <= q' -> Q p0 = [] /\ n_busy (get_pool st p0) = 0) ->
                  (s_mst st2 = MFinished -> s_mops st2 = []) -> cinv c st2).
    { intros q' st2 Hq' Eo Hqq Ew Ewr Eout Ep Hquiet Hfin.
      apply (rebuild_main st st2 (get_pool st2) Q (CTail q') Q arrived); try assumption; cbn [cops_of cpos_ok ctail]; try reflexivity.
      - intros p0. eapply ring_ok_eq; [apply Ep|apply HR].
      - intros p0. destruct (Ep p0) as (_&_&_&_&_&_&El&_). exact El.
      - intros p0. destruct (Ep p0) as (_&_&_&_&_&Eb&_&_). exact Eb.
      - intros p0 E. destruct (Ep p0) as (_&_&_&_&_&_&_&Esh). rewrite Esh in E. specialize (HS p0 E). cbn [ctail] in HS. lia.
      - intros k. rewrite Eo, Hops.
        assert (Z : forall n, co (flat_map (pot_op c) (skipn n (ctl c))) k = 0).
        { intros n. apply (count_occ_not_In Nat.eq_dec). intros Hin. apply in_flat_map in Hin. destruct Hin as [op [Hop Hk]].
          assert (Hin2 : In op (ctl c)) by (eapply In_skipn_; exact Hop).
          destruct Hin2 as [<-|[<-|Hin2]]; try contradiction.
          pose proof (cfrees_free c) as F. rewrite Forall_forall in F. specialize (F op Hin2). destruct op; contradiction. }
        rewrite !Z. reflexivity.
      - intros p0 Hq0. destruct (Hquiet p0 Hq0) as [A B]. destruct (Ep p0) as (_&_&_&_&_&Eb&_&_). rewrite Eb. auto. }
    destruct q as [|[|q]]; cbn [skipn ctl] in Hrun.
    + (* TPool_jobsCompleted(tPool) *)
      unfold jobs_pending in Hrun.
      destruct (negb (q_empty (get_pool st PT)) || (0 <? n_busy (get_pool st PT))) eqn:Ep; injection Hrun as <-.
      * apply (MK 0); cbn [s_mops s_ws s_wr s_out s_mst set_main]; autorewrite with gp; try reflexivity; try lia; try discriminate.
        -- intros p0. destruct p0; repeat split.
        -- intros p0 Hq0. exfalso. destruct p0; cbn [qlevel] in Hq0; lia.
      * apply orb_false_iff in Ep. destruct Ep as [Ee Eb]. apply negb_false_iff in Ee. apply Nat.ltb_ge in Eb.
        apply (ring_empty job _ _ (HR PT)) in Ee.
        apply (MK 1); cbn [s_mops s_ws s_wr s_out s_mst set_main ctl length]; autorewrite with gp; try reflexivity; try lia; try discriminate.
        -- intros p0. destruct p0; repeat split.
        -- intros p0 Hq0. destruct p0; cbn [qlevel] in Hq0; [split; [exact Ee|lia]|lia].
    + (* TPool_jobsCompleted(wPool) *)
      unfold jobs_pending in Hrun.
      destruct (negb (q_empty (get_pool st PW)) || (0 <? n_busy (get_pool st PW))) eqn:Ep; injection Hrun as <-.
      * apply (MK 1); cbn [s_mops s_ws s_wr s_out s_mst set_main ctl length]; autorewrite with gp; try reflexivity; try lia; try discriminate.
        -- intros p0. destruct p0; repeat split.
        -- intros p0 Hq0. apply HQ. exact Hq0.
      * apply orb_false_iff in Ep. destruct Ep as [Ee Eb]. apply negb_false_iff in Ee. apply Nat.ltb_ge in Eb.
        apply (ring_empty job _ _ (HR PW)) in Ee.
        apply (MK 2); cbn [s_mops s_ws s_wr s_out s_mst set_main ctl length]; autorewrite with gp; try reflexivity; try lia; try discriminate.
        -- intros p0. destruct p0; repeat split.
        -- intros p0 Hq0. destruct p0; [apply HQ; cbn; lia|split; [exact Ee|lia]].
    + (* TPool_free: shutdown / broadcast / join *)
      assert (Hquiet : forall p0, Q p0 = [] /\ n_busy (get_pool st p0) = 0).
      { intros p0. apply HQ. destruct p0; cbn; lia. }
      destruct (skipn q (cfrees c)) as [|op rest] eqn:Esk.
      { injection Hrun as <-.
        apply (MK (S (S q))); cbn [s_mops s_ws s_wr s_out s_mst set_main ctl length skipn]; autorewrite with gp; try reflexivity; try lia; try exact Hpos.
        - symmetry. exact Esk.
        - intros p0. destruct p0; repeat split.
        - intros p0 _. apply Hquiet. }
      assert (Hrest : rest = skipn (S q) (cfrees c)) by (symmetry; eapply skipn_cons_S; exact Esk).
      assert (Hlt : q < length (cfrees c)) by (eapply skipn_cons_lt; exact Esk).
      assert (Hfree : is_free op).
      { pose proof (Forall_skipn_ _ _ q _ (cfrees_free c)) as F. rewrite Esk in F. inversion F; assumption. }
      destruct op as [pp jj|kk|pp|pp|pp|tt]; try contradiction.
      * (* MShutdown *)
        injection Hrun as <-.
        apply (rebuild_main st _ (upd (get_pool st) pp (pool_set_shutdown (get_pool st pp))) Q (CTail (S (S (S q)))) Q arrived);
          try assumption; cbn [s_mops s_ws s_wr s_out s_mst set_main cops_of cpos_ok ctail ctl skipn length]; autorewrite with gp; try reflexivity; try lia; try discriminate.
        -- intros p0. autorewrite with gp. reflexivity.
        -- intros p0. unfold upd. destruct (pid_eqb pp p0) eqn:E; [apply pid_eqb_eq in E; subst p0|apply HR].
           eapply ring_ok_ext; [apply HR|reflexivity..].
        -- intros p0. unfold upd. destruct (pid_eqb pp p0) eqn:E; [apply pid_eqb_eq in E; subst p0|]; reflexivity.
        -- intros p0. unfold upd. destruct (pid_eqb pp p0) eqn:E; [apply pid_eqb_eq in E; subst p0|]; reflexivity.
        -- intros k. rewrite Hops. cbn [cops_of skipn ctl]. rewrite Esk. cbn [flat_map pot_op app]. rewrite Hrest. reflexivity.
        -- intros p0 _. unfold upd. destruct (Hquiet p0) as [A B]. split; [exact A|].
           destruct (pid_eqb pp p0) eqn:E; [apply pid_eqb_eq in E; subst p0|]; exact B.
      * (* MBroadcast ; continue *)
        apply IH in Hrun; [exact Hrun|].
        eapply cinv_sim.
        2:{ eapply sim_set_main with (m := MRunnable); [eapply sim_trans; [|eapply sim_trans; apply wake_all_sim]|reflexivity].
            apply sim_set_pool_waiters. repeat split. }
        2:{ apply keeps_set_main; [|discriminate]. eapply keeps_trans; [|eapply keeps_trans; apply wake_all_keeps].
            repeat split; autorewrite with gp; auto. }
        apply (MK (S (S (S q)))); cbn [s_mops s_ws s_wr s_out s_mst set_main ctl length skipn]; try reflexivity; try lia; try discriminate.
        -- exact Hrest.
        -- intros p0. apply pool_eq_refl.
        -- intros p0 _. apply Hquiet.
      * (* MJoin *)
        destruct (thread_done st tt).
        -- apply IH in Hrun; [exact Hrun|].
           apply (MK (S (S (S q)))); cbn [s_mops s_ws s_wr s_out s_mst set_main ctl length skipn]; autorewrite with gp; try reflexivity; try lia; try discriminate.
           ++ exact Hrest.
           ++ intros p0. destruct p0; repeat split.
           ++ intros p0 _. apply Hquiet.
        -- injection Hrun as <-.
           apply (MK (S (S q))); cbn [s_mops s_ws s_wr s_out s_mst set_main ctl length skipn]; autorewrite with gp; try reflexivity; try lia; try discriminate; try exact Hpos.
           ++ symmetry. exact Esk.
           ++ intros p0. destruct p0; repeat split.
           ++ intros p0 _. apply Hquiet.
Qed.

Hypothesis HTQ : 1 <= c_tdepth c.
Hypothesis HWQ : 1 <= c_wdepth c.

Lemma pstep_cinv : forall st pk st', cinv c st -> pstep c st pk = Some st' -> cinv c st'.
Proof.
  intros st [t w] st' D H. unfold pstep in H.
  assert (NS : forall x, cinv c x -> cinv c (next_step x)) by (intros x Dx; eapply cinv_core; [exact Dx|repeat split]).
  destruct t as [|t]; cbn [Nat.eqb] in H.
  - unfold main_step in H.
    destruct (s_mst st); try discriminate;
      (destruct (main_run _ c st w _) as [st2|] eqn:E; [|discriminate]; injection H as <-;
       apply NS; eapply main_run_cinv; eassumption).
  - destruct (worker_step c st (S t) w) as [st2|] eqn:E; [|discriminate]. injection H as <-.
    apply NS. eapply step_worker; [|exact D|exact E]. lia.
Qed.

Lemma nrun_idle_all : forall l, Forall (fun w => running w = false) l -> nrun l = 0.
Proof. induction 1; [reflexivity|]. rewrite nrun_cons, H, IHForall. reflexivity. Qed.

Lemma Forall_wof : forall (P : wstate -> Prop) ws p, Forall P ws -> Forall P (wof c ws p).
Proof.
  intros P ws [] H; unfold wof.
  - rewrite <- (firstn_skipn (c_N c) ws) in H. apply Forall_app in H. tauto.
  - apply Forall_skipn_. exact H.
Qed.

Lemma ctl_pot_zero : forall n k, co (flat_map (pot_op c) (skipn n (ctl c))) k = 0.
Proof.
  intros n k. apply (count_occ_not_In Nat.eq_dec). intros Hin. apply in_flat_map in Hin. destruct Hin as [op [Hop Hk]].
  assert (Hin2 : In op (ctl c)) by (eapply In_skipn_; exact Hop).
  destruct Hin2 as [<-|[<-|Hin2]]; try contradiction.
  pose proof (cfrees_free c) as F. rewrite Forall_forall in F. specialize (F op Hin2). destruct op; contradiction.
Qed.

Lemma csubs_pot : forall k, co (flat_map (pot_op c) (csubs c)) k = co (seq 0 (nb c)) k.
Proof.
  intros k. unfold csubs. destruct Hcomp as [E|[E Hn]]; rewrite E; cbn [flat_map pot_op pot_job app].
  - rewrite app_nil_r, Nat.sub_0_r. reflexivity.
  - rewrite app_nil_r. assert (1 <= nb c) by (unfold nb, comp_blocks; lia).
    replace (nb c) with (S (nb c - 1)) at 2 by lia. reflexivity.
Qed.

Lemma init_cinv : cinv c (init_state c).
Proof.
  assert (FI : Forall (fun w => running w = false) (repeat WIdle (S (c_N c)))).
  { apply Forall_forall. intros x Hx. apply repeat_spec in Hx. subst. reflexivity. }
  apply (CInv c _ (CInit 0) (fun _ => []) []); unfold init_state; cbn [s_mops s_ws s_wr s_out s_mst cops_of cpos_ok ctail skipn].
  - apply main_program_comp. exact Hcomp.
  - unfold csubs. destruct (c_kind c); cbn; lia.
  - apply repeat_length.
  - intros []; cbn [get_pool s_pt s_pw]; apply ring_create; assumption.
  - intros p. rewrite (nrun_idle_all _ (Forall_wof _ _ p FI)). destruct p; reflexivity.
  - intros []; reflexivity.
  - intros p. constructor.
  - intros p. apply Forall_wof. apply Forall_forall. intros x Hx. apply repeat_spec in Hx. subst. exact I.
  - intros k. rewrite (main_program_comp c Hcomp), flat_map_app. unfold co at 2. rewrite count_occ_app. fold (co (flat_map (pot_op c) (csubs c)) k).
    fold (co (flat_map (pot_op c) (ctl c)) k). rewrite csubs_pot. pose proof (ctl_pot_zero 0 k) as Z. cbn [skipn] in Z. rewrite Z.
    assert (W : flat_map (pot_w c) (repeat WIdle (S (c_N c))) = []).
    { generalize (S (c_N c)). intros n. induction n as [|n IHn]; [reflexivity|]. cbn [repeat flat_map pot_w app]. exact IHn. }
    rewrite W. unfold qsum. cbn. lia.
  - apply init_inv.
  - intros p Hq. exfalso. destruct p; cbn in Hq; lia.
  - intros []; cbn; discriminate.
  - discriminate.
Qed.

Lemma run_cinv : forall sched st st', cinv c st -> run c st sched = Some st' -> cinv c st'.
Proof.
  induction sched as [|pk sched IH]; intros st st' D H; cbn [run] in H.
  - injection H as <-. exact D.
  - destruct (pstep c st pk) as [st2|] eqn:E; [|discriminate]. eapply IH; [|exact H]. eapply pstep_cinv; eassumption.
Qed.

(* every reachable state: the output is a prefix of the sequential output (each block at most once, in rank order) *)
Theorem comp_prefix : forall sched st, run c (init_state c) sched = Some st ->
  exists e, s_out st = firstn e (sequential_output c).
Proof.
  intros sched st H. pose proof (run_cinv sched _ _ init_cinv H) as D. inv_cinv D.
  destruct HI as [e ds k _ _ _ _ _ _ _ _ Hout _]. exists e. exact Hout.
Qed.

(* a completed run: the output is exactly the sequential output, the write register is empty *)
Theorem comp_final : forall sched st, run c (init_state c) sched = Some st -> final st = true ->
  s_out st = sequential_output c /\ (forall s, In s (wr_buffers (s_wr st)) -> s = None) /\
  wr_expected (s_wr st) = Z.of_nat (nb c).
Proof.
  intros sched st H Hfin. pose proof (run_cinv sched _ _ init_cinv H) as D. inv_cinv D.
  unfold final in Hfin. apply andb_true_iff in Hfin. destruct Hfin as [Hm Hw].
  assert (Em : s_mst st = MFinished) by (destruct (s_mst st); try discriminate; reflexivity).
  specialize (HF Em). rewrite HF in Hops.
  destruct pos as [i|q]; cbn [cops_of] in Hops.
  { exfalso. destruct (skipn i (csubs c)); discriminate. }
  assert (Hq : 2 <= q).
  { destruct q as [|[|q]]; cbn [skipn ctl] in Hops; try discriminate. lia. }
  assert (P : Permutation arrived (seq 0 (nb c))).
  { apply (Permutation_count_occ Nat.eq_dec). intros k. specialize (HC k). rewrite HF in HC.
    destruct (HQ PT) as [Q1 _]; [cbn; lia|]. destruct (HQ PW) as [Q2 _]; [cbn; lia|].
    unfold qsum in HC. rewrite Q1, Q2 in HC.
    assert (W : flat_map (pot_w c) (s_ws st) = []).
    { clear - Hw. induction (s_ws st) as [|a l IH]; [reflexivity|]. cbn [forallb] in Hw. apply andb_true_iff in Hw. destruct Hw as [Ha Hl].
      destruct a; try discriminate. cbn [flat_map pot_w app]. apply IH. exact Hl. }
    rewrite W in HC. cbn in HC. fold (co arrived k). fold (co (seq 0 (nb c)) k). lia. }
  rewrite <- (seqout_length c) in P.
  destruct (inv_final _ _ _ _ HI P) as (A&B&C0&_). rewrite seqout_length in B. auto.
Qed.
End Comp.
