(* C20: the compressor side of the lz4file round trip.
   The compressor that lib/lz4file.c calls (LZ4F_compressBegin with 19 bytes of room, then
   LZ4F_compressUpdate per chunk of at most maxWriteSize bytes and LZ4F_compressEnd, both with
   LZ4F_compressBound(maxWriteSize, prefs) bytes of room) is instantiated with the byte model of
   lz4frame.c's compressor (Model/FrameC.v, C03/C07) to which the dstMaxSize_tooSmall tests of
   lz4frame.c - that FrameC.v leaves out - are added back, written with
   LZ4F_compressBound_internal of the size model (Model/FrameCSizes.v, C10).
   Proved: these tests never fire in an lz4file session (arithmetic of C10), every call
   succeeds, and the file is ONE frame that Spec.frame_decode (strict block judgment) decodes
   to the content (c07_conformant) - the contract [comp_contract] of Proofs/FileProofs.v, for
   contents below 2^64 bytes and preferences with a dictID below 2^32 ([comp_contract_open]).
   What remains assumed is the contract of the BLOCK compressors (blk_contract: C01/C06/C11/C12). *)
From Coq Require Import ZArith List Lia Bool Arith.
From LZ4V Require Import Spec.BlockSpec Spec.XXH32 Spec.FrameSpec Gen.Consts.
From LZ4V Require Import Model.FrameC Proofs.BlockHistExt Proofs.FrameCBytes Proofs.FrameCBlocks Proofs.FrameCProofs Proofs.FrameCTheorems.
From LZ4V Require Model.FrameCSizes Proofs.FrameCSizesProofs Proofs.FrameCSizesOps Proofs.FrameCSizesHist.
From LZ4V Require Import Model.File Proofs.FileProofs.
Import ListNotations.
Local Open Scope Z_scope.

Module SZ := LZ4V.Model.FrameCSizes.
Module SP := LZ4V.Proofs.FrameCSizesProofs.
Module SO := LZ4V.Proofs.FrameCSizesOps.
Module SH := LZ4V.Proofs.FrameCSizesHist.

(* ---- preferences: lz4file.c hands the same LZ4F_preferences_t to LZ4F_compressBound and LZ4F_compressBegin ---- *)
(* the fields the byte model reads, from the fields the size model reads (level 0, favorDecSpeed 0) *)
Definition cvp (p : SZ.prefs) : prefs :=
  mkPrefs (SZ.p_bsid p) (if SZ.p_linked p then 0 else 1) (SZ.bz (SZ.p_cchk p)) (SZ.p_csize p) (SZ.p_dictid p)
          (SZ.bz (SZ.p_bchk p)) 0 (SZ.bz (SZ.p_af p)) 0.
Definition cvpo (po : option SZ.prefs) : option prefs := option_map cvp po.
(* and back: what LZ4F_compressBound_internal reads in cctx->prefs *)
Definition szp (p : prefs) : SZ.prefs :=
  SZ.mkPrefs (p_bsid p) (p_blockMode p =? 0) (negb (p_ccrc p =? 0)) (p_contentSize p) (p_dictID p)
             (negb (p_bcrc p =? 0)) (negb (p_autoFlush p =? 0)).

Lemma szp_eff po : szp (eff_prefs (cvpo po)) = SO.begin_prefs po.
Proof.
  unfold eff_prefs, SO.begin_prefs, cvpo. destruct po as [p|]; cbn [option_map].
  - destruct p as [bs lk cc cs di bc af]. unfold cvp, szp, SZ.set_bsid, set_bsid. cbn.
    destruct (bs =? 0); destruct lk, cc, bc, af; reflexivity.
  - reflexivity.
Qed.

(* ---- the instance ---- *)
Section Inst.
  Variable blk : nat -> list byte -> list byte -> option (list byte).

  Definition lift (r : res * cctx) : fres (list byte) * cctx :=
    match r with
    | (Out o, c) => (FOk o, c)
    | (Err e, c) => (FErr e, c)
    | (OutOfFuel, c) => (FOutOfFuel, c)
    end.
  Definition tooSmall (c : cctx) : fres (list byte) * cctx := (FErr C10_ERR_dstMaxSize_tooSmall, c).

  (* LZ4F_compressBegin(cctx, dst, dstCapacity, prefs) *)
  Definition fc_begin (c : cctx) (po : option SZ.prefs) (cap : Z) : fres (list byte) * cctx :=
    if cap <? maxFHSize then tooSmall c else lift (compressBegin c (cvpo po) NoDict).
  (* LZ4F_compressUpdate(cctx, dst, dstCapacity, src, srcSize, NULL) *)
  Definition fc_update (c : cctx) (src : list byte) (cap : Z) : fres (list byte) * cctx :=
    if negb (c_stage c =? 1) then lift (compressUpdate blk c src)
    else if cap <? SZ.compressBound_internal (len src) (Some (szp (c_prefs c))) (len (c_tmp c)) then tooSmall c
    else lift (compressUpdate blk c src).
  (* LZ4F_compressEnd(cctx, dst, dstCapacity, NULL): LZ4F_flush, then 4 (+4) bytes *)
  Definition fc_end (c : cctx) (cap : Z) : fres (list byte) * cctx :=
    if (0 <? len (c_tmp c)) && (c_stage c =? 1) && (cap <? len (c_tmp c) + BHSize + BFSize) then tooSmall c
    else match flush blk c with
         | (Out o, _) =>
           let cap' := cap - len o in
           if cap' <? 4 then tooSmall c
           else if (p_ccrc (c_prefs c) =? FC_contentChecksumEnabled) && (cap' <? 8) then tooSmall c
           else lift (compressEnd blk c)
         | _ => lift (compressEnd blk c)
         end.
End Inst.

(* ---- capacities: LZ4F_compressBound(maxWriteSize, prefs) covers every call of an lz4file session ---- *)
Lemma core_false_one c bs n : 1 < bs -> 1 <= n <= bs -> SP.core false c bs n (bs - 1) = BHSize + BFSize * SZ.bz c + bs.
Proof.
  intros Hb Hn. unfold SP.core. cbn [orb].
  replace (n =? 0) with false by (symmetry; apply Z.eqb_neq; lia).
  assert (Hd : (n + (bs - 1)) / bs = 1) by (symmetry; apply (Z.div_unique _ _ 1 (n - 1)); lia).
  rewrite Hd. cbn [Z.ltb Z.compare]. lia.
Qed.

Lemma cb_mono_small q n :
  SZ.valid_bsid0 (SZ.p_bsid q) = true -> 0 <= n <= SZ.getBlockSize (SZ.p_bsid q) ->
  SZ.compressBound n (Some q) <= SZ.compressBound (SZ.getBlockSize (SZ.p_bsid q)) (Some q).
Proof.
  intros Hv Hn. pose proof (SP.getBlockSize_vbs _ Hv) as Hb. apply SP.vbs_pos in Hb.
  set (bs := SZ.getBlockSize (SZ.p_bsid q)) in *.
  rewrite !SP.cb_eq by (auto; lia). fold bs.
  destruct (SZ.p_af q).
  - rewrite !SP.core_af_small by lia. destruct (0 <? n) eqn:E1; destruct (0 <? bs) eqn:E2; unfold BHSize, BFSize; destruct (SZ.p_bchk q); cbn [SZ.bz]; lia.
  - rewrite (core_false_one _ bs bs) by lia.
    destruct (Z.eq_dec n 0) as [->|Hn0].
    + rewrite SP.core_zero by lia. destruct (0 <? bs - 1); unfold BHSize, BFSize; destruct (SZ.p_bchk q); cbn [SZ.bz]; lia.
    + rewrite core_false_one by lia. lia.
Qed.

Lemma maxWrite_cases po mw : maxWrite_of po = Some mw ->
  SP.prefs_ok po /\ Z.of_nat mw = SZ.getBlockSize (SZ.p_bsid (SO.begin_prefs po)).
Proof.
  unfold maxWrite_of, SP.prefs_ok. destruct po as [p|].
  - unfold bufsize_of_bsid, C10_bsid_default, C10_bsid_64KB, C10_bsid_256KB, C10_bsid_1MB, C10_bsid_4MB.
    unfold SO.begin_prefs. destruct p as [bs lk cc cs di bc af]. cbn [SZ.p_bsid SZ.set_bsid].
    assert (K : forall k v, bs = k -> SZ.valid_bsid0 k = true ->
                v = SZ.getBlockSize (SZ.p_bsid (if k =? 0 then SZ.mkPrefs LZ4F_BLOCKSIZEID_DEFAULT lk cc cs di bc af else SZ.mkPrefs k lk cc cs di bc af)) ->
                0 <= v -> Some (Z.to_nat v) = Some mw ->
                SZ.valid_bsid0 bs = true /\
                Z.of_nat mw = SZ.getBlockSize (SZ.p_bsid (if bs =? 0 then SZ.mkPrefs LZ4F_BLOCKSIZEID_DEFAULT lk cc cs di bc af else SZ.mkPrefs bs lk cc cs di bc af))).
    { intros k v -> Hv Hg H0 H. injection H as <-. split; [exact Hv|]. rewrite Z2Nat.id by exact H0. exact Hg. }
    destruct (bs =? 0) eqn:E0; [apply Z.eqb_eq in E0; cbn [orb]; apply (K 0 (64 * 1024)); [exact E0|reflexivity|reflexivity|lia]|].
    cbn [orb].
    destruct (bs =? 4) eqn:E4; [apply Z.eqb_eq in E4; apply (K 4 (64 * 1024)); [exact E4|reflexivity|reflexivity|lia]|].
    destruct (bs =? 5) eqn:E5; [apply Z.eqb_eq in E5; apply (K 5 (256 * 1024)); [exact E5|reflexivity|reflexivity|lia]|].
    destruct (bs =? 6) eqn:E6; [apply Z.eqb_eq in E6; apply (K 6 (1 * 1024 * 1024)); [exact E6|reflexivity|reflexivity|lia]|].
    destruct (bs =? 7) eqn:E7; [apply Z.eqb_eq in E7; apply (K 7 (4 * 1024 * 1024)); [exact E7|reflexivity|reflexivity|lia]|].
    discriminate.
  - intro H. apply (f_equal (fun o => match o with Some n => Z.of_nat n | None => 0 end)) in H. cbv beta iota in H.
    rewrite Z2Nat.id in H by lia. split; [exact I|]. rewrite <- H. reflexivity.
Qed.

Lemma cb_po_ge po n : SP.prefs_ok po -> 0 <= n ->
  SZ.compressBound n (Some (SO.begin_prefs po)) <= SZ.compressBound n po.
Proof.
  intros Hp Hn. destruct po as [p|].
  - destruct (SH.cb_begin_prefs p n Hp Hn) as [E _]. rewrite E. lia.
  - apply SO.cb_null_ge. exact Hn.
Qed.

(* the size model's view of a context with t bytes buffered *)
Definition szc (q : SZ.prefs) (t : Z) : SZ.cctx := SZ.mkCctx q 1 (SZ.getBlockSize (SZ.p_bsid q)) t 0 false.
Lemma szc_inv q t : SZ.valid_bsid0 (SZ.p_bsid q) = true -> 0 <= t < SZ.getBlockSize (SZ.p_bsid q) ->
  (SZ.p_af q = true -> t = 0) -> SP.Inv (szc q t).
Proof. intros Hv Ht Haf. unfold SP.Inv, szc. cbn. repeat split; auto; lia. Qed.

Lemma cap_update po mw n t :
  maxWrite_of po = Some mw ->
  let q := SO.begin_prefs po in
  0 <= n <= Z.of_nat mw -> 0 <= t < Z.of_nat mw -> (SZ.p_af q = true -> t = 0) ->
  SZ.compressBound_internal n (Some q) t <= SZ.compressBound (Z.of_nat mw) po.
Proof.
  intros Hmw q Hn Ht Haf. destruct (maxWrite_cases po mw Hmw) as [Hp Hbs].
  assert (Hv : SZ.valid_bsid0 (SZ.p_bsid q) = true) by (apply SP.bsid_in_range_valid0, SO.begin_prefs_range; exact Hp).
  fold q in Hbs. rewrite Hbs in *.
  pose proof (SO.cbi_le_cb (szc q t) n (szc_inv q t Hv Ht Haf) eq_refl ltac:(lia)) as H1. cbn [szc SZ.c_prefs SZ.c_tmpInSize] in H1.
  pose proof (cb_mono_small q n Hv Hn) as H2.
  pose proof (cb_po_ge po (SZ.getBlockSize (SZ.p_bsid q)) Hp ltac:(lia)) as H3. fold q in H3. lia.
Qed.

Lemma cap_end po mw t :
  maxWrite_of po = Some mw ->
  let q := SO.begin_prefs po in
  0 <= t < Z.of_nat mw -> (SZ.p_af q = true -> t = 0) ->
  (if 0 <? t then SP.bfull (SZ.p_bchk q) t else 0) + SP.frameEnd q <= SZ.compressBound (Z.of_nat mw) po.
Proof.
  intros Hmw q Ht Haf. destruct (maxWrite_cases po mw Hmw) as [Hp Hbs].
  assert (Hv : SZ.valid_bsid0 (SZ.p_bsid q) = true) by (apply SP.bsid_in_range_valid0, SO.begin_prefs_range; exact Hp).
  fold q in Hbs. rewrite Hbs in *.
  pose proof (SO.cb0_ge (szc q t) (szc_inv q t Hv Ht Haf)) as H1. cbn [szc SZ.c_prefs SZ.c_tmpInSize] in H1.
  pose proof (cb_mono_small q 0 Hv ltac:(lia)) as H2.
  pose proof (cb_po_ge po (SZ.getBlockSize (SZ.p_bsid q)) Hp ltac:(lia)) as H3. fold q in H3. lia.
Qed.

(* ---- the byte model's calls succeed ---- *)
Section Calls.
  Variable blk : nat -> list byte -> list byte -> option (list byte).
  Hypothesis Hblk : blk_contract strict_valid blk.

  Notation InvC := (Inv strict_valid).

  Lemma begin_out c0 po : prefs_opt_ok po -> exists hdr c1, compressBegin c0 po NoDict = (Out hdr, c1).
  Proof.
    intros Hpo. unfold compressBegin, compressBegin_internal.
    set (p0 := match po with Some p => p | None => prefs_null end).
    assert (Hp0 : prefs_ok p0) by (unfold p0; destruct po; [exact Hpo|exact prefs_null_ok]).
    destruct Hp0 as (Hb & _).
    assert (HE : isError (getBlockSize (p_bsid (if p_bsid p0 =? 0 then set_bsid p0 LZ4F_BLOCKSIZEID_DEFAULT else p0))) = false).
    { destruct Hb as [Hb|Hb].
      - rewrite Hb. reflexivity.
      - replace (p_bsid p0 =? 0) with false by (symmetry; apply Z.eqb_neq; lia).
        assert (Hc : p_bsid p0 = 4 \/ p_bsid p0 = 5 \/ p_bsid p0 = 6 \/ p_bsid p0 = 7) by lia.
        destruct Hc as [->|[->|[->| ->]]]; reflexivity. }
    rewrite HE. eexists _, _. reflexivity.
  Qed.

  Lemma update_out dk p maxb X c bl src bc :
    prefs_norm p -> 0 < maxb < 2147483648 -> InvC dk p maxb X c bl ->
    exists o c', compressUpdateImpl blk c src bc = (Out o, c').
  Proof.
    intros Hp Hmax HI.
    pose proof (update_never_out_of_fuel blk c src bc) as NF.
    assert (Hst : c_stage c = 1) by (destruct HI as [[? Hs ? ? ? ? ?] ? ? ? ? ?]; exact Hs).
    assert (Hmb : c_maxBlock c = maxb) by (destruct HI as [[? ? Hm ? ? ? ?] ? ? ? ? ?]; exact Hm).
    specialize (NF ltac:(lia)).
    destruct (compressUpdateImpl blk c src bc) as [r c'] eqn:E. cbn [fst] in NF.
    destruct r as [e|o|]; [exfalso|eexists _, _; reflexivity|contradiction].
    unfold compressUpdateImpl in E. cbv zeta in E. rewrite Hst in E. cbn [Z.eqb Pos.eqb negb] in E.
    destruct (negb (c_mode c =? bc)).
    - destruct (flush blk c) as [rf cf] eqn:Ef.
      destruct (flush_inv blk strict_valid Hblk strict_valid_ext dk p maxb X c bl rf cf Hp Hmax HI Ef) as (bl' & -> & _).
      revert E.
      destruct (if 0 <? len (c_tmp (set_mode cf bc)) then _ else _) as [[o1 c1] rest1].
      destruct (fullBlocks blk _ c1 _ _ rest1) as [[[o2 c2] rest2]|]; [|discriminate].
      destruct (if negb (p_autoFlush (c_prefs c) =? 0) && (0 <? len rest2) then _ else _) as [[o3 c3] rest3]. discriminate.
    - revert E.
      destruct (if 0 <? len (c_tmp c) then _ else _) as [[o1 c1] rest1].
      destruct (fullBlocks blk _ c1 _ _ rest1) as [[[o2 c2] rest2]|]; [|discriminate].
      destruct (if negb (p_autoFlush (c_prefs c) =? 0) && (0 <? len rest2) then _ else _) as [[o3 c3] rest3]. discriminate.
  Qed.

  Lemma end_out dk p maxb X c bl :
    prefs_norm p -> 0 < maxb < 2147483648 -> InvC dk p maxb X c bl -> len X < U64 ->
    (p_contentSize p = 0 \/ p_contentSize p = len X) ->
    exists tail c', compressEnd blk c = (Out tail, c').
  Proof.
    intros Hp Hmax HI HX Hcs. unfold compressEnd.
    destruct (flush blk c) as [r c1] eqn:Ef.
    destruct (flush_inv blk strict_valid Hblk strict_valid_ext dk p maxb X c bl r c1 Hp Hmax HI Ef) as [bl' [Hr [HI1 [Ht1 _]]]].
    subst r. cbv zeta.
    destruct HI1 as [[H1 H2 H3 H4 H5 H6 H7] HX1 Htmp1 Hxxh1 Htot1 Hmode1].
    assert (Hpr : c_prefs (set_stage c1 0) = p) by (cbn; exact H1).
    assert (Htot2 : c_totalIn (set_stage c1 0) = c_totalIn c1) by reflexivity.
    rewrite Hpr, Htot2.
    destruct (Z.eqb_spec (p_contentSize p) 0) as [E0|E0]; [cbn [negb andb]; eexists _, _; reflexivity|].
    specialize (Htot1 E0). pose proof (len_nonneg X).
    rewrite Z.mod_small in Htot1 by lia. rewrite Htot1.
    destruct Hcs as [Hcs|Hcs]; [contradiction|]. rewrite Hcs, Z.eqb_refl. cbn [negb andb]. eexists _, _; reflexivity.
  Qed.
End Calls.

(* ---- a whole lz4file write session through the instance ---- *)
Section Session.
  Variable blk : nat -> list byte -> list byte -> option (list byte).
  Hypothesis Hblk : blk_contract strict_valid blk.
  Notation InvC := (Inv strict_valid).

  (* what the model keeps in tmpIn: nothing under autoFlush *)
  Definition afJ (c : cctx) : Prop := p_autoFlush (c_prefs c) <> 0 -> c_tmp c = [].

  Definition keeps (c c' : cctx) : Prop := c_tmp c' = c_tmp c /\ c_prefs c' = c_prefs c /\ c_mode c' = c_mode c.
  Lemma makeBlock_keeps c src f : keeps c (snd (makeBlock blk c src f)).
  Proof. unfold makeBlock, keeps. cbn. auto. Qed.
  Lemma fullBlocks_keeps : forall fuel c f bs src o c' r,
    fullBlocks blk fuel c f bs src = Some (o, c', r) -> keeps c c'.
  Proof.
    induction fuel as [|k IH]; intros c f bs src o c' r H; [discriminate H|]. cbn [fullBlocks] in H.
    destruct (bs <=? len src); [|inversion H; subst; unfold keeps; auto].
    destruct (makeBlock blk c (firstn (Z.to_nat bs) src) f) as [o1 c1] eqn:EM.
    pose proof (makeBlock_keeps c (firstn (Z.to_nat bs) src) f) as K. rewrite EM in K. cbn [snd] in K.
    destruct (fullBlocks blk k c1 f bs (skipn (Z.to_nat bs) src)) as [[[o2 c2] r2]|] eqn:EF; [|discriminate H].
    inversion H; subst. destruct (IH _ _ _ _ _ _ _ EF) as (A & B & C). destruct K as (K1 & K2 & K3). unfold keeps. repeat split; congruence.
  Qed.

  Lemma update_afJ c src o c' :
    c_mode c = FC_LZ4B_COMPRESSED -> afJ c -> compressUpdate blk c src = (Out o, c') -> afJ c' /\ c_mode c' = FC_LZ4B_COMPRESSED.
  Proof.
    intros Hmode HJ H. unfold compressUpdate, compressUpdateImpl in H. cbv zeta in H.
    destruct (negb (c_stage c =? 1)); [discriminate H|].
    rewrite Hmode in H. change (FC_LZ4B_COMPRESSED =? FC_LZ4B_COMPRESSED) with true in H. cbn [negb] in H.
    unfold afJ in *.
    destruct (Z.eq_dec (p_autoFlush (c_prefs c)) 0) as [Ea|Ea].
    - revert H.
      destruct (if 0 <? len (c_tmp c) then _ else _) as [[o1 c1] rest1] eqn:E1.
      assert (K1 : c_prefs c1 = c_prefs c /\ c_mode c1 = c_mode c).
      { destruct (0 <? len (c_tmp c)); [|inversion E1; subst; auto].
        destruct (len src <? c_maxBlock c - len (c_tmp c)); [inversion E1; subst; cbn; auto|].
        destruct (makeBlock blk c _ _) as [om cm] eqn:EM. inversion E1; subst. unfold makeBlock in EM. inversion EM; subst. cbn. auto. }
      destruct (fullBlocks blk _ c1 _ _ rest1) as [[[o2 c2] rest2]|] eqn:EF; [|discriminate].
      destruct (fullBlocks_keeps _ _ _ _ _ _ _ _ EF) as (_ & B & C).
      rewrite Ea. cbn [Z.eqb negb andb].
      intro H. inversion H; subst c'. destruct K1 as [K1 K2].
      destruct (0 <? len rest2); cbn; (split; [intro Hc; exfalso; apply Hc; congruence|congruence]).
    - specialize (HJ Ea). rewrite HJ in H. cbn [len length Z.of_nat Z.ltb Z.compare] in H.
      revert H.
      destruct (fullBlocks blk _ c _ _ src) as [[[o2 c2] rest2]|] eqn:EF; [|discriminate].
      destruct (fullBlocks_keeps _ _ _ _ _ _ _ _ EF) as (A & B & C).
      replace (negb (p_autoFlush (c_prefs c) =? 0)) with true by (symmetry; apply negb_true_iff, Z.eqb_neq; exact Ea).
      cbn [andb].
      destruct (0 <? len rest2) eqn:Er.
      + intro H. inversion H; subst c'. cbn. split; [intros _; rewrite A, HJ; reflexivity|congruence].
      + intro H. inversion H; subst c'. rewrite Er. cbn. split; [intros _; rewrite A, HJ; reflexivity|congruence].
  Qed.

  Lemma sz_getBlockSize_bsid b m : bsid_size b = Some m -> SZ.getBlockSize b = m.
  Proof.
    unfold bsid_size.
    destruct (b =? 4) eqn:E4; [apply Z.eqb_eq in E4; subst; intro H; inversion H; reflexivity|].
    destruct (b =? 5) eqn:E5; [apply Z.eqb_eq in E5; subst; intro H; inversion H; reflexivity|].
    destruct (b =? 6) eqn:E6; [apply Z.eqb_eq in E6; subst; intro H; inversion H; reflexivity|].
    destruct (b =? 7) eqn:E7; [apply Z.eqb_eq in E7; subst; intro H; inversion H; reflexivity|]. discriminate.
  Qed.
  Lemma mop_inputs_updates chunks : mop_inputs (map MUpdate chunks) = concat chunks.
  Proof. induction chunks as [|ch r IH]; [reflexivity|]. cbn. rewrite IH. reflexivity. Qed.

  (* LZ4F_flush writes at most a block header, the buffered bytes and a block checksum *)
  Lemma flush_len c o c1 : flush blk c = (Out o, c1) ->
    len o <= (if 0 <? len (c_tmp c) then 4 + len (c_tmp c) + (if p_bcrc (c_prefs c) =? 0 then 0 else 4) else 0).
  Proof.
    unfold flush. pose proof (len_nonneg (c_tmp c)) as H0.
    destruct (len (c_tmp c) =? 0) eqn:E0.
    - intro H. inversion H; subst. apply Z.eqb_eq in E0. rewrite E0. cbn. lia.
    - apply Z.eqb_neq in E0. destruct (negb (c_stage c =? 1)); [discriminate|].
      unfold makeBlock. intro H. inversion H; subst o. clear H.
      replace (0 <? len (c_tmp c)) with true by (symmetry; apply Z.ltb_lt; lia).
      rewrite !len_app.
      set (cres := match selectCompression _ _ _ with CF_none => None | _ => _ end).
      set (cSize := match cres with Some cb => len cb | None => 0 end).
      assert (Hh : forall v, len (writeLE32 v) = 4) by reflexivity.
      assert (Hst : len (if (cSize =? 0) || (len (c_tmp c) <=? cSize) then c_tmp c else match cres with Some cb => cb | None => [] end) <= len (c_tmp c)).
      { destruct ((cSize =? 0) || (len (c_tmp c) <=? cSize)) eqn:E; [lia|].
        apply orb_false_iff in E. destruct E as [_ E]. apply Z.leb_gt in E. unfold cSize in E. destruct cres; [lia|cbn; lia]. }
      destruct ((cSize =? 0) || (len (c_tmp c) <=? cSize)); rewrite Hh; destruct (negb (p_bcrc (c_prefs c) =? 0)) eqn:Ec;
        try rewrite Hh; try (apply negb_true_iff in Ec; rewrite Ec); try (apply negb_false_iff in Ec; rewrite Ec); cbn [len length Z.of_nat]; lia.
  Qed.

  Definition prefs_wf (po : option SZ.prefs) : Prop :=
    match po with Some p => 0 <= SZ.p_dictid p < 4294967296 | None => True end.

  Lemma cvpo_ok po mw content :
    maxWrite_of po = Some mw -> prefs_wf po -> FileProofs.csize_ok po content -> Z.of_nat (length content) < U64 ->
    prefs_opt_ok (cvpo po).
  Proof.
    intros Hmw Hwf Hcs HX. destruct (maxWrite_cases po mw Hmw) as [Hp _].
    destruct po as [p|]; [|exact I]. cbn [cvpo option_map prefs_opt_ok]. unfold prefs_ok, cvp. cbn.
    unfold SP.prefs_ok in Hp. apply SP.valid_bsid0_cases in Hp. cbn in Hwf, Hcs.
    split; [lia|]. split; [destruct (SZ.p_linked p); auto|]. split; [destruct (SZ.p_cchk p); cbn; auto|].
    split; [destruct (SZ.p_bchk p); cbn; auto|]. split; [unfold U64 in HX; lia|exact Hwf].
  Qed.

  (* the update loop of LZ4F_write, chunk by chunk *)
  Lemma updates_run po mw p maxb :
    maxWrite_of po = Some mw -> p = eff_prefs (cvpo po) -> prefs_norm p -> bsid_size (p_bsid p) = Some maxb ->
    forall chunks X c bl,
      InvC NoDict p maxb X c bl -> afJ c -> c_mode c = FC_LZ4B_COMPRESSED ->
      Forall (fun ch => (1 <= length ch <= mw)%nat) chunks ->
      exists outs c2 bl2,
        run_updates cctx (fc_update blk) c chunks (SZ.compressBound (Z.of_nat mw) po) = (Some outs, c2) /\
        run_mops blk c (map MUpdate chunks) = Some (concat outs, c2) /\
        InvC NoDict p maxb (X ++ concat chunks) c2 bl2 /\ afJ c2 /\ c_mode c2 = FC_LZ4B_COMPRESSED.
  Proof.
    intros Hmw Hp Hnorm Hmaxb.
    destruct (maxWrite_cases po mw Hmw) as [Hpo Hbs].
    assert (Hq : szp p = SO.begin_prefs po) by (rewrite Hp; apply szp_eff).
    assert (Hmb : Z.of_nat mw = maxb).
    { rewrite Hbs, <- Hq. cbn [szp SZ.p_bsid]. apply sz_getBlockSize_bsid. exact Hmaxb. }
    pose proof (bsid_size_range _ _ Hmaxb) as Hmax.
    induction chunks as [|ch r IH]; intros X c bl HI HJ Hm Hall.
    - exists [], c, bl. cbn. rewrite app_nil_r. auto.
    - apply Forall_cons_iff in Hall. destruct Hall as [Hch Hr].
      assert (Hst : c_stage c = 1) by (destruct HI as [[? Hs ? ? ? ? ?] ? ? ? ? ?]; exact Hs).
      assert (Hpr : c_prefs c = p) by (destruct HI as [[Hs ? ? ? ? ? ?] ? ? ? ? ?]; exact Hs).
      assert (Htmp : len (c_tmp c) < maxb) by (destruct HI as [? ? Ht ? ? ?]; exact Ht).
      cbn [run_updates map run_mops step_mop].
      unfold fc_update at 1. rewrite Hst. cbn [Z.eqb Pos.eqb negb].
      (* the capacity test of LZ4F_compressUpdate passes *)
      assert (Hcap : (SZ.compressBound (Z.of_nat mw) po <? SZ.compressBound_internal (len ch) (Some (szp (c_prefs c))) (len (c_tmp c))) = false).
      { apply Z.ltb_ge. rewrite Hpr, Hq. apply cap_update; auto.
        - unfold len. lia.
        - pose proof (len_nonneg (c_tmp c)). lia.
        - intro Haf. unfold afJ in HJ. rewrite Hpr in HJ. rewrite <- Hq in Haf. cbn [szp SZ.p_af] in Haf.
          apply negb_true_iff, Z.eqb_neq in Haf. rewrite (HJ Haf). reflexivity. }
      rewrite Hcap.
      destruct (update_out blk Hblk NoDict p maxb X c bl ch FC_LZ4B_COMPRESSED Hnorm Hmax HI) as (o & c' & Hu).
      fold (compressUpdate blk c ch) in Hu. rewrite Hu. cbn [lift].
      destruct (update_inv blk strict_valid Hblk strict_valid_ext NoDict p maxb X c bl ch FC_LZ4B_COMPRESSED o c' Hnorm Hmax HI ltac:(intros _; reflexivity) Hu)
        as (bl' & _ & HI').
      destruct (update_afJ c ch o c' Hm HJ Hu) as [HJ' Hm'].
      destruct (IH (X ++ ch) c' (bl ++ bl') HI' HJ' Hm' Hr) as (outs & c2 & bl2 & R1 & R2 & R3 & R4 & R5).
      exists (o :: outs), c2, bl2. rewrite R1, R2. cbn [concat]. rewrite <- app_assoc in R3. auto.
  Qed.

  (* [comp_contract] of Proofs/FileProofs.v for contents below 2^64 bytes and a dictID below 2^32 *)
  Definition comp_contract_open (cst : Type) (cst0 : cst)
             (cBegin : cst -> option SZ.prefs -> Z -> fres (list byte) * cst)
             (cUpdate : cst -> list byte -> Z -> fres (list byte) * cst)
             (cEnd : cst -> Z -> fres (list byte) * cst) : Prop :=
    forall po mw chunks,
      maxWrite_of po = Some mw ->
      Forall (fun ch => (1 <= length ch <= mw)%nat) chunks ->
      FileProofs.csize_ok po (concat chunks) ->
      prefs_wf po -> Z.of_nat (length (concat chunks)) < U64 ->
      let cap := SZ.compressBound (Z.of_nat mw) po in
      exists hdr s1 outs s2 tail s3,
        cBegin cst0 po LZ4F_HEADER_SIZE_MAX = (FOk hdr, s1) /\
        run_updates cst cUpdate s1 chunks cap = (Some outs, s2) /\
        cEnd s2 cap = (FOk tail, s3) /\
        frame_ok (hdr ++ concat outs ++ tail) (concat chunks).

  Theorem fc_comp_contract_open : comp_contract_open cctx cctx_zero fc_begin (fc_update blk) (fc_end blk).
  Proof.
    intros po mw chunks Hmw Hall Hcs Hwf HX cap.
    pose proof (cvpo_ok po mw (concat chunks) Hmw Hwf Hcs HX) as Hpo.
    destruct (begin_out cctx_zero (cvpo po) Hpo) as (hdr & c1 & HB).
    destruct (begin_inv strict_valid cctx_zero (cvpo po) NoDict hdr c1 Hpo HB) as (p & maxb & Hp & Hnorm & Hmaxb & Hhdr & HI1).
    pose proof (bsid_size_range _ _ Hmaxb) as Hmax.
    destruct (maxWrite_cases po mw Hmw) as [Hpok Hbs].
    assert (Hq : szp p = SO.begin_prefs po) by (rewrite Hp; apply szp_eff).
    assert (Hmb : Z.of_nat mw = maxb).
    { rewrite Hbs, <- Hq. cbn [szp SZ.p_bsid]. apply sz_getBlockSize_bsid. exact Hmaxb. }
    (* the context LZ4F_compressBegin leaves: nothing buffered, compressed mode *)
    assert (Ht1 : c_tmp c1 = []).
    { destruct HI1 as [_ HX1 _ _ _ _]. cbn in HX1. symmetry. exact HX1. }
    assert (Hm1 : c_mode c1 = FC_LZ4B_COMPRESSED).
    { revert HB. unfold compressBegin, compressBegin_internal. destruct (isError _); [discriminate|].
      cbn. intro H. inversion H; subst. reflexivity. }
    assert (HJ1 : afJ c1) by (intros _; exact Ht1).
    destruct (updates_run po mw p maxb Hmw Hp Hnorm Hmaxb chunks [] c1 [] HI1 HJ1 Hm1 Hall)
      as (outs & c2 & bl2 & R1 & R2 & HI2 & HJ2 & Hm2).
    cbn [app] in HI2.
    assert (Hlen : len (concat chunks) < U64) by exact HX.
    assert (Hcsz : p_contentSize p = 0 \/ p_contentSize p = len (concat chunks)).
    { rewrite Hp. unfold eff_prefs, cvpo. destruct po as [q|]; cbn [option_map]; [|left; reflexivity].
      cbn in Hcs. destruct (p_bsid (cvp q) =? 0); cbn; exact Hcs. }
    destruct (end_out blk Hblk NoDict p maxb (concat chunks) c2 bl2 Hnorm Hmax HI2 Hlen Hcsz) as (tail & c3 & HE).
    exists hdr, c1, outs, c2, tail, c3.
    split.
    { unfold fc_begin. change (LZ4F_HEADER_SIZE_MAX <? maxFHSize) with false. cbv iota. rewrite HB. reflexivity. }
    split; [exact R1|]. split.
    { (* the capacity tests of LZ4F_compressEnd pass *)
      assert (Hst : c_stage c2 = 1) by (destruct HI2 as [[? Hs ? ? ? ? ?] ? ? ? ? ?]; exact Hs).
      assert (Hpr : c_prefs c2 = p) by (destruct HI2 as [[Hs ? ? ? ? ? ?] ? ? ? ? ?]; exact Hs).
      assert (Htmp : len (c_tmp c2) < maxb) by (destruct HI2 as [? ? Ht ? ? ?]; exact Ht).
      pose proof (len_nonneg (c_tmp c2)) as Ht0.
      assert (Haf : SZ.p_af (SO.begin_prefs po) = true -> len (c_tmp c2) = 0).
      { intro A. rewrite <- Hq in A. cbn [szp SZ.p_af] in A. apply negb_true_iff, Z.eqb_neq in A.
        unfold afJ in HJ2. rewrite Hpr in HJ2. rewrite (HJ2 A). reflexivity. }
      pose proof (cap_end po mw (len (c_tmp c2)) Hmw ltac:(lia) Haf) as CE. cbv zeta in CE. fold cap in CE.
      rewrite <- Hq in CE. cbn [szp SZ.p_bchk] in CE. unfold SP.frameEnd, SP.bfull in CE. cbn [szp SZ.p_cchk] in CE.
      pose proof Hnorm as [(_ & _ & Hcc & Hbc & _) _].
      unfold fc_end. rewrite Hst, Hpr. cbn [Z.eqb Pos.eqb andb].
      destruct (flush blk c2) as [rf cf] eqn:Ef.
      destruct (flush_inv blk strict_valid Hblk strict_valid_ext NoDict p maxb _ c2 bl2 rf cf Hnorm Hmax HI2 Ef) as (blf & -> & _).
      pose proof (flush_len c2 _ cf Ef) as FL. rewrite Hpr in FL.
      unfold BHSize, BFSize, FC_contentChecksumEnabled in *.
      assert (C1 : ((0 <? len (c_tmp c2)) && true && (cap <? len (c_tmp c2) + 4 + 4)) = false).
      { destruct (0 <? len (c_tmp c2)) eqn:E; [|reflexivity]. cbn [andb]. apply Z.ltb_ge.
        destruct (negb (p_bcrc p =? 0)), (negb (p_ccrc p =? 0)); cbn [SZ.bz] in CE; lia. }
      rewrite C1.
      assert (C2 : (cap - len (enc_blocks (p_bcrc p =? 1) blf) <? 4) = false).
      { apply Z.ltb_ge. destruct (0 <? len (c_tmp c2)); destruct Hbc as [Hbc|Hbc]; rewrite Hbc in *;
          cbn [Z.eqb Pos.eqb negb SZ.bz] in FL, CE |- *; destruct (negb (p_ccrc p =? 0)); cbn [SZ.bz] in CE; lia. }
      rewrite C2.
      assert (C3 : ((p_ccrc p =? 1) && (cap - len (enc_blocks (p_bcrc p =? 1) blf) <? 8)) = false).
      { destruct Hcc as [Hcc|Hcc]; rewrite Hcc in *; [reflexivity|]. cbn [Z.eqb Pos.eqb andb]. apply Z.ltb_ge.
        destruct (0 <? len (c_tmp c2)); destruct Hbc as [Hbc|Hbc]; rewrite Hbc in *;
          cbn [Z.eqb Pos.eqb negb SZ.bz] in FL, CE |- *; lia. }
      rewrite C3. rewrite HE. reflexivity. }
    (* one frame, decoded by the format specification to the content *)
    assert (HS : session blk cctx_zero (cvpo po) NoDict (map MUpdate chunks) = Some (hdr ++ concat outs ++ tail, concat chunks)).
    { unfold session. rewrite HB, R2, HE. rewrite mop_inputs_updates. reflexivity. }
    assert (Hunc : uncompressed_only_if_independent (cvpo po) (map MUpdate chunks)).
    { intros m Hin Hu. apply in_map_iff in Hin. destruct Hin as (x & <- & _). discriminate Hu. }
    destruct (c07_conformant blk Hblk cctx_zero (cvpo po) NoDict (map MUpdate chunks) (hdr ++ concat outs ++ tail) (concat chunks) Hpo Hunc Hlen HS) as (mb & bl & Hc).
    cbv zeta in Hc. unfold frame_ok. apply Hc.
  Qed.
End Session.

(* ================================================================== the round trip, both sides discharged *)
From LZ4V Require Import Proofs.FileDecInst.

Section RoundTripOpen.
  Variable cst : Type.
  Variable cst0 : cst.
  Variable cBegin : cst -> option SZ.prefs -> Z -> fres (list byte) * cst.
  Variable cUpdate : cst -> list byte -> Z -> fres (list byte) * cst.
  Variable cEnd : cst -> Z -> fres (list byte) * cst.

  (* the write side of Proofs/FileProofs.v from the bounded contract *)
  Lemma write_session_open_ok : comp_contract_open cst cst0 cBegin cUpdate cEnd ->
    forall po mw bufs, maxWrite_of po = Some mw -> FileProofs.csize_ok po (concat bufs) ->
    prefs_wf po -> Z.of_nat (length (concat bufs)) < U64 ->
    exists file,
      write_session cst cst0 cBegin cUpdate cEnd po bufs = (FOk (map (fun b => FOk (length b)) bufs), file) /\
      frame_ok file (concat bufs).
  Proof.
    intros Hc po mw bufs Hmw Hcs Hwf HX.
    pose proof (maxWrite_pos po mw Hmw) as Hpos.
    destruct (all_chunks_spec mw bufs Hpos) as [Hcat Hall].
    destruct (Hc po mw (all_chunks mw bufs) Hmw Hall) as (hdr & s1 & outs & s2 & tail & s3 & Hb & Hu & He & Hf);
      try (rewrite Hcat; assumption); try assumption.
    exists (hdr ++ concat outs ++ tail). rewrite Hcat in Hf. split; [|exact Hf].
    unfold write_session, writeOpen. fold (maxWrite_of po). rewrite Hmw, Hb.
    rewrite (write_all_run cst cUpdate bufs _ ([] ++ hdr) outs s2); cbn [w_maxWrite w_dstMax w_err w_c]; auto.
    unfold writeClose. cbn [w_err w_c w_dstMax]. rewrite He. rewrite app_nil_l, app_assoc. reflexivity.
  Qed.

  (* C20_roundtrip from the two contracts as lz4file.c uses them *)
  Theorem roundtrip_open2 : forall dst dst0 dGetFrameInfo dDecompress dpos,
    comp_contract_open cst cst0 cBegin cUpdate cEnd -> comp_writes_bytes cst cst0 cBegin cUpdate cEnd ->
    dec_contract_open dst dst0 dGetFrameInfo dDecompress dpos ->
    forall po mw bufs sizes junk,
      maxWrite_of po = Some mw -> FileProofs.csize_ok po (concat bufs) -> prefs_wf po ->
      Z.of_nat (length (concat bufs)) < U64 -> bytes_ok (concat bufs) = true ->
      exists file,
        write_session cst cst0 cBegin cUpdate cEnd po bufs = (FOk (map (fun b => FOk (length b)) bufs), file) /\
        frame_ok file (concat bufs) /\
        read_session dst dst0 dGetFrameInfo dDecompress true junk file sizes = FOk (chop (concat bufs) sizes).
  Proof.
    intros dst dst0 dGetFrameInfo dDecompress dpos Hc Hcb Hd po mw bufs sizes junk Hmw Hcs Hwf HX Hbb.
    destruct (write_session_open_ok Hc po mw bufs Hmw Hcs Hwf HX) as (file & Hw & Hf).
    exists file. split; [exact Hw|]. split; [exact Hf|].
    apply (read_session_open dst dst0 dGetFrameInfo dDecompress dpos Hd file (concat bufs) Hf).
    exact (Hcb po bufs file Hw Hbb).
  Qed.
End RoundTripOpen.

(* ================================================================== the compressor writes byte strings *)
Section Bytes.
  Variable blk : nat -> list byte -> list byte -> option (list byte).
  (* typing fact of the block compressors: they write bytes *)
  Definition blk_bytes : Prop := forall n h s c, blk n h s = Some c -> bytes_ok c = true.
  Hypothesis Hbb : blk_bytes.

  Lemma byte_mod v : byte_ok (v mod 256) = true.
  Proof. unfold byte_ok. pose proof (Z.mod_pos_bound v 256 ltac:(lia)). apply andb_true_iff. split; [apply Z.leb_le|apply Z.ltb_lt]; lia. Qed.
  Lemma bok_app a b : bytes_ok (a ++ b) = bytes_ok a && bytes_ok b.
  Proof. unfold bytes_ok. apply forallb_app. Qed.
  Lemma bok_app2 a b : bytes_ok a = true -> bytes_ok b = true -> bytes_ok (a ++ b) = true.
  Proof. intros A B. rewrite bok_app, A, B. reflexivity. Qed.
  Lemma writeLE32_ok v : bytes_ok (writeLE32 v) = true.
  Proof. unfold writeLE32, bytes_ok. cbn [forallb]. rewrite !byte_mod. reflexivity. Qed.
  Lemma writeLE64_ok v : bytes_ok (writeLE64 v) = true.
  Proof. unfold writeLE64, bytes_ok. cbn [forallb]. rewrite !byte_mod. reflexivity. Qed.
  Lemma bok_firstn n (l : list byte) : bytes_ok l = true -> bytes_ok (firstn n l) = true.
  Proof. intro H. rewrite <- (firstn_skipn n l), bok_app in H. apply andb_prop in H. apply H. Qed.
  Lemma bok_skipn n (l : list byte) : bytes_ok l = true -> bytes_ok (skipn n l) = true.
  Proof. intro H. rewrite <- (firstn_skipn n l), bok_app in H. apply andb_prop in H. apply H. Qed.

  Lemma frame_header_ok p : bytes_ok (frame_header p) = true.
  Proof.
    unfold frame_header, descriptor. repeat apply bok_app2; try apply writeLE32_ok.
    - unfold bytes_ok, flg_byte, bd_byte. cbn [forallb]. rewrite !byte_mod. reflexivity.
    - destruct (negb (p_contentSize p =? 0)); [apply writeLE64_ok|reflexivity].
    - destruct (negb (p_dictID p =? 0)); [apply writeLE32_ok|reflexivity].
    - unfold bytes_ok, headerChecksum. cbn [forallb]. rewrite byte_mod. reflexivity.
  Qed.

  Lemma makeBlock_ok c src f : bytes_ok src = true -> bytes_ok (fst (makeBlock blk c src f)) = true.
  Proof.
    intro Hs. unfold makeBlock. cbn [fst].
    set (cres := match f with CF_none => None | _ => blk (c_nblk c) (history c f) src end).
    assert (Hc : forall cb, cres = Some cb -> bytes_ok cb = true).
    { intros cb E. unfold cres in E. destruct f; try discriminate E; eapply Hbb; exact E. }
    repeat apply bok_app2.
    - destruct (_ || _); apply writeLE32_ok.
    - destruct (_ || _); [exact Hs|]. destruct cres as [cb|]; [apply Hc; reflexivity|reflexivity].
    - destruct (negb _); [apply writeLE32_ok|reflexivity].
  Qed.

  Lemma flush_ok c o c1 : bytes_ok (c_tmp c) = true -> flush blk c = (Out o, c1) -> bytes_ok o = true /\ bytes_ok (c_tmp c1) = true.
  Proof.
    intros Ht. unfold flush. destruct (len (c_tmp c) =? 0); [intro H; inversion H; subst; auto|].
    destruct (negb (c_stage c =? 1)); [discriminate|].
    destruct (makeBlock blk c (c_tmp c) _) as [om cm] eqn:EM.
    match type of EM with makeBlock blk c ?x ?ff = _ => pose proof (makeBlock_ok c x ff Ht) as K end.
    rewrite EM in K. cbn [fst] in K. intro H. inversion H; subst. split; [exact K|reflexivity].
  Qed.

  Lemma fullBlocks_ok : forall fuel c f bs src o c' r,
    bytes_ok src = true -> fullBlocks blk fuel c f bs src = Some (o, c', r) ->
    bytes_ok o = true /\ bytes_ok r = true /\ c_tmp c' = c_tmp c.
  Proof.
    induction fuel as [|k IH]; intros c f bs src o c' r Hs H; [discriminate H|]. cbn [fullBlocks] in H.
    destruct (bs <=? len src); [|inversion H; subst; auto].
    destruct (makeBlock blk c (firstn (Z.to_nat bs) src) f) as [o1 c1] eqn:EM.
    pose proof (makeBlock_ok c (firstn (Z.to_nat bs) src) f (bok_firstn _ _ Hs)) as K. rewrite EM in K. cbn [fst] in K.
    assert (Kt : c_tmp c1 = c_tmp c) by (unfold makeBlock in EM; inversion EM; reflexivity).
    destruct (fullBlocks blk k c1 f bs (skipn (Z.to_nat bs) src)) as [[[o2 c2] r2]|] eqn:EF; [|discriminate H].
    inversion H; subst. destruct (IH _ _ _ _ _ _ _ (bok_skipn _ _ Hs) EF) as (A & B & C).
    split; [apply bok_app2; assumption|]. split; [exact B|congruence].
  Qed.

  Lemma update_ok c src bc o c' :
    bytes_ok (c_tmp c) = true -> bytes_ok src = true -> compressUpdateImpl blk c src bc = (Out o, c') ->
    bytes_ok o = true /\ bytes_ok (c_tmp c') = true.
  Proof.
    intros Ht Hs H. unfold compressUpdateImpl in H. cbv zeta in H.
    destruct (negb (c_stage c =? 1)); [discriminate H|].
    assert (S0 : forall o0 c0, bytes_ok o0 = true -> bytes_ok (c_tmp c0) = true -> c_prefs c0 = c_prefs c \/ True ->
       (let '(o1, c1, rest1) :=
          if 0 <? len (c_tmp c0)
          then if len src <? c_maxBlock c - len (c_tmp c0) then ([], set_tmp c0 (c_tmp c0 ++ src), [])
               else let '(o, c'0) := makeBlock blk c0 (c_tmp c0 ++ firstn (Z.to_nat (c_maxBlock c - len (c_tmp c0))) src)
                                      (selectCompression (p_blockMode (c_prefs c)) (p_level (c_prefs c)) bc) in
                    (o, set_tmp c'0 [], skipn (Z.to_nat (c_maxBlock c - len (c_tmp c0))) src)
          else ([], c0, src) in
        match fullBlocks blk (S (length rest1)) c1 (selectCompression (p_blockMode (c_prefs c)) (p_level (c_prefs c)) bc) (c_maxBlock c) rest1 with
        | Some (o2, c2, rest2) =>
            let '(o3, c3, rest3) :=
              if negb (p_autoFlush (c_prefs c) =? 0) && (0 <? len rest2)
              then let '(o, c'0) := makeBlock blk c2 rest2 (selectCompression (p_blockMode (c_prefs c)) (p_level (c_prefs c)) bc) in (o, c'0, [])
              else ([], c2, rest2) in
            (Out (o0 ++ o1 ++ o2 ++ o3),
             set_input (if 0 <? len rest3 then set_tmp c3 rest3 else c3)
               (if p_ccrc (c_prefs c) =? FC_contentChecksumEnabled
                then c_xxh (if 0 <? len rest3 then set_tmp c3 rest3 else c3) ++ src
                else c_xxh (if 0 <? len rest3 then set_tmp c3 rest3 else c3))
               ((c_totalIn (if 0 <? len rest3 then set_tmp c3 rest3 else c3) + len src) mod U64))
        | None => (OutOfFuel, c1)
        end) = (Out o, c') -> bytes_ok o = true /\ bytes_ok (c_tmp c') = true).
    { intros o0 c0 Ho0 Ht0 _.
      assert (E1 : exists o1 c1 rest1,
         (if 0 <? len (c_tmp c0)
          then if len src <? c_maxBlock c - len (c_tmp c0) then ([], set_tmp c0 (c_tmp c0 ++ src), [])
               else let '(o, c'0) := makeBlock blk c0 (c_tmp c0 ++ firstn (Z.to_nat (c_maxBlock c - len (c_tmp c0))) src)
                                      (selectCompression (p_blockMode (c_prefs c)) (p_level (c_prefs c)) bc) in
                    (o, set_tmp c'0 [], skipn (Z.to_nat (c_maxBlock c - len (c_tmp c0))) src)
          else ([], c0, src)) = (o1, c1, rest1) /\ bytes_ok o1 = true /\ bytes_ok (c_tmp c1) = true /\ bytes_ok rest1 = true).
      { destruct (0 <? len (c_tmp c0)); [|eexists _, _, _; split; [reflexivity|auto]].
        destruct (len src <? c_maxBlock c - len (c_tmp c0)).
        - eexists _, _, _; split; [reflexivity|]. cbn. split; [reflexivity|]. split; [apply bok_app2; assumption|reflexivity].
        - destruct (makeBlock blk c0 _ _) as [om cm] eqn:EM. eexists _, _, _; split; [reflexivity|].
          match type of EM with makeBlock blk c0 ?x ?ff = _ => pose proof (makeBlock_ok c0 x ff (bok_app2 _ _ Ht0 (bok_firstn _ _ Hs))) as K end.
          rewrite EM in K. cbn [fst] in K. cbn. split; [exact K|]. split; [reflexivity|apply bok_skipn; exact Hs]. }
      destruct E1 as (o1 & c1 & rest1 & -> & Ho1 & Ht1 & Hr1).
      destruct (fullBlocks blk _ c1 _ _ rest1) as [[[o2 c2] rest2]|] eqn:EF; [|discriminate].
      destruct (fullBlocks_ok _ _ _ _ _ _ _ _ Hr1 EF) as (Ho2 & Hr2 & Ht2).
      assert (E3 : exists o3 c3 rest3,
        (if negb (p_autoFlush (c_prefs c) =? 0) && (0 <? len rest2)
         then let '(o, c'0) := makeBlock blk c2 rest2 (selectCompression (p_blockMode (c_prefs c)) (p_level (c_prefs c)) bc) in (o, c'0, [])
         else ([], c2, rest2)) = (o3, c3, rest3) /\ bytes_ok o3 = true /\ c_tmp c3 = c_tmp c2 /\ bytes_ok rest3 = true).
      { destruct (negb (p_autoFlush (c_prefs c) =? 0) && (0 <? len rest2)); [|eexists _, _, _; split; [reflexivity|auto]].
        destruct (makeBlock blk c2 rest2 _) as [om cm] eqn:EM. eexists _, _, _; split; [reflexivity|].
        match type of EM with makeBlock blk c2 ?x ?ff = _ => pose proof (makeBlock_ok c2 x ff Hr2) as K end.
        rewrite EM in K. cbn [fst] in K. split; [exact K|]. split; [unfold makeBlock in EM; inversion EM; reflexivity|reflexivity]. }
      destruct E3 as (o3 & c3 & rest3 & -> & Ho3 & Ht3 & Hr3).
      intro H1. inversion H1; subst o c'. split; [repeat apply bok_app2; assumption|].
      cbn [set_input c_tmp]. destruct (0 <? len rest3); cbn [set_tmp c_tmp]; [exact Hr3|]. congruence. }
    destruct (negb (c_mode c =? bc)).
    - destruct (flush blk c) as [rf cf] eqn:Ef. destruct rf as [e|of|]; try discriminate H.
      destruct (flush_ok c of cf Ht Ef) as [A B]. apply (S0 of (set_mode cf bc) A B (or_intror I)). exact H.
    - apply (S0 [] c eq_refl Ht (or_intror I)). exact H.
  Qed.
End Bytes.

(* a session in which every LZ4F_write succeeded writes bytes, for any compressor whose calls do *)
Section WritesBytes.
  Variable cst : Type.
  Variable cst0 : cst.
  Variable cBegin : cst -> option SZ.prefs -> Z -> fres (list byte) * cst.
  Variable cUpdate : cst -> list byte -> Z -> fres (list byte) * cst.
  Variable cEnd : cst -> Z -> fres (list byte) * cst.
  Variable T : cst -> Prop.
  Hypothesis HB : forall po cap h c1, cBegin cst0 po cap = (FOk h, c1) -> bytes_ok h = true /\ T c1.
  Hypothesis HU : forall c src cap o c', T c -> bytes_ok src = true -> cUpdate c src cap = (FOk o, c') -> bytes_ok o = true /\ T c'.
  Hypothesis HE : forall c cap o c', T c -> cEnd c cap = (FOk o, c') -> bytes_ok o = true.

  Lemma bok2 a b : bytes_ok a = true -> bytes_ok b = true -> bytes_ok (a ++ b) = true.
  Proof. intros A B. unfold bytes_ok. rewrite forallb_app. apply andb_true_intro. split; assumption. Qed.
  Lemma bok_split a b : bytes_ok (a ++ b) = true -> bytes_ok a = true /\ bytes_ok b = true.
  Proof. unfold bytes_ok. rewrite forallb_app. intro H. apply andb_prop in H. exact H. Qed.

  Lemma write_loop_bytes : forall fuel w file p w' file',
    write_loop cst cUpdate fuel w file p = (FOk tt, w', file') ->
    T (w_c cst w) -> bytes_ok file = true -> bytes_ok p = true ->
    bytes_ok file' = true /\ T (w_c cst w') /\ w_err cst w' = w_err cst w.
  Proof.
    induction fuel as [|f IH]; intros w file p w' file' H Ht Hf Hp.
    - destruct p; cbn in H; [inversion H; subst; auto|discriminate H].
    - destruct p as [|b p']; [cbn in H; inversion H; subst; auto|].
      cbn [write_loop] in H. set (pp := b :: p') in *.
      set (chunk := if Nat.ltb (w_maxWrite cst w) (length pp) then w_maxWrite cst w else length pp) in *.
      rewrite <- (firstn_skipn chunk pp) in Hp. apply bok_split in Hp. destruct Hp as [Hp1 Hp2].
      destruct (cUpdate (w_c cst w) (firstn chunk pp) (w_dstMax cst w)) as [[o| |] c] eqn:EU; try discriminate H.
      destruct (HU _ _ _ _ _ Ht Hp1 EU) as [Ho Hc].
      destruct (IH _ _ _ _ _ H Hc (bok2 _ _ Hf Ho) Hp2) as (A & B & C). auto.
  Qed.

  Lemma write_all_bytes : forall bufs w file w' file',
    write_all cst cUpdate w file bufs = (map (fun b => FOk (length b)) bufs, w', file') ->
    T (w_c cst w) -> bytes_ok file = true -> bytes_ok (concat bufs) = true ->
    bytes_ok file' = true /\ T (w_c cst w') /\ w_err cst w' = w_err cst w.
  Proof.
    induction bufs as [|b r IH]; intros w file w' file' H Ht Hf Hb.
    - cbn in H. inversion H; subst. auto.
    - cbn [write_all map concat] in H, Hb. apply bok_split in Hb. destruct Hb as [Hb1 Hb2].
      unfold fwrite_lz4 in H.
      destruct (write_loop cst cUpdate (length b) w file b) as [[rr w1] f1] eqn:EL.
      destruct rr as [u| |]; try (destruct (write_all cst cUpdate w1 f1 r) as [[xs w2] f2]; discriminate H).
      destruct u.
      destruct (write_loop_bytes _ _ _ _ _ _ EL Ht Hf Hb1) as (A & B & C).
      destruct (write_all cst cUpdate w1 f1 r) as [[xs w2] f2] eqn:EA. inversion H; subst.
      destruct (IH _ _ _ _ EA B A Hb2) as (A' & B' & C'). split; [exact A'|]. split; [exact B'|congruence].
  Qed.

  Lemma writes_bytes : comp_writes_bytes cst cst0 cBegin cUpdate cEnd.
  Proof.
    intros po bufs file H Hb. unfold write_session, writeOpen in H.
    destruct (match po with Some p => bufsize_of_bsid (SZ.p_bsid p) | None => Some (Z.to_nat (64 * 1024)) end) as [mw|]; [|discriminate H].
    destruct (cBegin cst0 po LZ4F_HEADER_SIZE_MAX) as [[hdr| |] c1] eqn:EB; try discriminate H.
    destruct (HB _ _ _ _ EB) as [Hh Ht1].
    destruct (write_all cst cUpdate _ ([] ++ hdr) bufs) as [[xs w1] f1] eqn:EA.
    unfold writeClose in H.
    destruct (w_err cst w1) as [e|] eqn:Eerr.
    - inversion H; subst xs file.
      destruct (write_all_bytes _ _ _ _ _ EA Ht1 Hh Hb) as (A & B & C). cbn in C. congruence.
    - destruct (cEnd (w_c cst w1) (w_dstMax cst w1)) as [[tail| |] c3] eqn:EE; try discriminate H.
      inversion H; subst xs file.
      destruct (write_all_bytes _ _ _ _ _ EA Ht1 Hh Hb) as (A & B & C).
      apply bok2; [exact A|]. eapply HE; eauto.
  Qed.
End WritesBytes.

(* ================================================================== C20 with both contracts discharged *)
Section Final.
  Variable blk : nat -> list byte -> list byte -> option (list byte).
  Hypothesis Hblk : blk_contract strict_valid blk.      (* C01/C06/C11/C12: what a block compressor writes decodes to its input *)
  Hypothesis Hbb : blk_bytes blk.                        (* ... and is a byte string *)

  Definition tmp_bytes (c : cctx) : Prop := bytes_ok (c_tmp c) = true.

  Lemma end_ok c o c' : tmp_bytes c -> compressEnd blk c = (Out o, c') -> bytes_ok o = true.
  Proof.
    intros Ht. unfold compressEnd. destruct (flush blk c) as [rf cf] eqn:Ef.
    destruct rf as [e|of|]; try discriminate.
    destruct (flush_ok blk Hbb c of cf Ht Ef) as [A _].
    destruct (negb _ && negb _); [discriminate|]. intro H. inversion H; subst.
    repeat apply bok_app2; try exact A; try apply writeLE32_ok.
    destruct (p_ccrc _ =? _); [apply writeLE32_ok|reflexivity].
  Qed.

  Lemma fc_HB : forall po cap h c1, fc_begin cctx_zero po cap = (FOk h, c1) -> bytes_ok h = true /\ tmp_bytes c1.
  Proof.
    intros po cap h c1. unfold fc_begin. destruct (cap <? maxFHSize); [discriminate|].
    unfold compressBegin, compressBegin_internal. destruct (isError _); [discriminate|]. cbn [lift].
    intro H. inversion H; subst. split; [apply frame_header_ok|reflexivity].
  Qed.
  Lemma fc_HU : forall c src cap o c', tmp_bytes c -> bytes_ok src = true ->
    fc_update blk c src cap = (FOk o, c') -> bytes_ok o = true /\ tmp_bytes c'.
  Proof.
    intros c src cap o c' Ht Hs. unfold fc_update.
    assert (K : lift (compressUpdate blk c src) = (FOk o, c') -> bytes_ok o = true /\ tmp_bytes c').
    { unfold compressUpdate. destruct (compressUpdateImpl blk c src FC_LZ4B_COMPRESSED) as [[e|oo|] cc] eqn:E; try discriminate.
      cbn [lift]. intro H. inversion H; subst. exact (update_ok blk Hbb c src _ o c' Ht Hs E). }
    destruct (negb (c_stage c =? 1)); [exact K|]. destruct (cap <? _); [discriminate|exact K].
  Qed.
  Lemma fc_HE : forall c cap o c', tmp_bytes c -> fc_end blk c cap = (FOk o, c') -> bytes_ok o = true.
  Proof.
    intros c cap o c' Ht. unfold fc_end.
    assert (K : lift (compressEnd blk c) = (FOk o, c') -> bytes_ok o = true).
    { destruct (compressEnd blk c) as [[e|oo|] cc] eqn:E; try discriminate. cbn [lift]. intro H. inversion H; subst. exact (end_ok c o c' Ht E). }
    destruct (_ && _ && _); [discriminate|].
    destruct (flush blk c) as [[e|of|] cf]; try exact K.
    destruct (cap - len of <? 4); [discriminate|]. destruct (_ && _); [discriminate|exact K].
  Qed.

  Theorem fc_writes_bytes : comp_writes_bytes cctx cctx_zero fc_begin (fc_update blk) (fc_end blk).
  Proof. exact (writes_bytes cctx cctx_zero fc_begin (fc_update blk) (fc_end blk) tmp_bytes fc_HB fc_HU fc_HE). Qed.

  (* LZ4F_writeOpen / LZ4F_write* / LZ4F_writeClose through the model of lz4frame.c's compressor, then
     LZ4F_readOpen / LZ4F_read* through the model of its decoder: the content comes back, for every
     content (bytes, below 2^64), every valid preference set, all write sizes and all read sizes *)
  Theorem roundtrip_discharged : forall po mw bufs sizes junk,
    maxWrite_of po = Some mw -> FileProofs.csize_ok po (concat bufs) -> prefs_wf po ->
    Z.of_nat (length (concat bufs)) < U64 -> bytes_ok (concat bufs) = true ->
    exists file,
      write_session cctx cctx_zero fc_begin (fc_update blk) (fc_end blk) po bufs
        = (FOk (map (fun b => FOk (length b)) bufs), file) /\
      frame_ok file (concat bufs) /\
      read_session FrameD.dstate FrameD.dctx_init fd_info fd_dec true junk file sizes = FOk (chop (concat bufs) sizes).
  Proof.
    exact (roundtrip_open2 cctx cctx_zero fc_begin (fc_update blk) (fc_end blk)
             FrameD.dstate FrameD.dctx_init fd_info fd_dec fd_pos
             (fc_comp_contract_open blk Hblk) fc_writes_bytes fd_dec_contract_open).
  Qed.
End Final.
