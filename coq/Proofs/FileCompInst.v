(* C20: the compressor side of the lz4file round trip.
   The compressor that lib/lz4file.c calls (LZ4F_compressBegin with 19 bytes of room, then
   LZ4F_compressUpdate per chunk of at most maxWriteSize bytes and LZ4F_compressEnd, both with
   LZ4F_compressBound(maxWriteSize, prefs) bytes of room) is instantiated with the byte model of
   lz4frame.c's compressor (Model/FrameC.v, C03/C07) to which the dstMaxSize_tooSmall tests of
   lz4frame.c - that FrameC.v leaves out - are added back, written with
   LZ4F_compressBound_internal of the size model (Model/FrameCSizes.v, C10).
   Proved: these tests never fire in an lz4file session (arithmetic of C10), every call
   succeeds, and the file is ONE frame that Spec.frame_decode (strict block judgment) decodes
   to the content (c07_conformant) - the contract [comp_contract] of Proofs/FileProofs.v, for
   contents below 2^64 bytes and preferences with a dictID below 2^32 ([comp_contract_open]).
   What remains assumed is the contract of the BLOCK compressors (blk_contract: C01/C06/C11/C12). *)
From Coq Require Import ZArith List Lia Bool Arith.
From LZ4V Require Import Spec.BlockSpec Spec.XXH32 Spec.FrameSpec Gen.Consts.
From LZ4V Require Import Model.FrameC Proofs.BlockHistExt Proofs.FrameCBytes Proofs.FrameCBlocks Proofs.FrameCProofs Proofs.FrameCTheorems.
From LZ4V Require Model.FrameCSizes Proofs.FrameCSizesProofs Proofs.FrameCSizesOps Proofs.FrameCSizesHist.
From LZ4V Require Import Model.File Proofs.FileProofs.
Import ListNotations.
Local Open Scope Z_scope.

Module SZ := LZ4V.Model.FrameCSizes.
Module SP := LZ4V.Proofs.FrameCSizesProofs.
Module SO := LZ4V.Proofs.FrameCSizesOps.
Module SH := LZ4V.Proofs.FrameCSizesHist.

(* ---- preferences: lz4file.c hands the same LZ4F_preferences_t to LZ4F_compressBound and LZ4F_compressBegin ---- *)
(* the fields the byte model reads, from the fields the size model reads (level 0, favorDecSpeed 0) *)
Definition cvp (p : SZ.prefs) : prefs :=
  mkPrefs (SZ.p_bsid p) (if SZ.p_linked p then 0 else 1) (SZ.bz (SZ.p_cchk p)) (SZ.p_csize p) (SZ.p_dictid p)
          (SZ.bz (SZ.p_bchk p)) 0 (SZ.bz (SZ.p_af p)) 0.
Definition cvpo (po : option SZ.prefs) : option prefs := option_map cvp po.
(* and back: what LZ4F_compressBound_internal reads in cctx->prefs *)
Definition szp (p : prefs) : SZ.prefs :=
  SZ.mkPrefs (p_bsid p) (p_blockMode p =? 0) (negb (p_ccrc p =? 0)) (p_contentSize p) (p_dictID p)
             (negb (p_bcrc p =? 0)) (negb (p_autoFlush p =? 0)).

Lemma szp_eff po : szp (eff_prefs (cvpo po)) = SO.begin_prefs po.
Proof.
  unfold eff_prefs, SO.begin_prefs, cvpo. destruct po as [p|]; cbn [option_map].
  - destruct p as [bs lk cc cs di bc af]. unfold cvp, szp, SZ.set_bsid, set_bsid. cbn.
    destruct (bs =? 0); destruct lk, cc, bc, af; reflexivity.
  - reflexivity.
Qed.

(* ---- the instance ---- *)
Section Inst.
  Variable blk : nat -> list byte -> list byte -> option (list byte).

  Definition lift (r : res * cctx) : fres (list byte) * cctx :=
    match r with
    | (Out o, c) => (FOk o, c)
    | (Err e, c) => (FErr e, c)
    | (OutOfFuel, c) => (FOutOfFuel, c)
    end.
  Definition tooSmall (c : cctx) : fres (list byte) * cctx := (FErr C10_ERR_dstMaxSize_tooSmall, c).

  (* LZ4F_compressBegin(cctx, dst, dstCapacity, prefs) *)
  Definition fc_begin (c : cctx) (po : option SZ.prefs) (cap : Z) : fres (list byte) * cctx :=
    if cap <? maxFHSize then tooSmall c else lift (compressBegin c (cvpo po) NoDict).
  (* LZ4F_compressUpdate(cctx, dst, dstCapacity, src, srcSize, NULL) *)
  Definition fc_update (c : cctx) (src : list byte) (cap : Z) : fres (list byte) * cctx :=
    if negb (c_stage c =? 1) then lift (compressUpdate blk c src)
    else if cap <? SZ.compressBound_internal (len src) (Some (szp (c_prefs c))) (len (c_tmp c)) then tooSmall c
    else lift (compressUpdate blk c src).
  (* LZ4F_compressEnd(cctx, dst, dstCapacity, NULL): LZ4F_flush, then 4 (+4) bytes *)
  Definition fc_end (c : cctx) (cap : Z) : fres (list byte) * cctx :=
    if (0 <? len (c_tmp c)) && (c_stage c =? 1) && (cap <? len (c_tmp c) + BHSize + BFSize) then tooSmall c
    else match flush blk c with
         | (Out o, _) =>
           let cap' := cap - len o in
           if cap' <? 4 then tooSmall c
           else if (p_ccrc (c_prefs c) =? FC_contentChecksumEnabled) && (cap' <? 8) then tooSmall c
           else lift (compressEnd blk c)
         | _ => lift (compressEnd blk c)
         end.
End Inst.

(* ---- capacities: LZ4F_compressBound(maxWriteSize, prefs) covers every call of an lz4file session ---- *)
Lemma core_false_one c bs n : 1 < bs -> 1 <= n <= bs -> SP.core false c bs n (bs - 1) = BHSize + BFSize * SZ.bz c + bs.
Proof.
  intros Hb Hn. unfold SP.core. cbn [orb].
  replace (n =? 0) with false by (symmetry; apply Z.eqb_neq; lia).
  assert (Hd : (n + (bs - 1)) / bs = 1) by (symmetry; apply (Z.div_unique _ _ 1 (n - 1)); lia).
  rewrite Hd. cbn [Z.ltb Z.compare]. lia.
Qed.

Lemma cb_mono_small q n :
  SZ.valid_bsid0 (SZ.p_bsid q) = true -> 0 <= n <= SZ.getBlockSize (SZ.p_bsid q) ->
  SZ.compressBound n (Some q) <= SZ.compressBound (SZ.getBlockSize (SZ.p_bsid q)) (Some q).
Proof.
  intros Hv Hn. pose proof (SP.getBlockSize_vbs _ Hv) as Hb. apply SP.vbs_pos in Hb.
  set (bs := SZ.getBlockSize (SZ.p_bsid q)) in *.
  rewrite !SP.cb_eq by (auto; lia). fold bs.
  destruct (SZ.p_af q).
  - rewrite !SP.core_af_small by lia. destruct (0 <? n) eqn:E1; destruct (0 <? bs) eqn:E2; unfold BHSize, BFSize; destruct (SZ.p_bchk q); cbn [SZ.bz]; lia.
  - rewrite (core_false_one _ bs bs) by lia.
    destruct (Z.eq_dec n 0) as [->|Hn0].
    + rewrite SP.core_zero by lia. destruct (0 <? bs - 1); unfold BHSize, BFSize; destruct (SZ.p_bchk q); cbn [SZ.bz]; lia.
    + rewrite core_false_one by lia. lia.
Qed.

Lemma maxWrite_cases po mw : maxWrite_of po = Some mw ->
  SP.prefs_ok po /\ Z.of_nat mw = SZ.getBlockSize (SZ.p_bsid (SO.begin_prefs po)).
Proof.
  unfold maxWrite_of, SP.prefs_ok. destruct po as [p|].
  - unfold bufsize_of_bsid, C10_bsid_default, C10_bsid_64KB, C10_bsid_256KB, C10_bsid_1MB, C10_bsid_4MB.
    unfold SO.begin_prefs. destruct p as [bs lk cc cs di bc af]. cbn [SZ.p_bsid SZ.set_bsid].
    destruct (bs =? 0) eqn:E0; [apply Z.eqb_eq in E0; subst bs; cbn; intro H; inversion H; split; reflexivity|].
    cbn [orb].
    destruct (bs =? 4) eqn:E4; [apply Z.eqb_eq in E4; subst bs; cbn; intro H; inversion H; split; reflexivity|].
    destruct (bs =? 5) eqn:E5; [apply Z.eqb_eq in E5; subst bs; cbn; intro H; inversion H; split; reflexivity|].
    destruct (bs =? 6) eqn:E6; [apply Z.eqb_eq in E6; subst bs; cbn; intro H; inversion H; split; reflexivity|].
    destruct (bs =? 7) eqn:E7; [apply Z.eqb_eq in E7; subst bs; cbn; intro H; inversion H; split; reflexivity|].
    discriminate.
  - intro H. inversion H. split; [exact I|reflexivity].
Qed.

Lemma cb_po_ge po n : SP.prefs_ok po -> 0 <= n ->
  SZ.compressBound n (Some (SO.begin_prefs po)) <= SZ.compressBound n po.
Proof.
  intros Hp Hn. destruct po as [p|].
  - destruct (SH.cb_begin_prefs p n Hp Hn) as [E _]. rewrite E. lia.
  - apply SO.cb_null_ge. exact Hn.
Qed.

(* the size model's view of a context with t bytes buffered *)
Definition szc (q : SZ.prefs) (t : Z) : SZ.cctx := SZ.mkCctx q 1 (SZ.getBlockSize (SZ.p_bsid q)) t 0 false.
Lemma szc_inv q t : SZ.valid_bsid0 (SZ.p_bsid q) = true -> 0 <= t < SZ.getBlockSize (SZ.p_bsid q) ->
  (SZ.p_af q = true -> t = 0) -> SP.Inv (szc q t).
Proof. intros Hv Ht Haf. unfold SP.Inv, szc. cbn. repeat split; auto; lia. Qed.

Lemma cap_update po mw n t :
  maxWrite_of po = Some mw ->
  let q := SO.begin_prefs po in
  0 <= n <= Z.of_nat mw -> 0 <= t < Z.of_nat mw -> (SZ.p_af q = true -> t = 0) ->
  SZ.compressBound_internal n (Some q) t <= SZ.compressBound (Z.of_nat mw) po.
Proof.
  intros Hmw q Hn Ht Haf. destruct (maxWrite_cases po mw Hmw) as [Hp Hbs].
  assert (Hv : SZ.valid_bsid0 (SZ.p_bsid q) = true) by (apply SP.bsid_in_range_valid0, SO.begin_prefs_range; exact Hp).
  fold q in Hbs. rewrite Hbs in *.
  pose proof (SO.cbi_le_cb (szc q t) n (szc_inv q t Hv Ht Haf) eq_refl ltac:(lia)) as H1. cbn [szc SZ.c_prefs SZ.c_tmpInSize] in H1.
  pose proof (cb_mono_small q n Hv Hn) as H2.
  pose proof (cb_po_ge po (SZ.getBlockSize (SZ.p_bsid q)) Hp ltac:(lia)) as H3. fold q in H3. lia.
Qed.

Lemma cap_end po mw t :
  maxWrite_of po = Some mw ->
  let q := SO.begin_prefs po in
  0 <= t < Z.of_nat mw -> (SZ.p_af q = true -> t = 0) ->
  (if 0 <? t then SP.bfull (SZ.p_bchk q) t else 0) + SP.frameEnd q <= SZ.compressBound (Z.of_nat mw) po.
Proof.
  intros Hmw q Ht Haf. destruct (maxWrite_cases po mw Hmw) as [Hp Hbs].
  assert (Hv : SZ.valid_bsid0 (SZ.p_bsid q) = true) by (apply SP.bsid_in_range_valid0, SO.begin_prefs_range; exact Hp).
  fold q in Hbs. rewrite Hbs in *.
  pose proof (SO.cb0_ge (szc q t) (szc_inv q t Hv Ht Haf)) as H1. cbn [szc SZ.c_prefs SZ.c_tmpInSize] in H1.
  pose proof (cb_mono_small q 0 Hv ltac:(lia)) as H2.
  pose proof (cb_po_ge po (SZ.getBlockSize (SZ.p_bsid q)) Hp ltac:(lia)) as H3. fold q in H3. lia.
Qed.
