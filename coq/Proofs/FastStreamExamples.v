(* Concrete, non-trivial instances of the streaming theorems (their hypotheses are satisfiable and the
   conclusions are not vacuous): a 81-byte dictionary at address 1000, two blocks sharing content with it and
   with each other laid out back to back at address 3000. *)
From Coq Require Import ZArith List Lia Bool.
From LZ4V Require Import Gen.Consts Spec.BlockSpec Model.Mem Model.Fast Model.FastApi Model.FastStream
     Proofs.FastApiSound Proofs.FastStreamMem Proofs.FastStreamProofs Proofs.FastStreamHist.
Import ListNotations.
Local Open Scope Z_scope.

Definition ex_dict : list Z := [116; 104; 101; 32; 113; 117; 105; 99; 107; 32; 98; 114; 111; 119; 110; 32; 102; 111; 120; 32; 106; 117; 109; 112; 115; 32; 111; 118; 101; 114; 32; 116; 104; 101; 32; 108; 97; 122; 121; 32; 100; 111; 103; 32; 48; 49; 50; 51; 52; 53; 54; 55; 56; 57; 32; 97; 98; 99; 100; 101; 102; 103; 104; 105; 106; 107; 108; 109; 110; 111; 112; 113; 114; 115; 116; 117; 118; 119; 120; 121; 122].
Definition ex_b1 : list Z := [105; 99; 107; 32; 98; 114; 111; 119; 110; 32; 102; 111; 120; 32; 106; 117; 109; 112; 115; 32; 111; 118; 101; 114; 32; 116; 104; 101; 32; 108; 97; 122; 121; 32; 100; 111; 103; 32; 48; 49; 45; 45; 54; 55; 56; 57; 32; 97; 98; 99; 100; 101; 102; 103; 104; 105; 106; 107; 108; 109; 110; 111; 33; 33; 33; 33; 33; 33; 33; 33; 33; 33; 33; 33; 33; 33; 33; 33].
Definition ex_b2 : list Z := [32; 98; 114; 111; 119; 110; 32; 102; 111; 120; 32; 106; 117; 109; 112; 115; 32; 111; 118; 101; 114; 32; 116; 104; 101; 32; 108; 116; 104; 101; 32; 113; 117; 105; 99; 107; 32; 98; 114; 111; 119; 110; 32; 102; 111; 120; 32; 48; 48; 48; 48; 48; 48; 48; 48; 48; 48; 48; 48; 48; 48; 48; 48].
Definition ex_m : mem := store_list (store_list (store_list empty 1000 ex_dict) 3000 ex_b1) 3078 ex_b2.

Lemma list_ok_dec l : forallb (fun b => (0 <=? b) && (b <? 256)) l = true -> list_ok l.
Proof.
  intros H. unfold list_ok. apply Forall_forall. intros x Hx. rewrite forallb_forall in H. specialize (H x Hx). lia.
Qed.

Lemma ex_m_ok : mem_ok ex_m.
Proof.
  unfold ex_m. intros x.
  repeat (apply store_list_ok; [|apply list_ok_dec; vm_compute; reflexivity]).
  intros y. rewrite get_empty. lia.
Qed.

Lemma ex_state : state_inv (ex_m, s_init).
Proof. split; [exact ex_m_ok | split; [exact table_inv_init | exact tt_inv_init]]. Qed.

Ltac zle := apply Z.leb_le; vm_compute; reflexivity.
Ltac zlt := apply Z.ltb_lt; vm_compute; reflexivity.

(* ---- a stream: loadDict, a block elsewhere (external dictionary mode), a contiguous block (prefix mode),
        saveDict, a block at the first address again (external dictionary = the saved bytes) ---- *)
Definition ex_ops : list op :=
  [OLoadDict 1000 81 false; OContinue 3000 78 200 1; OContinue 3078 63 200 1; OSaveDict 5000 100; OContinue 3000 78 200 7].

Lemma ex_stream_pre : stream_pre (ex_m, s_init) [] ex_ops.
Proof.
  unfold ex_ops. cbn [stream_pre op_pre].
  split; [exact Logic.I|]. split; [exact Logic.I|].
  split; [split; [split; zle | split; [split; zle | zlt]]|].
  split; [unfold hist_inv; split; [split; zle | vm_compute; reflexivity]|].
  split; [split; [split; zle | split; [split; zle | zlt]]|].
  split; [unfold hist_inv; split; [split; zle | vm_compute; reflexivity]|].
  split; [split; [zle | zlt]|]. split; [exact Logic.I|].
  split; [split; [split; zle | split; [split; zle | zlt]]|].
  split; [unfold hist_inv; split; [split; zle | vm_compute; reflexivity]|].
  exact Logic.I.
Qed.

Lemma ex_ops_pre : ops_pre (ex_m, s_init) ex_ops.
Proof.
  unfold ex_ops. cbn [ops_pre op_pre].
  split; [exact Logic.I|].
  split; [split; [split; zle | split; [split; zle | zlt]]|].
  split; [split; [split; zle | split; [split; zle | zlt]]|].
  split; [split; [zle | zlt]|].
  split; [split; [split; zle | split; [split; zle | zlt]]|].
  exact Logic.I.
Qed.

(* what the run produces: three compressed blocks with matches into the dictionary / the previous blocks *)
Definition ex_r1 := fast_continue ex_m (fst (loadDict ex_m 1000 81 false)) 3000 78 200 1.
Definition ex_r2 := fast_continue ex_m (r_ctx ex_r1) 3078 63 200 1.
Lemma ex_results :
  r_ret ex_r1 = 20 /\ r_ret ex_r2 = 47 /\
  strict_valid ex_dict (r_out ex_r1) = Some ex_b1 /\
  strict_valid (ex_dict ++ ex_b1) (r_out ex_r2) = Some ex_b2 /\
  (* without the dictionary the first block is NOT decodable: it really refers to it *)
  strict_valid [] (r_out ex_r1) = None.
Proof. vm_compute. repeat split; reflexivity. Qed.

(* ---- attach: the same dictionary, prepared once, attached to a fresh working stream ---- *)
Definition ex_ra := fast_continue ex_m (attach_dictionary s_init (Some (fst (loadDict ex_m 1000 81 false)))) 3000 78 200 1.
Lemma ex_attach : r_ret ex_ra = 20 /\ strict_valid ex_dict (r_out ex_ra) = Some ex_b1 /\ strict_valid [] (r_out ex_ra) = None.
Proof. vm_compute. repeat split; reflexivity. Qed.

(* ---- context reuse: two fast-reset one-shots on one context, inputs back to back sharing 27 bytes ---- *)
Definition ex_o1 := s_fastReset ex_m s_init 3000 78 200 1.
Definition ex_o2 := s_fastReset ex_m (r_ctx ex_o1) 3078 63 200 1.
Lemma ex_reuse :
  r_ret ex_o1 = 73 /\ r_ret ex_o2 = 49 /\ s_cur (r_ctx ex_o2) = 141 /\ s_tt (r_ctx ex_o2) = 3 /\
  strict_valid [] (r_out ex_o2) = Some ex_b2.
Proof. vm_compute. repeat split; reflexivity. Qed.

(* ---- renormalisation: a stream whose offset was moved next to 2^31 (state injection), then two more blocks ---- *)
Definition ex_big : sctx := shift_ctx (r_ctx ex_r1) (2147483648 - 65614 - 10).
Definition ex_r3 := fast_continue ex_m ex_big 3078 63 200 1.
Lemma ex_renorm :
  s_cur ex_big = 2147483638 /\ r_ret ex_r3 = 47 /\ s_cur (r_ctx ex_r3) = 65599 /\
  strict_valid (ex_dict ++ ex_b1) (r_out ex_r3) = Some ex_b2.
Proof. vm_compute. repeat split; reflexivity. Qed.
