(* C03 / C07 with the block compressor instantiated for LINKED blocks and dictionaries:
   - level < 2 (LZ4_compress_fast_continue: linked blocks with or without dictionary, independent blocks with a CDict):
     Proofs.BlkInstFastLinked;
   - level >= 3 (LZ4_compress_HC_continue, hash chain / optimal parser: linked blocks, no CDict): Proofs.BlkInstHcLinked.
   The premises on level / block mode / dictionary kind delimit where the instance is what lz4frame.c calls; the oracle
   premises (lorc_ok / horc_ok) are the stream invariants of C11. *)
From Coq Require Import ZArith List Lia Bool.
From LZ4V Require Import Gen.Consts Spec.BlockSpec Spec.XXH32 Spec.FrameSpec Model.Mem Model.FrameD Model.FrameC Model.FrameAudit.
From LZ4V Require Proofs.FrameDProofs Proofs.FrameDChunk.
From LZ4V Require Import Proofs.FrameCBytes Proofs.FrameCBlocks Proofs.FrameCProofs Proofs.FrameCTheorems Proofs.FrameRoundTrip.
From LZ4V Require Import Proofs.BlkInst Proofs.BlkInstFastLinked Proofs.BlkInstHcLinked.
Import ListNotations.
Local Open Scope Z_scope.

Definition no_cdict (dk : dictkind) : Prop := match dk with UsingCDict _ => False | _ => True end.

Theorem c03_roundtrip_fast_stream : forall level st, (forall n, lorc_ok (st n)) ->
  forall c0 po dk ms F X,
  prefs_opt_ok po -> uncompressed_only_if_independent po ms -> len X < U64 ->
  p_level (eff_prefs po) = level -> level < LZ4HC_CLEVEL_MIN ->
  session (blk_fast_linked st level) c0 po dk ms = Some (F, X) ->
  frame_decode spec_decode false (dict_of dk) F = Some (X, []).
Proof.
  intros level st Hst c0 po dk ms F X Hpo Hunc HX _ _ H.
  exact (c03_roundtrip _ (strict_contract_spec _ (blk_fast_linked_contract st level Hst)) c0 po dk ms F X Hpo Hunc HX H).
Qed.

Theorem c03_roundtrip_hc_stream : forall st, (forall n, horc_ok (st n)) ->
  forall c0 po dk ms F X,
  prefs_opt_ok po -> uncompressed_only_if_independent po ms -> len X < U64 ->
  3 <= p_level (eff_prefs po) -> p_blockMode (eff_prefs po) = 0 -> no_cdict dk ->
  session (blk_hc_linked st) c0 po dk ms = Some (F, X) ->
  frame_decode spec_decode false (dict_of dk) F = Some (X, []).
Proof.
  intros st Hst c0 po dk ms F X Hpo Hunc HX _ _ _ H.
  exact (c03_roundtrip _ (strict_contract_spec _ (blk_hc_linked_contract st Hst)) c0 po dk ms F X Hpo Hunc HX H).
Qed.

Theorem c07_conformant_fast_stream : forall level st, (forall n, lorc_ok (st n)) ->
  forall c0 po dk ms F X,
  prefs_opt_ok po -> uncompressed_only_if_independent po ms -> len X < U64 ->
  p_level (eff_prefs po) = level -> level < LZ4HC_CLEVEL_MIN ->
  session (blk_fast_linked st level) c0 po dk ms = Some (F, X) ->
  frame_decode strict_valid false (dict_of dk) F = Some (X, []) /\
  exists maxb bl, bsid_size (p_bsid (eff_prefs po)) = Some maxb /\ X = contents bl /\
    chain strict_valid (p_blockMode (eff_prefs po) =? 1) (dict_of dk) maxb [] bl.
Proof.
  intros level st Hst c0 po dk ms F X Hpo Hunc HX _ _ H.
  destruct (c07_conformant _ (blk_fast_linked_contract st level Hst) c0 po dk ms F X Hpo Hunc HX H) as (maxb & bl & Hc).
  cbv zeta in Hc. destruct Hc as (_ & C2 & _ & C4 & C5 & _ & _ & C8).
  split; [exact C8|]. exists maxb, bl. split; [exact C2 | split; [exact C4 | exact C5]].
Qed.

Theorem c07_conformant_hc_stream : forall st, (forall n, horc_ok (st n)) ->
  forall c0 po dk ms F X,
  prefs_opt_ok po -> uncompressed_only_if_independent po ms -> len X < U64 ->
  3 <= p_level (eff_prefs po) -> p_blockMode (eff_prefs po) = 0 -> no_cdict dk ->
  session (blk_hc_linked st) c0 po dk ms = Some (F, X) ->
  frame_decode strict_valid false (dict_of dk) F = Some (X, []) /\
  exists maxb bl, bsid_size (p_bsid (eff_prefs po)) = Some maxb /\ X = contents bl /\
    chain strict_valid (p_blockMode (eff_prefs po) =? 1) (dict_of dk) maxb [] bl.
Proof.
  intros st Hst c0 po dk ms F X Hpo Hunc HX _ _ _ H.
  destruct (c07_conformant _ (blk_hc_linked_contract st Hst) c0 po dk ms F X Hpo Hunc HX H) as (maxb & bl & Hc).
  cbv zeta in Hc. destruct Hc as (_ & C2 & _ & C4 & C5 & _ & _ & C8).
  split; [exact C8|]. exists maxb, bl. split; [exact C2 | split; [exact C4 | exact C5]].
Qed.

Print Assumptions c03_roundtrip_fast_stream.
Print Assumptions c03_roundtrip_hc_stream.
Print Assumptions c07_conformant_fast_stream.
Print Assumptions c07_conformant_hc_stream.
