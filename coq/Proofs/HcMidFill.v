(* LZ4MID parser model in fillOutput mode (LZ4_compress_HC_destSize at levels 1-2): the block it returns is
   STRICTLY valid - the end-of-block restrictions of the format hold although the last match may have been
   shortened and the last literal run adapted to the remaining room - and decodes to the consumed prefix.

   Room argument: a sequence accepted by LZ4HC_encodeSequence in limited mode leaves op <= oend - 5 with oend
   lowered by LASTLITERALS, i.e. at least 10 bytes before the real end: a truncated last run then has >= 9
   literals.  A sequence written by the overflow epilogue leaves >= 6 bytes (>= 5 literals), and its explicit test
   `(oend + LASTLITERALS) - (op + ll_totalCost + 2) - 1 + matchLength >= MFLIMIT` is exactly "shortened match +
   literals that still fit >= 12". *)
From Coq Require Import ZArith List Lia Bool ZifyBool.
From LZ4V Require Import Gen.Consts Spec.BlockSpec Model.Mem Model.Fast Model.HcEmit Model.HcMid.
From LZ4V Require Import Proofs.BlockSpecProofs Proofs.FactorSpec Proofs.FastBasics Proofs.FastCap Proofs.HcEmitProofs.
From LZ4V Require Import Proofs.HcMidSound Proofs.HcMidCap.
Import ListNotations.
Local Open Scope Z_scope.

(* a sequence accepted in limited mode leaves 1 + LASTLITERALS bytes, minus the byte it may not have needed *)
Lemma encodeSequence_success_room src ip anchor op ml off oend :
  anchor <= ip -> MINMATCH <= ml ->
  let e := encodeSequence src ip anchor op ml off true oend in
  e_ret e = 0 -> e_op e <= oend - 5.
Proof.
  intros Hl Hm. unfold encodeSequence. cbv zeta. cbn [andb].
  set (L := ip - anchor) in *. assert (HL0 : 0 <= L) by (unfold L; lia).
  destruct (op + 1 + L / 255 + L + (2 + 1 + LASTLITERALS) >? oend); cbn [e_ret]; [discriminate|].
  pose proof (lit_hdr_len src L HL0) as Hext.
  destruct (if L >=? RUN_MASK then (RUN_MASK, lit_ext (Z.to_nat L) (L - RUN_MASK)) else (L, [])) as [tokhi ext].
  cbn [snd] in Hext. rewrite Hext.
  set (mm := ml - MINMATCH). assert (Hm0 : 0 <= mm) by (unfold mm; lia).
  destruct (op + 1 + extlen L + L + 2 + mm / 255 + (1 + LASTLITERALS) >? oend) eqn:E2; cbn [e_ret]; [discriminate|].
  pose proof (ml_hdr_len src mm Hm0) as Hmx.
  destruct (if mm >=? ML_MASK then (ML_MASK, ml_ext (Z.to_nat mm) (mm - ML_MASK)) else (mm, [])) as [toklo mext].
  cbn [snd] in Hmx. cbn [e_ret e_op]. intros _. rewrite Hmx.
  assert (extlen mm <= mm / 255 + 1) by (unfold extlen; destruct (mm <? 15); Z.div_mod_to_equations; lia).
  unfold LASTLITERALS in *. lia.
Qed.

Lemma extlen_le_add' v : 0 <= v -> extlen v <= (v + 240) / 255.
Proof. intros Hv. unfold extlen. destruct (v <? 15) eqn:B; Z.div_mod_to_equations; lia. Qed.

Section MidFill.
  Variable vrd : Z -> Z.
  Variables prefixIdx dictIdx s0 srcSize maxOut : Z.
  Hypothesis Hb : forall a, 0 <= vrd a < 256.
  Hypothesis Hidx : 0 <= dictIdx /\ dictIdx <= prefixIdx /\ prefixIdx <= s0 /\ s0 + srcSize < M32.
  Hypothesis Hsz : 0 <= srcSize.
  Variable lo : Z.
  Hypothesis Hlo : 0 <= lo <= dictIdx.

  Notation iend := (mi_iend s0 srcSize).
  Notation mflimit := (mi_mflimit s0 srcSize).
  Notation matchlimit := (mi_matchlimit s0 srcSize).
  Notation out_ss := (out_ss vrd s0 srcSize lo).
  Notation MInv := (MInv vrd s0 srcSize lo).
  Notation found_ok := (found_ok vrd s0 srcSize lo).
  Variable dsrch : Z -> option found.
  Hypothesis Hdsrch : forall ip f, s0 <= ip <= mflimit -> dsrch ip = Some f -> found_ok ip f.

  (* what a truncated last run would look like after the sequences [ss], with the output cursor at [op] *)
  Definition trunc_run (op : Z) : Z := let lr := maxOut - op - 1 in lr - (lr + 256 - RUN_MASK) / 256.
  Definition room_ok (op : Z) (ss : list seq) : Prop :=
    forall q r, rev ss = q :: r -> 5 <= trunc_run op /\ 12 <= s_mlen q + trunc_run op.

  Definition RFill (r : mres) : Prop :=
    match r with
    | MOk ret consumed out h4 h8 hw => strict_valid (seg vrd lo s0) out = Some (seg vrd s0 (s0 + consumed))
    | _ => True
    end.

  Lemma last_literals_fill s ss :
    out_ss (m_rout s) (m_anchor s) ss -> s0 <= m_anchor s <= iend -> room_ok (m_op s) ss ->
    RFill (last_literals vrd FillOutput s0 srcSize s maxOut).
  Proof.
    intros (Hr & Hv & He & Hend) Ha Hroom. pose proof (limits s0 srcSize) as (L1 & L2 & L3).
    unfold last_literals. cbv zeta.
    set (lastRun := iend - m_anchor s).
    assert (Emit : forall lr, 0 <= lr <= lastRun ->
      (forall q r, rev ss = q :: r -> 5 <= lr /\ 12 <= s_mlen q + lr) ->
      RFill (let hdr := if lr >=? RUN_MASK then RUN_MASK * 16 :: lit_ext (Z.to_nat lr) (lr - RUN_MASK) else [lr * 16] in
             let bytes := hdr ++ src_bytes vrd (Z.to_nat lr) (m_anchor s) in
             let op' := m_op s + Z.of_nat (length bytes) in
             MOk op' (m_anchor s + lr - s0) (rev_append (m_rout s) bytes) (m_h4 s) (m_h8 s) (Z.max (m_hw s) op'))).
    { intros lr Hlr Hend'. cbv zeta. cbn [RFill].
      set (last := seg vrd (m_anchor s) (m_anchor s + lr)).
      assert (Hlen : Z.of_nat (length last) = lr) by (subst last; rewrite seg_length; lia).
      assert (Henc : (if lr >=? RUN_MASK then RUN_MASK * 16 :: lit_ext (Z.to_nat lr) (lr - RUN_MASK) else [lr * 16])
                     ++ src_bytes vrd (Z.to_nat lr) (m_anchor s) = encode_last last).
      { unfold encode_last. cbv zeta. unfold byte in *. rewrite Hlen. rewrite src_bytes_seg by lia. fold last.
        unfold enc_nib, enc_ext, RUN_MASK.
        destruct (lr >=? 15) eqn:E; destruct (lr <? 15) eqn:E'; try lia.
        - rewrite lit_ext_spec; [reflexivity | lia |]. left. Z.div_mod_to_equations. lia.
        - reflexivity. }
      rewrite Henc.
      assert (Hout : rev_append (m_rout s) (encode_last last) = encode_block ss last).
      { rewrite rev_append_rev, Hr. reflexivity. }
      replace (s0 + (m_anchor s + lr - s0)) with (m_anchor s + lr) by lia.
      rewrite Hout.
      rewrite strict_valid_encode; [| eapply seqs_valid_wf; eauto | subst last; apply seg_bytes_ok; exact Hb].
      assert (Eo : end_ok ss last = true).
      { unfold end_ok. destruct (rev ss) as [|q r] eqn:Er; [reflexivity|].
        destruct (Hend' q r eq_refl) as [E1 E2]. unfold byte in *. rewrite Hlen. lia. }
      rewrite Eo. apply (factor_decodes vrd lo s0 (m_anchor s + lr) ss last); try assumption; try lia.
      subst last. rewrite He. reflexivity. }
    cbn [limited andb].
    destruct (m_op s + (1 + (lastRun + 255 - RUN_MASK) / 255 + lastRun) >? maxOut) eqn:E.
    - destruct (maxOut - m_op s <? 1) eqn:E1; [exact I|].
      apply Emit.
      + unfold RUN_MASK in *. subst lastRun.
        set (lr := iend - m_anchor s) in *. assert (0 <= lr) by (subst lr; lia). clearbody lr.
        assert (E' : m_op s + (1 + (lr + 255 - 15) / 255 + lr) > maxOut) by lia.
        assert (Hx : 0 <= maxOut - m_op s - 1) by lia.
        set (x := maxOut - m_op s - 1) in *.
        replace maxOut with (x + m_op s + 1) in E' by (subst x; lia). clearbody x. clear E E1.
        Z.div_mod_to_equations. lia.
      + exact Hroom.
    - apply Emit; [subst lastRun; lia|].
      intros q r Hq. unfold end_inv in Hend. rewrite Hq in Hend. subst lastRun. lia.
  Qed.

  Lemma trunc_run_ge op k : 5 <= k -> op <= maxOut - 1 - k -> (k < 15 -> k <= trunc_run op) /\ (15 <= k -> 13 <= trunc_run op).
  Proof.
    intros Hk Hop. unfold trunc_run, RUN_MASK. cbv zeta.
    set (lr := maxOut - op - 1). assert (k <= lr) by (subst lr; lia). clearbody lr.
    split; intros; Z.div_mod_to_equations; lia.
  Qed.

  Lemma dest_overflow_fill s ss ml dist :
    out_ss (m_rout s) (m_anchor s) ss -> s0 <= m_anchor s <= m_ip s -> m_ip s <= mflimit ->
    match_ok vrd lo (m_ip s) dist ml -> m_ip s + ml <= matchlimit -> room_ok (m_op s) ss ->
    RFill (dest_overflow vrd FillOutput s0 srcSize s ml dist (maxOut - LASTLITERALS)).
  Proof.
    intros Hss Ha Hipm Hm Hml Hroom. pose proof (limits s0 srcSize) as (L1 & L2 & L3).
    unfold dest_overflow. cbv zeta. unfold LASTLITERALS. replace (maxOut - 5 + 5) with maxOut by lia.
    assert (Hai : m_anchor s <= iend) by (destruct Hm as (_ & ? & _); lia).
    assert (Same : RFill (last_literals vrd FillOutput s0 srcSize s maxOut)).
    { apply (last_literals_fill s ss Hss); [lia | exact Hroom]. }
    set (L := m_ip s - m_anchor s) in *. assert (HL : 0 <= L) by (subst L; lia).
    assert (EL : L = m_ip s - m_anchor s) by reflexivity. clearbody L.
    pose proof (extlen_le_add' L HL) as HeL. pose proof (extlen_nonneg L) as HeL0.
    destruct (m_op s + (1 + (L + 240) / 255 + L) <=? maxOut - 5 - 3) eqn:E1; [|exact Same].
    set (left := maxOut - 5 - 3 - (m_op s + (1 + (L + 240) / 255 + L))) in *.
    assert (Hleft : 0 <= left) by (subst left; lia).
    assert (Eleft : left = maxOut - 5 - 3 - (m_op s + (1 + (L + 240) / 255 + L))) by reflexivity.
    clearbody left.
    set (mx := MINMATCH + (ML_MASK - 1) + left * 255).
    set (ml' := if ml >? mx then mx else ml).
    destruct (maxOut - (m_op s + (1 + (L + 240) / 255 + L) + 2) - 1 + ml' >=? MFLIMIT) eqn:E2; [|exact Same].
    assert (Hml' : 4 <= ml' <= mx /\ ml' <= ml).
    { destruct Hm as (_ & H4 & _). subst ml' mx. unfold MINMATCH, ML_MASK, MFLIMIT in *. destruct (ml >? _) eqn:E3; lia. }
    assert (Emx : mx = 18 + left * 255) by (subst mx; unfold MINMATCH, ML_MASK; lia).
    clearbody ml'. clearbody mx.
    pose proof (match_ok_shorten vrd lo (m_ip s) dist ml ml' Hm ltac:(lia)) as Hm'.
    pose proof (encodeSequence_notlimited vrd (m_ip s) (m_anchor s) (m_op s) ml' dist (maxOut - 5)) as Hret.
    pose proof (out_ss_snoc vrd s0 srcSize lo (m_rout s) (m_anchor s) ss (m_ip s) ml' dist (m_op s) false (maxOut - 5)
                  Hss ltac:(lia) Hm' Hipm ltac:(lia)) as Hsn. cbv zeta in Hsn. specialize (Hsn Hret).
    pose proof (encodeSequence_shape vrd (m_ip s) (m_anchor s) (m_op s) ml' dist false (maxOut - 5) ltac:(lia) ltac:(unfold MINMATCH; lia)) as Hsh.
    cbv zeta in Hsh. specialize (Hsh Hret). rewrite <- EL in Hsh. destruct Hsh as (Hso & _).
    assert (Hem : extlen (ml' - MINMATCH) <= left /\ (ml' < 19 -> extlen (ml' - MINMATCH) = 0)).
    { unfold extlen, MINMATCH in *. destruct (ml' - 4 <? 15) eqn:B; [lia|]. split; [Z.div_mod_to_equations; lia | lia]. }
    pose proof (extlen_nonneg (ml' - MINMATCH)) as Hem0.
    eapply last_literals_fill; [exact Hsn | cbn [m_anchor]; lia |].
    (* room after the sequence written by the epilogue *)
    cbn [m_op]. intros q r Hq. rewrite rev_app_distr in Hq. cbn [rev app] in Hq. inversion Hq; subst q r; clear Hq.
    cbn [s_mlen]. set (op2 := e_op (encodeSequence vrd (m_ip s) (m_anchor s) (m_op s) ml' dist false (maxOut - 5))) in *.
    clearbody op2. destruct Hem as (Hem1 & Hem2).
    assert (Hop2 : op2 <= maxOut - 1 - 5) by lia.
    pose proof (trunc_run_ge op2 5 ltac:(lia) Hop2) as (T1 & _). specialize (T1 ltac:(lia)).
    split; [lia|].
    destruct (Z_lt_le_dec ml' 12) as [Hs|Hb12]; [|lia].
    (* a short match: no length bytes, and the explicit MFLIMIT test of the epilogue *)
    specialize (Hem2 ltac:(lia)). unfold MFLIMIT in *.
    set (k := maxOut - op2 - 1). assert (Hk : 5 <= k) by (subst k; lia).
    assert (Hk2 : 12 - ml' <= k) by (subst k; lia).
    destruct (Z_lt_le_dec k 15) as [Hk15|Hk15].
    - pose proof (trunc_run_ge op2 k Hk ltac:(subst k; lia)) as (T2 & _). specialize (T2 Hk15). lia.
    - pose proof (trunc_run_ge op2 k Hk ltac:(subst k; lia)) as (_ & T3). specialize (T3 Hk15). lia.
  Qed.

  Definition FInv (s : mst) : Prop := exists ss, out_ss (m_rout s) (m_anchor s) ss /\ room_ok (m_op s) ss.

  Lemma encode_step_fill s f h4 h8 :
    MInv s -> FInv s -> m_ip s <= mflimit -> found_ok (m_ip s) f ->
    match encode_step vrd FillOutput prefixIdx s0 srcSize s (u32 (m_ip s)) f h4 h8 (maxOut - LASTLITERALS) with
    | inl s' => FInv s'
    | inr r => RFill r
    end.
  Proof.
    intros (Ha & Hae & _) (ss & Hss & Hroom) Hip (Hfi & Hfm & Hfl).
    pose proof (limits s0 srcSize) as (L1 & L2 & L3).
    unfold encode_step.
    assert (Hfa : m_anchor s <= f_ip f) by lia.
    pose proof (catchback_match vrd prefixIdx dictIdx s0 srcSize Hidx lo Hlo (Z.to_nat (f_ip f - m_anchor s)) (f_ip f) (f_ml f) (m_anchor s) (f_dist f)
                  ltac:(lia) Hfa ltac:(unfold M32 in *; lia) Hfm) as Hcb. cbv zeta in Hcb.
    destruct (catchback vrd prefixIdx (Z.to_nat (f_ip f - m_anchor s)) (f_ip f) (f_ml f) (m_anchor s) (f_dist f)) as [ip ml].
    cbn [fst snd] in Hcb. destruct Hcb as (C1 & C2 & C3). cbv zeta.
    assert (Hml4 : 4 <= ml) by (destruct C3 as (_ & ? & _); assumption).
    cbn [limited].
    match goal with |- context [encodeSequence vrd ip (m_anchor s) (m_op s) ml (f_dist f) true ?oe] =>
      set (e := encodeSequence vrd ip (m_anchor s) (m_op s) ml (f_dist f) true oe) end.
    destruct (e_ret e =? 0) eqn:Er.
    - assert (Hret : e_ret e = 0) by lia.
      pose proof (out_ss_snoc vrd s0 srcSize lo (m_rout s) (m_anchor s) ss ip ml (f_dist f) (m_op s) true (maxOut - LASTLITERALS)
                    Hss ltac:(lia) C3 ltac:(lia) ltac:(lia)) as Hsn. cbv zeta in Hsn. fold e in Hsn. specialize (Hsn Hret).
      pose proof (encodeSequence_success_room vrd ip (m_anchor s) (m_op s) ml (f_dist f) (maxOut - LASTLITERALS)
                    ltac:(lia) ltac:(unfold MINMATCH; lia)) as Hrm. cbv zeta in Hrm. fold e in Hrm. specialize (Hrm Hret).
      assert (F : forall T4 T8 hw, FInv (mkM (ip + ml) (ip + ml) (e_op e) (rev_append (e_bytes e) (m_rout s)) T4 T8 hw)).
      { intros T4 T8 hw. eexists. split; [exact Hsn|]. cbn [m_op].
        intros q r Hq. rewrite rev_app_distr in Hq. cbn [rev app] in Hq. inversion Hq; subst q r; clear Hq.
        cbn [s_mlen]. unfold LASTLITERALS in Hrm.
        pose proof (trunc_run_ge (e_op e) 9 ltac:(lia) ltac:(lia)) as (T1 & _). specialize (T1 ltac:(lia)). lia. }
      match goal with |- context [if ?c then _ else _] => destruct c end; apply F.
    - apply (dest_overflow_fill _ ss); cbn [m_ip m_anchor m_op m_rout]; try assumption; lia.
  Qed.

  Lemma main_loop_fill : forall fuel s, MInv s -> FInv s ->
    RFill (main_loop vrd FillOutput prefixIdx dictIdx s0 srcSize dsrch fuel s (maxOut - LASTLITERALS)).
  Proof.
    induction fuel as [|fuel IH]; intros s HI HF; cbn [main_loop]; [exact I|]. cbv zeta.
    pose proof (limits s0 srcSize) as (L1 & L2 & L3).
    pose proof HI as (Ha & Hae & Ho & Hop & T4 & T8 & T4e & T8e).
    destruct (m_ip s <=? mflimit) eqn:Eip.
    - pose proof (search_sound vrd prefixIdx dictIdx s0 srcSize Hidx lo Hlo (m_ip s) (m_h4 s) (m_h8 s) ltac:(lia) T4 T8) as Hs.
      destruct (search vrd prefixIdx dictIdx s0 srcSize (m_ip s) (m_h4 s) (m_h8 s)) as [[[fd|] h4'] h8'].
      + destruct Hs as (Hfd & A4 & A8).
        pose proof (encode_step_sound vrd FillOutput prefixIdx dictIdx s0 srcSize Hb Hidx lo Hlo dsrch Hdsrch s fd h4' h8' (maxOut - LASTLITERALS) HI ltac:(lia) Hfd A4 A8) as He1.
        pose proof (encode_step_fill s fd h4' h8' HI HF ltac:(lia) Hfd) as He2.
        destruct (encode_step vrd FillOutput prefixIdx s0 srcSize s (u32 (m_ip s)) fd h4' h8' (maxOut - LASTLITERALS)) as [s'|r]; [|exact He2].
        apply IH; assumption.
      + destruct Hs as (A4 & A8).
        destruct (dsrch (m_ip s)) as [fd|] eqn:Ed.
        { pose proof (Hdsrch (m_ip s) fd ltac:(lia) Ed) as Hfd.
          pose proof (encode_step_sound vrd FillOutput prefixIdx dictIdx s0 srcSize Hb Hidx lo Hlo dsrch Hdsrch s fd h4' h8' (maxOut - LASTLITERALS) HI ltac:(lia) Hfd A4
                        ltac:(eapply tab_lt_mono; eauto; lia)) as He1.
          pose proof (encode_step_fill s fd h4' h8' HI HF ltac:(lia) Hfd) as He2.
          destruct (encode_step vrd FillOutput prefixIdx s0 srcSize s (u32 (m_ip s)) fd h4' h8' (maxOut - LASTLITERALS)) as [s'|r]; [|exact He2].
          apply IH; assumption. }
        assert (Hq : 0 <= (m_ip s - m_anchor s) / 512) by (Z.div_mod_to_equations; lia).
        apply IH.
        * unfold HcMidSound.MInv. cbn [m_ip m_anchor m_op m_rout m_h4 m_h8].
          split; [lia|]. split; [lia|]. split; [exact Ho|]. split; [exact Hop|].
          split; [eapply tab_lt_mono; eauto; lia|]. split; [eapply tab_lt_mono; eauto; lia|].
          split; eapply tab_lt_mono; eauto; lia.
        * destruct HF as (ss & F1 & F2). exists ss. cbn [m_rout m_anchor m_op]. split; assumption.
    - destruct HF as (ss & F1 & F2). unfold LASTLITERALS. replace (maxOut - 5 + 5) with maxOut by lia.
      apply (last_literals_fill s ss F1); [lia | exact F2].
  Qed.

  (* LZ4MID_compress with limit == fillOutput *)
  Theorem mid_compress_fill_strict h4 h8 :
    tab_lt h4 s0 -> tab_lt h8 s0 ->
    RFill (mid_compress vrd FillOutput prefixIdx dictIdx s0 srcSize maxOut dsrch h4 h8).
  Proof.
    intros T4 T8. pose proof (limits s0 srcSize) as (L1 & L2 & L3). unfold mid_compress.
    destruct ((srcSize <? 0) || (maxOut <? 0) || (srcSize >? LZ4_MAX_INPUT_SIZE)); [exact I|]. cbv zeta.
    assert (Hss : out_ss [] s0 []) by (cbn; repeat split; reflexivity).
    assert (Hroom : room_ok 0 []) by (intros q r Hq; discriminate Hq).
    destruct (srcSize <? LZ4_minLength).
    - apply (last_literals_fill _ []); cbn [m_rout m_anchor m_op]; [exact Hss | lia | exact Hroom].
    - apply main_loop_fill.
      + unfold HcMidSound.MInv. cbn [m_ip m_anchor m_op m_rout m_h4 m_h8 length].
        split; [lia|]. split; [lia|]. split; [exists []; exact Hss|]. split; [reflexivity|].
        split; [exact T4|]. split; [exact T8|]. split; eapply tab_lt_mono; eauto; lia.
      + exists []. cbn [m_rout m_anchor m_op]. split; [exact Hss | exact Hroom].
  Qed.
End MidFill.
