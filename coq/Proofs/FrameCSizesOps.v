(* Proofs about the size model of the LZ4F streaming compressor, part 2:
   compressBegin / flush / compressEnd / compressFrame, the invariant over all
   histories and the statements exported as property C10. *)
From Coq Require Import ZArith List Lia Bool ZifyBool.
From LZ4V Require Import Gen.Consts Model.FrameCSizes Proofs.FrameCSizesProofs.
Import ListNotations.
Local Open Scope Z_scope.

(* ------------------------------------------------------------------ compressBegin *)
Lemma header_size_bounds : forall p, minFHSize <= header_size p <= maxFHSize.
Proof.
  intros p. unfold header_size, minFHSize, maxFHSize.
  destruct (p_csize p =? 0); destruct (p_dictid p =? 0); lia.
Qed.

Definition begin_prefs (po : option prefs) : prefs :=
  let p := match po with None => prefs_init | Some p => p end in
  if p_bsid p =? 0 then set_bsid p LZ4F_BLOCKSIZEID_DEFAULT else p.

Lemma begin_prefs_range : forall po, prefs_ok po -> bsid_in_range (p_bsid (begin_prefs po)) = true.
Proof.
  intros po H. unfold begin_prefs.
  destruct po as [p|]; cbn [prefs_ok] in H.
  - destruct (p_bsid p =? 0) eqn:E; [reflexivity|].
    apply valid_bsid0_cases in H. unfold bsid_in_range, LZ4F_max64KB, LZ4F_max4MB. lia.
  - reflexivity.
Qed.

Lemma begin_spec : forall c po cap, Inv c -> prefs_ok po -> 0 <= cap ->
  let '(x, c') := compressBegin c po cap in
  Inv c' /\ safe_out x cap /\
  (maxFHSize <= cap ->
   o_ret x = Ok (header_size (begin_prefs po)) /\ o_ext x = header_size (begin_prefs po) /\
   c_prefs c' = begin_prefs po /\ c_stage c' = 1 /\ c_tmpInSize c' = 0 /\ c_unc c' = c_unc c /\
   c_totalIn c' = (if p_csize (begin_prefs po) =? 0 then c_totalIn c else 0)).
Proof.
  intros c po cap Hinv Hok Hcap. unfold compressBegin.
  destruct (cap <? maxFHSize) eqn:E.
  { split; [exact Hinv|]. split; [unfold safe_out; cbn; repeat split; try lia; try discriminate|]. lia. }
  fold (begin_prefs po). rewrite (begin_prefs_range po Hok). cbn [negb].
  pose proof (header_size_bounds (begin_prefs po)) as Hh. unfold minFHSize in Hh.
  pose proof (begin_prefs_range po Hok) as Hr.
  pose proof (getBlockSize_vbs _ (bsid_in_range_valid0 _ Hr)) as Hvb. apply vbs_pos in Hvb.
  split.
  { unfold Inv. cbn [c_tmpInSize c_prefs c_stage c_maxBlockSize].
    repeat split; try lia; auto using bsid_in_range_valid0. }
  split.
  { unfold safe_out. cbn [o_ret o_ext]. repeat split; try discriminate; try lia;
      try (match goal with H : Ok _ = Ok _ |- _ => inversion H; lia end). }
  intros _. cbn. repeat split; reflexivity.
Qed.

(* ------------------------------------------------------------------ flush as an operation, compressEnd *)
Lemma flush_op_spec : forall c cap tape, Inv c -> 0 <= cap ->
  let '(r, c', w) := flush c cap (wr0 tape) in
  Inv c' /\ safe_out (out_of r w) cap /\
  (c_tmpInSize c + 8 <= cap \/ c_tmpInSize c = 0 -> exists n, r = Ok n /\ c_tmpInSize c' = 0).
Proof.
  intros c cap tape Hinv Hcap.
  pose proof Hinv as (H0 & _).
  destruct (flush_spec c cap tape Hinv Hcap) as [(Ht0 & Hf)|[(Htp & Hsm & Hf)|(Htp & Hbig & wf & Hf & Hwp & Hwe & Hwx)]];
    rewrite Hf.
  - split; [exact Hinv|]. split.
    + unfold safe_out, out_of. cbn. repeat split; try discriminate; try lia;
        try (match goal with H : Ok _ = Ok _ |- _ => inversion H; lia end).
    + intros _. exists 0. auto.
  - split; [exact Hinv|]. split.
    + unfold safe_out, out_of. cbn. repeat split; try discriminate; try lia.
    + intros [H|H]; lia.
  - pose proof (bfull_le (p_bchk (c_prefs c)) (c_tmpInSize c)).
    split; [apply Inv_set_tmpIn0; exact Hinv|]. split.
    + unfold safe_out, out_of. cbn [o_ret o_ext]. repeat split; try discriminate; try lia;
        try (match goal with H : Ok _ = Ok _ |- _ => inversion H; lia end).
    + intros _. exists (w_pos wf). auto.
Qed.

Lemma end_spec : forall c cap tape, Inv c -> 0 <= cap ->
  let '(x, c', t') := compressEnd c cap tape in
  Inv c' /\ safe_out x cap /\
  ((if 0 <? c_tmpInSize c then bfull (p_bchk (c_prefs c)) (c_tmpInSize c) else 0) + frameEnd (c_prefs c) <= cap ->
   (0 < c_tmpInSize c -> c_tmpInSize c + 8 <= cap) ->
   o_ext x <= (if 0 <? c_tmpInSize c then bfull (p_bchk (c_prefs c)) (c_tmpInSize c) else 0) + frameEnd (c_prefs c) /\
   (o_ret x = Err C10_ERR_frameSize_wrong \/
    (exists w, o_ret x = Ok w /\ (c_tmpInSize c = 0 -> w = frameEnd (c_prefs c)))) /\
   (p_csize (c_prefs c) = 0 \/ p_csize (c_prefs c) = c_totalIn c -> exists w, o_ret x = Ok w)).
Proof.
  intros c cap tape Hinv Hcap. unfold compressEnd.
  pose proof Hinv as (H0 & _).
  pose proof (frameEnd_pos (c_prefs c)) as Hfe.
  assert (Hfin : forall c1 w (cap' : Z), Inv c1 -> c_tmpInSize c1 = 0 -> c_prefs c1 = c_prefs c ->
            c_totalIn c1 = c_totalIn c -> 0 <= w_pos w <= w_ext w -> w_ext w <= cap ->
     let '(x, c', t') :=
       (let c2 := set_stage c1 0 in
        if negb (p_csize (c_prefs c1) =? 0) && negb (p_csize (c_prefs c1) =? c_totalIn c1)
        then (out_of (Err C10_ERR_frameSize_wrong) w, c2, w_tape w)
        else (out_of (Ok (w_pos w)) w, c2, w_tape w)) in
     Inv c' /\ safe_out x cap /\ o_ext x = w_ext w /\
     (o_ret x = Err C10_ERR_frameSize_wrong \/ o_ret x = Ok (w_pos w)) /\
     (p_csize (c_prefs c) = 0 \/ p_csize (c_prefs c) = c_totalIn c -> o_ret x = Ok (w_pos w))).
  { intros c1 w cap' (I0 & Iv & Ip & Is) Ht1 Hpr Htot Hw Hwc. cbv zeta. rewrite Hpr, Htot.
    assert (Hi2 : Inv (set_stage c1 0)).
    { unfold Inv, set_stage. cbn [c_tmpInSize c_prefs c_stage c_maxBlockSize].
      repeat split; try lia; auto; intros; lia. }
    destruct (negb (p_csize (c_prefs c) =? 0) && negb (p_csize (c_prefs c) =? c_totalIn c)) eqn:E.
    - split; [exact Hi2|]. unfold safe_out, out_of. cbn [o_ret o_ext].
      repeat split; try discriminate; try lia; auto; try (intros [Hz|Hz]; lia).
    - split; [exact Hi2|]. unfold safe_out, out_of. cbn [o_ret o_ext].
      repeat split; try discriminate; try lia; auto;
        try (match goal with H : Ok _ = Ok _ |- _ => inversion H; lia end). }
  destruct (flush_spec c cap tape Hinv Hcap) as [(Ht0 & Hf)|[(Htp & Hsm & Hf)|(Htp & Hbig & wf & Hf & Hwp & Hwe & Hwx)]];
    rewrite Hf; cbv beta iota zeta.
  - (* nothing to flush *)
    rewrite Z.sub_0_r. destruct (0 <? c_tmpInSize c) eqn:Ez; [lia|]. rewrite Z.add_0_l.
    destruct (cap <? 4) eqn:E4.
    { split; [exact Hinv|]. split; [unfold safe_out, out_of; cbn; repeat split; try lia; try discriminate|]. lia. }
    destruct (p_cchk (c_prefs c)) eqn:Ecc.
    + destruct (cap <? 8) eqn:E8.
      { split; [exact Hinv|]. split; [unfold safe_out, out_of; cbn; repeat split; try lia; try discriminate|].
        unfold frameEnd, BHSize, BFSize. rewrite Ecc. cbn [bz]. lia. }
      pose proof (Hfin c (write_raw 4 (write_raw 4 (wr0 tape))) cap Hinv Ht0 eq_refl eq_refl) as Hx.
      cbn [write_raw wr0 w_pos w_ext w_tape w_log] in Hx. cbv zeta in Hx.
      cbn [write_raw wr0 w_pos w_ext w_tape w_log].
      destruct (if negb (p_csize (c_prefs c) =? 0) && negb (p_csize (c_prefs c) =? c_totalIn c)
                then _ else _) as [[x c'] t'].
      destruct Hx as (Hi & Hs & He & Hr & Hok); try lia.
      split; [exact Hi|]. split; [exact Hs|]. intros _ _.
      unfold frameEnd, BHSize, BFSize. rewrite Ecc. cbn [bz]. rewrite He.
      split; [lia|]. split.
      * destruct Hr as [Hr|Hr]; [left; exact Hr|right]. eexists; split; [exact Hr|]. intros; lia.
      * intros Hz. eexists. exact (Hok Hz).
    + pose proof (Hfin c (write_raw 4 (wr0 tape)) cap Hinv Ht0 eq_refl eq_refl) as Hx.
      cbn [write_raw wr0 w_pos w_ext w_tape w_log] in Hx. cbv zeta in Hx.
      cbn [write_raw wr0 w_pos w_ext w_tape w_log].
      destruct (if negb (p_csize (c_prefs c) =? 0) && negb (p_csize (c_prefs c) =? c_totalIn c)
                then _ else _) as [[x c'] t'].
      destruct Hx as (Hi & Hs & He & Hr & Hok); try lia.
      split; [exact Hi|]. split; [exact Hs|]. intros _ _.
      unfold frameEnd, BHSize, BFSize. rewrite Ecc. cbn [bz]. rewrite He.
      split; [lia|]. split.
      * destruct Hr as [Hr|Hr]; [left; exact Hr|right]. eexists; split; [exact Hr|]. intros; lia.
      * intros Hz. eexists. exact (Hok Hz).
  - (* flush fails *)
    split; [exact Hinv|]. split; [unfold safe_out, out_of; cbn; repeat split; try lia; try discriminate|].
    intros _ Hc. specialize (Hc Htp). lia.
  - (* a block is flushed first *)
    pose proof (bfull_le (p_bchk (c_prefs c)) (c_tmpInSize c)) as Hbl.
    pose proof (Inv_set_tmpIn0 c Hinv) as Hinv1.
    destruct (0 <? c_tmpInSize c) eqn:Ez; [|lia].
    cbn [set_tmpIn c_prefs].
    destruct (cap - w_pos wf <? 4) eqn:E4.
    { split; [exact Hinv1|]. split; [unfold safe_out, out_of; cbn [o_ret o_ext]; repeat split; try lia; try discriminate|].
      lia. }
    destruct (p_cchk (c_prefs c)) eqn:Ecc.
    + destruct (cap - w_pos wf <? 8) eqn:E8.
      { split; [exact Hinv1|].
        split; [unfold safe_out, out_of; cbn [o_ret o_ext write_raw w_ext w_pos]; repeat split; try lia; try discriminate|].
        unfold frameEnd, BHSize, BFSize. rewrite Ecc. cbn [bz]. lia. }
      pose proof (Hfin (set_tmpIn c 0) (write_raw 4 (write_raw 4 wf)) cap Hinv1 eq_refl eq_refl eq_refl) as Hx.
      cbn [set_tmpIn c_prefs c_totalIn] in Hx. cbv zeta in Hx.
      destruct (if negb (p_csize (c_prefs c) =? 0) && negb (p_csize (c_prefs c) =? c_totalIn c)
                then _ else _) as [[x c'] t'].
      cbn [write_raw w_pos w_ext] in Hx.
      destruct Hx as (Hi & Hs & He & Hr & Hok); try lia.
      split; [exact Hi|]. split; [exact Hs|]. intros _ _.
      unfold frameEnd, BHSize, BFSize. rewrite Ecc. cbn [bz]. rewrite He.
      split; [lia|]. split.
      * destruct Hr as [Hr|Hr]; [left; exact Hr|right]. eexists; split; [exact Hr|]. intros; lia.
      * intros Hz. eexists. exact (Hok Hz).
    + pose proof (Hfin (set_tmpIn c 0) (write_raw 4 wf) cap Hinv1 eq_refl eq_refl eq_refl) as Hx.
      cbn [set_tmpIn c_prefs c_totalIn] in Hx. cbv zeta in Hx.
      destruct (if negb (p_csize (c_prefs c) =? 0) && negb (p_csize (c_prefs c) =? c_totalIn c)
                then _ else _) as [[x c'] t'].
      cbn [write_raw w_pos w_ext] in Hx.
      destruct Hx as (Hi & Hs & He & Hr & Hok); try lia.
      split; [exact Hi|]. split; [exact Hs|]. intros _ _.
      unfold frameEnd, BHSize, BFSize. rewrite Ecc. cbn [bz]. rewrite He.
      split; [lia|]. split.
      * destruct Hr as [Hr|Hr]; [left; exact Hr|right]. eexists; split; [exact Hr|]. intros; lia.
      * intros Hz. eexists. exact (Hok Hz).
Qed.

(* ------------------------------------------------------------------ every operation, every history *)
Lemma step_safe : forall c tape o, Inv c -> op_wf o ->
  let '(x, c', t') := step true c tape o in Inv c' /\ safe_out x (cap_of o).
Proof.
  intros c tape o Hinv Hwf. destruct o as [po cap|n cap|n cap|cap|cap]; cbn [step cap_of op_wf] in *.
  - destruct Hwf as [Hok Hcap]. pose proof (begin_spec c po cap Hinv Hok Hcap) as H.
    destruct (compressBegin c po cap) as [x c']. destruct H as (Hi & Hs & _). auto.
  - destruct Hwf as [Hn Hcap]. pose proof (update_spec c false n cap tape Hinv Hn Hcap) as H.
    destruct (updateImpl true c false n cap tape) as [[x c'] t']. destruct H as (Hi & Hs & _). auto.
  - destruct Hwf as [Hn Hcap]. pose proof (update_spec c true n cap tape Hinv Hn Hcap) as H.
    destruct (updateImpl true c true n cap tape) as [[x c'] t']. destruct H as (Hi & Hs & _). auto.
  - pose proof (flush_op_spec c cap tape Hinv Hwf) as H.
    destruct (flush c cap (wr0 tape)) as [[r c'] w]. destruct H as (Hi & Hs & _). auto.
  - pose proof (end_spec c cap tape Hinv Hwf) as H.
    destruct (compressEnd c cap tape) as [[x c'] t']. destruct H as (Hi & Hs & _). auto.
Qed.

Lemma run_inv : forall ops c tape, Inv c -> Forall op_wf ops ->
  let '(xs, c', t') := run true c tape ops in
  Inv c' /\ Forall2 (fun x o => safe_out x (cap_of o)) xs ops.
Proof.
  induction ops as [|o r IH]; intros c tape Hinv Hwf; cbn [run].
  - split; [exact Hinv|constructor].
  - inversion Hwf as [|? ? Ho Hr]; subst.
    pose proof (step_safe c tape o Hinv Ho) as Hs.
    destruct (step true c tape o) as [[x c1] t1]. destruct Hs as (Hi1 & Hs1).
    pose proof (IH c1 t1 Hi1 Hr) as Hrec.
    destruct (run true c1 t1 r) as [[xs c2] t2]. destruct Hrec as (Hi2 & Hf).
    split; [exact Hi2|]. constructor; auto.
Qed.

(* state reached from a fresh context by any well-formed history, with any tape *)
Definition reachable (c : cctx) : Prop :=
  exists ops tape, Forall op_wf ops /\ snd (fst (run true cctx0 tape ops)) = c.

Lemma reachable_inv : forall c, reachable c -> Inv c.
Proof.
  intros c (ops & tape & Hwf & Hc). pose proof (run_inv ops cctx0 tape Inv0 Hwf) as H.
  destruct (run true cctx0 tape ops) as [[xs c'] t']. cbn [fst snd] in Hc. subst c'. tauto.
Qed.

(* ------------------------------------------------------------------ (a) LZ4F_compressBound suffices for an update *)
Lemma cbi_le_cb : forall c n, Inv c -> c_stage c = 1 -> 0 <= n ->
  compressBound_internal n (Some (c_prefs c)) (c_tmpInSize c) <= compressBound n (Some (c_prefs c)).
Proof.
  intros c n Hinv Hst Hn. pose proof Hinv as (H0 & Hv & Hp & Hs). destruct (Hs Hst) as (Hbs & Hlt & Haf).
  destruct (Inv_bs c Hinv Hst) as (_ & Hbs2). rewrite Hbs in *.
  rewrite cbi_t by (auto; lia). rewrite cb_eq by auto.
  destruct (p_af (c_prefs c)) eqn:Ea.
  - rewrite (Haf eq_refl). lia.
  - pose proof (core_mono_t (p_bchk (c_prefs c)) (getBlockSize (p_bsid (c_prefs c))) n (c_tmpInSize c)). lia.
Qed.

Lemma cb_ge_n : forall p n, valid_bsid0 (p_bsid p) = true -> 0 <= n -> n <= compressBound n (Some p).
Proof.
  intros p n Hv Hn. rewrite cb_eq by auto.
  pose proof (getBlockSize_vbs _ Hv) as Hb. apply vbs_pos in Hb. pose proof (frameEnd_pos p).
  destruct (p_af p).
  - pose proof (core_ge_n_af (p_bchk p) (getBlockSize (p_bsid p)) n). lia.
  - pose proof (core_ge_n_full (p_bchk p) (getBlockSize (p_bsid p)) n). lia.
Qed.

Lemma update_fits : forall c unc n cap tape,
  reachable c -> c_stage c = 1 -> 0 <= n ->
  (c_unc c = unc \/ c_tmpInSize c = 0) ->
  compressBound n (Some (c_prefs c)) <= cap ->
  let '(x, c', t') := updateImpl true c unc n cap tape in
  exists w, o_ret x = Ok w /\ 0 <= w <= o_ext x /\
    o_ext x <= compressBound_internal n (Some (c_prefs c)) (c_tmpInSize c) - frameEnd (c_prefs c) /\
    compressBound_internal n (Some (c_prefs c)) (c_tmpInSize c) <= compressBound n (Some (c_prefs c)) /\
    compressBound n (Some (c_prefs c)) <= cap.
Proof.
  intros c unc n cap tape Hr Hst Hn Hmode Hcap. pose proof (reachable_inv c Hr) as Hinv.
  pose proof (cbi_le_cb c n Hinv Hst Hn) as Hle.
  pose proof Hinv as (_ & Hv & _).
  pose proof (cb_ge_n (c_prefs c) n Hv Hn) as Hgn.
  assert (Hcap0 : 0 <= cap) by lia.
  pose proof (update_spec c unc n cap tape Hinv Hn Hcap0) as H.
  destruct (updateImpl true c unc n cap tape) as [[x c'] t'].
  destruct H as (_ & (_ & _ & Hw) & Hfit).
  destruct Hfit as (w & Hret & Hext & _); auto; try lia.
  exists w. repeat split; auto; try lia; apply (Hw w Hret).
Qed.

(* ------------------------------------------------------------------ (b) LZ4F_compressBound(0) suffices for flush and compressEnd *)
Lemma cb0_ge : forall c, Inv c ->
  (if 0 <? c_tmpInSize c then bfull (p_bchk (c_prefs c)) (c_tmpInSize c) else 0) + frameEnd (c_prefs c)
  <= compressBound 0 (Some (c_prefs c)).
Proof.
  intros c Hinv. pose proof Hinv as (H0 & Hv & Hp & Hs).
  rewrite cb_eq by (auto; lia).
  pose proof (getBlockSize_vbs _ Hv) as Hb. apply vbs_pos in Hb.
  destruct (0 <? c_tmpInSize c) eqn:Ez.
  - assert (Hst : c_stage c = 1) by (apply Hp; lia). destruct (Hs Hst) as (Hbs & Hlt & Haf). rewrite Hbs in *.
    destruct (p_af (c_prefs c)) eqn:Ea; [specialize (Haf eq_refl); lia|].
    pose proof (core_mono_t (p_bchk (c_prefs c)) (getBlockSize (p_bsid (c_prefs c))) 0 (c_tmpInSize c)) as Hm.
    rewrite (core_zero false _ _ (c_tmpInSize c)) in Hm by lia. rewrite Ez in Hm.
    unfold bfull, BHSize, BFSize in *. destruct (p_bchk (c_prefs c)); cbn [bz] in *; lia.
  - destruct (p_af (c_prefs c)).
    + pose proof (core_nonneg true (p_bchk (c_prefs c)) (getBlockSize (p_bsid (c_prefs c))) 0 0). lia.
    + pose proof (core_nonneg false (p_bchk (c_prefs c)) (getBlockSize (p_bsid (c_prefs c))) 0
                    (getBlockSize (p_bsid (c_prefs c)) - 1)). lia.
Qed.

Lemma flush_end_fit : forall c cap tape,
  reachable c -> compressBound 0 (Some (c_prefs c)) <= cap ->
  (let '(r, c', w) := flush c cap (wr0 tape) in
   exists n, r = Ok n /\ 0 <= n <= w_ext w /\ w_ext w <= cap /\ c_tmpInSize c' = 0) /\
  (let '(x, c', t') := compressEnd c cap tape in
   o_ret x <> Err E_tooSmall /\ o_ret x <> Err E_uninit /\ o_ext x <= cap /\
   (p_csize (c_prefs c) = 0 \/ p_csize (c_prefs c) = c_totalIn c ->
    exists w, o_ret x = Ok w /\ 0 <= w <= o_ext x)).
Proof.
  intros c cap tape Hr Hcap. pose proof (reachable_inv c Hr) as Hinv.
  pose proof (cb0_ge c Hinv) as Hb0. pose proof (frameEnd_pos (c_prefs c)) as Hfe.
  pose proof Hinv as (H0 & _).
  assert (Hbig : 0 < c_tmpInSize c -> c_tmpInSize c + 8 <= cap).
  { intros Hp. destruct (0 <? c_tmpInSize c) eqn:Ez; [|lia].
    unfold bfull, BHSize, BFSize in Hb0. destruct (p_bchk (c_prefs c)); cbn [bz] in Hb0; lia. }
  assert (Hcap0 : 0 <= cap) by (destruct (0 <? c_tmpInSize c) eqn:Ez; lia).
  split.
  - pose proof (flush_op_spec c cap tape Hinv Hcap0) as H.
    destruct (flush c cap (wr0 tape)) as [[r c'] w]. destruct H as (_ & (_ & Hx & Hw) & Hok).
    destruct Hok as (n & Hn & Ht); [lia|]. exists n. unfold out_of in *. cbn [o_ret o_ext] in *.
    repeat split; auto; try lia; apply (Hw n Hn).
  - pose proof (end_spec c cap tape Hinv Hcap0) as H.
    destruct (compressEnd c cap tape) as [[x c'] t']. destruct H as (_ & (_ & Hx & Hw) & Hfit).
    destruct Hfit as (He & Hr1 & Hr2); try lia; auto.
    assert (E1 : C10_ERR_frameSize_wrong <> E_tooSmall) by (vm_compute; discriminate).
    assert (E2 : C10_ERR_frameSize_wrong <> E_uninit) by (vm_compute; discriminate).
    repeat split; try lia.
    + destruct Hr1 as [Hr1|(w & Hr1 & _)]; rewrite Hr1; congruence.
    + destruct Hr1 as [Hr1|(w & Hr1 & _)]; rewrite Hr1; congruence.
    + intros Hz. destruct (Hr2 Hz) as (w & Hw1). exists w. split; auto.
Qed.

(* ------------------------------------------------------------------ (c) LZ4F_compressFrameBound suffices for compressFrame *)
Lemma gbs4 : getBlockSize 4 = 65536. Proof. reflexivity. Qed.
Lemma gbs5 : getBlockSize 5 = 262144. Proof. reflexivity. Qed.
Lemma gbs6 : getBlockSize 6 = 1048576. Proof. reflexivity. Qed.
Lemma gbs7 : getBlockSize 7 = 4194304. Proof. reflexivity. Qed.
Lemma gbs0 : getBlockSize 0 = 65536. Proof. reflexivity. Qed.

Lemma opt0 : forall n, optimalBSID 0 n = Some 0. Proof. reflexivity. Qed.
Lemma opt4 : forall n, optimalBSID 4 n = Some 4. Proof. reflexivity. Qed.
Lemma opt5 : forall n, optimalBSID 5 n = if n <=? 65536 then Some 4 else Some 5. Proof. reflexivity. Qed.
Lemma opt6 : forall n, optimalBSID 6 n =
  if n <=? 65536 then Some 4 else if n <=? 262144 then Some 5 else Some 6. Proof. reflexivity. Qed.
Lemma opt7 : forall n, optimalBSID 7 n =
  if n <=? 65536 then Some 4 else if n <=? 262144 then Some 5 else if n <=? 1048576 then Some 6 else Some 7.
Proof. reflexivity. Qed.

Lemma optimalBSID_spec : forall req n, valid_bsid0 req = true -> 0 <= n ->
  exists id, optimalBSID req n = Some id /\ valid_bsid0 id = true /\
    (id = req \/ (n <= getBlockSize id /\ getBlockSize id <= getBlockSize req)).
Proof.
  intros req n Hv Hn. apply valid_bsid0_cases in Hv.
  destruct Hv as [H|[H|[H|[H|H]]]]; subst req.
  - rewrite opt0. exists 0. repeat split; auto.
  - rewrite opt4. exists 4. repeat split; auto.
  - rewrite opt5. destruct (n <=? 65536) eqn:E1.
    + exists 4. split; [reflexivity|]. split; [reflexivity|]. right. rewrite gbs4, gbs5. lia.
    + exists 5. repeat split; auto.
  - rewrite opt6. destruct (n <=? 65536) eqn:E1; [|destruct (n <=? 262144) eqn:E2].
    + exists 4. split; [reflexivity|]. split; [reflexivity|]. right. rewrite gbs4, gbs6. lia.
    + exists 5. split; [reflexivity|]. split; [reflexivity|]. right. rewrite gbs5, gbs6. lia.
    + exists 6. repeat split; auto.
  - rewrite opt7. destruct (n <=? 65536) eqn:E1; [|destruct (n <=? 262144) eqn:E2; [|destruct (n <=? 1048576) eqn:E3]].
    + exists 4. split; [reflexivity|]. split; [reflexivity|]. right. rewrite gbs4, gbs7. lia.
    + exists 5. split; [reflexivity|]. split; [reflexivity|]. right. rewrite gbs5, gbs7. lia.
    + exists 6. split; [reflexivity|]. split; [reflexivity|]. right. rewrite gbs6, gbs7. lia.
    + exists 7. repeat split; auto.
Qed.

Lemma cfb_eq : forall n p, valid_bsid0 (p_bsid p) = true -> 0 <= n ->
  compressFrameBound n (Some p) =
  maxFHSize + core true (p_bchk p) (getBlockSize (p_bsid p)) n 0 + frameEnd p.
Proof.
  intros n p Hv Hn. unfold compressFrameBound.
  pose proof (getBlockSize_vbs _ Hv) as Hb. apply vbs_pos in Hb.
  rewrite cbi_t by (cbn; auto; lia). cbn [set_af p_af p_bchk p_bsid]. unfold frameEnd. cbn [set_af p_cchk]. lia.
Qed.

Lemma begin_prefs_some : forall p,
  getBlockSize (p_bsid (begin_prefs (Some p))) = getBlockSize (p_bsid p) /\
  p_af (begin_prefs (Some p)) = p_af p /\ p_bchk (begin_prefs (Some p)) = p_bchk p /\
  p_cchk (begin_prefs (Some p)) = p_cchk p /\ p_csize (begin_prefs (Some p)) = p_csize p.
Proof.
  intros p. unfold begin_prefs. destruct (p_bsid p =? 0) eqn:E.
  - assert (p_bsid p = 0) by lia. cbn [set_bsid p_bsid p_af p_bchk p_cchk p_csize]. rewrite H. auto.
  - auto.
Qed.

Lemma frame_prefs_spec : forall po n, prefs_ok po -> 0 <= n ->
  exists p, frame_prefs po n = Some p /\ valid_bsid0 (p_bsid p) = true /\ p_af p = true /\
    (p_csize p = 0 \/ p_csize p = n) /\
    compressFrameBound n (Some p) = compressFrameBound n po.
Proof.
  intros po n Hok Hn. unfold frame_prefs.
  set (p0 := match po with None => prefs_zero | Some p => p end) in *.
  assert (Hv0 : valid_bsid0 (p_bsid p0) = true) by (destruct po; [exact Hok|reflexivity]).
  assert (Hcfb : compressFrameBound n po = compressFrameBound n (Some p0)) by (destruct po; reflexivity).
  rewrite Hcfb. clear Hcfb. clearbody p0.
  set (p1 := if p_csize p0 =? 0 then p0 else set_csize p0 n).
  assert (Hp1 : p_bsid p1 = p_bsid p0 /\ p_bchk p1 = p_bchk p0 /\ p_cchk p1 = p_cchk p0 /\
                (p_csize p1 = 0 \/ p_csize p1 = n)).
  { unfold p1. destruct (p_csize p0 =? 0) eqn:E; cbn; repeat split; auto; lia. }
  clearbody p1. destruct Hp1 as (Hb1 & Hc1 & Hcc1 & Hcs1).
  destruct (optimalBSID_spec (p_bsid p1) n) as (id & Hopt & Hvid & Hid); [rewrite Hb1; auto|lia|].
  rewrite Hopt, Hvid. cbn [negb].
  set (p2 := set_af (set_bsid p1 id) true).
  set (p3 := if n <=? getBlockSize (p_bsid p2) then set_linked p2 false else p2).
  assert (Hp3 : p_bsid p3 = id /\ p_bchk p3 = p_bchk p0 /\ p_cchk p3 = p_cchk p0 /\
                p_csize p3 = p_csize p1 /\ p_af p3 = true).
  { unfold p3. destruct (n <=? getBlockSize (p_bsid p2)); cbn; auto. }
  destruct Hp3 as (Hb3 & Hc3 & Hcc3 & Hcs3 & Haf3).
  clearbody p3. clear p2.
  exists p3. split; [reflexivity|].
  assert (Hv3 : valid_bsid0 (p_bsid p3) = true) by (rewrite Hb3; auto).
  split; [exact Hv3|]. split; [exact Haf3|]. split; [rewrite Hcs3; exact Hcs1|].
  pose proof (getBlockSize_vbs _ Hv3) as Hvb3. apply vbs_pos in Hvb3.
  pose proof (getBlockSize_vbs _ Hv0) as Hvb0. apply vbs_pos in Hvb0.
  rewrite (cfb_eq n p3), (cfb_eq n p0) by auto.
  assert (Hfe : frameEnd p3 = frameEnd p0) by (unfold frameEnd; rewrite Hcc3; reflexivity).
  rewrite Hfe, Hc3. rewrite Hb3 in *.
  destruct Hid as [Hid|[Hid1 Hid2]]; [rewrite Hid, Hb1; reflexivity|].
  rewrite Hb1 in Hid2.
  rewrite (core_af_small _ (getBlockSize id)), (core_af_small _ (getBlockSize (p_bsid p0))) by lia. reflexivity.
Qed.

Lemma frame_with_fits : forall p n cap tape,
  valid_bsid0 (p_bsid p) = true -> p_af p = true -> (p_csize p = 0 \/ p_csize p = n) ->
  0 <= n -> compressFrameBound n (Some p) <= cap ->
  exists w, o_ret (compressFrame_with p n cap tape) = Ok w /\
    0 <= w <= o_ext (compressFrame_with p n cap tape) /\
    o_ext (compressFrame_with p n cap tape) <= compressFrameBound n (Some p).
Proof.
  intros p n cap tape Hv Haf Hcs Hn Hcap. unfold compressFrame_with.
  pose proof (getBlockSize_vbs _ Hv) as Hvb. apply vbs_pos in Hvb.
  rewrite (cfb_eq n p) in * by auto.
  assert (HK : 0 <= core true (p_bchk p) (getBlockSize (p_bsid p)) n 0) by (apply core_nonneg; lia).
  set (K := core true (p_bchk p) (getBlockSize (p_bsid p)) n 0) in *.
  pose proof (frameEnd_pos p) as Hfe0. set (fe := frameEnd p) in *.
  destruct (cap <? maxFHSize + K + fe) eqn:Ecap; [lia|].
  (* compressBegin *)
  assert (Hcap0 : 0 <= cap) by (unfold maxFHSize in *; lia).
  pose proof (begin_spec cctx0 (Some p) cap Inv0 Hv Hcap0) as Hbeg.
  destruct (compressBegin cctx0 (Some p) cap) as [o1 c1].
  destruct Hbeg as (Hi1 & Hs1 & Hb).
  assert (Hcapb : maxFHSize <= cap) by lia.
  destruct (Hb Hcapb) as (Hr1 & He1 & Hpr1 & Hst1 & Ht1 & Hu1 & Htot1). clear Hb.
  rewrite Hr1.
  pose proof (header_size_bounds (begin_prefs (Some p))) as Hh. set (hs := header_size (begin_prefs (Some p))) in *.
  unfold minFHSize, maxFHSize in *.
  destruct (begin_prefs_some p) as (Hg4 & Ha4 & Hc4 & Hcc4 & Hcs4).
  (* compressUpdate *)
  assert (Hcap1 : 0 <= cap - hs) by (clear - Hcap Hh HK Hfe0; lia).
  pose proof (update_spec c1 false n (cap - hs) tape Hi1 Hn Hcap1) as Hupd.
  destruct (updateImpl true c1 false n (cap - hs) tape) as [[o2 c2] t2].
  destruct Hupd as (Hi2 & Hs2 & Hfit).
  assert (Hcbi : compressBound_internal n (Some (c_prefs c1)) (c_tmpInSize c1) = K + fe).
  { rewrite Hpr1, Ht1. rewrite cbi_t.
    - rewrite Hg4, Ha4, Hc4, Haf. unfold fe, frameEnd. rewrite Hcc4. reflexivity.
    - apply bsid_in_range_valid0. apply begin_prefs_range. exact Hv.
    - lia.
    - rewrite Hg4. lia. }
  assert (Hpre1 : compressBound_internal n (Some (c_prefs c1)) (c_tmpInSize c1) <= cap - hs) by (clear - Hcbi Hcap Hh HK Hfe0; lia).
  assert (Hpre2 : false = true -> n <= cap - hs) by discriminate.
  assert (Hpre3 : c_unc c1 = false \/ c_tmpInSize c1 = 0) by (left; rewrite Hu1; reflexivity).
  destruct (Hfit Hst1 Hpre1 Hpre2 Hpre3) as (w2 & Hr2 & He2 & Hst2 & Hpr2 & Htot2 & Hu2 & Haf2).
  clear Hfit Hpre1 Hpre2 Hpre3.
  rewrite Hr2. rewrite Hcbi in He2.
  assert (Hfe1 : frameEnd (c_prefs c1) = fe) by (rewrite Hpr1; unfold fe, frameEnd; rewrite Hcc4; reflexivity).
  rewrite Hfe1 in He2.
  destruct Hs2 as (_ & Hx2 & Hw2). specialize (Hw2 w2 Hr2).
  (* compressEnd *)
  assert (Ht2 : c_tmpInSize c2 = 0) by (apply Haf2; rewrite Hpr1, Ha4; exact Haf).
  assert (Hq1 : 0 + fe <= cap - hs - w2) by (clear - Hcap Hh HK Hfe0 He2 Hw2; lia).
  assert (Hcap2 : 0 <= cap - hs - w2) by (clear - Hq1 Hfe0; lia).
  pose proof (end_spec c2 (cap - hs - w2) t2 Hi2 Hcap2) as Hend.
  destruct (compressEnd c2 (cap - hs - w2) t2) as [[o3 c3] t3].
  destruct Hend as (_ & Hs3 & Hfit3). rewrite Ht2 in Hfit3. cbn [Z.ltb] in Hfit3.
  rewrite Hpr2, Hfe1 in Hfit3.
  assert (Hq2 : 0 < 0 -> 0 + 8 <= cap - hs - w2) by (clear; lia).
  destruct (Hfit3 Hq1 Hq2) as (He3 & _ & Hok3). clear Hfit3.
  assert (Hq3 : p_csize (c_prefs c1) = 0 \/ p_csize (c_prefs c1) = c_totalIn c2).
  { rewrite Hpr1, Hcs4, Htot2, Htot1. rewrite Hcs4.
    destruct Hcs as [Hz|Hz]; rewrite Hz.
    - left; reflexivity.
    - right. destruct (n =? 0) eqn:En; cbn [cctx0 c_totalIn]; clear - En; lia. }
  destruct (Hok3 Hq3) as (w3 & Hr3). clear Hok3.
  rewrite Hr3. destruct Hs3 as (_ & Hx3 & Hw3). specialize (Hw3 w3 Hr3).
  destruct Hs1 as (_ & Hx1 & _).
  exists (hs + w2 + w3). cbn [o_ret o_ext]. split; [reflexivity|].
  change (0 <? 0) with false in He3. cbv iota in He3.
  clear - Hcap Hh HK Hfe0 He2 Hw2 He3 Hw3 Hx1 Hx2 Hx3 He1. lia.
Qed.

Lemma frame_fits : forall po n cap tape,
  prefs_ok po -> 0 <= n -> compressFrameBound n po <= cap ->
  exists w, o_ret (compressFrame po n cap tape) = Ok w /\
    0 <= w <= o_ext (compressFrame po n cap tape) /\
    o_ext (compressFrame po n cap tape) <= compressFrameBound n po.
Proof.
  intros po n cap tape Hok Hn Hcap. unfold compressFrame.
  destruct (frame_prefs_spec po n Hok Hn) as (p & Hp & Hv & Haf & Hcs & Hb).
  rewrite Hp. rewrite <- Hb in *. apply frame_with_fits; auto.
Qed.

(* ------------------------------------------------------------------ compressBound(NULL) covers a frame begun with NULL preferences *)
Lemma cb_null_ge : forall n, 0 <= n ->
  compressBound n (Some (begin_prefs None)) <= compressBound n None.
Proof.
  intros n Hn. unfold compressBound. cbn [begin_prefs prefs_init p_bsid LZ4F_max64KB Z.eqb p_af].
  change (if LZ4F_max64KB =? 0 then set_bsid prefs_init LZ4F_BLOCKSIZEID_DEFAULT else prefs_init) with prefs_init.
  cbn [p_af prefs_init].
  unfold compressBound_internal. cbn [prefs_init prefs_null_bound p_af p_bsid p_bchk p_cchk orb bz].
  set (bs := getBlockSize LZ4F_max64KB). set (m := n + Z.min SIZE_MAX (bs - 1)).
  assert (Hbs : bs = 65536) by reflexivity.
  assert (Hm : 0 <= m) by (unfold m; assert (SIZE_MAX = 18446744073709551615) by reflexivity; lia).
  assert (0 <= m / bs) by (apply Z.div_pos; lia).
  assert (0 <= Z.land m (bs - 1)) by (apply Z.land_nonneg; lia).
  set (q := m / bs) in *. set (r := Z.land m (bs - 1)) in *. clearbody q r.
  unfold BHSize, BFSize.
  destruct (n =? 0); destruct (0 <? r) eqn:?; destruct (0 <? 0) eqn:?; nia.
Qed.

(* ------------------------------------------------------------------ (e) the defect F1: without the re-check after the mode-switch flush *)
Definition prefs_F1 : prefs := mkPrefs LZ4F_max64KB false false 0 0 true false.
Definition ops_F1 : list op :=
  [OpBegin (Some prefs_F1) maxFHSize;
   OpUncompressed 1000 (compressBound 1000 (Some prefs_F1));
   OpUpdate 65536 (compressBound 65536 (Some prefs_F1))].

Lemma never_overflows_nofix_refuted :
  exists ops tape c x c' t' w,
    Forall op_wf ops /\ snd (fst (run false cctx0 tape ops)) = c /\
    step false c tape (OpUpdate 65536 (compressBound 65536 (Some (c_prefs c)))) = (x, c', t') /\
    o_ret x = Ok w /\ compressBound 65536 (Some (c_prefs c)) < w.
Proof.
  exists [OpBegin (Some prefs_F1) maxFHSize; OpUncompressed 1000 (compressBound 1000 (Some prefs_F1))], [].
  eexists. eexists. eexists. eexists. eexists.
  split; [repeat constructor; vm_compute; intuition discriminate|].
  split; [vm_compute; reflexivity|].
  split; [vm_compute; reflexivity|].
  split; [reflexivity|]. vm_compute. reflexivity.
Qed.

(* the same history on the current code: dstMaxSize_tooSmall, nothing beyond the capacity *)
Lemma F1_history_now_rejected :
  let '(xs, c, t) := run true cctx0 [] ops_F1 in
  map o_ret xs = [Ok minFHSize; Ok 0; Err E_tooSmall] /\
  Forall2 (fun x o => o_ext x <= cap_of o) xs ops_F1.
Proof. vm_compute. split; [reflexivity|]. repeat constructor; discriminate. Qed.

